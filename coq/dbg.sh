#!/bin/sh
# usage: dbg.sh FILE LINE  -- show the goals just before LINE (debug helper, not part of the build)
f=$1; n=$2
head -n $((n-1)) $f > /tmp/dbg_tmp.v
echo "Show. Abort All." >> /tmp/dbg_tmp.v
cd /verif/coq && coqtop -Q . Ahb -w none < /tmp/dbg_tmp.v 2>&1 | tail -${3:-45}
