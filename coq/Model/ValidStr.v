(* The head of is_valid_expression(expression: str, ...): the string goes through parse_expression_including_unresolved_subexpressions; a
   SyntaxError becomes the verdict (False, str(error)), any other exception propagates, a tree is handed to the evaluation loop
   (Model/Validity.v: is_valid_tree), which is a parameter here. Definitions only. *)
From Ahb Require Import Model.Prelude Model.Grammar Model.Lex Model.EvalAhb Model.Ahb.

Section ValidStr.
Variable message_of : text -> text.                                  (* str(syntax_error): not empty, mentions the expression *)
Variable on_tree : resolved -> result (bool * option text).          (* the try-every-content-evaluation-result loop *)

Definition is_valid_str (s : text) : result (bool * option text) :=
  match resolve_str s with
  | Exn SyntaxErr => Ok (false, Some (message_of s))
  | Exn e => Exn e
  | Ok r => on_tree r
  end.
End ValidStr.
