(* L8 x L11: AhbExpressionTransformer._ahb_expression_async as a PROGRAM of Model/Async.v. The token callbacks run while the tree is transformed
   (before anything is awaited); every part with a condition expression is a coroutine (await requirement_constraint_evaluation, then await
   format_constraint_evaluation of the collected expression), a bare indicator is a plain result; gather_if_necessary gathers the coroutines and
   puts every result back into the slot of its part; the first part whose requirement constraints are fulfilled is returned, else the last one.
   Requirement and format-constraint evaluation are ARBITRARY programs. Definitions only; the refinement proof is Proofs/C09_async.v. *)
From Ahb Require Import Model.Prelude Model.Grammar Gen.Gen_logic Gen.Gen_valmaps Gen.Gen_enums Model.EvalRC Model.EvalFC Model.EvalAhb Model.Async.

Section AA.
Variable U : Type.
Inductive av :=
| AU (u : U)
| AR (r : result rcres)       (* requirement_constraint_evaluation *)
| AF (r : result efc)         (* format_constraint_evaluation *)
| AP (r : result ahbres).     (* one part / the whole expression *)
Definition as_rc (v : av) : result rcres := match v with AR r => r | _ => Exn OtherErr end.
Definition as_fc (v : av) : result efc := match v with AF r => r | _ => Exn OtherErr end.
Definition as_part (v : av) : result ahbres := match v with AP r => r | _ => Exn OtherErr end.

Variable rcp : kexpr -> prog av.
Variable fcp : option fctoks -> prog av.

(* _single_requirement_indicator_expression_async *)
Definition part_prog (i : indicator) (e : kexpr) : prog av :=
  pbind (rcp e) (fun v =>
    match as_rc v with
    | Exn x => Ret (AP (Exn x))
    | Ok r => pbind (fcp (r_fcx r)) (fun w => Ret (AP (do f <- as_fc w ;; Ok {| a_ind := i; a_rc := r; a_fc := f |})))
    end).

(* the list handed to gather_if_necessary: coroutines and plain results *)
Inductive aslot := SPlain (r : ahbres) | SAw (p : prog av).
Definition slot_of (p : part) (i : indicator) : aslot :=
  match p with PExpr _ e => SAw (part_prog i e) | PBare _ => SPlain (bare_result i) end.
Fixpoint slots_of (a : ahb) (inds : list indicator) : list aslot :=
  match a, inds with
  | p :: t, i :: u => slot_of p i :: slots_of t u
  | _, _ => []
  end.
Fixpoint awaitables (l : list aslot) : list (prog av) :=
  match l with [] => [] | SPlain _ :: t => awaitables t | SAw p :: t => p :: awaitables t end.
(* every awaited result goes back to the slot that produced it (index bookkeeping of gather_if_necessary) *)
Fixpoint reinsert (l : list aslot) (rs : list av) : list (result ahbres) :=
  match l with
  | [] => []
  | SPlain r :: t => Ok r :: reinsert t rs
  | SAw _ :: t => match rs with r :: rs' => as_part r :: reinsert t rs' | [] => Exn OtherErr :: reinsert t [] end
  end.
Fixpoint sequence {A} (l : list (result A)) : result (list A) :=
  match l with [] => Ok [] | r :: t => do x <- r ;; do xs <- sequence t ;; Ok (x :: xs) end.

Definition ahb_prog (a : ahb) : prog av :=
  match mapM part_indicator a with
  | Exn x => Ret (AP (Exn x))
  | Ok inds =>
      let l := slots_of a inds in
      Par (awaitables l) (fun rs => Ret (AP (do rs' <- sequence (reinsert l rs) ;; of_option TypeErr (select (1 <? length a) rs'))))
  end.

(* the sequential model with the two evaluations as functions (the format-constraint evaluation of a part may depend on the part: it runs in
   the context the part's requirement evaluation leaves behind) *)
Definition eval_part_gen (rcf : kexpr -> result rcres) (fcf : kexpr -> option fctoks -> result efc) (p : part) (i : indicator) : result ahbres :=
  match p with
  | PExpr _ e => do r <- rcf e ;; do f <- fcf e (r_fcx r) ;; Ok {| a_ind := i; a_rc := r; a_fc := f |}
  | PBare _ => Ok (bare_result i)
  end.
Definition eval_ahb_gen (rcf : kexpr -> result rcres) (fcf : kexpr -> option fctoks -> result efc) (a : ahb) : result ahbres :=
  do inds <- mapM part_indicator a ;;
  do rs <- map2M (eval_part_gen rcf fcf) a inds ;;
  of_option TypeErr (select (1 <? length a) rs).

(* the functions a context and the two programs determine *)
Definition rcf_of (c : ctx av) (e : kexpr) : result rcres := as_rc (den c (rcp e)).
Definition fcf_of (c : ctx av) (e : kexpr) (x : option fctoks) : result efc := as_fc (den (ctx_after c (rcp e)) (fcp x)).
End AA.
Arguments AU {U} u.
Arguments AR {U} r.
Arguments AF {U} r.
Arguments AP {U} r.
Arguments as_rc {U} v.
Arguments as_fc {U} v.
Arguments as_part {U} v.
