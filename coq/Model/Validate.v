(* L10 of DESIGN.md: validation of segment groups, segments and data elements, parametric in the evaluation
   `ev` of a node's (already parsed and resolved) AHB expression. Definitions only. *)
From Ahb Require Import Model.Prelude Model.Grammar Gen.Gen_logic Gen.Gen_valmaps Model.EvalRC Model.EvalFC Model.EvalAhb.

Inductive dtype := DT_TEXT | DT_DATETIME | DT_VALUE_POOL.

Section Validate.
(* a node's expression as the validation sees it: whatever parse_expression_including_unresolved_subexpressions
   returned (a tree or an exception) *)
Variable nx : Type.
Variable ev : nx -> result ahbres.
(* the hint reported for an invalid expression (InvalidExpressionError.error_message) *)
Variable invalid_reason : nx -> text.

Inductive de :=
| DEFree (d : text) (x : nx) (input : option text) (vt : option dtype)
| DEPool (d : text) (pool : list (text * text * nx)) (input : option text).   (* qualifier, meaning, expression *)
Inductive node :=
| NGroup (d : text) (x : nx) (children : list node)    (* sub-groups first, then segments: the order of the code *)
| NSeg (d : text) (x : nx) (des : list de).

Inductive vres :=
| VSeg (rv : rvv) (hints : option text)
| VDe (rv : rvv) (fmt_ok : bool) (fmt_msg : option text) (hints : option text) (possible : option (list (text * text))) (dt : dtype).
Definition vstatus (r : vres) : rvv := match r with VSeg rv _ => rv | VDe rv _ _ _ _ _ => rv end.

Definition is_forbidden (r : rvv) : bool := rvv_eqb r IS_FORBIDDEN.

(* get_segment_level_requirement_validation_value *)
Definition segment_level (x : nx) (parent : option rvv) (soll : bool) : result vres :=
  match ev x with
  | Exn InvalidExpr => Ok (VSeg IS_OPTIONAL (Some (invalid_reason x)))
  | Exn e => Exn e
  | Ok r =>
      do own <- map_rvv (r_fulfilled (a_rc r)) (a_ind r) soll ;;
      do rv <- combine_rvv parent own ;;
      Ok (VSeg rv (r_hints (a_rc r)))
  end.

Definition truthy_opt (o : option text) : bool := match o with Some (_ :: _) => true | _ => false end.

Definition validate_freetext (d : text) (x : nx) (input : option text) (vt : option dtype) (seg_req : option rvv) (soll : bool)
  : result (text * vres) :=
  match ev x with
  | Exn InvalidExpr => Ok (d, VDe IS_OPTIONAL true None (Some (invalid_reason x)) None DT_TEXT)
  | Exn e => Exn e
  | Ok r =>
      do own <- map_rvv (r_fulfilled (a_rc r)) (a_ind r) soll ;;
      do rv0 <- combine_rvv seg_req own ;;
      do rv <- rvv_suffix (truthy_opt input) rv0 ;;
      Ok (d, VDe rv (ff (a_fc r)) (fmsg (a_fc r)) (r_hints (a_rc r)) None (match vt with Some t => t | None => DT_TEXT end))
  end.

(* possible_values: an insertion-ordered dict *)
Fixpoint dict_set (l : list (text * text)) (k v : text) : list (text * text) :=
  match l with
  | [] => [(k, v)]
  | (k', v') :: t => if text_eqb k k' then (k', v) :: t else (k', v') :: dict_set t k v
  end.
Definition dict_mem (l : list (text * text)) (k : text) : bool := existsb (fun p => text_eqb k (fst p)) l.

Fixpoint pool_possible (pool : list (text * text * nx)) (acc : list (text * text)) : result (list (text * text)) :=
  match pool with
  | [] => Ok acc
  | (q, m, x) :: t =>
      do sel <- match ev x with
                | Exn InvalidExpr => Ok true
                | Exn e => Exn e
                | Ok r => Ok (is_true (r_fulfilled (a_rc r)))
                end ;;
      pool_possible t (if sel then dict_set acc q m else acc)
  end.

Definition t_der_wert : text := [68;101;114;32;87;101;114;116;32;39]%N.                          (* "Der Wert '" *)
Definition t_ist_nicht_in : text := [39;32;105;115;116;32;110;105;99;104;116;32;105;110;58;32;123]%N.   (* "' ist nicht in: {" *)
Fixpoint join_comma (l : list text) : text :=
  match l with [] => [] | [x] => x | x :: t => x ++ [44; 32]%N ++ join_comma t end.

Definition validate_valuepool (d : text) (pool : list (text * text * nx)) (input : option text) (seg_req : rvv)
  : result (text * vres) :=
  do possible <- (if negb (is_forbidden seg_req) then
                    match pool with
                    | [(q, m, _)] => Ok [(q, m)]
                    | _ => pool_possible pool []
                    end
                  else Ok []) ;;
  match possible with
  | [] => Ok (d, VDe IS_FORBIDDEN true None None (Some []) DT_VALUE_POOL)
  | _ =>
      match input with
      | Some i =>
          if dict_mem possible i then Ok (d, VDe IS_REQUIRED_AND_FILLED true None None (Some possible) DT_VALUE_POOL)
          else if truthy_opt input then
            Ok (d, VDe IS_REQUIRED_AND_EMPTY false None
                       (Some (t_der_wert ++ i ++ t_ist_nicht_in ++ join_comma (map fst possible) ++ [125%N]))
                       (Some possible) DT_VALUE_POOL)
          else Ok (d, VDe IS_REQUIRED_AND_EMPTY true None None (Some possible) DT_VALUE_POOL)
      | None => Ok (d, VDe IS_REQUIRED_AND_EMPTY true None None (Some possible) DT_VALUE_POOL)
      end
  end.

Definition validate_de (e : de) (seg_req : rvv) (soll : bool) : result (text * vres) :=
  match e with
  | DEFree d x input vt => validate_freetext d x input vt (Some seg_req) soll
  | DEPool d pool input => validate_valuepool d pool input seg_req
  end.

(* validate_segment_group / validate_segment: results in document order, nothing below a forbidden node;
   the first exception in document order wins (children are gathered in order) *)
Fixpoint validate_node (n : node) (parent : option rvv) (soll : bool) : result (list (text * vres)) :=
  match n with
  | NGroup d x children =>
      do r <- (if match parent with Some p => is_forbidden p | None => false end
               then Ok (VSeg IS_FORBIDDEN None) else segment_level x parent soll) ;;
      if is_forbidden (vstatus r) then Ok [(d, r)]
      else
        do rest <- (fix go (l : list node) : result (list (text * vres)) :=
                      match l with
                      | [] => Ok []
                      | c :: t => do a <- validate_node c (Some (vstatus r)) soll ;; do b <- go t ;; Ok (a ++ b)
                      end) children ;;
        Ok ((d, r) :: rest)
  | NSeg d x des =>
      do r <- (if match parent with Some p => is_forbidden p | None => false end
               then Ok (VSeg IS_FORBIDDEN None) else segment_level x parent soll) ;;
      if is_forbidden (vstatus r) then Ok [(d, r)]
      else
        do rest <- mapM (fun e => validate_de e (vstatus r) soll) des ;;
        Ok ((d, r) :: rest)
  end.

(* validate_deep_anwendungshandbuch *)
Definition validate_ahb (lines : list node) (soll : bool) : result (list (text * vres)) :=
  do rs <- mapM (fun n => validate_node n None soll) lines ;; Ok (concat rs).
End Validate.
Arguments NGroup {nx} d x children.
Arguments NSeg {nx} d x des.
Arguments DEFree {nx} d x input vt.
Arguments DEPool {nx} d pool input.
