(* is_valid_expression on a resolved AHB tree: every possible content evaluation result (Model/Keys.v: generate) is tried,
   the first exception decides (asyncio.gather over tasks that never yield). Definitions only. *)
From Ahb Require Import Model.Prelude Model.Grammar Gen.Gen_logic Gen.Gen_valmaps Gen.Gen_enums Model.EvalRC Model.EvalFC Model.EvalAhb Model.Keys.

(* the ContentEvaluationResult handed to the evaluators through the setter *)
Definition cer_of (g : gen_result) : cer :=
  {| c_rc := g_rc g;
     c_hints := map (fun kv => (fst kv, Some (snd kv))) (g_hints g);
     c_fc := map (fun kv => (fst kv, (snd kv, None))) (g_fc g) |}.

Fixpoint try_all (a : ahb) (gs : list gen_result) : result bool :=
  match gs with
  | [] => Ok true
  | g :: t => match eval_ahb (cer_of g) a with
              | Ok _ => try_all a t
              | Exn InvalidExpr => Ok false       (* -> (False, error_message) *)
              | Exn e => Exn e
              end
  end.

(* categorized keys of the whole tree (sanitized), then all generated results *)
Definition is_valid_tree (a : ahb) (hs fcs rcs : list text) : result bool := try_all a (generate hs fcs rcs).
