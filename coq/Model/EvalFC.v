(* L7 of DESIGN.md: FormatConstraintTransformer, FormatErrorMessageExpressionBuilder, format_constraint_evaluation. *)
From Ahb Require Import Model.Prelude Model.Grammar Model.EvalRC.

Record efc := { ff : bool; fmsg : option text }.   (* EvaluatedFormatConstraint *)

Definition t_none : text := [78;111;110;101]%N.                      (* f"{None}" = "None" *)
Definition msg_str (o : option text) : text := match o with Some t => t | None => t_none end.
Definition q : text := [39%N].
Definition t_und_q : text := [39;32;117;110;100;32;39]%N.             (* "' und '" *)
Definition t_oder_q : text := [39;32;111;100;101;114;32;39]%N.         (* "' oder '" *)
Definition t_entweder_q : text := [69;110;116;119;101;100;101;114;32;39]%N.  (* "Entweder '" *)
(* "Zwei exklusive Formatdefinitionen dürfen nicht gleichzeitig erfüllt sein" *)
Definition t_zwei : text :=
  [90;119;101;105;32;101;120;107;108;117;115;105;118;101;32;70;111;114;109;97;116;100;101;102;105;110;105;116;105;111;110;101;110;32;
   100;252;114;102;101;110;32;110;105;99;104;116;32;103;108;101;105;99;104;122;101;105;116;105;103;32;101;114;102;252;108;108;116;32;115;101;105;110]%N.

Definition fem_land (l r : efc) : option text :=
  if ff r then fmsg l
  else match fmsg l with
       | None => fmsg r
       | Some s => Some (q ++ s ++ t_und_q ++ msg_str (fmsg r) ++ q)
       end.
Definition fem_lor (l r : efc) : option text :=
  if negb (ff l) && negb (ff r) then Some (q ++ msg_str (fmsg l) ++ t_oder_q ++ msg_str (fmsg r) ++ q) else None.
Definition fem_xor (l r : efc) : option text :=
  if negb (ff l) && negb (ff r) then Some (t_entweder_q ++ msg_str (fmsg l) ++ t_oder_q ++ msg_str (fmsg r) ++ q)
  else if ff l && ff r then Some t_zwei else None.

Definition fc_compose (b : binop) (l r : efc) : result efc :=
  match b with
  | BAnd => Ok {| ff := ff l && ff r; fmsg := fem_land l r |}
  | BOr => Ok {| ff := ff l || ff r; fmsg := fem_lor l r |}
  | BXor => Ok {| ff := xorb (ff l) (ff r); fmsg := fem_xor l r |}
  | BThen => Exn AttrErr   (* no callback: the Tree object reaches the parent / the caller, which reads an attribute of it *)
  end.

Definition fenv := list (text * efc).

Fixpoint eval_fc (beta : fenv) (e : kexpr) : result efc :=
  match e with
  | EAtom k => of_option ValueErr (lookup beta k)
  | EBin b l r => do x <- eval_fc beta l ;; do y <- eval_fc beta r ;; fc_compose b x y
  end.

(* FcEvaluator answering from a dict (DictBased / ContentEvaluationResultBased): missing key -> NotImplementedError *)
Definition build_fenv (c : cer) (keys : list text) : result fenv :=
  mapM (fun k => do v <- of_option NotImpl (lookup (c_fc c) k) ;; Ok (k, {| ff := fst v; fmsg := snd v |})) keys.

(* format_constraint_evaluation on an already parsed expression; None / "" -> fulfilled *)
Definition fc_evaluation (c : cer) (e : option kexpr) : result efc :=
  match e with
  | None => Ok {| ff := true; fmsg := None |}
  | Some t => do beta <- build_fenv c (keys_of t) ;; eval_fc beta t
  end.

(* the unique tree of a builder-made expression: every bracket level holds one item or item-operator-item *)
Definition lop_binop (o : lop) : binop := match o with LU => BAnd | LO => BOr | LX => BXor end.
Fixpoint fc_tree_item (fuel : nat) (x : fitem) : option kexpr :=
  match fuel with
  | 0 => None
  | Datatypes.S f =>
    match x with
    | FK k => Some (EAtom k)
    | FOp _ => None
    | FG [a] => fc_tree_item f a
    | FG [a; FOp o; b] =>
        match fc_tree_item f a, fc_tree_item f b with
        | Some x, Some y => Some (EBin (lop_binop o) x y)
        | _, _ => None
        end
    | FG _ => None
    end
  end.
Fixpoint fitem_size (x : fitem) : nat :=
  match x with FG g => Datatypes.S (list_sum (map fitem_size g)) | _ => 1 end.
Definition fc_tree (e : fctoks) : option kexpr := fc_tree_item (Datatypes.S (fitem_size (FG e))) (FG e).
