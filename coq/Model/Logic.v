(* The four-valued logic: total views of the generated (translated) operators. *)
From Ahb Require Import Model.Prelude Gen.Gen_logic.

Definition total2 (f : cfv -> cfv -> result cfv) (a b : cfv) : cfv :=
  match f a b with Ok c => c | Exn _ => C_NEUTRAL end.
Definition cand := total2 cfv_and.
Definition cor := total2 cfv_or.
Definition cxor := total2 cfv_xor.

(* a' is a replacement of UNKNOWN by a definite state (and equal to a otherwise) *)
Definition refines (a a' : cfv) : Prop :=
  match a with C_UNKNOWN => a' = C_FULFILLED \/ a' = C_UNFULFILLED | _ => a' = a end.

Definition cfv_of_bool (b : bool) : cfv := if b then C_FULFILLED else C_UNFULFILLED.

Definition row_ok (f : cfv -> cfv -> result cfv) (row : cfv * cfv * option cfv) : Prop :=
  match row with
  | (a, b, Some c) => f a b = Ok c /\ f b a = Ok c
  | (_, _, None) => True   (* "does not make sense": the C06 cases *)
  end.
