(* The documented semantics the evaluation is compared with: structural domain, structural validity,
   compositional four-valued semantics, direct reading of format constraints. Definitions only. *)
From Ahb Require Import Model.Prelude Model.Grammar Gen.Gen_logic Gen.Gen_ranges Model.Logic Model.EvalRC.

Definition kind_of (k : text) : option nkind := match leaf_kind k with Ok kd => Some kd | Exn _ => None end.
Definition is_kind (kd : nkind) (k : text) : bool :=
  match kind_of k with Some kd' => nkind_eqb kd kd' | None => false end.

Definition leaf_is (kd : nkind) (e : kexpr) : bool := match e with EAtom k => is_kind kd k | _ => false end.
Definition hint_leaf := leaf_is KHint.
Definition fc_leaf := leaf_is KFc.

Fixpoint carries_rc (e : kexpr) : bool :=
  match e with EAtom k => is_kind KRc k | EBin _ l r => carries_rc l || carries_rc r end.

(* juxtaposition attaches a single format-constraint key to a hint or to an operand containing a requirement constraint *)
Definition attachable (e : kexpr) : bool := hint_leaf e || carries_rc e.
Fixpoint dom (e : kexpr) : bool :=
  match e with
  | EAtom k => match kind_of k with Some _ => true | None => false end
  | EBin BThen l r => dom l && dom r && ((fc_leaf l && attachable r) || (fc_leaf r && attachable l))
  | EBin _ l r => dom l && dom r
  end.

(* validity is structural (C06) *)
Definition or_xor_ok (l r : kexpr) : bool :=
  negb ((hint_leaf l && fc_leaf r) || (fc_leaf l && hint_leaf r)) && Bool.eqb (carries_rc l) (carries_rc r).
Fixpoint valid (e : kexpr) : bool :=
  match e with
  | EAtom _ => true
  | EBin BOr l r | EBin BXor l r => valid l && valid r && or_xor_ok l r
  | EBin _ l r => valid l && valid r
  end.

(* compositional semantics (C04): hints and format constraints count as NEUTRAL, an attached format constraint
   leaves the state of its partner unchanged *)
Fixpoint sem (a : text -> cfv) (e : kexpr) : cfv :=
  match e with
  | EAtom k => if is_kind KRc k then a k else C_NEUTRAL
  | EBin BAnd l r => cand (sem a l) (sem a r)
  | EBin BOr l r => cor (sem a l) (sem a r)
  | EBin BXor l r => cxor (sem a l) (sem a r)
  | EBin BThen l r => if fc_leaf l then sem a r else sem a l
  end.

(* input nodes as the ConditionNodeBuilder builds them, for the assignment a *)
Definition node_ok (a : text -> cfv) (k : text) (n : node) : Prop :=
  match kind_of k with
  | Some KRc => nk n = KRc /\ st n = a k /\ a k <> C_NEUTRAL /\ nhint n = None /\ nfcx n = None
  | Some KHint => nk n = KHint /\ st n = C_NEUTRAL /\ nfcx n = None
  | Some KFc => nk n = KFc /\ st n = C_NEUTRAL /\ nkey n = k /\ nhint n = None /\ nfcx n = None
  | _ => False
  end.
Definition env_ok (a : text -> cfv) (rho : env) (e : kexpr) : Prop :=
  forall k, In k (keys_of e) -> exists n, lookup rho k = Some n /\ node_ok a k n.

Definition outcome (s : cfv) : option bool * option bool := outcome_of s.

(* one-hole contexts (C05) *)
Inductive ctx := CHole | CL (b : binop) (c : ctx) (r : kexpr) | CR (b : binop) (l : kexpr) (c : ctx).
Fixpoint plug (c : ctx) (e : kexpr) : kexpr :=
  match c with
  | CHole => e
  | CL b c r => EBin b (plug c e) r
  | CR b l c => EBin b l (plug c e)
  end.
(* the hole is an operand of U/O/X (or the whole expression) *)
Fixpoint hole_under_uox (c : ctx) : bool :=
  match c with
  | CHole => true
  | CL BThen CHole _ | CR BThen _ CHole => false
  | CL _ c _ | CR _ _ c => hole_under_uox c
  end.

(* information order on assignments: UNKNOWN may be resolved to FULFILLED / UNFULFILLED *)
Definition refines_env (a a' : text -> cfv) : Prop := forall k, refines (a k) (a' k).

(* direct reading of the collected format constraints (C07, interpretation S1) *)
Inductive fcexpr := FcK (k : text) | FcB (b : binop) (l r : fcexpr).
Definition fc_join (b : binop) (x y : option fcexpr) : option fcexpr :=
  match x, y with
  | None, _ => y
  | _, None => x
  | Some p, Some q => Some (FcB b p q)
  end.
Definition rd_attach (kf : kexpr) (sx : cfv) (xhint : bool) (rx : option fcexpr) : option fcexpr :=
  if cfv_eqb sx C_FULFILLED || xhint
  then fc_join BAnd (match kf with EAtom k => Some (FcK k) | _ => None end) rx
  else None.
Fixpoint rd (a : text -> cfv) (e : kexpr) : option fcexpr :=
  match e with
  | EAtom k => if is_kind KFc k then Some (FcK k) else None
  | EBin BThen l r =>
      if fc_leaf l then rd_attach l (sem a r) (hint_leaf r) (rd a r)
      else rd_attach r (sem a l) (hint_leaf l) (rd a l)
  | EBin b l r => fc_join b (rd a l) (rd a r)
  end.
Fixpoint beval (beta : text -> bool) (f : fcexpr) : bool :=
  match f with
  | FcK k => beta k
  | FcB BAnd l r => beval beta l && beval beta r
  | FcB BOr l r => beval beta l || beval beta r
  | FcB BXor l r => xorb (beval beta l) (beval beta r)
  | FcB BThen l r => beval beta l && beval beta r
  end.
Fixpoint fc_keys (f : fcexpr) : list text := match f with FcK k => [k] | FcB _ l r => fc_keys l ++ fc_keys r end.
