(* L11 -- the concurrency skeleton of ahbicht (C12, C15). Definitions only; lemmas are in Proofs/C12_async.v.

   What is modelled (library behaviour, tied by the correspondence of vlib/props/c12.py and c15.py):
   - asyncio.gather over coroutines: every coroutine is wrapped into a task; a task copies the CURRENT contextvars.Context
     when it is created; the awaiting task continues, in its own unchanged context, once all children are done and
     receives their results IN ARGUMENT ORDER ([Par]).
   - a ContextVar is a task-local variable ([Get]/[Put] on the context of the running task); `await coro()` (no
     gather) runs in the same task and therefore in the same context ([pbind]).
   - the event loop: any task that is not waiting for children may perform its next instruction ([step], rule
     [s_child] picks an arbitrary child). This is coarser than the real loop (FIFO ready queue, a task runs
     without interruption from one suspension point to the next): every real schedule is a [steps] sequence, not
     conversely.
   - user supplied evaluators / hint providers / package resolvers are arbitrary [prog]s: they may [Yield] any
     number of times, read and write their task-local context and gather again. They have no other shared state
     (assumption A-evaluators-pure). *)
From Ahb Require Import Model.Prelude.
Set Implicit Arguments.

Section Lang.
  Variable V : Type.                       (* values returned by awaitables *)

  Definition var := nat.                   (* names of context variables *)
  Definition ctx := var -> V.              (* a contextvars.Context *)
  Definition upd (c : ctx) (x : var) (v : V) : ctx := fun y => if Nat.eqb y x then v else c y.

  Inductive prog :=
  | Ret (v : V)                                    (* return v *)
  | Yield (k : prog)                               (* await asyncio.sleep(0): give the loop a chance to run others *)
  | Get (x : var) (k : V -> prog)                  (* x.get() *)
  | Put (x : var) (v : V) (k : prog)               (* x.set(v)   ("Set" of DESIGN L11; Set is a Coq keyword) *)
  | Par (ps : list prog) (k : list V -> prog).     (* rs = await asyncio.gather of ps; continue with k rs *)

  Fixpoint yields (n : nat) (p : prog) : prog :=
    match n with 0 => p | Datatypes.S m => Yield (yields m p) end.

  (* `v = await p ; f v` inside one task (same context: a [Put] of p is seen by f) *)
  Fixpoint pbind (p : prog) (f : V -> prog) : prog :=
    match p with
    | Ret v => f v
    | Yield k => Yield (pbind k f)
    | Get x k => Get x (fun v => pbind (k v) f)
    | Put x v k => Put x v (pbind k f)
    | Par ps k => Par ps (fun rs => pbind (k rs) f)
    end.

  (* "nothing ever yields": children of a gather run to completion one after the other, left to right, each in a
     copy of the parent's context; what a child writes to its context is dropped with the child *)
  Fixpoint den (c : ctx) (p : prog) : V :=
    match p with
    | Ret v => v
    | Yield k => den c k
    | Get x k => den c (k (c x))
    | Put x v k => den (upd c x v) k
    | Par ps k => den c (k (map (den c) ps))
    end.
  (* the context in which the code after `await p` continues *)
  Fixpoint ctx_after (c : ctx) (p : prog) : ctx :=
    match p with
    | Ret _ => c
    | Yield k => ctx_after c k
    | Get x k => ctx_after c (k (c x))
    | Put x v k => ctx_after (upd c x v) k
    | Par ps k => ctx_after c (k (map (den c) ps))
    end.

  (* task trees: a task is finished, about to run the rest p of its coroutine in its context c, or blocked in a
     gather whose children are tasks themselves *)
  Inductive conf :=
  | Done (v : V)
  | Run (c : ctx) (p : prog)
  | Wait (c : ctx) (cs : list conf) (k : list V -> prog).

  Definition initial (c : ctx) (p : prog) : conf := Run c p.

  Inductive step : conf -> conf -> Prop :=
  | s_ret c v : step (Run c (Ret v)) (Done v)
  | s_yield c k : step (Run c (Yield k)) (Run c k)
  | s_get c x k : step (Run c (Get x k)) (Run c (k (c x)))
  | s_put c x v k : step (Run c (Put x v k)) (Run (upd c x v) k)
  | s_fork c ps k : step (Run c (Par ps k)) (Wait c (map (Run c) ps) k)            (* every child gets a copy of c *)
  | s_child c l1 q q' l2 k : step q q' -> step (Wait c (l1 ++ q :: l2) k) (Wait c (l1 ++ q' :: l2) k)  (* ANY child *)
  | s_join c vs k : step (Wait c (map Done vs) k) (Run c (k vs)).                  (* results in argument order *)

  Inductive steps : conf -> conf -> Prop :=
  | steps_refl q : steps q q
  | steps_step q1 q2 q3 : step q1 q2 -> steps q2 q3 -> steps q1 q3.

  (* the denotation of a configuration (the invariant of C12_schedule_independent) *)
  Fixpoint cden (q : conf) : V :=
    match q with
    | Done v => v
    | Run c p => den c p
    | Wait c cs k => den c (k (map cden cs))
    end.

  (* number of steps every schedule needs (termination measure) *)
  Definition sum (l : list nat) : nat := fold_right Nat.add 0 l.
  Fixpoint cost (c : ctx) (p : prog) : nat :=
    match p with
    | Ret _ => 1
    | Yield k => Datatypes.S (cost c k)
    | Get x k => Datatypes.S (cost c (k (c x)))
    | Put x v k => Datatypes.S (cost (upd c x v) k)
    | Par ps k => Datatypes.S (sum (map (cost c) ps) + Datatypes.S (cost c (k (map (den c) ps))))
    end.
  Fixpoint ccost (q : conf) : nat :=
    match q with
    | Done _ => 0
    | Run c p => cost c p
    | Wait c cs k => sum (map ccost cs) + Datatypes.S (cost c (k (map cden cs)))
    end.

  (* ---- an executable scheduler: [step_at n q] lets the n-th runnable task (left to right) perform one step *)
  Fixpoint dones (cs : list conf) : option (list V) :=
    match cs with
    | [] => Some []
    | Done v :: t => option_map (cons v) (dones t)
    | _ :: _ => None
    end.
  Fixpoint runnable (q : conf) : nat :=
    match q with
    | Done _ => 0
    | Run _ _ => 1
    | Wait _ cs _ => match dones cs with Some _ => 1 | None => sum (map runnable cs) end
    end.
  Section StepList.
    Variable f : nat -> conf -> option conf.
    Fixpoint step_list (n : nat) (l : list conf) : option (list conf) :=
      match l with
      | [] => None
      | x :: t => if Nat.ltb n (runnable x) then option_map (fun x' => x' :: t) (f n x)
                  else option_map (cons x) (step_list (n - runnable x) t)
      end.
  End StepList.
  Definition step_run (c : ctx) (p : prog) : conf :=
    match p with
    | Ret v => Done v
    | Yield k => Run c k
    | Get x k => Run c (k (c x))
    | Put x v k => Run (upd c x v) k
    | Par ps k => Wait c (map (Run c) ps) k
    end.
  Fixpoint step_at (n : nat) (q : conf) : option conf :=
    match q with
    | Done _ => None
    | Run c p => Some (step_run c p)
    | Wait c cs k =>
        match dones cs with
        | Some vs => Some (Run c (k vs))
        | None => option_map (fun cs' => Wait c cs' k) (step_list step_at n cs)
        end
    end.
  (* run [fuel] steps; the i-th step is taken by runnable task number (choice_i mod number of runnable tasks);
     when the choices are used up the leftmost runnable task runs *)
  Fixpoint run_sched (fuel : nat) (choices : list nat) (q : conf) : conf :=
    match fuel with
    | 0 => q
    | Datatypes.S fuel' =>
        let '(n, rest) := match choices with [] => (0, []) | n :: r => (n, r) end in
        match step_at (Nat.modulo n (runnable q)) q with
        | Some q' => run_sched fuel' rest q'
        | None => q
        end
    end.
  Definition run_to_end (choices : list nat) (c : ctx) (p : prog) : conf :=
    run_sched (cost c p) choices (initial c p).
End Lang.

Arguments Done {V} v.
Arguments Ret {V} v.

(* ------------------------------------------------------------------------------------------------------------
   The gather+zip sites of ahbicht as programs over a small universe of Python values.
   An exception raised by an awaitable is the value [VE e]; `await gather(...)` re-raises ([gather_k]).
   Partial: when several children raise, asyncio re-raises the one that is raised FIRST in time (schedule
   dependent by design); the model takes the leftmost one, which is what asyncio does when nothing yields. *)
Inductive val :=
| VNone
| VB (b : bool)
| VN (n : N)
| VT (t : text)
| VL (l : list val)          (* list / tuple; a dict is the list of its [VL [VT key; value]] items in insertion order *)
| VE (e : exn).              (* a raised exception *)

Fixpoint val_eqb (a b : val) : bool :=
  match a, b with
  | VNone, VNone => true
  | VB x, VB y => Bool.eqb x y
  | VN x, VN y => N.eqb x y
  | VT x, VT y => text_eqb x y
  | VL x, VL y =>
      (fix go (l1 l2 : list val) : bool :=
         match l1, l2 with
         | [], [] => true
         | u :: t1, w :: t2 => val_eqb u w && go t1 t2
         | _, _ => false
         end) x y
  | VE x, VE y => exn_eqb x y
  | _, _ => false
  end.

Definition TEXT : var := 0.      (* fc_evaluators.text_to_be_evaluated_by_format_constraint *)
Definition CER : var := 1.       (* the user's ContextVar behind content_evaluation_result_setter / EvaluatableDataProvider *)
Definition ctx0 : ctx val := fun _ => VNone.      (* ContextVar(default=None) *)

Fixpoint first_exn (rs : list val) : option exn :=
  match rs with
  | [] => None
  | VE e :: _ => Some e
  | _ :: t => first_exn t
  end.
(* what the code after `rs = await asyncio.gather(...)` does with the gathered list *)
Definition gather_k (rs : list val) (k : list val -> prog val) : prog val :=
  match first_exn rs with Some e => Ret (VE e) | None => k rs end.
Definition gather_v (rs : list val) (f : list val -> val) : val :=
  match first_exn rs with Some e => VE e | None => f rs end.

(* Python dict: assignment to an existing key keeps the position of the key and replaces the value *)
Definition dict := list (text * val).
Fixpoint dict_set (d : dict) (k : text) (v : val) : dict :=
  match d with
  | [] => [(k, v)]
  | (k', v') :: t => if text_eqb k' k then (k', v) :: t else (k', v') :: dict_set t k v
  end.
Fixpoint dict_get (d : dict) (k : text) : option val :=
  match d with
  | [] => None
  | (k', v') :: t => if text_eqb k' k then Some v' else dict_get t k
  end.
Definition dict_of_pairs (kvs : list (text * val)) (d0 : dict) : dict :=
  fold_left (fun d kv => dict_set d (fst kv) (snd kv)) kvs d0.
(* dict(zip(keys, results)): with a repeated key the LAST result for that key is kept (at the position of the first) *)
Definition dict_zip (keys : list text) (rs : list val) : dict := dict_of_pairs (combine keys rs) [].
Definition vdict (d : dict) : val := VL (map (fun kv => VL [VT (fst kv); snd kv]) d).

(* RcEvaluator.evaluate_conditions: tasks = [evaluate_single_condition(k) for k in keys]; dict(zip(keys, gather)) *)
Definition rc_site (keys : list text) (aws : list (prog val)) : prog val :=
  Par aws (fun rs => gather_k rs (fun rs => Ret (vdict (dict_zip keys rs)))).

(* FcEvaluator.evaluate_format_constraints: every task first reads the ContextVar, then runs the user's method
   on the text (the method may yield and may read the ContextVar again) *)
Definition fc_site (keys : list text) (evs : list (val -> prog val)) : prog val :=
  Par (map (fun ev => Get TEXT ev) evs) (fun rs => gather_k rs (fun rs => Ret (vdict (dict_zip keys rs)))).

(* HintsProvider.get_hints: gather, then `for key, value in zip(keys, results)`: None raises KeyError (if
   raise_key_error) or is skipped, everything else is stored *)
Fixpoint hints_loop (kvs : list (text * val)) (raise_key_error : bool) (d : dict) : val :=
  match kvs with
  | [] => vdict d
  | (k, VNone) :: t => if raise_key_error then VE KeyErr else hints_loop t raise_key_error d
  | (k, v) :: t => hints_loop t raise_key_error (dict_set d k v)
  end.
Definition hints_site (keys : list text) (aws : list (prog val)) (raise_key_error : bool) : prog val :=
  Par aws (fun rs => gather_k rs (fun rs => Ret (hints_loop (combine keys rs) raise_key_error []))).

(* gather_if_necessary (modal-mark parts) and _replace_sub_coroutines_with_awaited_results (package occurrences):
   a list of slots, some plain, some awaitable; the awaitables are gathered and every result is put back into the
   slot that produced it (by index bookkeeping resp. by identity of the placeholder coroutine) *)
Inductive slot := Plain (v : val) | Aw (p : prog val).
Fixpoint awaitables (l : list slot) : list (prog val) :=
  match l with
  | [] => []
  | Plain _ :: t => awaitables t
  | Aw p :: t => p :: awaitables t
  end.
Fixpoint reinsert (l : list slot) (rs : list val) : list val :=
  match l with
  | [] => []
  | Plain v :: t => v :: reinsert t rs
  | Aw _ :: t => match rs with r :: rs' => r :: reinsert t rs' | [] => VNone :: reinsert t [] end
  end.
Definition mixed_site (l : list slot) (k : list val -> prog val) : prog val :=
  Par (awaitables l) (fun rs => gather_k rs (fun rs => k (reinsert l rs))).
(* AhbExpressionTransformer._ahb_expression_async: the first part whose requirement constraints are fulfilled,
   else the last one; a part is [VL (VB fulfilled :: payload)] *)
Definition part_fulfilled (v : val) : bool := match v with VL (VB true :: _) => true | _ => false end.
Fixpoint select_part (parts : list val) : val :=
  match parts with
  | [] => VE OtherErr                      (* results[-1] of an empty list: cannot happen, the grammar needs a part *)
  | [p] => p
  | p :: t => if part_fulfilled p then p else select_part t
  end.
Definition parts_site (l : list slot) : prog val := mixed_site l (fun parts => Ret (select_part parts)).
(* expand_packages: the leaves of the tree in order, package occurrences replaced by what their own resolver call
   returned (a [VL] of leaves) *)
Definition packages_site (l : list slot) : prog val := mixed_site l (fun leaves => Ret (VL leaves)).

(* is_valid_expression: one task per possible content evaluation result; each task calls the setter (a ContextVar
   backed store) and then evaluates. InvalidExpressionError of any task = "invalid"; other exceptions propagate.
   The result carries, next to the verdict, what every task computed (what it saw). *)
Definition is_valid_site (cers : list val) (evaluate : prog val) : prog val :=
  Par (map (fun cer => Put CER cer evaluate) cers)
      (fun rs => Ret (match first_exn rs with
                      | Some InvalidExpr => VL [VB false; VL rs]
                      | Some e => VE e
                      | None => VL [VB true; VL rs]
                      end)).

(* validation (C15). A free-text data element: parse/resolve (may yield), SET the ContextVar to the element's own
   input, evaluate the requirement constraints (may yield), then the format constraints: a gather whose children
   read the ContextVar. Siblings may be arbitrary other tasks (value-pool elements, segments, groups). *)
Record elem := {
  e_pre : nat;                         (* suspensions before the ContextVar is set *)
  e_text : val;                        (* data_element.entered_input *)
  e_mid : nat;                         (* suspensions between set and the format-constraint gather *)
  e_fcs : list (val -> prog val);      (* the user's evaluate_<key>(text) methods of the element's FC keys *)
  e_post : list val -> val             (* the element's validation result from the FC results *)
}.
Definition elem_prog (e : elem) : prog val :=
  yields (e_pre e)
    (Put TEXT (e_text e)
       (yields (e_mid e)
          (Par (map (fun ev => Get TEXT ev) (e_fcs e)) (fun rs => gather_k rs (fun rs => Ret (e_post e rs)))))).

Inductive vtree :=
| TElem (e : elem)                               (* validate_data_element_freetext *)
| TTask (p : prog val)                           (* any other concurrently validated thing (value pool element, ...) *)
| TNode (pre : nat) (children : list vtree).     (* validate_segment / validate_segment_group / validate_deep_ahb *)
Fixpoint tree_prog (t : vtree) : prog val :=
  match t with
  | TElem e => elem_prog e
  | TTask p => p
  | TNode pre ch => yields pre (Par (map tree_prog ch) (fun rs => gather_k rs (fun rs => Ret (VL rs))))
  end.
Definition validate_segment_site (pre : nat) (els : list elem) : prog val := tree_prog (TNode pre (map TElem els)).

(* the discipline the ContextVar prevents: the parent sets the text of every element before the gather, the
   children only read *)
Definition elem_prog_noset (e : elem) : prog val :=
  yields (e_pre e)
    (yields (e_mid e)
       (Par (map (fun ev => Get TEXT ev) (e_fcs e)) (fun rs => gather_k rs (fun rs => Ret (e_post e rs))))).
Definition validate_segment_set_in_parent (pre : nat) (els : list elem) : prog val :=
  yields pre
    (fold_right (fun e k => Put TEXT (e_text e) k)
       (Par (map elem_prog_noset els) (fun rs => gather_k rs (fun rs => Ret (VL rs)))) els).
