(* L14 -- date-time format constraints 931..935 (C20).

   Executable model of /repo/src/ahbicht/content_evaluation/german_strom_and_gas_tag.py as it is NOW
   (has_no_utc_offset compares utcoffset() with timedelta(0); is_xtag_limit catches OverflowError) together
   with the library behaviour it rests on, modelled explicitly and tied by the correspondence of C20:

   - CPython 3.12 `datetime.fromisoformat` (Modules/_datetimemodule.c: _sanitize_isoformat_str,
     _find_isoformat_datetime_separator, parse_isoformat_date, parse_hh_mm_ss_ff, parse_isoformat_time,
     tzinfo_from_isoformat_results, new_datetime_ex), byte for byte on the UTF-8 encoding with the C-string
     terminator (reading at index len yields NUL), including its quirks: any single character as date/time
     separator, basic and week-date forms, `,` as fraction mark, truncation of fraction digits beyond six, one
     ignored character in front of the offset, seconds-zero offsets with a fraction being UTC;
   - `datetime.astimezone` (OverflowError when the UTC value or the zone-local value leaves year 1..9999);
   - pytz `DstTzInfo.fromutc` on the generated table `berlin_transitions` (Gen_tz).

   Definitions only; the proofs are in Proofs/C20_time.v.  Text is a list of code points. *)
From Ahb Require Import Model.Prelude Gen.Gen_tz.
Set Implicit Arguments.
Local Open Scope Z_scope.

(* ------------------------------------------------------------------ proleptic Gregorian calendar on Z *)
(* days since 1970-01-01 of the civil date y-m-d (floor arithmetic, valid for every year) *)
Definition days_from_civil (y m d : Z) : Z :=
  let y' := if m <=? 2 then y - 1 else y in
  let era := y' / 400 in
  let yoe := y' - era * 400 in
  let mp := if 2 <? m then m - 3 else m + 9 in
  let doy := (153 * mp + 2) / 5 + d - 1 in
  let doe := yoe * 365 + yoe / 4 - yoe / 100 + doy in
  era * 146097 + doe - 719468.

Definition civil_from_days (z : Z) : Z * Z * Z :=
  let z' := z + 719468 in
  let era := z' / 146097 in
  let doe := z' - era * 146097 in
  let yoe := (doe - doe / 1460 + doe / 36524 - doe / 146096) / 365 in
  let y := yoe + era * 400 in
  let doy := doe - (365 * yoe + yoe / 4 - yoe / 100) in
  let mp := (5 * doy + 2) / 153 in
  let d := doy - (153 * mp + 2) / 5 + 1 in
  let m := if mp <? 10 then mp + 3 else mp - 9 in
  (if m <=? 2 then y + 1 else y, m, d).

Definition days_from_civil3 (c : Z * Z * Z) : Z := let '(y, m, d) := c in days_from_civil y m d.
Definition civil_year (z : Z) : Z := fst (fst (civil_from_days z)).

Definition is_leap (y : Z) : bool := (y mod 4 =? 0) && (negb (y mod 100 =? 0) || (y mod 400 =? 0)).
Definition days_in_month (y m : Z) : Z :=
  if m =? 2 then (if is_leap y then 29 else 28)
  else if (m =? 4) || (m =? 6) || (m =? 9) || (m =? 11) then 30 else 31.

(* Monday = 0 ... Sunday = 6 (1970-01-01 was a Thursday) *)
Definition weekday (z : Z) : Z := (z + 3) mod 7.

(* ------------------------------------------------------------------ bytes as the C code sees them *)
(* [Dg v] an ASCII digit with its value, [Ch c] any other byte / code point.  All tests of the parser are
   "is this a digit" or "is this the character c", so this view loses nothing. *)
Inductive tk := Dg (v : Z) | Ch (c : N).

Definition classify (c : N) : tk := if is_ascii_digit c then Dg (Z.of_N (c - 48)) else Ch c.
Definition is_ch (t : tk) (c : N) : bool := match t with Ch x => N.eqb x c | Dg _ => false end.
Definition is_dg (t : tk) : bool := match t with Dg _ => true | Ch _ => false end.
(* C string: reading the terminator (and, for the model, anything behind it) gives NUL *)
Definition at_ (b : list tk) (i : nat) : tk := nth i b (Ch 0).

Definition is_surrogate (t : tk) : bool :=
  match t with Ch c => (55296 <=? c)%N && (c <=? 57343)%N | Dg _ => false end.

(* UTF-8 of one code point; surrogates and values above U+10FFFF cannot be encoded *)
Definition utf8 (t : tk) : option (list tk) :=
  match t with
  | Dg v => Some [Dg v]
  | Ch c =>
    if (c <? 128)%N then Some [Ch c]
    else if (c <? 2048)%N then Some [Ch (192 + c / 64); Ch (128 + c mod 64)]%N
    else if (c <? 65536)%N then
      (if is_surrogate t then None else Some [Ch (224 + c / 4096); Ch (128 + (c / 64) mod 64); Ch (128 + c mod 64)]%N)
    else if (c <=? 1114111)%N then
      Some [Ch (240 + c / 262144); Ch (128 + (c / 4096) mod 64); Ch (128 + (c / 64) mod 64); Ch (128 + c mod 64)]%N
    else None
  end.
Fixpoint encode (l : list tk) : option (list tk) :=
  match l with
  | [] => Some []
  | t :: r => match utf8 t, encode r with Some a, Some b => Some (a ++ b) | _, _ => None end
  end.

Fixpoint set_nth (i : nat) (x : tk) (l : list tk) : list tk :=
  match l, i with
  | [], _ => []
  | _ :: r, O => x :: r
  | a :: r, Datatypes.S j => a :: set_nth j x r
  end.

(* _sanitize_isoformat_str: a surrogate at code-point position 7, 8 or 10 (the first such) becomes 'T' *)
Definition sanitize (l : list tk) : list tk :=
  let try (pos : nat) (k : list tk) := if is_surrogate (at_ l pos) then set_nth pos (Ch 84) l else k in
  try 7%nat (try 8%nat (try 10%nat l)).

(* parse_digits(p, &var, n) *)
Fixpoint parse_digits (b : list tk) (p n : nat) (acc : Z) : option (nat * Z) :=
  match n with
  | O => Some (p, acc)
  | Datatypes.S n' => match at_ b p with Dg v => parse_digits b (Datatypes.S p) n' (acc * 10 + v) | Ch _ => None end
  end.

Fixpoint skip_digits (b : list tk) (p fuel : nat) : nat :=
  match fuel with
  | O => p
  | Datatypes.S f => if is_dg (at_ b p) then skip_digits b (Datatypes.S p) f else p
  end.

(* _find_isoformat_datetime_separator; None is the C code's -1 *)
Definition find_separator (b : list tk) : option nat :=
  let n := length b in
  if Nat.eqb n 7 then Some 7%nat
  else if is_ch (at_ b 4) 45 then
    if is_ch (at_ b 5) 87 then
      if Nat.ltb n 8 then None
      else if Nat.ltb 8 n && is_ch (at_ b 8) 45 then
        if Nat.eqb n 9 then None
        else if Nat.ltb 10 n && is_dg (at_ b 10) then Some 8%nat else Some 10%nat
      else Some 8%nat
    else Some 10%nat
  else if is_ch (at_ b 4) 87 then
    let idx := skip_digits b 7 (n - 7) in
    if Nat.ltb idx 9 then Some idx else if Nat.even idx then Some 7%nat else Some 8%nat
  else Some 8%nat.

(* the date as written: calendar date or ISO week date *)
Inductive rawdate := YMD (y m d : Z) | YWD (y w d : Z).

(* parse_isoformat_date(dtstr, len = separator position) *)
Definition parse_date (b : list tk) (len : nat) : option rawdate :=
  match parse_digits b 0 4 0 with
  | None => None
  | Some (p, y) =>
    let uses_sep := is_ch (at_ b p) 45 in
    let p := if uses_sep then Datatypes.S p else p in
    if is_ch (at_ b p) 87 then
      match parse_digits b (Datatypes.S p) 2 0 with
      | None => None
      | Some (p, w) =>
        if Nat.ltb p len then
          if uses_sep && negb (is_ch (at_ b p) 45) then None
          else match parse_digits b (if uses_sep then Datatypes.S p else p) 1 0 with
               | None => None
               | Some (_, d) => Some (YWD y w d)
               end
        else Some (YWD y w 1)
      end
    else
      match parse_digits b p 2 0 with
      | None => None
      | Some (p, m) =>
        if uses_sep && negb (is_ch (at_ b p) 45) then None
        else match parse_digits b (if uses_sep then Datatypes.S p else p) 2 0 with
             | None => None
             | Some (_, d) => Some (YMD y m d)
             end
      end
  end.

(* iso_to_ymd.  For iso_year < 1 the C code computes with truncating division and every week date lands on an
   ordinal <= 0, which ord_to_ymd turns into a month <= 0, i.e. ValueError; here: None. *)
Definition iso_to_ymd (y w d : Z) : option (Z * Z * Z) :=
  if y <? 1 then None
  else
    let jan1 := days_from_civil y 1 1 in
    let wd := weekday jan1 in
    let week_ok := ((0 <? w) && (w <? 53)) || ((w =? 53) && ((wd =? 3) || ((wd =? 2) && is_leap y))) in
    if negb week_ok then None
    else if (d <=? 0) || (8 <=? d) then None
    else
      let week1_monday := jan1 - wd + (if 3 <? wd then 7 else 0) in
      Some (civil_from_days (week1_monday + (w - 1) * 7 + d - 1)).

Definition resolve_date (r : rawdate) : option (Z * Z * Z) :=
  match r with YMD y m d => Some (y, m, d) | YWD y w d => iso_to_ymd y w d end.

(* parse_hh_mm_ss_ff(tstr = b + p, tstr_end = b + pe): [HFail] = negative return code,
   [HDone rv1 vals us]: return code 1 (rv1 = true: "not at the end of the string") or 0, the two-digit groups read
   (hour, minute, second in this order; groups not present are 0) and the microseconds *)
Inductive hres := HFail | HDone (rv1 : bool) (vals : list Z) (us : Z).

Definition correction (to_parse : nat) : Z :=
  match to_parse with
  | 1%nat => 100000 | 2%nat => 10000 | 3%nat => 1000 | 4%nat => 100 | 5%nat => 10
  | _ => 1   (* 6; 0 is unreachable: the fraction is only entered with p < p_end *)
  end.

Definition parse_fraction (b : list tk) (pe p : nat) (vals : list Z) : hres :=
  let len_remains := (pe - p)%nat in
  let to_parse := if Nat.leb 6 len_remains then 6%nat else len_remains in
  match parse_digits b p to_parse 0 with
  | None => HFail
  | Some (p1, us) =>
    let p2 := skip_digits b p1 (length b) in   (* "skip truncated digits" *)
    HDone (negb (is_ch (at_ b p2) 0)) vals (us * correction to_parse)
  end.

(* the loop `for (i = 0; i < 3; ++i)`; k = iterations left, first = (i == 0) *)
Fixpoint hms_loop (b : list tk) (pe : nat) (k : nat) (first has_sep : bool) (p : nat) (vals : list Z) : hres :=
  match k with
  | O => parse_fraction b pe p vals
  | Datatypes.S k' =>
    match parse_digits b p 2 0 with
    | None => HFail
    | Some (p1, v) =>
      let vals' := vals ++ [v] in
      let c := at_ b p1 in
      let p2 := Datatypes.S p1 in
      let has_sep' := if first then is_ch c 58 else has_sep in
      if Nat.leb pe p2 then HDone (negb (is_ch c 0)) vals' 0
      else if has_sep' && is_ch c 58 then hms_loop b pe k' false has_sep' p2 vals'
      else if is_ch c 46 || is_ch c 44 then parse_fraction b pe p2 vals'
      else if negb has_sep' then hms_loop b pe k' false has_sep' p1 vals'
      else HFail
    end
  end.
Definition parse_hh_mm_ss_ff (b : list tk) (p pe : nat) : hres := hms_loop b pe 3 true true p [].

(* do { if (tz[0] == 'Z' || tz[0] == '+' || tz[0] == '-') break; } while (++tz < p_end); *)
Definition is_tz_char (t : tk) : bool := is_ch t 90 || is_ch t 43 || is_ch t 45.
Fixpoint find_tz (b : list tk) (p pe fuel : nat) : nat :=
  match fuel with
  | O => p
  | Datatypes.S f =>
    if is_tz_char (at_ b p) then p
    else if Nat.ltb (Datatypes.S p) pe then find_tz b (Datatypes.S p) pe f else Datatypes.S p
  end.

(* the offset as written: sign, the three groups, microseconds *)
Record rawtz := { tz_neg : bool; tz_vals : list Z; tz_us : Z }.
Record rawtime := { rt_vals : list Z; rt_us : Z; rt_tz : option rawtz }.

(* parse_isoformat_time(p = b + p0, len = pe - p0) *)
Definition parse_time (b : list tk) (p0 pe : nat) : option rawtime :=
  let tz := find_tz b p0 pe (Datatypes.S (length b)) in
  match parse_hh_mm_ss_ff b p0 tz with
  | HFail => None
  | HDone rv1 vals us =>
    if Nat.eqb tz pe then (if rv1 then None else Some {| rt_vals := vals; rt_us := us; rt_tz := None |})
    else if is_ch (at_ b tz) 90 then
      (if is_ch (at_ b (Datatypes.S tz)) 0
       then Some {| rt_vals := vals; rt_us := us; rt_tz := Some {| tz_neg := false; tz_vals := []; tz_us := 0 |} |}
       else None)
    else
      match parse_hh_mm_ss_ff b (Datatypes.S tz) pe with
      | HDone false tvals tus =>
        Some {| rt_vals := vals; rt_us := us; rt_tz := Some {| tz_neg := is_ch (at_ b tz) 45; tz_vals := tvals; tz_us := tus |} |}
      | _ => None
      end
  end.

(* width in bytes of the separator character (its first byte decides) *)
Definition sep_width (t : tk) : nat :=
  match t with
  | Dg _ => 1%nat
  | Ch c => if (c <? 128)%N then 1%nat else if (224 <=? c)%N && (c <? 240)%N then 3%nat else if (240 <=? c)%N then 4%nat else 2%nat
  end.

(* the syntactic part of datetime.fromisoformat, on the code points of the string: what was written *)
Record rawdt := { rd_date : rawdate; rd_time : option rawtime }.
Definition parse_fields (s : list tk) : option rawdt :=
  if Nat.ltb (length s) 7 then None
  else
    match encode (sanitize s) with
    | None => None
    | Some b =>
      match find_separator b with
      | None => None
      | Some sep =>
        match parse_date b sep with
        | None => None
        | Some rd =>
          if Nat.ltb sep (length b) then
            match parse_time b (sep + sep_width (at_ b sep)) (length b) with
            | None => None
            | Some rt => Some {| rd_date := rd; rd_time := Some rt |}
            end
          else Some {| rd_date := rd; rd_time := None |}
        end
      end
    end.

(* a datetime object: civil fields, microsecond, and the fixed offset in microseconds (None = naive) *)
Record dt := { dt_y : Z; dt_mo : Z; dt_d : Z; dt_h : Z; dt_mi : Z; dt_s : Z; dt_us : Z; dt_off : option Z }.

Definition us_per_s : Z := 1000000.
Definition nthz (l : list Z) (i : nat) : Z := nth i l 0.

(* tzinfo_from_isoformat_results + new_timezone: whole-second part zero -> timezone.utc (whatever the fraction says);
   otherwise the offset must lie strictly between -24 h and +24 h (ValueError) *)
Definition tz_offset_us (z : rawtz) : option Z :=
  let sign := if tz_neg z then -1 else 1 in
  let secs := sign * (nthz (tz_vals z) 0 * 3600 + nthz (tz_vals z) 1 * 60 + nthz (tz_vals z) 2) in
  if secs =? 0 then Some 0
  else
    let off := secs * us_per_s + sign * tz_us z in
    if (- (86400 * us_per_s) <? off) && (off <? 86400 * us_per_s) then Some off else None.

(* new_datetime_ex: check_date_args, check_time_args (ValueError) *)
Definition date_ok (y m d : Z) : bool :=
  (1 <=? y) && (y <=? 9999) && (1 <=? m) && (m <=? 12) && (1 <=? d) && (d <=? days_in_month y m).
Definition time_ok (h mi s us : Z) : bool :=
  (0 <=? h) && (h <=? 23) && (0 <=? mi) && (mi <=? 59) && (0 <=? s) && (s <=? 59) && (0 <=? us) && (us <=? 999999).

Definition build (r : rawdt) : option dt :=
  match resolve_date (rd_date r) with
  | None => None
  | Some (y, m, d) =>
    let '(vals, us, tz) := match rd_time r with
                           | None => ([], 0, None)
                           | Some t => (rt_vals t, rt_us t, rt_tz t)
                           end in
    match (match tz with None => Some None | Some z => option_map Some (tz_offset_us z) end) with
    | None => None
    | Some off =>
      if date_ok y m d && time_ok (nthz vals 0) (nthz vals 1) (nthz vals 2) us
      then Some {| dt_y := y; dt_mo := m; dt_d := d; dt_h := nthz vals 0; dt_mi := nthz vals 1; dt_s := nthz vals 2;
                   dt_us := us; dt_off := off |}
      else None
    end
  end.

(* datetime.fromisoformat on classified code points; None = ValueError *)
Definition fromisoformat (s : list tk) : option dt :=
  match parse_fields s with None => None | Some r => build r end.

(* ------------------------------------------------------------------ german_strom_and_gas_tag.py *)
(* str.endswith("Z") / str.replace("Z", "+00:00") -- every Z is replaced *)
Definition ends_with_Z (s : list tk) : bool := match rev s with t :: _ => is_ch t 90 | [] => false end.
Definition replace_Z (s : list tk) : list tk :=
  flat_map (fun t => if is_ch t 90 then [Ch 43; Dg 0; Dg 0; Ch 58; Dg 0; Dg 0] else [t]) s.

(* parse_as_datetime: (None, EvaluatedFormatConstraint(False, message)) or (aware datetime, None) *)
Inductive parsed := PErr | PDate (d : dt) (off : Z).
Definition parse_as_datetime (s : text) : parsed :=
  match s with
  | [] => PErr                                             (* "An empty or None string cannot be parsed as datetime" *)
  | _ =>
    let t := map classify s in
    let t := if ends_with_Z t then replace_Z t else t in
    match fromisoformat t with
    | None => PErr                                         (* except ValueError: message = str(value_error) *)
    | Some d => match dt_off d with
                | None => PErr                             (* "Neither offset nor timezone was given" *)
                | Some o => PDate d o
                end
    end
  end.

(* what the correspondence observes of an EvaluatedFormatConstraint: (fulfilled, error_message is not None) *)
Definition verdict := (bool * bool)%type.
Definition fulfilled_v : verdict := (true, false).
Definition unfulfilled_v : verdict := (false, true).
Definition verdict_of (b : bool) : verdict := if b then fulfilled_v else unfulfilled_v.

Definition has_no_utc_offset (s : text) : result verdict :=
  match parse_as_datetime s with
  | PErr => Ok unfulfilled_v
  | PDate _ o => Ok (verdict_of (o =? 0))                  (* date_time.utcoffset() == timedelta(0) *)
  end.

(* datetime range: 0001-01-01T00:00:00 <= x < 10000-01-01T00:00:00, in microseconds since 1970 *)
Definition min_us : Z := days_from_civil 1 1 1 * 86400 * us_per_s.
Definition max_us : Z := days_from_civil 10000 1 1 * 86400 * us_per_s.
Definition in_dt_range (x : Z) : bool := (min_us <=? x) && (x <? max_us).

(* wall-clock value of the datetime in microseconds since 1970-01-01T00:00:00 of its own clock *)
Definition local_us (d : dt) : Z :=
  (days_from_civil (dt_y d) (dt_mo d) (dt_d d) * 86400 + dt_h d * 3600 + dt_mi d * 60 + dt_s d) * us_per_s + dt_us d.

(* pytz: idx = max(0, bisect_right(times, dt) - 1); offset = info[idx][0] (table sorted: Proofs/C20_time.berlin_sorted) *)
Fixpoint lookup_from (cur : Z) (tab : list (Z * Z)) (s : Z) : Z :=
  match tab with
  | [] => cur
  | (t0, o) :: rest => if t0 <=? s then lookup_from o rest s else cur
  end.
Definition table_lookup (tab : list (Z * Z)) (s : Z) : Z :=
  match tab with [] => 0 | (_, o0) :: rest => lookup_from o0 rest s end.
Definition table_offset (s : Z) : Z := table_lookup berlin_transitions s.

(* date_time.astimezone(berlin): utc = self - offset (OverflowError outside year 1..9999), then
   berlin.fromutc(utc) = utc + info[idx][0] (OverflowError likewise); the result is the Berlin wall clock *)
Definition to_berlin (d : dt) (off : Z) : result Z :=
  let utc := local_us d - off in
  if negb (in_dt_range utc) then Exn Overflow
  else
    let bl := utc + table_offset (utc / us_per_s) * us_per_s in
    if negb (in_dt_range bl) then Exn Overflow else Ok bl.

(* _get_german_local_time(...).hour/.minute/.second *)
Definition german_local_time (d : dt) (off : Z) : result (Z * Z * Z) :=
  do bl <- to_berlin d off ;;
  let tod := (bl / us_per_s) mod 86400 in
  Ok (tod / 3600, (tod / 60) mod 60, tod mod 60).

Definition is_stromtag_limit (d : dt) (off : Z) : result bool :=
  do t <- german_local_time d off ;;
  let '(h, m, s) := t in Ok ((h =? 0) && (m =? 0) && (s =? 0)).
Definition is_gastag_limit (d : dt) (off : Z) : result bool :=
  do t <- german_local_time d off ;;
  let '(h, m, s) := t in Ok ((h =? 6) && (m =? 0) && (s =? 0)).

Inductive division := Strom | Gas.
Definition is_xtag_limit (s : text) (dv : division) : result verdict :=
  match parse_as_datetime s with
  | PErr => Ok unfulfilled_v
  | PDate d o =>
    match (match dv with Strom => is_stromtag_limit d o | Gas => is_gastag_limit d o end) with
    | Ok b => Ok (verdict_of b)
    | Exn Overflow => Ok unfulfilled_v                     (* except OverflowError: message = str(overflow_error) *)
    | Exn e => Exn e
    end
  end.

(* fc_evaluators.py: FcEvaluator.evaluate_931 .. evaluate_935 *)
Definition eval_931 (s : text) : result verdict := has_no_utc_offset s.
Definition eval_932 (s : text) : result verdict := is_xtag_limit s Strom.
Definition eval_933 (s : text) : result verdict := is_xtag_limit s Strom.
Definition eval_934 (s : text) : result verdict := is_xtag_limit s Gas.
Definition eval_935 (s : text) : result verdict := is_xtag_limit s Gas.
Definition eval_93x (k : N) (s : text) : result verdict :=
  if (k =? 931)%N then eval_931 s else if (k =? 932)%N then eval_932 s else if (k =? 933)%N then eval_933 s
  else if (k =? 934)%N then eval_934 s else if (k =? 935)%N then eval_935 s else Exn AttrErr.
Definition fc_keys : list N := [931; 932; 933; 934; 935]%N.

(* ------------------------------------------------------------------ specification side of C20 *)
(* EU rule (directive 2000/84/EC and its predecessors since 1996): summer time from 01:00 UTC on the last Sunday of
   March to 01:00 UTC on the last Sunday of October.  Computed from the calendar arithmetic alone. *)
Definition last_sunday (y m : Z) : Z :=                    (* day number of the last Sunday of March / October *)
  let last := days_from_civil y m 31 in last - (weekday last + 1) mod 7.
Definition dst_start (y : Z) : Z := last_sunday y 3 * 86400 + 3600.
Definition dst_end (y : Z) : Z := last_sunday y 10 * 86400 + 3600.
Definition eu_offset (t : Z) : Z :=
  let y := civil_year (t / 86400) in
  if (dst_start y <=? t) && (t <? dst_end y) then 7200 else 3600.

(* the instants of the property: 1996-01-01T00:00:00Z <= t < 2038-01-01T00:00:00Z, in seconds since 1970 *)
Definition t_min : Z := 820454400.
Definition t_max : Z := 2145916800.
Definition in_range (t : Z) : Prop := t_min <= t < t_max.

(* ways of writing the instant t with UTC offset o (seconds) as an ISO-8601 date-time in the extended format *)
Inductive sep_form := SepT | SepSpace.
Inductive frac_len := F1 | F2 | F3 | F4 | F5 | F6.
Inductive sec_form := NoSecs | Secs | Frac (k : frac_len).      (* HH:MM | HH:MM:SS | HH:MM:SS.0{k} *)
Inductive off_form := OffZ | OffMinusZero | OffHM | OffHMS.     (* Z | -00:00 | +-HH:MM | +-HH:MM:SS *)
Record shape := { sh_sep : sep_form; sh_sec : sec_form; sh_off : off_form }.

Definition shape_ok (sh : shape) (t o : Z) : Prop :=
  (sh_sec sh = NoSecs -> (t + o) mod 60 = 0) /\
  (sh_off sh = OffZ -> o = 0) /\ (sh_off sh = OffMinusZero -> o = 0) /\ (sh_off sh = OffHM -> o mod 60 = 0).

Definition dch (v : Z) : N := Z.to_N (48 + v).
Definition d2 (n : Z) : text := [dch (n / 10); dch (n mod 10)].
Definition d4 (n : Z) : text := [dch (n / 1000); dch ((n / 100) mod 10); dch ((n / 10) mod 10); dch (n mod 10)].
Definition frac_zeros (k : frac_len) : text :=
  match k with F1 => [48] | F2 => [48;48] | F3 => [48;48;48] | F4 => [48;48;48;48] | F5 => [48;48;48;48;48] | F6 => [48;48;48;48;48;48] end%N.

Definition render_sec (f : sec_form) (s : Z) : text :=
  match f with NoSecs => [] | Secs => 58%N :: d2 s | Frac k => 58%N :: d2 s ++ 46%N :: frac_zeros k end.
Definition render_off (f : off_form) (o : Z) : text :=
  let a := Z.abs o in
  let sign := if o <? 0 then 45%N else 43%N in
  match f with
  | OffZ => [90%N]
  | OffMinusZero => [45; 48; 48; 58; 48; 48]%N
  | OffHM => sign :: d2 (a / 3600) ++ 58%N :: d2 ((a / 60) mod 60)
  | OffHMS => sign :: d2 (a / 3600) ++ 58%N :: d2 ((a / 60) mod 60) ++ 58%N :: d2 (a mod 60)
  end.
Definition render (t o : Z) (sh : shape) : text :=
  let l := t + o in
  let '(y, m, d) := civil_from_days (l / 86400) in
  let tod := l mod 86400 in
  d4 y ++ 45%N :: d2 m ++ 45%N :: d2 d ++ (match sh_sep sh with SepT => 84%N | SepSpace => 32%N end)
  :: d2 (tod / 3600) ++ 58%N :: d2 ((tod / 60) mod 60) ++ render_sec (sh_sec sh) (tod mod 60) ++ render_off (sh_off sh) o.
