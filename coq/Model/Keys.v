(* L9 of DESIGN.md: extract_categorized_keys_from_tree, CategorizedKeyExtract.sanitize / __add__ and
   generate_possible_content_evaluation_results (itertools.product / combinations modelled literally).
   Definitions only; lemmas are in Proofs/C18_keys.v, the correspondence with ahbicht in Corr/Keys.v.

   Python behaviour that is MODELLED here (tied by the correspondence of C18, never assumed silently):
   - lark Tree.scan_values: tokens of the tree, depth first, children left to right;
   - [*set(l)] followed by list.sort(key=int) / list.sort(): "duplicate-free, then stably sorted". The iteration order of
     a Python set of strings is hash dependent; it is invisible after the sort iff the sort key is injective on the
     list. For package / time-condition keys (sorted as strings) it always is; for condition keys (sorted by int) it is
     iff no two distinct keys of the list have the same integer value, i.e. no key with leading zeros occurs next to
     its canonical spelling (interpretation I-C18; [key_inj] in Proofs/C18_keys.v);
   - itertools.product(a, b): a-major; itertools.combinations(l, m): lexicographic in the positions of l;
   - dict comprehensions: insertion ordered, a later pair with an equal key overwrites the value in place;
   - iteration over the Enum class ConditionFulfilledValue: definition order (Gen_logic.all_cfv). *)
From Ahb Require Import Model.Prelude Model.Grammar Gen.Gen_logic Gen.Gen_ranges Model.Lex.
Set Implicit Arguments.

(* ------------------------------------------------------------------ CategorizedKeyExtract *)
Record extract_record := {
  hint_keys : list text;
  fc_keys : list text;
  rc_keys : list text;
  pkg_keys : list text;
  time_keys : list text }.

Definition empty_extract : extract_record :=
  {| hint_keys := []; fc_keys := []; rc_keys := []; pkg_keys := []; time_keys := [] |}.

(* Tree.scan_values(lambda token: True): the tokens that carry a key, in tree order (REPEATABILITY tokens have
   another type and are never selected by the three predicates used) *)
Fixpoint atoms (e : expr) : list atom :=
  match e with EAtom a => [a] | EBin _ l r => atoms l ++ atoms r end.
Definition cond_key_of (a : atom) : list text := match a with AKey k => [k] | _ => [] end.
Definition pkg_key_of (a : atom) : list text := match a with APkg k _ => [k] | _ => [] end.
Definition time_key_of (a : atom) : list text := match a with ATime k => [k] | _ => [] end.
Definition cond_keys_of (e : expr) : list text := flat_map cond_key_of (atoms e).
Definition pkg_keys_of (e : expr) : list text := flat_map pkg_key_of (atoms e).
Definition time_keys_of (e : expr) : list text := flat_map time_key_of (atoms e).

(* the for-loop over condition_keys: append to the list of the category, first exception wins *)
Inductive category := CatRc | CatHint | CatFc.
Definition category_of (k : text) : result category :=
  do ty <- node_type_of_key k ;;
  match ty with
  | NT_REQUIREMENT_CONSTRAINT | NT_REPEATABILITY_CONSTRAINT => Ok CatRc
  | NT_HINT => Ok CatHint
  | NT_FORMAT_CONSTRAINT => Ok CatFc
  | NT_PACKAGE => Exn NotImpl
  end.
Definition push (r : extract_record) (c : category) (k : text) : extract_record :=
  match c with
  | CatRc => {| hint_keys := hint_keys r; fc_keys := fc_keys r; rc_keys := rc_keys r ++ [k]; pkg_keys := pkg_keys r; time_keys := time_keys r |}
  | CatHint => {| hint_keys := hint_keys r ++ [k]; fc_keys := fc_keys r; rc_keys := rc_keys r; pkg_keys := pkg_keys r; time_keys := time_keys r |}
  | CatFc => {| hint_keys := hint_keys r; fc_keys := fc_keys r ++ [k]; rc_keys := rc_keys r; pkg_keys := pkg_keys r; time_keys := time_keys r |}
  end.
Fixpoint categorise (ks : list text) (r : extract_record) : result extract_record :=
  match ks with
  | [] => Ok r
  | k :: t => do c <- category_of k ;; categorise t (push r c k)
  end.

(* extract_categorized_keys_from_tree(list_of_keys, sanitize=False) *)
Definition extract_list (ks : list text) : result extract_record := categorise ks empty_extract.
(* extract_categorized_keys_from_tree(tree, sanitize=False) *)
Definition extract (e : expr) : result extract_record :=
  categorise (cond_keys_of e)
    {| hint_keys := []; fc_keys := []; rc_keys := []; pkg_keys := pkg_keys_of e; time_keys := time_keys_of e |}.

(* ------------------------------------------------------------------ sanitize, __add__ *)
Fixpoint dedup (l : list text) : list text :=
  match l with
  | [] => []
  | x :: t => if existsb (text_eqb x) t then dedup t else x :: dedup t
  end.

Section Sort.
Variable A : Type.
Variable leb : A -> A -> bool.
Fixpoint insert (x : A) (l : list A) : list A :=
  match l with
  | [] => [x]
  | y :: t => if leb x y then x :: l else y :: insert x t
  end.
(* stable: an element is inserted in front of the elements with an equal key that followed it *)
Fixpoint isort (l : list A) : list A :=
  match l with [] => [] | x :: t => insert x (isort t) end.
End Sort.

(* int(key) of a key that derive_condition_node_type accepted (0 otherwise; sort_num raises first in that case) *)
Definition kval (k : text) : Z := match key_int k with Ok z => z | Exn _ => 0%Z end.
Definition num_leb (a b : text) : bool := (kval a <=? kval b)%Z.
(* Python str comparison: lexicographic by code point, a proper prefix is smaller *)
Fixpoint text_leb (a b : text) : bool :=
  match a, b with
  | [], _ => true
  | _ :: _, [] => false
  | x :: a', y :: b' => if (x <? y)%N then true else if (y <? x)%N then false else text_leb a' b'
  end.

(* l = [*set(l)] ; l.sort(key=int)      (int raises ValueError on a key that is not a numeral) *)
Definition sort_num (l : list text) : result (list text) :=
  do _ <- mapM key_int (dedup l) ;; Ok (isort num_leb (dedup l)).
(* l = [*set(l)] ; l.sort() *)
Definition sort_str (l : list text) : list text := isort text_leb (dedup l).

Definition sanitize (r : extract_record) : result extract_record :=
  do h <- sort_num (hint_keys r) ;;
  do f <- sort_num (fc_keys r) ;;
  do q <- sort_num (rc_keys r) ;;
  Ok {| hint_keys := h; fc_keys := f; rc_keys := q; pkg_keys := sort_str (pkg_keys r); time_keys := sort_str (time_keys r) |}.

Definition concat_extract (a b : extract_record) : extract_record :=
  {| hint_keys := hint_keys a ++ hint_keys b; fc_keys := fc_keys a ++ fc_keys b; rc_keys := rc_keys a ++ rc_keys b;
     pkg_keys := pkg_keys a ++ pkg_keys b; time_keys := time_keys a ++ time_keys b |}.
(* CategorizedKeyExtract.__add__ *)
Definition add (a b : extract_record) : result extract_record := sanitize (concat_extract a b).

(* extract_categorized_keys_from_tree(tree, sanitize) *)
Definition extract_tree (e : expr) (san : bool) : result extract_record :=
  do r <- extract e ;; if san then sanitize r else Ok r.

(* ------------------------------------------------------------------ itertools *)
Definition product {A B} (xs : list A) (ys : list B) : list (A * B) :=
  flat_map (fun x => map (pair x) ys) xs.

(* itertools.combinations(l, m): combs (x :: t) (S m) = map (cons x) (combs t m) ++ combs t (S m) *)
Fixpoint combs {A} (l : list A) (m : nat) : list (list A) :=
  match l with
  | [] => match m with O => [[]] | Datatypes.S _ => [] end
  | x :: t => match m with
              | O => [[]]
              | Datatypes.S m' => map (cons x) (combs t m') ++ combs t m
              end
  end.

(* len({y[0] for y in z}) == m *)
Definition distinct_keys {V} (m : nat) (z : list (text * V)) : bool :=
  Nat.eqb (length (dedup (map fst z))) m.

(* {k: v for (k, v) in l if k != dummy}: insertion ordered, a repeated key keeps its place and takes the later value *)
Fixpoint dict_set {V} (d : list (text * V)) (k : text) (v : V) : list (text * V) :=
  match d with
  | [] => [(k, v)]
  | (k', v') :: t => if text_eqb k k' then (k', v) :: t else (k', v') :: dict_set t k v
  end.
Definition dict_build {V} (l : list (text * V)) : list (text * V) :=
  fold_left (fun d kv => dict_set d (fst kv) (snd kv)) l [].
Definition dict_of {V} (dummy : text) (l : list (text * V)) : list (text * V) :=
  dict_build (filter (fun kv => negb (text_eqb (fst kv) dummy)) l).

Definition fc_dummy : text := [102;99;95;100;117;109;109;121]%N.   (* "fc_dummy" *)
Definition rc_dummy : text := [114;99;95;100;117;109;109;121]%N.   (* "rc_dummy" *)
Definition t_hinweis : text := [72;105;110;119;101;105;115;32]%N.  (* "Hinweis " *)

(* ------------------------------------------------------------------ generate_possible_content_evaluation_results *)
(* ContentEvaluationResult(hints, format_constraints, requirement_constraints, packages = {}) *)
Record gen_result := {
  g_hints : list (text * text);
  g_fc : list (text * bool);
  g_rc : list (text * cfv) }.

Definition hints_of (hs : list text) : list (text * text) :=
  dict_build (map (fun k => (k, t_hinweis ++ k)) hs).

Definition possible_fcs (fcs : list text) : list (list (text * bool)) :=
  match fcs with
  | [] => [[(fc_dummy, true)]]
  | _ => filter (distinct_keys (length fcs)) (combs (product fcs [true; false]) (length fcs))
  end.
Definition possible_rcs (rcs : list text) : list (list (text * cfv)) :=
  match rcs with
  | [] => [[(rc_dummy, C_NEUTRAL)]]
  | _ => filter (distinct_keys (length rcs)) (combs (product rcs all_cfv) (length rcs))
  end.
(* any(x for x in result.requirement_constraints.values() if x == NEUTRAL): the members are non-empty strings, truthy *)
Definition has_neutral (d : list (text * cfv)) : bool := existsb (fun kv => cfv_eqb (snd kv) C_NEUTRAL) d.

Definition generate (hs fcs rcs : list text) : list gen_result :=
  match fcs, rcs with
  | [], [] => []
  | _, _ =>
    flat_map
      (fun fr : list (text * bool) * list (text * cfv) =>
         let res := {| g_hints := hints_of hs; g_fc := dict_of fc_dummy (fst fr); g_rc := dict_of rc_dummy (snd fr) |} in
         if has_neutral (g_rc res) then [] else [res])
      (product (possible_fcs fcs) (possible_rcs rcs))
  end.
Definition generate_of (r : extract_record) : list gen_result := generate (hint_keys r) (fc_keys r) (rc_keys r).

(* ------------------------------------------------------------------ the specification: the Cartesian product *)
(* all total assignments keys -> vals, first key slowest *)
Fixpoint assignments {V} (keys : list text) (vals : list V) : list (list (text * V)) :=
  match keys with
  | [] => [[]]
  | k :: t => flat_map (fun v => map (cons (k, v)) (assignments t vals)) vals
  end.
Definition rc_values : list cfv := [C_FULFILLED; C_UNFULFILLED; C_UNKNOWN].
Definition fc_values : list bool := [true; false].
Definition cartesian (hs fcs rcs : list text) : list gen_result :=
  flat_map (fun f => map (fun r => {| g_hints := map (fun k => (k, t_hinweis ++ k)) hs; g_fc := f; g_rc := r |})
                         (assignments rcs rc_values))
           (assignments fcs fc_values).
