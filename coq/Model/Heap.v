(* L12 -- Python aliasing for the two parse caches (definitions only; the proofs are in Proofs/C11_cache.v).

   What is modelled
   * A lark Tree object is [RTree data cell]: its data and a pointer to its children *list object*, which lives in the
     store ([cell |-> list ref]).  Tokens are immutable strings: [RTok type value].  Callers change trees by list
     operations on children lists (replace / delete / append at any depth); rebinding the attributes of a Tree object
     ([t.data = ..], [t.children = ..]) is outside the edit language, so Tree objects are values here and
     [Tree.copy()] -- [type(self)(self.data, self.children)]: a new Tree object with the SAME children list -- is the
     same ref again (CopyShallow and NoCopy differ only in the identity of the root object, which no list edit sees).
   * [copy.deepcopy] = read the object graph back and allocate it again in fresh cells (fresh cells recursively;
     the memo table of deepcopy only preserves sharing / cycles inside the copied value, which a cached parse result
     does not have).
   * [functools.lru_cache(maxsize)]: association list, most recently used first; a hit moves the entry to the front;
     a miss calls the function, stores nothing when it raises, otherwise stores the result and drops the least
     recently used entries beyond maxsize.
   * [pure_parse] (assumption A-lark-pure): the uncached parser is a function of the string alone.  Strings are ids.
   Cells are allocated strictly increasing: a cell is fresh iff it is >= the next-free counter. *)
From Coq Require Import FMapPositive PArith.
From Ahb Require Import Model.Prelude Gen.Gen_cache.
Set Implicit Arguments.

(* abstract (heap-free) Lark trees: what a parse returns / what is read back from a handle *)
Inductive atree := ATok (ty v : text) | ATree (d : text) (ks : list atree).

Definition cell := positive.
Inductive ref := RTok (ty v : text) | RTree (d : text) (c : cell).
Definition store := PositiveMap.t (list ref).
Definition heap := (store * cell)%type.               (* store, next free cell *)
Definition sfind (c : cell) (st : store) : option (list ref) := PositiveMap.find c st.
Definition sadd (c : cell) (rs : list ref) (st : store) : store := PositiveMap.add c rs st.

(* state-passing map *)
Section MapS.
  Variables (St A B : Type) (f : A -> St -> St * B).
  Fixpoint mapS (l : list A) (s : St) : St * list B :=
    match l with
    | [] => (s, [])
    | x :: t => let '(s1, y) := f x s in let '(s2, ys) := mapS t s1 in (s2, y :: ys)
    end.
End MapS.

(* build a tree in fresh cells, children first (so a child's cell is smaller than its parent's) *)
Fixpoint alloc (t : atree) (h : heap) : heap * ref :=
  match t with
  | ATok ty v => (h, RTok ty v)
  | ATree d ks => let '((st, n), rs) := mapS alloc ks h in ((sadd n rs st, Pos.succ n), RTree d n)
  end.

(* read the tree below a ref back; fuel bounds the depth (a caller can build cycles: OutOfFuel, Python: RecursionError) *)
Definition read_step (st : store) (rec : ref -> result atree) (r : ref) : result atree :=
  match r with
  | RTok ty v => Ok (ATok ty v)
  | RTree d c =>
    match sfind c st with
    | None => Exn KeyErr
    | Some rs => do ks <- mapM rec rs ;; Ok (ATree d ks)
    end
  end.
Fixpoint read (fuel : nat) (st : store) (r : ref) : result atree :=
  match fuel with
  | O => Exn OutOfFuel
  | Datatypes.S f => read_step st (read f st) r
  end.
(* the same with the fuel 2^k, consumed on demand ([iter2 k F g] is F iterated 2^k times on g; the inner iterate is a
   partial application, so evaluating a read costs the size of the tree read and not the amount of fuel) *)
Fixpoint iter2 (k : nat) (F : (ref -> result atree) -> ref -> result atree) (g : ref -> result atree) (r : ref)
  {struct k} : result atree :=
  match k with
  | O => F g r
  | Datatypes.S k' => iter2 k' F (iter2 k' F g) r
  end.
Fixpoint bits (p : positive) : nat := match p with xH => 1 | xO q | xI q => Datatypes.S (bits q) end.
(* every path in a store without cycles visits each cell at most once and all cells are below the counter n < 2^(bits n):
   [readb n st r = read (2 ^ bits n) st r] (Proofs/C11_cache.v, readb_read) *)
Definition readb (n : cell) (st : store) (r : ref) : result atree :=
  iter2 (bits n) (read_step st) (fun _ => Exn OutOfFuel) r.

Fixpoint height (t : atree) : nat :=
  match t with
  | ATok _ _ => 1
  | ATree _ ks => Datatypes.S (fold_right (fun k m => Nat.max (height k) m) 0 ks)
  end.

(* ---------------------------------------------------------------- lru_cache *)
Definition cache := list (N * ref).                  (* key = string id, most recently used first *)
Fixpoint lookup (s : N) (c : cache) : option ref :=
  match c with
  | [] => None
  | (k, r) :: c' => if N.eqb k s then Some r else lookup s c'
  end.
Definition drop_key (s : N) (c : cache) : cache := filter (fun e => negb (N.eqb (fst e) s)) c.
Definition touch (s : N) (r : ref) (c : cache) : cache := (s, r) :: drop_key s c.
Definition insert (maxsize : nat) (s : N) (r : ref) (c : cache) : cache := firstn maxsize ((s, r) :: c).

(* ---------------------------------------------------------------- histories *)
Inductive parser := PCond | PAhb.
(* what a caller puts into a children list: a new Token, a new Tree built by the caller, or an object reachable from
   one of the handles it holds (this is how subtrees are moved between trees, and how aliasing is created) *)
Inductive source := SJunkTok (ty v : text) | SJunkTree (t : atree) | SSub (h : N) (p : list nat).
Inductive edit := EReplace (i : nat) (x : source) | ERemove (i : nat) | EAppend (x : source).
Inductive op :=
| Parse (p : parser) (s : N)                           (* handle number = number of successful parses before (N: binary) *)
| Edit (h : N) (path : list nat) (e : edit)             (* edit the children list of the Tree at [path] below handle h *)
| Peek (h : N).                                        (* read a handle back (extra observation, aliasing between handles) *)
Definition history := list op.
Inductive observation := OParse (r : result atree) | OPeek (r : result atree).

Record state := mkState {
  st_store : store; st_next : cell; st_cond : cache; st_ahb : cache; st_handles : list ref }.
Definition init : state := mkState (PositiveMap.empty _) 1%positive [] [] [].
Definition get_cache (p : parser) (x : state) : cache := match p with PCond => st_cond x | PAhb => st_ahb x end.
Definition set_cache (p : parser) (c : cache) (x : state) : state :=
  match p with
  | PCond => mkState (st_store x) (st_next x) c (st_ahb x) (st_handles x)
  | PAhb => mkState (st_store x) (st_next x) (st_cond x) c (st_handles x)
  end.
Definition set_heap (h : heap) (x : state) : state := mkState (fst h) (snd h) (st_cond x) (st_ahb x) (st_handles x).
Definition push_handle (r : ref) (x : state) : state :=
  mkState (st_store x) (st_next x) (st_cond x) (st_ahb x) (st_handles x ++ [r]).

(* follow child indices *)
Fixpoint nav (st : store) (r : ref) (path : list nat) : option ref :=
  match path with
  | [] => Some r
  | i :: p =>
    match r with
    | RTok _ _ => None
    | RTree _ c => match sfind c st with
                   | None => None
                   | Some rs => match nth_error rs i with None => None | Some r' => nav st r' p end
                   end
    end
  end.
Fixpoint set_nth {A} (i : nat) (x : A) (l : list A) : option (list A) :=
  match l, i with
  | [], _ => None
  | _ :: t, O => Some (x :: t)
  | y :: t, Datatypes.S j => option_map (cons y) (set_nth j x t)
  end.
Fixpoint del_nth {A} (i : nat) (l : list A) : option (list A) :=
  match l, i with
  | [], _ => None
  | _ :: t, O => Some t
  | y :: t, Datatypes.S j => option_map (cons y) (del_nth j t)
  end.

Section Run.
  Variable mode : copy_mode.                           (* what tree_copy hands out *)
  Variable maxsize : nat.
  Variable pure_parse : parser -> N -> result atree.   (* A-lark-pure *)

  Definition do_copy (h : heap) (r : ref) : result (heap * ref) :=
    match mode with
    | CopyDeep => do t <- readb (snd h) (fst h) r ;; Ok (alloc t h)
    | CopyShallow | NoCopy => Ok (h, r)
    end.

  (* the tail of tree_copy.decorated: copy the cached object, hand it out; the observation is the returned tree *)
  Definition finish_parse (x : state) (r : ref) : state * list observation :=
    match do_copy (st_store x, st_next x) r with
    | Exn e => (x, [OParse (Exn e)])
    | Ok (h', r') => (push_handle r' (set_heap h' x), [OParse (readb (snd h') (fst h') r')])
    end.

  Definition step_parse (x : state) (p : parser) (s : N) : state * list observation :=
    let c := get_cache p x in
    match lookup s c with
    | Some r => finish_parse (set_cache p (touch s r c) x) r                    (* hit *)
    | None =>
      match pure_parse p s with
      | Exn e => (x, [OParse (Exn e)])                                            (* raised: nothing is stored *)
      | Ok t => let '(h1, r) := alloc t (st_store x, st_next x) in                (* miss: the parser builds a new tree *)
                finish_parse (set_cache p (insert maxsize s r c) (set_heap h1 x)) r
      end
    end.

  Definition eval_source (x : state) (src : source) : option (heap * ref) :=
    match src with
    | SJunkTok ty v => Some ((st_store x, st_next x), RTok ty v)
    | SJunkTree t => Some (alloc t (st_store x, st_next x))
    | SSub h p => match nth_error (st_handles x) (N.to_nat h) with
                  | None => None
                  | Some r0 => option_map (fun r => ((st_store x, st_next x), r)) (nav (st_store x) r0 p)
                  end
    end.

  (* an edit that Python would reject (bad handle, path through a token, index out of range) changes nothing *)
  Definition step_edit (x : state) (h : N) (path : list nat) (e : edit) : state :=
    match nth_error (st_handles x) (N.to_nat h) with
    | None => x
    | Some r0 =>
      match nav (st_store x) r0 path with
      | Some (RTree _ c) =>
        match sfind c (st_store x) with
        | None => x
        | Some rs =>
          let apply (new : option (heap * list ref)) :=
            match new with
            | None => x
            | Some ((st1, n1), rs') => set_heap (sadd c rs' st1, n1) x
            end in
          match e with
          | ERemove i => apply (option_map (fun l => ((st_store x, st_next x), l)) (del_nth i rs))
          | EReplace i src =>
            apply (match eval_source x src with
                   | None => None
                   | Some (h1, r) => option_map (fun l => (h1, l)) (set_nth i r rs)
                   end)
          | EAppend src =>
            apply (match eval_source x src with None => None | Some (h1, r) => Some (h1, rs ++ [r]) end)
          end
        end
      | _ => x
      end
    end.

  Definition step (x : state) (o : op) : state * list observation :=
    match o with
    | Parse p s => step_parse x p s
    | Edit h path e => (step_edit x h path e, [])
    | Peek h => (x, [OPeek (match nth_error (st_handles x) (N.to_nat h) with
                            | None => Exn KeyErr
                            | Some r => readb (st_next x) (st_store x) r
                            end)])
    end.

  Fixpoint run_from (x : state) (h : history) : list observation :=
    match h with
    | [] => []
    | o :: h' => let '(x', obs) := step x o in obs ++ run_from x' h'
    end.
  Definition run (h : history) : list observation := run_from init h.

  (* what C11 promises: the k-th parse call returns pure_parse of its string *)
  Fixpoint expected (h : history) : list (result atree) :=
    match h with
    | [] => []
    | Parse p s :: h' => pure_parse p s :: expected h'
    | _ :: h' => expected h'
    end.
End Run.

Fixpoint parse_obs (l : list observation) : list (result atree) :=
  match l with
  | [] => []
  | OParse r :: l' => r :: parse_obs l'
  | OPeek _ :: l' => parse_obs l'
  end.

(* the source as it is: the generated constants.  With the decorators in the other order (lru_cache outermost) the
   copy made by tree_copy would itself be cached and handed out on every hit: no copy at all. *)
Definition source_mode : copy_mode := if wrapper_order_ok then tree_copy_mode else NoCopy.
Definition run_src := run source_mode cache_maxsize.
