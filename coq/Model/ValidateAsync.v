(* L10 x L11: the validation recursion of validation.py as PROGRAMS of Model/Async.v -- every `await asyncio.gather(...)` of
   validate_deep_anwendungshandbuch / validate_segment_group / validate_segment is a [Par] (its children are tasks with a copy of the
   context, results in argument order), everything awaited directly (parse_expression_including_unresolved_subexpressions,
   evaluate_ahb_expression_tree, the entries of a value pool one after the other) is a [pbind] in the same task, and
   validate_data_element_freetext sets the ContextVar of the format constraints ([Put TEXTV]) between parsing and evaluating.
   Parsing and evaluating a node's expression are ARBITRARY programs (user supplied package resolvers, evaluators and hint providers may
   suspend any number of times, read their context and gather again). Definitions only; the refinement proof is Proofs/C13_async.v.

   What the post-processing of an evaluation result does is not written a second time: it is the sequential model of Model/Validate.v
   applied to the constant evaluation function [fun _ => r]. *)
From Ahb Require Import Model.Prelude Model.Grammar Gen.Gen_logic Gen.Gen_valmaps Model.EvalRC Model.EvalFC Model.EvalAhb Model.Validate Model.Async.

Section VA.
Variable nx : Type.                       (* a node's expression (string) *)
Variable U : Type.                        (* whatever the user's programs pass around (parsed trees, evaluator results, ...) *)
Variable invalid_reason : nx -> text.

(* the values awaitables return *)
Inductive vv :=
| VU (u : U)
| VTxt (t : option text)                                 (* data_element.entered_input, the value of the ContextVar *)
| VA (r : result ahbres)                                 (* evaluate_ahb_expression_tree: a result or a raised exception *)
| VS (r : result vres)                                   (* get_segment_level_requirement_validation_value *)
| VD (r : result (text * vres))                          (* validate_data_element *)
| VP (r : result (list (text * text)))                   (* possible_values of a value pool *)
| VR (r : result (list (text * vres))).                  (* validate_segment_group / validate_segment / validate_deep_anwendungshandbuch *)

Definition as_res (v : vv) : result ahbres := match v with VA r => r | _ => Exn OtherErr end.
Definition as_seg (v : vv) : result vres := match v with VS r => r | _ => Exn OtherErr end.
Definition as_row (v : vv) : result (text * vres) := match v with VD r => r | _ => Exn OtherErr end.
Definition as_possible (v : vv) : result (list (text * text)) := match v with VP r => r | _ => Exn OtherErr end.
Definition as_rows (v : vv) : result (list (text * vres)) := match v with VR r => r | _ => Exn OtherErr end.

Variable parsep : nx -> prog vv.          (* await parse_expression_including_unresolved_subexpressions(expr, resolve_packages=True) *)
Variable evalp : nx -> vv -> prog vv.     (* await evaluate_ahb_expression_tree(tree): returns VA (a result or the raised exception) *)

Definition TEXTV : var := 0.              (* fc_evaluators.text_to_be_evaluated_by_format_constraint *)

(* segment groups, segments, value pool entries: parse, then evaluate, in the task of the caller *)
Definition seg_eval (x : nx) : prog vv := pbind (parsep x) (evalp x).
(* free-text data elements: parse, SET the ContextVar to the element's own input, evaluate *)
Definition de_eval (x : nx) (input : option text) : prog vv :=
  pbind (parsep x) (fun t => Put TEXTV (VTxt input) (evalp x t)).

(* the sequential model's post-processing of one evaluation result *)
Definition seg_post (x : nx) (r : result ahbres) (parent : option rvv) (soll : bool) : result vres :=
  segment_level unit (fun _ => r) (fun _ => invalid_reason x) tt parent soll.
Definition free_post (d : text) (x : nx) (r : result ahbres) (input : option text) (vt : option dtype) (seg_req : rvv) (soll : bool)
  : result (text * vres) :=
  validate_freetext unit (fun _ => r) (fun _ => invalid_reason x) d tt input vt (Some seg_req) soll.
Definition sel_post (r : result ahbres) : result bool :=
  match r with
  | Exn InvalidExpr => Ok true
  | Exn e => Exn e
  | Ok r => Ok (is_true (r_fulfilled (a_rc r)))
  end.
Definition valuepool_finish (d : text) (input : option text) (possible : list (text * text)) : result (text * vres) :=
  match possible with
  | [] => Ok (d, VDe IS_FORBIDDEN true None None (Some []) DT_VALUE_POOL)
  | _ =>
      match input with
      | Some i =>
          if dict_mem possible i then Ok (d, VDe IS_REQUIRED_AND_FILLED true None None (Some possible) DT_VALUE_POOL)
          else if truthy_opt input then
            Ok (d, VDe IS_REQUIRED_AND_EMPTY false None
                       (Some (t_der_wert ++ i ++ t_ist_nicht_in ++ join_comma (map fst possible) ++ [125%N]))
                       (Some possible) DT_VALUE_POOL)
          else Ok (d, VDe IS_REQUIRED_AND_EMPTY true None None (Some possible) DT_VALUE_POOL)
      | None => Ok (d, VDe IS_REQUIRED_AND_EMPTY true None None (Some possible) DT_VALUE_POOL)
      end
  end.

Definition parent_forbidden (parent : option rvv) : bool := match parent with Some p => is_forbidden p | None => false end.

(* the node's own status: nothing is awaited below a forbidden parent *)
Definition own_prog (x : nx) (parent : option rvv) (soll : bool) : prog vv :=
  if parent_forbidden parent then Ret (VS (Ok (VSeg IS_FORBIDDEN None)))
  else pbind (seg_eval x) (fun v => Ret (VS (seg_post x (as_res v) parent soll))).

Definition freetext_prog (d : text) (x : nx) (input : option text) (vt : option dtype) (seg_req : rvv) (soll : bool) : prog vv :=
  pbind (de_eval x input) (fun v => Ret (VD (free_post d x (as_res v) input vt seg_req soll))).

(* `for value_pool_entry in data_element.value_pool: ... await ... await ...`: one entry after the other, in the element's task; an exception
   other than the invalid-expression error ends the loop *)
Fixpoint pool_prog (pool : list (text * text * nx)) (acc : list (text * text)) : prog vv :=
  match pool with
  | [] => Ret (VP (Ok acc))
  | (q, m, x) :: t =>
      pbind (seg_eval x) (fun v =>
        match sel_post (as_res v) with
        | Exn e => Ret (VP (Exn e))
        | Ok sel => pool_prog t (if sel then Validate.dict_set acc q m else acc)
        end)
  end.
Definition valuepool_prog (d : text) (pool : list (text * text * nx)) (input : option text) (seg_req : rvv) : prog vv :=
  pbind (if negb (is_forbidden seg_req) then
           match pool with
           | [(q, m, _)] => Ret (VP (Ok [(q, m)]))
           | _ => pool_prog pool []
           end
         else Ret (VP (Ok [])))
        (fun v => Ret (VD (do possible <- as_possible v ;; valuepool_finish d input possible))).

Definition de_prog (e : de nx) (seg_req : rvv) (soll : bool) : prog vv :=
  match e with
  | DEFree d x input vt => freetext_prog d x input vt seg_req soll
  | DEPool d pool input => valuepool_prog d pool input seg_req
  end.

(* what the code does with the list a gather returns (the first exception in argument order is re-raised: I-C12) *)
Definition rows_of_elements (rs : list vv) : result (list (text * vres)) := mapM as_row rs.
Definition rows_of_children (rs : list vv) : result (list (text * vres)) := do rss <- mapM as_rows rs ;; Ok (concat rss).

Fixpoint node_prog (n : node nx) (parent : option rvv) (soll : bool) : prog vv :=
  match n with
  | NGroup d x children =>
      pbind (own_prog x parent soll) (fun v =>
        match as_seg v with
        | Exn e => Ret (VR (Exn e))
        | Ok r =>
            if is_forbidden (vstatus r) then Ret (VR (Ok [(d, r)]))
            else Par (map (fun c => node_prog c (Some (vstatus r)) soll) children)
                     (fun rs => Ret (VR (do rest <- rows_of_children rs ;; Ok ((d, r) :: rest))))
        end)
  | NSeg d x des =>
      pbind (own_prog x parent soll) (fun v =>
        match as_seg v with
        | Exn e => Ret (VR (Exn e))
        | Ok r =>
            if is_forbidden (vstatus r) then Ret (VR (Ok [(d, r)]))
            else Par (map (fun e => de_prog e (vstatus r) soll) des)
                     (fun rs => Ret (VR (do rest <- rows_of_elements rs ;; Ok ((d, r) :: rest))))
        end)
  end.

(* validate_deep_anwendungshandbuch *)
Definition ahb_prog (lines : list (node nx)) (soll : bool) : prog vv :=
  Par (map (fun n => node_prog n None soll) lines) (fun rs => Ret (VR (rows_of_children rs))).

(* ---- the sequential model this refines: Model/Validate.v over expressions annotated with the context they are evaluated in *)
Definition nx' : Type := (nx * option (option text))%type.     (* (expr, None): segment level / pool entry; (expr, Some input): free text *)
Definition ev_of (c : ctx vv) (x : nx') : result ahbres :=
  match x with
  | (x, None) => as_res (den c (seg_eval x))
  | (x, Some input) => as_res (den c (de_eval x input))
  end.
Definition reason_of (x : nx') : text := invalid_reason (fst x).
Definition annot_pool (pool : list (text * text * nx)) : list (text * text * nx') :=
  map (fun e => (fst e, (snd e, @None (option text)))) pool.
Definition annot_de (e : de nx) : de nx' :=
  match e with
  | DEFree d x input vt => DEFree d (x, Some input) input vt
  | DEPool d pool input => DEPool d (annot_pool pool) input
  end.
Fixpoint annot (n : node nx) : node nx' :=
  match n with
  | NGroup d x children => NGroup d (x, None) (map annot children)
  | NSeg d x des => NSeg d (x, None) (map annot_de des)
  end.

(* programs whose own task never writes a context variable (the tasks they gather may) *)
Inductive no_put : prog vv -> Prop :=
| np_ret v : no_put (Ret v)
| np_yield k : no_put k -> no_put (Yield k)
| np_get x k : (forall v, no_put (k v)) -> no_put (Get x k)
| np_par ps k : (forall rs, no_put (k rs)) -> no_put (Par ps k).
End VA.

Arguments VU {U} u.
Arguments VTxt {U} t.
Arguments VA {U} r.
Arguments VS {U} r.
Arguments VD {U} r.
Arguments VP {U} r.
Arguments VR {U} r.
Arguments as_res {U} v.
Arguments as_seg {U} v.
Arguments as_row {U} v.
Arguments as_possible {U} v.
Arguments as_rows {U} v.
Arguments rows_of_elements {U} rs.
Arguments rows_of_children {U} rs.
