(* L4 of DESIGN.md: the AHB-expression scanner (Lark's dynamic Earley lexer on the three terminal regexes of the AHB
   grammar: longest regex match per expected terminal, nothing ignored) and the resolver's try/except structure. *)
From Ahb Require Import Model.Prelude Model.Grammar Gen.Gen_grammar Gen.Gen_ahbgrammar Model.Lex Model.EvalAhb.

Definition in_set (c : N) (l : list N) : bool := existsb (N.eqb c) l.
Definition in_ranges (c : N) (l : list (N * N)) : bool := existsb (fun p => (fst p <=? c)%N && (c <=? snd p)%N) l.
Definition is_word (c : N) : bool := in_ranges c word_ranges.
Definition in_ce_class (c : N) : bool := in_ranges c ce_class_ranges.

(* match the given sequence of case-insensitive letters at the head of s *)
Fixpoint match_seq (sets : list (list N)) (s : text) : option (text * text) :=
  match sets with
  | [] => Some ([], s)
  | st :: more => match s with
                  | c :: r => if in_set c st then match match_seq more r with Some (m, rest) => Some (c :: m, rest) | None => None end else None
                  | [] => None
                  end
  end.

(* MODAL_MARK = (?i:M(uss)?|S(oll)?|K(ann)?) : the token and the rest *)
Definition modal_mark (s : text) : option (text * text) :=
  match s with
  | c :: r =>
      let opt tail := match match_seq tail r with Some (m, rest) => Some (c :: m, rest) | None => Some ([c], r) end in
      if in_set c ci_m then opt [ci_u; ci_s; ci_s]
      else if in_set c ci_s then opt [ci_o; ci_l; ci_l]
      else if in_set c ci_k then opt [ci_a; ci_n; ci_n]
      else None
  | [] => None
  end.

(* PREFIX_OPERATOR = (?i:X)|(?i:O)|(?i:U) *)
Definition prefix_operator (s : text) : option (text * text) :=
  match s with
  | c :: r => if in_set c ci_x || in_set c ci_o || in_set c ci_u then Some ([c], r) else None
  | [] => None
  end.

(* CONDITION_EXPRESSION = (?i:(?!\BU\B)[class]+) at a position whose previous character is `prev` *)
Definition lookahead_blocks (prev : N) (s : text) : bool :=
  match s with
  | c :: n :: _ => is_word prev && in_set c ci_u && is_word n
  | _ => false
  end.
Definition condition_expression (prev : N) (s : text) : option (text * text) :=
  if lookahead_blocks prev s then None
  else match span in_ce_class s with
       | ([], _) => None
       | (m, rest) => Some (m, rest)
       end.

(* raw parts: indicator token with its condition-expression text (None = bare requirement_indicator) *)
Inductive rawpart := RP (t : indtok) (ce : option text).

Fixpoint mm_parts (fuel : nat) (s : text) : option (list rawpart) :=
  match fuel with
  | O => None
  | Datatypes.S f =>
      match modal_mark s with
      | None => None
      | Some (tok, rest) =>
          match rest with
          | [] => Some [RP (TokMM tok) None]
          | _ => match condition_expression (last tok 0%N) rest with
                 | None => None
                 | Some (ce, rest') =>
                     match rest' with
                     | [] => Some [RP (TokMM tok) (Some ce)]
                     | _ => option_map (cons (RP (TokMM tok) (Some ce))) (mm_parts f rest')
                     end
                 end
          end
      end
  end.

(* parse_ahb_expression_to_single_requirement_indicator_expressions *)
Definition parse_ahb (s : text) : result (list rawpart) :=
  match prefix_operator s with
  | Some (tok, rest) =>
      match rest with
      | [] => Ok [RP (TokPO tok) None]
      | _ => match condition_expression (last tok 0%N) rest with
             | Some (ce, []) => Ok [RP (TokPO tok) (Some ce)]
             | _ => Exn SyntaxErr
             end
      end
  | None => of_option SyntaxErr (mm_parts (Datatypes.S (length s)) s)
  end.

(* parse_expression_including_unresolved_subexpressions without packages / time conditions:
   an AHB tree whose condition parts are parsed, or -- when that fails with SyntaxError -- the whole string as a
   condition expression, else SyntaxError *)
Inductive resolved := RAhb (parts : list (indtok * option fx)) | RCond (t : fx).

Definition resolve_parts (ps : list rawpart) : result (list (indtok * option fx)) :=
  mapM (fun p => match p with
                 | RP t None => Ok (t, None)
                 | RP t (Some ce) => do f <- parse_cond ce ;; Ok (t, Some f)
                 end) ps.

Definition resolve_str (s : text) : result resolved :=
  match (do ps <- parse_ahb s ;; resolve_parts ps) with
  | Ok parts => Ok (RAhb parts)
  | Exn SyntaxErr => match parse_cond s with Ok t => Ok (RCond t) | Exn _ => Exn SyntaxErr end
  | Exn e => Exn e
  end.
