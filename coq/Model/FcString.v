(* FormatConstraintExpressionBuilder at STRING level, the way expression_builder.py writes it: f-strings, str.strip() and the substitution of the
   compiled pattern  \((?P<body>\[\d+\])\)  by its body over the whole string (re.sub: leftmost, non-overlapping, one pass) -- and the
   RequirementConstraintTransformer with this builder. Model/EvalRC.v has the same builder on token forests ([fcb_init], [fcb_connect] with
   [norm1]); Proofs/C07_string.v proves that the string this file computes is [render] of the forest that one computes. Definitions only. *)
From Ahb Require Import Model.Prelude Model.Grammar Gen.Gen_logic Gen.Gen_ranges Gen.Gen_grammar Model.Logic Model.Lex Model.EvalRC.

(* ---- re: \d of a str pattern is the Unicode category Nd (the regenerated table) *)
Definition is_d (c : N) : bool := is_udigit c.

Fixpoint span_d (s : text) : text * text :=
  match s with
  | c :: t => if is_d c then let '(a, b) := span_d t in (c :: a, b) else ([], s)
  | [] => ([], [])
  end.

(* the pattern matched at the very start of s: Some (body, what follows the match) *)
Definition match_at (s : text) : option (text * text) :=
  match s with
  | a :: b :: t =>
      if (a =? 40)%N && (b =? 91)%N then
        match span_d t with
        | (d :: ds, x :: y :: rest) => if (x =? 93)%N && (y =? 41)%N then Some (91%N :: (d :: ds) ++ [93%N], rest) else None
        | _ => None
        end
      else None
  | _ => None
  end.

(* pattern.sub(r"\g<body>", s): scan from the left; a match is replaced by its body and scanning continues behind it; other characters are copied.
   Fuel: the length of the string suffices (Proofs/C07_string.v: sub_eq) *)
Fixpoint sub_f (fuel : nat) (s : text) : text :=
  match fuel with
  | 0 => s
  | Datatypes.S n =>
      match s with
      | [] => []
      | c :: t =>
          match match_at s with
          | Some (body, rest) => body ++ sub_f n rest
          | None => c :: sub_f n t
          end
      end
  end.
Definition re_sub (s : text) : text := sub_f (length s) s.

(* ---- str.strip(): characters for which str.isspace() holds *)
Definition py_space_ranges : list (N * N) :=
  [(9, 13); (28, 32); (133, 133); (160, 160); (5760, 5760); (8192, 8202); (8232, 8233); (8239, 8239); (8287, 8287); (12288, 12288)]%N.
Definition is_space (c : N) : bool := existsb (fun p => (fst p <=? c)%N && (c <=? snd p)%N) py_space_ranges.
Fixpoint lstrip (s : text) : text := match s with c :: t => if is_space c then lstrip t else s | [] => [] end.
Definition strip (s : text) : text := rev (lstrip (rev (lstrip s))).

(* ---- the builder. A node as the builder sees it: its class, its condition key, its format_constraints_expression *)
Definition s_truthy (o : option text) : bool := match o with Some (_ :: _) => true | _ => false end.
Definition bracket_key (k : text) : text := 91%N :: k ++ [93%N].           (* f"[{condition_key}]" *)

(* __init__ *)
Definition fcs_init (kd : nkind) (key : text) (fcx : option text) : option text :=
  match kd with
  | KFc => Some (bracket_key key)
  | KEc => if s_truthy fcx then fcx else None
  | _ => None
  end.

(* _connect *)
Definition oget (o : option text) : text := match o with Some s => s | None => [] end.
Definition fcs_connect (op : lop) (self : option text) (kd : nkind) (key : text) (fcx : option text) : option text :=
  let prefix := if s_truthy self then [40%N] ++ oget self ++ [41%N; 32%N; lop_char op] else [] in   (* f"({self._expression}) {operator_character}" *)
  let e := match kd with
           | KFc => Some (prefix ++ [32%N] ++ bracket_key key)                                      (* f"{prefix} [{other.condition_key}]" *)
           | KEc => if s_truthy fcx then Some (prefix ++ [32%N; 40%N] ++ oget fcx ++ [41%N])          (* f"{prefix} ({other.format_constraints_expression})" *)
                    else self
           | _ => self
           end in
  if s_truthy e then Some (re_sub (strip (oget e))) else e.

(* ---- the transformer over string-carrying nodes (the callbacks of Model/EvalRC.v with this builder) *)
Record snode := { sk : nkind; sst : cfv; skey : text; shint : option text; sfcx : option text }.
Definition mk_sec (s : cfv) (h : option text) (f : option text) : snode := {| sk := KEc; sst := s; skey := []; shint := h; sfcx := f |}.
Definition s_init (n : snode) : option text := fcs_init (sk n) (skey n) (sfcx n).
Definition s_connect (op : lop) (self : option text) (o : snode) : option text := fcs_connect op self (sk o) (skey o) (sfcx o).

Definition s_and (l r : snode) : result snode :=
  do s <- lift_cfv (cfv_and (sst l) (sst r)) ;;
  let h := if negb (cfv_eqb s C_UNFULFILLED) then hb_land (shint l) (shint r) else None in
  Ok (mk_sec s h (s_connect LU (s_init l) r)).
Definition s_invalid (l r : snode) : bool :=
  (nkind_eqb (sk l) KHint && nkind_eqb (sk r) KFc) || (nkind_eqb (sk r) KHint && nkind_eqb (sk l) KFc)
  || (cfv_eqb (sst l) C_NEUTRAL && negb (cfv_eqb (sst r) C_NEUTRAL))
  || (cfv_eqb (sst r) C_NEUTRAL && negb (cfv_eqb (sst l) C_NEUTRAL)).
Definition s_or (l r : snode) : result snode :=
  if s_invalid l r then Exn InvalidExpr else
  do s <- lift_cfv (cfv_or (sst l) (sst r)) ;;
  Ok (mk_sec s (hb_lor (shint l) (shint r)) (s_connect LO (s_init l) r)).
Definition s_xor (l r : snode) : result snode :=
  if s_invalid l r then Exn InvalidExpr else
  do s <- lift_cfv (cfv_xor (sst l) (sst r)) ;;
  Ok (mk_sec s (hb_xor (shint l) (shint r)) (s_connect LX (s_init l) r)).
Definition s_then_also (fc other : snode) : result snode :=
  if negb (cfv_eqb (sst other) C_NEUTRAL) then
    let required := cfv_eqb (sst other) C_FULFILLED in
    Ok (mk_sec (sst other) None (if required then s_connect LU (s_init fc) other else None))
  else if nkind_eqb (sk other) KHint then
    Ok (mk_sec C_NEUTRAL (shint other) (s_connect LU (s_init fc) other))
  else Exn NotImpl.
Definition s_then (l r : snode) : result snode := if nkind_eqb (sk l) KFc then s_then_also l r else s_then_also r l.
Definition s_compose (b : binop) (l r : snode) : result snode :=
  match b with BAnd => s_and l r | BOr => s_or l r | BXor => s_xor l r | BThen => s_then l r end.

Definition senv := list (text * snode).
Fixpoint eval_rc_s (rho : senv) (e : kexpr) : result snode :=
  match e with
  | EAtom k => of_option ValueErr (lookup rho k)
  | EBin b l r => do x <- eval_rc_s rho l ;; do y <- eval_rc_s rho r ;; s_compose b x y
  end.

(* the reported format_constraints_expression *)
Definition s_result_fcx (n : snode) : option text := if nkind_eqb (sk n) KFc then Some (bracket_key (skey n)) else sfcx n.

(* a token-carrying node seen through its strings *)
Definition view (n : node) : snode :=
  {| sk := nk n; sst := st n; skey := nkey n; shint := nhint n; sfcx := option_map render (nfcx n) |}.
