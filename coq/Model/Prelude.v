(* Shared vocabulary of all models: text as code points, Python exceptions as values. *)
From Coq Require Export List NArith ZArith Bool Arith Lia.
Export ListNotations.
Set Implicit Arguments.

(* Python [str] = list of Unicode code points (what [re] and Lark see), never bytes. *)
Definition text := list N.

(* exception classes that can escape the modelled code *)
Inductive exn :=
| SyntaxErr | VisitErr (e : exn) | InvalidExpr | NotImpl | ValueErr | KeyErr | TypeErr
| Overflow | UnboundLocal | ValidationErr | AttrErr | ReturnedNone | OtherErr | OutOfFuel.

Inductive result (A : Type) := Ok (a : A) | Exn (e : exn).
Arguments Ok {A} a.
Arguments Exn {A} e.

Definition bind {A B} (r : result A) (f : A -> result B) : result B :=
  match r with Ok a => f a | Exn e => Exn e end.
Notation "'do' x <- r ;; k" := (bind r (fun x => k)) (at level 200, x name, r at level 100, k at level 200).

Definition of_option {A} (e : exn) (o : option A) : result A :=
  match o with Some a => Ok a | None => Exn e end.

Fixpoint exn_eqb (a b : exn) : bool :=
  match a, b with
  | SyntaxErr, SyntaxErr | InvalidExpr, InvalidExpr | NotImpl, NotImpl | ValueErr, ValueErr
  | KeyErr, KeyErr | TypeErr, TypeErr | Overflow, Overflow | UnboundLocal, UnboundLocal
  | ValidationErr, ValidationErr | AttrErr, AttrErr | ReturnedNone, ReturnedNone | OtherErr, OtherErr | OutOfFuel, OutOfFuel => true
  | VisitErr x, VisitErr y => exn_eqb x y
  | _, _ => false
  end.

Fixpoint list_eqb {A} (eqb : A -> A -> bool) (l1 l2 : list A) : bool :=
  match l1, l2 with
  | [], [] => true
  | x :: t1, y :: t2 => eqb x y && list_eqb eqb t1 t2
  | _, _ => false
  end.

Definition text_eqb : text -> text -> bool := list_eqb N.eqb.

Definition option_eqb {A} (eqb : A -> A -> bool) (a b : option A) : bool :=
  match a, b with
  | None, None => true
  | Some x, Some y => eqb x y
  | _, _ => false
  end.

Definition result_eqb {A} (eqb : A -> A -> bool) (a b : result A) : bool :=
  match a, b with
  | Ok x, Ok y => eqb x y
  | Exn x, Exn y => exn_eqb x y
  | _, _ => false
  end.

Lemma exn_eqb_eq a b : exn_eqb a b = true -> a = b.
Proof.
  revert b; induction a as [| e IH | | | | | | | | | | | |]; intros b H; destruct b; simpl in H; try discriminate; try reflexivity.
  f_equal. now apply IH.
Qed.

Lemma list_eqb_eq {A} (eqb : A -> A -> bool) (Heq : forall x y, eqb x y = true -> x = y) l1 l2 :
  list_eqb eqb l1 l2 = true -> l1 = l2.
Proof.
  revert l2; induction l1 as [|x t IH]; intros [|y t2] H; simpl in H; try discriminate; [reflexivity|].
  apply andb_true_iff in H. destruct H as [H1 H2]. f_equal; [now apply Heq|now apply IH].
Qed.

Lemma text_eqb_eq a b : text_eqb a b = true -> a = b.
Proof. apply list_eqb_eq. intros x y H. now apply N.eqb_eq. Qed.

Lemma option_eqb_eq {A} (eqb : A -> A -> bool) (Heq : forall x y, eqb x y = true -> x = y) a b :
  option_eqb eqb a b = true -> a = b.
Proof. destruct a, b; simpl; intros H; try discriminate; [f_equal; now apply Heq|reflexivity]. Qed.

Lemma result_eqb_eq {A} (eqb : A -> A -> bool) (Heq : forall x y, eqb x y = true -> x = y) a b :
  result_eqb eqb a b = true -> a = b.
Proof. destruct a, b; simpl; intros H; try discriminate; f_equal; [now apply Heq|now apply exn_eqb_eq]. Qed.

(* positions of the cases whose check is [false] *)
Fixpoint bad_ids_from {A} (chk : A -> bool) (i : nat) (l : list A) : list nat :=
  match l with
  | [] => []
  | x :: t => if chk x then bad_ids_from chk (S i) t else i :: bad_ids_from chk (S i) t
  end.
Definition run_cases {A} (chk : A -> bool) (l : list A) : nat * list nat := (length l, bad_ids_from chk 0 l).

Fixpoint mapM {A B} (f : A -> result B) (l : list A) : result (list B) :=
  match l with
  | [] => Ok []
  | x :: t => do y <- f x ;; do ys <- mapM f t ;; Ok (y :: ys)
  end.

(* ASCII digits -> integer; the modelled domain of Python's int(str) (other accepted spellings such as
   " 12 ", "+1", "1_0" or non-ASCII digits are outside the model and yield ValueErr here) *)
Definition is_ascii_digit (c : N) : bool := (48 <=? c)%N && (c <=? 57)%N.
Fixpoint digits_val (acc : Z) (l : text) : result Z :=
  match l with
  | [] => Ok acc
  | c :: t => if is_ascii_digit c then digits_val (acc * 10 + Z.of_N (c - 48))%Z t else Exn ValueErr
  end.
Definition key_int (k : text) : result Z :=
  match k with [] => Exn ValueErr | _ => digits_val 0%Z k end.
Definition ends_with (c : N) (k : text) : bool :=
  match rev k with x :: _ => N.eqb x c | [] => false end.
