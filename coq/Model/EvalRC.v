(* L6 of DESIGN.md: RequirementConstraintTransformer, the expression builders it uses and
   requirement_constraint_evaluation, as total executable functions. Definitions only. *)
From Ahb Require Import Model.Prelude Model.Grammar Gen.Gen_logic Gen.Gen_ranges Model.Logic.

(* condition expressions whose leaves are condition keys (packages / time conditions resolved beforehand) *)
Definition kexpr := expr text.

(* ---------------------------------------------------------------- expression builders *)
Inductive lop := LU | LO | LX.             (* LogicalOperator: LAND = "U", LOR = "O", XOR = "X" *)
Inductive fitem := FK (k : text) | FOp (o : lop) | FG (g : list fitem).
Definition fctoks := list fitem.           (* a format-constraint expression, token level *)

Definition lop_char (o : lop) : N := match o with LU => 85 | LO => 79 | LX => 88 end%N.

(* the string the implementation builds: "(<self>) U [k]" / "(<self>) U (<other>)" *)
Fixpoint render_item (x : fitem) : text :=
  match x with
  | FK k => [91%N] ++ k ++ [93%N]
  | FOp o => [32%N; lop_char o; 32%N]
  | FG g => [40%N] ++ concat (map render_item g) ++ [41%N]
  end.
Definition render (e : fctoks) : text := concat (map render_item e).

(* _one_key_surrounded_by_brackets_pattern.sub: one pass, "([k])" -> "[k]" *)
Fixpoint norm1 (x : fitem) : fitem :=
  match x with
  | FG [FK k] => FK k
  | FG g => FG (map norm1 g)
  | _ => x
  end.

Definition truthy {A} (l : list A) : bool := match l with [] => false | _ => true end.
Definition otruthy {A} (o : option (list A)) : bool := match o with Some l => truthy l | None => false end.

Inductive nkind := KRc | KHint | KFc | KEc.   (* RequirementConstraint | Hint | UnevaluatedFormatConstraint | EvaluatedComposition *)
Definition nkind_eqb (a b : nkind) : bool :=
  match a, b with KRc, KRc | KHint, KHint | KFc, KFc | KEc, KEc => true | _, _ => false end.

Record node := { nk : nkind; st : cfv; nkey : text; nhint : option text; nfcx : option fctoks }.
Definition mk_ec (s : cfv) (h : option text) (f : option fctoks) : node :=
  {| nk := KEc; st := s; nkey := []; nhint := h; nfcx := f |}.

(* FormatConstraintExpressionBuilder.__init__ *)
Definition fcb_init (n : node) : option fctoks :=
  match nk n with
  | KFc => Some [FK (nkey n)]
  | KEc => if otruthy (nfcx n) then nfcx n else None
  | _ => None
  end.

(* FormatConstraintExpressionBuilder._connect *)
Definition fcb_connect (op : lop) (self : option fctoks) (other : node) : option fctoks :=
  let prefix := match self with Some (x :: t) => [FG (x :: t); FOp op] | _ => [] end in
  let e := match nk other with
           | KFc => Some (prefix ++ [FK (nkey other)])
           | KEc => match nfcx other with Some (y :: u) => Some (prefix ++ [FG (y :: u)]) | _ => self end
           | _ => self
           end in
  match e with Some (x :: t) => Some (map norm1 (x :: t)) | _ => e end.

(* HintExpressionBuilder *)
Definition t_und : text := [32;117;110;100;32]%N.            (* " und " *)
Definition t_oder : text := [32;111;100;101;114;32]%N.        (* " oder " *)
Definition t_entweder : text := [69;110;116;119;101;100;101;114;32;40]%N.   (* "Entweder (" *)
Definition t_oder2 : text := [41;32;111;100;101;114;32;40]%N.               (* ") oder (" *)
Definition hb_join (sep : text) (self other : option text) : option text :=
  match other with
  | None => self
  | Some o => if otruthy self then Some (match self with Some s => s | None => [] end ++ sep ++ o) else Some o
  end.
Definition hb_land := hb_join t_und.
Definition hb_lor := hb_join t_oder.
Definition hb_xor (self other : option text) : option text :=
  match other with
  | None => self
  | Some o => if otruthy self then Some (t_entweder ++ match self with Some s => s | None => [] end ++ t_oder2 ++ o ++ [41%N]) else Some o
  end.

(* ---------------------------------------------------------------- transformer callbacks *)
Definition lift_cfv (r : result cfv) : result cfv :=
  match r with Ok c => Ok c | Exn _ => Exn TypeErr end.   (* EvaluatedComposition(conditions_fulfilled=None) fails attrs validation *)

Definition and_composition (l r : node) : result node :=
  do s <- lift_cfv (cfv_and (st l) (st r)) ;;
  let h := if negb (cfv_eqb s C_UNFULFILLED) then hb_land (nhint l) (nhint r) else None in
  Ok (mk_ec s h (fcb_connect LU (fcb_init l) r)).

Definition or_xor_invalid (l r : node) : bool :=
  (nkind_eqb (nk l) KHint && nkind_eqb (nk r) KFc) || (nkind_eqb (nk r) KHint && nkind_eqb (nk l) KFc)
  || (cfv_eqb (st l) C_NEUTRAL && negb (cfv_eqb (st r) C_NEUTRAL))
  || (cfv_eqb (st r) C_NEUTRAL && negb (cfv_eqb (st l) C_NEUTRAL)).

Definition or_composition (l r : node) : result node :=
  if or_xor_invalid l r then Exn InvalidExpr else
  do s <- lift_cfv (cfv_or (st l) (st r)) ;;
  Ok (mk_ec s (hb_lor (nhint l) (nhint r)) (fcb_connect LO (fcb_init l) r)).

Definition xor_composition (l r : node) : result node :=
  if or_xor_invalid l r then Exn InvalidExpr else
  do s <- lift_cfv (cfv_xor (st l) (st r)) ;;
  Ok (mk_ec s (hb_xor (nhint l) (nhint r)) (fcb_connect LX (fcb_init l) r)).

Definition then_also (fc other : node) : result node :=
  if negb (cfv_eqb (st other) C_NEUTRAL) then
    let required := cfv_eqb (st other) C_FULFILLED in
    Ok (mk_ec (st other) None (if required then fcb_connect LU (fcb_init fc) other else None))
  else if nkind_eqb (nk other) KHint then
    Ok (mk_ec C_NEUTRAL (nhint other) (fcb_connect LU (fcb_init fc) other))
  else Exn NotImpl.

Definition then_also_composition (l r : node) : result node :=
  if nkind_eqb (nk l) KFc then then_also l r else then_also r l.

Definition compose (b : binop) (l r : node) : result node :=
  match b with
  | BAnd => and_composition l r
  | BOr => or_composition l r
  | BXor => xor_composition l r
  | BThen => then_also_composition l r
  end.

(* input_values: condition key -> node (a Python dict; first binding wins in this association list) *)
Definition env := list (text * node).
Fixpoint lookup {A} (l : list (text * A)) (k : text) : option A :=
  match l with
  | [] => None
  | (k', v) :: t => if text_eqb k k' then Some v else lookup t k
  end.

(* Transformer: bottom-up, children left to right, the first exception wins; evaluate_requirement_constraint_tree
   unwraps VisitError, InvalidExpressionError (a BaseException) is never wrapped *)
Fixpoint eval_rc (rho : env) (e : kexpr) : result node :=
  match e with
  | EAtom k => of_option ValueErr (lookup rho k)
  | EBin b l r => do x <- eval_rc rho l ;; do y <- eval_rc rho r ;; compose b x y
  end.

(* ---------------------------------------------------------------- requirement_constraint_evaluation *)
Record rcres := { r_fulfilled : option bool; r_conditional : option bool; r_fcx : option fctoks; r_hints : option text }.

Definition outcome_of (s : cfv) : option bool * option bool :=
  match s with
  | C_FULFILLED => (Some true, Some true)
  | C_UNFULFILLED => (Some false, Some true)
  | C_NEUTRAL => (Some true, Some false)
  | C_UNKNOWN => (None, None)
  end.

Definition rc_result (n : node) : rcres :=
  let '(f, c) := outcome_of (st n) in
  {| r_fulfilled := f; r_conditional := c;
     r_fcx := if nkind_eqb (nk n) KFc then Some [FK (nkey n)] else nfcx n;
     r_hints := nhint n |}.

(* leaf kinds from the regenerated ranges *)
Definition leaf_kind (k : text) : result nkind :=
  match node_type_of_key k with
  | Ok NT_REQUIREMENT_CONSTRAINT | Ok NT_REPEATABILITY_CONSTRAINT => Ok KRc
  | Ok NT_HINT => Ok KHint
  | Ok NT_FORMAT_CONSTRAINT => Ok KFc
  | Ok NT_PACKAGE => Exn NotImpl
  | Exn e => Exn e
  end.

Fixpoint keys_of (e : kexpr) : list text :=
  match e with EAtom k => [k] | EBin _ l r => keys_of l ++ keys_of r end.

(* the content evaluation result the evaluators / hints provider answer from *)
Record cer := { c_rc : list (text * cfv); c_hints : list (text * option text); c_fc : list (text * (bool * option text)) }.

Definition leaf_node (c : cer) (k : text) (kd : nkind) : result node :=
  match kd with
  | KRc => do s <- of_option NotImpl (lookup (c_rc c) k) ;; Ok {| nk := KRc; st := s; nkey := k; nhint := None; nfcx := None |}
  | KHint => match lookup (c_hints c) k with
             | Some (Some h) => Ok {| nk := KHint; st := C_NEUTRAL; nkey := k; nhint := Some h; nfcx := None |}
             | _ => Exn KeyErr
             end
  | _ => Ok {| nk := KFc; st := C_NEUTRAL; nkey := k; nhint := None; nfcx := None |}
  end.

(* ConditionNodeBuilder: categorise all keys first, then RC nodes, then hint nodes, then FC nodes *)
Definition build_env (c : cer) (keys : list text) : result env :=
  do kinds <- mapM (fun k => do kd <- leaf_kind k ;; Ok (k, kd)) keys ;;
  let sel kd := filter (fun p => nkind_eqb (snd p) kd) kinds in
  do rcs <- mapM (fun p => do n <- leaf_node c (fst p) KRc ;; Ok (fst p, n)) (sel KRc) ;;
  do hs <- mapM (fun p => do n <- leaf_node c (fst p) KHint ;; Ok (fst p, n)) (sel KHint) ;;
  do fs <- mapM (fun p => do n <- leaf_node c (fst p) KFc ;; Ok (fst p, n)) (sel KFc) ;;
  Ok (rcs ++ hs ++ fs).

Definition rc_evaluation (c : cer) (e : kexpr) : result rcres :=
  do rho <- build_env c (keys_of e) ;;
  do n <- eval_rc rho e ;;
  Ok (rc_result n).
