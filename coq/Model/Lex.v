(* L0/L1 of DESIGN.md: tokens of the condition-expression language, the deterministic scanner that models Lark's
   dynamic Earley lexer for this grammar (longest regex match per expected terminal, %ignore WS between tokens),
   bracket grouping, and the instantiation of Model.Grammar with the regenerated rule table. Definitions only. *)
From Ahb Require Import Model.Prelude Model.Grammar Gen.Gen_grammar.

Inductive atom :=
| AKey (k : text)                       (* condition      [12]       : CONDITION_KEY value *)
| APkg (k : text) (rep : option text)   (* package        [12P1..3]  : PACKAGE_KEY value (with the P), REPEATABILITY value *)
| ATime (k : text).                     (* time_condition [UB1]      : TIME_CONDITION_KEY value *)

Inductive tok := TA (a : atom) | TO (r : rule) | TL | TR.

Definition is_ws (c : N) : bool := existsb (N.eqb c) ws_chars.
Definition op_of_char (c : N) : option rule := find (fun r => existsb (N.eqb c) (rule_spellings r)) all_rules.
Definition is_udigit (c : N) : bool := existsb (fun p => (fst p <=? c)%N && (c <=? snd p)%N) unicode_digit_ranges.

Fixpoint skip_ws (s : text) : text :=
  match s with c :: t => if is_ws c then skip_ws t else s | [] => [] end.
Fixpoint span (p : N -> bool) (s : text) : text * text :=
  match s with
  | c :: t => if p c then let '(a, b) := span p t in (c :: a, b) else ([], s)
  | [] => ([], [])
  end.

(* the rest of s after the character c, if s starts with c *)
Definition after (c : N) (s : text) : option text :=
  match s with x :: r => if N.eqb x c then Some r else None | [] => None end.

(* REPEATABILITY = \d+\.{2}[1-9]\d* at the head of s (longest match) *)
Definition scan_repeatability (s : text) : option (text * text) :=
  let '(d1, r1) := span is_udigit s in
  match d1 with
  | [] => None
  | _ :: _ =>
      match after 46 r1 with
      | Some r1a =>
          match after 46 r1a with
          | Some (c :: r2) =>
              if (49 <=? c)%N && (c <=? 57)%N then let '(d2, r3) := span is_udigit r2 in Some (d1 ++ [46; 46; c]%N ++ d2, r3) else None
          | _ => None
          end
      | None => None
      end
  end.

Definition close_bracket (a : atom) (s : text) : option (atom * text) :=
  match after 93 (skip_ws s) with Some r => Some (a, r) | None => None end.

(* what follows a '[' : returns the atom and the rest after the closing ']' *)
Definition scan_atom (s : text) : option (atom * text) :=
  let s := skip_ws s in
  match after 85 s with
  | Some s1 =>                                       (* UB1 | UB2 | UB3 *)
      match after 66 s1 with
      | Some (c :: r) => if (49 <=? c)%N && (c <=? 51)%N then close_bracket (ATime [85; 66; c]%N) r else None
      | _ => None
      end
  | None =>
      let '(ds, r) := span is_ascii_digit s in
      match ds with
      | [] => None
      | _ :: _ =>
          match after 80 r with
          | Some r1 =>                                (* PACKAGE_KEY, optional REPEATABILITY *)
              match close_bracket (APkg (ds ++ [80%N]) None) r1 with
              | Some res => Some res
              | None => match scan_repeatability (skip_ws r1) with
                        | Some (rep, r2) => close_bracket (APkg (ds ++ [80%N]) (Some rep)) r2
                        | None => None
                        end
              end
          | None => close_bracket (AKey ds) r
          end
      end
  end.

(* scan_atom consumes at least one character, so `length s` is enough fuel *)
Fixpoint lex_fuel (fuel : nat) (s : text) : option (list tok) :=
  match fuel with
  | O => match skip_ws s with [] => Some [] | _ => None end
  | Datatypes.S f =>
    match skip_ws s with
    | [] => Some []
    | c :: t =>
      if N.eqb c 40 then option_map (cons TL) (lex_fuel f t)
      else if N.eqb c 41 then option_map (cons TR) (lex_fuel f t)
      else if N.eqb c 91 then
        match scan_atom t with
        | Some (a, r) => option_map (cons (TA a)) (lex_fuel f r)
        | None => None
        end
      else match op_of_char c with
           | Some r => option_map (cons (TO r)) (lex_fuel f t)
           | None => None
           end
    end
  end.
Definition lex (s : text) : option (list tok) := lex_fuel (length s) s.

(* ---------- bracket grouping ---------- *)
Notation item := (Grammar.item atom rule).
Notation expr := (Grammar.expr atom).
Notation fx := (Grammar.fx atom).

(* group ts = (items up to the matching close or the end, rest after the close, closed?) *)
Fixpoint group_fuel (fuel : nat) (ts : list tok) : option (list item * list tok * bool) :=
  match fuel with
  | O => None
  | Datatypes.S f =>
    match ts with
    | [] => Some ([], [], false)
    | TR :: r => Some ([], r, true)
    | TL :: r =>
        match group_fuel f r with
        | Some (g, r1, true) =>
            match group_fuel f r1 with
            | Some (its, r2, cl) => Some (IG g :: its, r2, cl)
            | None => None
            end
        | _ => None
        end
    | TA a :: r => match group_fuel f r with Some (its, r2, cl) => Some (IA a :: its, r2, cl) | None => None end
    | TO o :: r => match group_fuel f r with Some (its, r2, cl) => Some (IO o :: its, r2, cl) | None => None end
    end
  end.
Definition group (ts : list tok) : option (list item) :=
  match group_fuel (Datatypes.S (length ts)) ts with
  | Some (its, [], false) => Some its
  | _ => None
  end.

(* ---------- local description of the documented language ---------- *)
Definition is_op (x : item) : bool := match x with IO _ => true | _ => false end.
Fixpoint no_adjacent_ops (l : list item) : bool :=
  match l with
  | x :: ((y :: _) as t) => negb (is_op x && is_op y) && no_adjacent_ops t
  | _ => true
  end.
Fixpoint wf_item (x : item) : bool :=
  match x with
  | IG g => match g with
            | [] => false
            | h :: _ => negb (is_op h) && negb (is_op (last g h)) && no_adjacent_ops g && forallb wf_item g
            end
  | _ => true
  end.
Definition wf (l : list item) : bool := wf_item (IG l).

(* ---------- instantiation of the parametric grammar ---------- *)
Definition GFc := @Grammar.GF atom rule rule_alias.
Definition Rc := @Grammar.R atom rule rule_alias rule_order order_then.
Definition Sc := @Grammar.S atom rule rule_alias.
Definition canonc := @Grammar.canon atom rule rule_alias.

(* bracket nesting depth bounds the recursion of canon: 5 levels per depth (proved in Proofs/C01_parse.v) *)
Fixpoint idepth (x : item) : nat :=
  match x with IG g => Datatypes.S (fold_right (fun y m => Nat.max (idepth y) m) 0 g) | _ => 0 end.
Definition bdepth (l : list item) : nat := fold_right (fun y m => Nat.max (idepth y) m) 0 l.
Definition canon_fuel (l : list item) : nat := 5 + 5 * bdepth l.
Definition parse_fx (s : text) : option fx :=
  match lex s with
  | Some ts => match group ts with Some its => canonc (canon_fuel its) 0 its | None => None end
  | None => None
  end.

(* parse_condition_expression_to_tree, modulo same-operator runs: Tree or SyntaxError *)
Definition parse_cond (s : text) : result fx :=
  match lex s with
  | Some ts =>
      match group ts with
      | Some its => if wf its then of_option OutOfFuel (canonc (canon_fuel its) 0 its) else Exn SyntaxErr
      | None => Exn SyntaxErr
      end
  | None => Exn SyntaxErr
  end.

(* equality on flattened trees (for the correspondence) *)
Definition atom_eqb (a b : atom) : bool :=
  match a, b with
  | AKey x, AKey y => text_eqb x y
  | APkg x r, APkg y q => text_eqb x y && option_eqb text_eqb r q
  | ATime x, ATime y => text_eqb x y
  | _, _ => false
  end.
Fixpoint fx_eqb (a b : fx) : bool :=
  match a, b with
  | FA x, FA y => atom_eqb x y
  | FN o xs, FN p ys =>
      binop_eqb o p &&
      (fix go (l1 l2 : list fx) : bool :=
         match l1, l2 with
         | [], [] => true
         | x :: t1, y :: t2 => fx_eqb x y && go t1 t2
         | _, _ => false
         end) xs ys
  | _, _ => false
  end.
