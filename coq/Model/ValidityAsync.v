(* L9 x L11: the evaluation loop of is_valid_expression as a PROGRAM of Model/Async.v. For every generated content evaluation result one coroutine
   `evaluate_with_cer(cer)` is created: it calls the user's content_evaluation_result_setter (a synchronous call that stores the result where the
   evaluators will look for it: a context variable, [Put DATAV]) and then awaits evaluate_ahb_expression_tree(tree) -- an ARBITRARY program, it may
   suspend, read its context and gather again. All coroutines are gathered; an InvalidExpressionError becomes the verdict False, any other exception
   propagates, no exception is the verdict True. (The branch that swallows a NotImplementedError whose text contains "due to missing information"
   is dead for ahbicht's own evaluation -- no such text is produced below evaluate_ahb_expression_tree -- and is not modelled.)
   Definitions only; the refinement proof is Proofs/C06_async.v. *)
From Ahb Require Import Model.Prelude Model.Grammar Model.EvalRC Model.EvalFC Model.EvalAhb Model.Keys Model.Validity Model.Async.

Section VA.
Variable U : Type.
Inductive vv :=
| VU (u : U)
| VCer (c : cer)              (* what the setter stores *)
| VEv (r : result unit)       (* evaluate_ahb_expression_tree: for the validity check only whether and how it fails matters *)
| VRes (r : result bool).     (* the verdict *)
Definition as_ev (v : vv) : result unit := match v with VEv r => r | _ => Exn OtherErr end.
Definition as_res (v : vv) : result bool := match v with VRes r => r | _ => Exn OtherErr end.

Variable evalp : prog vv.      (* await evaluate_ahb_expression_tree(tree) *)
Definition DATAV : var := 1.

Definition with_cer (g : cer) : prog vv := Put DATAV (VCer g) evalp.

(* what awaiting the gathered tasks + the except clause make of the outcomes (leftmost exception: I-C12) *)
Fixpoint first_failure (rs : list (result unit)) : result bool :=
  match rs with
  | [] => Ok true
  | Ok _ :: t => first_failure t
  | Exn InvalidExpr :: _ => Ok false
  | Exn e :: _ => Exn e
  end.

Definition valid_prog (gs : list cer) : prog vv :=
  Par (map with_cer gs) (fun rs => Ret (VRes (first_failure (map as_ev rs)))).

(* the sequential model with the evaluation as a function of the content evaluation result *)
Definition try_all_gen (f : cer -> result unit) (gs : list cer) : result bool := first_failure (map f gs).
(* the evaluation for result g: the program run in a context whose data variable holds g -- and nothing a sibling stored *)
Definition eval_of (c : ctx vv) (g : cer) : result unit := as_ev (den (upd c DATAV (VCer g)) evalp).
End VA.
Arguments VU {U} u.
Arguments VCer {U} c.
Arguments VEv {U} r.
Arguments VRes {U} r.
Arguments as_ev {U} v.
Arguments as_res {U} v.

Definition forget {A : Type} (r : result A) : result unit := match r with Ok _ => Ok tt | Exn e => Exn e end.
