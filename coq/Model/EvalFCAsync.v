(* L7 x L11: format_constraint_evaluation as a PROGRAM of Model/Async.v. The expression is parsed (no await); FcEvaluator.evaluate_format_constraints
   gathers one coroutine per key OCCURRENCE -- each reads the ContextVar text_to_be_evaluated_by_format_constraint and calls the user's
   evaluate_<key>(text), an ARBITRARY program of key and text --, builds dict(zip(keys, results)), and the transformer runs on that dict.
   Definitions only; the refinement proof is Proofs/C08_async.v. *)
From Ahb Require Import Model.Prelude Model.Grammar Model.EvalRC Model.EvalFC Model.Async Model.NodeBuilderAsync.

Section FA.
Variable U : Type.
Inductive fv :=
| FU (u : U)                 (* also the value of the ContextVar: the text *)
| FC1 (r : result efc)       (* evaluate_single_format_constraint *)
| FR (r : result efc).       (* format_constraint_evaluation *)
Definition as_single (v : fv) : result efc := match v with FC1 r => r | _ => Exn OtherErr end.
Definition as_result (v : fv) : result efc := match v with FR r => r | _ => Exn OtherErr end.

Variable fcp : text -> fv -> prog fv.       (* evaluate_<key>(text) *)
Definition TEXTV : var := 0.

(* the transformer with the input values looked up in a Python dict *)
Fixpoint eval_fc_by (lk : text -> option efc) (e : kexpr) : result efc :=
  match e with
  | EAtom k => of_option ValueErr (lk k)
  | EBin b l r => do x <- eval_fc_by lk l ;; do y <- eval_fc_by lk r ;; fc_compose b x y
  end.

Definition fc_prog (e : option kexpr) : prog fv :=
  match e with
  | None => Ret (FR (Ok {| ff := true; fmsg := None |}))
  | Some t =>
      let keys := keys_of t in
      Par (map (fun k => Get TEXTV (fcp k)) keys) (fun rs =>
        Ret (FR (do vals <- NodeBuilderAsync.sequence (map as_single rs) ;;
                 eval_fc_by (lookup_last (combine keys vals)) t)))
  end.

(* the sequential model with the single evaluations as a function of the key *)
Definition fc_evaluation_gen (f : text -> result efc) (e : option kexpr) : result efc :=
  match e with
  | None => Ok {| ff := true; fmsg := None |}
  | Some t => do beta <- mapM (fun k => do v <- f k ;; Ok (k, v)) (keys_of t) ;; eval_fc beta t
  end.
Definition single_of (c : ctx fv) (k : text) : result efc := as_single (den c (fcp k (c TEXTV))).
End FA.
Arguments FU {U} u.
Arguments FC1 {U} r.
Arguments FR {U} r.
Arguments as_single {U} v.
Arguments as_result {U} v.
