(* L13 -- JSON (de)serialisation: the marshmallow-3 subset ahbicht uses, as a generic interpreter of schema descriptors.

   The descriptors ([ftype], [cls]) are GENERATED from the source (coq/Gen/Gen_schemas.v, tie T); this file only defines
   the data types and the interpreter (no proofs, no dependency on Gen).  The interpreter is tied to marshmallow 3.22 /
   attrs 24 / lark by the correspondence of C19 (Corr/Json.v, vlib/props/c19.py).

   Conventions.
   - [json] is the Python structure json.loads returns (dict = association list in insertion order, keys distinct).
   - [value] is a Python object of the modelled universe: None, bool, str, uuid.UUID (by its canonical text), a member of
     a str-based Enum (class name + value), list, dict with str keys, attrs instance (class name + attribute list in the
     order attrs.fields reports).
   - Field order of a dumped object is the declaration order of the schema, entries of a dumped dict keep the order of
     the instance (this is what marshmallow does; the correspondence compares ordered).
   - ValidationError is *collected* by marshmallow (all fields are visited, the error is raised at the end), every other
     exception propagates at once; [collect] models exactly that.
   Outside the model (the interpreter answers [OtherErr] or a documented approximation): non-canonical spellings of
   UUIDs, floats, str.upper() on non-ASCII text, Unicode decimal digits in "^\d+P$", objects other than [value]. *)
From Ahb Require Import Model.Prelude.
Set Implicit Arguments.

Inductive json :=
| JNull | JBool (b : bool) | JNum (z : Z) | JStr (s : text) | JArr (l : list json) | JObj (kvs : list (text * json)).

Inductive value :=
| VNone | VBool (b : bool) | VStr (s : text) | VUuid (s : text) | VEnum (ename val : text)
| VList (l : list value) | VDict (kvs : list (text * value)) | VObj (cname : text) (fs : list (text * value)).

(* ---------------------------------------------------------------- small helpers *)
Fixpoint assoc {A} (k : text) (l : list (text * A)) : option A :=
  match l with
  | [] => None
  | (k', x) :: t => if text_eqb k k' then Some x else assoc k t
  end.
Definition mem (x : text) (l : list text) : bool := existsb (text_eqb x) l.
Fixpoint nodupb (l : list text) : bool :=
  match l with [] => true | x :: t => negb (mem x t) && nodupb t end.
Definition res_map {A B} (f : A -> B) (r : result A) : result B :=
  match r with Ok a => Ok (f a) | Exn e => Exn e end.

Fixpoint sequence {A} (rs : list (result A)) : result (list A) :=
  match rs with
  | [] => Ok []
  | r :: t => do a <- r ;; do l <- sequence t ;; Ok (a :: l)
  end.

(* marshmallow's error store: ValidationError is remembered and the walk continues; anything else aborts *)
Fixpoint collect {A} (rs : list (result A)) : result (bool * list A) :=
  match rs with
  | [] => Ok (false, [])
  | Ok a :: t => do p <- collect t ;; Ok (fst p, a :: snd p)
  | Exn ValidationErr :: t => do p <- collect t ;; Ok (true, snd p)
  | Exn e :: _ => Exn e
  end.
Definition collected {A} (rs : list (result A)) : result (list A) :=
  do p <- collect rs ;; if fst p then Exn ValidationErr else Ok (snd p).

Definition ascii_upper_c (c : N) : N := if ((97 <=? c) && (c <=? 122))%N then (c - 32)%N else c.
Definition ascii_upper (s : text) : text := map ascii_upper_c s.   (* str.upper() on ASCII text *)

Definition t_value : text := [118;97;108;117;101]%N.          (* "value" *)
Definition t_True : text := [84;114;117;101]%N.
Definition t_False : text := [70;97;108;115;101]%N.

(* canonical text of a uuid.UUID: 8-4-4-4-12 lower-case hex digits *)
Definition is_lhex (c : N) : bool := ((48 <=? c) && (c <=? 57) || (97 <=? c) && (c <=? 102))%N.
Fixpoint uuid_shape (pos : nat) (s : text) : bool :=
  match s with
  | [] => Nat.eqb pos 36
  | c :: t =>
      (if Nat.eqb pos 8 || Nat.eqb pos 13 || Nat.eqb pos 18 || Nat.eqb pos 23 then N.eqb c 45 else is_lhex c)
      && uuid_shape (Datatypes.S pos) t
  end.
Definition is_canonical_uuid (s : text) : bool := uuid_shape 0 s.

(* ---------------------------------------------------------------- attrs classes *)
(* regular expressions occurring in matches_re validators (the generator maps the exact source text to these ids and
   fails closed on any other regex) *)
Inductive re_id := RePackageKey (* ^\d+P$ *) | ReTimeCond (* ^UB(?:1|2|3)$ *).
Fixpoint all_digits (s : text) : bool := match s with [] => true | c :: t => is_ascii_digit c && all_digits t end.
Definition re_fullmatch (r : re_id) (s : text) : bool :=
  match r with
  | RePackageKey =>      (* one or more (ASCII) digits followed by P *)
      match rev s with
      | 80%N :: (_ :: _) as ds => all_digits ds
      | _ => false
      end
  | ReTimeCond =>
      match s with
      | [85; 66; c]%N => (N.eqb c 49 || N.eqb c 50 || N.eqb c 51)
      | _ => false
      end
  end.

(* instance_of(...) arguments *)
Inductive prim := PBool | PStr | PUuid | PList | PEnum (ename : text) | PCls (cname : text).
(* attrs validators, constructor by constructor *)
Inductive vld :=
| VdNone                                     (* no validator *)
| VdInst (p : prim)                          (* instance_of: TypeError *)
| VdOpt (v : vld)                            (* optional *)
| VdRe (r : re_id)                           (* matches_re (fullmatch): ValueError; TypeError on a non-str *)
| VdAnd (a b : vld)                          (* and_ *)
| VdIter (member : vld) (iterable : vld)     (* deep_iterable(member_validator, iterable_validator); VdNone = absent *)
| VdMap (k v : vld).                         (* deep_mapping(key_validator, value_validator) *)

Definition instance_of (p : prim) (x : value) : bool :=
  match p, x with
  | PBool, VBool _ => true
  | PStr, VStr _ => true
  | PStr, VEnum _ _ => true                  (* every enum of ahbicht is a str subclass *)
  | PUuid, VUuid _ => true
  | PList, VList _ => true
  | PEnum e, VEnum e' _ => text_eqb e e'
  | PCls c, VObj c' _ => text_eqb c c'
  | _, _ => false
  end.

Definition first_exn (rs : list (result unit)) : result unit :=
  fold_right (fun r acc => match r with Ok _ => acc | Exn e => Exn e end) (Ok tt) rs.

Fixpoint validate (d : vld) (x : value) : result unit :=
  match d with
  | VdNone => Ok tt
  | VdInst p => if instance_of p x then Ok tt else Exn TypeErr
  | VdOpt d' => match x with VNone => Ok tt | _ => validate d' x end
  | VdRe r => match x with VStr s => if re_fullmatch r s then Ok tt else Exn ValueErr | _ => Exn TypeErr end
  | VdAnd a b => do _ <- validate a x ;; validate b x
  | VdIter m it =>
      do _ <- validate it x ;;
      match x with
      | VList l => first_exn (map (validate m) l)
      | _ => Exn TypeErr                     (* iterating None / a non-iterable; other iterables are outside the model *)
      end
  | VdMap k v =>
      match x with
      | VDict kvs => first_exn (map (fun kv => do _ <- validate k (VStr (fst kv)) ;; validate v (snd kv)) kvs)
      | _ => Exn TypeErr
      end
  end.

Inductive dflt := DNoDefault | DNone.        (* attrs default; only None occurs (anything else: the generator fails) *)

(* declared (annotated) types *)
Inductive ty :=
| TBool | TStr | TUuid
| TEnum (alts : list (text * list text))     (* Union of Enum classes: (class name, member values) *)
| TOpt (t : ty) | TList (t : ty) | TDict (k v : ty)
| TObj (cname : text) (cfs : list (text * ty * vld * dflt)).
Definition cfield := (text * ty * vld * dflt)%type.
Definition cf_name (c : cfield) : text := fst (fst (fst c)).
Definition cf_ty (c : cfield) : ty := snd (fst (fst c)).
Definition cf_vld (c : cfield) : vld := snd (fst c).
Definition cf_dflt (c : cfield) : dflt := snd c.
Record cls := { cname_of : text; cfields : list cfield }.
Definition ty_of_cls (c : cls) : ty := TObj (cname_of c) (cfields c).

Definition is_ok {A} (r : result A) : bool := match r with Ok _ => true | Exn _ => false end.
Definition is_TStr (t : ty) : bool := match t with TStr => true | _ => false end.

(* [has_ty t v]: v is an instance ahbicht can build: it has the declared type and passed the validators *)
Fixpoint has_ty (t : ty) (v : value) {struct t} : bool :=
  match t with
  | TBool => match v with VBool _ => true | _ => false end
  | TStr => match v with VStr _ => true | _ => false end
  | TUuid => match v with VUuid s => is_canonical_uuid s | _ => false end
  | TEnum alts => match v with
                  | VEnum e x => match assoc e alts with Some ms => mem x ms | None => false end
                  | _ => false
                  end
  | TOpt t' => match v with VNone => true | _ => has_ty t' v end
  | TList t' => match v with VList l => forallb (has_ty t') l | _ => false end
  | TDict k t' => match v with VDict kvs => is_TStr k && forallb (fun kv => has_ty t' (snd kv)) kvs | _ => false end
  | TObj c cfs =>
      match v with
      | VObj c' fs =>
          text_eqb c c' &&
          (fix go (cfs : list (text * ty * vld * dflt)) (fs : list (text * value)) : bool :=
             match cfs, fs with
             | [], [] => true
             | (n, t', d, _) :: cfs', (n', x) :: fs' =>
                 text_eqb n n' && has_ty t' x && is_ok (validate d x) && go cfs' fs'
             | _, _ => false
             end) cfs fs
      | _ => false
      end
  end.
Definition inhabits (c : cls) (v : value) : Prop := has_ty (ty_of_cls c) v = true.

(* ---------------------------------------------------------------- marshmallow fields *)
Inductive ldef := LMissing | LNone | LEmptyDict.          (* load_default: absent, None, {} *)
Inductive ddef := DMissing | DBool (b : bool).            (* dump_default: absent, True/False *)
Record fopts := {
  allow_none_arg : option bool;                            (* the allow_none= argument as written *)
  required : bool;
  load_default : ldef;
  dump_default : ddef;
  data_key : option text }.
(* marshmallow/fields.py, Field.__init__:  self.allow_none = load_default is None if allow_none is None else allow_none *)
Definition allow_none (o : fopts) : bool :=
  match allow_none_arg o with
  | Some b => b
  | None => match load_default o with LNone => true | _ => false end
  end.

Inductive hook :=
| HConstruct (c : cls)                                     (* @post_load: return Cls( **data ) *)
| HCerConstruct (fld ename : text) (members : list text) (c : cls)
      (* ContentEvaluationResultSchema.deserialize: str values of data[fld] whose upper() is a member value become that
         member; then Cls( **data ) *)
| HReqInd (alts : list (text * list text)).
      (* RequirementIndicatorSchema: pre_load wraps the datum into {"value": datum}; post_load tries the enum classes in
         order (ValueError of the last one escapes); post_dump returns data["value"].upper() *)

Inductive ftype :=
| FBool | FStr | FUuid
| FList (i : ftype) (io : fopts)
| FDict (k : ftype) (ko : fopts) (v : ftype) (vo : fopts)
| FNested (sname : text) (h : hook) (fs : list (text * ftype * fopts)).
Definition sfield := (text * ftype * fopts)%type.
Definition sf_attr (f : sfield) : text := fst (fst f).
Definition sf_ft (f : sfield) : ftype := snd (fst f).
Definition sf_opts (f : sfield) : fopts := snd f.
Definition key_of (a : text) (o : fopts) : text := match data_key o with Some k => k | None => a end.
Definition sf_key (f : sfield) : text := key_of (sf_attr f) (sf_opts f).
Definition schema := ftype.                                (* a schema is an [FNested] descriptor *)

(* ---------------------------------------------------------------- dump *)
(* str(x) for the objects a String field meets (ensure_text_type) *)
Definition ser_str (v : value) : result json :=
  match v with
  | VStr s | VEnum _ s | VUuid s => Ok (JStr s)           (* __str__ of the str-based enums returns the value *)
  | VBool true => Ok (JStr t_True)
  | VBool false => Ok (JStr t_False)
  | _ => Exn OtherErr
  end.

(* marshmallow.utils.get_value on the modelled objects *)
Definition get_attr (v : value) (a : text) : option value :=
  match v with
  | VObj _ fs => assoc a fs
  | VDict kvs => assoc a kvs
  | VEnum _ x => if text_eqb a t_value then Some (VStr x) else None
  | _ => None
  end.

(* Field.serialize: a missing attribute takes dump_default; a still missing value is skipped *)
Definition dump_attr (o : fopts) (s : value -> result json) (x : option value) : result (option json) :=
  match x with
  | Some v => res_map Some (s v)
  | None => match dump_default o with DMissing => Ok None | DBool b => res_map Some (s (VBool b)) end
  end.

Fixpoint somes {A} (l : list (text * option A)) : list (text * A) :=
  match l with
  | [] => []
  | (k, Some x) :: t => (k, x) :: somes t
  | (_, None) :: t => somes t
  end.

Definition post_dump (h : hook) (kvs : list (text * json)) : result json :=
  match h with
  | HReqInd _ => match assoc t_value kvs with
                 | Some (JStr s) => Ok (JStr (ascii_upper s))
                 | Some _ => Exn AttrErr
                 | None => Exn KeyErr
                 end
  | _ => Ok (JObj kvs)
  end.

(* Field._serialize (every _serialize in use maps None to None) *)
Fixpoint ser (ft : ftype) (v : value) {struct ft} : result json :=
  match v with
  | VNone => Ok JNull
  | _ =>
      match ft with
      | FBool => match v with VBool b => Ok (JBool b) | _ => Exn OtherErr end
      | FStr => ser_str v
      | FUuid => ser_str v
      | FList i _ => match v with
                     | VList l => res_map JArr (mapM (ser i) l)
                     | _ => Exn TypeErr
                     end
      | FDict k _ vf _ =>
          match v with
          | VDict kvs =>
              res_map JObj
                (mapM (fun kv => do jk <- ser k (VStr (fst kv)) ;;
                                 do jv <- ser vf (snd kv) ;;
                                 match jk with JStr s => Ok (s, jv) | _ => Exn OtherErr end) kvs)
          | _ => Exn AttrErr
          end
      | FNested _ h fs =>
          do kvs <- sequence (map (fun f : text * ftype * fopts =>
                                     match f with
                                     | (a, ft', o) => res_map (fun oj => (key_of a o, oj)) (dump_attr o (ser ft') (get_attr v a))
                                     end) fs) ;;
          post_dump h (somes kvs)
      end
  end.
Definition dump (s : schema) (v : value) : result json := ser s v.

(* ---------------------------------------------------------------- load *)
(* Field.deserialize for a value that is present in the input *)
Definition wrap_present (o : fopts) (d : json -> result value) (j : json) : result value :=
  match j with
  | JNull => if allow_none o then Ok VNone else Exn ValidationErr
  | _ => d j
  end.
(* ... and for a possibly missing one; [None] = the attribute is not set in the loaded data *)
Definition wrap_field (o : fopts) (d : json -> result value) (raw : option json) : result (option value) :=
  match raw with
  | None => if required o then Exn ValidationErr
            else Ok (match load_default o with LMissing => None | LNone => Some VNone | LEmptyDict => Some (VDict []) end)
  | Some j => res_map Some (wrap_present o d j)
  end.

Definition truthy_strs : list text :=
  [[116]; [84]; [116;114;117;101]; [84;114;117;101]; [84;82;85;69]; [111;110]; [79;110]; [79;78]; [121]; [89];
   [121;101;115]; [89;101;115]; [89;69;83]; [49]]%N.
Definition falsy_strs : list text :=
  [[102]; [70]; [102;97;108;115;101]; [70;97;108;115;101]; [70;65;76;83;69]; [111;102;102]; [79;102;102]; [79;70;70];
   [110]; [78]; [110;111]; [78;111]; [78;79]; [48]]%N.
Definition deser_bool (j : json) : result value :=
  match j with
  | JBool b => Ok (VBool b)
  | JNum 1%Z => Ok (VBool true)
  | JNum 0%Z => Ok (VBool false)
  | JStr s => if mem s truthy_strs then Ok (VBool true) else if mem s falsy_strs then Ok (VBool false) else Exn ValidationErr
  | _ => Exn ValidationErr
  end.
Definition deser_str (j : json) : result value :=
  match j with JStr s => Ok (VStr s) | _ => Exn ValidationErr end.
Definition deser_uuid (j : json) : result value :=
  match j with
  | JStr s => if is_canonical_uuid s then Ok (VUuid s) else Exn ValidationErr   (* other spellings: outside the model *)
  | _ => Exn ValidationErr
  end.

Definition find_alt (alts : list (text * list text)) (s : text) : option text :=
  match find (fun a => mem s (snd a)) alts with Some a => Some (fst a) | None => None end.

(* Cls( **data ): argument binding (TypeError), then the validators in field order *)
Definition construct (c : cls) (data : list (text * value)) : result value :=
  if negb (forallb (fun kv => mem (fst kv) (map cf_name (cfields c))) data) then Exn TypeErr
  else
    do args <- mapM (fun cf : cfield =>
                       match assoc (cf_name cf) data with
                       | Some x => Ok (cf_name cf, x)
                       | None => match cf_dflt cf with DNone => Ok (cf_name cf, VNone) | DNoDefault => Exn TypeErr end
                       end) (cfields c) ;;
    do _ <- first_exn (map (fun p : cfield * (text * value) => validate (cf_vld (fst p)) (snd (snd p)))
                           (combine (cfields c) args)) ;;
    Ok (VObj (cname_of c) args).

Definition coerce_enum (ename : text) (members : list text) (x : value) : value :=
  match x with
  | VStr s => if mem (ascii_upper s) members then VEnum ename (ascii_upper s) else x
  | _ => x
  end.
(* what a post_load hook does to one entry of the loaded data before the constructor is called *)
Definition fixup (h : hook) (a : text) (x : value) : result value :=
  match h with
  | HCerConstruct fld ename members _ =>
      if text_eqb a fld then
        match x with
        | VDict kvs => Ok (VDict (map (fun e => (fst e, coerce_enum ename members (snd e))) kvs))
        | _ => Exn AttrErr                     (* .items() of a non-dict *)
        end
      else Ok x
  | _ => Ok x
  end.
Definition fixup_data (h : hook) (data : list (text * value)) : result (list (text * value)) :=
  mapM (fun kv : text * value => res_map (fun x => (fst kv, x)) (fixup h (fst kv) (snd kv))) data.

Definition pre_load (h : hook) (j : json) : json :=
  match h with HReqInd _ => JObj [(t_value, j)] | _ => j end.
Definition post_load (h : hook) (data : list (text * value)) : result value :=
  match h with
  | HConstruct c | HCerConstruct _ _ _ c => do data' <- fixup_data h data ;; construct c data'
  | HReqInd alts =>
      match assoc t_value data with
      | Some (VStr s) => match find_alt alts s with Some e => Ok (VEnum e s) | None => Exn ValueErr end
      | Some _ => Exn OtherErr
      | None => Exn KeyErr
      end
  end.

(* elements a List field iterates over (utils.is_collection: iterable, neither a str nor a Mapping) *)
Definition collection_items (j : json) : option (list json) :=
  match j with
  | JArr l => Some l
  | _ => None
  end.
Definition as_key (r : result value) : result text :=
  match r with Ok (VStr s) => Ok s | Ok _ => Exn OtherErr | Exn e => Exn e end.

(* Field._deserialize *)
Fixpoint deser (ft : ftype) (j : json) {struct ft} : result value :=
  match ft with
  | FBool => deser_bool j
  | FStr => deser_str j
  | FUuid => deser_uuid j
  | FList i io =>
      match collection_items j with
      | Some l => res_map VList (collected (map (wrap_present io (deser i)) l))
      | None => Exn ValidationErr
      end
  | FDict k ko vf vo =>
      match j with
      | JObj kvs =>
          do pk <- collect (map (fun kv => as_key (wrap_present ko (deser k) (JStr (fst kv)))) kvs) ;;
          do pv <- collect (map (fun kv => wrap_present vo (deser vf) (snd kv)) kvs) ;;
          if fst pk || fst pv then Exn ValidationErr else Ok (VDict (combine (snd pk) (snd pv)))
      | _ => Exn ValidationErr
      end
  | FNested _ h fs =>
      match pre_load h j with
      | JObj kvs =>
          do p <- collect (map (fun f : text * ftype * fopts =>
                                  match f with
                                  | (a, ft', o) => res_map (fun ov => (a, ov)) (wrap_field o (deser ft') (assoc (key_of a o) kvs))
                                  end) fs) ;;
          let unknown := negb (forallb (fun kv => mem (fst kv) (map sf_key fs)) kvs) in
          if fst p || unknown then Exn ValidationErr else post_load h (somes (snd p))
      | _ => Exn ValidationErr
      end
  end.
(* Schema().load(json): for a schema descriptor this is the Nested branch without the surrounding field *)
Definition load (s : schema) (j : json) : result value := deser s j.

(* ---------------------------------------------------------------- compatibility of a class with its schema *)
Definition upper_stable (ms : list text) : bool := forallb (fun m => text_eqb (ascii_upper m) m) ms.
Definition alts_ok (alts : list (text * list text)) : bool :=
  nodupb (map fst alts) &&
  forallb (fun a => upper_stable (snd a) && forallb (fun m => option_eqb text_eqb (find_alt alts m) (Some (fst a))) (snd a)) alts.

(* every member of the declared Union is found in the classes the hook tries *)
Definition alts_sub (decl tried : list (text * list text)) : bool :=
  forallb (fun a => match assoc (fst a) tried with
                    | Some ms => forallb (fun m => mem m ms) (snd a)
                    | None => false
                    end) decl.

Definition prim_eqb (a b : prim) : bool :=
  match a, b with
  | PBool, PBool | PStr, PStr | PUuid, PUuid | PList, PList => true
  | PEnum x, PEnum y | PCls x, PCls y => text_eqb x y
  | _, _ => false
  end.
Definition re_id_eqb (a b : re_id) : bool :=
  match a, b with RePackageKey, RePackageKey | ReTimeCond, ReTimeCond => true | _, _ => false end.
Fixpoint vld_eqb (a b : vld) : bool :=
  match a, b with
  | VdNone, VdNone => true
  | VdInst p, VdInst q => prim_eqb p q
  | VdOpt x, VdOpt y => vld_eqb x y
  | VdRe r, VdRe s => re_id_eqb r s
  | VdAnd x1 x2, VdAnd y1 y2 | VdIter x1 x2, VdIter y1 y2 | VdMap x1 x2, VdMap y1 y2 => vld_eqb x1 y1 && vld_eqb x2 y2
  | _, _ => false
  end.
Definition dflt_eqb (a b : dflt) : bool :=
  match a, b with DNoDefault, DNoDefault | DNone, DNone => true | _, _ => false end.
Definition alts_eqb : list (text * list text) -> list (text * list text) -> bool :=
  list_eqb (fun a b => text_eqb (fst a) (fst b) && list_eqb text_eqb (snd a) (snd b)).
Fixpoint ty_eqb (a b : ty) {struct a} : bool :=
  match a, b with
  | TBool, TBool | TStr, TStr | TUuid, TUuid => true
  | TEnum x, TEnum y => alts_eqb x y
  | TOpt x, TOpt y | TList x, TList y => ty_eqb x y
  | TDict k1 v1, TDict k2 v2 => ty_eqb k1 k2 && ty_eqb v1 v2
  | TObj c1 f1, TObj c2 f2 =>
      text_eqb c1 c2 &&
      (fix go (f1 f2 : list (text * ty * vld * dflt)) : bool :=
         match f1, f2 with
         | [], [] => true
         | (n1, t1, d1, x1) :: r1, (n2, t2, d2, x2) :: r2 =>
             text_eqb n1 n2 && ty_eqb t1 t2 && vld_eqb d1 d2 && dflt_eqb x1 x2 && go r1 r2
         | _, _ => false
         end) f1 f2
  | _, _ => false
  end.

Definition is_FStr (f : ftype) : bool := match f with FStr => true | _ => false end.
Definition find_cf (a : text) (cfs : list cfield) : option cfield := find (fun cf => text_eqb (cf_name cf) a) cfs.

(* [compat_ft ft t]: every instance of the declared type t other than None survives ser/deser through the field type ft.
   An Optional attribute additionally needs allow_none ([compat_opt]); this is the check that fails for the original
   RequirementConstraintEvaluationResultSchema. *)
Definition compat_opt (c : ty -> bool) (o : fopts) (t : ty) : bool :=
  match t with
  | TOpt t' => allow_none o && c t'
  | _ => c t
  end.
Definition fields_cover (cfs : list cfield) (fs : list sfield) : bool :=
  nodupb (map sf_key fs) && nodupb (map sf_attr fs) && nodupb (map cf_name cfs)
  && forallb (fun cf => mem (cf_name cf) (map sf_attr fs)) cfs.

Fixpoint compat_ft (ft : ftype) (t : ty) {struct ft} : bool :=
  match ft with
  | FBool => match t with TBool => true | _ => false end
  | FStr => match t with TStr => true | _ => false end
  | FUuid => match t with TUuid => true | _ => false end
  | FList i io => match t with TList t' => compat_opt (compat_ft i) io t' | _ => false end
  | FDict k _ vf vo => match t with TDict TStr t' => is_FStr k && compat_opt (compat_ft vf) vo t' | _ => false end
  | FNested _ h fs =>
      match h with
      | HReqInd alts =>
          match t, fs with
          | TEnum alts', [(a, FStr, o)] => text_eqb a t_value && text_eqb (key_of a o) t_value && alts_sub alts' alts && alts_ok alts
          | _, _ => false
          end
      | HConstruct c =>
          ty_eqb (ty_of_cls c) t && fields_cover (cfields c) fs &&
          forallb (fun f : text * ftype * fopts =>
                     match f with
                     | (a, ft', o) => match find_cf a (cfields c) with
                                      | Some cf => compat_opt (compat_ft ft') o (cf_ty cf)
                                      | None => false
                                      end
                     end) fs
      | HCerConstruct fld ename members c =>
          ty_eqb (ty_of_cls c) t && fields_cover (cfields c) fs && upper_stable members &&
          forallb (fun f : text * ftype * fopts =>
                     match f with
                     | (a, ft', o) =>
                         match find_cf a (cfields c) with
                         | Some cf =>
                             if text_eqb a fld then
                               match ft', cf_ty cf with
                               | FDict FStr _ FStr _, TDict TStr (TEnum [(e, ms)]) => text_eqb e ename && list_eqb text_eqb ms members
                               | _, _ => false
                               end
                             else compat_opt (compat_ft ft') o (cf_ty cf)
                         | None => false
                         end
                     end) fs
      end
  end.
Definition compatible (c : cls) (s : schema) : bool := compat_ft s (ty_of_cls c).

(* diagnosis when [compatible] fails: Optional attributes whose field rejects null *)
Definition missing_allow_none (c : cls) (s : schema) : list text :=
  match s with
  | FNested _ _ fs =>
      flat_map (fun f : sfield =>
                  match find_cf (sf_attr f) (cfields c) with
                  | Some cf => match cf_ty cf with
                               | TOpt _ => if allow_none (sf_opts f) then [] else [sf_attr f]
                               | _ => []
                               end
                  | None => []
                  end) fs
  | _ => []
  end.

(* ---------------------------------------------------------------- Lark trees: TreeSchema / _TokenOrTreeSchema / TokenSchema *)
Inductive ltree := LTok (ty v : text) | LTree (data : text) (children : list ltree).
(* what TreeSchema().load can return: besides trees and tokens the raw data dictionary of _TokenOrTreeSchema
   (its post_load returns [data] when neither entry is truthy) and tokens whose value is None *)
Inductive lval :=
| PTok (ty : text) (v : option text)
| PTree (data : text) (children : list lval)
| PRaw (kvs : list (text * option lval)).
Fixpoint embed (t : ltree) : lval :=
  match t with
  | LTok ty v => PTok ty (Some v)
  | LTree d cs => PTree d (map embed cs)
  end.

Definition t_type : text := [116;121;112;101]%N.
Definition t_children : text := [99;104;105;108;100;114;101;110]%N.
Definition t_token : text := [116;111;107;101;110]%N.
Definition t_tree : text := [116;114;101;101]%N.

Definition dump_token (ty v : text) : json := JObj [(t_value, JStr v); (t_type, JStr ty)].
(* TreeSchema().dump; a child goes through _TokenOrTreeSchema (pre_dump wraps it into _TokenOrTree(token, tree)).
   Children that are neither Tree nor Token (None, str) are not representable in [ltree]. *)
Fixpoint dump_tree (t : ltree) : json :=
  match t with
  | LTok _ _ => JObj []                       (* a Token has neither .data nor .children: both fields are skipped *)
  | LTree d cs =>
      JObj [(t_type, JStr d);
            (t_children, JArr (map (fun c => match c with
                                             | LTok ty v => JObj [(t_token, dump_token ty v); (t_tree, JNull)]
                                             | LTree _ _ => JObj [(t_token, JNull); (t_tree, dump_tree c)]
                                             end) cs))]
  end.

(* TokenSchema().load *)
Definition load_token (j : json) : result lval :=
  match j with
  | JObj kvs =>
      let fv := match assoc t_value kvs with
                | None => Ok None | Some JNull => Ok (Some None) | Some (JStr s) => Ok (Some (Some s))
                | Some _ => Exn ValidationErr end in
      let ft := match assoc t_type kvs with
                | None => Ok None | Some (JStr s) => Ok (Some s) | Some _ => Exn ValidationErr end in
      let unknown := negb (forallb (fun kv => mem (fst kv) [t_value; t_type]) kvs) in
      match fv, ft with
      | Ok ov, Ok ot =>
          if unknown then Exn ValidationErr
          else match ot, ov with
               | Some ty, Some v => Ok (PTok ty v)
               | _, _ => Exn KeyErr             (* Token(data["type"], data["value"]) *)
               end
      | _, _ => Exn ValidationErr               (* only ValidationError can occur in these two fields *)
      end
  | _ => Exn ValidationErr
  end.

(* The loaders recurse through dictionary look-ups; to stay structurally recursive every JSON node is given, bottom-up,
   its three readings: as the input of TreeSchema, of _TokenOrTreeSchema, and as a `children` list. *)
Record view := { as_tree : result lval; as_tot : result lval; as_children : result (list lval) }.
Definition no_view : view :=
  {| as_tree := Exn ValidationErr; as_tot := Exn ValidationErr; as_children := Exn ValidationErr |}.
Definition py_truthy (x : lval) : bool :=
  match x with
  | PTok _ (Some []) => false                  (* a Token is a str: empty text is falsy *)
  | PTok _ _ => true                           (* Token(type, None) has the text "None" *)
  | PTree _ _ => true                          (* lark.Tree defines neither __bool__ nor __len__ *)
  | PRaw kvs => match kvs with [] => false | _ => true end
  end.
(* two fields of one schema: ValidationError is collected, any other exception of the first raising field escapes *)
Definition both {A B C} (ra : result A) (rb : result B) (unknown : bool) (k : A -> B -> result C) : result C :=
  match ra with
  | Exn ValidationErr => match rb with Exn ValidationErr | Ok _ => Exn ValidationErr | Exn e => Exn e end
  | Exn e => Exn e
  | Ok a => match rb with
            | Exn e => Exn e
            | Ok b => if unknown then Exn ValidationErr else k a b
            end
  end.
Definition opt_entry {A} (k : text) (o : option A) : list (text * A) := match o with Some x => [(k, x)] | None => [] end.

Fixpoint ld (j : json) : view :=
  match j with
  | JArr l =>
      {| as_tree := Exn ValidationErr; as_tot := Exn ValidationErr;
         as_children := collected (map (fun x => match x with JNull => Exn ValidationErr | _ => as_tot (ld x) end) l) |}
  | JObj kvs =>
      let sub := map (fun kv : text * json => (fst kv, (snd kv, ld (snd kv)))) kvs in
      {| as_tree :=
           let fd := match assoc t_type sub with
                     | None => Ok None | Some (JStr s, _) => Ok (Some s) | Some _ => Exn ValidationErr end in
           let fc := match assoc t_children sub with
                     | None => Ok None
                     | Some (JNull, _) => Exn ValidationErr
                     | Some (_, vw) => res_map Some (as_children vw)
                     end in
           both fd fc (negb (forallb (fun kv => mem (fst kv) [t_type; t_children]) kvs))
                (fun od oc => match od, oc with
                              | Some d, Some c => Ok (PTree d c)
                              | _, _ => Exn TypeErr        (* Tree( **data ) without data / children *)
                              end);
         as_tot :=
           let ftok := match assoc t_token sub with
                       | None => Ok None | Some (JNull, _) => Ok (Some None)
                       | Some (x, _) => res_map (fun t => Some (Some t)) (load_token x) end in
           let ftree := match assoc t_tree sub with
                        | None => Ok None | Some (JNull, _) => Ok (Some None)
                        | Some (_, vw) => res_map (fun t => Some (Some t)) (as_tree vw) end in
           both ftok ftree (negb (forallb (fun kv => mem (fst kv) [t_token; t_tree]) kvs))
                (fun otok otree =>
                   match otree with
                   | Some (Some t) => Ok t                 (* "tree" in data and data["tree"] *)
                   | _ => match otok with
                          | Some (Some t) => if py_truthy t then Ok t else Ok (PRaw (opt_entry t_token otok ++ opt_entry t_tree otree))
                          | _ => Ok (PRaw (opt_entry t_token otok ++ opt_entry t_tree otree))
                          end
                   end);
         as_children := Exn ValidationErr       (* a Mapping is not a collection for fields.List *)
      |}
  | _ => no_view
  end.
Definition load_tree (j : json) : result lval := as_tree (ld j).

(* what TreeSchema round-trips: every token has a non-empty value (and the root is a tree) *)
Fixpoint tok_ok (t : ltree) : bool :=
  match t with
  | LTok _ v => match v with [] => false | _ => true end
  | LTree _ cs => forallb tok_ok cs
  end.
Definition tree_ok (t : ltree) : bool := match t with LTree _ _ => tok_ok t | LTok _ _ => false end.
