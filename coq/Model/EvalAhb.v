(* L8 of DESIGN.md: AhbExpressionTransformer -- evaluation of a resolved AHB expression tree. Definitions only. *)
From Ahb Require Import Model.Prelude Model.Grammar Gen.Gen_logic Gen.Gen_valmaps Gen.Gen_enums Model.EvalRC Model.EvalFC.

Inductive indtok := TokMM (v : text) | TokPO (v : text).     (* MODAL_MARK / PREFIX_OPERATOR token with its value *)
(* children of the ahb_expression node after resolution *)
Inductive part :=
| PExpr (t : indtok) (e : kexpr)      (* single_requirement_indicator_expression [token, condition tree] *)
| PBare (t : indtok).                 (* requirement_indicator [token] *)
Definition ahb := list part.

Record ahbres := { a_ind : indicator; a_rc : rcres; a_fc : efc }.

Definition indicator_of (t : indtok) : result indicator :=
  match t with TokMM v => modal_mark_of_token v | TokPO v => prefix_operator_of_token v end.

Definition fc_ok : efc := {| ff := true; fmsg := None |}.
Definition bare_result (i : indicator) : ahbres :=
  {| a_ind := i;
     a_rc := {| r_fulfilled := Some true; r_conditional := Some false; r_fcx := None; r_hints := None |};
     a_fc := fc_ok |}.

(* _single_requirement_indicator_expression_async: requirement evaluation, then format-constraint evaluation of the
   collected expression (ahbicht re-parses the string; a builder-made expression has exactly one parse: fc_tree) *)
Definition eval_part_expr (c : cer) (i : indicator) (e : kexpr) : result ahbres :=
  do r <- rc_evaluation c e ;;
  do f <- match r_fcx r with
          | Some (x :: t) => match fc_tree (x :: t) with
                             | Some tr => fc_evaluation c (Some tr)
                             | None => Exn OutOfFuel
                             end
          | _ => fc_evaluation c None
          end ;;
  Ok {| a_ind := i; a_rc := r; a_fc := f |}.

(* token callbacks run while the tree is transformed, i.e. before any part is evaluated *)
Definition part_indicator (p : part) : result indicator :=
  match p with PExpr t _ => indicator_of t | PBare t => indicator_of t end.
Definition eval_part (c : cer) (p : part) (i : indicator) : result ahbres :=
  match p with PExpr _ e => eval_part_expr c i e | PBare _ => Ok (bare_result i) end.

Definition is_true (o : option bool) : bool := match o with Some true => true | _ => false end.

(* the first part whose requirement constraints are fulfilled, else the last one *)
Fixpoint select (many : bool) (rs : list ahbres) : option ahbres :=
  match rs with
  | [] => None
  | r :: t =>
      if is_true (r_fulfilled (a_rc r)) then
        Some (if many
              then {| a_ind := a_ind r;
                      a_rc := {| r_fulfilled := r_fulfilled (a_rc r); r_conditional := Some true;
                                 r_fcx := r_fcx (a_rc r); r_hints := r_hints (a_rc r) |};
                      a_fc := a_fc r |}
              else r)
      else match t with [] => Some r | _ => select many t end
  end.

Fixpoint map2M {A B C} (f : A -> B -> result C) (l : list A) (m : list B) : result (list C) :=
  match l, m with
  | x :: t, y :: u => do z <- f x y ;; do zs <- map2M f t u ;; Ok (z :: zs)
  | _, _ => Ok []
  end.

Definition eval_ahb (c : cer) (a : ahb) : result ahbres :=
  do inds <- mapM part_indicator a ;;
  do rs <- map2M (eval_part c) a inds ;;
  of_option TypeErr (select (1 <? length a) rs).
