(* L6 x L11: ConditionNodeBuilder.requirement_content_evaluation_for_all_condition_keys as a PROGRAM of Model/Async.v. The keys are categorised
   first (no await); then `await rc_evaluator.evaluate_conditions(keys)` -- a gather over one coroutine per key OCCURRENCE, dict(zip(keys, results)),
   one RequirementConstraint node per key built from that dict --; then `await hints_provider.get_hints(keys)` -- a gather over the hint look-ups,
   a missing text (None) raises KeyError --; then the unevaluated format-constraint nodes; the three dicts are merged.
   The evaluation of a requirement constraint and the look-up of a hint text are ARBITRARY programs of their key. Definitions only. *)
From Ahb Require Import Model.Prelude Model.Grammar Gen.Gen_logic Gen.Gen_ranges Model.Logic Model.EvalRC Model.Async.

Section NB.
Variable U : Type.
Inductive nv :=
| NU (u : U)
| NC (r : result cfv)             (* evaluate_single_condition: a state or a raised exception *)
| NH (r : result (option text))   (* get_hint_text: a text, None, or a raised exception *)
| NE (r : result env).            (* the input nodes *)
Definition as_cfv (v : nv) : result cfv := match v with NC r => r | _ => Exn OtherErr end.
Definition as_hint (v : nv) : result (option text) := match v with NH r => r | _ => Exn OtherErr end.
Definition as_env (v : nv) : result env := match v with NE r => r | _ => Exn OtherErr end.

Variable rcp : text -> prog nv.      (* evaluate_single_condition(key) *)
Variable hintp : text -> prog nv.    (* get_hint_text(key) *)

(* a Python dict built from pairs: the LAST value assigned to a key is the one a later look-up finds *)
Fixpoint lookup_last {A} (l : list (text * A)) (k : text) : option A :=
  match l with
  | [] => None
  | (k', v) :: t => match lookup_last t k with Some w => Some w | None => if text_eqb k k' then Some v else None end
  end.

(* results = await gather(...): the first exception (in argument order: I-C12) is re-raised, else the list of values *)
Fixpoint sequence {A} (l : list (result A)) : result (list A) :=
  match l with [] => Ok [] | r :: t => do x <- r ;; do xs <- sequence t ;; Ok (x :: xs) end.

(* evaluate_conditions + the loop that builds the RequirementConstraint nodes *)
Definition rc_nodes_of (keys : list text) (rs : list nv) : result env :=
  do vals <- sequence (map as_cfv rs) ;;
  let d := combine keys vals in                       (* dict(zip(condition_keys, results)) *)
  mapM (fun k => do s <- of_option KeyErr (lookup_last d k) ;;
                 Ok (k, {| nk := KRc; st := s; nkey := k; nhint := None; nfcx := None |})) keys.

(* get_hints: `for key, value in zip(keys, results): if value is None: raise KeyError ... else hints[key] = Hint(...)` *)
Definition hint_nodes_of (keys : list text) (rs : list nv) : result env :=
  do vals <- sequence (map as_hint rs) ;;
  mapM (fun kv => match snd kv with
                  | Some h => Ok (fst kv, {| nk := KHint; st := C_NEUTRAL; nkey := fst kv; nhint := Some h; nfcx := None |})
                  | None => Exn KeyErr
                  end) (combine keys vals).

Definition fc_nodes_of (keys : list text) : env :=
  map (fun k => (k, {| nk := KFc; st := C_NEUTRAL; nkey := k; nhint := None; nfcx := None |})) keys.

Definition keys_of_kind (kinds : list (text * nkind)) (kd : nkind) : list text :=
  map fst (filter (fun p => nkind_eqb (snd p) kd) kinds).

Definition builder_prog (keys : list text) : prog nv :=
  match mapM (fun k => do kd <- leaf_kind k ;; Ok (k, kd)) keys with
  | Exn e => Ret (NE (Exn e))
  | Ok kinds =>
      let rk := keys_of_kind kinds KRc in
      let hk := keys_of_kind kinds KHint in
      let fk := keys_of_kind kinds KFc in
      Par (map rcp rk) (fun rs =>
        match rc_nodes_of rk rs with
        | Exn e => Ret (NE (Exn e))
        | Ok rcs => Par (map hintp hk) (fun hs =>
            Ret (NE (do hn <- hint_nodes_of hk hs ;; Ok (rcs ++ hn ++ fc_nodes_of fk))))
        end)
  end.

(* the sequential model with the two look-ups as functions of the key (Model/EvalRC.v: build_env, where they answer from a content evaluation result) *)
Definition leaf_node_gen (rcf : text -> result cfv) (hintf : text -> result (option text)) (k : text) (kd : nkind) : result node :=
  match kd with
  | KRc => do s <- rcf k ;; Ok {| nk := KRc; st := s; nkey := k; nhint := None; nfcx := None |}
  | KHint => do h <- hintf k ;;
             match h with
             | Some h => Ok {| nk := KHint; st := C_NEUTRAL; nkey := k; nhint := Some h; nfcx := None |}
             | None => Exn KeyErr
             end
  | _ => Ok {| nk := KFc; st := C_NEUTRAL; nkey := k; nhint := None; nfcx := None |}
  end.
Definition build_env_gen (rcf : text -> result cfv) (hintf : text -> result (option text)) (keys : list text) : result env :=
  do kinds <- mapM (fun k => do kd <- leaf_kind k ;; Ok (k, kd)) keys ;;
  let sel kd := filter (fun p => nkind_eqb (snd p) kd) kinds in
  do rcs <- mapM (fun p => do n <- leaf_node_gen rcf hintf (fst p) KRc ;; Ok (fst p, n)) (sel KRc) ;;
  (* the hint texts are gathered first (an exception of a look-up is re-raised by the gather), then the missing ones are looked for *)
  do texts <- mapM (fun p => hintf (fst p)) (sel KHint) ;;
  do hs <- mapM (fun kv => match snd kv with
                           | Some h => Ok (fst kv, {| nk := KHint; st := C_NEUTRAL; nkey := fst kv; nhint := Some h; nfcx := None |})
                           | None => Exn KeyErr
                           end) (combine (map fst (sel KHint)) texts) ;;
  do fs <- mapM (fun p => do n <- leaf_node_gen rcf hintf (fst p) KFc ;; Ok (fst p, n)) (sel KFc) ;;
  Ok (rcs ++ hs ++ fs).

Definition rcf_of (c : ctx nv) (k : text) : result cfv := as_cfv (den c (rcp k)).
Definition hintf_of (c : ctx nv) (k : text) : result (option text) := as_hint (den c (hintp k)).
End NB.
Arguments NU {U} u.
Arguments NC {U} r.
Arguments NH {U} r.
Arguments NE {U} r.
Arguments as_cfv {U} v.
Arguments as_hint {U} v.
Arguments as_env {U} v.
