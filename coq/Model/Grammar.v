(* L1-L3 of DESIGN.md: forests, the ambiguous grammar GF, Lark's resolution R (as modelled), the documented
   precedence S, flattening modulo same-operator runs, and the deterministic canonical parser canon.
   Parametric in the atom type and in the rule table (instantiated from Gen_grammar). Definitions only. *)
From Coq Require Import List Arith Lia Bool.
Import ListNotations.
Set Implicit Arguments.

Inductive op3 := Oor | Oxor | Oand.
Inductive binop := BOr | BXor | BAnd | BThen.
Definition bop (o : op3) : binop := match o with Oor => BOr | Oxor => BXor | Oand => BAnd end.
Definition lvl3 (o : op3) : nat := match o with Oor => 0 | Oxor => 1 | Oand => 2 end.
Definition binop_eqb (a b : binop) : bool :=
  match a, b with BOr, BOr | BXor, BXor | BAnd, BAnd | BThen, BThen => true | _, _ => false end.

Section Grammar.
Variable atom : Type.
Variable rule : Type.                 (* one per spelling-alternative of the grammar *)
Variable alias : rule -> op3.
Variable order : rule -> nat.
Variable order_then : nat.

Definition lv (r : rule) := lvl3 (alias r).

Inductive item := IA (a : atom) | IO (r : rule) | IG (g : list item).
Inductive expr := EAtom (a : atom) | EBin (b : binop) (e1 e2 : expr).


(* the ambiguous grammar, as GRAMMAR states it *)
Inductive GF : list item -> expr -> Prop :=
| GF_op r l1 l2 e1 e2 : GF l1 e1 -> GF l2 e2 -> GF (l1 ++ IO r :: l2) (EBin (bop (alias r)) e1 e2)
| GF_then l1 l2 e1 e2 : GF l1 e1 -> GF l2 e2 -> GF (l1 ++ l2) (EBin BThen e1 e2)
| GF_atom a : GF [IA a] (EAtom a)
| GF_grp g e : GF g e -> GF [IG g] e.

Definition can_split_op (r : rule) (its : list item) : Prop :=
  exists l1 l2 e1 e2, its = l1 ++ IO r :: l2 /\ GF l1 e1 /\ GF l2 e2.
Definition can_split_then (its : list item) : Prop :=
  exists l1 l2 e1 e2, its = l1 ++ l2 /\ GF l1 e1 /\ GF l2 e2.

(* Lark's ambiguity resolution, as modelled: lowest rule order among the alternatives deriving the span *)
Inductive R : list item -> expr -> Prop :=
| R_op r l1 l2 e1 e2 : R l1 e1 -> R l2 e2 ->
    (forall r', can_split_op r' (l1 ++ IO r :: l2) -> order r <= order r') ->
    (can_split_then (l1 ++ IO r :: l2) -> order r <= order_then) ->
    R (l1 ++ IO r :: l2) (EBin (bop (alias r)) e1 e2)
| R_then l1 l2 e1 e2 : R l1 e1 -> R l2 e2 ->
    (forall r', can_split_op r' (l1 ++ l2) -> order_then <= order r') ->
    R (l1 ++ l2) (EBin BThen e1 e2)
| R_atom a : R [IA a] (EAtom a)
| R_grp g e : R g e -> R [IG g] e.

(* the documented precedence as a stratified grammar *)
Inductive S : nat -> list item -> expr -> Prop :=
| S_op r l1 l2 e1 e2 : S (lv r) l1 e1 -> S (lv r) l2 e2 -> S (lv r) (l1 ++ IO r :: l2) (EBin (bop (alias r)) e1 e2)
| S_then l1 l2 e1 e2 : S 3 l1 e1 -> S 3 l2 e2 -> S 3 (l1 ++ l2) (EBin BThen e1 e2)
| S_up n l e : S (Datatypes.S n) l e -> S n l e
| S_atom a : S 4 [IA a] (EAtom a)
| S_grp g e : S 0 g e -> S 4 [IG g] e.


Inductive fx := FA (a : atom) | FN (b : binop) (args : list fx).



Definition explode (b : binop) (x : fx) : list fx :=
  match x with FN b' ys => if binop_eqb b b' then ys else [x] | _ => [x] end.

Fixpoint flat (e : expr) : fx :=
  match e with
  | EAtom a => FA a
  | EBin b e1 e2 => FN b (explode b (flat e1) ++ explode b (flat e2))
  end.

Definition bop_of_lvl (n : nat) : binop := match n with 0 => BOr | 1 => BXor | 2 => BAnd | _ => BThen end.

Definition is_op_lvl (n : nat) (x : item) : bool := match x with IO r => lv r =? n | _ => false end.

Fixpoint split_at (n : nat) (l : list item) : list (list item) :=
  match l with
  | [] => [[]]
  | x :: t => match split_at n t with
              | [] => [[x]]
              | s :: ss => if is_op_lvl n x then [] :: s :: ss else (x :: s) :: ss
              end
  end.

Fixpoint omapM {A B} (f : A -> option B) (l : list A) : option (list B) :=
  match l with
  | [] => Some []
  | x :: t => match f x, omapM f t with Some y, Some ys => Some (y :: ys) | _, _ => None end
  end.

Definition collect (b : binop) (args : list fx) : fx := FN b (concat (map (explode b) args)).

Fixpoint canon (fuel n : nat) (l : list item) : option fx :=
  match fuel with
  | 0 => None
  | Datatypes.S f =>
    if n <=? 2 then
      match split_at n l with
      | [s] => canon f (n + 1) s
      | segs => option_map (collect (bop_of_lvl n)) (omapM (canon f (n + 1)) segs)
      end
    else if n =? 3 then
      match l with
      | [] => None
      | [x] => canon f 4 [x]
      | _ => option_map (collect BThen) (omapM (fun x => canon f 4 [x]) l)
      end
    else
      match l with
      | [IA a] => Some (FA a)
      | [IG g] => canon f 0 g
      | _ => None
      end
  end.



End Grammar.
Arguments IA {atom rule} a.
Arguments IO {atom rule} r.
Arguments IG {atom rule} g.
Arguments EAtom {atom} a.
Arguments EBin {atom} b e1 e2.
Arguments FA {atom} a.
Arguments FN {atom} b args.
