(* L5 x L11: expand_packages as a PROGRAM of Model/Async.v. The PackageExpansionTransformer runs first (no await: it parses the repeatabilities and
   leaves an un-awaited coroutine at every package occurrence); _replace_sub_coroutines_with_awaited_results gathers the coroutines in scan order and
   puts every result into the place of its own coroutine. Resolving a package key (ask the resolver, parse the answer) is an ARBITRARY program of the
   key. Definitions only; Proofs/C10_async.v proves the refinement to Model/Resolve.v. *)
From Ahb Require Import Model.Prelude Model.Grammar Gen.Gen_grammar Model.Lex Gen.Gen_timecond Model.Resolve Model.Async.

Section RA.
Variable U : Type.
Inductive pv :=
| PU (u : U)
| PT (r : result expr).     (* the parsed package expression, or what was raised; also the resolved tree *)
Definition as_tree (v : pv) : result expr := match v with PT r => r | _ => Exn OtherErr end.

Variable lookup_prog : text -> prog pv.

(* the package occurrences in scan order *)
Fixpoint occurrences (e : expr) : list text :=
  match e with
  | EAtom (APkg k _) => [k]
  | EAtom _ => []
  | EBin _ l r => occurrences l ++ occurrences r
  end.

(* every result goes to the place of its own coroutine: consume the results in scan order *)
Fixpoint fill_all (e : expr) (ts : list expr) : expr * list expr :=
  match e with
  | EAtom (APkg _ _) => match ts with t :: rest => (t, rest) | [] => (e, []) end
  | EAtom _ => (e, ts)
  | EBin b l r => let '(l', ts1) := fill_all l ts in let '(r', ts2) := fill_all r ts1 in (EBin b l' r', ts2)
  end.
Fixpoint sequence {A} (l : list (result A)) : result (list A) :=
  match l with [] => Ok [] | r :: t => do x <- r ;; do xs <- sequence t ;; Ok (x :: xs) end.

Definition expand_prog (e : expr) : prog pv :=
  match rep_pass e with
  | Exn x => Ret (PT (Exn x))
  | Ok _ => Par (map lookup_prog (occurrences e)) (fun rs => Ret (PT (do ts <- sequence (map as_tree rs) ;; Ok (fst (fill_all e ts)))))
  end.

(* the sequential model with the look-up as a function of the key *)
Fixpoint expand_fn (f : text -> result expr) (e : expr) : result expr :=
  match e with
  | EAtom (APkg k _) => f k
  | EAtom a => Ok (EAtom a)
  | EBin b l r => do l' <- expand_fn f l ;; do r' <- expand_fn f r ;; Ok (EBin b l' r')
  end.
Definition expand_packages_fn (f : text -> result expr) (e : expr) : result expr := do _ <- rep_pass e ;; expand_fn f e.
Definition lookup_of (c : ctx pv) (k : text) : result expr := as_tree (den c (lookup_prog k)).
End RA.
Arguments PU {U} u.
Arguments PT {U} r.
Arguments as_tree {U} v.
