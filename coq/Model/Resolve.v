(* L5 of DESIGN.md: expand_packages / expand_time_conditions on condition-expression trees. Definitions only. *)
From Ahb Require Import Model.Prelude Model.Grammar Gen.Gen_grammar Model.Lex Gen.Gen_timecond.

(* what the package resolver + parse_condition_expression_to_tree return for a package key:
   None = not resolvable (NotImplementedError), Some (Exn SyntaxErr) = malformed package expression *)
Definition pkg_table := list (text * option (result expr)).
Definition pkg_lookup (p : pkg_table) (k : text) : option (result expr) :=
  match find (fun e => text_eqb (fst e) k) p with Some (_, v) => v | None => None end.

(* parse_repeatability + Repeatability's validator: 0 <= n <= m and not n = m = 0 *)
Fixpoint dec_val (acc : N) (t : text) : N := match t with c :: r => dec_val (acc * 10 + (c - 48))%N r | [] => acc end.
Definition rep_ok (rep : text) : bool :=
  let '(a, r) := span is_ascii_digit rep in
  match r with
  | 46%N :: 46%N :: b => let n := dec_val 0 a in let m := dec_val 0 b in (n <=? m)%N && negb ((n =? 0)%N && (m =? 0)%N)
  | _ => false
  end.

(* Transformer pass: the `package` callbacks parse the repeatabilities (children first, left to right) *)
Fixpoint rep_pass (e : expr) : result unit :=
  match e with
  | EAtom (APkg _ (Some rep)) => if rep_ok rep then Ok tt else Exn ValueErr
  | EAtom _ => Ok tt
  | EBin _ l r => do _ <- rep_pass l ;; rep_pass r
  end.

(* then the placeholders are awaited in scan order and replaced: one level of packages *)
Fixpoint expand (p : pkg_table) (e : expr) : result expr :=
  match e with
  | EAtom (APkg k _) => match pkg_lookup p k with Some r => r | None => Exn NotImpl end
  | EAtom a => Ok (EAtom a)
  | EBin b l r => do l' <- expand p l ;; do r' <- expand p r ;; Ok (EBin b l' r')
  end.
Definition expand_packages (p : pkg_table) (e : expr) : result expr := do _ <- rep_pass e ;; expand p e.

Definition tc_lookup (k : text) : option tc_expansion :=
  match find (fun e => text_eqb (fst e) k) time_condition_expansion with Some (_, v) => Some v | None => None end.
Fixpoint expand_tc (e : expr) : result expr :=
  match e with
  | EAtom (ATime k) => match tc_lookup k with Some (TcKey c) => Ok (EAtom (AKey c)) | Some (TcExpr _ t) => Ok t | None => Exn NotImpl end
  | EAtom a => Ok (EAtom a)
  | EBin b l r => do l' <- expand_tc l ;; do r' <- expand_tc r ;; Ok (EBin b l' r')
  end.

Definition resolve_cond (p : pkg_table) (resolve_packages replace_time_conditions : bool) (e : expr) : result expr :=
  do e1 <- (if resolve_packages then expand_packages p e else Ok e) ;;
  if replace_time_conditions then expand_tc e1 else Ok e1.

(* equality of parse trees (exact, for the resolver correspondence) *)
Fixpoint expr_eqb (a b : expr) : bool :=
  match a, b with
  | EAtom x, EAtom y => atom_eqb x y
  | EBin o l r, EBin o' l' r' => binop_eqb o o' && expr_eqb l l' && expr_eqb r r'
  | _, _ => false
  end.

(* ---------- the placeholder mechanism of _replace_sub_coroutines_with_awaited_results ---------- *)
(* after the Transformer pass every package node is a placeholder (an un-awaited coroutine, compared by identity) *)
Inductive hexpr := HAtom (a : atom) | HHole (id : nat) | HBin (b : binop) (l r : hexpr).
(* numbering in scan order *)
Fixpoint place (e : expr) (next : nat) : hexpr * nat :=
  match e with
  | EAtom (APkg _ _) => (HHole next, Datatypes.S next)
  | EAtom a => (HAtom a, next)
  | EBin b l r => let '(l', n1) := place l next in let '(r', n2) := place r n1 in (HBin b l' r', n2)
  end.
Fixpoint inject (e : expr) : hexpr := match e with EAtom a => HAtom a | EBin b l r => HBin b (inject l) (inject r) end.
(* `if child == coro: sub_tree.children[i] = sub_result` for one placeholder *)
Fixpoint fill (h : hexpr) (id : nat) (t : expr) : hexpr :=
  match h with
  | HHole j => if Nat.eqb j id then inject t else h
  | HAtom _ => h
  | HBin b l r => HBin b (fill l id t) (fill r id t)
  end.
(* for coro, sub_result in zip(scan, sub_results): replace *)
Definition pass (h : hexpr) (first : nat) (results : list expr) : hexpr :=
  fst (fold_left (fun st t => (fill (fst st) (snd st) t, Datatypes.S (snd st))) results (h, first)).
