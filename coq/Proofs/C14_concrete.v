(* The hypotheses of the generic C14 theorem hold for the concrete AHB-expression evaluation model: replacing every
   SOLL token of an expression changes nothing but the reported indicator. *)
From Ahb Require Import Model.Prelude Model.Grammar Gen.Gen_logic Gen.Gen_valmaps Gen.Gen_enums Model.EvalRC Model.EvalFC Model.EvalAhb Model.Validate
  Proofs.C13_validate Proofs.C14_sim Proofs.C14_soll.
Set Implicit Arguments.

Section Concrete.
Variable c : cer.
Variable m : indicator.
Variable spell : text.                                   (* a spelling of m, e.g. "Muss" / "Kann" *)
Hypothesis spell_ok : modal_mark_of_token spell = Ok m.

Definition soll_to (i : indicator) : indicator := if indicator_eqb i I_SOLL then m else i.
Definition retok (t : indtok) : indtok :=
  match t with
  | TokMM v => match modal_mark_of_token v with Ok I_SOLL => TokMM spell | _ => t end
  | TokPO _ => t
  end.
Definition repart (p : part) : part := match p with PExpr t e => PExpr (retok t) e | PBare t => PBare (retok t) end.
Definition rw_c (x : result ahb) : result ahb := match x with Ok a => Ok (map repart a) | Exn e => Exn e end.
Definition evc (x : result ahb) : result ahbres := match x with Ok a => eval_ahb c a | Exn e => Exn e end.

Lemma prefix_not_soll v i : prefix_operator_of_token v = Ok i -> i <> I_SOLL.
Proof.
  unfold prefix_operator_of_token, prefix_operator_lookup.
  repeat match goal with |- context [if ?b then _ else _] => destruct b end; intros H; inversion H; discriminate.
Qed.

Lemma indicator_retok t : indicator_of (retok t) = match indicator_of t with Ok i => Ok (soll_to i) | Exn e => Exn e end.
Proof.
  destruct t as [v|v]; simpl.
  - destruct (modal_mark_of_token v) as [i|e] eqn:E; simpl; [|now rewrite E].
    destruct i; simpl; rewrite ?E; try reflexivity. exact spell_ok.
  - destruct (prefix_operator_of_token v) as [i|e] eqn:E; [|reflexivity].
    unfold soll_to. pose proof (prefix_not_soll _ E) as N. destruct i; try reflexivity. congruence.
Qed.

Lemma part_indicator_repart p : part_indicator (repart p) = match part_indicator p with Ok i => Ok (soll_to i) | Exn e => Exn e end.
Proof. destruct p; simpl; apply indicator_retok. Qed.

Lemma mapM_inds a : mapM part_indicator (map repart a) = match mapM part_indicator a with Ok l => Ok (map soll_to l) | Exn e => Exn e end.
Proof.
  induction a as [|p t IH]; simpl; [reflexivity|]. rewrite part_indicator_repart.
  destruct (part_indicator p) as [i|e]; simpl; [|reflexivity]. rewrite IH. destruct (mapM part_indicator t); reflexivity.
Qed.

Definition with_ind (f : indicator -> indicator) (r : ahbres) : ahbres := {| a_ind := f (a_ind r); a_rc := a_rc r; a_fc := a_fc r |}.

Lemma eval_part_repart p i : eval_part c (repart p) (soll_to i) = match eval_part c p i with Ok r => Ok (with_ind soll_to r) | Exn e => Exn e end.
Proof.
  destruct p as [t e|t]; simpl; [|reflexivity].
  unfold eval_part_expr. destruct (rc_evaluation c e) as [r|]; simpl; [|reflexivity].
  destruct (match r_fcx r with Some (x :: t0) => _ | _ => _ end); reflexivity.
Qed.

Lemma map2M_repart a : forall l,
  map2M (eval_part c) (map repart a) (map soll_to l) =
  match map2M (eval_part c) a l with Ok rs => Ok (map (with_ind soll_to) rs) | Exn e => Exn e end.
Proof.
  induction a as [|p t IH]; intros l; simpl; [reflexivity|]. destruct l as [|i l]; simpl; [reflexivity|].
  rewrite eval_part_repart. destruct (eval_part c p i); simpl; [|reflexivity]. rewrite IH. destruct (map2M _ t l); reflexivity.
Qed.

Lemma select_with_ind many rs : select many (map (with_ind soll_to) rs) = option_map (with_ind soll_to) (select many rs).
Proof.
  induction rs as [|r t IH]; simpl; [reflexivity|].
  destruct (is_true (r_fulfilled (a_rc r))); [destruct many; reflexivity|]. destruct t; [reflexivity|]. exact IH.
Qed.

Lemma with_ind_is_set_soll r : with_ind soll_to r = set_soll m r.
Proof. unfold with_ind, set_soll, soll_to. destruct r as [i rc fc]; simpl. destruct (indicator_eqb i I_SOLL); reflexivity. Qed.

Theorem evc_rw x : evc (rw_c x) = match evc x with Ok r => Ok (set_soll m r) | Exn e => Exn e end.
Proof.
  destruct x as [a|e]; [|reflexivity]. simpl. unfold eval_ahb. rewrite mapM_inds.
  destruct (mapM part_indicator a) as [l|]; simpl; [|reflexivity].
  rewrite map2M_repart. destruct (map2M (eval_part c) a l) as [rs|]; simpl; [|reflexivity].
  rewrite map_length, select_with_ind. destruct (select _ rs); simpl; [|reflexivity]. now rewrite with_ind_is_set_soll.
Qed.
End Concrete.

(* the two instances of the property: soll_is_required=True is rewriting SOLL to Muss, False is rewriting SOLL to Kann *)
Definition t_muss : text := [77;117;115;115]%N.
Definition t_kann : text := [75;97;110;110]%N.
Lemma spell_muss : modal_mark_of_token t_muss = Ok I_MUSS. Proof. reflexivity. Qed.
Lemma spell_kann : modal_mark_of_token t_kann = Ok I_KANN. Proof. reflexivity. Qed.

Definition rewrite_tree (spell : text) (n : node (result ahb)) : node (result ahb) := g_node (rw_c spell) n.

Theorem soll_true_is_muss c ir n parent b : (forall x, ir (rw_c t_muss x) = ir x) ->
  Validate.validate_node _ (evc c) ir n parent true = Validate.validate_node _ (evc c) ir (rewrite_tree t_muss n) parent b.
Proof.
  intros Hir. apply (@soll_flag_is_rewriting _ (evc c) ir I_MUSS true (or_introl (conj eq_refl eq_refl)) (rw_c t_muss)).
  - intros x. apply evc_rw. exact spell_muss.
  - exact Hir.
Qed.
Theorem soll_false_is_kann c ir n parent b : (forall x, ir (rw_c t_kann x) = ir x) ->
  Validate.validate_node _ (evc c) ir n parent false = Validate.validate_node _ (evc c) ir (rewrite_tree t_kann n) parent b.
Proof.
  intros Hir. apply (@soll_flag_is_rewriting _ (evc c) ir I_KANN false (or_intror (conj eq_refl eq_refl)) (rw_c t_kann)).
  - intros x. apply evc_rw. exact spell_kann.
  - exact Hir.
Qed.
