(* AhbExpressionTransformer under every schedule: the program of Model/EvalAhbAsync.v returns what the sequential model returns, whatever the
   order in which the gathered parts run; the sequential model with the content-evaluation-result based evaluations is Model/EvalAhb.v's eval_ahb. *)
From Ahb Require Import Model.Prelude Model.Grammar Gen.Gen_logic Gen.Gen_valmaps Gen.Gen_enums Model.EvalRC Model.EvalFC Model.EvalAhb
  Model.Async Model.EvalAhbAsync Proofs.C12_async.

Section Refine.
Variable U : Type.
Variable rcp : kexpr -> prog (av U).
Variable fcp : option fctoks -> prog (av U).
Notation av := (av U).
Notation part_prog := (part_prog U rcp fcp).
Notation slots_of := (slots_of U rcp fcp).
Notation ahb_prog := (ahb_prog U rcp fcp).
Notation rcf_of := (rcf_of U rcp).
Notation fcf_of := (fcf_of U rcp fcp).

Lemma den_part c i e :
  as_part (den c (part_prog i e)) = eval_part_gen (rcf_of c) (fcf_of c) (PExpr (TokMM []) e) i.
Proof.
  unfold EvalAhbAsync.part_prog, eval_part_gen, EvalAhbAsync.rcf_of, EvalAhbAsync.fcf_of. rewrite den_pbind.
  destruct (as_rc (den c (rcp e))) as [r|x]; cbn [bind]; [|reflexivity].
  rewrite den_pbind. reflexivity.
Qed.

(* what gather_if_necessary hands back: slot by slot the sequential result of that part *)
Lemma reinsert_den c (a : ahb) : forall inds, length inds = length a ->
  sequence (reinsert U (slots_of a inds) (map (den c) (awaitables U (slots_of a inds))))
  = map2M (eval_part_gen (rcf_of c) (fcf_of c)) a inds.
Proof.
  induction a as [|p t IH]; intros inds Hl; destruct inds as [|i u]; try discriminate; [reflexivity|].
  simpl in Hl. injection Hl as Hl. cbn [EvalAhbAsync.slots_of map2M]. destruct p as [tk e|tk]; cbn [slot_of awaitables map reinsert sequence].
  - rewrite den_part. unfold eval_part_gen at 1 3. rewrite (IH u Hl). reflexivity.
  - cbn [bind eval_part_gen]. rewrite (IH u Hl). reflexivity.
Qed.

Lemma mapM_length {A B} (f : A -> result B) (l : list A) : forall l', mapM f l = Ok l' -> length l' = length l.
Proof.
  induction l as [|x t IH]; simpl; intros l' H; [inversion H; reflexivity|].
  destruct (f x); simpl in H; [|discriminate]. destruct (mapM f t) as [ys|] eqn:E; simpl in H; [|discriminate].
  inversion H; subst. simpl. f_equal. now apply IH.
Qed.

Theorem den_ahb c (a : ahb) : as_part (den c (ahb_prog a)) = eval_ahb_gen (rcf_of c) (fcf_of c) a.
Proof.
  unfold EvalAhbAsync.ahb_prog, eval_ahb_gen. destruct (mapM part_indicator a) as [inds|x] eqn:E; cbn [bind]; [|reflexivity].
  cbn [den as_part]. rewrite (reinsert_den c a inds (mapM_length _ _ _ E)). reflexivity.
Qed.

Theorem ahb_every_schedule c (a : ahb) (r : av) :
  steps (initial c (ahb_prog a)) (Done r) -> as_part r = eval_ahb_gen (rcf_of c) (fcf_of c) a.
Proof. intros H. apply schedule_independent in H. rewrite H. apply den_ahb. Qed.

Theorem ahb_terminates c (a : ahb) : exists r, steps (initial c (ahb_prog a)) (Done r) /\ as_part r = eval_ahb_gen (rcf_of c) (fcf_of c) a.
Proof. exists (den c (ahb_prog a)). split; [apply (terminates (initial c (ahb_prog a)))|apply den_ahb]. Qed.
End Refine.

(* the sequential model with content-evaluation-result based evaluations IS eval_ahb of Model/EvalAhb.v *)
Definition fc_of_cer (c : cer) (_ : kexpr) (x : option fctoks) : result efc :=
  match x with
  | Some (y :: t) => match fc_tree (y :: t) with Some tr => fc_evaluation c (Some tr) | None => Exn OutOfFuel end
  | _ => fc_evaluation c None
  end.

Lemma eval_ahb_is_gen c a : eval_ahb c a = eval_ahb_gen (rc_evaluation c) (fc_of_cer c) a.
Proof.
  unfold eval_ahb, eval_ahb_gen. destruct (mapM part_indicator a) as [inds|x]; cbn [bind]; [|reflexivity].
  assert (E : forall l m, map2M (eval_part c) l m = map2M (eval_part_gen (rc_evaluation c) (fc_of_cer c)) l m).
  { induction l as [|p t IH]; intros m; destruct m as [|i u]; reflexivity. }
  rewrite E. reflexivity.
Qed.

(* the selection of the first fulfilled part (C09_select) holds for the result of every schedule *)
Theorem selected_part_every_schedule U rcp fcp c (a : ahb) (r : av U) res :
  steps (initial c (EvalAhbAsync.ahb_prog U rcp fcp a)) (Done r) -> as_part r = Ok res ->
  exists inds rs, mapM part_indicator a = Ok inds /\
                  map2M (eval_part_gen (rcf_of U rcp c) (fcf_of U rcp fcp c)) a inds = Ok rs /\
                  select (1 <? length a) rs = Some res.
Proof.
  intros H Hr. apply ahb_every_schedule in H. rewrite Hr in H. symmetry in H. unfold eval_ahb_gen in H.
  destruct (mapM part_indicator a) as [inds|] eqn:E1; cbn [bind] in H; [|discriminate].
  destruct (map2M _ a inds) as [rs|] eqn:E2; cbn [bind] in H; [|discriminate].
  destruct (select (1 <? length a) rs) as [s|] eqn:E3; cbn in H; [|discriminate]. inversion H; subst. exists inds, rs. auto.
Qed.
