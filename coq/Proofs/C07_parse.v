(* The collected expression, read back through the parser: the builder-made forest has a derivation in the documented
   precedence grammar, hence (C01) every tree Lark's resolution admits for it has the same Boolean value. *)
From Coq Require Import List Arith Lia Bool.
From Ahb Require Import Model.Prelude Model.Grammar Gen.Gen_grammar Model.Lex Model.EvalRC Model.EvalFC Model.Spec
  Proofs.Prec Proofs.Canon Proofs.C01_parse Proofs.C08_fc Proofs.C07_fc.
Set Implicit Arguments.

(* ---------- Boolean value is invariant under same-operator flattening ---------- *)
Section BoolFlat.
Variable A : Type.
Variable beta : A -> bool.
Fixpoint bvalg (e : Grammar.expr A) : bool :=
  match e with
  | EAtom a => beta a
  | EBin BOr l r => bvalg l || bvalg r
  | EBin BXor l r => xorb (bvalg l) (bvalg r)
  | EBin _ l r => bvalg l && bvalg r
  end.
Definition bop_fn (b : binop) : bool -> bool -> bool := match b with BOr => orb | BXor => xorb | _ => andb end.
Definition bop_id (b : binop) : bool := match b with BOr | BXor => false | _ => true end.
Fixpoint bfx (x : Grammar.fx A) : bool :=
  match x with
  | FA a => beta a
  | FN b args => (fix go (l : list (Grammar.fx A)) : bool := match l with [] => bop_id b | y :: t => bop_fn b (bfx y) (go t) end) args
  end.
Definition fold_b (b : binop) (l : list (Grammar.fx A)) : bool := fold_right (fun y acc => bop_fn b (bfx y) acc) (bop_id b) l.
Lemma bfx_FN b args : bfx (FN b args) = fold_b b args.
Proof. unfold fold_b. simpl. induction args as [|y t IH]; simpl; [reflexivity|]. now rewrite IH. Qed.
Lemma fold_b_app b l1 l2 : fold_b b (l1 ++ l2) = bop_fn b (fold_b b l1) (fold_b b l2).
Proof.
  unfold fold_b. induction l1 as [|y t IH]; simpl.
  - destruct b; simpl; destruct (fold_right _ _ l2); reflexivity.
  - rewrite IH. destruct b; simpl; destruct (bfx y), (fold_right _ _ t), (fold_right _ _ l2); reflexivity.
Qed.
Lemma fold_b_explode b x : fold_b b (explode b x) = bfx x.
Proof.
  destruct x as [a|b' ys]; simpl explode.
  - unfold fold_b. simpl. destruct b, (beta a); reflexivity.
  - destruct (binop_eqb b b') eqn:E.
    + assert (b = b') by (destruct b, b'; simpl in E; congruence). subst. now rewrite bfx_FN.
    + unfold fold_b. cbn [fold_right]. generalize (bfx (FN b' ys)) as v. intros v. destruct b, v; reflexivity.
Qed.
Theorem bfx_flat e : bfx (flat e) = bvalg e.
Proof.
  induction e as [a|b l IHl r IHr]; [reflexivity|].
  simpl flat. rewrite bfx_FN, fold_b_app, !fold_b_explode, IHl, IHr. destruct b; reflexivity.
Qed.
End BoolFlat.

(* ---------- the builder-made forest as parser items ---------- *)
Fixpoint item_of (x : fitem) : option item :=
  match x with
  | FK k => Some (IA (AKey k))
  | FOp o => option_map (fun r => IO r) (op_of_char (lop_char o))
  | FG g => option_map (fun l => IG l)
              ((fix go (l : list fitem) : option (list item) :=
                  match l with
                  | [] => Some []
                  | y :: t => match item_of y, go t with Some a, Some b => Some (a :: b) | _, _ => None end
                  end) g)
  end.
Definition items_of (g : fctoks) : option (list item) :=
  (fix go (l : list fitem) : option (list item) :=
     match l with
     | [] => Some []
     | y :: t => match item_of y, go t with Some a, Some b => Some (a :: b) | _, _ => None end
     end) g.
Lemma item_of_FG g : item_of (FG g) = option_map (fun l => IG l) (items_of g).
Proof. reflexivity. Qed.

Fixpoint embed (t : kexpr) : expr := match t with EAtom k => EAtom (AKey k) | EBin b l r => EBin b (embed l) (embed r) end.

(* the letter spellings U/O/X the builder writes are operators of the grammar, with the right meaning *)
Lemma builder_ops : forall o, exists r, op_of_char (lop_char o) = Some r /\ bop (rule_alias r) = lop_binop o.
Proof. intros o; destruct o; eexists; split; reflexivity. Qed.

Lemma S_any_level n l e : n <= 4 -> Sc 4 l e -> Sc n l e.
Proof. intros Hn H. now apply (@S_down atom rule rule_alias 4 n). Qed.

Theorem built_is_derivable : (forall x t, TI x t -> exists i, item_of x = Some i /\ Sc 4 [i] (embed t)) /\
                             (forall g t, T g t -> exists its, items_of g = Some its /\ Sc 0 its (embed t)).
Proof.
  apply TI_T_ind.
  - intros k. eexists. split; [reflexivity|]. apply S_atom.
  - intros g t _ [its [E H]]. exists (IG its). split; [rewrite item_of_FG, E; reflexivity|]. now apply S_grp.
  - intros x t _ [i [E H]]. exists [i]. split; [simpl; now rewrite E|]. apply S_any_level; [lia|exact H].
  - intros a o b ta tb _ [ia [Ea Ha]] _ [ib [Eb Hb]]. destruct (builder_ops o) as [r [Er Hr]].
    exists [ia; IO r; ib]. split; [simpl; rewrite Ea, Eb, Er; reflexivity|].
    simpl embed. rewrite <- Hr.
    apply (@S_down atom rule rule_alias (lv rule_alias r) 0); [lia|].
    apply (@S_op atom rule rule_alias r [ia] [ib]); (apply S_any_level; [pose proof (lv_le2 r); lia|assumption]).
Qed.

Lemma bvalg_embed beta t : no_then t = true -> bvalg (fun a => match a with AKey k => beta k | _ => false end) (embed t) = bval beta t.
Proof.
  induction t as [k|b l IHl r IHr]; [reflexivity|]. intros H. destruct b; simpl in *; try discriminate;
    apply andb_true_iff in H; destruct H as [H1 H2]; now rewrite IHl, IHr.
Qed.


(* whatever tree the parser's resolution admits for the built forest, its Boolean value is that of the built tree *)
Theorem built_value_via_parser g t its e' beta : T g t -> items_of g = Some its -> Rc its e' ->
  bvalg (fun a => match a with AKey k => beta k | _ => false end) e' = bval beta t.
Proof.
  intros HT Hi HR. destruct (proj2 built_is_derivable g t HT) as [its' [E HS]]. rewrite Hi in E. inversion E; subst its'.
  pose proof (unique_modulo_runs_c (resolution_respects_precedence_c HR) HS) as F.
  rewrite <- (bfx_flat _ e'), F, bfx_flat. apply bvalg_embed. now apply (proj2 T_no_then g t).
Qed.

(* for arbitrary (user-written) expressions: all trees the resolution admits have the same Boolean value, and it is the
   value of the flattened tree the model parser computes *)
Theorem value_independent_of_runs (bb : atom -> bool) its (e e' : Grammar.expr atom) :
  Rc its e -> Rc its e' -> bvalg bb e = bvalg bb e'.
Proof. intros H1 H2. rewrite <- !bfx_flat. now rewrite (lark_parses_agree H1 H2). Qed.
