From Ahb Require Import Model.Prelude Model.Grammar Model.EvalRC Model.EvalFC Model.Spec.
Set Implicit Arguments.

(* Boolean value of an expression over format-constraint keys *)
Fixpoint bval (beta : text -> bool) (e : kexpr) : bool :=
  match e with
  | EAtom k => beta k
  | EBin BAnd l r => bval beta l && bval beta r
  | EBin BOr l r => bval beta l || bval beta r
  | EBin BXor l r => xorb (bval beta l) (bval beta r)
  | EBin BThen l r => bval beta l && bval beta r
  end.
Fixpoint no_then (e : kexpr) : bool :=
  match e with EAtom _ => true | EBin BThen _ _ => false | EBin _ l r => no_then l && no_then r end.

(* the evaluated single constraints: every key of e has a value, fulfilled exactly according to beta *)
Definition fenv_ok (beta : text -> bool) (fe : fenv) (e : kexpr) : Prop :=
  forall k, In k (keys_of e) -> exists v, lookup fe k = Some v /\ ff v = beta k.
(* every unfulfilled single constraint carries a message, every fulfilled one carries none (interpretation I-C08) *)
Definition msgs_ok (fe : fenv) (e : kexpr) : Prop :=
  forall k v, In k (keys_of e) -> lookup fe k = Some v -> (fmsg v = None <-> ff v = true).

Lemma fenv_ok_l beta fe b l r : fenv_ok beta fe (EBin b l r) -> fenv_ok beta fe l.
Proof. intros H k Hk. apply H. simpl. apply in_or_app. now left. Qed.
Lemma fenv_ok_r beta fe b l r : fenv_ok beta fe (EBin b l r) -> fenv_ok beta fe r.
Proof. intros H k Hk. apply H. simpl. apply in_or_app. now right. Qed.

Theorem fc_boolean beta fe e : no_then e = true -> fenv_ok beta fe e ->
  exists r, eval_fc fe e = Ok r /\ ff r = bval beta e.
Proof.
  induction e as [k|b l IHl r IHr]; intros Hn He.
  - destruct (He k) as [v [Hl Hv]]; [simpl; now left|]. exists v. simpl. rewrite Hl. simpl. auto.
  - assert (Hnl : no_then l = true /\ no_then r = true) by (destruct b; simpl in Hn; try discriminate; now apply andb_true_iff in Hn).
    destruct Hnl as [Hnl Hnr].
    destruct (IHl Hnl (fenv_ok_l He)) as [x [Ex Fx]]. destruct (IHr Hnr (fenv_ok_r He)) as [y [Ey Fy]].
    simpl eval_fc. rewrite Ex, Ey. simpl bind.
    destruct b; simpl in Hn; try discriminate; simpl; eexists; (split; [reflexivity|]); simpl; now rewrite Fx, Fy.
Qed.

Definition msg_inv (r : efc) : Prop := fmsg r = None <-> ff r = true.

Lemma compose_msg_inv b x y r : msg_inv x -> msg_inv y -> fc_compose b x y = Ok r -> msg_inv r.
Proof.
  unfold msg_inv. intros [X1 X2] [Y1 Y2] H.
  destruct b; simpl in H; try discriminate; inversion H; subst; clear H; simpl;
    unfold fem_land, fem_lor, fem_xor;
    destruct x as [fx mx], y as [fy my]; simpl in *;
    destruct fx, fy, mx, my; simpl; split; intros Q; try reflexivity; try discriminate;
    try (specialize (X1 eq_refl); discriminate); try (specialize (X2 eq_refl); discriminate);
    try (specialize (Y1 eq_refl); discriminate); try (specialize (Y2 eq_refl); discriminate).
Qed.

Theorem fc_message_iff fe e r : msgs_ok fe e -> eval_fc fe e = Ok r -> (fmsg r <> None <-> ff r = false).
Proof.
  intros Hm He. assert (msg_inv r) as [I1 I2].
  { revert r He. induction e as [k|b l IHl rr IHr]; intros r He.
    - simpl in He. destruct (lookup fe k) as [v|] eqn:El; simpl in He; [|discriminate]. inversion He; subst.
      apply (Hm k r); [simpl; now left|exact El].
    - simpl in He. destruct (eval_fc fe l) as [x|] eqn:Ex; simpl in He; [|discriminate].
      destruct (eval_fc fe rr) as [y|] eqn:Ey; simpl in He; [|discriminate].
      eapply compose_msg_inv; [apply IHl|apply IHr|exact He]; auto; intros k v Hk; apply Hm; simpl; apply in_or_app; auto. }
  split; intros H.
  - destruct (ff r) eqn:F; auto. exfalso. apply H. now apply I2.
  - intros Hn. specialize (I1 Hn). congruence.
Qed.

Lemma absent_fulfilled c : fc_evaluation c None = Ok {| ff := true; fmsg := None |}.
Proof. reflexivity. Qed.

(* FcEvaluator.evaluate_single_format_constraint: an unfulfilled result without message gets the default message *)
Definition t_cond : text := [67;111;110;100;105;116;105;111;110;32;91]%N.                      (* "Condition [" *)
Definition t_hastobe : text := [93;32;104;97;115;32;116;111;32;98;101;32;102;117;108;102;105;108;108;101;100;46]%N.  (* "] has to be fulfilled." *)
Definition default_message (k : text) (r : efc) : efc :=
  if negb (ff r) && match fmsg r with None => true | Some _ => false end
  then {| ff := ff r; fmsg := Some (t_cond ++ k ++ t_hastobe) |} else r.
Lemma default_message_explains k r : ff (default_message k r) = ff r /\ (ff r = false -> fmsg (default_message k r) <> None).
Proof. unfold default_message. destruct r as [f [m|]]; destruct f; simpl; split; auto; intros; discriminate. Qed.

Example fc_example :
  let e := EBin BOr (EAtom [57;48;49]%N) (EBin BAnd (EAtom [57;48;50]%N) (EAtom [57;48;51]%N)) in
  let fe := [([57;48;49]%N, {| ff := false; fmsg := Some [109%N] |}); ([57;48;50]%N, {| ff := true; fmsg := None |});
             ([57;48;51]%N, {| ff := false; fmsg := Some [110%N] |})] in
  no_then e = true /\ msgs_ok fe e /\ exists r, eval_fc fe e = Ok r /\ ff r = false /\ fmsg r <> None.
Proof.
  split; [reflexivity|]. split.
  - intros k v Hin Hl. simpl in Hin.
    destruct Hin as [<-|[<-|[<-|[]]]]; vm_compute in Hl; inversion Hl; subst; simpl; split; intros; try reflexivity; discriminate.
  - eexists. split; [vm_compute; reflexivity|]. split; [reflexivity|discriminate].
Qed.
