(* Validity and the unspecified grouping. C06 says validity is structural; C01 leaves the grouping inside runs of one operator open. The two fit together
   except in one corner: [valid] factors through the flattening -- valid e -> validf (flat e), and validf (flat e) -> valid e provided no run of O or X
   over operands without requirement constraint contains both a single hint and a single format constraint ([corner_free]). Hence two in-domain trees
   with the same flattening are both valid or both invalid whenever the flattening is corner free. (The corner itself: C05_run_grouping_can_change_validity.) *)
From Ahb Require Import Model.Prelude Model.Grammar Gen.Gen_logic Gen.Gen_ranges Model.Logic Model.EvalRC Model.Spec Proofs.C04_eval Proofs.C05_runs.

Definition uniform (l : list bool) : bool := forallb (fun b => b) l || forallb negb l.

Fixpoint carries_fx (x : Grammar.fx text) : bool :=
  match x with FA k => is_kind KRc k | FN _ l => existsb carries_fx l end.
Definition is_hint_atom (x : Grammar.fx text) : bool := match x with FA k => is_kind KHint k | _ => false end.
Definition is_ox (b : binop) : bool := match b with BOr | BXor => true | _ => false end.
Definition corner (b : binop) (l : list (Grammar.fx text)) : bool :=
  is_ox b && forallb (fun x => negb (carries_fx x)) l && existsb is_hint_atom l && existsb is_fc_atom l.
Fixpoint corner_free (x : Grammar.fx text) : bool :=
  match x with FA _ => true | FN b l => negb (corner b l) && forallb corner_free l end.
Fixpoint validf (x : Grammar.fx text) : bool :=
  match x with
  | FA _ => true
  | FN b l => forallb validf l && (if is_ox b then uniform (map carries_fx l) else true)
  end.

(* ---- lists of booleans *)
Lemma forallb_app' {A} (p : A -> bool) a b : forallb p (a ++ b) = forallb p a && forallb p b.
Proof. induction a as [|x t IH]; cbn [app forallb]; [reflexivity|]. now rewrite IH, andb_assoc. Qed.
Lemma existsb_app' {A} (p : A -> bool) a b : existsb p (a ++ b) = existsb p a || existsb p b.
Proof. induction a as [|x t IH]; cbn [app existsb]; [reflexivity|]. now rewrite IH, orb_assoc. Qed.
Lemma all_true_exists l : l <> [] -> forallb (fun b : bool => b) l = true -> existsb (fun b : bool => b) l = true.
Proof. destruct l as [|x t]; [congruence|]. cbn. intros _ H. apply andb_true_iff in H. destruct H as [-> _]. reflexivity. Qed.
Lemma all_false_exists l : forallb negb l = true -> existsb (fun b : bool => b) l = false.
Proof. induction l as [|x t IH]; cbn; [reflexivity|]. intros H. apply andb_true_iff in H. destruct H as [Hx Ht]. destruct x; [discriminate|]. now apply IH. Qed.
Lemma existsb_map {A} (f : A -> bool) l : existsb (fun b : bool => b) (map f l) = existsb f l.
Proof. induction l as [|x t IH]; cbn; [reflexivity|]. now rewrite IH. Qed.
Lemma forallb_map_id {A} (f : A -> bool) l : forallb (fun b : bool => b) (map f l) = forallb f l.
Proof. induction l as [|x t IH]; cbn; [reflexivity|]. now rewrite IH. Qed.
Lemma forallb_map_neg {A} (f : A -> bool) l : forallb negb (map f l) = forallb (fun x => negb (f x)) l.
Proof. induction l as [|x t IH]; cbn; [reflexivity|]. now rewrite IH. Qed.

(* a uniform non-empty list is all [c] where c says whether it has a true element *)
Lemma uniform_value l : uniform l = true -> l <> [] ->
  (existsb (fun b : bool => b) l = true /\ forallb (fun b : bool => b) l = true) \/ (existsb (fun b : bool => b) l = false /\ forallb negb l = true).
Proof.
  unfold uniform. intros H Hne. apply orb_true_iff in H. destruct H as [H|H].
  - left. split; [now apply all_true_exists|exact H].
  - right. split; [now apply all_false_exists|exact H].
Qed.
Lemma uniform_app_inv a b : uniform (a ++ b) = true -> uniform a = true /\ uniform b = true.
Proof.
  unfold uniform. rewrite !forallb_app'. intros H. apply orb_true_iff in H. destruct H as [H|H]; apply andb_true_iff in H; destruct H as [Ha Hb]; rewrite Ha, Hb; cbn; rewrite ?orb_true_r; auto.
Qed.
Lemma uniform_app_same a b : a <> [] -> b <> [] -> uniform (a ++ b) = true ->
  existsb (fun x : bool => x) a = existsb (fun x : bool => x) b.
Proof.
  unfold uniform. rewrite !forallb_app'. intros Ha Hb H. apply orb_true_iff in H. destruct H as [H|H]; apply andb_true_iff in H; destruct H as [H1 H2].
  - now rewrite (all_true_exists a Ha H1), (all_true_exists b Hb H2).
  - now rewrite (all_false_exists _ H1), (all_false_exists _ H2).
Qed.
Lemma uniform_app_intro a b c : forallb (Bool.eqb c) a = true -> forallb (Bool.eqb c) b = true -> uniform (a ++ b) = true.
Proof.
  intros Ha Hb. unfold uniform. rewrite !forallb_app'. destruct c.
  - assert (E : forall l, forallb (Bool.eqb true) l = forallb (fun x : bool => x) l) by (induction l as [|x t IH]; cbn; [reflexivity|]; rewrite IH; destruct x; reflexivity).
    rewrite E in Ha, Hb. now rewrite Ha, Hb.
  - assert (E : forall l, forallb (Bool.eqb false) l = forallb negb l) by (induction l as [|x t IH]; cbn; [reflexivity|]; rewrite IH; destruct x; reflexivity).
    rewrite E in Ha, Hb. rewrite Ha, Hb. cbn. now rewrite orb_true_r.
Qed.

(* ---- the operands a tree contributes to a run *)
Lemma flat_not_empty_run (e : kexpr) b : explode b (flat e) <> [].
Proof.
  destruct e as [k|b' l r]; cbn [flat explode]; [discriminate|].
  destruct (binop_eqb b b'); [|discriminate].
  destruct l as [kl|bl l1 l2]; cbn [flat explode]; [discriminate|]. destruct (binop_eqb b' bl); [|discriminate].
  (* the left operand is itself a node: its own operands come first, and they are not empty by the same argument one level down *)
  generalize (explode b' (flat r)). intros tl.
  assert (H : explode bl (flat l1) ++ explode bl (flat l2) <> []).
  { destruct (explode bl (flat l1)) eqn:E; [|discriminate]. exfalso.
    clear -E. revert bl E. induction l1 as [k|b1 a IHa c IHc]; intros bl E; cbn [flat explode] in E; [discriminate|].
    destruct (binop_eqb bl b1); [|discriminate]. apply app_eq_nil in E. destruct E as [E _]. now apply IHa in E. }
  destruct (explode bl (flat l1) ++ explode bl (flat l2)); [congruence|discriminate].
Qed.

Lemma carries_flat (e : kexpr) : carries_fx (flat e) = carries_rc e.
Proof.
  induction e as [k|b l IHl r IHr]; [reflexivity|]. cbn [flat carries_fx carries_rc]. rewrite existsb_app'.
  assert (E : forall b x, existsb carries_fx (explode b x) = carries_fx x).
  { intros b0 x. destruct x as [k|b' ys]; cbn [explode existsb]; [now rewrite orb_false_r|]. destruct (binop_eqb b0 b'); cbn [existsb carries_fx]; [reflexivity|now rewrite orb_false_r]. }
  now rewrite !E, IHl, IHr.
Qed.
Lemma carries_explode b x : existsb carries_fx (explode b x) = carries_fx x.
Proof. destruct x as [k|b' ys]; cbn [explode existsb]; [now rewrite orb_false_r|]. destruct (binop_eqb b b'); cbn [existsb carries_fx]; [reflexivity|now rewrite orb_false_r]. Qed.

Lemma validf_explode b x : validf x = true ->
  forallb validf (explode b x) = true /\ (is_ox b = true -> uniform (map carries_fx (explode b x)) = true).
Proof.
  intros V. destruct x as [k|b' ys]; cbn [explode].
  - split; [reflexivity|]. intros _. unfold uniform. cbn. destruct (is_kind KRc k); reflexivity.
  - destruct (binop_eqb b b') eqn:E.
    + assert (b = b') by (destruct b, b'; try discriminate; reflexivity). subst b'.
      cbn [validf] in V. apply andb_true_iff in V. destruct V as [V1 V2]. split; [exact V1|]. intros Hox. now rewrite Hox in V2.
    + split; [cbn [forallb]; now rewrite V|]. intros _. unfold uniform. cbn [map forallb]. destruct (carries_fx (FN b' ys)); reflexivity.
Qed.

Lemma validf_of_explode b x : forallb validf (explode b x) = true -> (is_ox b = true -> uniform (map carries_fx (explode b x)) = true) -> validf x = true.
Proof.
  destruct x as [k|b' ys]; cbn [explode]; [reflexivity|]. destruct (binop_eqb b b') eqn:E.
  - assert (b = b') by (destruct b, b'; try discriminate; reflexivity). subst b'. intros V U. cbn [validf]. rewrite V. cbn [andb].
    destruct (is_ox b); [now apply U|reflexivity].
  - cbn [forallb]. intros V _. now rewrite andb_true_r in V.
Qed.

(* under O/X every operand a valid tree contributes to a run agrees with the tree on "carries a requirement constraint" *)
Lemma explode_all_eq b x : is_ox b = true -> validf x = true -> forallb (Bool.eqb (carries_fx x)) (map carries_fx (explode b x)) = true.
Proof.
  intros Hox V. destruct x as [k|b' ys]; cbn [explode].
  - cbn. now rewrite eqb_reflx.
  - destruct (binop_eqb b b') eqn:E.
    + assert (b = b') by (destruct b, b'; try discriminate; reflexivity). subst b'.
      cbn [validf] in V. apply andb_true_iff in V. destruct V as [_ U]. rewrite Hox in U. cbn [carries_fx]. rewrite <- (existsb_map carries_fx ys).
      destruct ys as [|y t]; [reflexivity|].
      destruct (uniform_value _ U) as [[Ex Al]|[Ex Al]]; [discriminate| |]; rewrite Ex.
      * clear -Al. induction (map carries_fx (y :: t)) as [|z u IH]; [reflexivity|]. cbn in *. apply andb_true_iff in Al. destruct Al as [-> Al]. cbn. now apply IH.
      * clear -Al. induction (map carries_fx (y :: t)) as [|z u IH]; [reflexivity|]. cbn in *. apply andb_true_iff in Al. destruct Al as [Hz Al]. destruct z; [discriminate|]. cbn. now apply IH.
    + cbn. now rewrite eqb_reflx.
Qed.

Lemma dom_sub b (l r : kexpr) : dom (EBin b l r) = true -> dom l = true /\ dom r = true.
Proof. destruct b; cbn [dom]; intros D; repeat (apply andb_true_iff in D; destruct D as [D ?]); auto. Qed.

Theorem valid_implies_validf (e : kexpr) : valid e = true -> validf (flat e) = true.
Proof.
  induction e as [k|b l IHl r IHr]; intros V; [reflexivity|].
  assert (Vs : valid l = true /\ valid r = true) by (destruct b; cbn [valid] in V; repeat (apply andb_true_iff in V; destruct V as [V ?]); auto).
  destruct Vs as [Vl Vr]. specialize (IHl Vl). specialize (IHr Vr).
  cbn [flat validf]. rewrite forallb_app'.
  destruct (validf_explode b _ IHl) as [Fl _]. destruct (validf_explode b _ IHr) as [Fr _]. rewrite Fl, Fr. cbn [andb].
  destruct (is_ox b) eqn:Hox; [|reflexivity].
  assert (Ok : or_xor_ok l r = true) by (destruct b; try discriminate; cbn [valid] in V; apply andb_true_iff in V; destruct V as [_ V]; exact V).
  unfold or_xor_ok in Ok. apply andb_true_iff in Ok. destruct Ok as [_ C]. apply eqb_prop in C.
  rewrite map_app. apply uniform_app_intro with (c := carries_rc l).
  - rewrite <- carries_flat. now apply explode_all_eq.
  - rewrite C, <- carries_flat. now apply explode_all_eq.
Qed.

Lemma is_kind_excl k : (is_kind KHint k = true -> is_kind KRc k = false) /\ (is_kind KFc k = true -> is_kind KRc k = false).
Proof. unfold is_kind. destruct (kind_of k) as [[]|]; cbn; split; congruence. Qed.

(* no corner in a part of a uniform run *)
Lemma uniform_false_spreads (a z : list (Grammar.fx text)) : a <> [] -> forallb (fun x => negb (carries_fx x)) a = true ->
  uniform (map carries_fx (a ++ z)) = true -> forallb (fun x => negb (carries_fx x)) z = true.
Proof.
  intros Ha Na U. unfold uniform in U. rewrite map_app, !forallb_app', !forallb_map_neg, !forallb_map_id, Na in U. cbn [andb] in U.
  apply orb_true_iff in U. destruct U as [U|U]; [|exact U]. exfalso.
  apply andb_true_iff in U. destruct U as [Ua _]. destruct a as [|x t]; [congruence|]. cbn in Ua, Na.
  apply andb_true_iff in Ua. destruct Ua as [Ux _]. apply andb_true_iff in Na. destruct Na as [Nx _]. rewrite Ux in Nx. discriminate.
Qed.
Lemma uniform_false_spreads_l (a z : list (Grammar.fx text)) : z <> [] -> forallb (fun x => negb (carries_fx x)) z = true ->
  uniform (map carries_fx (a ++ z)) = true -> forallb (fun x => negb (carries_fx x)) a = true.
Proof.
  intros Hz Nz U. unfold uniform in U. rewrite map_app, !forallb_app', !forallb_map_neg, !forallb_map_id, Nz in U. rewrite andb_true_r in U.
  apply orb_true_iff in U. destruct U as [U|U]; [|exact U]. exfalso.
  apply andb_true_iff in U. destruct U as [_ Uz]. destruct z as [|x t]; [congruence|]. cbn in Uz, Nz.
  apply andb_true_iff in Uz. destruct Uz as [Ux _]. apply andb_true_iff in Nz. destruct Nz as [Nx _]. rewrite Ux in Nx. discriminate.
Qed.
Lemma existsb_nonempty {A} (p : A -> bool) l : existsb p l = true -> l <> [].
Proof. destruct l; [discriminate|discriminate]. Qed.

(* no corner in a part of a uniform run *)
Lemma no_corner_part b (a z : list (Grammar.fx text)) : uniform (map carries_fx (a ++ z)) = true -> corner b (a ++ z) = false -> corner b a = false.
Proof.
  intros U NC. destruct (corner b a) eqn:Ca; [|reflexivity]. exfalso.
  unfold corner in Ca. repeat (apply andb_true_iff in Ca; destruct Ca as [Ca ?]).
  assert (Nz : forallb (fun x => negb (carries_fx x)) z = true) by (apply (uniform_false_spreads a z); [now apply (existsb_nonempty is_hint_atom)|assumption|exact U]).
  unfold corner in NC. rewrite Ca, forallb_app', H1, Nz, !existsb_app', H0, H in NC. discriminate.
Qed.
Lemma no_corner_part_r b (a z : list (Grammar.fx text)) : uniform (map carries_fx (a ++ z)) = true -> corner b (a ++ z) = false -> corner b z = false.
Proof.
  intros U NC. destruct (corner b z) eqn:Cz; [|reflexivity]. exfalso.
  unfold corner in Cz. repeat (apply andb_true_iff in Cz; destruct Cz as [Cz ?]).
  assert (Na : forallb (fun x => negb (carries_fx x)) a = true) by (apply (uniform_false_spreads_l a z); [now apply (existsb_nonempty is_hint_atom)|assumption|exact U]).
  unfold corner in NC. rewrite Cz, forallb_app', H1, Na, !existsb_app', H0, H, !orb_true_r in NC. discriminate.
Qed.

Lemma corner_free_of_explode b x : forallb corner_free (explode b x) = true -> corner b (explode b x) = false -> corner_free x = true.
Proof.
  destruct x as [k|b' ys]; cbn [explode]; [reflexivity|]. destruct (binop_eqb b b') eqn:E.
  - assert (b = b') by (destruct b, b'; try discriminate; reflexivity). subst b'. intros F NC. cbn [corner_free]. now rewrite NC, F.
  - cbn [forallb]. intros F _. now rewrite andb_true_r in F.
Qed.

Theorem validf_implies_valid (e : kexpr) : validf (flat e) = true -> corner_free (flat e) = true -> valid e = true.
Proof.
  induction e as [k|b l IHl r IHr]; intros V CF; [reflexivity|].
  cbn [flat validf corner_free] in V, CF. rewrite forallb_app' in V, CF.
  apply andb_true_iff in V. destruct V as [V U]. apply andb_true_iff in V. destruct V as [Vl Vr].
  apply andb_true_iff in CF. destruct CF as [NC CF]. apply andb_true_iff in CF. destruct CF as [CFl CFr]. apply negb_true_iff in NC.
  destruct (is_ox b) eqn:Hox.
  - rewrite map_app in U. destruct (uniform_app_inv _ _ U) as [Ul Ur].
    assert (Vfl : validf (flat l) = true) by (apply (validf_of_explode b); [exact Vl|intros _; exact Ul]).
    assert (Vfr : validf (flat r) = true) by (apply (validf_of_explode b); [exact Vr|intros _; exact Ur]).
    rewrite <- map_app in U.
    assert (Cl : corner_free (flat l) = true) by (apply (corner_free_of_explode b); [exact CFl|exact (no_corner_part b _ _ U NC)]).
    assert (Cr : corner_free (flat r) = true) by (apply (corner_free_of_explode b); [exact CFr|exact (no_corner_part_r b _ _ U NC)]).
    specialize (IHl Vfl Cl). specialize (IHr Vfr Cr).
    assert (Ok : or_xor_ok l r = true).
    { unfold or_xor_ok. apply andb_true_iff. split.
      - apply negb_true_iff. destruct ((hint_leaf l && fc_leaf r) || (fc_leaf l && hint_leaf r)) eqn:HF; [|reflexivity]. exfalso.
        apply orb_true_iff in HF. destruct HF as [HF|HF]; apply andb_true_iff in HF; destruct HF as [H1 H2];
          destruct l as [kl|]; try discriminate; destruct r as [kr|]; try discriminate;
          unfold hint_leaf, fc_leaf, leaf_is in H1, H2; cbn [flat explode app] in NC; unfold corner in NC; rewrite Hox in NC;
          cbn [forallb existsb carries_fx is_hint_atom is_fc_atom andb orb] in NC;
          destruct (is_kind_excl kl) as [A1 A2]; destruct (is_kind_excl kr) as [B1 B2].
        + rewrite (A1 H1), (B2 H2), H1, H2 in NC. cbn in NC. rewrite ?orb_true_r in NC. discriminate.
        + rewrite (A2 H1), (B1 H2), H1, H2 in NC. cbn in NC. rewrite ?orb_true_r in NC. discriminate.
      - rewrite <- (carries_flat l), <- (carries_flat r), <- (carries_explode b (flat l)), <- (carries_explode b (flat r)), <- (existsb_map carries_fx (explode b (flat l))), <- (existsb_map carries_fx (explode b (flat r))).
        rewrite map_app in U. apply eqb_true_iff. apply uniform_app_same; [| |exact U]; intros E; apply map_eq_nil in E; now apply flat_not_empty_run in E. }
    destruct b; try discriminate; cbn [valid]; now rewrite IHl, IHr, Ok.
  - assert (Vfl : validf (flat l) = true) by (apply (validf_of_explode b); [exact Vl|intros X; rewrite Hox in X; discriminate]).
    assert (Vfr : validf (flat r) = true) by (apply (validf_of_explode b); [exact Vr|intros X; rewrite Hox in X; discriminate]).
    assert (NCp : forall l0, corner b l0 = false) by (intros l0; unfold corner; now rewrite Hox).
    assert (Cl : corner_free (flat l) = true) by (apply (corner_free_of_explode b); [exact CFl|apply NCp]).
    assert (Cr : corner_free (flat r) = true) by (apply (corner_free_of_explode b); [exact CFr|apply NCp]).
    specialize (IHl Vfl Cl). specialize (IHr Vfr Cr).
    destruct b; try discriminate; cbn [valid]; now rewrite IHl, IHr.
Qed.

(* two trees with the same corner-free flattening are both valid or both invalid *)
Theorem validity_independent_of_runs (e e' : kexpr) : flat e = flat e' -> corner_free (flat e) = true -> valid e = valid e'.
Proof.
  intros F CF. destruct (valid e) eqn:V, (valid e') eqn:V'; try reflexivity; exfalso.
  - apply valid_implies_validf in V. rewrite F in V, CF. rewrite (validf_implies_valid e' V CF) in V'. discriminate.
  - apply valid_implies_validf in V'. rewrite <- F in V'. rewrite (validf_implies_valid e V' CF) in V. discriminate.
Qed.

(* the hypothesis is satisfiable by expressions with runs, and it excludes exactly the witness of C05_run_grouping_can_change_validity *)
Example corner_free_examples :
  corner_free (flat (EBin BOr (EBin BOr (EAtom [49%N]) (EAtom [50%N])) (EBin BAnd (EAtom [51%N]) (EAtom k501)))) = true /\
  corner_free (flat (EBin BOr (EBin BOr (EAtom k501) (EAtom k502)) (EBin BAnd (EAtom k901) (EAtom k502)))) = true /\
  corner_free (flat (EBin BOr (EBin BOr (EAtom k501) (EAtom k502)) (EAtom k901))) = false.
Proof. vm_compute. repeat split. Qed.
