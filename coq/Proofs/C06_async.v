(* is_valid_expression's evaluation loop under every schedule: the program of Model/ValidityAsync.v returns what the sequential loop of
   Model/Validity.v returns, whatever the order in which the evaluations for the single content evaluation results proceed, and every evaluation
   finds its OWN content evaluation result in the context. *)
From Ahb Require Import Model.Prelude Model.Grammar Model.EvalRC Model.EvalFC Model.EvalAhb Model.Keys Model.Validity Model.Async Model.ValidityAsync
  Model.Spec Proofs.C12_async Proofs.C06_validity.

(* the denotation of a program depends on the context only through the values of its variables *)
Section DenExt.
Variable V : Type.
Fixpoint den_ext (p : prog V) : forall c1 c2 : Async.ctx V, (forall x, c1 x = c2 x) -> den c1 p = den c2 p.
Proof.
  destruct p as [v|k|x k|x v k|ps k]; intros c1 c2 H; cbn [den].
  - reflexivity.
  - apply den_ext, H.
  - rewrite (H x). apply den_ext, H.
  - apply den_ext. intros y. unfold upd. destruct (Nat.eqb y x); [reflexivity|apply H].
  - assert (E : map (den c1) ps = map (den c2) ps).
    { induction ps as [|q qs IH]; [reflexivity|]. cbn [map]. f_equal; [apply den_ext, H|exact IH]. }
    rewrite E. apply den_ext, H.
Qed.
End DenExt.

Section Refine.
Variable U : Type.
Variable evalp : prog (vv U).
Notation valid_prog := (valid_prog U evalp).
Notation eval_of := (eval_of U evalp).

Theorem den_valid c gs : as_res (den c (valid_prog gs)) = try_all_gen (eval_of c) gs.
Proof.
  unfold ValidityAsync.valid_prog, try_all_gen. cbn [den as_res]. rewrite !map_map. reflexivity.
Qed.

Theorem valid_every_schedule c gs (r : vv U) :
  steps (initial c (valid_prog gs)) (Done r) -> as_res r = try_all_gen (eval_of c) gs.
Proof. intros H. apply schedule_independent in H. rewrite H. apply den_valid. Qed.

(* whatever the data variable of the caller's context (or of a sibling) holds is invisible: the evaluation for g sees g *)
Theorem eval_of_ignores_outer_data c v g : eval_of (upd c DATAV v) g = eval_of c g.
Proof.
  unfold ValidityAsync.eval_of. f_equal. apply den_ext. intros x. unfold upd. destruct (Nat.eqb x DATAV); reflexivity.
Qed.
End Refine.

(* with evaluations that answer from the stored content evaluation result the sequential model is try_all of Model/Validity.v *)
Theorem try_all_is_gen a gs : try_all a gs = try_all_gen (fun g => forget (eval_ahb g a)) (map cer_of gs).
Proof.
  unfold try_all_gen. induction gs as [|g t IH]; [reflexivity|]. cbn [try_all map first_failure].
  destruct (eval_ahb (cer_of g) a) as [r|e]; cbn [forget]; [exact IH|]. destruct e; reflexivity.
Qed.

(* hence: if evaluating the tree in a context whose data variable holds g behaves like eval_ahb g (the content-evaluation-result based evaluators),
   every schedule of the validity check returns the structural verdict of C06 *)
Theorem validity_check_every_schedule (U : Type) (evalp : prog (vv U)) (c : Async.ctx (vv U)) hs fcs rcs ps (r : vv U) :
  (forall g, eval_of U evalp c g = forget (eval_ahb g ps)) ->
  ps <> [] -> Forall (part_expr_ok hs fcs rcs) ps -> NoDup hs -> NoDup fcs -> NoDup rcs -> ~ In fc_dummy fcs -> ~ In rc_dummy rcs ->
  steps (initial c (valid_prog U evalp (map cer_of (generate hs fcs rcs)))) (Done r) -> as_res r = Ok (forallb part_valid ps).
Proof.
  intros Hev Hne Hok Hh Hf Hr Hfd Hrd Hs. apply valid_every_schedule in Hs. rewrite Hs.
  unfold try_all_gen. rewrite (map_ext _ _ Hev). fold (try_all_gen (fun g => forget (eval_ahb g ps)) (map cer_of (generate hs fcs rcs))).
  rewrite <- try_all_is_gen. apply validity_check_decides; assumption.
Qed.

(* the hypothesis is satisfiable: an evaluation that reads the stored result after suspending twice *)
Definition cer_based_evalp (U : Type) (ps : ahb) : prog (vv U) :=
  Yield (Yield (Get DATAV (fun v => Ret (VEv (match v with VCer g => forget (eval_ahb g ps) | _ => Exn OtherErr end))))).
Lemma cer_based_evalp_ok (U : Type) (ps : ahb) c g : eval_of U (cer_based_evalp U ps) c g = forget (eval_ahb g ps).
Proof. reflexivity. Qed.
