(* The collected format-constraint expression as TEXT: the string the builder writes is lexed, grouped and parsed by the
   parser model to (the flattening of) exactly the tree the builder means. Closes the chain builder -> string -> parser. *)
From Coq Require Import List Arith Lia Bool.
From Ahb Require Import Model.Prelude Model.Grammar Gen.Gen_grammar Model.Lex Model.EvalRC Model.EvalFC Model.Spec
  Proofs.Prec Proofs.Canon Proofs.C01_parse Proofs.C02_language Proofs.C01_lexprint Proofs.C01_print Proofs.C08_fc Proofs.C07_fc Proofs.C07_parse.

Definition digit_key (k : text) : Prop := nonempty k = true /\ all_digits k = true.

Fixpoint pt_item (x : fitem) : list ptok3 :=
  match x with
  | FK k => [([], PKey [] k [], [])]
  | FOp o => match op_of_char (lop_char o) with Some r => [([32%N], POp (lop_char o) r, [32%N])] | None => [] end
  | FG g => ([], PL, []) :: flat_map pt_item g ++ [([], PR, [])]
  end.
Definition pt_items (g : fctoks) : list ptok3 := flat_map pt_item g.
Definition tok3 (q : ptok3) : tok := tok_of (snd (fst q)).

Lemma render3_app a b : render3 (a ++ b) = render3 a ++ render3 b.
Proof. unfold render3. now rewrite map_app, concat_app. Qed.
Lemma ws32 : all_ws [32%N] = true. Proof. vm_compute. reflexivity. Qed.

Lemma pt_op o : exists r, op_of_char (lop_char o) = Some r /\ pt_item (FOp o) = [([32%N], POp (lop_char o) r, [32%N])] /\
  render_item (FOp o) = render3 (pt_item (FOp o)) /\ item_of (FOp o) = Some (IO r).
Proof. destruct o; eexists; repeat split; reflexivity. Qed.

Definition good_item (x : fitem) (t : kexpr) : Prop :=
  Forall digit_key (keys_of t) ->
  render_item x = render3 (pt_item x) /\ Forall ok3 (pt_item x) /\ exists i, item_of x = Some i /\ map tok3 (pt_item x) = untok i.
Definition good_items (g : fctoks) (t : kexpr) : Prop :=
  Forall digit_key (keys_of t) ->
  EvalRC.render g = render3 (pt_items g) /\ Forall ok3 (pt_items g) /\ exists its, items_of g = Some its /\ map tok3 (pt_items g) = untoks its.

Lemma built_text : (forall x t, TI x t -> good_item x t) /\ (forall g t, T g t -> good_items g t).
Proof.
  apply TI_T_ind.
  - intros k Hk. simpl in Hk. inversion Hk as [|? ? [Hn Hd] _]; subst. repeat split.
    + unfold render3. simpl. rewrite ?app_nil_r. reflexivity.
    + constructor; [|constructor]. unfold ok3. simpl. rewrite Hn, Hd. auto.
    + eexists. split; reflexivity.
  - intros g t _ IH Hk. destruct (IH Hk) as [E [Ok [its [Ei Et]]]]. repeat split.
    + simpl render_item. fold (EvalRC.render g). rewrite E. simpl pt_item. fold (pt_items g).
      change (([], PL, []) :: pt_items g ++ [([], PR, [])]) with ([([], PL, []) : ptok3] ++ pt_items g ++ [([], PR, [])]).
      rewrite !render3_app. reflexivity.
    + simpl pt_item. fold (pt_items g). constructor; [unfold ok3; simpl; auto|]. apply Forall_app. split; [exact Ok|].
      constructor; [unfold ok3; simpl; auto|constructor].
    + exists (IG its). split; [rewrite item_of_FG, Ei; reflexivity|].
      simpl pt_item. fold (pt_items g). simpl map. rewrite map_app, Et. reflexivity.
  - intros x t _ IH Hk. destruct (IH Hk) as [E [Ok [i [Ei Et]]]]. repeat split.
    + unfold EvalRC.render, pt_items. simpl. now rewrite !app_nil_r.
    + unfold pt_items. simpl. now rewrite app_nil_r.
    + exists [i]. split; [simpl; now rewrite Ei|]. unfold pt_items, untoks. simpl. now rewrite !app_nil_r.
  - intros a o b ta tb _ IHa _ IHb Hk. simpl in Hk. apply Forall_app in Hk. destruct Hk as [Ka Kb].
    destruct (IHa Ka) as [Ea [Oka [ia [Eia Eta]]]]. destruct (IHb Kb) as [Eb [Okb [ib [Eib Etb]]]].
    destruct (pt_op o) as [r [Er [Ep [Ero Eio]]]]. repeat split.
    + unfold EvalRC.render, pt_items. cbn [map concat flat_map]. rewrite !app_nil_r, !render3_app, Ea, Eb, Ero. reflexivity.
    + unfold pt_items. cbn [flat_map]. rewrite app_nil_r. apply Forall_app. split; [exact Oka|]. apply Forall_app. split; [|exact Okb].
      rewrite Ep. constructor; [|constructor]. unfold ok3. simpl fst. simpl snd. repeat split; try apply ws32.
      simpl. rewrite Er. unfold rule_eqb. apply Nat.eqb_refl.
    + exists [ia; IO r; ib]. split; [simpl; rewrite Eia, Eib, Er; reflexivity|].
      unfold pt_items, untoks. cbn [flat_map]. rewrite !app_nil_r, !map_app, Eta, Etb, Ep. reflexivity.
Qed.

Lemma S_GF n l e : Sc n l e -> GFc l e.
Proof. induction 1; [now apply GF_op|now apply GF_then|assumption|apply GF_atom|now apply GF_grp]. Qed.

(* the string the FormatConstraintExpressionBuilder hands to format_constraint_evaluation parses to the tree it means *)
Theorem built_text_parses g t : T g t -> Forall digit_key (keys_of t) -> parse_cond (EvalRC.render g) = Ok (flat (embed t)).
Proof.
  intros HT Hk. destruct (proj2 built_text g t HT Hk) as [E [Ok3 [its [Ei Et]]]].
  destruct (proj2 built_is_derivable g t HT) as [its' [Ei' HS]]. rewrite Ei in Ei'. inversion Ei'; subst its'.
  unfold parse_cond. rewrite E, (lex_render3 _ Ok3). fold tok3. rewrite Et, group_untoks.
  rewrite (GF_wf (S_GF _ _ _ HS)).
  unfold canonc. rewrite (@S_canon_bound 0 its (embed t) HS (canon_fuel its)) by (unfold canon_fuel; lia). reflexivity.
Qed.

(* end to end: the expression string reported by requirement_constraint_evaluation, handed to the parser as
   format_constraint_evaluation does, yields (modulo same-operator runs) the tree t that denotes the direct reading *)
Theorem reported_text_parses a rho e n : dom e = true -> valid e = true -> env_ok a rho e -> eval_rc rho e = Ok n ->
  Forall digit_key (keys_of e) ->
  match rd a e with
  | None => r_fcx (rc_result n) = None
  | Some fe => exists toks t, r_fcx (rc_result n) = Some toks /\ denotes t fe /\ parse_cond (EvalRC.render toks) = Ok (flat (embed t))
  end.
Proof.
  intros D V E H Hk. pose proof (reported_expression D V E H) as R. pose proof (@rd_keys a e D) as K.
  destruct (rd a e) as [fe|]; [|exact R]. destruct R as [toks [t [Rx [HT Hd]]]]. exists toks, t. repeat split; try assumption; try apply Hd.
  apply built_text_parses; [exact HT|]. destruct Hd as [_ Ek]. rewrite Ek. apply Forall_forall. intros k Hin.
  destruct (K fe eq_refl k Hin) as [Hin' _]. rewrite Forall_forall in Hk. now apply Hk.
Qed.

Example digit_key_example : digit_key [57; 48; 49]%N. Proof. split; reflexivity. Qed.

(* the key hypothesis holds for every expression the parser produced *)
From Ahb Require Import Proofs.C01_atoms.
Lemma eatoms_embed_keys e : eatoms (embed e) = map (fun k => AKey k) (keys_of e).
Proof. induction e as [k|b l IHl r IHr]; simpl; [reflexivity|]. now rewrite IHl, IHr, map_app. Qed.
Lemma parsed_keys_are_digit_keys l its (e : kexpr) :
  Forall (fun p : text * ptok => all_ws (fst p) = true /\ ptok_ok (snd p) = true) l ->
  group (map (fun p => tok_of (snd p)) l) = Some its -> Rc its (embed e) -> Forall digit_key (keys_of e).
Proof.
  intros Hl G R. pose proof (parsed_atoms_wf l its (embed e) Hl G R) as W. rewrite eatoms_embed_keys in W.
  apply Forall_forall. intros k Hin. rewrite Forall_forall in W. exact (W (AKey k) (in_map _ _ _ Hin)).
Qed.

Theorem reported_text_parses_for_parsed a rho e n l its :
  Forall (fun p : text * ptok => all_ws (fst p) = true /\ ptok_ok (snd p) = true) l ->
  group (map (fun p => tok_of (snd p)) l) = Some its -> Rc its (embed e) ->
  dom e = true -> valid e = true -> env_ok a rho e -> eval_rc rho e = Ok n ->
  match rd a e with
  | None => r_fcx (rc_result n) = None
  | Some fe => exists toks t, r_fcx (rc_result n) = Some toks /\ denotes t fe /\ parse_cond (EvalRC.render toks) = Ok (flat (embed t))
  end.
Proof. intros Hl G R D V E H. apply (reported_text_parses a rho e n D V E H). now apply (parsed_keys_are_digit_keys l its e Hl G R). Qed.
