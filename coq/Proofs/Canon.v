From Coq Require Import List Arith Lia Bool.
Import ListNotations.
From Ahb Require Import Model.Grammar.
Set Implicit Arguments.
From Ahb Require Import Proofs.Prec.

Section Canon.
Variable atom : Type.
Variable rule : Type.
Variable alias : rule -> op3.
Notation item := (item atom rule).
Notation expr := (expr atom).
Notation fx := (fx atom).
Notation lv := (lv alias).
Notation S := (@S atom rule alias).
Notation canon := (@canon atom rule alias).
Notation split_at := (@split_at atom rule alias).
Notation is_op_lvl := (@is_op_lvl atom rule alias).
Notation explode := (@explode atom).
Notation collect := (@collect atom).
Notation flat := (@flat atom).

Lemma binop_eqb_refl b : binop_eqb b b = true. Proof. now destruct b. Qed.
Lemma bop_of_lv r : bop_of_lvl (lv r) = bop (alias r).
Proof. unfold Grammar.lv. destruct (alias r); reflexivity. Qed.

Lemma canon_S f n l : canon (Datatypes.S f) n l =
    if n <=? 2 then
      match split_at n l with
      | [s] => canon f (n + 1) s
      | segs => option_map (collect (bop_of_lvl n)) (omapM (canon f (n + 1)) segs)
      end
    else if n =? 3 then
      match l with
      | [] => None
      | [x] => canon f 4 [x]
      | _ => option_map (collect BThen) (omapM (fun x => canon f 4 [x]) l)
      end
    else
      match l with
      | [IA a] => Some (FA a)
      | [IG g] => canon f 0 g
      | _ => None
      end.
Proof. reflexivity. Qed.
Lemma canon_0 n l : canon 0 n l = None. Proof. reflexivity. Qed.
Opaque Grammar.canon.

(* ---------- list lemmas ---------- *)
Lemma split_at_nonempty n l : split_at n l <> [].
Proof. destruct l as [|x t]; simpl; [discriminate|]. destruct (split_at n t); [discriminate|]. destruct (is_op_lvl n x); discriminate. Qed.

Lemma split_at_app_op n l1 r l2 : lv r = n -> split_at n (l1 ++ IO r :: l2) = split_at n l1 ++ split_at n l2.
Proof.
  intros Hr. induction l1 as [|x t IH]; simpl.
  - destruct (split_at n l2) eqn:E; [now apply split_at_nonempty in E|]. rewrite Hr, Nat.eqb_refl. reflexivity.
  - rewrite IH. destruct (split_at n t) eqn:E; [now apply split_at_nonempty in E|]. simpl. destruct (is_op_lvl n x); reflexivity.
Qed.

Lemma split_at_none n l : (forall x, In x l -> is_op_lvl n x = false) -> split_at n l = [l].
Proof.
  induction l as [|x t IH]; simpl; intros H; [reflexivity|].
  rewrite IH by (intros y Hy; apply H; now right). rewrite (H x) by now left. reflexivity.
Qed.

Lemma omapM_app {A B} (f : A -> option B) l1 l2 ys1 ys2 :
  omapM f l1 = Some ys1 -> omapM f l2 = Some ys2 -> omapM f (l1 ++ l2) = Some (ys1 ++ ys2).
Proof.
  revert ys1; induction l1 as [|x t IH]; simpl; intros ys1 H1 H2.
  - inversion H1; subst. exact H2.
  - destruct (f x); [|discriminate]. destruct (omapM f t) eqn:E; [|discriminate]. inversion H1; subst.
    rewrite (IH _ eq_refl H2). reflexivity.
Qed.

Lemma omapM_length {A B} (f : A -> option B) l ys : omapM f l = Some ys -> length ys = length l.
Proof.
  revert ys; induction l as [|x t IH]; simpl; intros ys H.
  - now inversion H.
  - destruct (f x); [|discriminate]. destruct (omapM f t); [|discriminate]. inversion H; subst. simpl. f_equal. now apply IH.
Qed.

Lemma explode_collect b args : explode b (collect b args) = concat (map (explode b) args).
Proof. unfold collect; simpl. now rewrite binop_eqb_refl. Qed.

(* ---------- what a successful canon at an operator level tells us ---------- *)
Lemma canon_args f n l x : n <= 2 -> canon (Datatypes.S f) n l = Some x ->
  exists args, omapM (canon f (n + 1)) (split_at n l) = Some args /\
               concat (map (explode (bop_of_lvl n)) args) = explode (bop_of_lvl n) x.
Proof.
  intros Hn H. rewrite canon_S in H. apply Nat.leb_le in Hn. rewrite Hn in H.
  destruct (split_at n l) as [|s [|s' ss]] eqn:E.
  - now apply split_at_nonempty in E.
  - exists [x]. cbn [omapM]. rewrite H. split; [reflexivity|]. cbn [map concat]. now rewrite app_nil_r.
  - destruct (omapM (canon f (n + 1)) (s :: s' :: ss)) as [args|] eqn:EM; [|cbn in H; discriminate].
    cbn [option_map] in H. inversion H; subst. exists args. split; [reflexivity|]. now rewrite explode_collect.
Qed.

Lemma canon_build f n l args : n <= 2 -> 2 <= length (split_at n l) ->
  omapM (canon f (n + 1)) (split_at n l) = Some args ->
  canon (Datatypes.S f) n l = Some (collect (bop_of_lvl n) args).
Proof.
  intros Hn Hlen HM. rewrite canon_S. apply Nat.leb_le in Hn. rewrite Hn.
  destruct (split_at n l) as [|s [|s' ss]] eqn:E; cbn [length] in Hlen; try lia.
  rewrite HM. reflexivity.
Qed.

(* same for the juxtaposition level *)
Lemma canon3_args f l x : canon (Datatypes.S f) 3 l = Some x ->
  exists args, omapM (fun y => canon f 4 [y]) l = Some args /\ l <> [] /\
               concat (map (explode BThen) args) = explode BThen x.
Proof.
  intros H. rewrite canon_S in H. cbn [Nat.leb Nat.eqb] in H. destruct l as [|a [|b t]]; [discriminate| |].
  - exists [x]. cbn [omapM]. rewrite H. split; [reflexivity|]. split; [discriminate|]. cbn [map concat]. now rewrite app_nil_r.
  - destruct (omapM (fun y => canon f 4 [y]) (a :: b :: t)) as [args|] eqn:EM; [|cbn in H; discriminate].
    cbn [option_map] in H. inversion H; subst. exists args. split; [reflexivity|]. split; [discriminate|]. now rewrite explode_collect.
Qed.

Lemma canon3_build f l args : 2 <= length l -> omapM (fun y => canon f 4 [y]) l = Some args ->
  canon (Datatypes.S f) 3 l = Some (collect BThen args).
Proof.
  intros Hlen HM. destruct l as [|a [|b t]]; cbn [length] in Hlen; try lia.
  rewrite canon_S. cbn [Nat.leb Nat.eqb]. rewrite HM. reflexivity.
Qed.

(* ---------- facts about S ---------- *)
Lemma S_ops_ge n l e : S n l e -> forall r, In (IO r) l -> n <= lv r.
Proof.
  induction 1 as [r l1 l2 e1 e2 H1 IH1 H2 IH2|l1 l2 e1 e2 H1 IH1 H2 IH2|n l e H IH|a|g e H IH]; intros r' Hin.
  - rewrite in_app_iff in Hin. destruct Hin as [Hin|[Hin|Hin]]; [now apply IH1| |now apply IH2]. inversion Hin; subst. lia.
  - rewrite in_app_iff in Hin. destruct Hin as [Hin|Hin]; [now apply IH1|now apply IH2].
  - specialize (IH _ Hin). lia.
  - destruct Hin as [Hin|[]]. discriminate.
  - destruct Hin as [Hin|[]]. discriminate.
Qed.

Lemma lv_le2 r : lv r <= 2. Proof. unfold Grammar.lv, lvl3; destruct (alias r); lia. Qed.

Lemma S_nonempty n l e : S n l e -> l <> [].
Proof. induction 1; try discriminate; auto; destruct l1; simpl; try discriminate; auto. Qed.

Lemma S4_single n l e : S n l e -> 4 <= n -> exists x, l = [x].
Proof.
  induction 1 as [r l1 l2 e1 e2 H1 IH1 H2 IH2|l1 l2 e1 e2 H1 IH1 H2 IH2|n l e H IH|a|g e H IH]; intros Hn.
  - pose proof (lv_le2 r); lia.
  - lia.
  - apply IH; lia.
  - eauto.
  - eauto.
Qed.

Lemma S_level_le4 n l e : S n l e -> n <= 4.
Proof. induction 1; try lia. Qed.

Lemma canon_mono f n l x : canon f n l = Some x -> forall f', f <= f' -> canon f' n l = Some x.
Proof.
  revert n l x. induction f as [|f IH]; intros n l x H f' Hle; [rewrite canon_0 in H; discriminate|].
  destruct f' as [|f']; [lia|]. assert (Hf : f <= f') by lia. clear Hle.
  assert (HM : forall (g : list item -> option fx) (g' : list item -> option fx) segs ys,
             (forall s y, g s = Some y -> g' s = Some y) -> omapM g segs = Some ys -> omapM g' segs = Some ys).
  { intros g g' segs. induction segs as [|s t IHs]; simpl; intros ys Hg HMs; [exact HMs|].
    destruct (g s) eqn:E1; [|discriminate]. destruct (omapM g t) eqn:E2; [|discriminate].
    rewrite (Hg _ _ E1). rewrite (IHs _ Hg eq_refl). exact HMs. }
  assert (HM2 : forall (g g' : item -> option fx) its ys,
             (forall s y, g s = Some y -> g' s = Some y) -> omapM g its = Some ys -> omapM g' its = Some ys).
  { intros g g' its. induction its as [|s t IHs]; simpl; intros ys Hg HMs; [exact HMs|].
    destruct (g s) eqn:E1; [|discriminate]. destruct (omapM g t) eqn:E2; [|discriminate].
    rewrite (Hg _ _ E1). rewrite (IHs _ Hg eq_refl). exact HMs. }
  rewrite canon_S in *. destruct (n <=? 2).
  - destruct (split_at n l) as [|s [|s' ss]].
    + cbn [omapM option_map] in *. exact H.
    + eapply IH; eauto.
    + destruct (omapM (canon f (n + 1)) (s :: s' :: ss)) as [ys|] eqn:E; [|discriminate].
      rewrite (HM (canon f (n+1)) (canon f' (n+1)) _ ys); auto; intros; eapply IH; eauto.
  - destruct (n =? 3).
    + destruct l as [|a [|b t]]; [discriminate| |].
      * eapply IH; eauto.
      * destruct (omapM (fun y => canon f 4 [y]) (a :: b :: t)) as [ys|] eqn:E; [|cbn in H; discriminate].
        rewrite (HM2 (fun y => canon f 4 [y]) (fun y => canon f' 4 [y]) _ ys); auto; intros; eapply IH; eauto.
    + destruct l as [|[a|r|g] [|? ?]]; try discriminate; auto; eapply IH; eauto.
Qed.

(* ---------- the main lemma: any stratified derivation is what canon computes, modulo runs ---------- *)
Theorem S_canon n l e : S n l e -> exists f0, forall f, f0 <= f -> canon f n l = Some (flat e).
Proof.
  induction 1 as [r l1 l2 e1 e2 H1 IH1 H2 IH2|l1 l2 e1 e2 H1 IH1 H2 IH2|n l e H IH|a|g e H IH].
  - destruct IH1 as [f1 IH1], IH2 as [f2 IH2]. exists (Datatypes.S (Datatypes.S (f1 + f2))). intros f Hf.
    destruct f as [|f]; [lia|].
    pose proof (lv_le2 r) as Hr.
    destruct (@canon_args f (lv r) l1 (flat e1) Hr (IH1 (Datatypes.S f) ltac:(lia))) as [a1 [M1 C1]].
    destruct (@canon_args f (lv r) l2 (flat e2) Hr (IH2 (Datatypes.S f) ltac:(lia))) as [a2 [M2 C2]].
    rewrite (@canon_build f (lv r) (l1 ++ IO r :: l2) (a1 ++ a2)); auto.
    + unfold collect. rewrite map_app, concat_app, C1, C2. simpl. now rewrite bop_of_lv.
    + rewrite split_at_app_op by reflexivity. rewrite app_length.
      pose proof (@split_at_nonempty (lv r) l1). pose proof (@split_at_nonempty (lv r) l2).
      destruct (split_at (lv r) l1); [congruence|]. destruct (split_at (lv r) l2); [congruence|]. simpl. lia.
    + rewrite split_at_app_op by reflexivity. now apply omapM_app.
  - destruct IH1 as [f1 IH1], IH2 as [f2 IH2]. exists (Datatypes.S (Datatypes.S (f1 + f2))). intros f Hf.
    destruct f as [|f]; [lia|].
    destruct (@canon3_args f l1 (flat e1) (IH1 (Datatypes.S f) ltac:(lia))) as [a1 [M1 [N1 C1]]].
    destruct (@canon3_args f l2 (flat e2) (IH2 (Datatypes.S f) ltac:(lia))) as [a2 [M2 [N2 C2]]].
    rewrite (@canon3_build f (l1 ++ l2) (a1 ++ a2)).
    + unfold collect. rewrite map_app, concat_app, C1, C2. reflexivity.
    + rewrite app_length. destruct l1; [congruence|]. destruct l2; [congruence|]. simpl. lia.
    + now apply omapM_app.
  - destruct IH as [f0 IH]. exists (Datatypes.S f0). intros f Hf. destruct f as [|f]; [lia|].
    pose proof (S_level_le4 H) as H4.
    destruct (le_lt_dec n 2) as [Hn|Hn].
    + rewrite canon_S. pose proof Hn as Hn'. apply Nat.leb_le in Hn'. rewrite Hn'.
      rewrite split_at_none.
      * replace (n + 1) with (Datatypes.S n) by lia. apply IH. lia.
      * intros x Hx. destruct x as [a|r|g]; simpl; auto. pose proof (S_ops_ge H _ Hx). apply Nat.eqb_neq. lia.
    + assert (n = 3) by lia. subst n. destruct (S4_single H) as [x Ex]; [lia|]. subst l.
      rewrite canon_S. cbn [Nat.leb Nat.eqb]. apply IH. lia.
  - exists 1. intros f Hf. destruct f as [|f]; [lia|]. rewrite canon_S. reflexivity.
  - destruct IH as [f0 IH]. exists (Datatypes.S f0). intros f Hf. destruct f as [|f]; [lia|]. rewrite canon_S. cbn [Nat.leb Nat.eqb]. apply IH. lia.
Qed.

Theorem unique_modulo_runs l e e' : S 0 l e -> S 0 l e' -> flat e = flat e'.
Proof.
  intros H1 H2. destruct (S_canon H1) as [f1 C1], (S_canon H2) as [f2 C2].
  pose proof (C1 (f1 + f2) ltac:(lia)) as A. pose proof (C2 (f1 + f2) ltac:(lia)) as B. congruence.
Qed.
End Canon.
