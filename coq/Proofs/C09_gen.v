(* Tie T for the selection loop of AhbExpressionTransformer._ahb_expression_async: executed by the translator on every list of 1..4 evaluated parts
   (fulfilled / unfulfilled / undetermined conditional parts and bare indicators; Gen/Gen_select.v, regenerated from /repo on every run) it reports what
   `select` of Model/EvalAhb.v reports: which part (its position travels as hint text), its requirement outcome and its conditional flag. Bounded
   domain -- a regenerated regression tie; the unbounded statement is C09_select. *)
From Ahb Require Import Model.Prelude Model.Grammar Gen.Gen_logic Gen.Gen_valmaps Gen.Gen_enums Model.EvalRC Model.EvalFC Model.EvalAhb Gen.Gen_select.

Definition digit (i : nat) : N := N.of_nat (48 + i).
Fixpoint mk_parts (i : nat) (l : list (option bool * option bool)) : list ahbres :=
  match l with
  | [] => []
  | (f, c) :: t =>
      {| a_ind := I_MUSS; a_rc := {| r_fulfilled := f; r_conditional := c; r_fcx := None; r_hints := Some [112%N; digit i] |}; a_fc := fc_ok |}
      :: mk_parts (Datatypes.S i) t
  end.
Definition obool_eqb (a b : option bool) : bool := option_eqb Bool.eqb a b.
Definition select_row_ok (row : list (option bool * option bool) * result (text * option bool * option bool)) : bool :=
  let '(ps, res) := row in
  match select (1 <? length ps) (mk_parts 0 ps), res with
  | Some r, Ok (h, f, c) => option_eqb text_eqb (r_hints (a_rc r)) (Some h) && obool_eqb (r_fulfilled (a_rc r)) f && obool_eqb (r_conditional (a_rc r)) c
  | None, Exn _ => true
  | _, _ => false
  end.

Lemma select_rows_ok : forallb select_row_ok select_rows = true.
Proof. vm_compute. reflexivity. Qed.
Lemma select_rows_complete : length select_rows = 340.
Proof. vm_compute. reflexivity. Qed.
