From Ahb Require Import Model.Prelude Model.Grammar Gen.Gen_logic Gen.Gen_valmaps Gen.Gen_enums Model.EvalRC Model.EvalFC Model.EvalAhb Model.Validate
  Proofs.C13_validate Proofs.C14_sim.
Set Implicit Arguments.

(* table facts: SOLL under the flag is MUSS resp. KANN; all other indicators ignore the flag *)
Lemma map_soll_true f b : map_rvv f I_SOLL true = map_rvv f I_MUSS b.
Proof. destruct f as [[|]|], b; reflexivity. Qed.
Lemma map_soll_false f b : map_rvv f I_SOLL false = map_rvv f I_KANN b.
Proof. destruct f as [[|]|], b; reflexivity. Qed.
Lemma map_other f i b b' : i <> I_SOLL -> map_rvv f i b = map_rvv f i b'.
Proof. intros H. destruct f as [[|]|], i, b, b'; try reflexivity; congruence. Qed.

Section Soll.
Variable nx : Type.
Variable ev : nx -> result ahbres.
Variable ir : nx -> text.
Variable m : indicator.
Variable flag : bool.
Hypothesis m_flag : (m = I_MUSS /\ flag = true) \/ (m = I_KANN /\ flag = false).
(* rw replaces every SOLL indicator of an expression by m; what that means for the evaluation of the expression: *)
Variable rw : nx -> nx.
Definition set_soll (r : ahbres) : ahbres :=
  if indicator_eqb (a_ind r) I_SOLL then {| a_ind := m; a_rc := a_rc r; a_fc := a_fc r |} else r.
Hypothesis ev_rw : forall x, ev (rw x) = match ev x with Ok r => Ok (set_soll r) | Exn e => Exn e end.
Hypothesis ir_rw : forall x, ir (rw x) = ir x.

Lemma set_soll_rc r : a_rc (set_soll r) = a_rc r /\ a_fc (set_soll r) = a_fc r.
Proof. unfold set_soll. destruct (indicator_eqb (a_ind r) I_SOLL); auto. Qed.

Lemma map_set_soll f r b : map_rvv f (a_ind r) flag = map_rvv f (a_ind (set_soll r)) b.
Proof.
  unfold set_soll. destruct (indicator_eqb (a_ind r) I_SOLL) eqn:E.
  - assert (a_ind r = I_SOLL) as -> by (destruct (a_ind r); simpl in E; congruence). simpl.
    destruct m_flag as [[-> ->]|[-> ->]]; [apply map_soll_true|apply map_soll_false].
  - apply map_other. intros Q. rewrite Q in E. discriminate.
Qed.

Lemma segment_level_rw x parent b :
  Validate.segment_level nx ev ir (rw x) parent b = Validate.segment_level nx ev ir x parent flag.
Proof.
  unfold Validate.segment_level. rewrite ev_rw, ir_rw. destruct (ev x) as [r|e]; [|reflexivity].
  destruct (set_soll_rc r) as [E1 E2]. rewrite E1. now rewrite <- (map_set_soll (r_fulfilled (a_rc r)) r b).
Qed.

Lemma freetext_rw d x i vt st b :
  Validate.validate_freetext nx ev ir d (rw x) i vt st b = Validate.validate_freetext nx ev ir d x i vt st flag.
Proof.
  unfold Validate.validate_freetext. rewrite ev_rw, ir_rw. destruct (ev x) as [r|e]; [|reflexivity].
  destruct (set_soll_rc r) as [E1 E2]. rewrite E1, E2. now rewrite <- (map_set_soll (r_fulfilled (a_rc r)) r b).
Qed.

Lemma pool_possible_rw pool : forall acc,
  Validate.pool_possible nx ev (map (fun p => (fst p, rw (snd p))) pool) acc = Validate.pool_possible nx ev pool acc.
Proof.
  induction pool as [|[[q mm] x] t IH]; intros acc; simpl; [reflexivity|].
  rewrite ev_rw. destruct (ev x) as [r|e]; simpl.
  - destruct (set_soll_rc r) as [E1 _]. rewrite E1. apply IH.
  - destruct e; simpl; auto.
Qed.

Lemma valuepool_rw d pool i st :
  Validate.validate_valuepool nx ev d (map (fun p => (fst p, rw (snd p))) pool) i st = Validate.validate_valuepool nx ev d pool i st.
Proof.
  unfold Validate.validate_valuepool.
  assert (E : (match map (fun p => (fst p, rw (snd p))) pool with [(q, mm, _)] => Ok [(q, mm)] | _ => Validate.pool_possible nx ev (map (fun p => (fst p, rw (snd p))) pool) [] end)
            = (match pool with [(q, mm, _)] => Ok [(q, mm)] | _ => Validate.pool_possible nx ev pool [] end)).
  { destruct pool as [|[[q mm] x] [|p2 t]]; try reflexivity. apply (pool_possible_rw ((q, mm, x) :: p2 :: t) []). }
  rewrite E. reflexivity.
Qed.

Definition rows_eq (a b : text * vres) : Prop := fst a = fst b /\ snd a = snd b.

Theorem soll_flag_is_rewriting n parent b :
  Validate.validate_node nx ev ir n parent flag = Validate.validate_node nx ev ir (g_node rw n) parent b.
Proof.
  pose proof (@sim_node nx ev ir rw flag b (fun _ => True) eq) as S.
  assert (Hown : forall x p, True -> rel_own (fun _ => True) eq (own_status ev ir x p flag) (own_status ev ir (rw x) p b)).
  { intros x p _. unfold own_status. destruct (match p with Some q => is_forbidden q | None => false end).
    - simpl. auto.
    - rewrite segment_level_rw. destruct (Validate.segment_level nx ev ir x p flag); simpl; auto. }
  assert (Hde : forall e st, True -> is_forbidden st = false ->
            rel_row eq (Validate.validate_de nx ev ir e st flag) (Validate.validate_de nx ev ir (g_de rw e) st b)).
  { intros e st _ _. destruct e as [d x i vt|d pool i]; simpl.
    - rewrite freetext_rw. destruct (Validate.validate_freetext nx ev ir d x i vt (Some st) flag); simpl; unfold Rrow; auto.
    - rewrite valuepool_rw. destruct (Validate.validate_valuepool nx ev d pool i st); simpl; unfold Rrow; auto. }
  specialize (S Hown Hde n parent I).
  destruct (Validate.validate_node nx ev ir n parent flag) as [xs|e1], (Validate.validate_node nx ev ir (g_node rw n) parent b) as [ys|e2];
    simpl in S; try contradiction; [|now subst].
  f_equal. induction S as [|[d1 r1] [d2 r2] xs ys [H1 H2] _ IH]; [reflexivity|]. simpl in H1, H2. now subst.
Qed.
End Soll.
