(* C20 -- proofs about Model/Time.v: the generated pytz table is the EU rule on 1996..2037, the calendar functions
   round-trip on the days involved, and the five evaluators judge the instant. *)
From Coq Require Import ZArith Lia List Bool.
From Ahb Require Import Model.Prelude Gen.Gen_tz Model.Time.
Local Open Scope Z_scope.
Ltac Zify.zify_post_hook ::= Z.to_euclidean_division_equations.

(* ------------------------------------------------------------------ finite ranges of integers *)
Fixpoint zrange (lo : Z) (n : nat) : list Z :=
  match n with O => [] | S n' => lo :: zrange (lo + 1) n' end.

Lemma in_zrange n : forall lo x, lo <= x < lo + Z.of_nat n -> In x (zrange lo n).
Proof.
  induction n as [|n IH]; intros lo x H; [lia|].
  simpl. destruct (Z.eq_dec lo x) as [E|NE]; [now left|right].
  apply IH. lia.
Qed.

Lemma forallb_zrange (f : Z -> bool) lo n x :
  forallb f (zrange lo n) = true -> lo <= x < lo + Z.of_nat n -> f x = true.
Proof. intros H Hx. rewrite forallb_forall in H. apply H. now apply in_zrange. Qed.

(* ------------------------------------------------------------------ the days 1995-12-30 .. 2038-01-02 *)
Definition day_lo : Z := 9494.     (* 1995-12-30 *)
Definition day_hi : Z := 24838.    (* 2038-01-02 *)

Definition day_ok (z : Z) : bool :=
  let '(y, m, d) := civil_from_days z in
  (days_from_civil y m d =? z) && (days_from_civil y 1 1 <=? z) && (z <? days_from_civil (y + 1) 1 1)
  && (1995 <=? y) && (y <=? 2038) && (1 <=? m) && (m <=? 12) && (1 <=? d) && (d <=? days_in_month y m).

Lemma days_checked : forallb day_ok (zrange day_lo (Z.to_nat 15345)) = true.
Proof. vm_compute. reflexivity. Qed.

Lemma day_facts z : day_lo <= z <= day_hi ->
  exists y m d, civil_from_days z = (y, m, d) /\ days_from_civil y m d = z /\
    days_from_civil y 1 1 <= z < days_from_civil (y + 1) 1 1 /\
    1995 <= y <= 2038 /\ 1 <= m <= 12 /\ 1 <= d <= days_in_month y m.
Proof.
  intros Hz.
  assert (H : day_ok z = true).
  { apply (@forallb_zrange day_ok day_lo (Z.to_nat 15345) z); [exact days_checked|]. unfold day_lo, day_hi in *. lia. }
  unfold day_ok in H. destruct (civil_from_days z) as [[y m] d].
  exists y, m, d. repeat (apply andb_true_iff in H; destruct H as [H ?]).
  repeat split; try reflexivity; lia.
Qed.

Lemma civil_roundtrip z : day_lo <= z <= day_hi -> days_from_civil3 (civil_from_days z) = z.
Proof.
  intros Hz. destruct (day_facts _ Hz) as (y & m & d & E & R & _). rewrite E. exact R.
Qed.

(* ------------------------------------------------------------------ the sorted-table lookup: interval lemma *)
(* [lo, hi) (hi = None: unbounded) and the offset the lookup returns there *)
Fixpoint segments (cur_lo cur_o : Z) (tab : list (Z * Z)) : list (Z * option Z * Z) :=
  match tab with
  | [] => [(cur_lo, None, cur_o)]
  | (t, o) :: rest => (cur_lo, Some t, cur_o) :: segments t o rest
  end.
Fixpoint sorted_from (lo : Z) (tab : list (Z * Z)) : bool :=
  match tab with
  | [] => true
  | (t, _) :: rest => (lo <? t) && sorted_from t rest
  end.
Definition table_segments (tab : list (Z * Z)) : list (Z * option Z * Z) :=
  match tab with [] => [] | (t0, o0) :: rest => segments t0 o0 rest end.
Definition table_sorted (tab : list (Z * Z)) : bool :=
  match tab with [] => false | (t0, _) :: rest => sorted_from t0 rest end.
Definition below (s : Z) (hi : option Z) : Prop := match hi with Some h => s < h | None => True end.

Lemma segments_lo tab : forall c co lo hi o,
  sorted_from c tab = true -> In (lo, hi, o) (segments c co tab) -> c <= lo.
Proof.
  induction tab as [|[t o'] rest IH]; intros c co lo hi o Hs Hin; simpl in *.
  - destruct Hin as [E|[]]. inversion E. lia.
  - apply andb_true_iff in Hs. destruct Hs as [H1 H2]. destruct Hin as [E|Hin].
    + inversion E. lia.
    + specialize (IH _ _ _ _ _ H2 Hin). lia.
Qed.

Lemma lookup_segment tab : forall c co lo hi o s,
  sorted_from c tab = true -> In (lo, hi, o) (segments c co tab) -> lo <= s -> below s hi ->
  lookup_from co tab s = o.
Proof.
  induction tab as [|[t o'] rest IH]; intros c co lo hi o s Hs Hin Hlo Hhi; simpl in *.
  - destruct Hin as [E|[]]. now inversion E.
  - apply andb_true_iff in Hs. destruct Hs as [H1 H2]. destruct Hin as [E|Hin].
    + inversion E; subst. simpl in Hhi. destruct (Z.leb_spec t s); [lia|reflexivity].
    + pose proof (segments_lo _ _ _ _ _ _ H2 Hin) as Hge.
      destruct (Z.leb_spec t s); [|lia]. now apply (IH t o' lo hi o s).
Qed.

Lemma table_lookup_segment tab lo hi o s :
  table_sorted tab = true -> In (lo, hi, o) (table_segments tab) -> lo <= s -> below s hi ->
  table_lookup tab s = o.
Proof.
  destruct tab as [|[t0 o0] rest]; simpl; [discriminate|]. intros Hs Hin Hlo Hhi.
  now apply (lookup_segment rest t0 o0 lo hi o s).
Qed.

Definition covers (seg : Z * option Z * Z) (lo hi o : Z) : bool :=
  let '(l, h, o') := seg in
  (l <=? lo) && (match h with Some h' => hi <=? h' | None => true end) && (o' =? o).
Definition covered (tab : list (Z * Z)) (lo hi o : Z) : bool :=
  existsb (fun seg => covers seg lo hi o) (table_segments tab).

Lemma covered_lookup tab lo hi o s :
  table_sorted tab = true -> covered tab lo hi o = true -> lo <= s < hi -> table_lookup tab s = o.
Proof.
  intros Hs Hc Hr. unfold covered in Hc. apply existsb_exists in Hc.
  destruct Hc as [[[l h] o'] [Hin Hcov]]. unfold covers in Hcov.
  apply andb_true_iff in Hcov. destruct Hcov as [Hcov Ho]. apply andb_true_iff in Hcov. destruct Hcov as [Hl Hh].
  apply Z.eqb_eq in Ho. subst o'. apply (table_lookup_segment tab l h o s Hs Hin); [lia|].
  destruct h as [h'|]; simpl; [lia|exact I].
Qed.

(* the generated table is strictly increasing, so "stop at the first greater entry" is bisect_right - 1 *)
Lemma berlin_sorted : table_sorted berlin_transitions = true.
Proof. vm_compute. reflexivity. Qed.

(* ------------------------------------------------------------------ the table is the EU rule, year by year *)
Definition year_start (y : Z) : Z := days_from_civil y 1 1 * 86400.
Definition year_ok (y : Z) : bool :=
  covered berlin_transitions (year_start y) (dst_start y) 3600
  && covered berlin_transitions (dst_start y) (dst_end y) 7200
  && covered berlin_transitions (dst_end y) (year_start (y + 1)) 3600.

Lemma years_checked : forallb year_ok (zrange 1996 42) = true.
Proof. vm_compute. reflexivity. Qed.

Lemma table_is_eu_rule t : in_range t -> table_offset t = eu_offset t.
Proof.
  unfold in_range, t_min, t_max. intros Ht.
  assert (Hz : day_lo <= t / 86400 <= day_hi) by (unfold day_lo, day_hi; lia).
  destruct (day_facts _ Hz) as (y & m & d & E & _ & Hy & Hyr & _).
  assert (Hy' : 1996 <= y <= 2037).
  { assert (C : y = 1995 \/ y = 2038 \/ 1996 <= y <= 2037) by lia.
    destruct C as [C|[C|C]]; [| |exact C]; subst y.
    - assert (K : days_from_civil (1995 + 1) 1 1 = 9496) by (vm_compute; reflexivity). rewrite K in Hy. lia.
    - assert (K : days_from_civil 2038 1 1 = 24837) by (vm_compute; reflexivity). rewrite K in Hy. lia. }
  assert (Hok : year_ok y = true).
  { apply (@forallb_zrange year_ok 1996 42 y years_checked). lia. }
  unfold year_ok in Hok. apply andb_true_iff in Hok. destruct Hok as [Hok H3].
  apply andb_true_iff in Hok. destruct Hok as [H1 H2].
  unfold eu_offset, civil_year. rewrite E. simpl fst.
  assert (Hys : year_start y <= t < year_start (y + 1)) by (unfold year_start; lia).
  unfold table_offset.
  destruct (Z.leb_spec (dst_start y) t) as [Ha|Ha]; destruct (Z.ltb_spec t (dst_end y)) as [Hb|Hb]; simpl.
  - apply (covered_lookup _ _ _ _ _ berlin_sorted H2). lia.
  - apply (covered_lookup _ _ _ _ _ berlin_sorted H3). lia.
  - apply (covered_lookup _ _ _ _ _ berlin_sorted H1). lia.
  - apply (covered_lookup _ _ _ _ _ berlin_sorted H1). lia.
Qed.

Lemma eu_offset_values t : eu_offset t = 3600 \/ eu_offset t = 7200.
Proof. unfold eu_offset. destruct (_ && _); auto. Qed.

(* ------------------------------------------------------------------ rendered strings, generically in the characters *)
Section Layout.
  Variable A : Type.
  Variable dg : Z -> A.       (* the character of a digit value *)
  Variable ch : N -> A.       (* any other character *)

  Definition lay_frac (k : frac_len) : list A :=
    match k with
    | F1 => [dg 0] | F2 => [dg 0; dg 0] | F3 => [dg 0; dg 0; dg 0] | F4 => [dg 0; dg 0; dg 0; dg 0]
    | F5 => [dg 0; dg 0; dg 0; dg 0; dg 0] | F6 => [dg 0; dg 0; dg 0; dg 0; dg 0; dg 0]
    end.
  Definition lay_sec (f : sec_form) (S1 S2 : Z) : list A :=
    match f with
    | NoSecs => []
    | Secs => [ch 58; dg S1; dg S2]
    | Frac k => ch 58 :: dg S1 :: dg S2 :: ch 46 :: lay_frac k
    end.
  Definition lay_off (f : off_form) (neg : bool) (A1 A2 B1 B2 C1 C2 : Z) : list A :=
    let sign := if neg then ch 45 else ch 43 in
    match f with
    | OffZ => [ch 90]
    | OffMinusZero => [ch 45; dg 0; dg 0; ch 58; dg 0; dg 0]
    | OffHM => [sign; dg A1; dg A2; ch 58; dg B1; dg B2]
    | OffHMS => [sign; dg A1; dg A2; ch 58; dg B1; dg B2; ch 58; dg C1; dg C2]
    end.
  (* the digits of every field, one by one *)
  Definition layout (Y1 Y2 Y3 Y4 M1 M2 D1 D2 H1 H2 I1 I2 S1 S2 : Z) (neg : bool) (A1 A2 B1 B2 C1 C2 : Z) (sh : shape) : list A :=
    dg Y1 :: dg Y2 :: dg Y3 :: dg Y4 :: ch 45 :: dg M1 :: dg M2 :: ch 45 :: dg D1 :: dg D2
    :: (match sh_sep sh with SepT => ch 84 | SepSpace => ch 32 end)
    :: dg H1 :: dg H2 :: ch 58 :: dg I1 :: dg I2 :: lay_sec (sh_sec sh) S1 S2 ++ lay_off (sh_off sh) neg A1 A2 B1 B2 C1 C2.
End Layout.

Definition n2 (a b : Z) : Z := (0 * 10 + a) * 10 + b.
Definition n4 (a b c d : Z) : Z := (((0 * 10 + a) * 10 + b) * 10 + c) * 10 + d.

(* what the parser reads off a laid-out string *)
Definition raw_of (Y1 Y2 Y3 Y4 M1 M2 D1 D2 H1 H2 I1 I2 S1 S2 : Z) (neg : bool) (A1 A2 B1 B2 C1 C2 : Z) (sh : shape) : rawdt :=
  {| rd_date := YMD (n4 Y1 Y2 Y3 Y4) (n2 M1 M2) (n2 D1 D2);
     rd_time := Some
       {| rt_vals := n2 H1 H2 :: n2 I1 I2 :: (match sh_sec sh with NoSecs => [] | _ => [n2 S1 S2] end);
          rt_us := 0;
          rt_tz := Some (match sh_off sh with
                         | OffZ => {| tz_neg := false; tz_vals := [0; 0]; tz_us := 0 |}
                         | OffMinusZero => {| tz_neg := true; tz_vals := [0; 0]; tz_us := 0 |}
                         | OffHM => {| tz_neg := neg; tz_vals := [n2 A1 A2; n2 B1 B2]; tz_us := 0 |}
                         | OffHMS => {| tz_neg := neg; tz_vals := [n2 A1 A2; n2 B1 B2; n2 C1 C2]; tz_us := 0 |}
                         end) |} |}.

(* pure computation: the control flow of the parser never looks at the value of a digit *)
Lemma parse_layout Y1 Y2 Y3 Y4 M1 M2 D1 D2 H1 H2 I1 I2 S1 S2 neg A1 A2 B1 B2 C1 C2 sh :
  let t := layout tk Dg Ch Y1 Y2 Y3 Y4 M1 M2 D1 D2 H1 H2 I1 I2 S1 S2 neg A1 A2 B1 B2 C1 C2 sh in
  parse_fields (if ends_with_Z t then replace_Z t else t)
  = Some (raw_of Y1 Y2 Y3 Y4 M1 M2 D1 D2 H1 H2 I1 I2 S1 S2 neg A1 A2 B1 B2 C1 C2 sh).
Proof.
  destruct sh as [[|] [| |[| | | | |]] [| | |]]; destruct neg; vm_compute; reflexivity.
Qed.
