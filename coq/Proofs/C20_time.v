(* C20 -- proofs about Model/Time.v: the generated pytz table is the EU rule on 1996..2037, the calendar functions
   round-trip on the days involved, and the five evaluators judge the instant. *)
From Coq Require Import ZArith Lia List Bool.
From Ahb Require Import Model.Prelude Gen.Gen_tz Model.Time.
Local Open Scope Z_scope.
Ltac Zify.zify_post_hook ::= Z.to_euclidean_division_equations.

(* ------------------------------------------------------------------ finite ranges of integers *)
Fixpoint zrange (lo : Z) (n : nat) : list Z :=
  match n with O => [] | S n' => lo :: zrange (lo + 1) n' end.

Lemma in_zrange n : forall lo x, lo <= x < lo + Z.of_nat n -> In x (zrange lo n).
Proof.
  induction n as [|n IH]; intros lo x H; [lia|].
  simpl. destruct (Z.eq_dec lo x) as [E|NE]; [now left|right].
  apply IH. lia.
Qed.

Lemma forallb_zrange (f : Z -> bool) lo n x :
  forallb f (zrange lo n) = true -> lo <= x < lo + Z.of_nat n -> f x = true.
Proof. intros H Hx. rewrite forallb_forall in H. apply H. now apply in_zrange. Qed.

(* ------------------------------------------------------------------ the days 1995-12-30 .. 2038-01-02 *)
Definition day_lo : Z := 9494.     (* 1995-12-30 *)
Definition day_hi : Z := 24838.    (* 2038-01-02 *)

Definition day_ok (z : Z) : bool :=
  let '(y, m, d) := civil_from_days z in
  (days_from_civil y m d =? z) && (days_from_civil y 1 1 <=? z) && (z <? days_from_civil (y + 1) 1 1)
  && (1995 <=? y) && (y <=? 2038) && (1 <=? m) && (m <=? 12) && (1 <=? d) && (d <=? days_in_month y m).

Lemma days_checked : forallb day_ok (zrange day_lo (Z.to_nat 15345)) = true.
Proof. vm_compute. reflexivity. Qed.

Lemma day_facts z : day_lo <= z <= day_hi ->
  exists y m d, civil_from_days z = (y, m, d) /\ days_from_civil y m d = z /\
    days_from_civil y 1 1 <= z < days_from_civil (y + 1) 1 1 /\
    1995 <= y <= 2038 /\ 1 <= m <= 12 /\ 1 <= d <= days_in_month y m.
Proof.
  intros Hz.
  assert (H : day_ok z = true).
  { apply (@forallb_zrange day_ok day_lo (Z.to_nat 15345) z); [exact days_checked|]. unfold day_lo, day_hi in *. lia. }
  unfold day_ok in H. destruct (civil_from_days z) as [[y m] d].
  exists y, m, d. repeat (apply andb_true_iff in H; destruct H as [H ?]).
  repeat split; try reflexivity; lia.
Qed.

Lemma civil_roundtrip z : day_lo <= z <= day_hi -> days_from_civil3 (civil_from_days z) = z.
Proof.
  intros Hz. destruct (day_facts _ Hz) as (y & m & d & E & R & _). rewrite E. exact R.
Qed.

(* ------------------------------------------------------------------ the sorted-table lookup: interval lemma *)
(* [lo, hi) (hi = None: unbounded) and the offset the lookup returns there *)
Fixpoint segments (cur_lo cur_o : Z) (tab : list (Z * Z)) : list (Z * option Z * Z) :=
  match tab with
  | [] => [(cur_lo, None, cur_o)]
  | (t, o) :: rest => (cur_lo, Some t, cur_o) :: segments t o rest
  end.
Fixpoint sorted_from (lo : Z) (tab : list (Z * Z)) : bool :=
  match tab with
  | [] => true
  | (t, _) :: rest => (lo <? t) && sorted_from t rest
  end.
Definition table_segments (tab : list (Z * Z)) : list (Z * option Z * Z) :=
  match tab with [] => [] | (t0, o0) :: rest => segments t0 o0 rest end.
Definition table_sorted (tab : list (Z * Z)) : bool :=
  match tab with [] => false | (t0, _) :: rest => sorted_from t0 rest end.
Definition below (s : Z) (hi : option Z) : Prop := match hi with Some h => s < h | None => True end.

Lemma segments_lo tab : forall c co lo hi o,
  sorted_from c tab = true -> In (lo, hi, o) (segments c co tab) -> c <= lo.
Proof.
  induction tab as [|[t o'] rest IH]; intros c co lo hi o Hs Hin; simpl in *.
  - destruct Hin as [E|[]]. inversion E. lia.
  - apply andb_true_iff in Hs. destruct Hs as [H1 H2]. destruct Hin as [E|Hin].
    + inversion E. lia.
    + specialize (IH _ _ _ _ _ H2 Hin). lia.
Qed.

Lemma lookup_segment tab : forall c co lo hi o s,
  sorted_from c tab = true -> In (lo, hi, o) (segments c co tab) -> lo <= s -> below s hi ->
  lookup_from co tab s = o.
Proof.
  induction tab as [|[t o'] rest IH]; intros c co lo hi o s Hs Hin Hlo Hhi; simpl in *.
  - destruct Hin as [E|[]]. now inversion E.
  - apply andb_true_iff in Hs. destruct Hs as [H1 H2]. destruct Hin as [E|Hin].
    + inversion E; subst. simpl in Hhi. destruct (Z.leb_spec t s); [lia|reflexivity].
    + pose proof (segments_lo _ _ _ _ _ _ H2 Hin) as Hge.
      destruct (Z.leb_spec t s); [|lia]. now apply (IH t o' lo hi o s).
Qed.

Lemma table_lookup_segment tab lo hi o s :
  table_sorted tab = true -> In (lo, hi, o) (table_segments tab) -> lo <= s -> below s hi ->
  table_lookup tab s = o.
Proof.
  destruct tab as [|[t0 o0] rest]; simpl; [discriminate|]. intros Hs Hin Hlo Hhi.
  now apply (lookup_segment rest t0 o0 lo hi o s).
Qed.

Definition covers (seg : Z * option Z * Z) (lo hi o : Z) : bool :=
  let '(l, h, o') := seg in
  (l <=? lo) && (match h with Some h' => hi <=? h' | None => true end) && (o' =? o).
Definition covered (tab : list (Z * Z)) (lo hi o : Z) : bool :=
  existsb (fun seg => covers seg lo hi o) (table_segments tab).

Lemma covered_lookup tab lo hi o s :
  table_sorted tab = true -> covered tab lo hi o = true -> lo <= s < hi -> table_lookup tab s = o.
Proof.
  intros Hs Hc Hr. unfold covered in Hc. apply existsb_exists in Hc.
  destruct Hc as [[[l h] o'] [Hin Hcov]]. unfold covers in Hcov.
  apply andb_true_iff in Hcov. destruct Hcov as [Hcov Ho]. apply andb_true_iff in Hcov. destruct Hcov as [Hl Hh].
  apply Z.eqb_eq in Ho. subst o'. apply (table_lookup_segment tab l h o s Hs Hin); [lia|].
  destruct h as [h'|]; simpl; [lia|exact I].
Qed.

(* the generated table is strictly increasing, so "stop at the first greater entry" is bisect_right - 1 *)
Lemma berlin_sorted : table_sorted berlin_transitions = true.
Proof. vm_compute. reflexivity. Qed.

(* ------------------------------------------------------------------ the table is the EU rule, year by year *)
Definition year_start (y : Z) : Z := days_from_civil y 1 1 * 86400.
Definition year_ok (y : Z) : bool :=
  covered berlin_transitions (year_start y) (dst_start y) 3600
  && covered berlin_transitions (dst_start y) (dst_end y) 7200
  && covered berlin_transitions (dst_end y) (year_start (y + 1)) 3600.

Lemma years_checked : forallb year_ok (zrange 1996 42) = true.
Proof. vm_compute. reflexivity. Qed.

Lemma table_is_eu_rule t : in_range t -> table_offset t = eu_offset t.
Proof.
  unfold in_range, t_min, t_max. intros Ht.
  assert (Hz : day_lo <= t / 86400 <= day_hi) by (unfold day_lo, day_hi; lia).
  destruct (day_facts _ Hz) as (y & m & d & E & _ & Hy & Hyr & _).
  assert (Hy' : 1996 <= y <= 2037).
  { assert (C : y = 1995 \/ y = 2038 \/ 1996 <= y <= 2037) by lia.
    destruct C as [C|[C|C]]; [| |exact C]; subst y.
    - assert (K : days_from_civil (1995 + 1) 1 1 = 9496) by (vm_compute; reflexivity). rewrite K in Hy. lia.
    - assert (K : days_from_civil 2038 1 1 = 24837) by (vm_compute; reflexivity). rewrite K in Hy. lia. }
  assert (Hok : year_ok y = true).
  { apply (@forallb_zrange year_ok 1996 42 y years_checked). lia. }
  unfold year_ok in Hok. apply andb_true_iff in Hok. destruct Hok as [Hok H3].
  apply andb_true_iff in Hok. destruct Hok as [H1 H2].
  unfold eu_offset, civil_year. rewrite E. simpl fst.
  assert (Hys : year_start y <= t < year_start (y + 1)) by (unfold year_start; lia).
  unfold table_offset.
  destruct (Z.leb_spec (dst_start y) t) as [Ha|Ha]; destruct (Z.ltb_spec t (dst_end y)) as [Hb|Hb]; simpl.
  - apply (covered_lookup _ _ _ _ _ berlin_sorted H2). lia.
  - apply (covered_lookup _ _ _ _ _ berlin_sorted H3). lia.
  - apply (covered_lookup _ _ _ _ _ berlin_sorted H1). lia.
  - apply (covered_lookup _ _ _ _ _ berlin_sorted H1). lia.
Qed.

Lemma eu_offset_values t : eu_offset t = 3600 \/ eu_offset t = 7200.
Proof. unfold eu_offset. destruct (_ && _); auto. Qed.

(* ------------------------------------------------------------------ rendered strings, generically in the characters *)
Section Layout.
  Variable A : Type.
  Variable dg : Z -> A.       (* the character of a digit value *)
  Variable ch : N -> A.       (* any other character *)

  Definition lay_frac (k : frac_len) : list A :=
    match k with
    | F1 => [dg 0] | F2 => [dg 0; dg 0] | F3 => [dg 0; dg 0; dg 0] | F4 => [dg 0; dg 0; dg 0; dg 0]
    | F5 => [dg 0; dg 0; dg 0; dg 0; dg 0] | F6 => [dg 0; dg 0; dg 0; dg 0; dg 0; dg 0]
    end.
  Definition lay_sec (f : sec_form) (S1 S2 : Z) : list A :=
    match f with
    | NoSecs => []
    | Secs => [ch 58; dg S1; dg S2]
    | Frac k => ch 58 :: dg S1 :: dg S2 :: ch 46 :: lay_frac k
    end.
  Definition lay_off (f : off_form) (neg : bool) (A1 A2 B1 B2 C1 C2 : Z) : list A :=
    let sign := if neg then ch 45 else ch 43 in
    match f with
    | OffZ => [ch 90]
    | OffMinusZero => [ch 45; dg 0; dg 0; ch 58; dg 0; dg 0]
    | OffHM => [sign; dg A1; dg A2; ch 58; dg B1; dg B2]
    | OffHMS => [sign; dg A1; dg A2; ch 58; dg B1; dg B2; ch 58; dg C1; dg C2]
    end.
  (* the digits of every field, one by one *)
  Definition layout (Y1 Y2 Y3 Y4 M1 M2 D1 D2 H1 H2 I1 I2 S1 S2 : Z) (neg : bool) (A1 A2 B1 B2 C1 C2 : Z) (sh : shape) : list A :=
    dg Y1 :: dg Y2 :: dg Y3 :: dg Y4 :: ch 45 :: dg M1 :: dg M2 :: ch 45 :: dg D1 :: dg D2
    :: (match sh_sep sh with SepT => ch 84 | SepSpace => ch 32 end)
    :: dg H1 :: dg H2 :: ch 58 :: dg I1 :: dg I2 :: lay_sec (sh_sec sh) S1 S2 ++ lay_off (sh_off sh) neg A1 A2 B1 B2 C1 C2.
End Layout.

Definition n2 (a b : Z) : Z := (0 * 10 + a) * 10 + b.
Definition n4 (a b c d : Z) : Z := (((0 * 10 + a) * 10 + b) * 10 + c) * 10 + d.

(* what the parser reads off a laid-out string *)
Definition raw_of (Y1 Y2 Y3 Y4 M1 M2 D1 D2 H1 H2 I1 I2 S1 S2 : Z) (neg : bool) (A1 A2 B1 B2 C1 C2 : Z) (sh : shape) : rawdt :=
  {| rd_date := YMD (n4 Y1 Y2 Y3 Y4) (n2 M1 M2) (n2 D1 D2);
     rd_time := Some
       {| rt_vals := n2 H1 H2 :: n2 I1 I2 :: (match sh_sec sh with NoSecs => [] | _ => [n2 S1 S2] end);
          rt_us := 0;
          rt_tz := Some (match sh_off sh with
                         | OffZ => {| tz_neg := false; tz_vals := [0; 0]; tz_us := 0 |}
                         | OffMinusZero => {| tz_neg := true; tz_vals := [0; 0]; tz_us := 0 |}
                         | OffHM => {| tz_neg := neg; tz_vals := [n2 A1 A2; n2 B1 B2]; tz_us := 0 |}
                         | OffHMS => {| tz_neg := neg; tz_vals := [n2 A1 A2; n2 B1 B2; n2 C1 C2]; tz_us := 0 |}
                         end) |} |}.

(* pure computation: the control flow of the parser never looks at the value of a digit *)
Lemma parse_layout Y1 Y2 Y3 Y4 M1 M2 D1 D2 H1 H2 I1 I2 S1 S2 neg A1 A2 B1 B2 C1 C2 sh :
  let t := layout tk Dg Ch Y1 Y2 Y3 Y4 M1 M2 D1 D2 H1 H2 I1 I2 S1 S2 neg A1 A2 B1 B2 C1 C2 sh in
  parse_fields (if ends_with_Z t then replace_Z t else t)
  = Some (raw_of Y1 Y2 Y3 Y4 M1 M2 D1 D2 H1 H2 I1 I2 S1 S2 neg A1 A2 B1 B2 C1 C2 sh).
Proof.
  destruct sh as [[|] [| |[| | | | |]] [| | |]]; destruct neg; cbv -[Z.add Z.mul]; reflexivity.
Qed.

(* ------------------------------------------------------------------ from the rendered text to the laid-out tokens *)
Definition is_d (v : Z) : Prop := 0 <= v <= 9.

Lemma classify_dch v : is_d v -> classify (dch v) = Dg v.
Proof.
  unfold is_d. intros H.
  assert (C : v = 0 \/ v = 1 \/ v = 2 \/ v = 3 \/ v = 4 \/ v = 5 \/ v = 6 \/ v = 7 \/ v = 8 \/ v = 9) by lia.
  repeat (destruct C as [C|C]; [subst v; reflexivity|]). subst v; reflexivity.
Qed.

Lemma n2_digits n : n2 (n / 10) (n mod 10) = n.
Proof. unfold n2. lia. Qed.
Lemma n4_digits n : n4 (n / 1000) ((n / 100) mod 10) ((n / 10) mod 10) (n mod 10) = n.
Proof. unfold n4. lia. Qed.

Definition idN (c : N) : N := c.

Lemma classify_layout Y1 Y2 Y3 Y4 M1 M2 D1 D2 H1 H2 I1 I2 S1 S2 neg A1 A2 B1 B2 C1 C2 sh :
  is_d Y1 -> is_d Y2 -> is_d Y3 -> is_d Y4 -> is_d M1 -> is_d M2 -> is_d D1 -> is_d D2 ->
  is_d H1 -> is_d H2 -> is_d I1 -> is_d I2 -> is_d S1 -> is_d S2 ->
  is_d A1 -> is_d A2 -> is_d B1 -> is_d B2 -> is_d C1 -> is_d C2 ->
  map classify (layout N dch idN Y1 Y2 Y3 Y4 M1 M2 D1 D2 H1 H2 I1 I2 S1 S2 neg A1 A2 B1 B2 C1 C2 sh)
  = layout tk Dg Ch Y1 Y2 Y3 Y4 M1 M2 D1 D2 H1 H2 I1 I2 S1 S2 neg A1 A2 B1 B2 C1 C2 sh.
Proof.
  intros. assert (Z0 : is_d 0) by (unfold is_d; lia).
  destruct sh as [[|] [| |[| | | | |]] [| | |]]; destruct neg;
    unfold layout, lay_sec, lay_off, lay_frac; cbn [map app sh_sep sh_sec sh_off];
    rewrite ?classify_dch by assumption; reflexivity.
Qed.

(* the digits of the fields of [render] *)
Definition lay_of (A : Type) (dg : Z -> A) (ch : N -> A) (Y M D hh mi ss o : Z) (sh : shape) : list A :=
  let a := Z.abs o in
  layout A dg ch (Y / 1000) ((Y / 100) mod 10) ((Y / 10) mod 10) (Y mod 10) (M / 10) (M mod 10) (D / 10) (D mod 10)
    (hh / 10) (hh mod 10) (mi / 10) (mi mod 10) (ss / 10) (ss mod 10) (o <? 0)
    (a / 3600 / 10) ((a / 3600) mod 10) ((a / 60) mod 60 / 10) (((a / 60) mod 60) mod 10) ((a mod 60) / 10) ((a mod 60) mod 10) sh.

Lemma render_layout t o sh Y M D : civil_from_days ((t + o) / 86400) = (Y, M, D) ->
  render t o sh
  = lay_of N dch idN Y M D ((t + o) mod 86400 / 3600) (((t + o) mod 86400 / 60) mod 60) (((t + o) mod 86400) mod 60) o sh.
Proof.
  intros E. unfold render. rewrite E.
  destruct sh as [[|] [| |[| | | | |]] [| | |]]; reflexivity.
Qed.

(* ------------------------------------------------------------------ building the datetime *)
Lemma build_ymd y m d vals us tzr off :
  date_ok y m d = true -> time_ok (nthz vals 0) (nthz vals 1) (nthz vals 2) us = true -> tz_offset_us tzr = Some off ->
  build {| rd_date := YMD y m d; rd_time := Some {| rt_vals := vals; rt_us := us; rt_tz := Some tzr |} |}
  = Some {| dt_y := y; dt_mo := m; dt_d := d; dt_h := nthz vals 0; dt_mi := nthz vals 1; dt_s := nthz vals 2;
            dt_us := us; dt_off := Some off |}.
Proof.
  intros H1 H2 H3. unfold build. cbn [resolve_date rd_date rd_time rt_vals rt_us rt_tz].
  rewrite H3. cbn [option_map]. rewrite H1, H2. reflexivity.
Qed.

Lemma tz_offset_written (neg : bool) (vals : list Z) (o : Z) :
  (if neg then -1 else 1) * (nthz vals 0 * 3600 + nthz vals 1 * 60 + nthz vals 2) = o -> -86400 < o < 86400 ->
  tz_offset_us {| tz_neg := neg; tz_vals := vals; tz_us := 0 |} = Some (o * us_per_s).
Proof.
  intros Hs Ho. unfold tz_offset_us. cbn [tz_neg tz_vals tz_us]. rewrite Hs.
  destruct (Z.eqb_spec o 0) as [E|NE]; [rewrite E; reflexivity|].
  unfold us_per_s.
  destruct (Z.ltb_spec (- (86400 * 1000000)) (o * 1000000 + (if neg then -1 else 1) * 0)) as [L1|L1];
    destruct (Z.ltb_spec (o * 1000000 + (if neg then -1 else 1) * 0) (86400 * 1000000)) as [L2|L2];
    cbn [andb]; destruct neg; try lia; f_equal; lia.
Qed.

Lemma date_ok_intro y m d : 1 <= y <= 9999 -> 1 <= m <= 12 -> 1 <= d <= days_in_month y m -> date_ok y m d = true.
Proof.
  intros Hy Hm Hd. unfold date_ok. repeat (apply andb_true_iff; split); apply Z.leb_le; lia.
Qed.
Lemma time_ok_intro h mi s : 0 <= h <= 23 -> 0 <= mi <= 59 -> 0 <= s <= 59 -> time_ok h mi s 0 = true.
Proof.
  intros Hh Hm Hs. unfold time_ok. repeat (apply andb_true_iff; split); apply Z.leb_le; lia.
Qed.

Definition pad_body (s : text) : parsed :=
  let t := map classify s in
  let t := if ends_with_Z t then replace_Z t else t in
  match fromisoformat t with
  | None => PErr
  | Some d => match dt_off d with None => PErr | Some o => PDate d o end
  end.
Lemma pad_nonempty s : s <> [] -> parse_as_datetime s = pad_body s.
Proof. destruct s; [congruence|reflexivity]. Qed.

(* the datetime a rendered string denotes *)
Definition dt_of (Y M D tod o : Z) : dt :=
  {| dt_y := Y; dt_mo := M; dt_d := D; dt_h := tod / 3600; dt_mi := (tod / 60) mod 60; dt_s := tod mod 60; dt_us := 0;
     dt_off := Some (o * us_per_s) |}.

Lemma parse_rendered t o sh Y M D :
  -86400 < o < 86400 -> shape_ok sh t o ->
  civil_from_days ((t + o) / 86400) = (Y, M, D) ->
  1 <= Y <= 9999 -> 1 <= M <= 12 -> 1 <= D <= days_in_month Y M ->
  parse_as_datetime (render t o sh) = PDate (dt_of Y M D ((t + o) mod 86400) o) (o * us_per_s).
Proof.
  intros Ho (Hsec & HZ & HmZ & HHM) E HY HM HD.
  rewrite (render_layout t o sh Y M D E).
  set (tod := (t + o) mod 86400). assert (Htod : 0 <= tod < 86400) by (subst tod; lia).
  assert (HD' : 1 <= D <= 31).
  { unfold days_in_month in HD. destruct (M =? 2); [destruct (is_leap Y)|destruct (_ || _)]; lia. }
  rewrite pad_nonempty by (unfold lay_of, layout; discriminate).
  unfold pad_body, lay_of.
  rewrite classify_layout by (unfold is_d; lia).
  cbv zeta.
  match goal with |- context [fromisoformat (if ends_with_Z ?x then replace_Z ?x else ?x)] =>
    unfold fromisoformat;
    match x with layout tk Dg Ch ?a1 ?a2 ?a3 ?a4 ?a5 ?a6 ?a7 ?a8 ?a9 ?a10 ?a11 ?a12 ?a13 ?a14 ?a15 ?a16 ?a17 ?a18 ?a19 ?a20 ?a21 ?a22 =>
      pose proof (parse_layout a1 a2 a3 a4 a5 a6 a7 a8 a9 a10 a11 a12 a13 a14 a15 a16 a17 a18 a19 a20 a21 a22) as P
    end
  end.
  cbv zeta in P. rewrite P. clear P.
  unfold raw_of. rewrite !n2_digits, n4_digits.
  set (vals := tod / 3600 :: (tod / 60) mod 60 :: match sh_sec sh with NoSecs => [] | _ => [tod mod 60] end).
  assert (V0 : nthz vals 0 = tod / 3600) by reflexivity.
  assert (V1 : nthz vals 1 = (tod / 60) mod 60) by reflexivity.
  assert (V2 : nthz vals 2 = tod mod 60).
  { subst vals. destruct (sh_sec sh) eqn:Es; try reflexivity. unfold nthz; cbn [nth]. specialize (Hsec eq_refl). subst tod. lia. }
  assert (TZ : tz_offset_us
                 match sh_off sh with
                 | OffZ => {| tz_neg := false; tz_vals := [0; 0]; tz_us := 0 |}
                 | OffMinusZero => {| tz_neg := true; tz_vals := [0; 0]; tz_us := 0 |}
                 | OffHM => {| tz_neg := o <? 0; tz_vals := [Z.abs o / 3600; (Z.abs o / 60) mod 60]; tz_us := 0 |}
                 | OffHMS => {| tz_neg := o <? 0; tz_vals := [Z.abs o / 3600; (Z.abs o / 60) mod 60; Z.abs o mod 60]; tz_us := 0 |}
                 end = Some (o * us_per_s)).
  { destruct (sh_off sh) eqn:Eo.
    - rewrite (HZ eq_refl). reflexivity.
    - rewrite (HmZ eq_refl). reflexivity.
    - specialize (HHM eq_refl). apply tz_offset_written; [|exact Ho]. unfold nthz; cbn [nth].
      destruct (Z.ltb_spec o 0); lia.
    - apply tz_offset_written; [|exact Ho]. unfold nthz; cbn [nth]. destruct (Z.ltb_spec o 0); lia. }
  rewrite (build_ymd Y M D vals 0 _ _ (date_ok_intro Y M D HY HM HD)
             ltac:(rewrite V0, V1, V2; apply time_ok_intro; lia) TZ).
  rewrite V0, V1, V2. reflexivity.
Qed.

(* ------------------------------------------------------------------ astimezone(berlin) on a rendered instant *)
Lemma min_max_us : min_us = -62135596800000000 /\ max_us = 253402300800000000.
Proof. split; vm_compute; reflexivity. Qed.

Lemma in_dt_range_near t off : in_range t -> 0 <= off <= 7200 -> in_dt_range ((t + off) * us_per_s) = true.
Proof.
  unfold in_range, t_min, t_max, in_dt_range. destruct min_max_us as [-> ->]. unfold us_per_s. intros Ht Ho.
  apply andb_true_iff; split; [apply Z.leb_le|apply Z.ltb_lt]; lia.
Qed.

Lemma local_us_of Y M D tod o l :
  days_from_civil Y M D = l / 86400 -> tod = l mod 86400 -> local_us (dt_of Y M D tod o) = l * us_per_s.
Proof.
  intros Hd Ht. unfold local_us, dt_of. cbn [dt_y dt_mo dt_d dt_h dt_mi dt_s dt_us]. rewrite Hd. unfold us_per_s. lia.
Qed.

Lemma to_berlin_rendered t o Y M D :
  in_range t -> days_from_civil Y M D = (t + o) / 86400 ->
  to_berlin (dt_of Y M D ((t + o) mod 86400) o) (o * us_per_s) = Ok ((t + eu_offset t) * us_per_s).
Proof.
  intros Ht Hd. unfold to_berlin. rewrite (local_us_of Y M D _ o (t + o) Hd eq_refl).
  replace ((t + o) * us_per_s - o * us_per_s) with ((t + 0) * us_per_s) by (unfold us_per_s; lia).
  rewrite (in_dt_range_near t 0 Ht) by lia. cbn [negb].
  replace ((t + 0) * us_per_s / us_per_s) with t by (unfold us_per_s; lia).
  rewrite (table_is_eu_rule t Ht).
  replace ((t + 0) * us_per_s + eu_offset t * us_per_s) with ((t + eu_offset t) * us_per_s) by (unfold us_per_s; lia).
  rewrite (in_dt_range_near t (eu_offset t) Ht) by (destruct (eu_offset_values t) as [-> | ->]; lia).
  reflexivity.
Qed.

Lemma hms_is_tod tod k : 0 <= tod < 86400 -> 0 <= k < 24 ->
  ((tod / 3600 =? k) && ((tod / 60) mod 60 =? 0) && (tod mod 60 =? 0)) = (tod =? k * 3600).
Proof.
  intros Ht Hk.
  destruct (Z.eqb_spec (tod / 3600) k); destruct (Z.eqb_spec ((tod / 60) mod 60) 0); destruct (Z.eqb_spec (tod mod 60) 0);
    destruct (Z.eqb_spec tod (k * 3600)); cbn [andb]; try reflexivity; exfalso; lia.
Qed.

Lemma limits_rendered t o Y M D :
  in_range t -> days_from_civil Y M D = (t + o) / 86400 ->
  let d := dt_of Y M D ((t + o) mod 86400) o in
  is_stromtag_limit d (o * us_per_s) = Ok ((t + eu_offset t) mod 86400 =? 0) /\
  is_gastag_limit d (o * us_per_s) = Ok ((t + eu_offset t) mod 86400 =? 21600).
Proof.
  intros Ht Hd d. unfold is_stromtag_limit, is_gastag_limit, german_local_time. subst d.
  rewrite (to_berlin_rendered t o Y M D Ht Hd). cbn [bind].
  replace ((t + eu_offset t) * us_per_s / us_per_s) with (t + eu_offset t) by (unfold us_per_s; lia).
  set (tod := (t + eu_offset t) mod 86400). assert (Htod : 0 <= tod < 86400) by (subst tod; lia).
  split; f_equal.
  - apply (hms_is_tod tod 0 Htod). lia.
  - apply (hms_is_tod tod 6 Htod). lia.
Qed.

(* ------------------------------------------------------------------ the theorems of C20 *)
Lemma rendered_date_facts t o : in_range t -> -86400 < o < 86400 ->
  exists Y M D, civil_from_days ((t + o) / 86400) = (Y, M, D) /\ days_from_civil Y M D = (t + o) / 86400 /\
    1 <= Y <= 9999 /\ 1 <= M <= 12 /\ 1 <= D <= days_in_month Y M.
Proof.
  unfold in_range, t_min, t_max. intros Ht Ho.
  assert (Hz : day_lo <= (t + o) / 86400 <= day_hi) by (unfold day_lo, day_hi; lia).
  destruct (day_facts _ Hz) as (Y & M & D & E & R & _ & HY & HM & HD).
  exists Y, M, D. repeat split; try assumption; lia.
Qed.

Lemma strom_gas t o sh : in_range t -> -86400 < o < 86400 -> shape_ok sh t o ->
  eval_932 (render t o sh) = Ok (verdict_of ((t + eu_offset t) mod 86400 =? 0)) /\
  eval_933 (render t o sh) = Ok (verdict_of ((t + eu_offset t) mod 86400 =? 0)) /\
  eval_934 (render t o sh) = Ok (verdict_of ((t + eu_offset t) mod 86400 =? 21600)) /\
  eval_935 (render t o sh) = Ok (verdict_of ((t + eu_offset t) mod 86400 =? 21600)).
Proof.
  intros Ht Ho Hsh.
  destruct (rendered_date_facts t o Ht Ho) as (Y & M & D & E & R & HY & HM & HD).
  pose proof (parse_rendered t o sh Y M D Ho Hsh E HY HM HD) as P.
  destruct (limits_rendered t o Y M D Ht R) as [LS LG].
  unfold eval_932, eval_933, eval_934, eval_935, is_xtag_limit. rewrite P, LS, LG. repeat split.
Qed.

Lemma offset_invariant t o1 o2 sh1 sh2 : in_range t ->
  -86400 < o1 < 86400 -> -86400 < o2 < 86400 -> shape_ok sh1 t o1 -> shape_ok sh2 t o2 ->
  eval_932 (render t o1 sh1) = eval_932 (render t o2 sh2) /\ eval_933 (render t o1 sh1) = eval_933 (render t o2 sh2) /\
  eval_934 (render t o1 sh1) = eval_934 (render t o2 sh2) /\ eval_935 (render t o1 sh1) = eval_935 (render t o2 sh2).
Proof.
  intros Ht H1 H2 S1 S2.
  destruct (strom_gas t o1 sh1 Ht H1 S1) as (A1 & A2 & A3 & A4).
  destruct (strom_gas t o2 sh2 Ht H2 S2) as (B1 & B2 & B3 & B4).
  rewrite A1, A2, A3, A4, B1, B2, B3, B4. repeat split.
Qed.

Lemma zero_offset t o sh : in_range t -> -86400 < o < 86400 -> shape_ok sh t o ->
  eval_931 (render t o sh) = Ok (verdict_of (o =? 0)).
Proof.
  intros Ht Ho Hsh.
  destruct (rendered_date_facts t o Ht Ho) as (Y & M & D & E & R & HY & HM & HD).
  unfold eval_931, has_no_utc_offset. rewrite (parse_rendered t o sh Y M D Ho Hsh E HY HM HD).
  do 2 f_equal. unfold us_per_s. destruct (Z.eqb_spec o 0); destruct (Z.eqb_spec (o * 1000000) 0); try reflexivity; lia.
Qed.

(* any string that is not parsed as an aware datetime: unfulfilled, with a message, by all five *)
Lemma other_strings s : parse_as_datetime s = PErr ->
  eval_931 s = Ok unfulfilled_v /\ eval_932 s = Ok unfulfilled_v /\ eval_933 s = Ok unfulfilled_v /\
  eval_934 s = Ok unfulfilled_v /\ eval_935 s = Ok unfulfilled_v.
Proof.
  intros H. unfold eval_931, eval_932, eval_933, eval_934, eval_935, has_no_utc_offset, is_xtag_limit. rewrite H.
  repeat split.
Qed.

(* when that is the case: the empty string, a ValueError of fromisoformat, or a naive datetime *)
Lemma parse_err_cases s : parse_as_datetime s = PErr <->
  s = [] \/ fromisoformat (let t := map classify s in if ends_with_Z t then replace_Z t else t) = None
  \/ exists d, fromisoformat (let t := map classify s in if ends_with_Z t then replace_Z t else t) = Some d /\ dt_off d = None.
Proof.
  destruct s as [|c s]; [split; auto|].
  rewrite pad_nonempty by discriminate. unfold pad_body. cbv zeta.
  destruct (fromisoformat _) as [d|] eqn:F.
  - destruct (dt_off d) eqn:O; split.
    + discriminate.
    + intros [H|[H|(d' & H1 & H2)]]; try discriminate. inversion H1; subst d'. congruence.
    + intros _. right; right. now exists d.
    + reflexivity.
  - split; auto.
Qed.

Lemma to_berlin_exn d off e : to_berlin d off = Exn e -> e = Overflow.
Proof.
  unfold to_berlin. destruct (negb _); [intros H; now inversion H|].
  destruct (negb _); intros H; now inversion H.
Qed.

Lemma xtag_never_raises s dv : is_xtag_limit s dv = Ok fulfilled_v \/ is_xtag_limit s dv = Ok unfulfilled_v.
Proof.
  unfold is_xtag_limit. destruct (parse_as_datetime s) as [|d o]; [now right|].
  assert (K : forall r : result bool, (forall e, r = Exn e -> e = Overflow) ->
              match r with Ok b => Ok (verdict_of b) | Exn Overflow => Ok unfulfilled_v | Exn e => Exn e end = Ok fulfilled_v
              \/ match r with Ok b => Ok (verdict_of b) | Exn Overflow => Ok unfulfilled_v | Exn e => Exn e end = Ok unfulfilled_v).
  { intros [b|e] He; [destruct b; auto|]. rewrite (He e eq_refl). now right. }
  destruct dv; apply K; intros e; unfold is_stromtag_limit, is_gastag_limit, german_local_time;
    destruct (to_berlin d o) as [bl|e'] eqn:T; cbn [bind]; try (destruct (_ , _) ; discriminate);
    intros H; inversion H; subst; now apply (to_berlin_exn d o).
Qed.

Lemma never_raises s k : In k fc_keys ->
  eval_93x k s = Ok fulfilled_v \/ eval_93x k s = Ok unfulfilled_v.
Proof.
  unfold fc_keys. intros [H|[H|[H|[H|[H|[]]]]]]; subst k; cbn [eval_93x N.eqb Pos.eqb];
    unfold eval_931, eval_932, eval_933, eval_934, eval_935; try apply xtag_never_raises.
  unfold has_no_utc_offset. destruct (parse_as_datetime s) as [|d o]; [now right|]. destruct (o =? 0); auto.
Qed.

(* ------------------------------------------------------------------ whatever the spelling: only the instant counts *)
(* the instant an aware datetime denotes, in whole seconds since 1970-01-01T00:00:00Z (sub-second part dropped) *)
Definition instant_of (d : dt) (off : Z) : Z := (local_us d - off) / us_per_s.

Lemma in_dt_range_sub u off : in_range (u / us_per_s) -> 0 <= off <= 7200 -> in_dt_range (u + off * us_per_s) = true.
Proof.
  unfold in_range, t_min, t_max, in_dt_range. destruct min_max_us as [-> ->]. unfold us_per_s. intros Ht Ho.
  apply andb_true_iff; split; [apply Z.leb_le|apply Z.ltb_lt]; lia.
Qed.

Lemma limits_of_instant d off : in_range (instant_of d off) ->
  is_stromtag_limit d off = Ok ((instant_of d off + eu_offset (instant_of d off)) mod 86400 =? 0) /\
  is_gastag_limit d off = Ok ((instant_of d off + eu_offset (instant_of d off)) mod 86400 =? 21600).
Proof.
  unfold instant_of. set (u := local_us d - off). set (t := u / us_per_s). intros Ht.
  assert (TB : to_berlin d off = Ok (u + eu_offset t * us_per_s)).
  { unfold to_berlin. fold u. replace u with (u + 0 * us_per_s) at 1 by lia.
    rewrite (in_dt_range_sub u 0 Ht) by lia. cbn [negb]. fold t.
    rewrite (table_is_eu_rule t Ht).
    rewrite (in_dt_range_sub u (eu_offset t) Ht) by (destruct (eu_offset_values t) as [-> | ->]; lia).
    reflexivity. }
  unfold is_stromtag_limit, is_gastag_limit, german_local_time. rewrite TB. cbn [bind].
  replace ((u + eu_offset t * us_per_s) / us_per_s) with (t + eu_offset t) by (subst t; unfold us_per_s; lia).
  set (tod := (t + eu_offset t) mod 86400). assert (Htod : 0 <= tod < 86400) by (subst tod; lia).
  split; f_equal.
  - apply (hms_is_tod tod 0 Htod). lia.
  - apply (hms_is_tod tod 6 Htod). lia.
Qed.

Lemma judges_instant s d off : parse_as_datetime s = PDate d off -> in_range (instant_of d off) ->
  let t := instant_of d off in
  eval_932 s = Ok (verdict_of ((t + eu_offset t) mod 86400 =? 0)) /\
  eval_933 s = Ok (verdict_of ((t + eu_offset t) mod 86400 =? 0)) /\
  eval_934 s = Ok (verdict_of ((t + eu_offset t) mod 86400 =? 21600)) /\
  eval_935 s = Ok (verdict_of ((t + eu_offset t) mod 86400 =? 21600)) /\
  eval_931 s = Ok (verdict_of (off =? 0)).
Proof.
  intros P Ht t. destruct (limits_of_instant d off Ht) as [LS LG].
  unfold eval_931, eval_932, eval_933, eval_934, eval_935, is_xtag_limit, has_no_utc_offset. rewrite P, LS, LG.
  repeat split.
Qed.

(* the rendered strings denote the instant they were rendered from *)
Lemma rendered_instant t o sh : in_range t -> -86400 < o < 86400 -> shape_ok sh t o ->
  exists d, parse_as_datetime (render t o sh) = PDate d (o * us_per_s) /\ instant_of d (o * us_per_s) = t.
Proof.
  intros Ht Ho Hsh.
  destruct (rendered_date_facts t o Ht Ho) as (Y & M & D & E & R & HY & HM & HD).
  exists (dt_of Y M D ((t + o) mod 86400) o). split; [exact (parse_rendered t o sh Y M D Ho Hsh E HY HM HD)|].
  unfold instant_of. rewrite (local_us_of Y M D _ o (t + o) R eq_refl). unfold us_per_s. lia.
Qed.

(* ------------------------------------------------------------------ the hypotheses are satisfiable; witnesses *)
Definition sh_example : shape := {| sh_sep := SepT; sh_sec := Secs; sh_off := OffHM |}.
(* 2020-03-28T23:00:00Z is 2020-03-29T00:00:00 in Berlin (CET, one hour before the switch) *)
Example example_hypotheses : in_range 1585436400 /\ -86400 < 7200 < 86400 /\ shape_ok sh_example 1585436400 7200.
Proof. unfold in_range, t_min, t_max, shape_ok, sh_example; cbn. repeat split; try lia; discriminate. Qed.
Example example_render :
  render 1585436400 7200 sh_example
  = [50;48;50;48;45;48;51;45;50;57;84;48;49;58;48;48;58;48;48;43;48;50;58;48;48]%N.   (* 2020-03-29T01:00:00+02:00 *)
Proof. vm_compute. reflexivity. Qed.
Example example_stromtag : eval_932 (render 1585436400 7200 sh_example) = Ok fulfilled_v
  /\ eval_934 (render 1585436400 7200 sh_example) = Ok unfulfilled_v.
Proof. split; vm_compute; reflexivity. Qed.
(* the two inputs that the unrepaired source got wrong (known_findings.txt), as the current source answers them *)
Example example_931_noon :   (* 2022-06-01T12:00:00+00:00 *)
  eval_931 [50;48;50;50;45;48;54;45;48;49;84;49;50;58;48;48;58;48;48;43;48;48;58;48;48]%N = Ok fulfilled_v.
Proof. vm_compute. reflexivity. Qed.
Example example_overflow_reported :   (* 0001-01-01T00:00:00+05:00 parses, astimezone overflows, reported unfulfilled *)
  let s := [48;48;48;49;45;48;49;45;48;49;84;48;48;58;48;48;58;48;48;43;48;53;58;48;48]%N in
  (exists d o, parse_as_datetime s = PDate d o /\ to_berlin d o = Exn Overflow) /\ eval_932 s = Ok unfulfilled_v.
Proof.
  cbv zeta. split; [|vm_compute; reflexivity].
  eexists; eexists; split; [vm_compute; reflexivity|vm_compute; reflexivity].
Qed.
