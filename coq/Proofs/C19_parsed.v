(* C19 for trees the parser produced: the hypothesis "no empty token value" of the tree round-trip theorems holds for every
   parse of a written condition expression, so the round trip is unconditional for them. *)
From Ahb Require Import Model.Prelude Model.Grammar Gen.Gen_grammar Model.Lex Model.EvalRC Model.EvalFC Model.Spec Model.Json
  Proofs.C01_lexprint Proofs.C01_print Proofs.C01_atoms Proofs.C08_fc Proofs.C07_fc Proofs.C07_parse Proofs.C19_json.

Lemma eatoms_embed e : eatoms (embed e) = map (fun k => AKey k) (keys_of e).
Proof. induction e as [k|b l IHl r IHr]; simpl; [reflexivity|]. now rewrite IHl, IHr, map_app. Qed.

Theorem parsed_keys_nonempty l its (e : kexpr) :
  Forall (fun p : text * ptok => all_ws (fst p) = true /\ ptok_ok (snd p) = true) l ->
  group (map (fun p => tok_of (snd p)) l) = Some its -> Rc its (embed e) ->
  forall k, In k (keys_of e) -> k <> [].
Proof.
  intros Hl G R k Hin. pose proof (parsed_atoms_wf l its (embed e) Hl G R) as W. rewrite eatoms_embed in W.
  rewrite Forall_forall in W. specialize (W (AKey k) (in_map _ _ _ Hin)). simpl in W. destruct W as [Hn _]. destruct k; [discriminate|discriminate].
Qed.

Theorem eval_after_roundtrip_parsed (ce : cer) l its (e : kexpr) :
  Forall (fun p : text * ptok => all_ws (fst p) = true /\ ptok_ok (snd p) = true) l ->
  group (map (fun p => tok_of (snd p)) l) = Some its -> Rc its (embed e) ->
  exists x, load_tree (dump_tree (to_ltree e)) = Ok x /\ of_lval x = Some e
            /\ option_map (rc_evaluation ce) (of_lval x) = Some (rc_evaluation ce e).
Proof. intros Hl G R. apply eval_after_roundtrip. now apply (parsed_keys_nonempty l its e Hl G R). Qed.
