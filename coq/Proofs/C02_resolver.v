From Ahb Require Import Model.Prelude Model.Grammar Gen.Gen_grammar Gen.Gen_ahbgrammar Model.Lex Model.EvalAhb Model.Ahb
  Proofs.C01_parse Proofs.C02_language.
Set Implicit Arguments.

Lemma parse_ahb_only_syntaxerror s : (exists ps, parse_ahb s = Ok ps) \/ parse_ahb s = Exn SyntaxErr.
Proof.
  unfold parse_ahb. destruct (prefix_operator s) as [[tok rest]|].
  - destruct rest as [|c r]; [left; eauto|]. destruct (condition_expression _ _) as [[ce [|x y]]|]; [left; eauto|right; reflexivity|right; reflexivity].
  - destruct (mm_parts _ s); simpl; [left; eauto|right; reflexivity].
Qed.

Lemma resolve_parts_only_syntaxerror ps : (exists r, resolve_parts ps = Ok r) \/ resolve_parts ps = Exn SyntaxErr.
Proof.
  unfold resolve_parts. induction ps as [|[t [ce|]] ps IH]; simpl.
  - left; eauto.
  - destruct (parse_cond_only_syntaxerror ce) as [[f ->]| ->]; simpl; [|now right].
    destruct IH as [[r ->]| ->]; simpl; [left; eauto|now right].
  - destruct IH as [[r ->]| ->]; simpl; [left; eauto|now right].
Qed.

Theorem resolve_only_syntaxerror s : (exists r, resolve_str s = Ok r) \/ resolve_str s = Exn SyntaxErr.
Proof.
  unfold resolve_str.
  assert (H : (exists parts, (do ps <- parse_ahb s ;; resolve_parts ps) = Ok parts) \/ (do ps <- parse_ahb s ;; resolve_parts ps) = Exn SyntaxErr).
  { destruct (parse_ahb_only_syntaxerror s) as [[ps ->]| ->]; simpl; [apply resolve_parts_only_syntaxerror|now right]. }
  destruct H as [[parts ->]| ->]; [left; eauto|].
  destruct (parse_cond_only_syntaxerror s) as [[t ->]| ->]; [left; eauto|now right].
Qed.

(* an AHB expression whose indicator structure is fine but whose condition part is malformed is rejected *)
Theorem condition_part_checked s ps : parse_ahb s = Ok ps ->
  (exists t ce, In (RP t (Some ce)) ps /\ parse_cond ce = Exn SyntaxErr) ->
  parse_cond s = Exn SyntaxErr -> resolve_str s = Exn SyntaxErr.
Proof.
  intros Hp [t [ce [Hin Hce]]] Hs. unfold resolve_str. rewrite Hp. simpl.
  assert (R : resolve_parts ps = Exn SyntaxErr).
  { clear Hp Hs. destruct (resolve_parts_only_syntaxerror ps) as [[r Hr]|Hr]; [|exact Hr]. exfalso.
    unfold resolve_parts in Hr. revert r Hr. induction ps as [|p ps IH]; intros r Hr; [contradiction|].
    simpl in Hr. destruct Hin as [->|Hin].
    - rewrite Hce in Hr. discriminate.
    - destruct p as [t' [ce'|]]; simpl in Hr.
      + destruct (parse_cond ce'); simpl in Hr; [|discriminate]. destruct (mapM _ ps) eqn:E; simpl in Hr; [|discriminate]. eapply IH; eauto.
      + destruct (mapM _ ps) eqn:E; simpl in Hr; [|discriminate]. eapply IH; eauto. }
  rewrite R, Hs. reflexivity.
Qed.

Example condition_part_example :
  let s := [77;117;115;115;32;91;49;93;32;85]%N in   (* "Muss [1] U" *)
  parse_ahb s = Ok [RP (TokMM [77;117;115;115]%N) (Some [32;91;49;93;32;85]%N)] /\ resolve_str s = Exn SyntaxErr.
Proof. split; vm_compute; reflexivity. Qed.

(* is_valid_expression on strings: malformed input is REPORTED, as (False, message); it never escapes as an exception *)
From Ahb Require Import Model.ValidStr.
Lemma validity_reports_malformed message_of on_tree s :
  resolve_str s = Exn SyntaxErr -> is_valid_str message_of on_tree s = Ok (false, Some (message_of s)).
Proof. unfold is_valid_str. intros ->. reflexivity. Qed.

Lemma validity_of_any_string message_of on_tree s :
  (exists r, resolve_str s = Ok r /\ is_valid_str message_of on_tree s = on_tree r) \/
  is_valid_str message_of on_tree s = Ok (false, Some (message_of s)).
Proof.
  destruct (resolve_only_syntaxerror s) as [[r H]|H].
  - left. exists r. split; [exact H|]. unfold is_valid_str. rewrite H. reflexivity.
  - right. now apply validity_reports_malformed.
Qed.
