(* expand_packages under every schedule: the program of Model/ResolveAsync.v returns what the sequential substitution returns, whatever the order in
   which the package look-ups complete; with a package table the sequential model is Model/Resolve.v's expand_packages (C10's theorems). *)
From Ahb Require Import Model.Prelude Model.Grammar Gen.Gen_grammar Model.Lex Gen.Gen_timecond Model.Resolve Model.Async Model.ResolveAsync Proofs.C12_async.

Lemma mapM_app {A B} (f : A -> result B) (l1 l2 : list A) :
  mapM f (l1 ++ l2) = (do a <- mapM f l1 ;; do b <- mapM f l2 ;; Ok (a ++ b)).
Proof.
  induction l1 as [|x t IH]; simpl.
  - destruct (mapM f l2); reflexivity.
  - destruct (f x) as [y|e]; simpl; [|reflexivity]. rewrite IH. destruct (mapM f t) as [ys|e]; simpl; [|reflexivity].
    destruct (mapM f l2); reflexivity.
Qed.

Lemma mapM_length {A B} (f : A -> result B) (l : list A) : forall l', mapM f l = Ok l' -> length l' = length l.
Proof.
  induction l as [|x t IH]; simpl; intros l' H; [inversion H; reflexivity|].
  destruct (f x); simpl in H; [|discriminate]. destruct (mapM f t) as [ys|] eqn:E; simpl in H; [|discriminate].
  inversion H; subst. simpl. f_equal. now apply IH.
Qed.

(* the substitution consumes exactly the results of its own occurrences and leaves the rest *)
Lemma fill_expand (f : text -> result expr) (e : expr) : forall ts rest,
  mapM f (occurrences e) = Ok ts -> expand_fn f e = Ok (fst (fill_all e (ts ++ rest))) /\ snd (fill_all e (ts ++ rest)) = rest.
Proof.
  induction e as [a|b l IHl r IHr]; intros ts rest H.
  - destruct a as [k|k rep|k]; simpl in *.
    + inversion H; subst. auto.
    + destruct (f k) as [t|]; simpl in H; [|discriminate]. inversion H; subst. simpl. auto.
    + inversion H; subst. auto.
  - simpl in H. rewrite mapM_app in H.
    destruct (mapM f (occurrences l)) as [tl|] eqn:El; simpl in H; [|discriminate].
    destruct (mapM f (occurrences r)) as [tr|] eqn:Er; simpl in H; [|discriminate]. inversion H; subst.
    rewrite <- app_assoc. simpl.
    destruct (IHl tl (tr ++ rest) eq_refl) as [L1 L2]. destruct (fill_all l (tl ++ tr ++ rest)) as [l' ts1] eqn:Fl. simpl in L1, L2. subst ts1.
    destruct (IHr tr rest eq_refl) as [R1 R2]. destruct (fill_all r (tr ++ rest)) as [r' ts2] eqn:Fr. simpl in R1, R2. subst ts2.
    rewrite L1, R1. simpl. auto.
Qed.

Lemma expand_fails (f : text -> result expr) (e : expr) x : mapM f (occurrences e) = Exn x -> expand_fn f e = Exn x.
Proof.
  induction e as [a|b l IHl r IHr]; intros H.
  - destruct a as [k|k rep|k]; simpl in *; try discriminate. destruct (f k); simpl in H; [discriminate|]. inversion H; subst. reflexivity.
  - simpl in *. rewrite mapM_app in H. destruct (mapM f (occurrences l)) as [tl|xl] eqn:El; simpl in H.
    + destruct (fill_expand f l tl [] El) as [L _]. rewrite L. simpl.
      destruct (mapM f (occurrences r)) as [tr|xr] eqn:Er; simpl in H; [discriminate|]. inversion H; subst. rewrite (IHr eq_refl). reflexivity.
    + inversion H; subst. rewrite (IHl eq_refl). reflexivity.
Qed.

Lemma sequence_map {A B} (f : A -> result B) (l : list A) : sequence (map f l) = mapM f l.
Proof. induction l as [|a t IH]; simpl; [reflexivity|]. rewrite IH. reflexivity. Qed.

Section Refine.
Variable U : Type.
Variable lookup_prog : text -> prog (pv U).
Notation expand_prog := (expand_prog U lookup_prog).
Notation lookup_of := (lookup_of U lookup_prog).

Theorem den_expand c (e : expr) : as_tree (den c (expand_prog e)) = expand_packages_fn (lookup_of c) e.
Proof.
  unfold ResolveAsync.expand_prog, expand_packages_fn. destruct (rep_pass e) as [u|x]; cbn [bind]; [|reflexivity].
  cbn [den as_tree]. rewrite !map_map.
  change (map (fun k => as_tree (den c (lookup_prog k))) (occurrences e)) with (map (lookup_of c) (occurrences e)).
  rewrite sequence_map. destruct (mapM (lookup_of c) (occurrences e)) as [ts|x] eqn:M; cbn [bind].
  - destruct (fill_expand (lookup_of c) e ts [] M) as [E _]. rewrite app_nil_r in E. symmetry. exact E.
  - symmetry. now apply expand_fails.
Qed.

Theorem expand_every_schedule c (e : expr) (r : pv U) :
  steps (initial c (expand_prog e)) (Done r) -> as_tree r = expand_packages_fn (lookup_of c) e.
Proof. intros H. apply schedule_independent in H. rewrite H. apply den_expand. Qed.
End Refine.

(* with a package table the sequential model is expand_packages of Model/Resolve.v *)
Definition lookup_of_table (p : pkg_table) (k : text) : result expr := match pkg_lookup p k with Some r => r | None => Exn NotImpl end.
Theorem expand_is_fn p e : expand_packages p e = expand_packages_fn (lookup_of_table p) e.
Proof.
  unfold expand_packages, expand_packages_fn. destruct (rep_pass e); cbn [bind]; [|reflexivity].
  induction e as [a0|b l IHl r IHr]; [destruct a0; reflexivity|]. simpl. rewrite IHl, IHr. reflexivity.
Qed.
