From Coq Require Import List Arith Lia Bool.
Import ListNotations.
From Ahb Require Import Model.Prelude Model.Grammar Gen.Gen_grammar Model.Lex Proofs.Prec Proofs.Canon.
Set Implicit Arguments.

(* ---------- the regenerated rule table lists the alternatives in precedence order ---------- *)
Lemma table_monotone : forall r r', rule_order r <= rule_order r' -> lv rule_alias r <= lv rule_alias r'.
Proof. intros r r'; destruct r, r'; vm_compute; intros H; try lia; repeat constructor. Qed.
Lemma then_last : forall r, rule_order r < order_then.
Proof. intros r; destruct r; vm_compute; repeat constructor. Qed.
Lemma all_levels_used : forall o : op3, exists r, rule_alias r = o.
Proof. intros o. destruct o; [exists R0_O|exists R2_X|exists R4_U]; reflexivity. Qed.

Theorem resolution_respects_precedence_c its e : Rc its e -> Sc 0 its e.
Proof. apply (@resolution_respects_precedence atom rule rule_alias rule_order order_then table_monotone then_last). Qed.

Theorem unique_modulo_runs_c its e e' : Sc 0 its e -> Sc 0 its e' -> flat e = flat e'.
Proof. apply (@unique_modulo_runs atom rule rule_alias). Qed.

Corollary lark_parses_agree its e e' : Rc its e -> Rc its e' -> flat e = flat e'.
Proof. intros H1 H2. apply unique_modulo_runs_c with (its := its); now apply resolution_respects_precedence_c. Qed.

(* ---------- explicit fuel: bracket depth bounds the recursion of canon ---------- *)
Lemma bdepth_app l1 l2 : bdepth (l1 ++ l2) = Nat.max (bdepth l1) (bdepth l2).
Proof. unfold bdepth. induction l1 as [|x t IH]; simpl; [reflexivity|]. rewrite IH. lia. Qed.
Lemma bdepth_cons x l : bdepth (x :: l) = Nat.max (idepth x) (bdepth l).
Proof. reflexivity. Qed.

Notation canon := (@Grammar.canon atom rule rule_alias).
Notation split_at := (@Grammar.split_at atom rule rule_alias).

Lemma lv_le2 r : lv rule_alias r <= 2. Proof. unfold lv, lvl3. destruct (rule_alias r); lia. Qed.

Theorem S_canon_bound n l e : Sc n l e -> forall f, (5 - n) + 5 * bdepth l <= f -> canon f n l = Some (flat e).
Proof.
  induction 1 as [r l1 l2 e1 e2 H1 IH1 H2 IH2|l1 l2 e1 e2 H1 IH1 H2 IH2|n l e H IH|a|g e H IH]; intros f Hf.
  - pose proof (lv_le2 r) as Hr.
    rewrite bdepth_app, bdepth_cons in Hf. simpl idepth in Hf.
    destruct f as [|f]; [lia|].
    destruct (@canon_args atom rule rule_alias f (lv rule_alias r) l1 (flat e1) Hr (IH1 (Datatypes.S f) ltac:(lia))) as [a1 [M1 C1]].
    destruct (@canon_args atom rule rule_alias f (lv rule_alias r) l2 (flat e2) Hr (IH2 (Datatypes.S f) ltac:(lia))) as [a2 [M2 C2]].
    rewrite (@canon_build atom rule rule_alias f (lv rule_alias r) (l1 ++ IO r :: l2) (a1 ++ a2)); auto.
    + unfold collect. rewrite map_app, concat_app, C1, C2. simpl. now rewrite bop_of_lv.
    + rewrite split_at_app_op by reflexivity. rewrite app_length.
      pose proof (@split_at_nonempty atom rule rule_alias (lv rule_alias r) l1).
      pose proof (@split_at_nonempty atom rule rule_alias (lv rule_alias r) l2).
      destruct (split_at (lv rule_alias r) l1); [congruence|]. destruct (split_at (lv rule_alias r) l2); [congruence|]. simpl. lia.
    + rewrite split_at_app_op by reflexivity. now apply omapM_app.
  - rewrite bdepth_app in Hf. destruct f as [|f]; [lia|].
    destruct (@canon3_args atom rule rule_alias f l1 (flat e1) (IH1 (Datatypes.S f) ltac:(lia))) as [a1 [M1 [N1 C1]]].
    destruct (@canon3_args atom rule rule_alias f l2 (flat e2) (IH2 (Datatypes.S f) ltac:(lia))) as [a2 [M2 [N2 C2]]].
    rewrite (@canon3_build atom rule rule_alias f (l1 ++ l2) (a1 ++ a2)).
    + unfold collect. rewrite map_app, concat_app, C1, C2. reflexivity.
    + rewrite app_length. destruct l1; [congruence|]. destruct l2; [congruence|]. simpl. lia.
    + now apply omapM_app.
  - destruct f as [|f]; [pose proof (S_level_le4 H); lia|].
    pose proof (S_level_le4 H) as H4.
    destruct (le_lt_dec n 2) as [Hn|Hn].
    + rewrite canon_S. pose proof Hn as Hn'. apply Nat.leb_le in Hn'. rewrite Hn'.
      rewrite split_at_none.
      * replace (n + 1) with (Datatypes.S n) by lia. apply IH. lia.
      * intros x Hx. destruct x as [a|r|g]; simpl; auto. pose proof (S_ops_ge H _ Hx). apply Nat.eqb_neq. lia.
    + assert (n = 3) by lia. subst n. destruct (S4_single H) as [x Ex]; [lia|]. subst l.
      rewrite canon_S. cbn [Nat.leb Nat.eqb]. apply IH. lia.
  - destruct f as [|f]; [simpl in Hf; lia|]. rewrite canon_S. reflexivity.
  - destruct f as [|f]; [simpl in Hf; lia|]. rewrite canon_S. cbn [Nat.leb Nat.eqb]. apply IH.
    unfold bdepth in Hf. simpl in Hf. fold (bdepth g) in Hf. lia.
Qed.

Corollary canon_complete its e : Sc 0 its e -> canonc (canon_fuel its) 0 its = Some (flat e).
Proof. intros H. apply (S_canon_bound H). unfold canon_fuel. lia. Qed.

(* whatever tree Lark's resolution (as modelled by Rc) returns, the model parser computes its flattening *)
Theorem parse_fx_is_lark s ts its e : lex s = Some ts -> group ts = Some its -> Rc its e -> parse_fx s = Some (flat e).
Proof.
  intros Hl Hg HR. unfold parse_fx. rewrite Hl, Hg. apply canon_complete. now apply resolution_respects_precedence_c.
Qed.

(* ---------- redundant brackets ---------- *)
Lemma S_wrap n l e : n <= 4 -> Sc n l e -> Sc n [IG l] e.
Proof.
  intros Hn H. apply (@S_down atom rule rule_alias 4 n); [exact Hn|]. apply S_grp.
  apply (@S_down atom rule rule_alias n 0); [lia|exact H].
Qed.

(* D n l l' e: l' is l with redundant brackets around any number of sub-expressions (at whatever level the context accepts) *)
Inductive D : nat -> list item -> list item -> expr -> Prop :=
| D_op r l1 l2 l1' l2' e1 e2 : D (lv rule_alias r) l1 l1' e1 -> D (lv rule_alias r) l2 l2' e2 ->
    D (lv rule_alias r) (l1 ++ IO r :: l2) (l1' ++ IO r :: l2') (EBin (bop (rule_alias r)) e1 e2)
| D_then l1 l2 l1' l2' e1 e2 : D 3 l1 l1' e1 -> D 3 l2 l2' e2 -> D 3 (l1 ++ l2) (l1' ++ l2') (EBin BThen e1 e2)
| D_up n l l' e : D (Datatypes.S n) l l' e -> D n l l' e
| D_atom a : D 4 [IA a] [IA a] (EAtom a)
| D_grp g g' e : D 0 g g' e -> D 4 [IG g] [IG g'] e
| D_wrap n l l' e : n <= 4 -> D n l l' e -> D n l [IG l'] e.

Lemma D_sound n l l' e : D n l l' e -> Sc n l e /\ Sc n l' e.
Proof.
  induction 1 as [r l1 l2 l1' l2' e1 e2 _ [A1 B1] _ [A2 B2]|l1 l2 l1' l2' e1 e2 _ [A1 B1] _ [A2 B2]|n l l' e _ [A B]|a|g g' e _ [A B]|n l l' e Hn _ [A B]].
  - split; now apply S_op.
  - split; now apply S_then.
  - split; now apply S_up.
  - split; apply S_atom.
  - split; now apply S_grp.
  - split; [exact A|now apply S_wrap].
Qed.

Theorem redundant_brackets its its' e0 e e' : D 0 its its' e0 -> Rc its e -> Rc its' e' -> flat e = flat e'.
Proof.
  intros HD H1 H2. destruct (D_sound HD) as [A B].
  transitivity (flat e0).
  - apply unique_modulo_runs_c with (its := its); [now apply resolution_respects_precedence_c|exact A].
  - apply unique_modulo_runs_c with (its := its'); [exact B|now apply resolution_respects_precedence_c].
Qed.

(* every stratified derivation has a bracketed variant, so the relation D is not empty: [a] O [b] U [c] vs [a] O ([b] U [c]) *)
Example D_example (a b c : atom) :
  D 0 [IA a; IO R0_O; IA b; IO R4_U; IA c] [IA a; IO R0_O; IG [IA b; IO R4_U; IA c]]
      (EBin BOr (EAtom a) (EBin BAnd (EAtom b) (EAtom c))).
Proof.
  apply (@D_op R0_O [IA a] [IA b; IO R4_U; IA c] [IA a] [IG [IA b; IO R4_U; IA c]]).
  - change (lv rule_alias R0_O) with 0. do 4 apply D_up. apply D_atom.
  - change (lv rule_alias R0_O) with 0. apply D_wrap; [lia|]. do 2 apply D_up.
    apply (@D_op R4_U [IA b] [IA c] [IA b] [IA c]); change (lv rule_alias R4_U) with 2; do 2 apply D_up; apply D_atom.
Qed.

(* ---------- the spelling of an operator never changes the grouping ---------- *)
Inductive sa : item -> item -> Prop :=
| sa_A a : sa (IA a) (IA a)
| sa_O r r' : rule_alias r = rule_alias r' -> sa (IO r) (IO r')
| sa_G g g' : Forall2 sa g g' -> sa (IG g) (IG g').
Definition same_spelling_class := Forall2 sa.

Lemma sa_is_op_lvl n x y : sa x y -> @Grammar.is_op_lvl atom rule rule_alias n x = @Grammar.is_op_lvl atom rule rule_alias n y.
Proof. intros H. inversion H; subst; simpl; auto. unfold lv. now rewrite H0. Qed.

Lemma sa_split_at n l l' : Forall2 sa l l' -> Forall2 (Forall2 sa) (split_at n l) (split_at n l').
Proof.
  induction 1 as [|x y l l' Hxy Hl IH]; simpl; [repeat constructor|].
  rewrite (sa_is_op_lvl n Hxy).
  destruct (split_at n l) as [|s ss], (split_at n l') as [|s' ss']; inversion IH; subst.
  - repeat constructor; auto.
  - destruct (@Grammar.is_op_lvl atom rule rule_alias n y); repeat constructor; auto.
Qed.

Lemma omapM_ext {A B} (f g : A -> option B) (R : A -> A -> Prop) l l' :
  (forall x y, R x y -> f x = g y) -> Forall2 R l l' -> omapM f l = omapM g l'.
Proof. intros Hfg H. induction H as [|x y l l' Hxy _ IH]; simpl; [reflexivity|]. now rewrite (Hfg _ _ Hxy), IH. Qed.

Theorem canon_spelling_invariant f : forall n l l', same_spelling_class l l' -> canon f n l = canon f n l'.
Proof.
  induction f as [|f IH]; intros n l l' H; [reflexivity|].
  rewrite !canon_S. destruct (n <=? 2).
  - pose proof (sa_split_at n H) as Hs.
    destruct Hs as [|s s' ss ss' Hss Hrest]; [reflexivity|].
    destruct Hrest as [|s2 s2' ss2 ss2' Hs2 Hrest2].
    + apply IH; assumption.
    + f_equal. apply (@omapM_ext _ _ _ _ (Forall2 sa)); [intros; apply IH; assumption|repeat constructor; auto].
  - destruct (n =? 3).
    + destruct H as [|x y l l' Hxy Hl]; [reflexivity|]. destruct Hl as [|x2 y2 l l' Hxy2 Hl].
      * apply IH. repeat constructor; auto.
      * f_equal. apply (@omapM_ext _ _ _ _ sa); [intros; apply IH; repeat constructor; auto|repeat constructor; auto].
    + destruct H as [|x y l l' Hxy Hl]; [reflexivity|]. destruct Hl; [|inversion Hxy; subst; reflexivity].
      inversion Hxy; subst; auto.
Qed.
