(* C01 at character level: the operator spelling, letter case and white space between (and inside) tokens never change the
   token sequence -- printing any token list with arbitrary spellings / white space and lexing it back is the identity. *)
From Coq Require Import Lia.
From Ahb Require Import Model.Prelude Model.Grammar Gen.Gen_grammar Model.Lex.

Definition all_ws (w : text) : bool := forallb is_ws w.
Definition all_digits (d : text) : bool := forallb is_ascii_digit d.
Definition all_udigits (d : text) : bool := forallb is_udigit d.

(* a token as it is written: with its spelling and the white space inside the square brackets *)
Inductive ptok :=
| PL | PR
| POp (c : N) (r : rule)
| PKey (w1 ds w2 : text)
| PPkg (w1 ds w2 : text) (rep : option (text * N * text * text))   (* d1 ".." c d2, white space after it *)
| PTime (w1 : text) (c : N) (w2 : text).

Definition rep_text (d1 : text) (c : N) (d2 : text) : text := d1 ++ [46; 46; c]%N ++ d2.
Definition render_ptok (p : ptok) : text :=
  match p with
  | PL => [40%N] | PR => [41%N]
  | POp c _ => [c]
  | PKey w1 ds w2 => [91%N] ++ w1 ++ ds ++ w2 ++ [93%N]
  | PPkg w1 ds w2 None => [91%N] ++ w1 ++ ds ++ [80%N] ++ w2 ++ [93%N]
  | PPkg w1 ds w2 (Some (d1, c, d2, w3)) => [91%N] ++ w1 ++ ds ++ [80%N] ++ w2 ++ rep_text d1 c d2 ++ w3 ++ [93%N]
  | PTime w1 c w2 => [91%N] ++ w1 ++ [85; 66; c]%N ++ w2 ++ [93%N]
  end.
Definition tok_of (p : ptok) : tok :=
  match p with
  | PL => TL | PR => TR
  | POp _ r => TO r
  | PKey _ ds _ => TA (AKey ds)
  | PPkg _ ds _ None => TA (APkg (ds ++ [80%N]) None)
  | PPkg _ ds _ (Some (d1, c, d2, _)) => TA (APkg (ds ++ [80%N]) (Some (rep_text d1 c d2)))
  | PTime _ c _ => TA (ATime [85; 66; c]%N)
  end.
Definition nonempty (t : text) : bool := match t with [] => false | _ => true end.
Definition ptok_ok (p : ptok) : bool :=
  match p with
  | PL | PR => true
  | POp c r => match op_of_char c with Some r' => rule_eqb r r' | None => false end
  | PKey w1 ds w2 => all_ws w1 && all_ws w2 && nonempty ds && all_digits ds
  | PPkg w1 ds w2 None => all_ws w1 && all_ws w2 && nonempty ds && all_digits ds
  | PPkg w1 ds w2 (Some (d1, c, d2, w3)) =>
      all_ws w1 && all_ws w2 && all_ws w3 && nonempty ds && all_digits ds && nonempty d1 && all_udigits d1 && all_udigits d2
      && (49 <=? c)%N && (c <=? 57)%N
  | PTime w1 c w2 => all_ws w1 && all_ws w2 && (49 <=? c)%N && (c <=? 51)%N
  end.

Definition render (l : list (text * ptok)) (trail : text) : text :=
  concat (map (fun p => fst p ++ render_ptok (snd p)) l) ++ trail.

(* ---------- facts about the regenerated character data ---------- *)
Lemma char_facts :
  is_ws 40 = false /\ is_ws 41 = false /\ is_ws 91 = false /\ is_ws 93 = false /\ is_ws 46 = false /\ is_ws 80 = false /\ is_ws 85 = false /\
  forallb (fun c => negb (is_ws c)) (flat_map rule_spellings all_rules) = true /\
  forallb (fun c => negb (N.eqb c 40) && negb (N.eqb c 41) && negb (N.eqb c 91)) (flat_map rule_spellings all_rules) = true /\
  is_udigit 46 = false /\ is_udigit 93 = false /\ is_ascii_digit 80 = false /\ is_ascii_digit 93 = false /\
  forallb (fun c => negb (is_udigit c)) ws_chars = true.
Proof. vm_compute. repeat split. Qed.

Lemma digit_not_ws c : is_ascii_digit c = true -> is_ws c = false.
Proof.
  unfold is_ascii_digit. intros H. apply andb_true_iff in H. destruct H as [H1 H2]. apply N.leb_le in H1, H2.
  unfold is_ws. apply not_true_is_false. intros Q. apply existsb_exists in Q. destruct Q as [x [Hx E]]. apply N.eqb_eq in E. subst x.
  vm_compute in Hx. repeat (destruct Hx as [Hx|Hx]; [subst c; lia|]). contradiction.
Qed.
Lemma udigit_not_ws c : is_udigit c = true -> is_ws c = false.
Proof.
  intros H. destruct char_facts as [_ [_ [_ [_ [_ [_ [_ [_ [_ [_ [_ [_ [_ F]]]]]]]]]]]]].
  unfold is_ws. apply not_true_is_false. intros Q. apply existsb_exists in Q. destruct Q as [x [Hx E]]. apply N.eqb_eq in E. subst x.
  rewrite forallb_forall in F. specialize (F c Hx). rewrite H in F. discriminate.
Qed.

(* ---------- list lemmas ---------- *)
Lemma skip_ws_app w s : all_ws w = true -> skip_ws (w ++ s) = skip_ws s.
Proof. induction w as [|c t IH]; simpl; intros H; [reflexivity|]. apply andb_true_iff in H. destruct H as [H1 H2]. rewrite H1. auto. Qed.
Lemma skip_ws_stop c s : is_ws c = false -> skip_ws (c :: s) = c :: s.
Proof. intros H. simpl. now rewrite H. Qed.
Lemma skip_ws_all w : all_ws w = true -> skip_ws w = [].
Proof. intros H. rewrite <- (app_nil_r w). rewrite skip_ws_app by exact H. reflexivity. Qed.

Lemma span_app p c rest : forallb p c = true -> match rest with [] => True | x :: _ => p x = false end -> span p (c ++ rest) = (c, rest).
Proof.
  intros Hc Hr. induction c as [|x t IH]; simpl in *.
  - destruct rest as [|x r]; [reflexivity|]. simpl. now rewrite Hr.
  - apply andb_true_iff in Hc. destruct Hc as [Hx Ht]. rewrite Hx, (IH Ht). reflexivity.
Qed.

Lemma after_hit c s : after c (c :: s) = Some s.
Proof. unfold after. now rewrite N.eqb_refl. Qed.
Lemma after_miss c x s : N.eqb x c = false -> after c (x :: s) = None.
Proof. unfold after. intros ->. reflexivity. Qed.

Lemma close_bracket_ok a w rest : all_ws w = true -> close_bracket a (w ++ 93%N :: rest) = Some (a, rest).
Proof.
  intros H. unfold close_bracket. rewrite skip_ws_app by exact H. destruct char_facts as [_ [_ [_ [W _]]]].
  rewrite skip_ws_stop by exact W. now rewrite after_hit.
Qed.

(* ---------- scanning one atom ---------- *)
Lemma nonempty_cons (t : text) : nonempty t = true -> exists x r, t = x :: r.
Proof. destruct t; [discriminate|eauto]. Qed.

Lemma digits_head ds rest : nonempty ds = true -> all_digits ds = true ->
  exists d t, ds ++ rest = d :: t /\ is_ascii_digit d = true /\ N.eqb d 85 = false.
Proof.
  intros Hn Hd. destruct (nonempty_cons _ Hn) as [d [t ->]]. simpl in Hd. apply andb_true_iff in Hd. destruct Hd as [Hd _].
  exists d, (t ++ rest). repeat split; auto. unfold is_ascii_digit in Hd. apply andb_true_iff in Hd. destruct Hd as [H1 H2].
  apply N.leb_le in H1, H2. apply N.eqb_neq. lia.
Qed.

Lemma scan_key w1 ds w2 rest : all_ws w1 = true -> all_ws w2 = true -> nonempty ds = true -> all_digits ds = true ->
  scan_atom (w1 ++ ds ++ w2 ++ 93%N :: rest) = Some (AKey ds, rest).
Proof.
  intros H1 H2 Hn Hd. unfold scan_atom. rewrite skip_ws_app by exact H1.
  destruct (digits_head ds (w2 ++ 93%N :: rest) Hn Hd) as [d [t [E [Dd D85]]]].
  assert (Hs : skip_ws (ds ++ w2 ++ 93%N :: rest) = ds ++ w2 ++ 93%N :: rest) by (rewrite E; apply skip_ws_stop; now apply digit_not_ws).
  assert (A85 : after 85 (ds ++ w2 ++ 93%N :: rest) = None) by (rewrite E; now apply after_miss).
  cbv zeta. rewrite Hs, A85.
  rewrite (span_app is_ascii_digit ds (w2 ++ 93%N :: rest) Hd).
  - destruct (nonempty_cons _ Hn) as [x [r Eds]]. destruct ds as [|x0 r0]; [discriminate|].
    assert (A : after 80 (w2 ++ 93%N :: rest) = None).
    { destruct w2 as [|c w2']; simpl.
      - reflexivity.
      - simpl in H2. apply andb_true_iff in H2. destruct H2 as [Hc _]. destruct (N.eqb c 80) eqn:E80; [|reflexivity].
        apply N.eqb_eq in E80. subst c. destruct char_facts as [_ [_ [_ [_ [_ [W _]]]]]]. congruence. }
    rewrite A. now apply close_bracket_ok.
  - destruct w2 as [|c w2']; simpl.
    + now destruct char_facts as [_ [_ [_ [_ [_ [_ [_ [_ [_ [_ [_ [_ [D _]]]]]]]]]]]]].
    + simpl in H2. apply andb_true_iff in H2. destruct H2 as [Hc _]. destruct (is_ascii_digit c) eqn:Dc; [|reflexivity].
      apply digit_not_ws in Dc. congruence.
Qed.



Lemma scan_pkg_plain w1 ds w2 rest : all_ws w1 = true -> all_ws w2 = true -> nonempty ds = true -> all_digits ds = true ->
  scan_atom (w1 ++ ds ++ 80%N :: w2 ++ 93%N :: rest) = Some (APkg (ds ++ [80%N]) None, rest).
Proof.
  intros H1 H2 Hn Hd. unfold scan_atom. rewrite skip_ws_app by exact H1.
  destruct (digits_head ds (80%N :: w2 ++ 93%N :: rest) Hn Hd) as [d [t [E [Dd D85]]]].
  assert (Hs : skip_ws (ds ++ 80%N :: w2 ++ 93%N :: rest) = ds ++ 80%N :: w2 ++ 93%N :: rest) by (rewrite E; apply skip_ws_stop; now apply digit_not_ws).
  assert (A85 : after 85 (ds ++ 80%N :: w2 ++ 93%N :: rest) = None) by (rewrite E; now apply after_miss).
  cbv zeta. rewrite Hs, A85.
  rewrite (span_app is_ascii_digit ds (80%N :: w2 ++ 93%N :: rest) Hd) by (now destruct char_facts as [_ [_ [_ [_ [_ [_ [_ [_ [_ [_ [_ [D _]]]]]]]]]]]]).
  destruct ds as [|x0 r0]; [discriminate|]. rewrite after_hit. now rewrite close_bracket_ok.
Qed.

Lemma scan_repeatability_ok d1 c d2 rest : nonempty d1 = true -> all_udigits d1 = true -> all_udigits d2 = true ->
  (49 <=? c)%N && (c <=? 57)%N = true -> match rest with [] => True | x :: _ => is_udigit x = false end ->
  scan_repeatability (rep_text d1 c d2 ++ rest) = Some (rep_text d1 c d2, rest).
Proof.
  intros Hn H1 H2 Hc Hr. unfold scan_repeatability, rep_text. rewrite <- !app_assoc. simpl app.
  rewrite (span_app is_udigit d1 (46%N :: 46%N :: c :: d2 ++ rest) H1) by (now destruct char_facts as [_ [_ [_ [_ [_ [_ [_ [_ [_ [D _]]]]]]]]]]).
  destruct d1 as [|x r]; [discriminate|]. rewrite !after_hit. rewrite Hc.
  rewrite (span_app is_udigit d2 rest H2 Hr). reflexivity.
Qed.

Lemma scan_pkg_rep w1 ds w2 d1 c d2 w3 rest : all_ws w1 = true -> all_ws w2 = true -> all_ws w3 = true -> nonempty ds = true -> all_digits ds = true ->
  nonempty d1 = true -> all_udigits d1 = true -> all_udigits d2 = true -> (49 <=? c)%N && (c <=? 57)%N = true ->
  scan_atom (w1 ++ ds ++ 80%N :: w2 ++ rep_text d1 c d2 ++ w3 ++ 93%N :: rest) = Some (APkg (ds ++ [80%N]) (Some (rep_text d1 c d2)), rest).
Proof.
  intros H1 H2 H3 Hn Hd Hn1 Hu1 Hu2 Hc. unfold scan_atom. rewrite skip_ws_app by exact H1.
  set (tail := w2 ++ rep_text d1 c d2 ++ w3 ++ 93%N :: rest).
  destruct (digits_head ds (80%N :: tail) Hn Hd) as [d [t [E [Dd D85]]]].
  assert (Hs : skip_ws (ds ++ 80%N :: tail) = ds ++ 80%N :: tail) by (rewrite E; apply skip_ws_stop; now apply digit_not_ws).
  assert (A85 : after 85 (ds ++ 80%N :: tail) = None) by (rewrite E; now apply after_miss).
  cbv zeta. rewrite Hs, A85.
  rewrite (span_app is_ascii_digit ds (80%N :: tail) Hd) by (now destruct char_facts as [_ [_ [_ [_ [_ [_ [_ [_ [_ [_ [_ [D _]]]]]]]]]]]]).
  destruct ds as [|x0 r0]; [discriminate|]. rewrite after_hit.
  (* no ']' directly after the white space: the repeatability starts with a digit *)
  destruct (nonempty_cons _ Hn1) as [u [ur Ed1]].
  assert (Hu : is_udigit u = true) by (rewrite Ed1 in Hu1; simpl in Hu1; apply andb_true_iff in Hu1; tauto).
  assert (Hsk : skip_ws tail = rep_text d1 c d2 ++ w3 ++ 93%N :: rest).
  { unfold tail. rewrite skip_ws_app by exact H2. unfold rep_text. rewrite Ed1. simpl. now rewrite (udigit_not_ws _ Hu). }
  assert (Cb : close_bracket (APkg ((x0 :: r0) ++ [80%N]) None) tail = None).
  { unfold close_bracket. rewrite Hsk. unfold rep_text. rewrite Ed1. simpl. destruct (N.eqb u 93) eqn:E93; [|reflexivity].
    apply N.eqb_eq in E93. subst u. destruct char_facts as [_ [_ [_ [_ [_ [_ [_ [_ [_ [_ [D _]]]]]]]]]]]. congruence. }
  rewrite Cb, Hsk.
  rewrite (scan_repeatability_ok d1 c d2 (w3 ++ 93%N :: rest) Hn1 Hu1 Hu2 Hc).
  - now apply close_bracket_ok.
  - destruct w3 as [|y w3']; simpl.
    + now destruct char_facts as [_ [_ [_ [_ [_ [_ [_ [_ [_ [_ [D _]]]]]]]]]]].
    + simpl in H3. apply andb_true_iff in H3. destruct H3 as [Hy _]. destruct (is_udigit y) eqn:Dy; [|reflexivity]. apply udigit_not_ws in Dy. congruence.
Qed.

Lemma scan_time w1 c w2 rest : all_ws w1 = true -> all_ws w2 = true -> (49 <=? c)%N && (c <=? 51)%N = true ->
  scan_atom (w1 ++ 85%N :: 66%N :: c :: w2 ++ 93%N :: rest) = Some (ATime [85; 66; c]%N, rest).
Proof.
  intros H1 H2 Hc. unfold scan_atom. rewrite skip_ws_app by exact H1. destruct char_facts as [_ [_ [_ [_ [_ [_ [W _]]]]]]].
  rewrite skip_ws_stop by exact W. cbv zeta. rewrite !after_hit, Hc. now apply close_bracket_ok.
Qed.

(* ---------- the lexer on a printed token list ---------- *)
Lemma lex_fuel_mono f : forall s ts, lex_fuel f s = Some ts -> forall f', f <= f' -> lex_fuel f' s = Some ts.
Proof.
  induction f as [|f IH]; intros s ts H f' Hle.
  - simpl in H. destruct (skip_ws s) eqn:E; [|discriminate]. destruct f'; simpl; rewrite E; exact H.
  - destruct f' as [|f']; [lia|]. simpl in *. destruct (skip_ws s) as [|c t]; [exact H|].
    assert (Q : forall x r, option_map (cons x) (lex_fuel f r) = Some ts -> option_map (cons x) (lex_fuel f' r) = Some ts).
    { intros x r Hx. destruct (lex_fuel f r) as [ts'|] eqn:E; [|discriminate]. rewrite (IH r ts' E f') by lia. exact Hx. }
    destruct (N.eqb c 40); [now apply Q|]. destruct (N.eqb c 41); [now apply Q|].
    destruct (N.eqb c 91); [destruct (scan_atom t) as [[a r]|]; [now apply Q|discriminate]|].
    destruct (op_of_char c); [now apply Q|discriminate].
Qed.


Lemma lex_step p w rest f ts : ptok_ok p = true -> all_ws w = true -> lex_fuel f rest = Some ts ->
  lex_fuel (Datatypes.S f) (w ++ render_ptok p ++ rest) = Some (tok_of p :: ts).
Proof.
  intros Hp Hw Hr. cbn [lex_fuel]. rewrite skip_ws_app by exact Hw.
  destruct char_facts as [W40 [W41 [W91 [_ [_ [_ [_ [Wop [Nop _]]]]]]]]].
  destruct p as [| |c r|w1 ds w2|w1 ds w2 rep|w1 c w2]; simpl render_ptok; simpl tok_of.
  - simpl app. rewrite skip_ws_stop by exact W40. simpl. now rewrite Hr.
  - simpl app. rewrite skip_ws_stop by exact W41. simpl. now rewrite Hr.
  - simpl in Hp. destruct (op_of_char c) as [r'|] eqn:Eo; [|discriminate].
    assert (Er : r = r') by (destruct r, r'; simpl in Hp; try discriminate; reflexivity). subst r'.
    assert (Hin : In c (flat_map rule_spellings all_rules)).
    { unfold op_of_char in Eo. apply find_some in Eo. destruct Eo as [Hr1 Hr2]. apply in_flat_map. exists r. split; [exact Hr1|].
      apply existsb_exists in Hr2. destruct Hr2 as [x [Hx Ex]]. apply N.eqb_eq in Ex. now subst. }
    rewrite forallb_forall in Wop, Nop. specialize (Wop c Hin). specialize (Nop c Hin).
    apply negb_true_iff in Wop. apply andb_true_iff in Nop. destruct Nop as [Nop N91]. apply andb_true_iff in Nop. destruct Nop as [N40 N41].
    apply negb_true_iff in N40, N41, N91.
    simpl app. rewrite skip_ws_stop by exact Wop. rewrite N40, N41, N91, Eo. simpl. now rewrite Hr.
  - simpl in Hp. repeat (apply andb_true_iff in Hp; destruct Hp as [Hp ?]).
    simpl app. rewrite skip_ws_stop by exact W91. simpl N.eqb. cbv iota.
    replace ((w1 ++ ds ++ w2 ++ [93%N]) ++ rest) with (w1 ++ ds ++ w2 ++ 93%N :: rest) by (now rewrite <- !app_assoc).
    rewrite scan_key by assumption. simpl. now rewrite Hr.
  - destruct rep as [[[[d1 c] d2] w3]|].
    + simpl in Hp. repeat (apply andb_true_iff in Hp; destruct Hp as [Hp ?]).
      simpl app. rewrite skip_ws_stop by exact W91. simpl N.eqb. cbv iota.
      replace ((w1 ++ ds ++ 80%N :: w2 ++ rep_text d1 c d2 ++ w3 ++ [93%N]) ++ rest) with (w1 ++ ds ++ 80%N :: w2 ++ rep_text d1 c d2 ++ w3 ++ 93%N :: rest)
        by (rewrite <- !app_assoc; simpl; rewrite <- !app_assoc; reflexivity).
      rewrite scan_pkg_rep; try assumption; [simpl; now rewrite Hr|]. apply andb_true_iff. split; assumption.
    + simpl in Hp. repeat (apply andb_true_iff in Hp; destruct Hp as [Hp ?]).
      simpl app. rewrite skip_ws_stop by exact W91. simpl N.eqb. cbv iota.
      replace ((w1 ++ ds ++ 80%N :: w2 ++ [93%N]) ++ rest) with (w1 ++ ds ++ 80%N :: w2 ++ 93%N :: rest) by (rewrite <- !app_assoc; simpl; rewrite <- !app_assoc; reflexivity).
      rewrite scan_pkg_plain by assumption. simpl. now rewrite Hr.
  - simpl in Hp. repeat (apply andb_true_iff in Hp; destruct Hp as [Hp ?]).
    simpl app. rewrite skip_ws_stop by exact W91. simpl N.eqb. cbv iota.
    replace ((w1 ++ 85%N :: 66%N :: c :: w2 ++ [93%N]) ++ rest) with (w1 ++ 85%N :: 66%N :: c :: w2 ++ 93%N :: rest) by (rewrite <- !app_assoc; simpl; rewrite <- !app_assoc; reflexivity).
    rewrite scan_time; try assumption; [simpl; now rewrite Hr|]. apply andb_true_iff. split; assumption.
Qed.

Theorem lex_render l trail : Forall (fun p => all_ws (fst p) = true /\ ptok_ok (snd p) = true) l -> all_ws trail = true ->
  lex (render l trail) = Some (map (fun p => tok_of (snd p)) l).
Proof.
  intros Hl Ht.
  assert (G : exists f, lex_fuel f (render l trail) = Some (map (fun p => tok_of (snd p)) l) /\ f <= length (render l trail)).
  { induction Hl as [|[w p] l [Hw Hp] _ IH]; unfold render; simpl.
    - exists 0. simpl. rewrite (skip_ws_all trail Ht). split; [reflexivity|lia].
    - destruct IH as [f [Hf Hle]]. exists (Datatypes.S f). split.
      + rewrite <- app_assoc. rewrite <- app_assoc. apply lex_step; auto.
      + unfold render in Hle. rewrite !app_length. simpl in *.
        assert (1 <= length (render_ptok p)) by (destruct p as [| | | | ? ? ? [[[[? ?] ?] ?]|]|]; simpl; lia). rewrite app_length in *. lia. }
  destruct G as [f [Hf Hle]]. unfold lex. eapply lex_fuel_mono; eauto.
Qed.

(* consequently the grouping computed by the parser depends on the written form only through the token list: two strings
   that print the same tokens with different spellings of the same rule, letter case or white space parse identically *)
Corollary same_tokens_same_parse l1 t1 l2 t2 :
  Forall (fun p => all_ws (fst p) = true /\ ptok_ok (snd p) = true) l1 -> all_ws t1 = true ->
  Forall (fun p => all_ws (fst p) = true /\ ptok_ok (snd p) = true) l2 -> all_ws t2 = true ->
  map (fun p => tok_of (snd p)) l1 = map (fun p => tok_of (snd p)) l2 ->
  parse_cond (render l1 t1) = parse_cond (render l2 t2).
Proof. intros A1 B1 A2 B2 E. unfold parse_cond. rewrite (lex_render l1 t1 A1 B1), (lex_render l2 t2 A2 B2), E. reflexivity. Qed.

(* non-vacuity: " [ 12 ] u( [3P 1..52 ]X[UB2])" is a rendering of well-formed printed tokens *)
Definition pop (c : N) : ptok := match op_of_char c with Some r => POp c r | None => PL end.
Example render_example :
  let l := [([32%N], PKey [32%N] [49;50]%N [32%N]); ([32%N], pop 117%N); ([], PL);
            ([32%N], PPkg [] [51%N] [32%N] (Some ([49%N], 53%N, [50%N], [32%N]))); ([], pop 88%N); ([], PTime [] 50%N []); ([], PR)] in
  Forall (fun p => all_ws (fst p) = true /\ ptok_ok (snd p) = true) l /\
  lex (render l []) = Some (map (fun p => tok_of (snd p)) l).
Proof. cbv zeta. split; [repeat (constructor; [split; vm_compute; reflexivity|]); constructor|vm_compute; reflexivity]. Qed.
