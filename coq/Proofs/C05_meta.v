From Ahb Require Import Model.Prelude Model.Grammar Gen.Gen_logic Gen.Gen_ranges Model.Logic Model.EvalRC Model.Spec
  Proofs.C03_logic Proofs.C04_eval.
Set Implicit Arguments.

(* e2 may replace e1 anywhere below U/O/X without changing domain membership, validity or meaning *)
Record sub_ok (e1 e2 : kexpr) : Prop := {
  so_sem : forall a, sem a e1 = sem a e2;
  so_carries : carries_rc e1 = carries_rc e2;
  so_hint : hint_leaf e2 = true -> hint_leaf e1 = true;
  so_fc : fc_leaf e2 = true -> fc_leaf e1 = true;
  so_dom : dom e1 = true -> dom e2 = true;
  so_valid : valid e1 = true -> valid e2 = true
}.

Lemma or_xor_ok_mono_l p1 p2 r : sub_ok p1 p2 -> or_xor_ok p1 r = true -> or_xor_ok p2 r = true.
Proof.
  intros [_ C H F _ _]. unfold or_xor_ok. rewrite <- C.
  destruct (hint_leaf p2), (fc_leaf p2), (hint_leaf p1), (fc_leaf p1), (hint_leaf r), (fc_leaf r), (carries_rc p1), (carries_rc r);
    simpl; intros; auto; try discriminate; try (specialize (H eq_refl); discriminate); try (specialize (F eq_refl); discriminate).
Qed.
Lemma or_xor_ok_sym l r : or_xor_ok l r = or_xor_ok r l.
Proof.
  unfold or_xor_ok. destruct (hint_leaf l), (fc_leaf l), (hint_leaf r), (fc_leaf r), (carries_rc l), (carries_rc r); reflexivity.
Qed.
Lemma or_xor_ok_mono_r p1 p2 l : sub_ok p1 p2 -> or_xor_ok l p1 = true -> or_xor_ok l p2 = true.
Proof. intros H. rewrite (or_xor_ok_sym l p1), (or_xor_ok_sym l p2). now apply or_xor_ok_mono_l. Qed.

Definition same_leafness (p1 p2 : kexpr) : Prop := fc_leaf p1 = fc_leaf p2 /\ hint_leaf p1 = hint_leaf p2.

Lemma bin_cong_l b p1 p2 r : sub_ok p1 p2 -> (b = BThen -> same_leafness p1 p2) -> sub_ok (EBin b p1 r) (EBin b p2 r).
Proof.
  intros H Hth. pose proof H as [Sm C Hh Hf D V]. constructor.
  - intros a. destruct b; simpl; rewrite ?Sm; auto. destruct (Hth eq_refl) as [E1 E2]. now rewrite E1.
  - simpl. now rewrite C.
  - discriminate.
  - discriminate.
  - destruct b; simpl; intros Hd; [apply andb_true_iff in Hd; destruct Hd as [Hd1 Hd2]; rewrite (D Hd1), Hd2; reflexivity|apply andb_true_iff in Hd; destruct Hd as [Hd1 Hd2]; rewrite (D Hd1), Hd2; reflexivity|apply andb_true_iff in Hd; destruct Hd as [Hd1 Hd2]; rewrite (D Hd1), Hd2; reflexivity|apply andb_true_iff in Hd; destruct Hd as [Hd Hat]; apply andb_true_iff in Hd; destruct Hd as [Hd1 Hd2]; rewrite (D Hd1), Hd2; simpl; destruct (Hth eq_refl) as [E1 E2]; unfold attachable in *; rewrite <- E1, <- E2, <- C; exact Hat].
  - destruct b; simpl; intros Hv; [apply andb_true_iff in Hv; destruct Hv as [Hv Hok]; apply andb_true_iff in Hv; destruct Hv as [Hv1 Hv2]; rewrite (V Hv1), Hv2, (@or_xor_ok_mono_l _ _ _ H Hok); reflexivity|apply andb_true_iff in Hv; destruct Hv as [Hv Hok]; apply andb_true_iff in Hv; destruct Hv as [Hv1 Hv2]; rewrite (V Hv1), Hv2, (@or_xor_ok_mono_l _ _ _ H Hok); reflexivity|apply andb_true_iff in Hv; destruct Hv as [Hv1 Hv2]; rewrite (V Hv1), Hv2; reflexivity|apply andb_true_iff in Hv; destruct Hv as [Hv1 Hv2]; rewrite (V Hv1), Hv2; reflexivity].
Qed.

Lemma bin_cong_r b p1 p2 l : sub_ok p1 p2 -> (b = BThen -> same_leafness p1 p2) -> sub_ok (EBin b l p1) (EBin b l p2).
Proof.
  intros H Hth. pose proof H as [Sm C Hh Hf D V]. constructor.
  - intros a. destruct b; simpl; rewrite ?Sm; auto.
  - simpl. now rewrite C.
  - discriminate.
  - discriminate.
  - destruct b; simpl; intros Hd; [apply andb_true_iff in Hd; destruct Hd as [Hd1 Hd2]; rewrite (D Hd2), Hd1; reflexivity|apply andb_true_iff in Hd; destruct Hd as [Hd1 Hd2]; rewrite (D Hd2), Hd1; reflexivity|apply andb_true_iff in Hd; destruct Hd as [Hd1 Hd2]; rewrite (D Hd2), Hd1; reflexivity|apply andb_true_iff in Hd; destruct Hd as [Hd Hat]; apply andb_true_iff in Hd; destruct Hd as [Hd1 Hd2]; rewrite (D Hd2), Hd1; simpl; destruct (Hth eq_refl) as [E1 E2]; unfold attachable in *; rewrite <- E1, <- E2, <- C; exact Hat].
  - destruct b; simpl; intros Hv; [apply andb_true_iff in Hv; destruct Hv as [Hv Hok]; apply andb_true_iff in Hv; destruct Hv as [Hv1 Hv2]; rewrite (V Hv2), Hv1, (@or_xor_ok_mono_r _ _ _ H Hok); reflexivity|apply andb_true_iff in Hv; destruct Hv as [Hv Hok]; apply andb_true_iff in Hv; destruct Hv as [Hv1 Hv2]; rewrite (V Hv2), Hv1, (@or_xor_ok_mono_r _ _ _ H Hok); reflexivity|apply andb_true_iff in Hv; destruct Hv as [Hv1 Hv2]; rewrite (V Hv2), Hv1; reflexivity|apply andb_true_iff in Hv; destruct Hv as [Hv1 Hv2]; rewrite (V Hv2), Hv1; reflexivity].
Qed.

Lemma plug_not_leaf (c : ctx) e : c <> CHole -> fc_leaf (plug c e) = false /\ hint_leaf (plug c e) = false.
Proof. destruct c; simpl; intros H; auto. congruence. Qed.

Theorem plug_ok c e1 e2 : sub_ok e1 e2 -> hole_under_uox c = true -> sub_ok (plug c e1) (plug c e2).
Proof.
  intros H. induction c as [|b c IH r|b l c IH]; intros Hc; simpl plug.
  - exact H.
  - assert (Hc' : hole_under_uox c = true) by (destruct b, c; simpl in Hc; auto; discriminate).
    apply bin_cong_l; [now apply IH|]. intros ->. destruct c; [simpl in Hc; discriminate| |];
      unfold same_leafness; simpl; auto.
  - assert (Hc' : hole_under_uox c = true) by (destruct b, c; simpl in Hc; auto; discriminate).
    apply bin_cong_r; [now apply IH|]. intros ->. destruct c; [simpl in Hc; discriminate| |];
      unfold same_leafness; simpl; auto.
Qed.

(* ---------- the four transformations ---------- *)
Lemma is_kind_dom kd k : is_kind kd k = true -> dom (EAtom k) = true.
Proof. unfold is_kind. simpl. destruct (kind_of k); auto. Qed.
Lemma is_kind_excl k kd kd' : is_kind kd k = true -> kd <> kd' -> is_kind kd' k = false.
Proof. unfold is_kind. destruct (kind_of k) as [x|]; [|discriminate]. destruct kd, kd', x; simpl; congruence. Qed.

Lemma sub_and_hint_r e h : is_kind KHint h = true -> sub_ok e (EBin BAnd e (EAtom h)).
Proof.
  intros Hh. constructor; simpl; try discriminate.
  - intros a. rewrite (is_kind_excl _ Hh (kd' := KRc)) by discriminate. now destruct (neutral_identity (sem a e)) as [-> _].
  - rewrite (is_kind_excl _ Hh (kd' := KRc)) by discriminate. now rewrite orb_false_r.
  - intros ->. simpl. pose proof (is_kind_dom _ _ Hh) as D. simpl in D. exact D.
  - intros ->. reflexivity.
Qed.
Lemma sub_and_hint_l e h : is_kind KHint h = true -> sub_ok e (EBin BAnd (EAtom h) e).
Proof.
  intros Hh. constructor; simpl; try discriminate.
  - intros a. rewrite (is_kind_excl _ Hh (kd' := KRc)) by discriminate. now destruct (neutral_identity (sem a e)) as [_ [-> _]].
  - now rewrite (is_kind_excl _ Hh (kd' := KRc)) by discriminate.
  - intros ->. pose proof (is_kind_dom _ _ Hh) as D. simpl in D. rewrite D. reflexivity.
  - intros ->. reflexivity.
Qed.

Lemma carries_not_fc_leaf e : carries_rc e = true -> fc_leaf e = false.
Proof. intros H. destruct (fc_leaf e) eqn:E; auto. destruct (fc_leaf_props _ E). congruence. Qed.

Lemma carries_not_hint_leaf e : carries_rc e = true -> hint_leaf e = false.
Proof.
  destruct e as [x|]; simpl; auto. unfold hint_leaf, leaf_is, is_kind. destruct (kind_of x) as [[]|]; simpl; congruence.
Qed.

Lemma sub_attach_fc_r e k : is_kind KFc k = true -> carries_rc e = true -> sub_ok e (EBin BThen e (EAtom k)).
Proof.
  intros Hk Hc. constructor; simpl; try discriminate.
  - intros a. now rewrite (carries_not_fc_leaf _ Hc).
  - rewrite (is_kind_excl _ Hk (kd' := KRc)) by discriminate. now rewrite orb_false_r.
  - intros ->. pose proof (is_kind_dom _ _ Hk) as D. simpl in D. rewrite D. unfold fc_leaf, leaf_is, attachable. rewrite Hk, Hc.
    simpl. now rewrite !orb_true_r.
  - intros ->. reflexivity.
Qed.
Lemma sub_attach_fc_l e k : is_kind KFc k = true -> carries_rc e = true -> sub_ok e (EBin BThen (EAtom k) e).
Proof.
  intros Hk Hc. constructor; simpl; try discriminate.
  - intros a. unfold fc_leaf, leaf_is. now rewrite Hk.
  - now rewrite (is_kind_excl _ Hk (kd' := KRc)) by discriminate.
  - intros ->. pose proof (is_kind_dom _ _ Hk) as D. simpl in D. rewrite D. unfold fc_leaf, leaf_is, attachable. rewrite Hk, Hc.
    simpl. now rewrite !orb_true_r.
  - intros ->. reflexivity.
Qed.

Lemma sub_swap b l r : b <> BThen -> sub_ok (EBin b l r) (EBin b r l).
Proof.
  intros Hb. constructor; simpl; try discriminate.
  - intros a. destruct b; try congruence; [apply or_comm|apply xor_comm|apply and_comm].
  - apply orb_comm.
  - destruct b; try congruence; intros H; apply andb_true_iff in H; destruct H as [H1 H2]; now rewrite H1, H2.
  - destruct b; try congruence; intros H.
    + apply andb_true_iff in H; destruct H as [H Hok]; apply andb_true_iff in H; destruct H as [H1 H2].
      now rewrite H1, H2, (or_xor_ok_sym r l), Hok.
    + apply andb_true_iff in H; destruct H as [H Hok]; apply andb_true_iff in H; destruct H as [H1 H2].
      now rewrite H1, H2, (or_xor_ok_sym r l), Hok.
    + apply andb_true_iff in H; destruct H as [H1 H2]. now rewrite H1, H2.
Qed.

(* ---------- monotonicity in the information order ---------- *)
Lemma refines_op k x y x' y' : refines x x' -> refines y y' -> refines (op3 k x y) (op3 k x' y').
Proof.
  destruct k as [|[|k]]; simpl; destruct x, y; simpl; intros Hx Hy;
    try (destruct Hx as [Hx|Hx]); try (destruct Hy as [Hy|Hy]); subst; simpl; auto.
Qed.

Lemma sem_mono a a' e : refines_env a a' -> refines (sem a e) (sem a' e).
Proof.
  intros H. induction e as [k|b l IHl r IHr]; simpl.
  - destruct (is_kind KRc k); [apply H|reflexivity].
  - destruct b.
    + exact (refines_op 1 _ _ _ _ IHl IHr).
    + exact (refines_op 2 _ _ _ _ IHl IHr).
    + exact (refines_op 0 _ _ _ _ IHl IHr).
    + destruct (fc_leaf l); assumption.
Qed.

Lemma definite_stable a a' e : refines_env a a' -> sem a e <> C_UNKNOWN -> sem a' e = sem a e.
Proof.
  intros H Hd. pose proof (sem_mono e H) as R. destruct (sem a e); simpl in R; auto. congruence.
Qed.

(* ---------- lifting to evaluation results ---------- *)
Lemma eval_same_outcome a rho e1 e2 : sub_ok e1 e2 -> dom e1 = true -> valid e1 = true ->
  env_ok a rho e1 -> env_ok a rho e2 ->
  exists n1 n2, eval_rc rho e1 = Ok n1 /\ eval_rc rho e2 = Ok n2 /\ st n2 = st n1 /\                 r_fulfilled (rc_result n2) = r_fulfilled (rc_result n1) /\ r_conditional (rc_result n2) = r_conditional (rc_result n1).
Proof.
  intros H D V E1 E2.
  pose proof (eval_char D E1) as C1. rewrite V in C1. destruct C1 as [n1 [X1 [S1 _]]].
  pose proof (eval_char (so_dom H D) E2) as C2. rewrite (so_valid H V) in C2. destruct C2 as [n2 [X2 [S2 _]]].
  exists n1, n2. repeat split; auto.
  - rewrite S1, S2. symmetry. apply (so_sem H).
  - unfold rc_result. rewrite S1, S2, (so_sem H a). destruct (outcome_of (sem a e2)); reflexivity.
  - unfold rc_result. rewrite S1, S2, (so_sem H a). destruct (outcome_of (sem a e2)); reflexivity.
Qed.

Definition same_requirement (rho : env) (e1 e2 : kexpr) : Prop :=
  exists n1 n2, eval_rc rho e1 = Ok n1 /\ eval_rc rho e2 = Ok n2 /\ st n2 = st n1 /\
    r_fulfilled (rc_result n2) = r_fulfilled (rc_result n1) /\ r_conditional (rc_result n2) = r_conditional (rc_result n1).

Lemma transformed_same c e1 e2 a rho : sub_ok e1 e2 -> hole_under_uox c = true ->
  dom (plug c e1) = true -> valid (plug c e1) = true -> env_ok a rho (plug c e1) -> env_ok a rho (plug c e2) ->
  dom (plug c e2) = true /\ valid (plug c e2) = true /\ same_requirement rho (plug c e1) (plug c e2).
Proof.
  intros H Hc D V E1 E2. pose proof (plug_ok c H Hc) as P.
  split; [exact (so_dom P D)|]. split; [exact (so_valid P V)|].
  exact (eval_same_outcome P D V E1 E2).
Qed.

Lemma hint_and_operand c e h a rho : hole_under_uox c = true -> is_kind KHint h = true ->
  dom (plug c e) = true -> valid (plug c e) = true ->
  env_ok a rho (plug c e) -> env_ok a rho (plug c (EBin BAnd e (EAtom h))) ->
  dom (plug c (EBin BAnd e (EAtom h))) = true /\ valid (plug c (EBin BAnd e (EAtom h))) = true /\
  same_requirement rho (plug c e) (plug c (EBin BAnd e (EAtom h))).
Proof. intros Hc Hh. apply transformed_same; auto. now apply sub_and_hint_r. Qed.

Lemma attach_fc_anywhere c e k a rho : hole_under_uox c = true -> is_kind KFc k = true -> carries_rc e = true ->
  dom (plug c e) = true -> valid (plug c e) = true ->
  env_ok a rho (plug c e) -> env_ok a rho (plug c (EBin BThen e (EAtom k))) ->
  dom (plug c (EBin BThen e (EAtom k))) = true /\ valid (plug c (EBin BThen e (EAtom k))) = true /\
  same_requirement rho (plug c e) (plug c (EBin BThen e (EAtom k))).
Proof. intros Hc Hk Hcar. apply transformed_same; auto. now apply sub_attach_fc_r. Qed.

Lemma swap_anywhere c b l r a rho : hole_under_uox c = true -> b <> BThen ->
  dom (plug c (EBin b l r)) = true -> valid (plug c (EBin b l r)) = true ->
  env_ok a rho (plug c (EBin b l r)) -> env_ok a rho (plug c (EBin b r l)) ->
  dom (plug c (EBin b r l)) = true /\ valid (plug c (EBin b r l)) = true /\
  same_requirement rho (plug c (EBin b l r)) (plug c (EBin b r l)).
Proof. intros Hc Hb. apply transformed_same; auto. now apply sub_swap. Qed.

(* attaching a format constraint is also possible where the hole is the partner of an existing juxtaposition:
   the new operand still carries the requirement constraint, so no restriction on the context is needed there *)
Lemma attach_fc_under_then c e k : is_kind KFc k = true -> carries_rc e = true ->
  sub_ok (plug c e) (plug c (EBin BThen e (EAtom k))).
Proof.
  intros Hk Hc. induction c as [|b c IH r|b l c IH]; simpl.
  - now apply sub_attach_fc_r.
  - apply bin_cong_l; auto. intros ->. destruct c; simpl; unfold same_leafness; simpl; auto.
    rewrite (carries_not_fc_leaf _ Hc). split; auto. now apply carries_not_hint_leaf.
  - apply bin_cong_r; auto. intros ->. destruct c; simpl; unfold same_leafness; simpl; auto.
    rewrite (carries_not_fc_leaf _ Hc). split; auto. now apply carries_not_hint_leaf.
Qed.

Example hint_and_example :
  let c := CL BOr CHole (EAtom (k 2)) in
  hole_under_uox c = true /\ is_kind KHint (k 501) = true /\
  dom (plug c (EAtom (k 1))) = true /\ valid (plug c (EAtom (k 1))) = true /\
  valid (plug c (EBin BAnd (EAtom (k 1)) (EAtom (k 501)))) = true.
Proof. repeat split; reflexivity. Qed.

Lemma attach_fc_any c e k a rho : is_kind KFc k = true -> carries_rc e = true ->
  dom (plug c e) = true -> valid (plug c e) = true ->
  env_ok a rho (plug c e) -> env_ok a rho (plug c (EBin BThen e (EAtom k))) ->
  dom (plug c (EBin BThen e (EAtom k))) = true /\ valid (plug c (EBin BThen e (EAtom k))) = true /\
  same_requirement rho (plug c e) (plug c (EBin BThen e (EAtom k))).
Proof.
  intros Hk Hc D V E1 E2. pose proof (@attach_fc_under_then c e k Hk Hc) as P.
  exact (conj (so_dom P D) (conj (so_valid P V) (eval_same_outcome P D V E1 E2))).
Qed.
