(* The lexer model accepts exactly the renderings of printed token lists (converse of Proofs/C01_lexprint.v), hence the
   language of the condition parser is characterised at character level, and lexing is compositional. *)
From Coq Require Import Lia.
From Ahb Require Import Model.Prelude Model.Grammar Gen.Gen_grammar Model.Lex Proofs.C01_lexprint Proofs.C01_print.

Lemma skip_ws_split s : exists w, all_ws w = true /\ s = w ++ skip_ws s /\ match skip_ws s with [] => True | c :: _ => is_ws c = false end.
Proof.
  induction s as [|c t IH]; simpl.
  - exists []. auto.
  - destruct (is_ws c) eqn:E.
    + destruct IH as [w [Hw [Hs Hh]]]. exists (c :: w). simpl. rewrite E, Hw. repeat split; auto. now rewrite <- Hs.
    + exists []. simpl. auto.
Qed.

Lemma span_split p s : s = fst (span p s) ++ snd (span p s) /\ forallb p (fst (span p s)) = true /\
  match snd (span p s) with [] => True | x :: _ => p x = false end.
Proof.
  induction s as [|c t IH]; simpl; [auto|]. destruct (p c) eqn:E.
  - destruct (span p t) as [a b]. simpl in *. destruct IH as [H1 [H2 H3]]. rewrite E, H2. repeat split; auto. now rewrite <- H1.
  - simpl. rewrite E. auto.
Qed.

Lemma after_inv c s r : after c s = Some r -> s = c :: r.
Proof. destruct s as [|x t]; simpl; [discriminate|]. destruct (N.eqb x c) eqn:E; [|discriminate]. apply N.eqb_eq in E. intros H. inversion H. now subst. Qed.

Lemma close_bracket_inv a s res : close_bracket a s = Some res -> fst res = a /\ exists w, all_ws w = true /\ s = w ++ 93%N :: snd res.
Proof.
  unfold close_bracket. destruct (after 93 (skip_ws s)) as [r|] eqn:E; [|discriminate]. intros H. inversion H; subst. simpl. split; [reflexivity|].
  apply after_inv in E. destruct (skip_ws_split s) as [w [Hw [Hs _]]]. exists w. split; [exact Hw|]. now rewrite <- E.
Qed.

Lemma scan_repeatability_inv s rep r : scan_repeatability s = Some (rep, r) ->
  exists d1 c d2, rep = rep_text d1 c d2 /\ nonempty d1 = true /\ all_udigits d1 = true /\ all_udigits d2 = true /\
                  (49 <=? c)%N && (c <=? 57)%N = true /\ s = rep ++ r.
Proof.
  unfold scan_repeatability. pose proof (span_split is_udigit s) as [S1 [S2 _]]. destruct (span is_udigit s) as [d1 r1]. simpl in *.
  destruct d1 as [|x d1']; [discriminate|]. destruct (after 46 r1) as [r1a|] eqn:A1; [|discriminate]. destruct (after 46 r1a) as [[|c r2]|] eqn:A2; try discriminate.
  destruct ((49 <=? c)%N && (c <=? 57)%N) eqn:Hc; [|discriminate].
  pose proof (span_split is_udigit r2) as [T1 [T2 _]]. destruct (span is_udigit r2) as [d2 r3]. simpl in *. intros H. inversion H; subst rep r. clear H.
  apply after_inv in A1, A2. exists (x :: d1'), c, d2. repeat split; auto.
  unfold rep_text. rewrite S1, A1, A2, T1. simpl. rewrite <- !app_assoc. reflexivity.
Qed.

Lemma ptok_ok_and (l : list bool) : fold_right andb true l = true -> Forall (fun b => b = true) l.
Proof. induction l as [|b t IH]; simpl; intros H; constructor; apply andb_true_iff in H; tauto. Qed.

Lemma scan_atom_inv s a r : scan_atom s = Some (a, r) -> exists p, ptok_ok p = true /\ tok_of p = TA a /\ 91%N :: s = render_ptok p ++ r.
Proof.
  unfold scan_atom. destruct (skip_ws_split s) as [w1 [Hw1 [Hs _]]]. set (s0 := skip_ws s) in *. cbv zeta.
  destruct (after 85 s0) as [s1|] eqn:A85.
  - destruct (after 66 s1) as [[|c r0]|] eqn:A66; try discriminate. destruct ((49 <=? c)%N && (c <=? 51)%N) eqn:Hc; [|discriminate].
    intros H. apply close_bracket_inv in H. simpl in H. destruct H as [-> [w2 [Hw2 Hr]]].
    apply after_inv in A85, A66. exists (PTime w1 c w2). repeat split.
    + simpl. rewrite Hw1, Hw2. simpl. apply andb_true_iff in Hc. destruct Hc as [-> ->]. reflexivity.
    + simpl. rewrite Hs, A85, A66, Hr. rewrite <- ?app_assoc. simpl. rewrite <- ?app_assoc. reflexivity.
  - pose proof (span_split is_ascii_digit s0) as [S1 [S2 _]]. destruct (span is_ascii_digit s0) as [ds r1]. simpl in S1, S2.
    destruct ds as [|d0 ds']; [discriminate|]. set (ds := d0 :: ds') in *.
    assert (Hnd : nonempty ds = true) by reflexivity. assert (Hne : match ds with [] => False | _ :: _ => True end) by exact I. clearbody ds. fold (all_digits ds) in S2.
    destruct ds as [|d0' ds'']; [contradiction|]. set (ds := d0' :: ds'') in *. clearbody ds. clear Hne.
    destruct (after 80 r1) as [r2|] eqn:A80.
    + apply after_inv in A80.
      destruct (close_bracket (APkg (ds ++ [80%N]) None) r2) as [res|] eqn:CB.
      * intros H. inversion H; subst res. clear H. apply close_bracket_inv in CB. simpl in CB. destruct CB as [-> [w2 [Hw2 Hr]]].
        exists (PPkg w1 ds w2 None). repeat split.
        -- cbn [ptok_ok]. rewrite Hw1, Hw2, Hnd, S2. reflexivity.
        -- simpl. rewrite Hs, S1, A80, Hr. rewrite <- ?app_assoc. simpl. rewrite <- ?app_assoc. reflexivity.
      * destruct (skip_ws_split r2) as [w2 [Hw2 [Hr2 _]]].
        destruct (scan_repeatability (skip_ws r2)) as [[rep r3]|] eqn:SR; [|discriminate].
        intros H. apply close_bracket_inv in H. simpl in H. destruct H as [-> [w3 [Hw3 Hr3]]].
        apply scan_repeatability_inv in SR. destruct SR as [d1 [c [d2 [-> [Hn [Hu1 [Hu2 [Hc Hsr]]]]]]]].
        exists (PPkg w1 ds w2 (Some (d1, c, d2, w3))). repeat split.
        -- cbn [ptok_ok]. rewrite Hw1, Hw2, Hw3, Hnd, S2, Hn, Hu1, Hu2. simpl. apply andb_true_iff in Hc. destruct Hc as [-> ->]. reflexivity.
        -- simpl. rewrite Hs, S1, A80, Hr2, Hsr, Hr3. rewrite <- ?app_assoc. simpl. rewrite <- ?app_assoc. reflexivity.
    + intros H. apply close_bracket_inv in H. simpl in H. destruct H as [-> [w2 [Hw2 Hr]]].
      exists (PKey w1 ds w2). repeat split.
      * cbn [ptok_ok]. rewrite Hw1, Hw2, Hnd, S2. reflexivity.
      * simpl. rewrite Hs, S1, Hr. rewrite <- ?app_assoc. simpl. rewrite <- ?app_assoc. reflexivity.
Qed.

Definition ok_pair (p : text * ptok) : Prop := all_ws (fst p) = true /\ ptok_ok (snd p) = true.

Lemma lex_fuel_inv f : forall s ts, lex_fuel f s = Some ts ->
  exists l trail, Forall ok_pair l /\ all_ws trail = true /\ s = render l trail /\ ts = map (fun p => tok_of (snd p)) l.
Proof.
  induction f as [|f IH]; intros s ts H; simpl in H; destruct (skip_ws_split s) as [w [Hw [Hs _]]].
  - destruct (skip_ws s) as [|c t] eqn:E; [|discriminate]. rewrite app_nil_r in Hs. inversion H. exists [], w. unfold render. simpl. auto.
  - destruct (skip_ws s) as [|c t] eqn:E.
    + rewrite app_nil_r in Hs. inversion H. exists [], w. unfold render. simpl. auto.
    + assert (Q : forall p x r, ptok_ok p = true -> tok_of p = x -> c :: t = render_ptok p ++ r -> option_map (cons x) (lex_fuel f r) = Some ts ->
                  exists l trail, Forall ok_pair l /\ all_ws trail = true /\ s = render l trail /\ ts = map (fun p => tok_of (snd p)) l).
      { intros p x r Hp Hx Hr Hl. destruct (lex_fuel f r) as [ts'|] eqn:L; [|discriminate]. inversion Hl; subst ts. clear Hl.
        destruct (IH r ts' L) as [l [trail [Hl [Ht [Er Et]]]]]. exists ((w, p) :: l), trail. repeat split; auto.
        - constructor; [split; assumption|assumption].
        - rewrite render_cons, <- Er, <- Hr. exact Hs.
        - simpl. now rewrite Hx, Et. }
      destruct (N.eqb c 40) eqn:E40; [apply N.eqb_eq in E40; subst c; now apply (Q PL TL t)|].
      destruct (N.eqb c 41) eqn:E41; [apply N.eqb_eq in E41; subst c; now apply (Q PR TR t)|].
      destruct (N.eqb c 91) eqn:E91.
      * apply N.eqb_eq in E91; subst c. destruct (scan_atom t) as [[a r]|] eqn:SA; [|discriminate].
        destruct (scan_atom_inv t a r SA) as [p [Hp [Hx Hr]]]. now apply (Q p (TA a) r).
      * destruct (op_of_char c) as [r|] eqn:Eo; [|discriminate].
        apply (Q (POp c r) (TO r) t); auto. simpl. rewrite Eo. unfold rule_eqb. apply Nat.eqb_refl.
Qed.

(* the lexer accepts exactly the renderings of well-formed printed tokens *)
Theorem lex_iff s ts : lex s = Some ts <->
  exists l trail, Forall ok_pair l /\ all_ws trail = true /\ s = render l trail /\ ts = map (fun p => tok_of (snd p)) l.
Proof.
  split.
  - apply lex_fuel_inv.
  - intros [l [trail [Hl [Ht [-> ->]]]]]. now apply lex_render.
Qed.

(* lexing is compositional *)
Lemma render_app l1 t1 l2 t2 : exists l t, render l1 t1 ++ render l2 t2 = render l t /\
  (Forall ok_pair l1 -> all_ws t1 = true -> Forall ok_pair l2 -> all_ws t2 = true -> Forall ok_pair l /\ all_ws t = true) /\
  map (fun p => tok_of (snd p)) l = map (fun p => tok_of (snd p)) l1 ++ map (fun p => tok_of (snd p)) l2.
Proof.
  destruct l2 as [|[w p] l2'].
  - exists l1, (t1 ++ t2). unfold render. simpl. rewrite app_nil_r, <- app_assoc. repeat split; auto.
    unfold all_ws in *. rewrite forallb_app. now apply andb_true_iff.
  - exists (l1 ++ (t1 ++ w, p) :: l2'), t2. repeat split.
    + unfold render. rewrite map_app, concat_app. simpl. now rewrite <- !app_assoc.
    + apply Forall_app. split; [assumption|]. inversion H1 as [|? ? [Hw Hp] Hl2]; subst. constructor; [|assumption]. split; [|exact Hp].
      simpl in *. unfold all_ws in *. rewrite forallb_app. now apply andb_true_iff.
    + assumption.
    + rewrite map_app. reflexivity.
Qed.

Theorem lex_app s1 s2 ts1 ts2 : lex s1 = Some ts1 -> lex s2 = Some ts2 -> lex (s1 ++ s2) = Some (ts1 ++ ts2).
Proof.
  intros H1 H2. apply lex_iff in H1, H2. destruct H1 as [l1 [t1 [A1 [B1 [-> ->]]]]]. destruct H2 as [l2 [t2 [A2 [B2 [-> ->]]]]].
  destruct (render_app l1 t1 l2 t2) as [l [t [E [Hok Em]]]]. destruct (Hok A1 B1 A2 B2) as [A B]. rewrite E, <- Em. now apply lex_render.
Qed.

(* The accepted language at character level: a string is accepted by parse_condition_expression_to_tree's model iff it is a
   writing (any spelling of the operators, any white space) of the bracketed token sequence of a forest that the grammar
   of the docstring derives. *)
From Ahb Require Import Proofs.C02_language.
Theorem accepted_language s : (exists t, parse_cond s = Ok t) <->
  exists its l trail, (exists e, GFc its e) /\ Forall ok_pair l /\ all_ws trail = true /\
                      map (fun p => tok_of (snd p)) l = untoks its /\ s = render l trail.
Proof.
  rewrite parse_cond_accepts_iff. split.
  - intros [ts [its [L [G W]]]]. apply lex_iff in L. destruct L as [l [trail [A [B [-> ->]]]]]. apply group_iff in G.
    exists its, l, trail. repeat split; auto. now apply wf_iff_grammar.
  - intros [its [l [trail [W [A [B [E ->]]]]]]]. exists (untoks its), its. repeat split.
    + rewrite <- E. now apply lex_render.
    + apply group_untoks.
    + now apply wf_iff_grammar.
Qed.
