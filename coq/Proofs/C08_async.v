(* format_constraint_evaluation under every schedule: the program of Model/EvalFCAsync.v returns what the sequential model returns, whatever the order
   in which the single format constraints are evaluated; every single evaluation is handed the text the ContextVar holds in the evaluating task. *)
From Ahb Require Import Model.Prelude Model.Grammar Model.EvalRC Model.EvalFC Model.Async Model.NodeBuilderAsync Model.EvalFCAsync
  Proofs.C12_async Proofs.C04_async.

Lemma eval_fc_by_lookup beta e : eval_fc beta e = eval_fc_by (lookup beta) e.
Proof. induction e as [k|b l IHl r IHr]; simpl; [reflexivity|]. rewrite IHl, IHr. reflexivity. Qed.

Lemma eval_fc_by_ext (f g : text -> option efc) e : (forall k, In k (keys_of e) -> f k = g k) -> eval_fc_by f e = eval_fc_by g e.
Proof.
  induction e as [k|b l IHl r IHr]; simpl; intros H.
  - rewrite (H k (or_introl eq_refl)). reflexivity.
  - rewrite IHl, IHr; [reflexivity| |]; intros k Hk; apply H; apply in_or_app; auto.
Qed.

(* the first binding of a key in the list the sequential model builds is that key's value too *)
Lemma lookup_first_mapM (f : text -> result efc) (l : list text) : forall beta, mapM (fun k => do v <- f k ;; Ok (k, v)) l = Ok beta ->
  forall k, In k l -> exists v, f k = Ok v /\ lookup beta k = Some v.
Proof.
  induction l as [|a t IH]; intros beta H k Hk; [destruct Hk|].
  simpl in H. destruct (f a) as [va|] eqn:Fa; simpl in H; [|discriminate].
  destruct (mapM _ t) as [bt|] eqn:Ft; simpl in H; [|discriminate]. inversion H; subst. simpl.
  destruct (text_eqb k a) eqn:E.
  - apply text_eqb_eq in E. subst. eauto.
  - destruct Hk as [->|Hk]; [rewrite text_eqb_refl in E; discriminate|]. now apply IH.
Qed.

Lemma mapM_pairs (f : text -> result efc) (l : list text) :
  mapM (fun k => do v <- f k ;; Ok (k, v)) l = (do vs <- mapM f l ;; Ok (combine l vs)).
Proof.
  induction l as [|a t IH]; [reflexivity|]. simpl. destruct (f a) as [va|]; simpl; [|reflexivity].
  rewrite IH. destruct (mapM f t); reflexivity.
Qed.

Section Refine.
Variable U : Type.
Variable fcp : text -> fv U -> prog (fv U).
Notation fc_prog := (fc_prog U fcp).
Notation single_of := (single_of U fcp).

Theorem den_fc c e : as_result (den c (fc_prog e)) = fc_evaluation_gen (single_of c) e.
Proof.
  destruct e as [t|]; [|reflexivity]. unfold EvalFCAsync.fc_prog, fc_evaluation_gen. cbn [den as_result]. rewrite !map_map.
  change (map (fun k => as_single (den c (Get TEXTV (fcp k)))) (keys_of t)) with (map (single_of c) (keys_of t)).
  rewrite sequence_map, mapM_pairs.
  destruct (mapM (single_of c) (keys_of t)) as [vals|x] eqn:M; cbn [bind]; [|reflexivity].
  rewrite eval_fc_by_lookup. apply eval_fc_by_ext. intros k Hk.
  destruct (lookup_last_mapM (single_of c) (keys_of t) vals M k Hk) as (v & Fv & L). rewrite L.
  assert (P : mapM (fun k0 => do v0 <- single_of c k0 ;; Ok (k0, v0)) (keys_of t) = Ok (combine (keys_of t) vals)) by (rewrite mapM_pairs, M; reflexivity).
  destruct (lookup_first_mapM (single_of c) (keys_of t) _ P k Hk) as (v' & Fv' & L'). rewrite L'. congruence.
Qed.

Theorem fc_every_schedule c e (r : fv U) :
  steps (initial c (fc_prog e)) (Done r) -> as_result r = fc_evaluation_gen (single_of c) e.
Proof. intros H. apply schedule_independent in H. rewrite H. apply den_fc. Qed.
End Refine.

(* with single evaluations that answer from a content evaluation result the sequential model is fc_evaluation of Model/EvalFC.v *)
Definition single_of_cer (c : cer) (k : text) : result efc := do v <- of_option NotImpl (lookup (c_fc c) k) ;; Ok {| ff := fst v; fmsg := snd v |}.
Theorem fc_evaluation_is_gen c e : fc_evaluation c e = fc_evaluation_gen (single_of_cer c) e.
Proof.
  destruct e as [t|]; [|reflexivity]. unfold fc_evaluation, fc_evaluation_gen, build_fenv. f_equal.
  apply mapM_ext_in. intros k _. unfold single_of_cer. destruct (lookup (c_fc c) k); reflexivity.
Qed.
