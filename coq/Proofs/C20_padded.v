(* C20 -- a string whose first character is not an ASCII digit is not a datetime: leading white space (blank, tab, line break, no-break space), a sign, a
   letter ... make parse_as_datetime fail, hence all of 931..935 unfulfilled with a message.  (CPython's fromisoformat reads the four year digits first.) *)
From Coq Require Import ZArith Lia List Bool.
From Ahb Require Import Model.Prelude Gen.Gen_tz Model.Time Proofs.C20_time.
Local Open Scope Z_scope.

Definition starts_ch (l : list tk) : Prop := exists x r, l = Ch x :: r.

Lemma parse_digits_ch b : starts_ch b -> parse_digits b 0 4 0 = None.
Proof. intros (x & r & ->). reflexivity. Qed.

Lemma set_nth_head i t r y : (0 < i)%nat -> exists r', set_nth i y (t :: r) = t :: r'.
Proof. destruct i as [|j]; [lia|]. intros _. cbn [set_nth]. eauto. Qed.

Lemma sanitize_head l : starts_ch l -> starts_ch (sanitize l).
Proof.
  intros (x & r & ->). unfold sanitize.
  destruct (is_surrogate (at_ (Ch x :: r) 7)); [destruct (set_nth_head 7 (Ch x) r (Ch 84)) as (r' & ->); [lia|]; now exists x, r'|].
  destruct (is_surrogate (at_ (Ch x :: r) 8)); [destruct (set_nth_head 8 (Ch x) r (Ch 84)) as (r' & ->); [lia|]; now exists x, r'|].
  destruct (is_surrogate (at_ (Ch x :: r) 10)); [destruct (set_nth_head 10 (Ch x) r (Ch 84)) as (r' & ->); [lia|]; now exists x, r'|].
  now exists x, r.
Qed.

Lemma utf8_head x a : utf8 (Ch x) = Some a -> starts_ch a.
Proof.
  unfold utf8. intros H.
  destruct (x <? 128)%N; [injection H as <-; unfold starts_ch; eauto|].
  destruct (x <? 2048)%N; [injection H as <-; unfold starts_ch; eauto|].
  destruct (x <? 65536)%N; [destruct (is_surrogate (Ch x)); [discriminate|injection H as <-; unfold starts_ch; eauto]|].
  destruct (x <=? 1114111)%N; [injection H as <-; unfold starts_ch; eauto|discriminate].
Qed.

Lemma encode_head l b : starts_ch l -> encode l = Some b -> starts_ch b.
Proof.
  intros (x & r & ->) H. cbn [encode] in H.
  destruct (utf8 (Ch x)) as [a|] eqn:Ha; [|discriminate]. destruct (encode r) as [b'|]; [|discriminate].
  injection H as <-. destruct (utf8_head x a Ha) as (y & a' & ->). now exists y, (a' ++ b').
Qed.

Lemma parse_fields_head l : starts_ch l -> parse_fields l = None.
Proof.
  intros Hl. unfold parse_fields. destruct (Nat.ltb (length l) 7); [reflexivity|].
  destruct (encode (sanitize l)) as [b|] eqn:Hb; [|reflexivity].
  pose proof (encode_head (sanitize l) b (sanitize_head l Hl) Hb) as Hs.
  destruct (find_separator b); [|reflexivity]. unfold parse_date. now rewrite (parse_digits_ch b Hs).
Qed.

Lemma replace_Z_head l : starts_ch l -> starts_ch (replace_Z l).
Proof.
  intros (x & r & ->). unfold replace_Z. cbn [flat_map]. destruct (is_ch (Ch x) 90); cbn [app]; unfold starts_ch; eauto.
Qed.

Theorem first_character_is_a_digit c s : is_ascii_digit c = false -> parse_as_datetime (c :: s) = PErr.
Proof.
  intros Hc. unfold parse_as_datetime.
  assert (H0 : starts_ch (map classify (c :: s))) by (cbn [map]; unfold classify; rewrite Hc; unfold starts_ch; eauto).
  assert (H1 : starts_ch (if ends_with_Z (map classify (c :: s)) then replace_Z (map classify (c :: s)) else map classify (c :: s)))
    by (destruct (ends_with_Z _); [now apply replace_Z_head | exact H0]).
  unfold fromisoformat. now rewrite (parse_fields_head _ H1).
Qed.

(* in particular the white space a "strip" would remove in front *)
Corollary leading_white_space_is_no_datetime c s : In c [32; 9; 10; 13; 11; 12; 160; 8239; 12288]%N ->
  eval_931 (c :: s) = Ok unfulfilled_v /\ eval_932 (c :: s) = Ok unfulfilled_v /\ eval_933 (c :: s) = Ok unfulfilled_v /\
  eval_934 (c :: s) = Ok unfulfilled_v /\ eval_935 (c :: s) = Ok unfulfilled_v.
Proof.
  intros H. apply other_strings. apply first_character_is_a_digit.
  cbn [In] in H. repeat (destruct H as [<-|H]; [reflexivity|]). contradiction.
Qed.
