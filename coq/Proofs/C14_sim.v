From Ahb Require Import Model.Prelude Model.Grammar Gen.Gen_logic Gen.Gen_valmaps Model.EvalRC Model.EvalFC Model.EvalAhb Model.Validate
  Proofs.C13_validate.
Set Implicit Arguments.

(* A generic simulation between two validation runs: the same AHB tree with every expression mapped by g,
   possibly a different flag; used for C14 (rewriting SOLL) and C16 (replacing invalid expressions by 'Kann'). *)
Section Sim.
Variable nx : Type.
Variable ev : nx -> result ahbres.
Variable ir : nx -> text.
Variable g : nx -> nx.
Variables soll1 soll2 : bool.
Variable okp : option rvv -> Prop.           (* invariant on the parent status handed down *)
Variable Rv : vres -> vres -> Prop.          (* relation between corresponding reported results *)

Notation vnode := (Validate.validate_node nx ev ir).
Notation vde := (Validate.validate_de nx ev ir).
Notation own := (@own_status nx ev ir).

Definition g_de (e : de nx) : de nx :=
  match e with
  | DEFree d x i vt => DEFree d (g x) i vt
  | DEPool d pool i => DEPool d (map (fun p => (fst p, g (snd p))) pool) i
  end.
Fixpoint g_node (n : node nx) : node nx :=
  match n with
  | NGroup d x ch => NGroup d (g x) (map g_node ch)
  | NSeg d x des => NSeg d (g x) (map g_de des)
  end.

Definition rel_own (a b : result vres) : Prop :=
  match a, b with
  | Ok r1, Ok r2 => Rv r1 r2 /\ vstatus r1 = vstatus r2 /\ okp (Some (vstatus r1))
  | Exn e1, Exn e2 => e1 = e2
  | _, _ => False
  end.
Definition Rrow (a b : text * vres) : Prop := fst a = fst b /\ Rv (snd a) (snd b).
Definition rel_row (a b : result (text * vres)) : Prop :=
  match a, b with Ok x, Ok y => Rrow x y | Exn e1, Exn e2 => e1 = e2 | _, _ => False end.
Definition rel_rows (a b : result (list (text * vres))) : Prop :=
  match a, b with Ok x, Ok y => Forall2 Rrow x y | Exn e1, Exn e2 => e1 = e2 | _, _ => False end.

Hypothesis H_own : forall x parent, okp parent -> rel_own (own x parent soll1) (own (g x) parent soll2).
Hypothesis H_de : forall e st, okp (Some st) -> is_forbidden st = false -> rel_row (vde e st soll1) (vde (g_de e) st soll2).

Lemma rel_mapM {A} (f1 f2 : A -> result (text * vres)) l : Forall (fun a => rel_row (f1 a) (f2 a)) l ->
  rel_rows (mapM f1 l) (mapM f2 l).
Proof.
  induction 1 as [|a t Ha _ IH]; simpl; [constructor|].
  destruct (f1 a) as [x|e1], (f2 a) as [y|e2]; simpl in *; try contradiction; auto.
  destruct (mapM f1 t) as [xs|e1], (mapM f2 t) as [ys|e2]; simpl in *; try contradiction; auto.
Qed.

Lemma rel_children (f1 f2 : node nx -> result (list (text * vres))) l :
  Forall (fun c => rel_rows (f1 c) (f2 (g_node c))) l ->
  rel_rows (children_results f1 l) (children_results f2 (map g_node l)).
Proof.
  unfold children_results. induction 1 as [|c t Hc _ IH]; simpl; [constructor|].
  destruct (f1 c) as [x|e1], (f2 (g_node c)) as [y|e2]; simpl in *; try contradiction; auto.
  destruct (mapM f1 t) as [xs|e1], (mapM f2 (map g_node t)) as [ys|e2]; simpl in *; try contradiction; auto.
  now apply Forall2_app.
Qed.

Theorem sim_node n : forall parent, okp parent -> rel_rows (vnode n parent soll1) (vnode (g_node n) parent soll2).
Proof.
  induction n as [d x ch IH|d x des] using (@node_ind' nx); intros parent Hp.
  - simpl g_node. rewrite !validate_group_eq. specialize (H_own x Hp).
    destruct (own x parent soll1) as [r1|e1], (own (g x) parent soll2) as [r2|e2]; simpl in *; try contradiction; auto.
    destruct H_own as [HR [Hs Hok]]. rewrite <- Hs.
    destruct (is_forbidden (vstatus r1)) eqn:F.
    + constructor; [split; auto|constructor].
    + assert (Hc : rel_rows (children_results (fun c => vnode c (Some (vstatus r1)) soll1) ch)
                            (children_results (fun c => vnode c (Some (vstatus r1)) soll2) (map g_node ch))).
      { apply rel_children. eapply Forall_impl; [|exact IH]. intros c Hcc. now apply Hcc. }
      destruct (children_results _ ch) as [xs|e1], (children_results _ (map g_node ch)) as [ys|e2]; simpl in *; try contradiction; auto.
      constructor; [split; auto|exact Hc].
  - simpl g_node. rewrite !validate_seg_eq. specialize (H_own x Hp).
    destruct (own x parent soll1) as [r1|e1], (own (g x) parent soll2) as [r2|e2]; simpl in *; try contradiction; auto.
    destruct H_own as [HR [Hs Hok]]. rewrite <- Hs.
    destruct (is_forbidden (vstatus r1)) eqn:F.
    + constructor; [split; auto|constructor].
    + assert (Hc : rel_rows (mapM (fun e => vde e (vstatus r1) soll1) des) (mapM (fun e => vde e (vstatus r1) soll2) (map g_de des))).
      { clear - H_de Hok F. induction des as [|e t IHt]; simpl; [constructor|].
        pose proof (H_de e Hok F) as He.
        destruct (vde e (vstatus r1) soll1) as [a|e1], (vde (g_de e) (vstatus r1) soll2) as [b|e2]; simpl in *; try contradiction; auto.
        destruct (mapM _ t) as [xs|e1], (mapM _ (map g_de t)) as [ys|e2]; simpl in *; try contradiction; auto. }
      destruct (mapM _ des) as [xs|e1], (mapM _ (map g_de des)) as [ys|e2]; simpl in *; try contradiction; auto.
      constructor; [split; auto|exact Hc].
Qed.
End Sim.
