(* C10 at text level, time conditions: parsing the expression in which every [UBn] is textually replaced as the regenerated
   table of TimeConditionTransformer says ([UB1] by [932], [UB2] by [934], [UB3] by "(" ++ its text ++ ")") gives, modulo
   same-operator runs, the tree expand_tc computes. *)
From Coq Require Import Lia.
From Ahb Require Import Model.Prelude Model.Grammar Gen.Gen_grammar Model.Lex Gen.Gen_timecond Model.Resolve
  Proofs.Prec Proofs.Canon Proofs.C01_parse Proofs.C02_language Proofs.C01_lexprint Proofs.C01_print Proofs.C02_lexsound Proofs.C10_resolve Proofs.C10_text.

Definition tc_piece (wp : text * ptok) : text :=
  match snd wp with
  | PTime _ c _ => match tc_lookup [85; 66; c]%N with
                   | Some (TcKey k) => fst wp ++ [91%N] ++ k ++ [93%N]
                   | Some (TcExpr src _) => fst wp ++ [40%N] ++ src ++ [41%N]
                   | None => fst wp ++ render_ptok (snd wp)
                   end
  | p => fst wp ++ render_ptok p
  end.
Definition tc_text (l : list (text * ptok)) (trail : text) : text := concat (map tc_piece l) ++ trail.

Definition tc_tok (t : tok) : list tok :=
  match t with
  | TA (ATime k) => match tc_lookup k with
                    | Some (TcKey c) => [TA (AKey c)]
                    | Some (TcExpr src _) => match parse_items src with Some its => TL :: untoks its ++ [TR] | None => [t] end
                    | None => [t]
                    end
  | _ => [t]
  end.
Fixpoint tc_item (x : item) : item :=
  match x with
  | IA (ATime k) => match tc_lookup k with
                    | Some (TcKey c) => IA (AKey c)
                    | Some (TcExpr src _) => match parse_items src with Some its => IG its | None => x end
                    | None => x
                    end
  | IG g => IG (map tc_item g)
  | _ => x
  end.
Fixpoint tc_tree (e : expr) : expr :=
  match e with
  | EAtom (ATime k) => match tc_lookup k with Some (TcKey c) => EAtom (AKey c) | Some (TcExpr _ t) => t | None => e end
  | EAtom a => e
  | EBin b l r => EBin b (tc_tree l) (tc_tree r)
  end.

(* ---------- facts about the regenerated table ---------- *)
Definition entry_ok (v : tc_expansion) : Prop :=
  match v with
  | TcKey c => nonempty c = true /\ all_digits c = true
  | TcExpr src t => parse_cond src = Ok (flat t)
  end.
Lemma table_ok : Forall (fun e => entry_ok (snd e)) time_condition_expansion.
Proof. repeat constructor; vm_compute; reflexivity. Qed.

Lemma lookup_ok k v : tc_lookup k = Some v -> entry_ok v.
Proof.
  unfold tc_lookup. destruct (find _ time_condition_expansion) as [[k' v']|] eqn:F; [|discriminate]. intros H. inversion H; subst v'.
  apply find_some in F. destruct F as [Hin _]. pose proof table_ok as T. rewrite Forall_forall in T. exact (T _ Hin).
Qed.

(* a table text parses: it lexes, groups, and some tree the resolution admits has the flattening of the table's tree *)
Lemma expr_entry src t : parse_cond src = Ok (flat t) ->
  exists ts its e', lex src = Some ts /\ group ts = Some its /\ parse_items src = Some its /\ Sc 0 its e' /\ flat e' = flat t.
Proof.
  unfold parse_cond, parse_items. destruct (lex src) as [ts|]; [|discriminate]. destruct (group ts) as [its|] eqn:G; [|discriminate].
  destruct (wf its) eqn:W; [|discriminate]. destruct (wf_canon its W) as [e' [R C]]. rewrite C. simpl. intros H. inversion H as [F].
  exists ts, its, e'. repeat split; auto. now apply resolution_respects_precedence_c.
Qed.

(* ---------- lexing the substituted text ---------- *)
Lemma tc_text_lexes l trail : Forall ok_pair l -> all_ws trail = true ->
  lex (tc_text l trail) = Some (flat_map tc_tok (map (fun p => tok_of (snd p)) l)).
Proof.
  intros Hl Ht. unfold tc_text. induction Hl as [|[w p] l [Hw Hp] _ IH]; simpl.
  - now apply lex_ws.
  - rewrite <- app_assoc. apply lex_app; [|exact IH]. simpl in Hw, Hp.
    assert (Plain : lex (w ++ render_ptok p) = Some [tok_of p]) by now apply lex_single.
    destruct p as [| |c r|w1 ds w2|w1 ds w2 rep|w1 c w2]; try exact Plain; try (destruct rep as [[[[? ?] ?] ?]|]; exact Plain).
    unfold tc_piece. cbn [fst snd]. cbv iota beta. simpl tok_of. simpl tc_tok.
    destruct (tc_lookup [85; 66; c]%N) as [[k|src t]|] eqn:L; [| |exact Plain].
    + destruct (lookup_ok _ _ L) as [Hn Hd].
      assert (Pk : ptok_ok (PKey [] k []) = true) by (simpl; now rewrite Hn, Hd).
      pose proof (lex_single w (PKey [] k []) Hw Pk) as Q. simpl in Q. rewrite ?app_nil_r in Q. exact Q.
    + destruct (expr_entry src t (lookup_ok _ _ L)) as [ts [its [e' [Lx [G [Pi _]]]]]]. rewrite Pi. apply group_iff in G. subst ts.
      change (TL :: untoks its ++ [TR]) with ([TL] ++ untoks its ++ [TR]).
      rewrite app_assoc. apply lex_app; [exact (lex_single w PL Hw eq_refl)|]. apply lex_app; [exact Lx|].
      exact (lex_single [] PR eq_refl eq_refl).
Qed.

Lemma tc_untok : forall x, flat_map tc_tok (untok x) = untok (tc_item x).
Proof.
  apply item_forest_ind.
  - intros [k|k rep|k]; simpl; try reflexivity. destruct (tc_lookup k) as [[c|src t]|]; simpl; try reflexivity.
    destruct (parse_items src); simpl; [now rewrite app_nil_r|reflexivity].
  - reflexivity.
  - intros g Hg. simpl. rewrite flat_map_app. simpl. f_equal. f_equal.
    induction Hg as [|y t Hy _ IH]; simpl; [reflexivity|]. rewrite flat_map_app, Hy, IH. reflexivity.
Qed.
Lemma tc_untoks its : flat_map tc_tok (untoks its) = untoks (map tc_item its).
Proof. unfold untoks. induction its as [|x t IH]; simpl; [reflexivity|]. now rewrite flat_map_app, tc_untok, IH. Qed.

(* ---------- derivations are preserved, up to the flattening ---------- *)
Lemma flat_bin b (x y x2 y2 : expr) : flat x = flat x2 -> flat y = flat y2 -> flat (EBin b x y) = flat (EBin b x2 y2).
Proof. intros H1 H2. simpl. now rewrite H1, H2. Qed.

Lemma tc_preserves n its e : Sc n its e -> exists e2, Sc n (map tc_item its) e2 /\ flat e2 = flat (tc_tree e).
Proof.
  induction 1 as [r l1 l2 e1 e2 H1 [x1 [S1 F1]] H2 [x2 [S2 F2]]|l1 l2 e1 e2 H1 [x1 [S1 F1]] H2 [x2 [S2 F2]]|n l e H [x [Sx Fx]]|a|g e H [x [Sx Fx]]].
  - exists (EBin (bop (rule_alias r)) x1 x2). split; [rewrite map_app; simpl map; now apply S_op|now apply flat_bin].
  - exists (EBin BThen x1 x2). split; [rewrite map_app; now apply S_then|now apply flat_bin].
  - exists x. split; [now apply S_up|exact Fx].
  - destruct a as [k|k rep|k]; try (eexists; split; [apply S_atom|reflexivity]).
    simpl. destruct (tc_lookup k) as [[c|src t]|] eqn:L; try (eexists; split; [apply S_atom|reflexivity]).
    destruct (expr_entry src t (lookup_ok _ _ L)) as [ts [its [e' [_ [_ [Pi [Se Fe]]]]]]]. rewrite Pi.
    exists e'. split; [now apply S_grp|exact Fe].
  - exists x. split; [simpl; now apply S_grp|exact Fx].
Qed.

Theorem tc_textual_substitution l trail its e : Forall ok_pair l -> all_ws trail = true ->
  group (map (fun p => tok_of (snd p)) l) = Some its -> Rc its e ->
  parse_cond (tc_text l trail) = Ok (flat (tc_tree e)).
Proof.
  intros Hl Ht G R. apply group_iff in G.
  destruct (tc_preserves 0 its e (resolution_respects_precedence_c R)) as [e2 [HS F]].
  unfold parse_cond. rewrite (tc_text_lexes l trail Hl Ht), G, tc_untoks, group_untoks.
  rewrite (GF_wf (S_GFc _ _ _ HS)). unfold canonc.
  rewrite (@S_canon_bound 0 _ _ HS (canon_fuel (map tc_item its))) by (unfold canon_fuel; lia). simpl. now rewrite F.
Qed.

(* tied to the resolver model *)
Lemma expand_tc_is_tc_tree e : (forall k, In (ATime k) (atoms e) -> tc_lookup k <> None) -> expand_tc e = Ok (tc_tree e).
Proof.
  induction e as [[k|k rep|k]|b l IHl r IHr]; intros H; try reflexivity.
  - simpl. destruct (tc_lookup k) as [[c|src t]|] eqn:L; try reflexivity. exfalso. apply (H k); [now left|exact L].
  - simpl. rewrite IHl, IHr; [reflexivity| |]; intros k Hin; apply H; simpl; apply in_or_app; auto.
Qed.

(* the lexer only ever produces UB1, UB2, UB3, and the table knows them *)
Lemma lexed_time_conditions_known : forall c, (49 <=? c)%N && (c <=? 51)%N = true -> tc_lookup [85; 66; c]%N <> None.
Proof.
  intros c H. apply andb_true_iff in H. destruct H as [H1 H2]. apply N.leb_le in H1, H2.
  assert (c = 49 \/ c = 50 \/ c = 51)%N as [-> | [-> | ->]] by lia; vm_compute; discriminate.
Qed.

Theorem resolver_is_textual_tc_substitution l trail its e : Forall ok_pair l -> all_ws trail = true ->
  group (map (fun p => tok_of (snd p)) l) = Some its -> Rc its e ->
  (forall k, In (ATime k) (atoms e) -> tc_lookup k <> None) ->
  exists t', expand_tc e = Ok t' /\ parse_cond (tc_text l trail) = Ok (flat t').
Proof.
  intros Hl Ht G R K. exists (tc_tree e). split; [now apply expand_tc_is_tc_tree|now apply tc_textual_substitution with (its := its)].
Qed.

Example tc_text_example :
  tc_text [([], PKey [] [49%N] []); ([32%N], pop 85%N); ([32%N], PTime [] 51%N [])] [] =
  [91; 49; 93; 32; 85; 32; 40; 91; 57; 51; 50; 93; 91; 52; 57; 50; 93; 88; 91; 57; 51; 52; 93; 91; 52; 57; 51; 93; 41]%N.
Proof. vm_compute. reflexivity. Qed.

(* the hypothesis about known time conditions holds for everything the lexer can produce *)
From Ahb Require Import Proofs.C01_atoms.
Lemma atoms_eatoms e : atoms e = eatoms e.
Proof. induction e as [a|b l IHl r IHr]; simpl; [reflexivity|now rewrite IHl, IHr]. Qed.

Lemma written_time_conditions_known l : Forall ok_pair l ->
  forall k, In (ATime k) (tatoms (map (fun p => tok_of (snd p)) l)) -> tc_lookup k <> None.
Proof.
  induction 1 as [|[w p] l [_ Hp] _ IH]; intros k Hin; [contradiction|]. simpl in Hin. apply in_app_or in Hin. destruct Hin as [Hin|Hin]; [|now apply IH].
  simpl in Hp. destruct p as [| |c r|w1 ds w2|w1 ds w2 [[[[d1 c] d2] w3]|]|w1 c w2]; simpl in Hin; try contradiction;
    try (destruct Hin as [Hin|[]]; discriminate).
  destruct Hin as [Hin|[]]. inversion Hin; subst k. apply lexed_time_conditions_known.
  simpl in Hp. repeat (apply andb_true_iff in Hp; destruct Hp as [Hp ?]). apply andb_true_iff. split; assumption.
Qed.

Theorem resolver_is_textual_tc_substitution_closed l trail its e : Forall ok_pair l -> all_ws trail = true ->
  group (map (fun p => tok_of (snd p)) l) = Some its -> Rc its e ->
  exists t', expand_tc e = Ok t' /\ parse_cond (tc_text l trail) = Ok (flat t').
Proof.
  intros Hl Ht G R. apply resolver_is_textual_tc_substitution with (its := its); try assumption.
  intros k Hin. rewrite atoms_eatoms, (written_atoms l its e G R) in Hin. now apply (written_time_conditions_known l Hl).
Qed.
