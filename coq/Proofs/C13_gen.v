(* Tie T for the status step of the validation: get_segment_level_requirement_validation_value and validate_data_element_freetext, executed by the
   translator for every requirement indicator x every outcome of the node's own expression x every parent status x both flags (x absent / empty /
   filled input), report what `segment_level` and `validate_freetext` of Model/Validate.v report (Gen/Gen_status.v, regenerated from /repo on every run). *)
From Ahb Require Import Model.Prelude Model.Grammar Gen.Gen_logic Gen.Gen_valmaps Model.EvalRC Model.EvalFC Model.EvalAhb Model.Validate Gen.Gen_status.

Definition nxt := (indicator * evmode)%type.
Definition ev_of (x : nxt) : result ahbres :=
  let '(i, m) := x in
  let cond f := Ok {| a_ind := i; a_rc := {| r_fulfilled := f; r_conditional := match f with Some _ => Some true | None => None end; r_fcx := None; r_hints := None |}; a_fc := fc_ok |} in
  match m with
  | EvF => cond (Some true)
  | EvU => cond (Some false)
  | EvN => cond None
  | EvBare => Ok (bare_result i)
  | EvInvalid => Exn InvalidExpr
  end.
Definition reason (x : nxt) : text := [63%N].
Definition is_some {A} (o : option A) : bool := match o with Some _ => true | None => false end.
Definition dtype_eqb (a b : dtype) : bool := match a, b with DT_TEXT, DT_TEXT | DT_DATETIME, DT_DATETIME | DT_VALUE_POOL, DT_VALUE_POOL => true | _, _ => false end.

Definition seg_row_ok (row : indicator * evmode * option rvv * bool * result (rvv * bool)) : bool :=
  let '(i, m, parent, soll, res) := row in
  match segment_level nxt ev_of reason (i, m) parent soll, res with
  | Ok (VSeg rv h), Ok (rv', hh) => rvv_eqb rv rv' && Bool.eqb (is_some h) hh
  | Exn e, Exn e' => exn_eqb e e'
  | _, _ => false
  end.
Definition input_of (n : nat) : option text := match n with 0 => None | 1 => Some [] | _ => Some [97; 98; 99]%N end.
Definition de_row_ok (row : indicator * evmode * nat * option rvv * bool * result (rvv * bool * bool * dtype)) : bool :=
  let '(i, m, inp, parent, soll, res) := row in
  match validate_freetext nxt ev_of reason [100%N] (i, m) (input_of inp) None parent soll, res with
  | Ok (_, VDe rv fok _ h _ dt), Ok (rv', fok', hh, dt') => rvv_eqb rv rv' && Bool.eqb fok fok' && Bool.eqb (is_some h) hh && dtype_eqb dt dt'
  | Exn e, Exn e' => exn_eqb e e'
  | _, _ => false
  end.

Lemma seg_rows_ok : forallb seg_row_ok seg_rows = true.
Proof. vm_compute. reflexivity. Qed.
Lemma de_rows_ok : forallb de_row_ok de_rows = true.
Proof. vm_compute. reflexivity. Qed.
Lemma status_rows_complete : length seg_rows = 240 /\ length de_rows = 720.
Proof. vm_compute. split; reflexivity. Qed.
