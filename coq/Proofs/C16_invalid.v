From Ahb Require Import Model.Prelude Model.Grammar Gen.Gen_logic Gen.Gen_valmaps Gen.Gen_enums Model.EvalRC Model.EvalFC Model.EvalAhb Model.Validate
  Proofs.C13_validate Proofs.C14_sim.
(* the regenerated tables are used through their equations only, whatever shape the generator gives them *)
Arguments map_rvv : simpl never.
Arguments combine_rvv : simpl never.
Set Implicit Arguments.

Section Invalid.
Variable nx : Type.
Variable ev : nx -> result ahbres.
Variable ir : nx -> text.
Variable soll : bool.
(* kn replaces the expression of an arbitrary subset of the nodes whose expression is invalid by 'Kann' *)
Variable kn : nx -> nx.
Hypothesis kn_spec : forall x, kn x = x \/ (ev x = Exn InvalidExpr /\ ev (kn x) = Ok (bare_result I_KANN)).

Definition parent_ok (p : option rvv) : Prop :=
  p = None \/ p = Some IS_REQUIRED \/ p = Some IS_OPTIONAL \/ p = Some IS_FORBIDDEN.

(* the node that carried the invalid expression: optional with the reason as hint, vs. what 'Kann' yields there *)
Definition faulty_pair (r1 r2 : vres) : Prop :=
  (exists reason, r1 = VSeg IS_OPTIONAL (Some reason) /\ r2 = VSeg IS_OPTIONAL None) \/
  (exists reason st dt, r1 = VDe IS_OPTIONAL true None (Some reason) None DT_TEXT /\ r2 = VDe st true None None None dt /\
                        (st = IS_OPTIONAL_AND_FILLED \/ st = IS_OPTIONAL_AND_EMPTY)).
Definition Rv (r1 r2 : vres) : Prop := r1 = r2 \/ faulty_pair r1 r2.

Lemma combine_range p own r : parent_ok p -> (own = IS_REQUIRED \/ own = IS_FORBIDDEN \/ own = IS_OPTIONAL) ->
  combine_rvv p own = Ok r -> r = IS_REQUIRED \/ r = IS_FORBIDDEN \/ r = IS_OPTIONAL.
Proof.
  intros [ -> | [ -> | [ -> | -> ] ] ] [ -> | [ -> | -> ] ]; vm_compute; intros H; inversion H; auto.
Qed.

Lemma status_ok r : r = IS_REQUIRED \/ r = IS_FORBIDDEN \/ r = IS_OPTIONAL -> parent_ok (Some r).
Proof. unfold parent_ok. intros [ -> | [ -> | -> ] ]; auto. Qed.

Lemma own_ok x p r : parent_ok p -> own_status ev ir x p soll = Ok r -> parent_ok (Some (vstatus r)).
Proof.
  intros Hp H. destruct (status_is_combination ev ir x p soll H) as [[_ ->]|[_ M]]; [apply status_ok; auto|].
  destruct (ev x) as [a|e].
  - destruct M as [own [rv [M1 [M2 ->]]]]. apply status_ok. simpl.
    apply (@combine_range p own rv Hp (map_rvv_range _ _ _ M1) M2).
  - destruct e; try contradiction. subst. apply status_ok. auto.
Qed.

Lemma H_own x p : parent_ok p ->
  rel_own parent_ok Rv (own_status ev ir x p soll) (own_status ev ir (kn x) p soll).
Proof.
  intros Hp. destruct (kn_spec x) as [E|[E1 E2]].
  - rewrite E. destruct (own_status ev ir x p soll) as [r|e] eqn:O; simpl; auto.
    split; [now left|]. split; [reflexivity|]. eapply own_ok; eauto.
  - unfold own_status. destruct (match p with Some q => is_forbidden q | None => false end) eqn:F.
    + simpl. split; [now left|]. split; [reflexivity|]. apply status_ok. auto.
    + unfold Validate.segment_level. rewrite E1, E2. simpl.
      assert (M : map_rvv (Some true) I_KANN soll = Ok IS_OPTIONAL) by (destruct soll; reflexivity). rewrite ?M. simpl.
      assert (C : combine_rvv p IS_OPTIONAL = Ok IS_OPTIONAL).
      { destruct Hp as [ -> | [ -> | [ -> | -> ] ] ]; try reflexivity. simpl in F. discriminate. }
      rewrite C. simpl. split; [right; left; eexists; split; reflexivity|]. split; [reflexivity|]. apply status_ok. auto.
Qed.

Lemma pool_possible_kn pool : forall acc,
  Validate.pool_possible nx ev (map (fun p => (fst p, kn (snd p))) pool) acc = Validate.pool_possible nx ev pool acc.
Proof.
  induction pool as [|[[q mm] x] t IH]; intros acc; simpl; [reflexivity|].
  destruct (kn_spec x) as [E|[E1 E2]].
  - rewrite E. destruct (match ev x with Exn InvalidExpr => Ok true | Exn e => Exn e | Ok r => Ok (is_true (r_fulfilled (a_rc r))) end); simpl; auto.
  - rewrite E1, E2. simpl. apply IH.
Qed.

Lemma H_de e st : parent_ok (Some st) -> is_forbidden st = false ->
  rel_row Rv (Validate.validate_de nx ev ir e st soll) (Validate.validate_de nx ev ir (g_de kn e) st soll).
Proof.
  intros Hp F. destruct e as [d x i vt|d pool i]; simpl.
  - destruct (kn_spec x) as [E|[E1 E2]].
    + rewrite E. destruct (Validate.validate_freetext nx ev ir d x i vt (Some st) soll); simpl; unfold Rrow, Rv; auto.
    + unfold Validate.validate_freetext. rewrite E1, E2. simpl.
      assert (M : map_rvv (Some true) I_KANN soll = Ok IS_OPTIONAL) by (destruct soll; reflexivity). rewrite ?M. simpl.
      assert (C : combine_rvv (Some st) IS_OPTIONAL = Ok IS_OPTIONAL).
      { destruct Hp as [Q|[Q|[Q|Q]]]; inversion Q; subst; try reflexivity. simpl in F. discriminate. }
      rewrite C. simpl. destruct (truthy_opt i); simpl; (split; [reflexivity|]); right; right;
        eexists; eexists; eexists; (split; [reflexivity|]); (split; [reflexivity|]); auto.
  - assert (E : Validate.validate_valuepool nx ev d (map (fun p => (fst p, kn (snd p))) pool) i st = Validate.validate_valuepool nx ev d pool i st).
    { unfold Validate.validate_valuepool.
      assert (Q : (match map (fun p => (fst p, kn (snd p))) pool with [(q, mm, _)] => Ok [(q, mm)] | _ => Validate.pool_possible nx ev (map (fun p => (fst p, kn (snd p))) pool) [] end)
                = (match pool with [(q, mm, _)] => Ok [(q, mm)] | _ => Validate.pool_possible nx ev pool [] end)).
      { destruct pool as [|[[q mm] x] [|p2 t]]; try reflexivity. apply (pool_possible_kn ((q, mm, x) :: p2 :: t) []). }
      now rewrite Q. }
    rewrite E. destruct (Validate.validate_valuepool nx ev d pool i st); simpl; unfold Rrow, Rv; auto.
Qed.

(* validation never aborts because of an invalid expression, and every other node is reported exactly as for the AHB
   in which the invalid expressions are replaced by 'Kann' (same positions, same records, same errors) *)
Theorem invalid_is_contained n parent : parent_ok parent ->
  rel_rows Rv (Validate.validate_node nx ev ir n parent soll) (Validate.validate_node nx ev ir (g_node kn n) parent soll).
Proof. intros Hp. apply (@sim_node nx ev ir kn soll soll parent_ok Rv H_own H_de n parent Hp). Qed.

(* the node itself *)
Lemma invalid_node_itself x p : ev x = Exn InvalidExpr -> (match p with Some q => is_forbidden q | None => false end) = false ->
  own_status ev ir x p soll = Ok (VSeg IS_OPTIONAL (Some (ir x))).
Proof. intros E F. unfold own_status. rewrite F. unfold Validate.segment_level. now rewrite E. Qed.
End Invalid.
