From Ahb Require Import Model.Prelude Gen.Gen_logic Gen.Gen_readme Model.Logic.

Lemma and_total a b : cfv_and a b = Ok (cand a b). Proof. destruct a, b; reflexivity. Qed.
Lemma or_total a b : cfv_or a b = Ok (cor a b). Proof. destruct a, b; reflexivity. Qed.
Lemma xor_total a b : cfv_xor a b = Ok (cxor a b). Proof. destruct a, b; reflexivity. Qed.

Lemma total_all : forall a b, (exists c, cfv_and a b = Ok c) /\ (exists c, cfv_or a b = Ok c) /\ (exists c, cfv_xor a b = Ok c).
Proof. intros a b. repeat split; eexists; [apply and_total|apply or_total|apply xor_total]. Qed.

Lemma and_comm a b : cand a b = cand b a. Proof. destruct a, b; reflexivity. Qed.
Lemma or_comm a b : cor a b = cor b a. Proof. destruct a, b; reflexivity. Qed.
Lemma xor_comm a b : cxor a b = cxor b a. Proof. destruct a, b; reflexivity. Qed.

Lemma and_assoc a b c : cand (cand a b) c = cand a (cand b c). Proof. destruct a, b, c; reflexivity. Qed.
Lemma or_assoc a b c : cor (cor a b) c = cor a (cor b c). Proof. destruct a, b, c; reflexivity. Qed.
Lemma xor_assoc a b c : cxor (cxor a b) c = cxor a (cxor b c). Proof. destruct a, b, c; reflexivity. Qed.

Lemma neutral_identity a :
  cand a C_NEUTRAL = a /\ cand C_NEUTRAL a = a /\ cor a C_NEUTRAL = a /\ cor C_NEUTRAL a = a /\
  cxor a C_NEUTRAL = a /\ cxor C_NEUTRAL a = a.
Proof. destruct a; repeat split; reflexivity. Qed.

Lemma boolean_fragment x y :
  cand (cfv_of_bool x) (cfv_of_bool y) = cfv_of_bool (andb x y) /\
  cor (cfv_of_bool x) (cfv_of_bool y) = cfv_of_bool (orb x y) /\
  cxor (cfv_of_bool x) (cfv_of_bool y) = cfv_of_bool (xorb x y).
Proof. destruct x, y; repeat split; reflexivity. Qed.

Lemma readme_rows :
  Forall (row_ok cfv_and) readme_and_rows /\ Forall (row_ok cfv_or) readme_or_rows /\ Forall (row_ok cfv_xor) readme_xor_rows.
Proof. repeat split; repeat constructor. Qed.

(* the README tables have at least the 7 documented rows each and list only rows with a NEUTRAL or UNKNOWN operand *)
Lemma readme_nonvacuous : 7 <= length readme_and_rows /\ 7 <= length readme_or_rows /\ 7 <= length readme_xor_rows /\
  4 <= length (filter (fun r => match snd r with Some _ => true | None => false end) readme_or_rows).
Proof. vm_compute. repeat split; repeat constructor. Qed.

Definition op3 (k : nat) : cfv -> cfv -> cfv := match k with 0 => cand | 1 => cor | _ => cxor end.

Lemma unknown_sound k a b a' b' :
  op3 k a b <> C_UNKNOWN -> refines a a' -> refines b b' -> op3 k a' b' = op3 k a b.
Proof.
  destruct k as [|[|k]]; simpl; intros H Ra Rb;
  destruct a, b; simpl in Ra, Rb;
  try (destruct Ra as [Ra|Ra]); try (destruct Rb as [Rb|Rb]); subst; try reflexivity;
  exfalso; apply H; reflexivity.
Qed.

Lemma unknown_tight k a b :
  op3 k a b = C_UNKNOWN ->
  exists a1 b1 a2 b2, refines a a1 /\ refines b b1 /\ refines a a2 /\ refines b b2 /\ op3 k a1 b1 <> op3 k a2 b2.
Proof.
  destruct k as [|[|k]]; simpl; intros H; destruct a, b; try discriminate H.
  all: try (exists C_FULFILLED, C_FULFILLED, C_UNFULFILLED, C_FULFILLED; simpl; repeat split; auto; discriminate).
  all: try (exists C_FULFILLED, C_FULFILLED, C_FULFILLED, C_UNFULFILLED; simpl; repeat split; auto; discriminate).
  all: try (exists C_UNFULFILLED, C_UNFULFILLED, C_FULFILLED, C_UNFULFILLED; simpl; repeat split; auto; discriminate).
  all: try (exists C_UNFULFILLED, C_UNFULFILLED, C_UNFULFILLED, C_FULFILLED; simpl; repeat split; auto; discriminate).
  all: try (exists C_FULFILLED, C_NEUTRAL, C_UNFULFILLED, C_NEUTRAL; simpl; repeat split; auto; discriminate).
  all: try (exists C_NEUTRAL, C_FULFILLED, C_NEUTRAL, C_UNFULFILLED; simpl; repeat split; auto; discriminate).
Qed.

(* non-vacuity: UNKNOWN results and definite results from UNKNOWN operands both occur *)
Example unknown_cases_exist :
  cand C_UNKNOWN C_FULFILLED = C_UNKNOWN /\ cand C_UNKNOWN C_UNFULFILLED = C_UNFULFILLED /\
  cor C_UNKNOWN C_FULFILLED = C_FULFILLED /\ cxor C_UNKNOWN C_FULFILLED = C_UNKNOWN.
Proof. repeat split; reflexivity. Qed.
