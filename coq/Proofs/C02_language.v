From Coq Require Import List Arith Lia Bool.
Import ListNotations.
From Ahb Require Import Model.Prelude Model.Grammar Gen.Gen_grammar Model.Lex Proofs.Prec Proofs.Canon Proofs.C01_parse.
Set Implicit Arguments.

(* ---------- the local description wf ---------- *)
Lemma wf_unfold l : wf l = match l with
                           | [] => false
                           | h :: _ => negb (is_op h) && negb (is_op (last l h)) && no_adjacent_ops l && forallb wf_item l
                           end.
Proof. reflexivity. Qed.

Record WF (l : list item) : Prop := {
  wf_ne : l <> [];
  wf_first : forall h t, l = h :: t -> is_op h = false;
  wf_last : forall h, is_op (last l h) = false \/ l = [];
  wf_adj : no_adjacent_ops l = true;
  wf_all : forall x, In x l -> wf_item x = true
}.

Lemma last_default {A} (l : list A) (h d d' : A) : last (h :: l) d = last (h :: l) d'.
Proof. revert h. induction l as [|y t IH]; intros h; [reflexivity|]. change (last (y :: t) d = last (y :: t) d'). apply IH. Qed.

Lemma wf_WF l : wf l = true <-> WF l.
Proof.
  rewrite wf_unfold. split.
  - destruct l as [|h t]; [discriminate|]. intros H.
    repeat (apply andb_true_iff in H; destruct H as [H ?]).
    constructor; auto; try discriminate.
    + intros h' t' E. inversion E; subst. now apply negb_true_iff.
    + intros h'. left. apply negb_true_iff in H2.
      rewrite (last_default t h h' h). exact H2.
    + intros x Hx. rewrite forallb_forall in H0. now apply H0.
  - intros [Hne Hf Hl Ha Hall]. destruct l as [|h t]; [congruence|].
    apply andb_true_iff; split; [apply andb_true_iff; split; [apply andb_true_iff; split|]|].
    + apply negb_true_iff. now apply (Hf h t).
    + apply negb_true_iff. destruct (Hl h) as [E|E]; [exact E|discriminate].
    + exact Ha.
    + apply forallb_forall. exact Hall.
Qed.

Lemma last_app_cons {A} (l1 : list A) x l2 d : last (l1 ++ x :: l2) d = last (x :: l2) d.
Proof. induction l1 as [|y t IH]; [reflexivity|]. simpl app. rewrite <- IH. simpl. destruct (t ++ x :: l2) eqn:E; auto. destruct t; discriminate. Qed.

Lemma no_adj_app_l l1 l2 : no_adjacent_ops (l1 ++ l2) = true -> no_adjacent_ops l1 = true.
Proof.
  induction l1 as [|x [|y t] IH]; simpl; auto. intros H. apply andb_true_iff in H. destruct H as [H1 H2].
  rewrite H1. simpl. apply IH. exact H2.
Qed.
Lemma no_adj_app_r l1 l2 : no_adjacent_ops (l1 ++ l2) = true -> no_adjacent_ops l2 = true.
Proof.
  induction l1 as [|x t IH]; simpl; auto. intros H. apply IH.
  destruct (t ++ l2) eqn:E; [destruct t; simpl in *; [subst; reflexivity|discriminate]|].
  apply andb_true_iff in H. now destruct H.
Qed.
Lemma no_adj_mid l1 x y l2 : no_adjacent_ops (l1 ++ x :: y :: l2) = true -> is_op x && is_op y = false.
Proof.
  intros H. apply no_adj_app_r in H. simpl in H. apply andb_true_iff in H. destruct H as [H _]. now apply negb_true_iff.
Qed.

Lemma no_adj_glue l1 l2 d : l1 <> [] -> l2 <> [] -> no_adjacent_ops l1 = true -> no_adjacent_ops l2 = true ->
  is_op (last l1 d) && is_op (hd d l2) = false -> no_adjacent_ops (l1 ++ l2) = true.
Proof.
  intros N1 N2 A1 A2 B. destruct l2 as [|b l2]; [congruence|]. simpl hd in B.
  induction l1 as [|a [|a' t] IH]; [congruence| |].
  - simpl in B. change (negb (is_op a && is_op b) && no_adjacent_ops (b :: l2) = true). now rewrite B, A2.
  - change (negb (is_op a && is_op a') && no_adjacent_ops ((a' :: t) ++ b :: l2) = true).
    change (negb (is_op a && is_op a') && no_adjacent_ops (a' :: t) = true) in A1.
    apply andb_true_iff in A1. destruct A1 as [Q1 Q2]. rewrite Q1. simpl andb. apply IH; auto; discriminate.
Qed.

(* splitting a well-formed list at a depth-0 operator gives two well-formed lists *)
Lemma WF_split l1 r l2 : WF (l1 ++ IO r :: l2) -> WF l1 /\ WF l2.
Proof.
  intros [Hne Hf Hl Ha Hall]. split; constructor.
  - intros ->. specialize (Hf (IO r) l2 eq_refl). discriminate.
  - intros h t ->. apply (Hf h (t ++ IO r :: l2)). reflexivity.
  - intros h. destruct l1 as [|a l1] using rev_ind; [now right|]. left. rewrite last_last.
    rewrite <- app_assoc in Ha. simpl in Ha. pose proof (no_adj_mid _ _ _ _ Ha) as Q. simpl in Q. now rewrite andb_true_r in Q.
  - eapply no_adj_app_l; eauto.
  - intros x Hx. apply Hall. apply in_or_app. now left.
  - intros ->. destruct (Hl (IO r)) as [E|E]; [|destruct l1; discriminate]. rewrite last_app_cons in E. simpl in E. discriminate.
  - intros h t ->. replace (l1 ++ IO r :: h :: t) with (l1 ++ IO r :: h :: t) in Ha by reflexivity.
    pose proof (no_adj_mid _ _ _ _ Ha) as Q. simpl in Q. exact Q.
  - intros h. destruct l2 as [|b l2]; [now right|]. left. destruct (Hl h) as [E|E]; [|destruct l1; discriminate].
    rewrite last_app_cons in E. simpl in E. simpl. exact E.
  - apply no_adj_app_r in Ha. simpl in Ha. destruct l2; auto. apply andb_true_iff in Ha. now destruct Ha.
  - intros x Hx. apply Hall. apply in_or_app. right. now right.
Qed.

Lemma WF_join l1 r l2 : WF l1 -> WF l2 -> WF (l1 ++ IO r :: l2).
Proof.
  intros [N1 F1 L1 A1 X1] [N2 F2 L2 A2 X2]. constructor.
  - destruct l1; discriminate.
  - intros h t E. destruct l1 as [|a l1]; [congruence|]. inversion E; subst. apply (F1 h l1 eq_refl).
  - intros h. left. rewrite last_app_cons. destruct l2 as [|b l2]; [congruence|]. destruct (L2 h) as [E|E]; [|discriminate]. simpl in *. exact E.
  - apply (no_adj_glue (l1 := l1) (l2 := IO r :: l2) (IO r)); auto; try discriminate.
    + destruct l2 as [|b l2]; [congruence|]. specialize (F2 b l2 eq_refl).
      change (negb (is_op (IO r) && is_op b) && no_adjacent_ops (b :: l2) = true). rewrite F2, A2. now rewrite andb_false_r.
    + destruct (L1 (IO r)) as [E|E]; [|congruence]. now rewrite E.
  - intros x Hx. apply in_app_or in Hx. destruct Hx as [Hx|[<-|Hx]]; auto.
Qed.

Lemma WF_then l1 l2 : WF l1 -> WF l2 -> WF (l1 ++ l2).
Proof.
  intros [N1 F1 L1 A1 X1] [N2 F2 L2 A2 X2]. constructor.
  - destruct l1; [congruence|discriminate].
  - intros h t E. destruct l1 as [|a l1]; [congruence|]. inversion E; subst. apply (F1 h l1 eq_refl).
  - intros h. left. destruct l2 as [|b l2]; [congruence|]. rewrite last_app_cons. destruct (L2 h) as [E|E]; [|discriminate]. exact E.
  - destruct l1 as [|a l1]; [congruence|].
    apply (no_adj_glue (l1 := a :: l1) (l2 := l2) a); auto; try discriminate.
    destruct (L1 a) as [E|E]; [|congruence]. now rewrite E.
  - intros x Hx. apply in_app_or in Hx. destruct Hx; auto.
Qed.

(* ---------- the grammar of the docstring derives exactly the well-formed forests ---------- *)
Theorem GF_wf l e : GFc l e -> wf l = true.
Proof.
  intros H. apply wf_WF. induction H as [r l1 l2 e1 e2 _ IH1 _ IH2|l1 l2 e1 e2 _ IH1 _ IH2|a|g e _ IH].
  - now apply WF_join.
  - now apply WF_then.
  - constructor; simpl; auto; try discriminate.
    + intros h t E. inversion E; subst. reflexivity.
    + intros x [<-|[]]. reflexivity.
  - constructor; simpl; auto; try discriminate.
    + intros h t E. inversion E; subst. reflexivity.
    + intros x [<-|[]]. change (wf g = true). now apply wf_WF.
Qed.

(* size for strong induction *)
Fixpoint isize (x : item) : nat := match x with IG g => Datatypes.S (list_sum (map isize g)) | _ => 1 end.
Definition lsize (l : list item) : nat := list_sum (map isize l).
Lemma lsize_app l1 l2 : lsize (l1 ++ l2) = lsize l1 + lsize l2.
Proof. unfold lsize. rewrite map_app, list_sum_app. reflexivity. Qed.
Lemma isize_pos x : 1 <= isize x. Proof. destruct x; simpl; lia. Qed.

(* the operator of least rule order at depth 0 *)
Fixpoint min_op (l : list item) : option rule :=
  match l with
  | [] => None
  | IO r :: t => match min_op t with Some r' => if rule_order r' <? rule_order r then Some r' else Some r | None => Some r end
  | _ :: t => min_op t
  end.
Lemma min_op_spec l : match min_op l with
                      | Some r => In (IO r) l /\ forall r', In (IO r') l -> rule_order r <= rule_order r'
                      | None => forall r', ~ In (IO r') l
                      end.
Proof.
  induction l as [|x t IH]; simpl; [intros r' []|].
  destruct x as [a|r|g].
  - destruct (min_op t) as [m|]; [destruct IH as [I1 I2]; split; [now right|intros r' [E|E]; [discriminate|auto]]|intros r' [E|E]; [discriminate|exact (IH r' E)]].
  - destruct (min_op t) as [m|].
    + destruct IH as [I1 I2]. destruct (rule_order m <? rule_order r) eqn:Q.
      * apply Nat.ltb_lt in Q. split; [now right|]. intros r' [E|E]; [inversion E; subst; lia|auto].
      * apply Nat.ltb_ge in Q. split; [now left|]. intros r' [E|E]; [inversion E; subst; lia|]. specialize (I2 r' E). lia.
    + split; [now left|]. intros r' [E|E]; [inversion E; subst; lia|]. exfalso. exact (IH r' E).
  - destruct (min_op t) as [m|]; [destruct IH as [I1 I2]; split; [now right|intros r' [E|E]; [discriminate|auto]]|intros r' [E|E]; [discriminate|exact (IH r' E)]].
Qed.

Lemma can_split_in r l : @Grammar.can_split_op atom rule rule_alias r l -> In (IO r) l.
Proof. intros [l1 [l2 [e1 [e2 [E _]]]]]. subst. apply in_or_app. right. now left. Qed.

(* every well-formed forest has a parse that obeys Lark's resolution rule *)
Theorem wf_total : forall n l, lsize l <= n -> wf l = true -> exists e, Rc l e.
Proof.
  induction n as [|n IH]; intros l Hn Hw.
  - apply wf_WF in Hw. destruct l as [|x t]; [destruct Hw; congruence|]. unfold lsize in Hn. simpl in Hn. pose proof (isize_pos x). lia.
  - pose proof (min_op_spec l) as M. destruct (min_op l) as [r|].
    + destruct M as [Hin Hmin]. apply in_split in Hin. destruct Hin as [l1 [l2 E]]. subst l.
      apply wf_WF in Hw. destruct (WF_split _ _ _ Hw) as [W1 W2].
      rewrite lsize_app in Hn. unfold lsize in Hn at 2. simpl in Hn. fold (lsize l2) in Hn.
      destruct (IH l1 ltac:(lia) (proj2 (wf_WF l1) W1)) as [e1 R1].
      destruct (IH l2 ltac:(lia) (proj2 (wf_WF l2) W2)) as [e2 R2].
      exists (EBin (bop (rule_alias r)) e1 e2). apply R_op; auto.
      * intros r' Hc. apply Hmin. now apply can_split_in.
      * intros _. pose proof (then_last r). unfold order_then in *. lia.
    + apply wf_WF in Hw. destruct l as [|x [|y t]].
      * destruct Hw; congruence.
      * destruct x as [a|r|g].
        -- exists (EAtom a). apply R_atom.
        -- exfalso. apply (M r). now left.
        -- pose proof (wf_all Hw (IG g) (or_introl eq_refl)) as Wg. change (wf g = true) in Wg.
           unfold lsize in Hn. simpl in Hn. destruct (IH g ltac:(unfold lsize; lia) Wg) as [e Re]. exists e. now apply R_grp.
      * assert (W1 : WF [x]).
        { constructor; simpl; auto; try discriminate.
          - intros h t' E. inversion E; subst. apply (wf_first Hw eq_refl).
          - intros h. left. apply (wf_first Hw eq_refl).
          - intros z [<-|[]]. apply (wf_all Hw). now left. }
        assert (W2 : WF (y :: t)).
        { constructor; try discriminate.
          - intros h t' E. inversion E; subst. destruct h; auto. exfalso. apply (M r). right. now left.
          - intros h. left. destruct (wf_last Hw h) as [Q|Q]; [|discriminate]. simpl in Q. exact Q.
          - pose proof (wf_adj Hw) as Q. simpl in Q. apply andb_true_iff in Q. now destruct Q.
          - intros z Hz. apply (wf_all Hw). now right. }
        unfold lsize in Hn. simpl in Hn. pose proof (isize_pos x). pose proof (isize_pos y).
        destruct (IH [x] ltac:(unfold lsize; simpl; lia) (proj2 (wf_WF [x]) W1)) as [e1 R1].
        destruct (IH (y :: t) ltac:(unfold lsize; simpl; lia) (proj2 (wf_WF (y :: t)) W2)) as [e2 R2].
        exists (EBin BThen e1 e2). apply (@R_then atom rule rule_alias rule_order order_then [x] (y :: t)); auto.
        intros r' Hc. exfalso. apply (M r'). now apply can_split_in.
Qed.

Theorem wf_iff_grammar l : wf l = true <-> exists e, GFc l e.
Proof.
  split.
  - intros H. destruct (@wf_total (lsize l) l (le_n _) H) as [e R]. exists e. now apply (@R_GF atom rule rule_alias rule_order order_then).
  - intros [e H]. now apply GF_wf with (e := e).
Qed.

(* ---------- the model parser: Tree or SyntaxError, and it accepts exactly the documented language ---------- *)
Lemma wf_canon its : wf its = true -> exists e, Rc its e /\ canonc (canon_fuel its) 0 its = Some (flat e).
Proof.
  intros H. destruct (@wf_total (lsize its) its (le_n _) H) as [e R]. exists e. split; [exact R|].
  apply canon_complete. now apply resolution_respects_precedence_c.
Qed.

Theorem parse_cond_only_syntaxerror s : (exists t, parse_cond s = Ok t) \/ parse_cond s = Exn SyntaxErr.
Proof.
  unfold parse_cond. destruct (lex s) as [ts|]; [|now right]. destruct (group ts) as [its|]; [|now right].
  destruct (wf its) eqn:W; [|now right]. left. destruct (wf_canon its W) as [e [_ C]]. rewrite C. simpl. eauto.
Qed.

Theorem parse_cond_accepts_iff s :
  (exists t, parse_cond s = Ok t) <-> exists ts its, lex s = Some ts /\ group ts = Some its /\ wf its = true.
Proof.
  unfold parse_cond. split.
  - intros [t H]. destruct (lex s) as [ts|]; [|discriminate]. destruct (group ts) as [its|] eqn:G; [|discriminate].
    destruct (wf its) eqn:W; [|discriminate]. exists ts, its. auto.
  - intros [ts [its [L [G W]]]]. rewrite L, G, W. destruct (wf_canon its W) as [e [_ C]]. rewrite C. simpl. eauto.
Qed.

(* the accepted tree is the flattening of every parse Lark's resolution admits *)
Theorem parse_cond_is_lark s ts its e : lex s = Some ts -> group ts = Some its -> Rc its e -> parse_cond s = Ok (flat e).
Proof.
  intros L G R. unfold parse_cond. rewrite L, G.
  assert (W : wf its = true) by (apply GF_wf with (e := e); now apply (@R_GF atom rule rule_alias rule_order order_then)).
  rewrite W. rewrite (canon_complete (resolution_respects_precedence_c R)). reflexivity.
Qed.

Lemma wf_total_c its : wf its = true -> exists e, Rc its e.
Proof. intros H. exact (@wf_total (lsize its) its (le_n _) H). Qed.
