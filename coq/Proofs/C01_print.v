(* Printing a bracket forest and reading it back: [group] inverts the flattening with brackets, and a rendering in which
   every token carries white space on both sides is lexed back to its tokens (on top of Proofs/C01_lexprint.v). *)
From Coq Require Import Lia.
From Ahb Require Import Model.Prelude Model.Grammar Gen.Gen_grammar Model.Lex Proofs.C02_language Proofs.C01_lexprint.

Fixpoint untok (x : item) : list tok :=
  match x with
  | IA a => [TA a]
  | IO r => [TO r]
  | IG g => TL :: flat_map untok g ++ [TR]
  end.
Definition untoks (l : list item) : list tok := flat_map untok l.

Lemma untoks_cons x l : untoks (x :: l) = untok x ++ untoks l. Proof. reflexivity. Qed.

Definition tail_ok (tail : list tok) : Prop := tail = [] \/ exists r, tail = TR :: r.
Definition expected (its : list item) (tail : list tok) : option (list item * list tok * bool) :=
  match tail with [] => Some (its, [], false) | _ :: r => Some (its, r, true) end.

Lemma group_fuel_untoks n : forall its, lsize its <= n -> forall tail f, length (untoks its ++ tail) < f -> tail_ok tail ->
  group_fuel f (untoks its ++ tail) = expected its tail.
Proof.
  induction n as [|n IH]; intros its Hn tail f Hf Ht.
  - destruct its as [|x t]; [|unfold lsize in Hn; simpl in Hn; pose proof (isize_pos x); lia].
    simpl. destruct f as [|f]; [simpl in Hf; lia|]. destruct Ht as [->|[r ->]]; reflexivity.
  - destruct its as [|x t].
    + simpl. destruct f as [|f]; [simpl in Hf; lia|]. destruct Ht as [->|[r ->]]; reflexivity.
    + rewrite untoks_cons, <- app_assoc. unfold lsize in Hn. simpl in Hn. fold (lsize t) in Hn. pose proof (isize_pos x) as Hx.
      destruct f as [|f]; [simpl in Hf; lia|].
      assert (Hf' : length (untok x ++ untoks t ++ tail) < Datatypes.S f) by (rewrite untoks_cons, <- app_assoc in Hf; exact Hf).
      clear Hf.
      destruct x as [a|r|g]; simpl untok in *; simpl app in *.
      * cbn [group_fuel]. rewrite (IH t); [destruct Ht as [->|[r ->]]; reflexivity|lia|simpl in Hf'; lia|exact Ht].
      * cbn [group_fuel]. rewrite (IH t); [destruct Ht as [->|[r' ->]]; reflexivity|lia|simpl in Hf'; lia|exact Ht].
      * cbn [group_fuel]. rewrite <- app_assoc. simpl app. fold (untoks g) in *.
        simpl in Hn. fold (lsize g) in Hn.
        rewrite <- app_assoc in Hf'. simpl in Hf'. rewrite !app_length in Hf'. simpl in Hf'. rewrite app_length in Hf'.
        rewrite (IH g); [|lia|rewrite !app_length; simpl; rewrite app_length; lia|right; eexists; reflexivity].
        unfold expected at 1. cbv iota beta. rewrite (IH t); [destruct Ht as [->|[r' ->]]; reflexivity|lia|rewrite app_length; lia|exact Ht].
Qed.

Theorem group_untoks its : group (untoks its) = Some its.
Proof.
  unfold group. pose proof (@group_fuel_untoks (lsize its) its (le_n _) [] (Datatypes.S (length (untoks its)))) as H.
  rewrite app_nil_r in H. rewrite H; [reflexivity|lia|now left].
Qed.

(* ---------- tokens with white space on both sides ---------- *)
Definition ptok3 := (text * ptok * text)%type.
Definition render3 (l : list ptok3) : text := concat (map (fun q => fst (fst q) ++ render_ptok (snd (fst q)) ++ snd q) l).
Definition ok3 (q : ptok3) : Prop := all_ws (fst (fst q)) = true /\ ptok_ok (snd (fst q)) = true /\ all_ws (snd q) = true.

(* move the white space behind a token in front of the next one *)
Fixpoint shift (pend : text) (l : list ptok3) : list (text * ptok) * text :=
  match l with
  | [] => ([], pend)
  | (w1, p, w2) :: t => let '(r, tr) := shift w2 t in ((pend ++ w1, p) :: r, tr)
  end.

Lemma render_cons w p l trail : render ((w, p) :: l) trail = w ++ render_ptok p ++ render l trail.
Proof. unfold render. simpl. now rewrite <- !app_assoc. Qed.

Lemma shift_render l : forall pend, pend ++ render3 l = render (fst (shift pend l)) (snd (shift pend l)).
Proof.
  induction l as [|[[w1 p] w2] t IH]; intros pend.
  - simpl. unfold render3, render. simpl. reflexivity || now rewrite app_nil_r.
  - simpl shift. destruct (shift w2 t) as [r tr] eqn:E. simpl fst. simpl snd. rewrite render_cons.
    specialize (IH w2). rewrite E in IH. simpl in IH. rewrite <- IH. unfold render3. simpl. now rewrite <- !app_assoc.
Qed.

Lemma all_ws_app a b : all_ws a = true -> all_ws b = true -> all_ws (a ++ b) = true.
Proof. unfold all_ws. intros. rewrite forallb_app. now apply andb_true_iff. Qed.

Lemma shift_ok l : Forall ok3 l -> forall pend, all_ws pend = true ->
  Forall (fun p => all_ws (fst p) = true /\ ptok_ok (snd p) = true) (fst (shift pend l)) /\ all_ws (snd (shift pend l)) = true /\
  map (fun p => tok_of (snd p)) (fst (shift pend l)) = map (fun q : ptok3 => tok_of (snd (fst q))) l.
Proof.
  induction 1 as [|[[w1 p] w2] t [H1 [H2 H3]] _ IH]; intros pend Hp; simpl.
  - repeat split; auto.
  - simpl in H1, H2, H3. destruct (IH w2 H3) as [A [B C]]. destruct (shift w2 t) as [r tr]. simpl in *. repeat split; auto.
    + constructor; [split; [now apply all_ws_app|exact H2]|exact A].
    + now rewrite C.
Qed.

Theorem lex_render3 l : Forall ok3 l -> lex (render3 l) = Some (map (fun q : ptok3 => tok_of (snd (fst q))) l).
Proof.
  intros H. destruct (shift_ok l H [] eq_refl) as [A [B C]]. pose proof (shift_render l []) as E. simpl in E. rewrite E.
  rewrite (lex_render _ _ A B). now rewrite C.
Qed.

(* conversely, whatever [group] accepts is the flattening of its result *)
Lemma group_fuel_sound f : forall ts its rest cl, group_fuel f ts = Some (its, rest, cl) ->
  ts = untoks its ++ (if cl then TR :: rest else []) /\ (cl = false -> rest = []).
Proof.
  induction f as [|f IH]; intros ts its rest cl H; [discriminate|]. cbn [group_fuel] in H.
  destruct ts as [|x ts'].
  - inversion H; subst. auto.
  - destruct x as [a|o| |].
    + destruct (group_fuel f ts') as [[[its' r2] cl']|] eqn:G; [|discriminate]. inversion H; subst. clear H.
      destruct (IH _ _ _ _ G) as [E C]. split; [|exact C]. rewrite untoks_cons. simpl. now rewrite E.
    + destruct (group_fuel f ts') as [[[its' r2] cl']|] eqn:G; [|discriminate]. inversion H; subst. clear H.
      destruct (IH _ _ _ _ G) as [E C]. split; [|exact C]. rewrite untoks_cons. simpl. now rewrite E.
    + (* TL *) destruct (group_fuel f ts') as [[[g r1] [|]]|] eqn:G1; try discriminate.
      destruct (group_fuel f r1) as [[[its' r2] cl']|] eqn:G2; [|discriminate]. inversion H; subst. clear H.
      destruct (IH _ _ _ _ G1) as [E1 _]. destruct (IH _ _ _ _ G2) as [E2 C2]. split; [|exact C2].
      rewrite untoks_cons. simpl untok. fold (untoks g). rewrite E1, E2. simpl. rewrite <- !app_assoc. reflexivity.
    + (* TR *) inversion H; subst. simpl. split; [reflexivity|discriminate].
Qed.

Theorem group_iff ts its : group ts = Some its <-> ts = untoks its.
Proof.
  split.
  - unfold group. destruct (group_fuel _ ts) as [[[its' [|]] [|]]|] eqn:G; try discriminate. intros H. inversion H; subst.
    destruct (group_fuel_sound _ _ _ _ _ G) as [E _]. now rewrite app_nil_r in E.
  - intros ->. apply group_untoks.
Qed.
