(* C09, splitting: printing a list of modal-mark parts (any ASCII letter-case spelling, condition texts over the
   CONDITION_EXPRESSION alphabet) and scanning it back yields exactly these parts, in order. *)
From Coq Require Import Lia.
From Ahb Require Import Model.Prelude Model.Grammar Gen.Gen_grammar Gen.Gen_ahbgrammar Gen.Gen_valmaps Gen.Gen_enums Model.Lex Model.EvalAhb Model.Ahb Proofs.C09_ahb.
Set Implicit Arguments.

Definition mm_spellings : list text := flat_map case_variants [w_m; w_muss; w_s; w_soll; w_k; w_kann].
Definition po_spellings : list text := flat_map case_variants [w_x; w_o; w_u].

(* a condition text as the scanner sees it: at least two characters of the CONDITION_EXPRESSION class, and the negative
   look-ahead (?!\BU\B) does not block it (every condition expression "[..." qualifies) *)
Definition cond_ok (prev : N) (c : text) : bool :=
  (2 <=? length c) && forallb in_ce_class c && negb (lookahead_blocks prev c).

Definition print_part (p : text * text) : text := fst p ++ snd p.
Definition print_parts (ps : list (text * text)) (tail : option text) : text :=
  concat (map print_part ps) ++ match tail with Some t => t | None => [] end.
Definition part_ok (p : text * text) : bool := existsb (text_eqb (fst p)) mm_spellings && cond_ok (last (fst p) 0%N) (snd p).
Definition expected (ps : list (text * text)) (tail : option text) : list rawpart :=
  map (fun p => RP (TokMM (fst p)) (Some (snd p))) ps ++ match tail with Some t => [RP (TokMM t) None] | None => [] end.

(* ---------- finite facts about the regenerated character data ---------- *)
Definition starters : list N := ci_m ++ ci_s ++ ci_k.
Lemma class_facts :
  forallb (fun c => negb (in_ce_class c)) (starters ++ ci_l ++ ci_a ++ ci_n) = true /\
  forallb (fun c => negb (in_set c ci_x || in_set c ci_o || in_set c ci_u)) starters = true /\
  forallb (fun c => negb (in_set c ci_l)) starters = true.
Proof. vm_compute. repeat split. Qed.

Lemma in_set_true c l : in_set c l = true -> In c l.
Proof. unfold in_set. rewrite existsb_exists. intros [x [Hx E]]. apply N.eqb_eq in E. now subst. Qed.
Lemma forallb_in {A} (f : A -> bool) l x : forallb f l = true -> In x l -> f x = true.
Proof. rewrite forallb_forall. auto. Qed.

Lemma set_disjoint l : forallb (fun c => negb (in_ce_class c)) l = true -> forall c, in_ce_class c = true -> in_set c l = false.
Proof.
  intros F c H. destruct (in_set c l) eqn:E; auto. apply in_set_true in E. pose proof (forallb_in _ _ _ F E) as G. simpl in G. now rewrite H in G.
Qed.

Lemma class_not_starter c : in_ce_class c = true -> in_set c ci_m = false /\ in_set c ci_s = false /\ in_set c ci_k = false /\
  in_set c ci_l = false /\ in_set c ci_a = false /\ in_set c ci_n = false.
Proof.
  intros H. repeat split; apply set_disjoint; auto; vm_compute; reflexivity.
Qed.

(* every spelling scans as a modal mark when followed by a condition text (or by nothing) *)
Definition full_words : list text := flat_map case_variants [w_muss; w_soll; w_kann].
Definition single_letters : list text := flat_map case_variants [w_m; w_s; w_k].

Lemma mm_full w rest : In w full_words -> modal_mark (w ++ rest) = Some (w, rest).
Proof.
  unfold full_words. simpl. intros Hin.
  repeat (destruct Hin as [<-|Hin]; [reflexivity|]). contradiction.
Qed.

Lemma mm_single w a b r : In w single_letters -> in_ce_class a = true -> in_ce_class b = true ->
  modal_mark (w ++ a :: b :: r) = Some (w, a :: b :: r).
Proof.
  intros Hin Ha Hb.
  destruct (@class_not_starter a Ha) as [A1 [A2 [A3 [A4 [A5 A6]]]]]. destruct (@class_not_starter b Hb) as [B1 [B2 [B3 [B4 [B5 B6]]]]].
  unfold single_letters in Hin. simpl in Hin.
  repeat (destruct Hin as [<-|Hin];
          [unfold modal_mark; cbn [app in_set existsb N.eqb Pos.eqb orb match_seq];
           rewrite ?B2, ?B4, ?A5; destruct (in_set a ci_u); destruct (in_set a ci_o); reflexivity|]).
  contradiction.
Qed.

Lemma mm_alone w : In w mm_spellings -> modal_mark w = Some (w, []).
Proof.
  unfold mm_spellings. simpl. intros Hin. repeat (destruct Hin as [<-|Hin]; [reflexivity|]). contradiction.
Qed.

Lemma mm_split_kinds w : In w mm_spellings -> In w full_words \/ In w single_letters.
Proof.
  unfold mm_spellings, full_words, single_letters. simpl. intros Hin.
  repeat (destruct Hin as [<-|Hin]; [first [left; simpl; tauto | right; simpl; tauto]|]). contradiction.
Qed.

(* ---------- scanning a condition text ---------- *)
Lemma span_app p c rest : forallb p c = true -> (rest = [] \/ exists x r, rest = x :: r /\ p x = false) -> span p (c ++ rest) = (c, rest).
Proof.
  intros Hc Hr. induction c as [|x t IH]; simpl in *.
  - destruct Hr as [->|[x [r [-> Hx]]]]; simpl; [reflexivity|now rewrite Hx].
  - apply andb_true_iff in Hc. destruct Hc as [Hx Ht]. rewrite Hx, (IH Ht). reflexivity.
Qed.

Definition starts_outside (rest : text) : Prop := rest = [] \/ exists x r, rest = x :: r /\ in_ce_class x = false.

Lemma condition_expression_scan prev c rest : cond_ok prev c = true -> starts_outside rest ->
  condition_expression prev (c ++ rest) = Some (c, rest) /\ exists a b r, c ++ rest = a :: b :: r /\ in_ce_class a = true /\ in_ce_class b = true.
Proof.
  unfold cond_ok. intros H Hr. apply andb_true_iff in H. destruct H as [H Hl]. apply andb_true_iff in H. destruct H as [Hlen Hc].
  destruct c as [|a [|b t]]; simpl in Hlen; try discriminate.
  simpl in Hc. apply andb_true_iff in Hc. destruct Hc as [Ha Hc]. apply andb_true_iff in Hc. destruct Hc as [Hb Ht].
  split.
  - unfold condition_expression.
    assert (L : lookahead_blocks prev ((a :: b :: t) ++ rest) = lookahead_blocks prev (a :: b :: t)) by reflexivity.
    rewrite L. apply negb_true_iff in Hl. rewrite Hl.
    rewrite (@span_app in_ce_class (a :: b :: t) rest); [reflexivity| |exact Hr]. simpl. now rewrite Ha, Hb, Ht.
  - exists a, b, (t ++ rest). auto.
Qed.

Lemma spelling_nonempty_starter w : In w mm_spellings -> exists x r, w = x :: r /\ In x starters.
Proof.
  unfold mm_spellings. simpl. intros Hin.
  repeat (destruct Hin as [<-|Hin]; [eexists; eexists; split; [reflexivity|vm_compute; tauto]|]). contradiction.
Qed.

Lemma starter_outside x : In x starters -> in_ce_class x = false /\ (in_set x ci_x || in_set x ci_o || in_set x ci_u) = false.
Proof.
  intros H. destruct class_facts as [F1 [F2 _]]. split.
  - assert (In x (starters ++ ci_l ++ ci_a ++ ci_n)) as Q by (apply in_or_app; now left).
    pose proof (forallb_in _ _ _ F1 Q) as G. simpl in G. now apply negb_true_iff in G.
  - pose proof (forallb_in _ _ _ F2 H) as G. simpl in G. now apply negb_true_iff in G.
Qed.

Lemma in_spellings (p : text * text) : existsb (text_eqb (fst p)) mm_spellings = true -> In (fst p) mm_spellings.
Proof. rewrite existsb_exists. intros [w [Hw E]]. apply text_eqb_eq in E. now rewrite E. Qed.

Lemma print_starts ps tail : Forall (fun p => part_ok p = true) ps -> (forall t, tail = Some t -> In t mm_spellings) ->
  starts_outside (print_parts ps tail) /\ (print_parts ps tail = [] -> ps = [] /\ tail = None).
Proof.
  intros Hps Ht. destruct ps as [|p ps'].
  - unfold print_parts. simpl. destruct tail as [t|]; [|split; [now left|auto]].
    destruct (spelling_nonempty_starter (Ht t eq_refl)) as [x [r [-> Hx]]]. split; [right; exists x, r; split; [reflexivity|exact (proj1 (starter_outside Hx))]|discriminate].
  - inversion Hps as [|? ? Hp _]; subst. unfold part_ok in Hp. apply andb_true_iff in Hp. destruct Hp as [Hm _].
    destruct (spelling_nonempty_starter (in_spellings _ Hm)) as [x [r [E Hx]]].
    unfold print_parts. simpl. unfold print_part at 1. rewrite E. simpl.
    split; [right; eexists; eexists; split; [reflexivity|exact (proj1 (starter_outside Hx))]|].
    intros Q. unfold print_part in Q. rewrite E in Q. discriminate.
Qed.

Theorem mm_parts_print : forall ps tail fuel, Forall (fun p => part_ok p = true) ps -> (forall t, tail = Some t -> In t mm_spellings) ->
  (ps <> [] \/ tail <> None) -> length ps < fuel -> mm_parts fuel (print_parts ps tail) = Some (expected ps tail).
Proof.
  induction ps as [|[mm c] ps IH]; intros tail fuel Hps Ht Hne Hf.
  - destruct tail as [t|]; [|destruct Hne; congruence]. destruct fuel as [|f]; [inversion Hf|].
    unfold print_parts. simpl. rewrite (mm_alone (Ht t eq_refl)). reflexivity.
  - destruct fuel as [|f]; [inversion Hf|]. inversion Hps as [|? ? Hp Hps']; subst.
    unfold part_ok in Hp. simpl in Hp. apply andb_true_iff in Hp. destruct Hp as [Hm Hc].
    pose proof (in_spellings (mm, c) Hm) as Hin. simpl in Hin.
    destruct (print_starts Hps' Ht) as [Hout Hempty].
    assert (E : print_parts ((mm, c) :: ps) tail = mm ++ (c ++ print_parts ps tail)).
    { unfold print_parts. simpl. unfold print_part at 1. simpl. now rewrite <- !app_assoc. }
    rewrite E. destruct (condition_expression_scan (last mm 0%N) c Hc Hout) as [Hce [a [b [r [Eab [Ha Hb]]]]]].
    assert (Hmm : modal_mark (mm ++ (c ++ print_parts ps tail)) = Some (mm, c ++ print_parts ps tail)).
    { rewrite Eab. destruct (mm_split_kinds Hin) as [Hfull|Hsingle]; [apply (mm_full _ Hfull)|now apply mm_single]. }
    cbn [mm_parts]. rewrite Hmm.
    assert (Hne2 : c ++ print_parts ps tail <> []) by (rewrite Eab; discriminate).
    rewrite Hce. destruct (c ++ print_parts ps tail) as [|z zs] eqn:Ecr; [congruence|]. clear Ecr.
    destruct (print_parts ps tail) as [|x y] eqn:R.
    + destruct (Hempty eq_refl) as [-> ->]. reflexivity.
    + rewrite <- R. rewrite IH; auto.
      * destruct ps as [|p ps']; [right|left; discriminate]. intros ->. unfold print_parts in R. simpl in R. discriminate.
      * simpl in Hf. apply Nat.succ_lt_mono in Hf. exact Hf.
Qed.


(* at least one character per part, so `length s` is enough fuel *)
Lemma print_length ps tail : Forall (fun p => part_ok p = true) ps -> length ps <= length (print_parts ps tail).
Proof.
  intros H. unfold print_parts. rewrite app_length. induction H as [|[mm c] ps Hp _ IH]; simpl; [apply Nat.le_0_l|].
  unfold print_part at 1. simpl. rewrite !app_length.
  unfold part_ok in Hp. simpl in Hp. apply andb_true_iff in Hp. destruct Hp as [_ Hc]. unfold cond_ok in Hc.
  apply andb_true_iff in Hc. destruct Hc as [Hc _]. apply andb_true_iff in Hc. destruct Hc as [Hl _]. apply Nat.leb_le in Hl.
  rewrite <- !Nat.add_assoc. lia.
Qed.

Lemma po_none x s : In x starters -> prefix_operator (x :: s) = None.
Proof. intros H. unfold prefix_operator. now rewrite (proj2 (starter_outside H)). Qed.

(* the headline: an AHB expression made of modal-mark parts, optionally ending in a bare modal mark, is split into
   exactly these parts in written order *)
Theorem split_modal_mark_parts ps tail : Forall (fun p => part_ok p = true) ps -> (forall t, tail = Some t -> In t mm_spellings) ->
  (ps <> [] \/ tail <> None) -> parse_ahb (print_parts ps tail) = Ok (expected ps tail).
Proof.
  intros Hps Ht Hne. unfold parse_ahb.
  assert (Hpo : prefix_operator (print_parts ps tail) = None).
  { destruct ps as [|[mm c] ps'].
    - destruct tail as [t|]; [|destruct Hne; congruence]. unfold print_parts. simpl.
      destruct (spelling_nonempty_starter (Ht t eq_refl)) as [x [r [-> Hx]]]. now apply po_none.
    - inversion Hps as [|? ? Hp _]; subst. unfold part_ok in Hp. apply andb_true_iff in Hp. destruct Hp as [Hm _].
      destruct (spelling_nonempty_starter (in_spellings (mm, c) Hm)) as [x [r [E Hx]]]. simpl in E. subst mm.
      unfold print_parts. cbn [map concat]. unfold print_part at 1. cbn [fst snd app]. now apply po_none. }
  rewrite Hpo. rewrite mm_parts_print; auto. pose proof (print_length tail Hps). lia.
Qed.

(* one prefix-operator part, and bare indicators *)
Theorem split_prefix_operator_part po c : In po po_spellings -> cond_ok (last po 0%N) c = true ->
  parse_ahb (po ++ c) = Ok [RP (TokPO po) (Some c)].
Proof.
  intros Hin Hc. destruct (condition_expression_scan (last po 0%N) c (rest := []) Hc (or_introl eq_refl)) as [Hce [a [b [r [Eab _]]]]].
  rewrite app_nil_r in Hce, Eab.
  unfold po_spellings in Hin. simpl in Hin.
  repeat (destruct Hin as [<-|Hin]; [unfold parse_ahb; simpl prefix_operator; simpl app; rewrite Eab at 1; rewrite <- Eab; simpl last in *; rewrite Hce; reflexivity|]).
  contradiction.
Qed.

Theorem split_bare_indicator w : (In w mm_spellings -> parse_ahb w = Ok [RP (TokMM w) None]) /\
                                 (In w po_spellings -> parse_ahb w = Ok [RP (TokPO w) None]).
Proof.
  split; intros Hin.
  - unfold mm_spellings in Hin. simpl in Hin. repeat (destruct Hin as [<-|Hin]; [reflexivity|]). contradiction.
  - unfold po_spellings in Hin. simpl in Hin. repeat (destruct Hin as [<-|Hin]; [reflexivity|]). contradiction.
Qed.

Example split_example :
  let ps := [([77;117;115;115]%N, [32;91;49;93;32;85;32;91;50;93;32]%N); ([115]%N, [91;51;93]%N)] in   (* "Muss [1] U [2] " , "s[3]" *)
  Forall (fun p => part_ok p = true) ps /\ parse_ahb (print_parts ps (Some [75;97;110;110]%N)) = Ok (expected ps (Some [75;97;110;110]%N)).
Proof. split; [repeat constructor|vm_compute; reflexivity]. Qed.
