(* C11 -- parse caching is invisible: proofs about the heap model Model/Heap.v.
   Main result [deep_copy_isolates]: with tree_copy = deep copy, every parse of every history (hits, misses, evictions at
   any maxsize, exceptions, arbitrary edits of every tree handed out before) returns pure_parse of its string.
   Invariant: there is a set K of cache-owned cells such that (1) every cache entry for (p, s) reads back, inside K and with
   children cells below parent cells, as pure_parse p s; (2) no handle and no cell outside K points into K; (3) every cell
   in K and every cell pointed to is below the next-free counter (so cells allocated later are fresh for everybody). *)
From Coq Require Import FMapPositive PArith Lia.
From Ahb Require Import Model.Prelude Gen.Gen_cache Model.Heap.
Set Implicit Arguments.

(* ---------------------------------------------------------------- generic list facts *)
Section atree_ind2.
  Variable P : atree -> Prop.
  Hypothesis Htok : forall ty v, P (ATok ty v).
  Hypothesis Htree : forall d ks, Forall P ks -> P (ATree d ks).
  Fixpoint atree_ind2 (t : atree) : P t :=
    match t with
    | ATok ty v => Htok ty v
    | ATree d ks => Htree d ((fix go (ks : list atree) : Forall P ks :=
                               match ks with [] => Forall_nil P | k :: ks' => Forall_cons k (atree_ind2 k) (go ks') end) ks)
    end.
End atree_ind2.

Lemma Forall2_Forall_r {A B} (P Q : A -> B -> Prop) l2 :
  Forall (fun y => forall x, P x y -> Q x y) l2 -> forall l1, Forall2 P l1 l2 -> Forall2 Q l1 l2.
Proof.
  induction 1 as [|y l2 Hy Hl IH]; intros l1 H2; inversion H2; subst; constructor; auto.
Qed.
Lemma Forall2_imp {A B} (P Q : A -> B -> Prop) : (forall x y, P x y -> Q x y) ->
  forall l1 l2, Forall2 P l1 l2 -> Forall2 Q l1 l2.
Proof. intros H l1 l2 H2. induction H2; constructor; auto. Qed.

Lemma mapM_Forall2 {A B} (g : A -> result B) rs ks : Forall2 (fun r k => g r = Ok k) rs ks -> mapM g rs = Ok ks.
Proof. induction 1 as [|r k rs ks Hr Hrs IH]; simpl; [reflexivity|]. rewrite Hr. simpl. rewrite IH. reflexivity. Qed.

Lemma In_firstn {A} n (l : list A) x : In x (firstn n l) -> In x l.
Proof.
  revert l; induction n as [|n IH]; intros [|y l] H; simpl in H; try contradiction.
  destruct H as [H|H]; [left; exact H|right; now apply IH].
Qed.

Lemma set_nth_Forall {A} (P : A -> Prop) i x l l' : set_nth i x l = Some l' -> P x -> Forall P l -> Forall P l'.
Proof.
  revert i l'; induction l as [|y t IH]; intros [|j] l' H Px Hl; simpl in H; try discriminate.
  - inversion H; subst. inversion Hl; subst. constructor; auto.
  - destruct (set_nth j x t) as [t'|] eqn:E; simpl in H; [|discriminate]. inversion H; subst.
    inversion Hl; subst. constructor; [assumption|]. eapply IH; eauto.
Qed.
Lemma del_nth_Forall {A} (P : A -> Prop) i l l' : del_nth i l = Some l' -> Forall P l -> Forall P l'.
Proof.
  revert i l'; induction l as [|y t IH]; intros [|j] l' H Hl; simpl in H; try discriminate.
  - inversion H; subst. now inversion Hl.
  - destruct (del_nth j t) as [t'|] eqn:E; simpl in H; [|discriminate]. inversion H; subst.
    inversion Hl; subst. constructor; [assumption|]. eapply IH; eauto.
Qed.

(* ---------------------------------------------------------------- the store *)
Lemma sfind_add_same c rs st : sfind c (sadd c rs st) = Some rs.
Proof. apply PositiveMap.gss. Qed.
Lemma sfind_add_other c c' rs st : c <> c' -> sfind c (sadd c' rs st) = sfind c st.
Proof. intros H. apply PositiveMap.gso. exact H. Qed.
Lemma sfind_empty c : sfind c (PositiveMap.empty (list ref)) = None.
Proof. apply PositiveMap.gempty. Qed.

Definition rng (lo hi c : cell) : Prop := (lo <= c)%positive /\ (c < hi)%positive.
Definition ref_in (lo hi : cell) (r : ref) : Prop := match r with RTok _ _ => True | RTree _ c => rng lo hi c end.

(* [repr K st b r t]: below ref r the store holds exactly the tree t, using only cells of K, the root cell below b and
   every child cell below its parent's cell (hence no cycles, and the height of t is bounded by b) *)
Inductive repr (K : cell -> Prop) (st : store) : cell -> ref -> atree -> Prop :=
| repr_tok b ty v : repr K st b (RTok ty v) (ATok ty v)
| repr_tree b d c rs ks : (c < b)%positive -> K c -> sfind c st = Some rs -> Forall2 (repr K st c) rs ks ->
    repr K st b (RTree d c) (ATree d ks).

Lemma repr_tok_inv K st b r ty v : repr K st b r (ATok ty v) -> r = RTok ty v.
Proof. intros H. inversion H; subst. reflexivity. Qed.
Lemma repr_tree_inv K st b r d ks : repr K st b r (ATree d ks) ->
  exists c rs, r = RTree d c /\ (c < b)%positive /\ K c /\ sfind c st = Some rs /\ Forall2 (repr K st c) rs ks.
Proof. intros H. inversion H; subst. eauto 10. Qed.

Lemma repr_mono (K K' : cell -> Prop) st st' t : forall b b' r,
  (forall c, K c -> K' c) -> (forall c, K c -> sfind c st' = sfind c st) -> (b <= b')%positive ->
  repr K st b r t -> repr K' st' b' r t.
Proof.
  induction t as [ty v|d ks IH] using atree_ind2; intros b b' r HK Hst Hb Hr.
  - apply repr_tok_inv in Hr. subst. constructor.
  - apply repr_tree_inv in Hr. destruct Hr as (c & rs & -> & Hc & HKc & Hf & Hrs).
    econstructor; [lia|now apply HK|rewrite Hst; eassumption|].
    eapply Forall2_Forall_r; [|exact Hrs].
    eapply Forall_impl; [|exact IH]. intros k Hk x Hx. simpl in Hk. eapply Hk; eauto. lia.
Qed.

Lemma fold_max_le ks m : Forall (fun k => height k <= m) ks <-> fold_right (fun k m => Nat.max (height k) m) 0 ks <= m.
Proof.
  induction ks as [|k ks IH]; simpl.
  - split; intros H; [lia|constructor].
  - split; intros H.
    + inversion H; subst. apply IH in H3. lia.
    + constructor; [lia|apply IH; lia].
Qed.

Lemma repr_height K st t : forall b r, repr K st b r t -> height t <= Pos.to_nat b.
Proof.
  induction t as [ty v|d ks IH] using atree_ind2; intros b r Hr.
  - simpl. pose proof (Pos2Nat.is_pos b). lia.
  - apply repr_tree_inv in Hr. destruct Hr as (c & rs & -> & Hc & HKc & Hf & Hrs).
    simpl. assert (Hm : fold_right (fun k m => Nat.max (height k) m) 0 ks <= Pos.to_nat c).
    { apply fold_max_le. clear - IH Hrs. revert rs Hrs. induction IH as [|k ks Hk Hks IH2]; intros rs Hrs; constructor.
      - inversion Hrs; subst. eapply Hk; eauto.
      - inversion Hrs; subst. eapply IH2; eauto. }
    apply Pos2Nat.inj_lt in Hc. lia.
Qed.

Lemma read_repr K st t : forall b r fuel, repr K st b r t -> height t <= fuel -> read fuel st r = Ok t.
Proof.
  induction t as [ty v|d ks IH] using atree_ind2; intros b r fuel Hr Hf.
  - apply repr_tok_inv in Hr. subst. destruct fuel as [|f]; [simpl in Hf; lia|reflexivity].
  - apply repr_tree_inv in Hr. destruct Hr as (c & rs & -> & Hc & HKc & Hfd & Hrs).
    destruct fuel as [|f]; [simpl in Hf; lia|]. simpl. unfold read_step. rewrite Hfd. simpl in Hf.
    assert (Hk : Forall (fun k => height k <= f) ks) by (apply fold_max_le; lia).
    rewrite (@mapM_Forall2 _ _ (read f st) rs ks); [reflexivity|].
    clear - IH Hrs Hk. revert rs Hrs. induction IH as [|k ks Hk1 Hks IH2]; intros rs Hrs; inversion Hrs; subst; constructor.
    + inversion Hk; subst. eapply Hk1; eauto.
    + inversion Hk; subst. apply IH2; auto.
Qed.

(* ---------------------------------------------------------------- fuel in binary = fuel in unary *)
Lemma mapM_ext {A B} (g1 g2 : A -> result B) l : (forall x, g1 x = g2 x) -> mapM g1 l = mapM g2 l.
Proof. intros H. induction l as [|x l IH]; simpl; [reflexivity|]. now rewrite H, IH. Qed.
Lemma read_step_ext st g1 g2 r : (forall x, g1 x = g2 x) -> read_step st g1 r = read_step st g2 r.
Proof.
  intros H. destruct r as [ty v|d c]; simpl; [reflexivity|]. destruct (sfind c st) as [rs|]; [|reflexivity].
  now rewrite (mapM_ext g1 g2 rs H).
Qed.

Fixpoint iter_n (n : nat) (F : (ref -> result atree) -> ref -> result atree) (g : ref -> result atree) : ref -> result atree :=
  match n with O => g | Datatypes.S m => F (iter_n m F g) end.

Section Iter.
  Variable F : (ref -> result atree) -> ref -> result atree.
  Hypothesis F_ext : forall g1 g2 r, (forall x, g1 x = g2 x) -> F g1 r = F g2 r.

  Lemma iter_n_ext n : forall g1 g2, (forall x, g1 x = g2 x) -> forall r, iter_n n F g1 r = iter_n n F g2 r.
  Proof. induction n as [|n IH]; intros g1 g2 H r; simpl; [apply H|]. apply F_ext. intros x. now apply IH. Qed.
  Lemma iter_n_add a b g r : iter_n (a + b) F g r = iter_n a F (iter_n b F g) r.
  Proof. revert r. induction a as [|a IH]; intros r; simpl; [reflexivity|]. apply F_ext. exact IH. Qed.
  Lemma iter2_iter_n k : forall g r, iter2 k F g r = iter_n (2 ^ k) F g r.
  Proof.
    induction k as [|k IH]; intros g r; [reflexivity|].
    simpl iter2. rewrite IH. replace (2 ^ Datatypes.S k) with (2 ^ k + 2 ^ k) by (simpl; lia).
    rewrite iter_n_add. apply iter_n_ext. intros x. apply IH.
  Qed.
End Iter.

Lemma read_iter_n st f : forall r, read f st r = iter_n f (read_step st) (fun _ => Exn OutOfFuel) r.
Proof. induction f as [|f IH]; intros r; simpl; [reflexivity|]. apply read_step_ext. exact IH. Qed.

Lemma readb_read n st r : readb n st r = read (2 ^ bits n) st r.
Proof. unfold readb. rewrite read_iter_n. apply iter2_iter_n. intros g1 g2 x H. now apply read_step_ext. Qed.

Lemma bits_bound p : Pos.to_nat p < 2 ^ bits p.
Proof.
  induction p as [q IH|q IH|]; simpl bits.
  - rewrite Pos2Nat.inj_xI. simpl. lia.
  - rewrite Pos2Nat.inj_xO. simpl. lia.
  - simpl. rewrite Pos2Nat.inj_1. lia.
Qed.

Lemma readb_repr K st t b n r : repr K st b r t -> (b <= n)%positive -> readb n st r = Ok t.
Proof.
  intros Hr Hb. rewrite readb_read. eapply read_repr; [exact Hr|].
  pose proof (repr_height Hr). pose proof (bits_bound n). apply Pos2Nat.inj_le in Hb. lia.
Qed.

(* ---------------------------------------------------------------- allocation writes fresh cells only *)
Definition alloc_post (st : store) (n : cell) (st' : store) (n' : cell) : Prop :=
  (n <= n')%positive /\
  (forall c, (c < n)%positive -> sfind c st' = sfind c st) /\
  (forall c, rng n n' c -> exists rs, sfind c st' = Some rs /\ Forall (ref_in n n') rs).

Lemma ref_in_weaken lo hi lo' hi' r : (lo' <= lo)%positive -> (hi <= hi')%positive -> ref_in lo hi r -> ref_in lo' hi' r.
Proof. destruct r as [ty v|d c]; simpl; [auto|]. unfold rng. lia. Qed.

Lemma alloc_post_refl st n : alloc_post st n st n.
Proof. repeat split; try lia; auto. intros c [H1 H2]. lia. Qed.

Lemma alloc_post_trans st n st1 n1 st2 n2 :
  alloc_post st n st1 n1 -> alloc_post st1 n1 st2 n2 -> alloc_post st n st2 n2.
Proof.
  intros (L1 & U1 & F1) (L2 & U2 & F2). repeat split; try lia.
  - intros c Hc. rewrite U2 by lia. now apply U1.
  - intros c [Hlo Hhi]. destruct (Pos.ltb_spec c n1) as [Hlt|Hge].
    + destruct (F1 c) as (rs & Hf & Hrs); [split; lia|]. exists rs. split; [rewrite U2 by lia; exact Hf|].
      eapply Forall_impl; [|exact Hrs]. intros r. apply ref_in_weaken; lia.
    + destruct (F2 c) as (rs & Hf & Hrs); [split; lia|]. exists rs. split; [exact Hf|].
      eapply Forall_impl; [|exact Hrs]. intros r. apply ref_in_weaken; lia.
Qed.

Definition alloc_ok (t : atree) : Prop := forall st n st' n' r, alloc t (st, n) = ((st', n'), r) ->
  alloc_post st n st' n' /\ ref_in n n' r /\ repr (rng n n') st' n' r t.

Lemma alloc_list_spec ks : Forall alloc_ok ks -> forall st n st' n' rs, mapS alloc ks (st, n) = ((st', n'), rs) ->
  alloc_post st n st' n' /\ Forall (ref_in n n') rs /\ Forall2 (repr (rng n n') st' n') rs ks.
Proof.
  induction 1 as [|k ks Hk Hks IH]; intros st n st' n' rs H; simpl in H.
  - inversion H; subst. split; [apply alloc_post_refl|]. split; constructor.
  - destruct (alloc k (st, n)) as [[st1 n1] r] eqn:E1. destruct (mapS alloc ks (st1, n1)) as [[st2 n2] rs2] eqn:E2.
    inversion H; subst. destruct (Hk _ _ _ _ _ E1) as (P1 & R1 & T1). destruct (IH _ _ _ _ _ E2) as (P2 & R2 & T2).
    pose proof P1 as (L1 & U1 & F1). pose proof P2 as (L2 & U2 & F2).
    split; [eapply alloc_post_trans; eauto|]. split.
    + constructor; [eapply ref_in_weaken; [| |exact R1]; lia|].
      eapply Forall_impl; [|exact R2]. intros x. apply ref_in_weaken; lia.
    + constructor.
      * eapply repr_mono; [| | |exact T1]; unfold rng; [intros c; lia|intros c Hc; apply U2; lia|lia].
      * eapply Forall2_imp; [|exact T2]. intros x y Hxy. eapply repr_mono; [| | |exact Hxy]; unfold rng; [intros c; lia|reflexivity|lia].
Qed.

Lemma alloc_spec t : alloc_ok t.
Proof.
  induction t as [ty v|d ks IH] using atree_ind2; intros st n st' n' r H.
  - simpl in H. inversion H; subst. split; [apply alloc_post_refl|]. split; [exact I|constructor].
  - simpl in H. destruct (mapS alloc ks (st, n)) as [[st1 n1] rs] eqn:E. inversion H; subst. clear H.
    destruct (alloc_list_spec IH _ _ E) as ((L1 & U1 & F1) & R1 & T1).
    split; [|split].
    + repeat split; try lia.
      * intros c Hc. rewrite sfind_add_other by lia. now apply U1.
      * intros c [Hlo Hhi]. destruct (Pos.eq_dec c n1) as [->|Hne].
        -- exists rs. split; [apply sfind_add_same|]. eapply Forall_impl; [|exact R1]. intros x. apply ref_in_weaken; lia.
        -- destruct (F1 c) as (rs0 & Hf & Hrs); [split; lia|]. exists rs0. split; [rewrite sfind_add_other by exact Hne; exact Hf|].
           eapply Forall_impl; [|exact Hrs]. intros x. apply ref_in_weaken; lia.
    + simpl. unfold rng. lia.
    + econstructor; [lia|unfold rng; lia|apply sfind_add_same|].
      eapply Forall2_imp; [|exact T1]. intros x y Hxy.
      eapply repr_mono; [| | |exact Hxy]; unfold rng; [intros c; lia|intros c Hc; apply sfind_add_other; lia|lia].
Qed.

Lemma alloc_fresh t st n st' n' r : alloc t (st, n) = ((st', n'), r) ->
  alloc_post st n st' n' /\ ref_in n n' r /\ repr (rng n n') st' n' r t.
Proof. apply alloc_spec. Qed.

(* ---------------------------------------------------------------- the cache as a list *)
Lemma lookup_In s c r : lookup s c = Some r -> In (s, r) c.
Proof.
  induction c as [|[k r0] c IH]; simpl; [discriminate|].
  destruct (N.eqb k s) eqn:E; intros H.
  - apply N.eqb_eq in E. inversion H; subst. now left.
  - right. now apply IH.
Qed.
Lemma In_touch e s r c : In e (touch s r c) -> e = (s, r) \/ In e c.
Proof.
  unfold touch, drop_key. simpl. intros [H|H]; [left; now symmetry|right].
  apply filter_In in H. tauto.
Qed.
Lemma In_insert e m s r c : In e (insert m s r c) -> e = (s, r) \/ In e c.
Proof. unfold insert. intros H. apply In_firstn in H. destruct H as [H|H]; [left; now symmetry|now right]. Qed.

(* ---------------------------------------------------------------- the separation invariant *)
Definition ref_ok (K : cell -> Prop) (n : cell) (r : ref) : Prop :=
  match r with RTok _ _ => True | RTree _ c => (c < n)%positive /\ ~ K c end.

Lemma ref_ok_weaken (K : cell -> Prop) n n' r : (n <= n')%positive -> ref_ok K n r -> ref_ok K n' r.
Proof. destruct r as [ty v|d c]; simpl; [auto|]. intros Hn [H1 H2]. split; [lia|exact H2]. Qed.
Lemma ref_in_ok (K : cell -> Prop) n n' r : (forall c, K c -> (c < n)%positive) -> ref_in n n' r -> ref_ok K n' r.
Proof.
  destruct r as [ty v|d c]; simpl; [auto|]. intros HK [H1 H2]. split; [exact H2|]. intros Hc. apply HK in Hc. lia.
Qed.

Section Deep.
  Variable maxsize : nat.
  Variable pp : parser -> N -> result atree.

  Record inv (K : cell -> Prop) (x : state) : Prop := mkInv {
    inv_K : forall c, K c -> (c < st_next x)%positive;
    inv_handles : Forall (ref_ok K (st_next x)) (st_handles x);
    inv_user : forall c rs, (c < st_next x)%positive -> ~ K c -> sfind c (st_store x) = Some rs ->
               Forall (ref_ok K (st_next x)) rs;
    inv_cache : forall p s r, In (s, r) (get_cache p x) ->
                exists t, pp p s = Ok t /\ repr K (st_store x) (st_next x) r t }.

  Lemma inv_init : inv (fun _ => False) init.
  Proof.
    constructor; simpl.
    - intros c [].
    - constructor.
    - intros c rs _ _ H. rewrite sfind_empty in H. discriminate.
    - intros [] s r [].
  Qed.

  Lemma get_cache_set_heap p h x : get_cache p (set_heap h x) = get_cache p x.
  Proof. destruct p; reflexivity. Qed.
  Lemma get_cache_push p r x : get_cache p (push_handle r x) = get_cache p x.
  Proof. destruct p; reflexivity. Qed.

  (* cells allocated for the caller (the copy handed out, junk built by the caller) *)
  Lemma inv_alloc_user K x st' n' :
    inv K x -> alloc_post (st_store x) (st_next x) st' n' -> inv K (set_heap (st', n') x).
  Proof.
    intros [HK Hh Hu Hc] (L & U & F). constructor; simpl.
    - intros c Hkc. apply HK in Hkc. lia.
    - eapply Forall_impl; [|exact Hh]. intros r. now apply ref_ok_weaken.
    - intros c rs Hlt Hnk Hf. destruct (Pos.ltb_spec c (st_next x)) as [Hc1|Hc1].
      + rewrite U in Hf by exact Hc1. eapply Forall_impl; [|eapply Hu; eauto]. intros r. now apply ref_ok_weaken.
      + destruct (F c) as (rs0 & Hf0 & Hrs0); [split; lia|]. rewrite Hf0 in Hf. inversion Hf; subst.
        eapply Forall_impl; [|exact Hrs0]. intros r. now apply ref_in_ok.
    - intros p s r Hin. rewrite get_cache_set_heap in Hin. destruct (Hc p s r Hin) as (t & Ht & Hr). exists t. split; [exact Ht|].
      eapply repr_mono; [| | |exact Hr]; [auto|intros c Hkc; apply U; now apply HK|exact L].
  Qed.

  Lemma inv_push K x r : inv K x -> ref_ok K (st_next x) r -> inv K (push_handle r x).
  Proof.
    intros [HK Hh Hu Hc] Hr. constructor; simpl.
    - exact HK.
    - apply Forall_app. split; [exact Hh|constructor; [exact Hr|constructor]].
    - exact Hu.
    - intros p s r0 Hin. rewrite get_cache_push in Hin. now apply Hc.
  Qed.

  (* cells allocated by the parser on a miss join the cache-owned set *)
  Lemma inv_alloc_cache K x st' n' :
    inv K x -> alloc_post (st_store x) (st_next x) st' n' ->
    inv (fun c => K c \/ rng (st_next x) n' c) (set_heap (st', n') x).
  Proof.
    intros [HK Hh Hu Hc] (L & U & F). constructor; simpl.
    - intros c [Hkc|[_ Hkc]]; [apply HK in Hkc; lia|exact Hkc].
    - eapply Forall_impl; [|exact Hh]. intros [ty v|d c]; simpl; [auto|]. intros [H1 H2]. split; [lia|].
      intros [H3|[H3 _]]; [now apply H2|lia].
    - intros c rs Hlt Hnk Hf.
      assert (Hnk1 : ~ K c) by (intros H; apply Hnk; now left).
      assert (Hc1 : (c < st_next x)%positive).
      { destruct (Pos.ltb_spec c (st_next x)) as [H|H]; [exact H|]. exfalso. apply Hnk. right. split; [exact H|exact Hlt]. }
      rewrite U in Hf by exact Hc1. eapply Forall_impl; [|eapply Hu; eauto].
      intros [ty v|d c0]; simpl; [auto|]. intros [H1 H2]. split; [lia|]. intros [H3|[H3 _]]; [now apply H2|lia].
    - intros p s r Hin. rewrite get_cache_set_heap in Hin. destruct (Hc p s r Hin) as (t & Ht & Hr). exists t. split; [exact Ht|].
      eapply repr_mono; [| | |exact Hr]; [intros c Hkc; now left|intros c Hkc; apply U; now apply HK|exact L].
  Qed.

  Lemma inv_set_cache K x p c :
    inv K x ->
    (forall s r, In (s, r) c -> exists t, pp p s = Ok t /\ repr K (st_store x) (st_next x) r t) ->
    inv K (set_cache p c x).
  Proof.
    intros [HK Hh Hu Hc] Hnew. destruct p; constructor; simpl; try assumption.
    - intros [] s r Hin; simpl in Hin; [now apply Hnew|now apply (Hc PAhb)].
    - intros [] s r Hin; simpl in Hin; [now apply (Hc PCond)|now apply Hnew].
  Qed.

  (* a caller's write to one of its own cells *)
  Lemma inv_write K x c rs' :
    inv K x -> (c < st_next x)%positive -> ~ K c -> Forall (ref_ok K (st_next x)) rs' ->
    inv K (set_heap (sadd c rs' (st_store x), st_next x) x).
  Proof.
    intros [HK Hh Hu Hc] Hlt Hnk Hrs. constructor; simpl; try assumption.
    - intros c0 rs Hlt0 Hnk0 Hf. destruct (Pos.eq_dec c0 c) as [->|Hne].
      + rewrite sfind_add_same in Hf. inversion Hf; subst. exact Hrs.
      + rewrite sfind_add_other in Hf by exact Hne. eapply Hu; eauto.
    - intros p s r Hin. rewrite get_cache_set_heap in Hin. destruct (Hc p s r Hin) as (t & Ht & Hr). exists t. split; [exact Ht|].
      eapply repr_mono; [| | |exact Hr]; [auto| |lia].
      intros c0 Hk0. apply sfind_add_other. intros ->. now apply Hnk.
  Qed.

  Lemma nav_ok K x : inv K x -> forall path r0 r,
    ref_ok K (st_next x) r0 -> nav (st_store x) r0 path = Some r -> ref_ok K (st_next x) r.
  Proof.
    intros Hinv. induction path as [|i p IH]; intros r0 r H0 Hn; simpl in Hn.
    - inversion Hn; subst. exact H0.
    - destruct r0 as [ty v|d c]; [discriminate|]. destruct H0 as [Hlt Hnk].
      destruct (sfind c (st_store x)) as [rs|] eqn:Ef; [|discriminate].
      destruct (nth_error rs i) as [r'|] eqn:En; [|discriminate].
      eapply IH; [|exact Hn]. pose proof (@inv_user _ _ Hinv _ _ Hlt Hnk Ef) as Hall.
      rewrite Forall_forall in Hall. apply Hall. eapply nth_error_In; eauto.
  Qed.

  (* ---------------------------------------------------------------- the steps *)
  Lemma finish_parse_deep K x r t x' obs :
    inv K x -> repr K (st_store x) (st_next x) r t ->
    finish_parse CopyDeep x r = (x', obs) -> inv K x' /\ obs = [OParse (Ok t)].
  Proof.
    intros Hinv Hr H. unfold finish_parse, do_copy in H. simpl fst in H. simpl snd in H.
    rewrite (readb_repr Hr) in H by lia. simpl in H.
    destruct (alloc t (st_store x, st_next x)) as [[st' n'] r'] eqn:Ea.
    destruct (@alloc_fresh _ _ _ _ _ _ Ea) as (Hp & Hri & Hrt). inversion H; subst; clear H. split.
    - apply inv_push; [now apply inv_alloc_user|]. simpl. eapply ref_in_ok; [|exact Hri]. exact (@inv_K _ _ Hinv).
    - simpl. rewrite (readb_repr Hrt) by lia. reflexivity.
  Qed.

  Lemma step_parse_deep K x p s x' obs :
    inv K x -> step_parse CopyDeep maxsize pp x p s = (x', obs) ->
    (exists K', inv K' x') /\ obs = [OParse (pp p s)].
  Proof.
    intros Hinv H. unfold step_parse in H.
    destruct (lookup s (get_cache p x)) as [r|] eqn:El.
    - (* hit *)
      destruct (@inv_cache _ _ Hinv p _ _ (lookup_In _ _ El)) as (t & Ht & Hr).
      assert (Hinv2 : inv K (set_cache p (touch s r (get_cache p x)) x)).
      { apply inv_set_cache; [exact Hinv|]. intros s0 r0 Hin. apply In_touch in Hin. destruct Hin as [Heq|Hin].
        - inversion Heq; subst. eauto.
        - eapply inv_cache; eauto. }
      assert (Hr2 : repr K (st_store (set_cache p (touch s r (get_cache p x)) x)) (st_next (set_cache p (touch s r (get_cache p x)) x)) r t)
        by (destruct p; exact Hr).
      destruct (finish_parse_deep Hinv2 Hr2 H) as [Hi Ho]. split; [eauto|]. rewrite Ht. exact Ho.
    - destruct (pp p s) as [t|e] eqn:Ep.
      + (* miss *)
        destruct (alloc t (st_store x, st_next x)) as [[st1 n1] r] eqn:Ea.
        destruct (@alloc_fresh _ _ _ _ _ _ Ea) as (Hp & Hri & Hrt).
        pose proof (inv_alloc_cache Hinv Hp) as Hinv1.
        set (K1 := fun c => K c \/ rng (st_next x) n1 c) in *.
        assert (Hr1 : repr K1 st1 n1 r t).
        { eapply repr_mono; [| | |exact Hrt]; [intros c Hc; now right|reflexivity|lia]. }
        assert (Hinv2 : inv K1 (set_cache p (insert maxsize s r (get_cache p x)) (set_heap (st1, n1) x))).
        { apply inv_set_cache; [exact Hinv1|]. intros s0 r0 Hin. apply In_insert in Hin. destruct Hin as [Heq|Hin].
          - inversion Heq; subst. exists t. split; [exact Ep|exact Hr1].
          - apply (@inv_cache _ _ Hinv1 p). rewrite get_cache_set_heap. exact Hin. }
        assert (Hr2 : repr K1 (st_store (set_cache p (insert maxsize s r (get_cache p x)) (set_heap (st1, n1) x)))
                              (st_next (set_cache p (insert maxsize s r (get_cache p x)) (set_heap (st1, n1) x))) r t)
          by (destruct p; exact Hr1).
        destruct (finish_parse_deep Hinv2 Hr2 H) as [Hi Ho]. split; [eauto|exact Ho].
      + (* the parser raised: nothing stored *)
        inversion H; subst. split; [eauto|reflexivity].
  Qed.

  Lemma eval_source_ok K x src h1 r :
    inv K x -> eval_source x src = Some (h1, r) ->
    alloc_post (st_store x) (st_next x) (fst h1) (snd h1) /\ ref_ok K (snd h1) r.
  Proof.
    intros Hinv H. destruct src as [ty v|t|h p]; simpl in H.
    - inversion H; subst. split; [apply alloc_post_refl|exact I].
    - inversion H as [Ha]. destruct h1 as [st1 n1]. destruct (@alloc_fresh _ _ _ _ _ _ Ha) as (Hp & Hri & _).
      split; [exact Hp|]. simpl. eapply ref_in_ok; [|exact Hri]. exact (@inv_K _ _ Hinv).
    - destruct (nth_error (st_handles x) (N.to_nat h)) as [r0|] eqn:En; [|discriminate].
      destruct (nav (st_store x) r0 p) as [r1|] eqn:Ev; simpl in H; [|discriminate]. inversion H; subst.
      split; [apply alloc_post_refl|]. simpl. eapply nav_ok; [exact Hinv| |exact Ev].
      pose proof (@inv_handles _ _ Hinv) as Hh. rewrite Forall_forall in Hh. apply Hh. eapply nth_error_In; eauto.
  Qed.

  Lemma step_edit_deep K x h path e : inv K x -> inv K (step_edit x h path e).
  Proof.
    intros Hinv. unfold step_edit.
    destruct (nth_error (st_handles x) (N.to_nat h)) as [r0|] eqn:En; [|exact Hinv].
    destruct (nav (st_store x) r0 path) as [[ty v|d c]|] eqn:Ev; try exact Hinv.
    destruct (sfind c (st_store x)) as [rs|] eqn:Ef; [|exact Hinv].
    assert (H0 : ref_ok K (st_next x) r0).
    { pose proof (@inv_handles _ _ Hinv) as Hh. rewrite Forall_forall in Hh. apply Hh. eapply nth_error_In; eauto. }
    destruct (nav_ok Hinv _ _ H0 Ev) as [Hlt Hnk].
    pose proof (@inv_user _ _ Hinv _ _ Hlt Hnk Ef) as Hrs.
    (* whatever the new list is: it lives in a heap extended for the caller and holds caller-visible refs only *)
    assert (Happly : forall new : option (heap * list ref),
      (forall st1 n1 rs', new = Some ((st1, n1), rs') ->
         alloc_post (st_store x) (st_next x) st1 n1 /\ Forall (ref_ok K n1) rs') ->
      inv K match new with None => x | Some ((st1, n1), rs') => set_heap (sadd c rs' st1, n1) x end).
    { intros [[[st1 n1] rs']|] Hnew; [|exact Hinv]. destruct (Hnew _ _ _ eq_refl) as (Hp & Hall).
      pose proof (inv_alloc_user Hinv Hp) as Hinv1. pose proof Hp as (L & _ & _).
      apply (@inv_write K (set_heap (st1, n1) x) c rs' Hinv1); simpl; [lia|exact Hnk|exact Hall]. }
    destruct e as [i src|i|src]; apply Happly; intros st1 n1 rs' Hnew.
    - destruct (eval_source x src) as [[h1 r]|] eqn:Es; [|discriminate].
      destruct (set_nth i r rs) as [l|] eqn:El; simpl in Hnew; [|discriminate]. inversion Hnew; subst.
      destruct (eval_source_ok _ Hinv Es) as (Hp & Hr). simpl in Hp, Hr. pose proof Hp as (L & _ & _). split; [exact Hp|].
      eapply set_nth_Forall; [exact El|exact Hr|]. eapply Forall_impl; [|exact Hrs]. intros r1. now apply ref_ok_weaken.
    - destruct (del_nth i rs) as [l|] eqn:El; simpl in Hnew; [|discriminate]. inversion Hnew; subst.
      split; [apply alloc_post_refl|]. eapply del_nth_Forall; eauto.
    - destruct (eval_source x src) as [[h1 r]|] eqn:Es; [|discriminate]. inversion Hnew; subst.
      destruct (eval_source_ok _ Hinv Es) as (Hp & Hr). simpl in Hp, Hr. pose proof Hp as (L & _ & _). split; [exact Hp|].
      apply Forall_app. split; [|constructor; [exact Hr|constructor]].
      eapply Forall_impl; [|exact Hrs]. intros r1. now apply ref_ok_weaken.
  Qed.

  Lemma step_deep K x o x' obs :
    inv K x -> step CopyDeep maxsize pp x o = (x', obs) ->
    (exists K', inv K' x') /\ parse_obs obs = expected pp [o].
  Proof.
    intros Hinv H. destruct o as [p s|h path e|h]; simpl in H.
    - destruct (step_parse_deep _ _ Hinv H) as [Hi Ho]. split; [exact Hi|]. rewrite Ho. reflexivity.
    - inversion H; subst. split; [exists K; now apply step_edit_deep|reflexivity].
    - inversion H; subst. split; [eauto|reflexivity].
  Qed.

  Lemma parse_obs_app a b : parse_obs (a ++ b) = parse_obs a ++ parse_obs b.
  Proof. induction a as [|[r|r] a IH]; simpl; [reflexivity|now rewrite IH|exact IH]. Qed.

  Lemma run_from_deep h : forall K x, inv K x -> parse_obs (run_from CopyDeep maxsize pp x h) = expected pp h.
  Proof.
    induction h as [|o h IH]; intros K x Hinv; [reflexivity|].
    simpl run_from. destruct (step CopyDeep maxsize pp x o) as [x' obs] eqn:Es.
    destruct (step_deep _ Hinv Es) as [[K' Hinv'] Ho]. rewrite parse_obs_app, Ho, (IH K' x' Hinv').
    destruct o; reflexivity.
  Qed.

  (* every parse of every history returns the tree of the uncached parser (or raises what it raises) *)
  Theorem deep_copy_isolates_any : forall h, parse_obs (run CopyDeep maxsize pp h) = expected pp h.
  Proof. intros h. unfold run. eapply run_from_deep. exact inv_init. Qed.
End Deep.

(* ---------------------------------------------------------------- the source as it is (generated constants) *)
Theorem deep_copy_isolates : tree_copy_mode = CopyDeep -> wrapper_order_ok = true ->
  forall pp h, parse_obs (run_src pp h) = expected pp h.
Proof.
  intros Hm Ho pp h. unfold run_src, source_mode. rewrite Ho, Hm. apply deep_copy_isolates_any.
Qed.

(* the obligation the original source (return tree_result.copy()) fails *)
Lemma source_mode_is_deep : tree_copy_mode = CopyDeep /\ wrapper_order_ok = true.
Proof. split; reflexivity. Qed.

Theorem parse_history_invisible : forall pp h, parse_obs (run_src pp h) = expected pp h.
Proof. destruct source_mode_is_deep as [Hm Ho]. exact (deep_copy_isolates Hm Ho). Qed.

(* "consequently evaluation results are independent of the parse history": whatever is computed from the returned trees *)
Definition result_map {A B} (f : A -> B) (r : result A) : result B := match r with Ok a => Ok (f a) | Exn e => Exn e end.
Theorem evaluation_history_independent : forall (B : Type) (ev : atree -> B) pp h,
  map (result_map ev) (parse_obs (run_src pp h)) = map (result_map ev) (expected pp h).
Proof. intros B ev pp h. now rewrite parse_history_invisible. Qed.

(* ---------------------------------------------------------------- refutation for every other mode *)
(* parse; append a child to the root of the returned tree; parse the same string again *)
Definition pp0 : parser -> N -> result atree := fun _ _ => Ok (ATree [99]%N [ATok [75]%N [49]%N]).
Definition witness : history := [Parse PCond 0%N; Edit 0%N [] (EAppend (SJunkTok [74]%N [74]%N)); Parse PCond 0%N].

Theorem refuted_when_shallow : forall m, m <> CopyDeep -> forall maxsize, 0 < maxsize ->
  exists pp h, parse_obs (run m maxsize pp h) <> expected pp h.
Proof.
  intros m Hm [|k] Hk; [lia|]. exists pp0, witness.
  destruct m; [|congruence|]; vm_compute; intros H; discriminate H.
Qed.

(* the same history under deep copy; eviction (maxsize 1), re-parse after eviction, an exception, an edit in between *)
Example witness_fine_when_deep : parse_obs (run CopyDeep 1024 pp0 witness) = expected pp0 witness.
Proof. vm_compute. reflexivity. Qed.
Definition pp1 : parser -> N -> result atree := fun _ s =>
  if N.eqb s 9 then Exn SyntaxErr else Ok (ATree [99]%N [ATree [100]%N [ATok [75]%N [s]]; ATok [75]%N [49]%N]).
Definition history1 : history :=
  [Parse PCond 1%N; Parse PAhb 9%N; Parse PCond 2%N; Edit 0%N [0] (EReplace 0 (SSub 1%N [0])); Edit 1%N [] (ERemove 0);
   Parse PCond 1%N; Edit 2%N [] (EAppend (SJunkTree (ATree [1]%N []))); Peek 0%N; Parse PCond 2%N; Parse PCond 2%N].
Example history1_evicts_and_is_fine :
  parse_obs (run CopyDeep 1 pp1 history1) = expected pp1 history1 /\
  parse_obs (run CopyShallow 2 pp1 history1) <> expected pp1 history1.
Proof. split; vm_compute; [reflexivity|intros H; discriminate H]. Qed.
