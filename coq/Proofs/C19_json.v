(* C19 -- JSON round trips: lemmas.
   Part 1: association lists, [collect], induction principles for the nested descriptor types.
   Part 2: the generic round-trip theorem for the schema interpreter of Model/Json.v.
   Part 3: the GENERATED descriptors are compatible (vm_compute; this breaks when allow_none is dropped again).
   Part 4: Lark trees through TreeSchema. *)
From Ahb Require Import Model.Prelude Model.Json Gen.Gen_schemas.
Set Implicit Arguments.

(* ================================================================ Part 1 *)
Lemma text_eqb_refl s : text_eqb s s = true.
Proof. unfold text_eqb. induction s as [|c s IH]; simpl; [reflexivity|]. now rewrite N.eqb_refl, IH. Qed.

Lemma text_eqb_neq a b : a <> b -> text_eqb a b = false.
Proof. intros H. destruct (text_eqb a b) eqn:E; [|reflexivity]. apply text_eqb_eq in E. contradiction. Qed.

Lemma mem_In x l : mem x l = true <-> In x l.
Proof.
  unfold mem. rewrite existsb_exists. split.
  - intros (y & Hy & E). apply text_eqb_eq in E. now subst.
  - intros H. exists x. split; [assumption|apply text_eqb_refl].
Qed.

Lemma nodupb_NoDup l : nodupb l = true -> NoDup l.
Proof.
  induction l as [|x l IH]; simpl; intros H; [constructor|].
  apply andb_true_iff in H. destruct H as [H1 H2]. constructor; [|now apply IH].
  intros Hin. apply mem_In in Hin. rewrite Hin in H1. discriminate.
Qed.

(* look-up in a list built by [map] from distinct keys *)
Lemma assoc_map_key {A B} (key : A -> text) (g : A -> B) (l : list A) (x : A) :
  NoDup (map key l) -> In x l -> assoc (key x) (map (fun y => (key y, g y)) l) = Some (g x).
Proof.
  induction l as [|y l IH]; simpl; intros Hnd Hin; [contradiction|].
  inversion Hnd as [|? ? Hni Hnd']; subst.
  destruct Hin as [->|Hin].
  - now rewrite text_eqb_refl.
  - rewrite text_eqb_neq; [now apply IH|].
    intros E. apply Hni. rewrite <- E. now apply in_map.
Qed.

Lemma assoc_In {A} (l : list (text * A)) (p : text * A) :
  NoDup (map fst l) -> In p l -> assoc (fst p) l = Some (snd p).
Proof.
  intros Hnd Hin.
  assert (E : l = map (fun y : text * A => (fst y, snd y)) l).
  { rewrite <- (map_id l) at 1. apply map_ext. now intros [a b]. }
  rewrite E. apply (assoc_map_key (@fst text A) (@snd text A)); assumption.
Qed.

Lemma collect_oks {A B} (g : A -> B) (l : list A) : collect (map (fun x => Ok (g x)) l) = Ok (false, map g l).
Proof. induction l as [|x l IH]; simpl; [reflexivity|]. now rewrite IH. Qed.

Lemma map_ext_Forall {A B} (f g : A -> B) (l : list A) : Forall (fun x => f x = g x) l -> map f l = map g l.
Proof. induction 1 as [|x l Hx _ IH]; simpl; [reflexivity|]. now rewrite Hx, IH. Qed.

Lemma sequence_oks {A B} (g : A -> B) (l : list A) : sequence (map (fun x => Ok (g x)) l) = Ok (map g l).
Proof. induction l as [|x l IH]; simpl; [reflexivity|]. now rewrite IH. Qed.

Lemma somes_map {A B} (k : A -> text) (g : A -> B) (l : list A) :
  somes (map (fun x => (k x, Some (g x))) l) = map (fun x => (k x, g x)) l.
Proof. induction l as [|x l IH]; simpl; [reflexivity|]. now rewrite IH. Qed.

Lemma first_exn_oks {A} (f : A -> result unit) (l : list A) :
  Forall (fun x => is_ok (f x) = true) l -> first_exn (map f l) = Ok tt.
Proof.
  induction 1 as [|x l Hx _ IH]; simpl; [reflexivity|].
  destruct (f x) as [[]|e]; [exact IH|discriminate].
Qed.

(* ---------------------------------------------------------------- induction principles (nested types) *)
Section FtypeInd.
  Variable P : ftype -> Prop.
  Hypothesis Hbool : P FBool.
  Hypothesis Hstr : P FStr.
  Hypothesis Huuid : P FUuid.
  Hypothesis Hlist : forall i io, P i -> P (FList i io).
  Hypothesis Hdict : forall k ko v vo, P k -> P v -> P (FDict k ko v vo).
  Hypothesis Hnested : forall n h fs, Forall (fun f : sfield => P (sf_ft f)) fs -> P (FNested n h fs).
  Fixpoint ftype_ind' (f : ftype) : P f :=
    match f with
    | FBool => Hbool
    | FStr => Hstr
    | FUuid => Huuid
    | FList i io => Hlist io (ftype_ind' i)
    | FDict k ko v vo => Hdict ko vo (ftype_ind' k) (ftype_ind' v)
    | FNested n h fs =>
        Hnested n h
          ((fix go (l : list sfield) : Forall (fun f : sfield => P (sf_ft f)) l :=
              match l with
              | [] => Forall_nil _
              | x :: r => Forall_cons x (ftype_ind' (sf_ft x)) (go r)
              end) fs)
    end.
End FtypeInd.

Section TyInd.
  Variable P : ty -> Prop.
  Hypothesis Hb : P TBool.
  Hypothesis Hs : P TStr.
  Hypothesis Hu : P TUuid.
  Hypothesis He : forall a, P (TEnum a).
  Hypothesis Ho : forall t, P t -> P (TOpt t).
  Hypothesis Hl : forall t, P t -> P (TList t).
  Hypothesis Hd : forall k v, P k -> P v -> P (TDict k v).
  Hypothesis Hobj : forall c cfs, Forall (fun cf : cfield => P (cf_ty cf)) cfs -> P (TObj c cfs).
  Fixpoint ty_ind' (t : ty) : P t :=
    match t with
    | TBool => Hb | TStr => Hs | TUuid => Hu
    | TEnum a => He a
    | TOpt t' => Ho (ty_ind' t')
    | TList t' => Hl (ty_ind' t')
    | TDict k v => Hd (ty_ind' k) (ty_ind' v)
    | TObj c cfs =>
        Hobj c
          ((fix go (l : list cfield) : Forall (fun cf : cfield => P (cf_ty cf)) l :=
              match l with
              | [] => Forall_nil _
              | x :: r => Forall_cons x (ty_ind' (cf_ty x)) (go r)
              end) cfs)
    end.
End TyInd.

(* ---------------------------------------------------------------- soundness of the descriptor equalities *)
Lemma prim_eqb_eq a b : prim_eqb a b = true -> a = b.
Proof. destruct a, b; simpl; intros H; try discriminate; try reflexivity; apply text_eqb_eq in H; now subst. Qed.
Lemma re_id_eqb_eq a b : re_id_eqb a b = true -> a = b.
Proof. destruct a, b; simpl; intros H; try discriminate; reflexivity. Qed.
Lemma dflt_eqb_eq a b : dflt_eqb a b = true -> a = b.
Proof. destruct a, b; simpl; intros H; try discriminate; reflexivity. Qed.
Lemma vld_eqb_eq a : forall b, vld_eqb a b = true -> a = b.
Proof.
  induction a as [|p|x IH|r|x1 IH1 x2 IH2|x1 IH1 x2 IH2|x1 IH1 x2 IH2]; intros b H; destruct b; simpl in H; try discriminate;
    try reflexivity.
  - f_equal. now apply prim_eqb_eq.
  - f_equal. now apply IH.
  - f_equal. now apply re_id_eqb_eq.
  - apply andb_true_iff in H. destruct H as [Ha Hb]. f_equal; [now apply IH1|now apply IH2].
  - apply andb_true_iff in H. destruct H as [Ha Hb]. f_equal; [now apply IH1|now apply IH2].
  - apply andb_true_iff in H. destruct H as [Ha Hb]. f_equal; [now apply IH1|now apply IH2].
Qed.
Lemma alts_eqb_eq a b : alts_eqb a b = true -> a = b.
Proof.
  apply list_eqb_eq. intros [n ms] [n' ms'] H. simpl in H. apply andb_true_iff in H. destruct H as [H1 H2].
  apply text_eqb_eq in H1. apply (list_eqb_eq text_eqb text_eqb_eq) in H2. now subst.
Qed.

Lemma ty_eqb_eq a : forall b, ty_eqb a b = true -> a = b.
Proof.
  induction a as [| | |al|t IH|t IH|k v IHk IHv|c cfs IH] using ty_ind'; intros b H; destruct b; simpl in H; try discriminate;
    try reflexivity.
  - f_equal. now apply alts_eqb_eq.
  - f_equal. now apply IH.
  - f_equal. now apply IH.
  - apply andb_true_iff in H. destruct H as [H1 H2]. f_equal; [now apply IHk|now apply IHv].
  - apply andb_true_iff in H. destruct H as [H1 H2]. apply text_eqb_eq in H1. subst. f_equal.
    revert cfs0 H2. induction IH as [|x l Hx _ IHl]; intros [|y r] H2; try discriminate; [reflexivity| |].
    + destruct x as [[[n1 t1] d1] x1]. discriminate.
    + destruct x as [[[n1 t1] d1] x1], y as [[[n2 t2] d2] x2].
      repeat (apply andb_true_iff in H2; destruct H2 as [H2 ?]).
      apply text_eqb_eq in H2. apply vld_eqb_eq in H1. apply dflt_eqb_eq in H0. unfold cf_ty in Hx; simpl in Hx.
      apply Hx in H3. subst. f_equal. now apply IHl.
Qed.
