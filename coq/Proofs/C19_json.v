(* C19 -- JSON round trips: lemmas.
   Part 1: association lists, [collect], induction principles for the nested descriptor types.
   Part 2: the generic round-trip theorem for the schema interpreter of Model/Json.v.
   Part 3: the GENERATED descriptors are compatible (vm_compute; this breaks when allow_none is dropped again).
   Part 4: Lark trees through TreeSchema. *)
From Ahb Require Import Model.Prelude Model.Json Gen.Gen_schemas.
Set Implicit Arguments.

(* ================================================================ Part 1 *)
Lemma text_eqb_refl s : text_eqb s s = true.
Proof. unfold text_eqb. induction s as [|c s IH]; simpl; [reflexivity|]. now rewrite N.eqb_refl, IH. Qed.

Lemma text_eqb_neq a b : a <> b -> text_eqb a b = false.
Proof. intros H. destruct (text_eqb a b) eqn:E; [|reflexivity]. apply text_eqb_eq in E. contradiction. Qed.

Lemma text_eqb_sym a b : text_eqb a b = text_eqb b a.
Proof.
  destruct (text_eqb a b) eqn:E1; destruct (text_eqb b a) eqn:E2; try reflexivity.
  - apply text_eqb_eq in E1. subst. rewrite text_eqb_refl in E2. discriminate.
  - apply text_eqb_eq in E2. subst. rewrite text_eqb_refl in E1. discriminate.
Qed.

Lemma mem_In x l : mem x l = true <-> In x l.
Proof.
  unfold mem. rewrite existsb_exists. split.
  - intros (y & Hy & E). apply text_eqb_eq in E. now subst.
  - intros H. exists x. split; [assumption|apply text_eqb_refl].
Qed.

Lemma nodupb_NoDup l : nodupb l = true -> NoDup l.
Proof.
  induction l as [|x l IH]; simpl; intros H; [constructor|].
  apply andb_true_iff in H. destruct H as [H1 H2]. constructor; [|now apply IH].
  intros Hin. apply mem_In in Hin. rewrite Hin in H1. discriminate.
Qed.

(* look-up in a list built by [map] from distinct keys *)
Lemma assoc_map_key {A B} (key : A -> text) (g : A -> B) (l : list A) (x : A) :
  NoDup (map key l) -> In x l -> assoc (key x) (map (fun y => (key y, g y)) l) = Some (g x).
Proof.
  induction l as [|y l IH]; simpl; intros Hnd Hin; [contradiction|].
  inversion Hnd as [|? ? Hni Hnd']; subst.
  destruct Hin as [->|Hin].
  - now rewrite text_eqb_refl.
  - rewrite text_eqb_neq; [now apply IH|].
    intros E. apply Hni. rewrite <- E. now apply in_map.
Qed.

Lemma assoc_In {A} (l : list (text * A)) (p : text * A) :
  NoDup (map fst l) -> In p l -> assoc (fst p) l = Some (snd p).
Proof.
  intros Hnd Hin.
  assert (E : l = map (fun y : text * A => (fst y, snd y)) l).
  { rewrite <- (map_id l) at 1. apply map_ext. now intros [a b]. }
  rewrite E. apply (assoc_map_key (@fst text A) (@snd text A)); assumption.
Qed.

Lemma collect_oks {A B} (g : A -> B) (l : list A) : collect (map (fun x => Ok (g x)) l) = Ok (false, map g l).
Proof. induction l as [|x l IH]; simpl; [reflexivity|]. now rewrite IH. Qed.

Lemma map_ext_Forall {A B} (f g : A -> B) (l : list A) : Forall (fun x => f x = g x) l -> map f l = map g l.
Proof. induction 1 as [|x l Hx _ IH]; simpl; [reflexivity|]. now rewrite Hx, IH. Qed.

Lemma sequence_oks {A B} (g : A -> B) (l : list A) : sequence (map (fun x => Ok (g x)) l) = Ok (map g l).
Proof. induction l as [|x l IH]; simpl; [reflexivity|]. now rewrite IH. Qed.

Lemma somes_map {A B} (k : A -> text) (g : A -> B) (l : list A) :
  somes (map (fun x => (k x, Some (g x))) l) = map (fun x => (k x, g x)) l.
Proof. induction l as [|x l IH]; simpl; [reflexivity|]. now rewrite IH. Qed.

Lemma first_exn_oks {A} (f : A -> result unit) (l : list A) :
  Forall (fun x => is_ok (f x) = true) l -> first_exn (map f l) = Ok tt.
Proof.
  induction 1 as [|x l Hx _ IH]; simpl; [reflexivity|].
  destruct (f x) as [[]|e]; [exact IH|discriminate].
Qed.

(* ---------------------------------------------------------------- induction principles (nested types) *)
Section FtypeInd.
  Variable P : ftype -> Prop.
  Hypothesis Hbool : P FBool.
  Hypothesis Hstr : P FStr.
  Hypothesis Huuid : P FUuid.
  Hypothesis Hlist : forall i io, P i -> P (FList i io).
  Hypothesis Hdict : forall k ko v vo, P k -> P v -> P (FDict k ko v vo).
  Hypothesis Hnested : forall n h fs, Forall (fun f : sfield => P (sf_ft f)) fs -> P (FNested n h fs).
  Fixpoint ftype_ind' (f : ftype) : P f :=
    match f with
    | FBool => Hbool
    | FStr => Hstr
    | FUuid => Huuid
    | FList i io => Hlist io (ftype_ind' i)
    | FDict k ko v vo => Hdict ko vo (ftype_ind' k) (ftype_ind' v)
    | FNested n h fs =>
        Hnested n h
          ((fix go (l : list sfield) : Forall (fun f : sfield => P (sf_ft f)) l :=
              match l with
              | [] => Forall_nil _
              | x :: r => Forall_cons x (ftype_ind' (sf_ft x)) (go r)
              end) fs)
    end.
End FtypeInd.

Section TyInd.
  Variable P : ty -> Prop.
  Hypothesis Hb : P TBool.
  Hypothesis Hs : P TStr.
  Hypothesis Hu : P TUuid.
  Hypothesis He : forall a, P (TEnum a).
  Hypothesis Ho : forall t, P t -> P (TOpt t).
  Hypothesis Hl : forall t, P t -> P (TList t).
  Hypothesis Hd : forall k v, P k -> P v -> P (TDict k v).
  Hypothesis Hobj : forall c cfs, Forall (fun cf : cfield => P (cf_ty cf)) cfs -> P (TObj c cfs).
  Fixpoint ty_ind' (t : ty) : P t :=
    match t with
    | TBool => Hb | TStr => Hs | TUuid => Hu
    | TEnum a => He a
    | TOpt t' => Ho (ty_ind' t')
    | TList t' => Hl (ty_ind' t')
    | TDict k v => Hd (ty_ind' k) (ty_ind' v)
    | TObj c cfs =>
        Hobj c
          ((fix go (l : list cfield) : Forall (fun cf : cfield => P (cf_ty cf)) l :=
              match l with
              | [] => Forall_nil _
              | x :: r => Forall_cons x (ty_ind' (cf_ty x)) (go r)
              end) cfs)
    end.
End TyInd.

(* ---------------------------------------------------------------- soundness of the descriptor equalities *)
Lemma prim_eqb_eq a b : prim_eqb a b = true -> a = b.
Proof. destruct a, b; simpl; intros H; try discriminate; try reflexivity; apply text_eqb_eq in H; now subst. Qed.
Lemma re_id_eqb_eq a b : re_id_eqb a b = true -> a = b.
Proof. destruct a, b; simpl; intros H; try discriminate; reflexivity. Qed.
Lemma dflt_eqb_eq a b : dflt_eqb a b = true -> a = b.
Proof. destruct a, b; simpl; intros H; try discriminate; reflexivity. Qed.
Lemma vld_eqb_eq a : forall b, vld_eqb a b = true -> a = b.
Proof.
  induction a as [|p|x IH|r|x1 IH1 x2 IH2|x1 IH1 x2 IH2|x1 IH1 x2 IH2]; intros b H; destruct b; simpl in H; try discriminate;
    try reflexivity.
  - f_equal. now apply prim_eqb_eq.
  - f_equal. now apply IH.
  - f_equal. now apply re_id_eqb_eq.
  - apply andb_true_iff in H. destruct H as [Ha Hb]. f_equal; [now apply IH1|now apply IH2].
  - apply andb_true_iff in H. destruct H as [Ha Hb]. f_equal; [now apply IH1|now apply IH2].
  - apply andb_true_iff in H. destruct H as [Ha Hb]. f_equal; [now apply IH1|now apply IH2].
Qed.
Lemma alts_eqb_eq a b : alts_eqb a b = true -> a = b.
Proof.
  apply list_eqb_eq. intros [n ms] [n' ms'] H. simpl in H. apply andb_true_iff in H. destruct H as [H1 H2].
  apply text_eqb_eq in H1. apply (list_eqb_eq text_eqb text_eqb_eq) in H2. now subst.
Qed.

Lemma ty_eqb_eq a : forall b, ty_eqb a b = true -> a = b.
Proof.
  induction a as [| | |al|t IH|t IH|k v IHk IHv|c cfs IH] using ty_ind'; intros b H; destruct b; simpl in H; try discriminate;
    try reflexivity.
  - f_equal. now apply alts_eqb_eq.
  - f_equal. now apply IH.
  - f_equal. now apply IH.
  - apply andb_true_iff in H. destruct H as [H1 H2]. f_equal; [now apply IHk|now apply IHv].
  - apply andb_true_iff in H. destruct H as [H1 H2]. apply text_eqb_eq in H1. subst. f_equal.
    revert cfs0 H2. induction IH as [|x l Hx _ IHl]; intros [|y r] H2; try discriminate; [reflexivity| |].
    + destruct x as [[[n1 t1] d1] x1]. discriminate.
    + destruct x as [[[n1 t1] d1] x1], y as [[[n2 t2] d2] x2].
      repeat (apply andb_true_iff in H2; destruct H2 as [H2 ?]).
      apply text_eqb_eq in H2. apply vld_eqb_eq in H1. apply dflt_eqb_eq in H0. unfold cf_ty in Hx; simpl in Hx.
      apply Hx in H3. subst. f_equal. now apply IHl.
Qed.

(* ================================================================ Part 2: the generic round trip *)
Lemma ser_none ft : ser ft VNone = Ok JNull.
Proof. destruct ft; reflexivity. Qed.

Definition dumpf (v : value) (f : sfield) : result (text * option json) :=
  res_map (fun oj => (sf_key f, oj)) (dump_attr (sf_opts f) (ser (sf_ft f)) (get_attr v (sf_attr f))).
Definition loadf (kvs : list (text * json)) (f : sfield) : result (text * option value) :=
  res_map (fun ov => (sf_attr f, ov)) (wrap_field (sf_opts f) (deser (sf_ft f)) (assoc (sf_key f) kvs)).

Lemma ser_nested n h fs v : v <> VNone ->
  ser (FNested n h fs) v = (do kvs <- sequence (map (dumpf v) fs) ;; post_dump h (somes kvs)).
Proof.
  intros Hv.
  assert (E : forall w, map (fun f : text * ftype * fopts =>
                 match f with
                 | (a, ft', o) => res_map (fun oj => (key_of a o, oj)) (dump_attr o (ser ft') (get_attr w a))
                 end) fs = map (dumpf w) fs).
  { intros w. apply map_ext. intros [[a ft'] o]. reflexivity. }
  rewrite <- E. destruct v; try contradiction; reflexivity.
Qed.

Lemma deser_nested n h fs j :
  deser (FNested n h fs) j =
  match pre_load h j with
  | JObj kvs =>
      do p <- collect (map (loadf kvs) fs) ;;
      if fst p || negb (forallb (fun kv => mem (fst kv) (map sf_key fs)) kvs) then Exn ValidationErr
      else post_load h (somes (snd p))
  | _ => Exn ValidationErr
  end.
Proof.
  simpl. destruct (pre_load h j); try reflexivity.
  assert (E : map (fun f : text * ftype * fopts =>
                 match f with
                 | (a, ft', o) => res_map (fun ov => (a, ov)) (wrap_field o (deser ft') (assoc (key_of a o) kvs))
                 end) fs = map (loadf kvs) fs).
  { apply map_ext. intros [[a ft'] o]. reflexivity. }
  rewrite E. reflexivity.
Qed.

Lemma wrap_present_nonnull o d j : j <> JNull -> wrap_present o d j = d j.
Proof. destruct j; try reflexivity. intros H. contradiction. Qed.

(* the round trip of one field type: instances of a type the field is compatible with, None excluded *)
Definition RT (ft : ftype) : Prop :=
  forall t v, compat_ft ft t = true -> has_ty t v = true ->
  exists j, ser ft v = Ok j /\ j <> JNull /\ deser ft j = Ok v.

Lemma rt_opt ft o t v :
  RT ft -> compat_opt (compat_ft ft) o t = true -> has_ty t v = true ->
  exists j, ser ft v = Ok j /\ wrap_present o (deser ft) j = Ok v.
Proof.
  intros Hrt Hc Ht.
  assert (Hdirect : compat_ft ft t = true -> exists j, ser ft v = Ok j /\ wrap_present o (deser ft) j = Ok v).
  { intros Hc'. destruct (Hrt t v Hc' Ht) as (j & Hs & Hn & Hd). exists j. split; [assumption|].
    now rewrite wrap_present_nonnull. }
  destruct t; try (apply Hdirect; exact Hc).
  simpl in Hc. apply andb_true_iff in Hc. destruct Hc as [Han Hc].
  destruct v; try (simpl in Ht; destruct (Hrt t _ Hc Ht) as (j & Hs & Hn & Hd); exists j; split; [assumption|];
                   now rewrite wrap_present_nonnull).
  exists JNull. split; [apply ser_none|]. simpl. now rewrite Han.
Qed.

Lemma has_ty_nonnone ft t v : compat_ft ft t = true -> has_ty t v = true -> v <> VNone.
Proof.
  intros Hc Ht E. subst v. destruct t; simpl in Ht; try discriminate.
  destruct ft; simpl in Hc; try discriminate.
  destruct h; discriminate.
Qed.

(* lists *)
Lemma rt_list_items (f : value -> result json) (g : json -> result value) (l : list value) :
  Forall (fun v => exists j, f v = Ok j /\ g j = Ok v) l ->
  exists js, mapM f l = Ok js /\ collect (map g js) = Ok (false, l).
Proof.
  induction 1 as [|v l (j & Hf & Hg) _ (js & Hm & Hc)]; simpl.
  - exists []. split; reflexivity.
  - exists (j :: js). rewrite Hf. simpl. rewrite Hm. simpl. split; [reflexivity|].
    rewrite Hg, Hc. reflexivity.
Qed.

Lemma rt_bool : RT FBool.
Proof.
  intros t v Hc Ht. destruct t; try discriminate. destruct v; try discriminate.
  exists (JBool b). repeat split; [discriminate].
Qed.
Lemma rt_str : RT FStr.
Proof.
  intros t v Hc Ht. destruct t; try discriminate. destruct v; try discriminate.
  exists (JStr s). repeat split; [discriminate].
Qed.
Lemma rt_uuid : RT FUuid.
Proof.
  intros t v Hc Ht. destruct t; try discriminate. destruct v; try discriminate. simpl in Ht.
  exists (JStr s). repeat split; [discriminate|]. simpl. now rewrite Ht.
Qed.

Lemma rt_flist i io : RT i -> RT (FList i io).
Proof.
  intros Hi t v Hc Ht. destruct t; try discriminate. simpl in Hc.
  destruct v; try discriminate. simpl in Ht.
  assert (Hall : Forall (fun x => exists j, ser i x = Ok j /\ wrap_present io (deser i) j = Ok x) l).
  { apply Forall_forall. intros x Hx. rewrite forallb_forall in Ht. apply (@rt_opt i io t x Hi Hc). now apply Ht. }
  destruct (rt_list_items _ _ Hall) as (js & Hm & Hcol).
  exists (JArr js). split; [simpl; now rewrite Hm|]. split; [discriminate|].
  simpl. unfold collected. rewrite Hcol. reflexivity.
Qed.

Lemma rt_dict_items (back : value -> value) (vf : ftype) (ko vo : fopts) (kvs : list (text * value)) :
  Forall (fun kv => exists j, ser vf (snd kv) = Ok j /\ wrap_present vo (deser vf) j = Ok (back (snd kv))) kvs ->
  exists js,
    mapM (fun kv : text * value => do jk <- ser FStr (VStr (fst kv)) ;; do jv <- ser vf (snd kv) ;;
                                   match jk with JStr s => Ok (s, jv) | _ => Exn OtherErr end) kvs = Ok js
    /\ collect (map (fun kv : text * json => as_key (wrap_present ko (deser FStr) (JStr (fst kv)))) js) = Ok (false, map fst kvs)
    /\ collect (map (fun kv : text * json => wrap_present vo (deser vf) (snd kv)) js) = Ok (false, map (fun kv => back (snd kv)) kvs).
Proof.
  induction 1 as [|[k x] l (j & Hs & Hw) _ (js & Hm & Hk & Hv)].
  - exists []. repeat split.
  - exists ((k, j) :: js). simpl in *. rewrite Hs. simpl. rewrite Hm. simpl. split; [reflexivity|].
    rewrite Hk, Hv, Hw. split; reflexivity.
Qed.

Lemma combine_fst_g {A B C} (g : A * B -> C) (l : list (A * B)) :
  combine (map fst l) (map g l) = map (fun kv => (fst kv, g kv)) l.
Proof. induction l as [|[a b] l IH]; simpl; [reflexivity|]. now rewrite IH. Qed.
Lemma map_pair_id {A B} (l : list (A * B)) : map (fun kv => (fst kv, snd kv)) l = l.
Proof. induction l as [|[a b] l IH]; simpl; [reflexivity|]. now rewrite IH. Qed.

Lemma ser_fdict k ko vf vo kvs :
  ser (FDict k ko vf vo) (VDict kvs) =
  res_map JObj (mapM (fun kv : text * value => do jk <- ser k (VStr (fst kv)) ;; do jv <- ser vf (snd kv) ;;
                                               match jk with JStr s => Ok (s, jv) | _ => Exn OtherErr end) kvs).
Proof. reflexivity. Qed.
Lemma deser_fdict k ko vf vo kvs :
  deser (FDict k ko vf vo) (JObj kvs) =
  (do pk <- collect (map (fun kv : text * json => as_key (wrap_present ko (deser k) (JStr (fst kv)))) kvs) ;;
   do pv <- collect (map (fun kv : text * json => wrap_present vo (deser vf) (snd kv)) kvs) ;;
   if fst pk || fst pv then Exn ValidationErr else Ok (VDict (combine (snd pk) (snd pv)))).
Proof. reflexivity. Qed.

Lemma rt_fdict k ko vf vo : RT vf -> RT (FDict k ko vf vo).
Proof.
  intros Hv t v Hc Ht. destruct t; try discriminate. simpl in Hc.
  destruct t1; try discriminate. apply andb_true_iff in Hc. destruct Hc as [Hk Hc].
  destruct k; try discriminate.
  destruct v; try discriminate. simpl in Ht.
  assert (Hall : Forall (fun kv : text * value => exists j, ser vf (snd kv) = Ok j /\ wrap_present vo (deser vf) j = Ok (snd kv)) kvs).
  { apply Forall_forall. intros x Hx. rewrite forallb_forall in Ht. apply (@rt_opt vf vo t2 (snd x) Hv Hc). now apply Ht. }
  destruct (@rt_dict_items (fun x => x) vf ko vo kvs Hall) as (js & Hm & Hck & Hcv).
  exists (JObj js). split; [rewrite ser_fdict, Hm; reflexivity|]. split; [discriminate|].
  rewrite deser_fdict, Hck, Hcv. simpl. now rewrite combine_fst_g, map_pair_id.
Qed.

(* RequirementIndicatorSchema *)
Lemma assoc_some_In {A} k (l : list (text * A)) x : assoc k l = Some x -> In (k, x) l.
Proof.
  induction l as [|[k' y] l IH]; simpl; [discriminate|].
  destruct (text_eqb k k') eqn:E.
  - intros H. injection H as ->. apply text_eqb_eq in E. subst. now left.
  - intros H. right. now apply IH.
Qed.

Lemma find_alt_of alts e ms x :
  alts_ok alts = true -> assoc e alts = Some ms -> mem x ms = true -> find_alt alts x = Some e /\ ascii_upper x = x.
Proof.
  unfold alts_ok. intros Hok Ha Hm. apply andb_true_iff in Hok. destruct Hok as [_ Hok].
  rewrite forallb_forall in Hok. specialize (Hok _ (assoc_some_In _ _ Ha)). simpl in Hok.
  apply andb_true_iff in Hok. destruct Hok as [Hup Hf].
  apply mem_In in Hm. split.
  - rewrite forallb_forall in Hf. specialize (Hf _ Hm).
    apply (option_eqb_eq text_eqb text_eqb_eq) in Hf. exact Hf.
  - unfold upper_stable in Hup. rewrite forallb_forall in Hup. apply text_eqb_eq. now apply Hup.
Qed.

Lemma rt_reqind n alts fs : RT (FNested n (HReqInd alts) fs).
Proof.
  intros t v Hc Ht. simpl in Hc. destruct t; try discriminate.
  destruct fs as [|[[a ft'] o] rest]; try discriminate. destruct ft'; try discriminate. destruct rest; try discriminate.
  repeat (apply andb_true_iff in Hc; destruct Hc as [Hc ?]).
  apply text_eqb_eq in Hc. subst a. rename H1 into Hkey, H0 into Hsub, H into Hok. apply text_eqb_eq in Hkey.
  destruct v; try discriminate. simpl in Ht.
  destruct (assoc ename alts0) as [ms|] eqn:Ea; [|discriminate].
  unfold alts_sub in Hsub. rewrite forallb_forall in Hsub. specialize (Hsub _ (assoc_some_In _ _ Ea)). simpl in Hsub.
  destruct (assoc ename alts) as [ms'|] eqn:Ea'; [|discriminate].
  rewrite forallb_forall in Hsub. apply mem_In in Ht. specialize (Hsub _ Ht).
  destruct (@find_alt_of alts ename ms' val Hok Ea' Hsub) as [Hfind Hup].
  exists (JStr val). split; [|split; [discriminate|]].
  - rewrite ser_nested by discriminate. unfold dumpf, sf_key, sf_attr, sf_opts, sf_ft. simpl map. simpl fst. simpl snd.
    rewrite Hkey. simpl. now rewrite Hup.
  - rewrite deser_nested. unfold loadf, sf_key, sf_attr, sf_opts, sf_ft. simpl map. simpl fst. simpl snd.
    rewrite Hkey. simpl. rewrite Hfind. reflexivity.
Qed.

(* ---------------------------------------------------------------- attrs objects *)
Definition aligned (cf : cfield) (p : text * value) : Prop :=
  cf_name cf = fst p /\ has_ty (cf_ty cf) (snd p) = true /\ is_ok (validate (cf_vld cf) (snd p)) = true.

Lemma has_ty_obj c cfs v :
  has_ty (TObj c cfs) v = true -> exists vfs, v = VObj c vfs /\ Forall2 aligned cfs vfs.
Proof.
  simpl. destruct v; try discriminate. intros H. apply andb_true_iff in H. destruct H as [Hc H].
  apply text_eqb_eq in Hc. subst. exists fs. split; [reflexivity|].
  revert fs H. induction cfs as [|[[[n t] d] x] cfs IH]; intros [|[n' y] fs] H; try discriminate.
  - constructor.
  - repeat (apply andb_true_iff in H; destruct H as [H ?]). constructor; [|apply IH; assumption].
    apply text_eqb_eq in H. subst. repeat split; assumption.
Qed.

Lemma aligned_names cfs vfs : Forall2 aligned cfs vfs -> map fst vfs = map cf_name cfs.
Proof. induction 1 as [|cf p cfs vfs (Hn & _) _ IH]; simpl; [reflexivity|]. now rewrite Hn, IH. Qed.

Lemma aligned_find cfs vfs a cf :
  Forall2 aligned cfs vfs -> find_cf a cfs = Some cf ->
  exists x, assoc a vfs = Some x /\ has_ty (cf_ty cf) x = true /\ cf_name cf = a.
Proof.
  unfold find_cf. induction 1 as [|cf0 [n x] cfs vfs (Hn & Ht & _) _ IH]; simpl; [discriminate|].
  simpl in Hn. subst n. rewrite (text_eqb_sym (cf_name cf0) a).
  destruct (text_eqb a (cf_name cf0)) eqn:E.
  - intros H. injection H as <-. apply text_eqb_eq in E. exists x. repeat split; [assumption|now symmetry].
  - exact IH.
Qed.

Lemma mapM_map_oks {A B C} (F : B -> result C) (g : A -> B) (g' : A -> C) (l : list A) :
  Forall (fun x => F (g x) = Ok (g' x)) l -> mapM F (map g l) = Ok (map g' l).
Proof. induction 1 as [|x l Hx _ IH]; simpl; [reflexivity|]. now rewrite Hx, IH. Qed.

Lemma find_cf_name a cfs cf : find_cf a cfs = Some cf -> In cf cfs /\ cf_name cf = a.
Proof.
  unfold find_cf. intros H. apply find_some in H. destruct H as [Hin E]. apply text_eqb_eq in E. now split.
Qed.

Lemma validators_ok cfs vfs :
  Forall2 aligned cfs vfs ->
  first_exn (map (fun p : cfield * (text * value) => validate (cf_vld (fst p)) (snd (snd p))) (combine cfs vfs)) = Ok tt.
Proof.
  induction 1 as [|cf p cfs vfs (_ & _ & Hv) _ IH]; simpl; [reflexivity|].
  destruct (validate (cf_vld cf) (snd p)) as [[]|e]; [exact IH|discriminate].
Qed.

Lemma args_of_pointwise (data : list (text * value)) cfs vfs :
  Forall2 (fun (cf : cfield) (p : text * value) => cf_name cf = fst p /\ assoc (cf_name cf) data = Some (snd p)) cfs vfs ->
  mapM (fun cf : cfield =>
          match assoc (cf_name cf) data with
          | Some x => Ok (cf_name cf, x)
          | None => match cf_dflt cf with DNone => Ok (cf_name cf, VNone) | DNoDefault => Exn TypeErr end
          end) cfs = Ok vfs.
Proof.
  induction 1 as [|cf [k x] cfs' vfs' (Hn & Ha) _ IH]; simpl; [reflexivity|].
  simpl in Hn, Ha. rewrite Ha, IH. simpl. now rewrite Hn.
Qed.

(* one field of a constructing schema: dump, load and the post_load fix-up give the attribute value back *)
Definition field_rt (h : hook) (f : sfield) (x : value) : Prop :=
  exists j x', ser (sf_ft f) x = Ok j /\ wrap_present (sf_opts f) (deser (sf_ft f)) j = Ok x'
               /\ fixup h (sf_attr f) x' = Ok x.

Section Construct.
  Variables (n : text) (h : hook) (c : cls) (fs : list sfield).
  Hypothesis Hpd : forall kvs, post_dump h kvs = Ok (JObj kvs).
  Hypothesis Hpl : forall j, pre_load h j = j.
  Hypothesis Hpo : forall data, post_load h data = (do data' <- fixup_data h data ;; construct c data').
  Hypothesis Hcover : fields_cover (cfields c) fs = true.
  Hypothesis Hfind : forall f, In f fs -> exists cf, find_cf (sf_attr f) (cfields c) = Some cf.
  Hypothesis Hrt : forall f cf x, In f fs -> find_cf (sf_attr f) (cfields c) = Some cf -> has_ty (cf_ty cf) x = true -> field_rt h f x.

  Lemma rt_construct_inner v :
    has_ty (ty_of_cls c) v = true ->
    exists j, ser (FNested n h fs) v = Ok j /\ j <> JNull /\ deser (FNested n h fs) j = Ok v.
  Proof.
    intros Ht. apply has_ty_obj in Ht. destruct Ht as (vfs & -> & Hal).
    assert (Hcov := Hcover). unfold fields_cover in Hcov.
    apply andb_true_iff in Hcov. destruct Hcov as [Hcov Hall].
    apply andb_true_iff in Hcov. destruct Hcov as [Hcov Hndc].
    apply andb_true_iff in Hcov. destruct Hcov as [Hndk Hnda].
    apply nodupb_NoDup in Hndk, Hnda, Hndc.
    pose (xf := fun f : sfield => match assoc (sf_attr f) vfs with Some x => x | None => VNone end).
    pose (jf := fun f : sfield => match ser (sf_ft f) (xf f) with Ok j => j | Exn _ => JNull end).
    pose (yf := fun f : sfield => match wrap_present (sf_opts f) (deser (sf_ft f)) (jf f) with Ok y => y | Exn _ => VNone end).
    assert (Hf : forall f, In f fs ->
               assoc (sf_attr f) vfs = Some (xf f) /\ ser (sf_ft f) (xf f) = Ok (jf f)
               /\ wrap_present (sf_opts f) (deser (sf_ft f)) (jf f) = Ok (yf f) /\ fixup h (sf_attr f) (yf f) = Ok (xf f)).
    { intros f Hin. destruct (Hfind f Hin) as (cf & Hcf).
      destruct (aligned_find _ Hal Hcf) as (x & Hx & Htx & _).
      destruct (Hrt f x Hin Hcf Htx) as (j & y & Hs & Hw & Hfx).
      assert (Ex : xf f = x) by (unfold xf; now rewrite Hx).
      assert (Ej : jf f = j) by (unfold jf; now rewrite Ex, Hs).
      assert (Ey : yf f = y) by (unfold yf; now rewrite Ej, Hw).
      rewrite Ex, Ej, Ey. repeat split; assumption. }
    set (obj := map (fun f => (sf_key f, jf f)) fs).
    exists (JObj obj). split; [|split; [discriminate|]].
    - rewrite ser_nested by discriminate.
      rewrite (@map_ext_Forall _ _ (dumpf (VObj (cname_of c) vfs)) (fun f => Ok (sf_key f, Some (jf f)))).
      + rewrite sequence_oks. simpl. rewrite somes_map. apply Hpd.
      + apply Forall_forall. intros f Hin. destruct (Hf f Hin) as (Ha & Hs & _).
        unfold dumpf. simpl get_attr. rewrite Ha. simpl. now rewrite Hs.
    - rewrite deser_nested, Hpl.
      rewrite (@map_ext_Forall _ _ (loadf obj) (fun f => Ok (sf_attr f, Some (yf f)))).
      + rewrite collect_oks. cbn [bind fst snd]. rewrite somes_map.
        assert (Hknown : forallb (fun kv : text * json => mem (fst kv) (map sf_key fs)) obj = true).
        { apply forallb_forall. intros kv Hkv. unfold obj in Hkv. apply in_map_iff in Hkv. destruct Hkv as (f & <- & Hin).
          simpl. apply mem_In. now apply in_map. }
        rewrite Hknown. simpl. rewrite Hpo.
        unfold fixup_data.
        rewrite (@mapM_map_oks _ _ _ (fun kv : text * value => res_map (fun x => (fst kv, x)) (fixup h (fst kv) (snd kv)))
                   (fun f => (sf_attr f, yf f)) (fun f => (sf_attr f, xf f))).
        2:{ apply Forall_forall. intros f Hin. destruct (Hf f Hin) as (_ & _ & _ & Hfx). simpl. now rewrite Hfx. }
        simpl. unfold construct.
        set (data := map (fun f => (sf_attr f, xf f)) fs).
        assert (Hkn : forallb (fun kv : text * value => mem (fst kv) (map cf_name (cfields c))) data = true).
        { apply forallb_forall. intros kv Hkv. unfold data in Hkv. apply in_map_iff in Hkv. destruct Hkv as (f & <- & Hin).
          simpl. apply mem_In. destruct (Hfind f Hin) as (cf & Hcf). apply find_cf_name in Hcf. destruct Hcf as [Hi <-].
          now apply in_map. }
        rewrite Hkn. simpl.
        assert (Hargs : mapM (fun cf : cfield =>
                                match assoc (cf_name cf) data with
                                | Some x => Ok (cf_name cf, x)
                                | None => match cf_dflt cf with DNone => Ok (cf_name cf, VNone) | DNoDefault => Exn TypeErr end
                                end) (cfields c) = Ok vfs).
        { assert (Hnv : NoDup (map fst vfs)) by (rewrite (aligned_names Hal); exact Hndc).
          assert (Hpoint : Forall2 (fun (cf : cfield) (p : text * value) => cf_name cf = fst p /\ assoc (cf_name cf) data = Some (snd p)) (cfields c) vfs).
          { assert (Hsub : forall cf, In cf (cfields c) -> mem (cf_name cf) (map sf_attr fs) = true) by (now apply forallb_forall).
            assert (Hinv : forall p, In p vfs -> assoc (fst p) vfs = Some (snd p)) by (intros p Hp; now apply assoc_In).
            assert (Hgen : forall cfs' vfs', Forall2 aligned cfs' vfs' ->
                      (forall cf, In cf cfs' -> mem (cf_name cf) (map sf_attr fs) = true) ->
                      (forall p, In p vfs' -> assoc (fst p) vfs = Some (snd p)) ->
                      Forall2 (fun (cf : cfield) (p : text * value) => cf_name cf = fst p /\ assoc (cf_name cf) data = Some (snd p)) cfs' vfs').
            { intros cfs' vfs' Hal'. induction Hal' as [|cf p cfs' vfs' (Hn & _) _ IH]; intros Hsub' Hinv'; constructor.
              - split; [assumption|].
                assert (Hm := Hsub' cf (or_introl eq_refl)). apply mem_In in Hm. apply in_map_iff in Hm.
                destruct Hm as (f & Hfa & Hin). rewrite <- Hfa. unfold data.
                rewrite (assoc_map_key sf_attr xf fs f Hnda Hin). f_equal.
                destruct (Hf f Hin) as (Ha & _). rewrite Hfa, Hn in Ha.
                rewrite (Hinv' p (or_introl eq_refl)) in Ha. now injection Ha.
              - apply IH; [intros cf' Hc'; apply Hsub'; now right|intros p' Hp'; apply Hinv'; now right]. }
            exact (Hgen _ _ Hal Hsub Hinv). }
          exact (@args_of_pointwise data (cfields c) vfs Hpoint). }
        rewrite Hargs. simpl. rewrite (validators_ok Hal). reflexivity.
      + apply Forall_forall. intros f Hin. destruct (Hf f Hin) as (_ & _ & Hw & _).
        unfold loadf, obj. rewrite (assoc_map_key sf_key jf fs f Hndk Hin). simpl. now rewrite Hw.
  Qed.
End Construct.

(* ---------------------------------------------------------------- the three kinds of schema *)
Lemma field_rt_plain h f t x :
  (forall y, fixup h (sf_attr f) y = Ok y) -> RT (sf_ft f) ->
  compat_opt (compat_ft (sf_ft f)) (sf_opts f) t = true -> has_ty t x = true -> field_rt h f x.
Proof.
  intros Hfx Hrt Hc Ht. destruct (@rt_opt (sf_ft f) (sf_opts f) t x Hrt Hc Ht) as (j & Hs & Hw).
  exists j, x. repeat split; [assumption|assumption|apply Hfx].
Qed.

Opaque ty_eqb.
Lemma rt_construct n c fs : Forall (fun f : sfield => RT (sf_ft f)) fs -> RT (FNested n (HConstruct c) fs).
Proof.
  intros IH t v Hc Ht. simpl in Hc.
  apply andb_true_iff in Hc. destruct Hc as [Hc Hfs]. apply andb_true_iff in Hc. destruct Hc as [Hty Hcov].
  apply ty_eqb_eq in Hty. subst t. rewrite forallb_forall in Hfs. rewrite Forall_forall in IH.
  apply (@rt_construct_inner n (HConstruct c) c fs); try reflexivity; try assumption.
  - intros [[a ft'] o] Hin. specialize (Hfs _ Hin). simpl in Hfs. unfold sf_attr. simpl.
    destruct (find_cf a (cfields c)) as [cf|]; [now exists cf|discriminate].
  - intros [[a ft'] o] cf x Hin Hcf Htx. specialize (Hfs _ Hin). simpl in Hfs. unfold sf_attr in Hcf. simpl in Hcf.
    rewrite Hcf in Hfs. apply (@field_rt_plain (HConstruct c) (a, ft', o) (cf_ty cf) x); try assumption; [reflexivity|].
    exact (IH _ Hin).
Qed.

Definition enum_back (v : value) : value := match v with VEnum _ m => VStr m | _ => v end.

Lemma rt_cer_field fld en ms c ko vo o kvs :
  upper_stable ms = true ->
  forallb (fun kv : text * value => has_ty (TEnum [(en, ms)]) (snd kv)) kvs = true ->
  field_rt (HCerConstruct fld en ms c) (fld, FDict FStr ko FStr vo, o) (VDict kvs).
Proof.
  intros Hup Ht. rewrite forallb_forall in Ht.
  assert (Hshape : forall kv, In kv kvs -> exists m, snd kv = VEnum en m /\ In m ms).
  { intros kv Hin. specialize (Ht _ Hin). destruct (snd kv); simpl in Ht; try discriminate.
    destruct (text_eqb ename en) eqn:E; [|discriminate]. apply text_eqb_eq in E. subst. apply mem_In in Ht. now exists val. }
  assert (Hall : Forall (fun kv : text * value => exists j, ser FStr (snd kv) = Ok j /\ wrap_present vo (deser FStr) j = Ok (enum_back (snd kv))) kvs).
  { apply Forall_forall. intros kv Hin. destruct (Hshape _ Hin) as (m & -> & _). exists (JStr m). split; reflexivity. }
  destruct (@rt_dict_items enum_back FStr ko vo kvs Hall) as (js & Hm & Hck & Hcv).
  exists (JObj js), (VDict (map (fun kv => (fst kv, enum_back (snd kv))) kvs)).
  unfold sf_ft, sf_opts, sf_attr. simpl fst. simpl snd. split; [|split].
  - rewrite ser_fdict, Hm. reflexivity.
  - rewrite wrap_present_nonnull by discriminate. rewrite deser_fdict, Hck, Hcv. simpl. now rewrite combine_fst_g.
  - simpl. rewrite text_eqb_refl. do 2 f_equal. rewrite map_map. simpl.
    rewrite <- (map_pair_id kvs) at 2. apply map_ext_in. intros kv Hin. destruct (Hshape _ Hin) as (m & -> & Hm').
    simpl. unfold upper_stable in Hup. rewrite forallb_forall in Hup. specialize (Hup _ Hm'). apply text_eqb_eq in Hup.
    rewrite Hup. apply mem_In in Hm'. now rewrite Hm'.
Qed.

Lemma rt_cer n fld en ms c fs :
  Forall (fun f : sfield => RT (sf_ft f)) fs -> RT (FNested n (HCerConstruct fld en ms c) fs).
Proof.
  intros IH t v Hc Ht. simpl in Hc.
  apply andb_true_iff in Hc. destruct Hc as [Hc Hfs]. apply andb_true_iff in Hc. destruct Hc as [Hc Hup].
  apply andb_true_iff in Hc. destruct Hc as [Hty Hcov].
  apply ty_eqb_eq in Hty. subst t. rewrite forallb_forall in Hfs. rewrite Forall_forall in IH.
  apply (@rt_construct_inner n (HCerConstruct fld en ms c) c fs); try reflexivity; try assumption.
  - intros [[a ft'] o] Hin. specialize (Hfs _ Hin). simpl in Hfs. unfold sf_attr. simpl.
    destruct (find_cf a (cfields c)) as [cf|]; [now exists cf|discriminate].
  - intros [[a ft'] o] cf x Hin Hcf Htx. specialize (Hfs _ Hin). simpl in Hfs. unfold sf_attr in Hcf. simpl in Hcf.
    rewrite Hcf in Hfs. destruct (text_eqb a fld) eqn:Ea.
    + apply text_eqb_eq in Ea. subst a.
      destruct ft'; try discriminate. destruct ft'1; try discriminate. destruct ft'2; try discriminate.
      destruct (cf_ty cf); try discriminate. destruct t1; try discriminate. destruct t2; try discriminate.
      destruct alts as [|[e ms'] [|? ?]]; try discriminate.
      apply andb_true_iff in Hfs. destruct Hfs as [He Hms]. apply text_eqb_eq in He.
      apply (list_eqb_eq text_eqb text_eqb_eq) in Hms. subst.
      destruct x; try discriminate. simpl in Htx. apply rt_cer_field; assumption.
    + apply (@field_rt_plain (HCerConstruct fld en ms c) (a, ft', o) (cf_ty cf) x); try assumption.
      * intros y. unfold sf_attr. simpl. now rewrite Ea.
      * exact (IH _ Hin).
Qed.

Transparent ty_eqb.

Theorem rt_all : forall ft, RT ft.
Proof.
  induction ft as [| | |i io IH|k ko v vo _ IHv|n h fs IH] using ftype_ind'.
  - exact rt_bool.
  - exact rt_str.
  - exact rt_uuid.
  - now apply rt_flist.
  - now apply rt_fdict.
  - destruct h; [now apply rt_construct|now apply rt_cer|apply rt_reqind].
Qed.

(* C19_generic *)
Theorem roundtrip_generic (c : cls) (s : schema) (v : value) :
  compatible c s = true -> inhabits c v -> exists j, dump s v = Ok j /\ load s j = Ok v.
Proof.
  unfold compatible, inhabits, dump, load. intros Hc Ht.
  destruct (@rt_all s _ _ Hc Ht) as (j & Hs & _ & Hd). now exists j.
Qed.

Corollary load_dump_generic (c : cls) (s : schema) (v : value) :
  compatible c s = true -> inhabits c v -> (do j <- dump s v ;; load s j) = Ok v.
Proof. intros Hc Hi. destruct (@roundtrip_generic c s v Hc Hi) as (j & Hd & Hl). now rewrite Hd. Qed.

(* ================================================================ Part 3: the generated descriptors *)
Lemma compatible_EvaluatedFormatConstraint : compatible cls_EvaluatedFormatConstraint sch_EvaluatedFormatConstraintSchema = true.
Proof. vm_compute. reflexivity. Qed.
Lemma compatible_ContentEvaluationResult : compatible cls_ContentEvaluationResult sch_ContentEvaluationResultSchema = true.
Proof. vm_compute. reflexivity. Qed.
Lemma compatible_CategorizedKeyExtract : compatible cls_CategorizedKeyExtract sch_CategorizedKeyExtractSchema = true.
Proof. vm_compute. reflexivity. Qed.
Lemma compatible_RequirementConstraintEvaluationResult :
  compatible cls_RequirementConstraintEvaluationResult sch_RequirementConstraintEvaluationResultSchema = true.
Proof. vm_compute. reflexivity. Qed.
Lemma compatible_FormatConstraintEvaluationResult :
  compatible cls_FormatConstraintEvaluationResult sch_FormatConstraintEvaluationResultSchema = true.
Proof. vm_compute. reflexivity. Qed.
Lemma compatible_AhbExpressionEvaluationResult :
  compatible cls_AhbExpressionEvaluationResult sch_AhbExpressionEvaluationResultSchema = true.
Proof. vm_compute. reflexivity. Qed.

(* every class of the property, at once (the table is generated) *)
Lemma compatible_table : forallb (fun e => compatible (fst (snd e)) (snd (snd e))) c19_table = true.
Proof. vm_compute. reflexivity. Qed.

Theorem roundtrip_table name c s v :
  In (name, (c, s)) c19_table -> inhabits c v -> exists j, dump s v = Ok j /\ load s j = Ok v.
Proof.
  intros Hin Hv. apply roundtrip_generic with (c := c); [|assumption].
  assert (H := compatible_table). rewrite forallb_forall in H. exact (H _ Hin).
Qed.

(* a non-trivial instance: an AHB result whose requirement outcome is undetermined (both Optional[bool] are None) *)
Definition t_MUSS : text := [77;85;83;83]%N.
Definition t_ModalMark : text := [77;111;100;97;108;77;97;114;107]%N.
Definition rcer_undetermined : value :=
  VObj (cname_of cls_RequirementConstraintEvaluationResult)
       (map (fun cf : cfield => (cf_name cf, VNone)) (cfields cls_RequirementConstraintEvaluationResult)).
Definition aeer_undetermined : value :=
  match cfields cls_AhbExpressionEvaluationResult, cfields cls_FormatConstraintEvaluationResult with
  | [a; b; c], [d; e] =>
      VObj (cname_of cls_AhbExpressionEvaluationResult)
           [(cf_name a, VEnum t_ModalMark t_MUSS); (cf_name b, rcer_undetermined);
            (cf_name c, VObj (cname_of cls_FormatConstraintEvaluationResult) [(cf_name d, VBool true); (cf_name e, VNone)])]
  | _, _ => VNone
  end.
Lemma aeer_undetermined_inhabits : inhabits cls_AhbExpressionEvaluationResult aeer_undetermined.
Proof. vm_compute. reflexivity. Qed.
Lemma rcer_undetermined_inhabits : inhabits cls_RequirementConstraintEvaluationResult rcer_undetermined.
Proof. vm_compute. reflexivity. Qed.
Lemma aeer_undetermined_roundtrip :
  (do j <- dump sch_AhbExpressionEvaluationResultSchema aeer_undetermined ;; load sch_AhbExpressionEvaluationResultSchema j) = Ok aeer_undetermined.
Proof. exact (@load_dump_generic _ _ _ compatible_AhbExpressionEvaluationResult aeer_undetermined_inhabits). Qed.

Lemma undetermined_example :
  inhabits cls_AhbExpressionEvaluationResult aeer_undetermined
  /\ (do j <- dump sch_AhbExpressionEvaluationResultSchema aeer_undetermined ;; load sch_AhbExpressionEvaluationResultSchema j)
     = Ok aeer_undetermined.
Proof. exact (conj aeer_undetermined_inhabits aeer_undetermined_roundtrip). Qed.

(* the defect this property found in the original tree, kept as a refutation of the schema WITHOUT allow_none:
   dropping the allow_none argument of the Boolean fields makes the class incompatible, and the instance above is the
   witness (load answers ValidationError: "Field may not be null.") *)
Definition drop_allow_none_of_booleans (s : schema) : schema :=
  match s with
  | FNested n h fs =>
      FNested n h (map (fun f : sfield =>
                          match sf_ft f with
                          | FBool => (sf_attr f, FBool, {| allow_none_arg := None; required := required (sf_opts f);
                                                            load_default := load_default (sf_opts f);
                                                            dump_default := dump_default (sf_opts f); data_key := data_key (sf_opts f) |})
                          | _ => f
                          end) fs)
  | _ => s
  end.
Lemma refuted_when_allow_none_missing :
  let s := drop_allow_none_of_booleans sch_RequirementConstraintEvaluationResultSchema in
  compatible cls_RequirementConstraintEvaluationResult s = false
  /\ missing_allow_none cls_RequirementConstraintEvaluationResult s <> []
  /\ (do j <- dump s rcer_undetermined ;; load s j) = Exn ValidationErr.
Proof. vm_compute. repeat split. discriminate. Qed.

(* ================================================================ Part 4: Lark trees through TreeSchema *)
Section LtreeInd.
  Variable P : ltree -> Prop.
  Hypothesis Htok : forall ty v, P (LTok ty v).
  Hypothesis Htree : forall d cs, Forall P cs -> P (LTree d cs).
  Fixpoint ltree_ind' (t : ltree) : P t :=
    match t with
    | LTok ty v => Htok ty v
    | LTree d cs =>
        Htree d ((fix go (l : list ltree) : Forall P l :=
                    match l with [] => Forall_nil _ | x :: r => Forall_cons x (ltree_ind' x) (go r) end) cs)
    end.
End LtreeInd.

Definition dump_child (c : ltree) : json :=
  match c with
  | LTok ty v => JObj [(t_token, dump_token ty v); (t_tree, JNull)]
  | LTree _ _ => JObj [(t_token, JNull); (t_tree, dump_tree c)]
  end.
Definition child_view (x : json) : result lval :=
  match x with JNull => Exn ValidationErr | _ => as_tot (ld x) end.

Lemma dump_tree_node d cs : dump_tree (LTree d cs) = JObj [(t_type, JStr d); (t_children, JArr (map dump_child cs))].
Proof. reflexivity. Qed.

Lemma as_tree_node d l :
  as_tree (ld (JObj [(t_type, JStr d); (t_children, JArr l)])) =
  match collected (map child_view l) with Ok c => Ok (PTree d c) | Exn e => Exn e end.
Proof.
  change (as_tree (ld (JObj [(t_type, JStr d); (t_children, JArr l)])))
    with (both (Ok (Some d)) (res_map Some (collected (map child_view l))) false
               (fun od oc => match od, oc with Some d', Some c => Ok (PTree d' c) | _, _ => Exn TypeErr end)).
  destruct (collected (map child_view l)) as [c|e]; reflexivity.
Qed.

Lemma as_tot_tree_child kvs :
  as_tot (ld (JObj [(t_token, JNull); (t_tree, JObj kvs)])) =
  match as_tree (ld (JObj kvs)) with Ok t => Ok t | Exn e => Exn e end.
Proof.
  change (as_tot (ld (JObj [(t_token, JNull); (t_tree, JObj kvs)])))
    with (both (Ok (Some (@None lval))) (res_map (fun t => Some (Some t)) (as_tree (ld (JObj kvs)))) false
               (fun otok otree =>
                  match otree with
                  | Some (Some t) => Ok t
                  | _ => match otok with
                         | Some (Some t) => if py_truthy t then Ok t else Ok (PRaw (opt_entry t_token otok ++ opt_entry t_tree otree))
                         | _ => Ok (PRaw (opt_entry t_token otok ++ opt_entry t_tree otree))
                         end
                  end)).
  destruct (as_tree (ld (JObj kvs))) as [t|e]; reflexivity.
Qed.

Lemma as_tot_token_child ty v : v <> [] -> as_tot (ld (JObj [(t_token, dump_token ty v); (t_tree, JNull)])) = Ok (PTok ty (Some v)).
Proof. destruct v; [contradiction|reflexivity]. Qed.

Lemma tree_roundtrip_both t :
  tok_ok t = true ->
  child_view (dump_child t) = Ok (embed t)
  /\ (forall d cs, t = LTree d cs -> as_tree (ld (dump_tree t)) = Ok (embed t)).
Proof.
  induction t as [ty v|d cs IH] using ltree_ind'; intros Hok.
  - split; [|intros d cs E; discriminate]. simpl in Hok. unfold dump_child, child_view.
    apply as_tot_token_child. destruct v; [discriminate|discriminate].
  - simpl in Hok.
    assert (Hnode : as_tree (ld (dump_tree (LTree d cs))) = Ok (embed (LTree d cs))).
    { rewrite dump_tree_node, as_tree_node.
      assert (Hc : collected (map child_view (map dump_child cs)) = Ok (map embed cs)).
      { unfold collected.
        assert (Hcol : collect (map child_view (map dump_child cs)) = Ok (false, map embed cs)).
        { clear d. induction IH as [|c cs Hc _ IHcs]; simpl; [reflexivity|].
          simpl in Hok. apply andb_true_iff in Hok. destruct Hok as [Hc1 Hc2].
          destruct (Hc Hc1) as [Hv _]. rewrite Hv, (IHcs Hc2). reflexivity. }
        rewrite Hcol. reflexivity. }
      rewrite Hc. reflexivity. }
    split; [|intros d' cs' _; exact Hnode].
    unfold dump_child, child_view. rewrite dump_tree_node, as_tot_tree_child, <- dump_tree_node, Hnode. reflexivity.
Qed.

(* C19_tree *)
Theorem tree_roundtrip t : tree_ok t = true -> load_tree (dump_tree t) = Ok (embed t).
Proof.
  destruct t as [ty v|d cs]; [discriminate|]. unfold tree_ok, load_tree. intros Hok.
  exact (proj2 (tree_roundtrip_both (LTree d cs) Hok) d cs eq_refl).
Qed.

(* evaluating (or doing anything else with) the round-tripped tree gives the result of the original tree *)
Corollary tree_roundtrip_same_result {A} (ev : lval -> A) t :
  tree_ok t = true -> res_map ev (load_tree (dump_tree t)) = Ok (ev (embed t)).
Proof. intros H. now rewrite tree_roundtrip. Qed.

(* the hypothesis is needed: a token with an empty value comes back as the raw data dictionary *)
Lemma tree_roundtrip_needs_nonempty_tokens :
  let t := LTree [120]%N [LTok [65]%N []] in
  load_tree (dump_tree t) = Ok (PTree [120]%N [PRaw [(t_token, Some (PTok [65]%N (Some []))); (t_tree, None)]])
  /\ load_tree (dump_tree t) <> Ok (embed t).
Proof. split; [reflexivity|discriminate]. Qed.

Example tree_ok_example :
  tree_ok (LTree [97]%N [LTree [99]%N [LTok [75]%N [49]%N]; LTree [98]%N [LTree [99]%N [LTok [75]%N [50]%N]; LTree [99]%N [LTok [75]%N [57;48;49]%N]]]) = true.
Proof. reflexivity. Qed.

(* ================================================================ Part 5: evaluation after the round trip *)
(* The requirement-constraint evaluation model (Model/EvalRC.v, property C04) works on [kexpr]; [to_ltree] is the Lark
   tree of such an expression (what parse_condition_expression_to_tree returns for it), [of_lval] reads a loaded tree
   back.  The names are imported here, after everything above, because Grammar.v also defines a [collect]. *)
From Ahb Require Import Model.Grammar Model.EvalRC.

Definition n_condition : text := [99;111;110;100;105;116;105;111;110]%N.
Definition n_CONDITION_KEY : text := [67;79;78;68;73;84;73;79;78;95;75;69;89]%N.
Definition n_or : text := [111;114;95;99;111;109;112;111;115;105;116;105;111;110]%N.
Definition n_xor : text := [120;111;114;95;99;111;109;112;111;115;105;116;105;111;110]%N.
Definition n_and : text := [97;110;100;95;99;111;109;112;111;115;105;116;105;111;110]%N.
Definition n_then : text := [116;104;101;110;95;97;108;115;111;95;99;111;109;112;111;115;105;116;105;111;110]%N.
Definition lark_name (b : binop) : text := match b with BOr => n_or | BXor => n_xor | BAnd => n_and | BThen => n_then end.
Definition binop_of_name (d : text) : option binop :=
  if text_eqb d n_or then Some BOr else if text_eqb d n_xor then Some BXor
  else if text_eqb d n_and then Some BAnd else if text_eqb d n_then then Some BThen else None.

Fixpoint to_ltree (e : kexpr) : ltree :=
  match e with
  | EAtom k => LTree n_condition [LTok n_CONDITION_KEY k]
  | EBin b l r => LTree (lark_name b) [to_ltree l; to_ltree r]
  end.
Fixpoint of_lval (x : lval) : option kexpr :=
  match x with
  | PTree d [PTok ty (Some k)] => if text_eqb d n_condition && text_eqb ty n_CONDITION_KEY then Some (EAtom k) else None
  | PTree d [l; r] =>
      match binop_of_name d, of_lval l, of_lval r with
      | Some b, Some el, Some er => Some (EBin b el er)
      | _, _, _ => None
      end
  | _ => None
  end.

Lemma of_lval_embed e : of_lval (embed (to_ltree e)) = Some e.
Proof.
  induction e as [k|b l IHl r IHr]; [reflexivity|].
  change (embed (to_ltree (EBin b l r))) with (PTree (lark_name b) [embed (to_ltree l); embed (to_ltree r)]).
  assert (Hb : binop_of_name (lark_name b) = Some b) by (destruct b; reflexivity).
  destruct (embed (to_ltree l)) eqn:El.
  - destruct l; discriminate.
  - simpl. simpl in IHl. rewrite Hb. rewrite IHl. rewrite IHr. reflexivity.
  - destruct l; discriminate.
Qed.

Lemma tree_ok_to_ltree e : (forall k, In k (keys_of e) -> k <> []) -> tree_ok (to_ltree e) = true.
Proof.
  assert (H : (forall k, In k (keys_of e) -> k <> []) -> tok_ok (to_ltree e) = true).
  { induction e as [k|b l IHl r IHr]; simpl; intros Hk.
    - destruct k; [exfalso; apply (Hk []); [now left|reflexivity]|reflexivity].
    - rewrite IHl, IHr; [reflexivity| |]; intros k Hin; apply Hk; apply in_or_app; [now right|now left]. }
  intros Hk. destruct e; exact (H Hk).
Qed.

(* C19_eval_after_roundtrip *)
Theorem eval_after_roundtrip (ce : cer) (e : kexpr) :
  (forall k, In k (keys_of e) -> k <> []) ->
  exists x, load_tree (dump_tree (to_ltree e)) = Ok x /\ of_lval x = Some e
            /\ option_map (rc_evaluation ce) (of_lval x) = Some (rc_evaluation ce e).
Proof.
  intros Hk. exists (embed (to_ltree e)). rewrite (tree_roundtrip (to_ltree e) (tree_ok_to_ltree e Hk)), of_lval_embed.
  repeat split.
Qed.
