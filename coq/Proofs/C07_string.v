(* The string-level FormatConstraintExpressionBuilder (Model/FcString.v: f-strings, strip, re.sub of the single-key bracket pattern) computes
   [render] of what the token-level builder of Model/EvalRC.v computes; hence the RequirementConstraintTransformer with the string builder reports
   the rendering of the forest C07's theorems are about. *)
From Ahb Require Import Model.Prelude Model.Grammar Gen.Gen_logic Gen.Gen_ranges Gen.Gen_grammar Model.Logic Model.Lex Model.EvalRC Model.FcString.

(* ------------------------------------------------------------------ re.sub: unfolding equations *)
Lemma span_d_app s : forall a b, span_d s = (a, b) -> s = a ++ b.
Proof.
  induction s as [|c t IH]; simpl; intros a b H; [inversion H; reflexivity|].
  destruct (is_d c); [|inversion H; reflexivity].
  destruct (span_d t) as [a' b'] eqn:E. inversion H; subst. simpl. f_equal. now apply IH.
Qed.

Lemma match_at_shorter s body rest : match_at s = Some (body, rest) -> length rest < length s.
Proof.
  unfold match_at. destruct s as [|a [|b t]]; try discriminate.
  destruct ((a =? 40)%N && (b =? 91)%N); [|discriminate].
  destruct (span_d t) as [ds r] eqn:E. apply span_d_app in E. subst t.
  destruct ds as [|d ds]; [discriminate|]. destruct r as [|x [|y r']]; try discriminate.
  destruct ((x =? 93)%N && (y =? 41)%N); [|discriminate]. intros H; inversion H; subst.
  simpl. rewrite app_length. simpl. lia.
Qed.

Lemma sub_f_fuel n : forall m s, length s <= n -> length s <= m -> sub_f n s = sub_f m s.
Proof.
  induction n as [|n IH]; intros m s Hn Hm.
  - destruct s; [|simpl in Hn; lia]. destruct m; reflexivity.
  - destruct m as [|m]; [destruct s; [reflexivity|simpl in Hm; lia]|].
    destruct s as [|c t]; [reflexivity|]. cbn [sub_f].
    destruct (match_at (c :: t)) as [[body rest]|] eqn:M.
    + apply match_at_shorter in M. f_equal. apply IH; simpl in *; lia.
    + f_equal. apply IH; simpl in *; lia.
Qed.

Lemma re_sub_nil : re_sub [] = [].
Proof. reflexivity. Qed.

Lemma re_sub_cons c t :
  re_sub (c :: t) = match match_at (c :: t) with Some (body, rest) => body ++ re_sub rest | None => c :: re_sub t end.
Proof.
  unfold re_sub. cbn [length sub_f].
  destruct (match_at (c :: t)) as [[body rest]|] eqn:M.
  - apply match_at_shorter in M. f_equal. apply sub_f_fuel; simpl in *; lia.
  - reflexivity.
Qed.

Lemma match_at_not40 c t : (c =? 40)%N = false -> match_at (c :: t) = None.
Proof. intros H. unfold match_at. destruct t; [reflexivity|]. rewrite H. reflexivity. Qed.

(* characters other than "(" are copied *)
Lemma re_sub_copy w : forallb (fun c => negb (c =? 40)%N) w = true -> forall rest, re_sub (w ++ rest) = w ++ re_sub rest.
Proof.
  induction w as [|c w IH]; simpl; intros H rest; [reflexivity|].
  apply andb_true_iff in H as [Hc Hw]. rewrite re_sub_cons, match_at_not40 by (now apply negb_true_iff in Hc).
  f_equal. now apply IH.
Qed.

(* ------------------------------------------------------------------ forests whose keys are digit strings *)
Definition key_okb (k : text) : bool := match k with [] => false | _ => forallb is_d k end.
Definition is_op (x : fitem) : bool := match x with FOp _ => true | _ => false end.
Fixpoint item_okb (x : fitem) : bool :=
  match x with
  | FK k => key_okb k
  | FOp _ => true
  | FG g => forallb item_okb g
  end.

Section FitemInd.
  Variable P : fitem -> Prop.
  Hypothesis HK : forall k, P (FK k).
  Hypothesis HO : forall o, P (FOp o).
  Hypothesis HG : forall g, Forall P g -> P (FG g).
  Fixpoint fitem_ind2 (x : fitem) : P x :=
    match x with
    | FK k => HK k
    | FOp o => HO o
    | FG g => HG g ((fix go (l : list fitem) : Forall P l :=
                       match l with [] => Forall_nil _ | y :: t => Forall_cons _ (fitem_ind2 y) (go t) end) g)
    end.
End FitemInd.

Lemma char_facts :
  is_d 40 = false /\ is_d 41 = false /\ is_d 91 = false /\ is_d 93 = false /\ is_d 32 = false /\
  (forall o, is_d (lop_char o) = false) /\ (forall o, (lop_char o =? 40)%N = false).
Proof. repeat split; try (intros o; destruct o); vm_compute; reflexivity. Qed.

Lemma is_d_not40 c : is_d c = true -> (c =? 40)%N = false.
Proof.
  intros H. destruct (c =? 40)%N eqn:E; [|reflexivity]. apply N.eqb_eq in E. subst.
  destruct char_facts as [F _]. rewrite F in H. discriminate.
Qed.

Lemma render_cons x t : render (x :: t) = render_item x ++ render t.
Proof. reflexivity. Qed.

Lemma render_app a b : render (a ++ b) = render a ++ render b.
Proof. unfold render. rewrite map_app, concat_app. reflexivity. Qed.

Lemma render_item_first x : exists c tl, render_item x = c :: tl /\ (c =? 41)%N = false /\ ((c =? 91)%N = false -> forall k, x <> FK k).
Proof.
  destruct x as [k|o|g]; simpl.
  - exists 91%N, (k ++ [93%N]). repeat split. intros H. discriminate H.
  - exists 32%N, [lop_char o; 32%N]. repeat split. intros _ k. discriminate.
  - exists 40%N, (concat (map render_item g) ++ [41%N]). repeat split. intros _ k. discriminate.
Qed.

Lemma span_d_digits k : forallb is_d k = true -> forall c r, is_d c = false -> span_d (k ++ c :: r) = (k, c :: r).
Proof.
  induction k as [|d k IH]; simpl; intros H c r Hc; [rewrite Hc; reflexivity|].
  apply andb_true_iff in H as [Hd Hk]. rewrite Hd, (IH Hk c r Hc). reflexivity.
Qed.

(* where the pattern matches in a rendered forest: exactly at a group that holds one key *)
Lemma match_at_group g rest : forallb item_okb g = true ->
  match_at (40%N :: render g ++ 41%N :: rest) = match g with [FK k] => Some (bracket_key k, rest) | _ => None end.
Proof.
  destruct char_facts as (F40 & F41 & F91 & F93 & F32 & Fop & _).
  intros Hg. destruct g as [|x g'].
  - reflexivity.
  - rewrite render_cons. destruct x as [k|o|h].
    + simpl in Hg. apply andb_true_iff in Hg as [Hk Hg'].
      destruct k as [|d ds]; [discriminate|]. unfold key_okb in Hk.
      assert (E : 40%N :: render_item (FK (d :: ds)) ++ render g' ++ 41%N :: rest
                  = 40%N :: 91%N :: (d :: ds) ++ 93%N :: (render g' ++ 41%N :: rest)).
      { cbn [render_item]. rewrite <- !app_assoc. reflexivity. }
      rewrite <- app_assoc, E. clear E. unfold match_at. cbn [N.eqb Pos.eqb andb].
      destruct g' as [|y g''].
      * change (render [] ++ 41%N :: rest) with (41%N :: rest).
        rewrite (span_d_digits (d :: ds) Hk 93%N (41%N :: rest) F93). cbn [N.eqb Pos.eqb andb]. reflexivity.
      * rewrite render_cons. destruct (render_item_first y) as (c & tl & E & Hc & _). rewrite E.
        rewrite (span_d_digits (d :: ds) Hk 93%N _ F93). cbn [app]. rewrite Hc, andb_false_r. reflexivity.
    + cbn [render_item]. unfold match_at. cbn [app]. cbn [N.eqb Pos.eqb andb]. reflexivity.
    + cbn [render_item]. unfold match_at. cbn [app]. cbn [N.eqb Pos.eqb andb]. reflexivity.
Qed.

Lemma norm1_group g : (forall k, g <> [FK k]) -> norm1 (FG g) = FG (map norm1 g).
Proof. intros H. destruct g as [|[k|o|h] [|y g']]; try reflexivity. exfalso. now apply (H k). Qed.

Lemma key_no40 k : key_okb k = true -> forallb (fun c => negb (c =? 40)%N) (bracket_key k) = true.
Proof.
  intros H. unfold bracket_key. cbn [forallb]. cbn [N.eqb Pos.eqb negb andb]. rewrite forallb_app. cbn [forallb]. cbn [N.eqb Pos.eqb negb andb].
  rewrite andb_true_r. destruct k as [|d ds]; [discriminate|]. unfold key_okb in H.
  apply forallb_forall. intros c Hc. rewrite forallb_forall in H. apply negb_true_iff, is_d_not40, H, Hc.
Qed.

(* one pass of the substitution over a rendered forest = norm1 on every item, at every depth *)
Lemma re_sub_render_item x : item_okb x = true -> forall rest, re_sub (render_item x ++ rest) = render_item (norm1 x) ++ re_sub rest.
Proof.
  induction x as [k|o|g IH] using fitem_ind2; intros Hx rest.
  - simpl norm1. change (render_item (FK k)) with (bracket_key k). apply re_sub_copy. now apply key_no40.
  - simpl norm1. apply re_sub_copy. destruct char_facts as (_ & _ & _ & _ & _ & _ & Fop). simpl. rewrite Fop. reflexivity.
  - assert (L : forall rest', re_sub (render g ++ rest') = render (map norm1 g) ++ re_sub rest').
    { simpl in Hx. clear rest. induction IH as [|y t Hy _ IHt]; intros rest'; [reflexivity|].
      simpl in Hx. apply andb_true_iff in Hx as [Hy' Ht]. rewrite render_cons, <- app_assoc, (Hy Hy'), (IHt Ht).
      cbn [map]. rewrite render_cons, <- app_assoc. reflexivity. }
    cbn [render_item]. change (([40%N] ++ concat (map render_item g) ++ [41%N]) ++ rest) with (40%N :: (render g ++ [41%N]) ++ rest).
    rewrite <- app_assoc. cbn [app]. rewrite re_sub_cons, (match_at_group g rest Hx).
    destruct g as [|[k|o|h] [|y g']].
    + rewrite (L (41%N :: rest)), re_sub_cons, match_at_not40 by reflexivity. reflexivity.
    + reflexivity.
    + rewrite (L (41%N :: rest)), re_sub_cons, match_at_not40 by reflexivity. rewrite norm1_group by (intros k0; discriminate).
      cbn [render_item]. unfold render. rewrite <- !app_assoc. reflexivity.
    + rewrite (L (41%N :: rest)), re_sub_cons, match_at_not40 by reflexivity. rewrite norm1_group by (intros k0; discriminate).
      cbn [render_item]. unfold render. rewrite <- !app_assoc. reflexivity.
    + rewrite (L (41%N :: rest)), re_sub_cons, match_at_not40 by reflexivity. rewrite norm1_group by (intros k0; discriminate).
      cbn [render_item]. unfold render. rewrite <- !app_assoc. reflexivity.
    + rewrite (L (41%N :: rest)), re_sub_cons, match_at_not40 by reflexivity. rewrite norm1_group by (intros k0; discriminate).
      cbn [render_item]. unfold render. rewrite <- !app_assoc. reflexivity.
    + rewrite (L (41%N :: rest)), re_sub_cons, match_at_not40 by reflexivity. rewrite norm1_group by (intros k0; discriminate).
      cbn [render_item]. unfold render. rewrite <- !app_assoc. reflexivity.
Qed.

Theorem re_sub_render g : forallb item_okb g = true -> re_sub (render g) = render (map norm1 g).
Proof.
  intros H. induction g as [|x t IH]; [reflexivity|].
  simpl in H. apply andb_true_iff in H as [Hx Ht]. rewrite render_cons, (re_sub_render_item x Hx), (IH Ht). reflexivity.
Qed.

(* ------------------------------------------------------------------ str.strip() on what the builder writes *)
Definition hd_tight (s : text) : bool := match s with c :: _ => negb (is_space c) | [] => false end.

Lemma lstrip_tight s : hd_tight s = true -> lstrip s = s.
Proof. destruct s as [|c t]; [discriminate|]. simpl. intros H. apply negb_true_iff in H. rewrite H. reflexivity. Qed.

Lemma strip_tight s : hd_tight s = true -> hd_tight (rev s) = true -> strip s = s.
Proof. intros H1 H2. unfold strip. rewrite (lstrip_tight s H1), (lstrip_tight (rev s) H2). apply rev_involutive. Qed.

Lemma strip_space s : strip (32%N :: s) = strip s.
Proof. reflexivity. Qed.

(* forests that start and end with a key or a group (never with an operator) *)
Definition edge_okb (g : fctoks) : bool :=
  match g with [] => false | x :: _ => negb (is_op x) && negb (is_op (last g x)) end.
Definition good (g : fctoks) : bool := forallb item_okb g && edge_okb g.

Lemma render_item_hd x : is_op x = false -> hd_tight (render_item x ++ []) = true /\ forall w, hd_tight (render_item x ++ w) = true.
Proof. destruct x as [k|o|h]; [|discriminate|]; intros _; split; intros; reflexivity. Qed.

Lemma render_item_last x : is_op x = false -> forall w, hd_tight (rev (w ++ render_item x)) = true.
Proof.
  destruct x as [k|o|h]; [|discriminate|]; intros _ w; cbn [render_item].
  - rewrite !rev_app_distr. reflexivity.
  - rewrite !rev_app_distr. reflexivity.
Qed.

Lemma render_last g x : render (g ++ [x]) = render g ++ render_item x.
Proof. rewrite render_app. unfold render at 2. simpl. rewrite app_nil_r. reflexivity. Qed.

Lemma last_split (g : fctoks) x : g <> [] -> exists g', g = g' ++ [last g x].
Proof. intros H. destruct (exists_last H) as (g' & y & ->). exists g'. rewrite last_last. reflexivity. Qed.

Lemma render_tight g : edge_okb g = true -> hd_tight (render g) = true /\ hd_tight (rev (render g)) = true.
Proof.
  destruct g as [|x t]; [discriminate|]. unfold edge_okb. intros H. apply andb_true_iff in H as [H1 H2].
  apply negb_true_iff in H1, H2. split.
  - rewrite render_cons. now apply render_item_hd.
  - destruct (last_split (x :: t) x) as (g' & E); [discriminate|]. rewrite E, render_last. now apply render_item_last.
Qed.

Lemma render_nonempty x t : exists c w, render (x :: t) = c :: w.
Proof. rewrite render_cons. destruct x as [k|o|h]; simpl; eauto. Qed.

Lemma truthy_render (o : option fctoks) : s_truthy (option_map render o) = otruthy o.
Proof. destruct o as [[|x t]|]; try reflexivity. simpl. destruct (render_nonempty x t) as (c & w & ->). reflexivity. Qed.

(* ------------------------------------------------------------------ norm1 keeps what the invariants need *)
Lemma is_op_norm1 x : is_op (norm1 x) = is_op x.
Proof. destruct x as [k|o|[|[k|o|h] [|y g']]]; reflexivity. Qed.

Lemma item_ok_norm1 x : item_okb x = true -> item_okb (norm1 x) = true.
Proof.
  induction x as [k|o|g IH] using fitem_ind2; intros H; [exact H|exact H|].
  assert (L : forallb item_okb (map norm1 g) = true).
  { simpl in H. induction IH as [|y t Hy _ IHt]; [reflexivity|]. simpl in *. apply andb_true_iff in H as [A B]. now rewrite (Hy A), (IHt B). }
  destruct g as [|[k|o|h] [|y g']]; try exact L. simpl in *. now rewrite andb_true_r in H.
Qed.

Lemma last_map_norm1 (g : fctoks) x : last (map norm1 g) (norm1 x) = norm1 (last g x).
Proof. induction g as [|y t IH]; [reflexivity|]. destruct t as [|z t']; [reflexivity|]. exact IH. Qed.

Lemma good_norm1 g : good g = true -> good (map norm1 g) = true.
Proof.
  unfold good. intros H. apply andb_true_iff in H as [A B]. apply andb_true_iff. split.
  - clear B. induction g as [|x t IH]; [reflexivity|]. simpl in *. apply andb_true_iff in A as [A1 A2]. rewrite (item_ok_norm1 x A1). now apply IH.
  - destruct g as [|x t]; [discriminate|]. unfold edge_okb in *. cbn [map]. rewrite is_op_norm1.
    change (norm1 x :: map norm1 t) with (map norm1 (x :: t)). rewrite last_map_norm1, is_op_norm1. exact B.
Qed.

(* ------------------------------------------------------------------ the builder: strings = rendering of the token builder *)
Definition fcx_good (o : option fctoks) : Prop := match o with Some (x :: t) => good (x :: t) = true | _ => True end.
Record node_good (n : node) : Prop := {
  ng_key : nk n = KFc -> key_okb (nkey n) = true;
  ng_fcx : fcx_good (nfcx n)
}.

Lemma init_refines n : s_init (view n) = option_map render (fcb_init n).
Proof.
  unfold s_init, fcs_init, fcb_init, view. cbn [sk skey sfcx]. destruct (nk n); try reflexivity.
  - unfold render. simpl. rewrite app_nil_r. reflexivity.
  - rewrite truthy_render. destruct (otruthy (nfcx n)); reflexivity.
Qed.

Lemma init_good n : node_good n -> fcx_good (fcb_init n).
Proof.
  intros [Hk Hf]. unfold fcb_init. destruct (nk n) eqn:K; try exact I.
  - unfold fcx_good, good. simpl. rewrite (Hk eq_refl). reflexivity.
  - destruct (otruthy (nfcx n)); [exact Hf|exact I].
Qed.

(* the string written before strip / sub, and the forest before norm1 *)
Lemma finish_refines (E : fctoks) (lead : bool) : good E = true ->
  re_sub (strip ((if lead then [32%N] else []) ++ render E)) = render (map norm1 E).
Proof.
  intros H. assert (G := H). unfold good in H. apply andb_true_iff in H as [A B].
  destruct (render_tight E B) as [T1 T2].
  destruct lead; cbn [app]; [rewrite strip_space|]; rewrite (strip_tight _ T1 T2); now apply re_sub_render.
Qed.

Lemma prefix_string x t op : ([40%N] ++ render (x :: t) ++ [41%N; 32%N; lop_char op]) ++ [32%N] = render [FG (x :: t); FOp op].
Proof.
  unfold render. cbn [map concat render_item]. rewrite app_nil_r. cbn [app]. f_equal.
  rewrite <- !app_assoc. reflexivity.
Qed.

Lemma connect_refines op (self : option fctoks) (o : node) : fcx_good self -> node_good o ->
  s_connect op (option_map render self) (view o) = option_map render (fcb_connect op self o) /\ fcx_good (fcb_connect op self o).
Proof.
  intros Hs [Hk Hf].
  unfold s_connect, fcs_connect, fcb_connect, view. cbn [sk skey sfcx]. rewrite !truthy_render.
  (* the forest before norm1 *)
  set (prefix := match self with Some (x :: t) => [FG (x :: t); FOp op] | _ => [] end).
  assert (Pfx : (if otruthy self then [40%N] ++ oget (option_map render self) ++ [41%N; 32%N; lop_char op] else [])
                ++ [32%N] = (if otruthy self then [] else [32%N]) ++ render prefix).
  { unfold prefix. destruct self as [[|x t]|]; try reflexivity. cbn [otruthy truthy option_map oget].
    rewrite prefix_string. reflexivity. }
  assert (Pgood : forall item, is_op item = false -> item_okb item = true -> good (prefix ++ [item]) = true).
  { intros item Hi Ho. unfold prefix. destruct self as [[|x t]|]; unfold good; cbn; try (rewrite Ho, Hi; reflexivity).
    unfold fcx_good, good in Hs. apply andb_true_iff in Hs as [A _]. cbn in A. rewrite A, Ho, Hi. reflexivity. }
  assert (Fin : forall item, is_op item = false -> item_okb item = true ->
                re_sub (strip (((if otruthy self then [40%N] ++ oget (option_map render self) ++ [41%N; 32%N; lop_char op] else []) ++ [32%N]) ++ render_item item))
                = render (map norm1 (prefix ++ [item]))).
  { intros item Hi Ho. rewrite Pfx, <- app_assoc, <- render_last.
    destruct (otruthy self); [apply (finish_refines (prefix ++ [item]) false)|apply (finish_refines (prefix ++ [item]) true)]; now apply Pgood. }
  assert (Self : (if s_truthy (option_map render self) then Some (re_sub (strip (oget (option_map render self)))) else option_map render self)
                 = option_map render (match self with Some (x :: t) => Some (map norm1 (x :: t)) | _ => self end)
                 /\ fcx_good (match self with Some (x :: t) => Some (map norm1 (x :: t)) | _ => self end)).
  { rewrite truthy_render. destruct self as [[|x t]|]; try (split; [reflexivity|exact I]).
    cbn [otruthy truthy option_map oget]. split.
    - f_equal. apply (finish_refines (x :: t) false). exact Hs.
    - unfold fcx_good. cbn [map]. change (norm1 x :: map norm1 t) with (map norm1 (x :: t)). apply good_norm1. exact Hs. }
  destruct (nk o) eqn:K; try exact Self.
  - (* other is a format constraint: f"{prefix} [{key}]" *)
    specialize (Fin (FK (nkey o)) eq_refl (Hk eq_refl)). specialize (Pgood (FK (nkey o)) eq_refl (Hk eq_refl)).
    assert (NE : exists c w, (if otruthy self then [40%N] ++ oget (option_map render self) ++ [41%N; 32%N; lop_char op] else []) ++ [32%N] ++ bracket_key (nkey o) = c :: w).
    { destruct (otruthy self); cbn; eauto. }
    destruct NE as (c & w & NE). rewrite NE. cbn [s_truthy oget]. rewrite <- NE.
    change (bracket_key (nkey o)) with (render_item (FK (nkey o))). rewrite app_assoc, Fin.
    destruct (prefix ++ [FK (nkey o)]) as [|x t] eqn:E; [destruct prefix; discriminate|].
    split; [reflexivity|]. unfold fcx_good. cbn [map]. change (norm1 x :: map norm1 t) with (map norm1 (x :: t)). now apply good_norm1.
  - (* other is an evaluated composition *)
    destruct (nfcx o) as [[|y u]|] eqn:F; cbn [otruthy truthy]; try exact Self.
    assert (Hi : item_okb (FG (y :: u)) = true).
    { unfold fcx_good, good in Hf. apply andb_true_iff in Hf as [A _]. exact A. }
    specialize (Fin (FG (y :: u)) eq_refl Hi). specialize (Pgood (FG (y :: u)) eq_refl Hi).
    cbn [option_map oget].
    assert (NE : exists c w, (if otruthy self then [40%N] ++ oget (option_map render self) ++ [41%N; 32%N; lop_char op] else []) ++ [32%N; 40%N] ++ render (y :: u) ++ [41%N] = c :: w).
    { destruct (otruthy self); cbn; eauto. }
    destruct NE as (c & w & NE). rewrite NE. cbn [s_truthy oget]. rewrite <- NE.
    change ([32%N; 40%N] ++ render (y :: u) ++ [41%N]) with ([32%N] ++ render_item (FG (y :: u))). rewrite app_assoc, Fin.
    destruct (prefix ++ [FG (y :: u)]) as [|x t] eqn:E; [destruct prefix; discriminate|].
    split; [reflexivity|]. unfold fcx_good. cbn [map]. change (norm1 x :: map norm1 t) with (map norm1 (x :: t)). now apply good_norm1.
Qed.

(* ------------------------------------------------------------------ the transformer with the string builder = the view of the transformer with forests *)
Definition rmap {A B} (f : A -> B) (r : result A) : result B := match r with Ok a => Ok (f a) | Exn e => Exn e end.

Lemma view_ec s h f : view (mk_ec s h f) = mk_sec s h (option_map render f).
Proof. reflexivity. Qed.

Lemma mk_ec_good s h f : fcx_good f -> node_good (mk_ec s h f).
Proof. intros H. split; [discriminate|exact H]. Qed.

Ltac use_connect op l r Hl Hr :=
  let C := fresh "C" in let G := fresh "G" in
  destruct (connect_refines op (fcb_init l) r (init_good l Hl) Hr) as [C G].

Lemma compose_refines b l r : node_good l -> node_good r ->
  s_compose b (view l) (view r) = rmap view (compose b l r) /\ (forall n, compose b l r = Ok n -> node_good n).
Proof.
  intros Hl Hr.
  assert (CA : forall op, s_connect op (s_init (view l)) (view r) = option_map render (fcb_connect op (fcb_init l) r) /\ fcx_good (fcb_connect op (fcb_init l) r)).
  { intros op. rewrite init_refines. apply connect_refines; [now apply init_good|exact Hr]. }
  assert (CB : forall op, s_connect op (s_init (view r)) (view l) = option_map render (fcb_connect op (fcb_init r) l) /\ fcx_good (fcb_connect op (fcb_init r) l)).
  { intros op. rewrite init_refines. apply connect_refines; [now apply init_good|exact Hl]. }
  destruct b; cbn [s_compose compose].
  - (* or *)
    unfold s_or, or_composition, s_invalid, or_xor_invalid. cbn [view sk sst shint].
    destruct (_ || _); [split; [reflexivity|discriminate]|].
    destruct (lift_cfv (cfv_or (st l) (st r))) as [s|e]; cbn [bind rmap]; [|split; [reflexivity|discriminate]].
    destruct (CA LO) as [C G]. rewrite C, view_ec. split; [reflexivity|]. intros n H; inversion H; subst. now apply mk_ec_good.
  - (* xor *)
    unfold s_xor, xor_composition, s_invalid, or_xor_invalid. cbn [view sk sst shint].
    destruct (_ || _); [split; [reflexivity|discriminate]|].
    destruct (lift_cfv (cfv_xor (st l) (st r))) as [s|e]; cbn [bind rmap]; [|split; [reflexivity|discriminate]].
    destruct (CA LX) as [C G]. rewrite C, view_ec. split; [reflexivity|]. intros n H; inversion H; subst. now apply mk_ec_good.
  - (* and *)
    unfold s_and, and_composition. cbn [view sk sst shint].
    destruct (lift_cfv (cfv_and (st l) (st r))) as [s|e]; cbn [bind rmap]; [|split; [reflexivity|discriminate]].
    destruct (CA LU) as [C G]. rewrite C, view_ec. split; [reflexivity|]. intros n H; inversion H; subst. now apply mk_ec_good.
  - (* then also *)
    unfold s_then, then_also_composition. cbn [view sk].
    destruct (nkind_eqb (nk l) KFc).
    + unfold s_then_also, then_also. cbn [view sk sst shint].
      destruct (negb (cfv_eqb (st r) C_NEUTRAL)).
      * destruct (CA LU) as [C G]. rewrite C. destruct (cfv_eqb (st r) C_FULFILLED); cbn [rmap]; rewrite view_ec;
          (split; [reflexivity|intros n H; inversion H; subst; apply mk_ec_good; try exact G; exact I]).
      * destruct (nkind_eqb (nk r) KHint); [|split; [reflexivity|discriminate]].
        destruct (CA LU) as [C G]. rewrite C. cbn [rmap]. rewrite view_ec. split; [reflexivity|]. intros n H; inversion H; subst. now apply mk_ec_good.
    + unfold s_then_also, then_also. cbn [view sk sst shint].
      destruct (negb (cfv_eqb (st l) C_NEUTRAL)).
      * destruct (CB LU) as [C G]. rewrite C. destruct (cfv_eqb (st l) C_FULFILLED); cbn [rmap]; rewrite view_ec;
          (split; [reflexivity|intros n H; inversion H; subst; apply mk_ec_good; try exact G; exact I]).
      * destruct (nkind_eqb (nk l) KHint); [|split; [reflexivity|discriminate]].
        destruct (CB LU) as [C G]. rewrite C. cbn [rmap]. rewrite view_ec. split; [reflexivity|]. intros n H; inversion H; subst. now apply mk_ec_good.
Qed.

Definition view_env (rho : env) : senv := map (fun p => (fst p, view (snd p))) rho.
Definition env_good (rho : env) : Prop := forall k n, lookup rho k = Some n -> node_good n.

Lemma lookup_view rho k : lookup (view_env rho) k = option_map view (lookup rho k).
Proof. induction rho as [|[k' v] t IH]; [reflexivity|]. simpl. destruct (text_eqb k k'); [reflexivity|exact IH]. Qed.

Theorem eval_refines rho e : env_good rho ->
  eval_rc_s (view_env rho) e = rmap view (eval_rc rho e) /\ (forall n, eval_rc rho e = Ok n -> node_good n).
Proof.
  intros Hrho. induction e as [k|b l [IHl Gl] r [IHr Gr]]; cbn [eval_rc_s eval_rc].
  - rewrite lookup_view. destruct (lookup rho k) as [n|] eqn:E; cbn; split; try reflexivity; try discriminate.
    intros n' H; inversion H; subst. eapply Hrho; eauto.
  - rewrite IHl, IHr. destruct (eval_rc rho l) as [x|ex]; cbn [rmap bind]; [|split; [reflexivity|discriminate]].
    destruct (eval_rc rho r) as [y|ey]; cbn [rmap bind]; [|split; [reflexivity|discriminate]].
    apply compose_refines; [now apply Gl|now apply Gr].
Qed.

(* the reported format_constraints_expression: the string is the rendering of the forest *)
Theorem reported_string_is_rendering rho e n : env_good rho -> eval_rc rho e = Ok n ->
  exists sn, eval_rc_s (view_env rho) e = Ok sn /\ s_result_fcx sn = option_map render (r_fcx (rc_result n)).
Proof.
  intros Hrho H. destruct (eval_refines rho e Hrho) as [E _]. rewrite H in E. cbn [rmap] in E.
  exists (view n). split; [exact E|].
  unfold s_result_fcx, rc_result. cbn [view sk skey sfcx]. destruct (outcome_of (st n)) as [f c]. cbn [r_fcx].
  destruct (nkind_eqb (nk n) KFc); [|reflexivity].
  unfold render. simpl. rewrite app_nil_r. reflexivity.
Qed.

(* the leaves the ConditionNodeBuilder model builds satisfy the invariant when the format-constraint keys are digit strings *)
Lemma leaf_good c k kd n : leaf_node c k kd = Ok n -> (kd <> KRc -> kd <> KHint -> key_okb k = true) -> node_good n.
Proof.
  unfold leaf_node. destruct kd.
  - destruct (lookup (c_rc c) k); cbn [of_option bind]; [|discriminate]. intros H _; inversion H; subst. split; [discriminate|exact I].
  - destruct (lookup (c_hints c) k) as [[h|]|]; try discriminate. intros H _; inversion H; subst. split; [discriminate|exact I].
  - intros H Hk; inversion H; subst. split; [intros _; apply Hk; discriminate|exact I].
  - intros H Hk; inversion H; subst. split; [intros _; apply Hk; discriminate|exact I].
Qed.

(* ------------------------------------------------------------------ requirement_constraint_evaluation *)
Lemma mapM_In {A B} (f : A -> result B) (l : list A) : forall l' y, mapM f l = Ok l' -> In y l' -> exists x, In x l /\ f x = Ok y.
Proof.
  induction l as [|a t IH]; simpl; intros l' y H Hy; [inversion H; subst; destruct Hy|].
  destruct (f a) as [b|] eqn:E; simpl in H; [|discriminate]. destruct (mapM f t) as [bs|] eqn:M; simpl in H; [|discriminate].
  inversion H; subst. destruct Hy as [->|Hy]; [exists a; auto|]. destruct (IH bs y eq_refl Hy) as (x & Hx & Fx). exists x; auto.
Qed.

Lemma lookup_In {A} (l : list (text * A)) k v : lookup l k = Some v -> exists k', In (k', v) l.
Proof.
  induction l as [|[k' v'] t IH]; simpl; [discriminate|]. destruct (text_eqb k k'); intros H.
  - inversion H; subst. exists k'. auto.
  - destruct (IH H) as (k2 & Hk2). exists k2. auto.
Qed.

Lemma build_env_good c keys rho : (forall k, In k keys -> key_okb k = true) -> build_env c keys = Ok rho -> env_good rho.
Proof.
  intros Hkeys. unfold build_env.
  destruct (mapM _ keys) as [kinds|] eqn:K; cbn [bind]; [|discriminate].
  assert (KK : forall p, In p kinds -> key_okb (fst p) = true).
  { intros p Hp. destruct (mapM_In _ keys kinds p K Hp) as (k & Hk & E). destruct (leaf_kind k); cbn [bind] in E; [|discriminate].
    inversion E; subst. now apply Hkeys. }
  cbv zeta.
  match goal with |- bind ?m _ = _ -> _ => destruct m as [rcs|] eqn:R; cbn [bind]; [|discriminate] end.
  match goal with |- bind ?m _ = _ -> _ => destruct m as [hs|] eqn:Hh; cbn [bind]; [|discriminate] end.
  match goal with |- bind ?m _ = _ -> _ => destruct m as [fs|] eqn:F; cbn [bind]; [|discriminate] end.
  intros H; inversion H; subst. intros k n L. apply lookup_In in L as (k' & L).
  assert (G : forall kd l, mapM (fun p : text * nkind => do n0 <- leaf_node c (fst p) kd;; Ok (fst p, n0))
                                (filter (fun p : text * nkind => nkind_eqb (snd p) kd) kinds) = Ok l -> In (k', n) l -> node_good n).
  { intros kd l M Hin. destruct (mapM_In _ _ _ _ M Hin) as (p & Hp & E).
    destruct (leaf_node c (fst p) kd) as [n0|] eqn:LN; cbn [bind] in E; [|discriminate]. inversion E; subst.
    eapply leaf_good; [exact LN|]. intros _ _. apply KK. apply filter_In in Hp. tauto. }
  apply in_app_or in L as [L|L]; [eapply (G KRc); eauto|]. apply in_app_or in L as [L|L]; [eapply (G KHint); eauto|eapply (G KFc); eauto].
Qed.

Theorem rc_evaluation_string c e res : (forall k, In k (keys_of e) -> key_okb k = true) -> rc_evaluation c e = Ok res ->
  exists rho sn, build_env c (keys_of e) = Ok rho /\ eval_rc_s (view_env rho) e = Ok sn /\
                 s_result_fcx sn = option_map render (r_fcx res).
Proof.
  intros Hk. unfold rc_evaluation. destruct (build_env c (keys_of e)) as [rho|] eqn:B; cbn [bind]; [|discriminate].
  destruct (eval_rc rho e) as [n|] eqn:E; cbn [bind]; [|discriminate]. intros H; inversion H; subst.
  destruct (reported_string_is_rendering rho e n (build_env_good c _ rho Hk B) E) as (sn & E1 & E2). exists rho, sn. auto.
Qed.

(* non-vacuity: "([901]) U [902]" is written as "[901] U [902]" -- on the string and on the forest *)
Example string_builder_example :
  fcs_connect LU (Some [91;57;48;49;93]%N) KFc [57;48;50]%N None = Some [91;57;48;49;93;32;85;32;91;57;48;50;93]%N /\
  option_map render (fcb_connect LU (Some [FK [57;48;49]%N]) {| nk := KFc; st := C_NEUTRAL; nkey := [57;48;50]%N; nhint := None; nfcx := None |})
    = Some [91;57;48;49;93;32;85;32;91;57;48;50;93]%N.
Proof. split; vm_compute; reflexivity. Qed.

(* ASCII digit strings (all the lexer ever produces as a key) are digit strings for the pattern's \d *)
Lemma ascii_digit_is_d c : is_ascii_digit c = true -> is_d c = true.
Proof.
  unfold is_ascii_digit. intros H. apply andb_true_iff in H as [A B]. apply N.leb_le in A, B.
  unfold is_d, is_udigit. apply existsb_exists. exists (48%N, 57%N). split.
  - assert (E : existsb (fun p => (fst p =? 48)%N && (snd p =? 57)%N) unicode_digit_ranges = true) by (vm_compute; reflexivity).
    apply existsb_exists in E as ([a b] & Hin & E). cbn in E. apply andb_true_iff in E as [E1 E2]. apply N.eqb_eq in E1, E2. subst. exact Hin.
  - cbn. apply andb_true_iff. split; now apply N.leb_le.
Qed.

Lemma ascii_key_ok k : (match k with [] => false | _ => true end) = true -> forallb is_ascii_digit k = true -> key_okb k = true.
Proof.
  intros Hn Hd. destruct k as [|d ds]; [discriminate|]. unfold key_okb. apply forallb_forall. intros c Hc.
  rewrite forallb_forall in Hd. now apply ascii_digit_is_d, Hd.
Qed.
