(* Tie T for requirement_constraint_evaluation end to end on a small scope enumerated completely (all trees with one or two leaves over two requirement
   constraints, a hint and a format constraint x the four operators x all assignments; Gen/Gen_rctail.v, regenerated from /repo on every run): the
   reported result -- outcome, conditional flag, collected expression, hints, or the exception class -- is what rc_evaluation of Model/EvalRC.v reports. *)
From Ahb Require Import Model.Prelude Model.Grammar Gen.Gen_logic Model.EvalRC Model.EvalFC Corr.Eval Gen.Gen_rctail.

Lemma rc_rows_ok : forallb rc_check rc_rows = true.
Proof. vm_compute. reflexivity. Qed.
Lemma rc_rows_nonempty : 200 <= length rc_rows.
Proof. vm_compute. repeat constructor. Qed.
