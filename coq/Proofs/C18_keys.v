(* Lemmas for C18: key ranges, sanitize (sort / dedup), union of extracts, and the enumeration
   generate_possible_content_evaluation_results = Cartesian product (as ORDERED lists). *)
From Coq Require Import Sorting.Sorted Sorting.Permutation.
From Ahb Require Import Model.Prelude Model.Grammar Gen.Gen_logic Gen.Gen_ranges Model.Lex Model.Keys.
Set Implicit Arguments.

(* ================================================================== generic list facts *)
Lemma text_eqb_refl (a : text) : text_eqb a a = true.
Proof. unfold text_eqb. induction a as [|x a IH]; simpl; [reflexivity|]. now rewrite N.eqb_refl, IH. Qed.

Lemma text_eqb_neq (a b : text) : a <> b -> text_eqb a b = false.
Proof. intros H. destruct (text_eqb a b) eqn:E; [|reflexivity]. apply text_eqb_eq in E. contradiction. Qed.

Lemma mem_In (x : text) l : existsb (text_eqb x) l = true <-> In x l.
Proof.
  rewrite existsb_exists. split.
  - intros [y [Hy E]]. apply text_eqb_eq in E. now subst.
  - intros H. exists x. split; [assumption|apply text_eqb_refl].
Qed.

Lemma mem_notIn (x : text) l : existsb (text_eqb x) l = false <-> ~ In x l.
Proof.
  rewrite <- mem_In. destruct (existsb (text_eqb x) l); split; intros H.
  - discriminate.
  - exfalso. now apply H.
  - intros H'. discriminate.
  - reflexivity.
Qed.

Lemma In_dedup x l : In x (dedup l) <-> In x l.
Proof.
  induction l as [|y t IH]; simpl; [tauto|].
  destruct (existsb (text_eqb y) t) eqn:E.
  - rewrite IH. apply mem_In in E. split; [tauto|]. intros [H|H]; [now subst|assumption].
  - simpl. rewrite IH. tauto.
Qed.

Lemma NoDup_dedup l : NoDup (dedup l).
Proof.
  induction l as [|y t IH]; simpl; [constructor|].
  destruct (existsb (text_eqb y) t) eqn:E; [assumption|].
  constructor; [|assumption]. rewrite In_dedup. now apply mem_notIn.
Qed.

Lemma dedup_id l : NoDup l -> dedup l = l.
Proof.
  induction 1 as [|x t Hx Ht IH]; simpl; [reflexivity|].
  apply mem_notIn in Hx. now rewrite Hx, IH.
Qed.

Lemma dedup_length l : length (dedup l) <= length l.
Proof. induction l as [|y t IH]; simpl; [lia|]. destruct (existsb (text_eqb y) t); simpl; lia. Qed.

Lemma nodup_app {A} (a b : list A) : NoDup a -> NoDup b -> (forall x, In x a -> ~ In x b) -> NoDup (a ++ b).
Proof.
  induction 1 as [|x t Hx Ht IH]; simpl; intros Hb Hd; [assumption|].
  constructor.
  - rewrite in_app_iff. intros [H|H]; [contradiction|]. apply (Hd x); [now left|assumption].
  - apply IH; [assumption|]. intros y Hy. apply Hd. now right.
Qed.

Lemma nodup_flat_map {A B} (f : A -> list B) l :
  NoDup l -> (forall x, In x l -> NoDup (f x)) ->
  (forall x y z, In x l -> In y l -> In z (f x) -> In z (f y) -> x = y) -> NoDup (flat_map f l).
Proof.
  induction 1 as [|a t Ha Ht IH]; simpl; intros Hn Hd; [constructor|].
  apply nodup_app.
  - apply Hn. now left.
  - apply IH; [intros x Hx; apply Hn; now right|]. intros x y z Hx Hy. apply Hd; now right.
  - intros z Hz Hz'. apply in_flat_map in Hz'. destruct Hz' as [y [Hy Hzy]].
    assert (a = y) by (apply (Hd a y z); [now left|now right|assumption|assumption]). subst. contradiction.
Qed.

Lemma nodup_map_inj {A B} (f : A -> B) l : (forall x y, In x l -> In y l -> f x = f y -> x = y) -> NoDup l -> NoDup (map f l).
Proof.
  intros Hi. induction 1 as [|a t Ha Ht IH]; simpl; [constructor|].
  constructor.
  - rewrite in_map_iff. intros [y [E Hy]]. assert (y = a) by (apply Hi; [now right|now left|assumption]). subst. contradiction.
  - apply IH. intros x y Hx Hy. apply Hi; now right.
Qed.

Lemma filter_nil {A} (f : A -> bool) l : (forall x, In x l -> f x = false) -> filter f l = [].
Proof.
  induction l as [|x t IH]; simpl; intros H; [reflexivity|].
  rewrite (H x (or_introl eq_refl)). apply IH. intros y Hy. apply H. now right.
Qed.

Lemma filter_map_swap {A B} (f : B -> bool) (g : A -> B) l : filter f (map g l) = map g (filter (fun x => f (g x)) l).
Proof. induction l as [|x t IH]; simpl; [reflexivity|]. destruct (f (g x)); simpl; now rewrite IH. Qed.

Lemma filter_flat_map {A B} (q : B -> bool) (f : A -> list B) l : filter q (flat_map f l) = flat_map (fun x => filter q (f x)) l.
Proof. induction l as [|x t IH]; simpl; [reflexivity|]. now rewrite filter_app, IH. Qed.

Lemma flat_map_filter {A B} (p : A -> bool) (f : A -> list B) l :
  flat_map (fun x => if p x then f x else []) l = flat_map f (filter p l).
Proof. induction l as [|x t IH]; simpl; [reflexivity|]. destruct (p x); simpl; now rewrite IH. Qed.

Lemma flat_map_flat_map {A B C} (f : A -> list B) (g : B -> list C) l :
  flat_map g (flat_map f l) = flat_map (fun x => flat_map g (f x)) l.
Proof. induction l as [|x t IH]; simpl; [reflexivity|]. now rewrite flat_map_app, IH. Qed.

Lemma flat_map_map {A B C} (f : A -> B) (g : B -> list C) l : flat_map g (map f l) = flat_map (fun x => g (f x)) l.
Proof. induction l as [|x t IH]; simpl; [reflexivity|]. now rewrite IH. Qed.

Lemma flat_map_single {A B} (f : A -> B) l : flat_map (fun x => [f x]) l = map f l.
Proof. induction l as [|x t IH]; simpl; [reflexivity|]. now rewrite IH. Qed.

(* ================================================================== itertools.combinations *)
Lemma combs_0 {A} (l : list A) : combs l 0 = [[]].
Proof. destruct l; reflexivity. Qed.

Lemma combs_incl {A} (l : list A) : forall m c, In c (combs l m) -> incl c l /\ length c = m.
Proof.
  induction l as [|x t IH]; intros [|m] c H; simpl in H.
  - destruct H as [H|[]]. subst. split; [intros y []|reflexivity].
  - destruct H.
  - destruct H as [H|[]]. subst. split; [intros y []|reflexivity].
  - apply in_app_or in H. destruct H as [H|H].
    + apply in_map_iff in H. destruct H as [c' [E H]]. subst. destruct (IH _ _ H) as [Hi Hl].
      split; [|simpl; now rewrite Hl]. intros y [Hy|Hy]; [now left|right; now apply Hi].
    + destruct (IH _ _ H) as [Hi Hl]. split; [|assumption]. intros y Hy. right. now apply Hi.
Qed.

(* ================================================================== the filtered combinations are the assignments *)
Lemma distinct_small {V} (ks : list text) m (c : list (text * V)) :
  NoDup ks -> incl (map fst c) ks -> length ks < m -> distinct_keys m c = false.
Proof.
  intros Hn Hi Hl. unfold distinct_keys. apply Nat.eqb_neq.
  assert (length (dedup (map fst c)) <= length ks); [|lia].
  apply NoDup_incl_length; [apply NoDup_dedup|]. intros y Hy. apply Hi. exact (proj1 (In_dedup y (map fst c)) Hy).
Qed.

Section Core.
Variable V : Type.
Variable k : text.
Variable ks : list text.
Variable M : list (text * V).
Hypothesis HM : forall p, In p M -> In (fst p) ks.
Hypothesis Hk : ~ In k ks.
Hypothesis Hks : NoDup ks.

Lemma M_keys m c : In c (combs M m) -> incl (map fst c) ks.
Proof.
  intros H y Hy. apply in_map_iff in Hy. destruct Hy as [p [E Hp]]. subst. apply HM.
  destruct (combs_incl _ _ _ H) as [Hi _]. now apply Hi.
Qed.

(* once (k, v) is chosen, further pairs with the key k are filtered out, the others count one less *)
Lemma core_H (v : V) (vs : list V) : forall n,
  filter (fun c => distinct_keys (Datatypes.S n) ((k, v) :: c)) (combs (map (pair k) vs ++ M) n)
  = filter (distinct_keys n) (combs M n).
Proof.
  induction vs as [|v' vs IH]; intros n; simpl.
  - apply filter_ext_in. intros c Hc. unfold distinct_keys. simpl.
    assert (Hn : ~ In k (map fst c)) by (intros Hin; apply Hk; now apply (M_keys _ _ Hc)).
    apply mem_notIn in Hn. now rewrite Hn.
  - destruct n as [|n'].
    + rewrite combs_0. destruct M; reflexivity.
    + rewrite filter_app, IH. rewrite filter_nil; [reflexivity|].
      intros c Hc. apply in_map_iff in Hc. destruct Hc as [c' [E Hc']]. subst.
      destruct (combs_incl _ _ _ Hc') as [_ Hl].
      unfold distinct_keys. simpl. rewrite text_eqb_refl. simpl. apply Nat.eqb_neq.
      pose proof (dedup_length (k :: map fst c')) as Hd. simpl in Hd. rewrite map_length, Hl in Hd. simpl. lia.
Qed.

Lemma core_G (A : list (list (text * V))) (vs : list V) :
  filter (distinct_keys (length ks)) (combs M (length ks)) = A ->
  filter (distinct_keys (Datatypes.S (length ks))) (combs (map (pair k) vs ++ M) (Datatypes.S (length ks)))
  = flat_map (fun v => map (cons (k, v)) A) vs.
Proof.
  intros HA. induction vs as [|v vs IH]; simpl.
  - apply filter_nil. intros c Hc. apply distinct_small with (ks := ks); [assumption|now apply (M_keys _ _ Hc)|lia].
  - rewrite filter_app, IH. f_equal.
    rewrite filter_map_swap. f_equal. now rewrite core_H.
Qed.
End Core.

Lemma product_cons {A B} (x : A) xs (ys : list B) : product (x :: xs) ys = map (pair x) ys ++ product xs ys.
Proof. reflexivity. Qed.

Lemma product_keys {A B} (xs : list A) (ys : list B) p : In p (product xs ys) -> In (fst p) xs /\ In (snd p) ys.
Proof.
  unfold product. intros H. apply in_flat_map in H. destruct H as [x [Hx H]].
  apply in_map_iff in H. destruct H as [y [E Hy]]. subst. auto.
Qed.

Theorem filtered_combs_are_assignments {V} (keys : list text) (vals : list V) :
  NoDup keys ->
  filter (distinct_keys (length keys)) (combs (product keys vals) (length keys)) = assignments keys vals.
Proof.
  induction 1 as [|k ks Hk Hks IH]; [reflexivity|].
  rewrite product_cons. simpl length. simpl assignments.
  apply core_G; try assumption.
  intros p Hp. now apply product_keys in Hp.
Qed.

(* ================================================================== assignments: the specification side *)
Lemma assignments_spec {V} (keys : list text) (vals : list V) c :
  In c (assignments keys vals) <-> map fst c = keys /\ Forall (fun kv => In (snd kv) vals) c.
Proof.
  revert c. induction keys as [|k t IH]; intros c; simpl.
  - split.
    + intros [H|[]]. subst. split; [reflexivity|constructor].
    + intros [H _]. left. destruct c; [reflexivity|discriminate].
  - rewrite in_flat_map. split.
    + intros [v [Hv H]]. apply in_map_iff in H. destruct H as [c' [E Hc']]. subst.
      apply IH in Hc'. destruct Hc' as [Hf Hall]. split; [simpl; now rewrite Hf|]. constructor; assumption.
    + intros [Hf Hall]. destruct c as [|[k' v] c']; [discriminate|]. simpl in Hf. injection Hf as Hk Hf. subst k'.
      inversion Hall as [|? ? Hv Hall']. subst. exists v. split; [assumption|].
      apply in_map. apply IH. split; [reflexivity|assumption].
Qed.

Lemma assignments_fst {V} (keys : list text) (vals : list V) c : In c (assignments keys vals) -> map fst c = keys.
Proof. intros H. now apply assignments_spec in H. Qed.

Lemma assignments_nodup {V} (keys : list text) (vals : list V) : NoDup vals -> NoDup (assignments keys vals).
Proof.
  intros Hv. induction keys as [|k t IH]; simpl; [constructor; [intros []|constructor]|].
  apply nodup_flat_map; [assumption| |].
  - intros v _. apply nodup_map_inj; [|assumption]. intros x y _ _ E. now injection E.
  - intros x y z _ _ Hx Hy. apply in_map_iff in Hx. apply in_map_iff in Hy.
    destruct Hx as [c1 [E1 _]]. destruct Hy as [c2 [E2 _]]. subst z. now injection E2.
Qed.

Lemma length_flat_map_const {A B} (f : A -> list B) l n : (forall x, In x l -> length (f x) = n) -> length (flat_map f l) = length l * n.
Proof.
  induction l as [|x t IH]; simpl; intros H; [reflexivity|].
  rewrite app_length, (H x (or_introl eq_refl)), IH; [reflexivity|]. intros y Hy. apply H. now right.
Qed.

Lemma assignments_length {V} (keys : list text) (vals : list V) : length (assignments keys vals) = length vals ^ length keys.
Proof.
  induction keys as [|k t IH]; simpl; [reflexivity|].
  rewrite length_flat_map_const with (n := length (assignments t vals)); [now rewrite IH|].
  intros v _. apply map_length.
Qed.

(* dropping a value everywhere = filtering the value list *)
Lemma assignments_filter {V} (P : V -> bool) (keys : list text) (vals : list V) :
  filter (forallb (fun kv => P (snd kv))) (assignments keys vals) = assignments keys (filter P vals).
Proof.
  induction keys as [|k t IH]; simpl; [reflexivity|].
  rewrite filter_flat_map. rewrite <- flat_map_filter. apply flat_map_ext. intros v.
  rewrite filter_map_swap. simpl. destruct (P v); simpl.
  - f_equal. exact IH.
  - rewrite filter_nil; [reflexivity|]. intros; reflexivity.
Qed.

(* ================================================================== dict comprehensions *)
Lemma dict_set_fresh {V} (d : list (text * V)) k v : ~ In k (map fst d) -> dict_set d k v = d ++ [(k, v)].
Proof.
  induction d as [|[k' v'] t IH]; simpl; intros H; [reflexivity|].
  rewrite text_eqb_neq; [|intros E; apply H; now left]. rewrite IH; [reflexivity|]. intros Hin. apply H. now right.
Qed.

Lemma dict_fold_nodup {V} (l : list (text * V)) : forall acc,
  NoDup (map fst acc ++ map fst l) ->
  fold_left (fun d kv => dict_set d (fst kv) (snd kv)) l acc = acc ++ l.
Proof.
  induction l as [|[k v] t IH]; intros acc H; simpl; [now rewrite app_nil_r|].
  simpl in H. assert (Hk : ~ In k (map fst acc)).
  { intros Hin. apply NoDup_remove_2 in H. apply H. apply in_or_app. now left. }
  rewrite dict_set_fresh by assumption. rewrite IH; [now rewrite <- app_assoc|].
  rewrite map_app. simpl. rewrite <- app_assoc. exact H.
Qed.

Lemma dict_build_nodup {V} (l : list (text * V)) : NoDup (map fst l) -> dict_build l = l.
Proof. intros H. unfold dict_build. now rewrite dict_fold_nodup. Qed.

Lemma dict_of_nodup {V} dummy (l : list (text * V)) : NoDup (map fst l) -> ~ In dummy (map fst l) -> dict_of dummy l = l.
Proof.
  intros Hn Hd. unfold dict_of.
  assert (E : filter (fun kv => negb (text_eqb (fst kv) dummy)) l = l).
  { clear Hn. induction l as [|[k v] t IH]; simpl; [reflexivity|]. simpl in Hd.
    rewrite text_eqb_neq; [|intros E; apply Hd; now left]. simpl. rewrite IH; [reflexivity|]. intros Hin. apply Hd. now right. }
  rewrite E. now apply dict_build_nodup.
Qed.

Lemma hints_of_nodup hs : NoDup hs -> hints_of hs = map (fun k => (k, t_hinweis ++ k)) hs.
Proof.
  intros H. unfold hints_of. apply dict_build_nodup. rewrite map_map. simpl. now rewrite map_id.
Qed.

(* ================================================================== generate = cartesian *)
Lemma possible_fcs_nonempty fcs : fcs <> [] -> NoDup fcs -> possible_fcs fcs = assignments fcs fc_values.
Proof. intros Hne Hn. unfold possible_fcs. destruct fcs; [now contradiction Hne|]. now apply filtered_combs_are_assignments. Qed.
Lemma possible_rcs_nonempty rcs : rcs <> [] -> NoDup rcs -> possible_rcs rcs = assignments rcs all_cfv.
Proof. intros Hne Hn. unfold possible_rcs. destruct rcs; [now contradiction Hne|]. now apply filtered_combs_are_assignments. Qed.

Lemma dicts_id {V} dummy (keys : list text) (vals : list V) : NoDup keys -> ~ In dummy keys ->
  map (dict_of dummy) (assignments keys vals) = assignments keys vals.
Proof.
  intros Hn Hd. rewrite <- (map_id (assignments keys vals)) at 2. apply map_ext_in. intros c Hc.
  apply assignments_fst in Hc. apply dict_of_nodup; now rewrite Hc.
Qed.

Lemma possible_fcs_dicts fcs : NoDup fcs -> ~ In fc_dummy fcs ->
  map (dict_of fc_dummy) (possible_fcs fcs) = assignments fcs fc_values.
Proof.
  intros Hn Hd. destruct fcs as [|k t]; [reflexivity|].
  rewrite possible_fcs_nonempty; [|discriminate|assumption]. now apply dicts_id.
Qed.

Lemma possible_rcs_dicts rcs : NoDup rcs -> ~ In rc_dummy rcs ->
  map (dict_of rc_dummy) (possible_rcs rcs) = assignments rcs all_cfv.
Proof.
  intros Hn Hd. destruct rcs as [|k t]; [reflexivity|].
  rewrite possible_rcs_nonempty; [|discriminate|assumption]. now apply dicts_id.
Qed.

Lemma has_neutral_forallb d : negb (has_neutral d) = forallb (fun kv : text * cfv => negb (cfv_eqb (snd kv) C_NEUTRAL)) d.
Proof. unfold has_neutral. induction d as [|x t IH]; simpl; [reflexivity|]. now rewrite negb_orb, IH. Qed.

Lemma non_neutral_values : filter (fun v => negb (cfv_eqb v C_NEUTRAL)) all_cfv = rc_values.
Proof. reflexivity. Qed.

Lemma flat_map_unless {A B} (p : A -> bool) (g : A -> B) l :
  flat_map (fun x => if p x then [] else [g x]) l = map g (filter (fun x => negb (p x)) l).
Proof. induction l as [|x t IH]; simpl; [reflexivity|]. destruct (p x); simpl; now rewrite IH. Qed.

Definition gen_body (hs : list text) (f : list (text * bool)) (r : list (text * cfv)) : list gen_result :=
  if has_neutral r then [] else [{| g_hints := hints_of hs; g_fc := f; g_rc := r |}].

Lemma generate_unfold hs fcs rcs : fcs <> [] \/ rcs <> [] ->
  generate hs fcs rcs =
  flat_map (fun f => flat_map (fun r => gen_body hs f r) (map (dict_of rc_dummy) (possible_rcs rcs)))
           (map (dict_of fc_dummy) (possible_fcs fcs)).
Proof.
  intros Hne. unfold generate.
  transitivity (flat_map (fun fr : list (text * bool) * list (text * cfv) => gen_body hs (dict_of fc_dummy (fst fr)) (dict_of rc_dummy (snd fr)))
                         (product (possible_fcs fcs) (possible_rcs rcs))).
  - destruct fcs, rcs; try reflexivity. destruct Hne as [H|H]; now contradiction H.
  - unfold product. rewrite flat_map_flat_map, flat_map_map. apply flat_map_ext. intros f.
    now rewrite !flat_map_map.
Qed.

Theorem generate_eq_cartesian hs fcs rcs :
  NoDup hs -> NoDup fcs -> NoDup rcs -> ~ In fc_dummy fcs -> ~ In rc_dummy rcs -> fcs <> [] \/ rcs <> [] ->
  generate hs fcs rcs = cartesian hs fcs rcs.
Proof.
  intros Hh Hf Hr Hdf Hdr Hne.
  rewrite generate_unfold by assumption.
  rewrite possible_fcs_dicts, possible_rcs_dicts by assumption.
  unfold cartesian. apply flat_map_ext. intros f.
  unfold gen_body. rewrite hints_of_nodup by assumption.
  rewrite <- (assignments_filter (fun v => negb (cfv_eqb v C_NEUTRAL)) rcs all_cfv : _ = assignments rcs rc_values).
  rewrite flat_map_unless. f_equal. apply filter_ext. intros r. apply has_neutral_forallb.
Qed.

Theorem generate_no_keys hs : generate hs [] [] = [].
Proof. reflexivity. Qed.

Lemma cartesian_nodup hs fcs rcs : NoDup (cartesian hs fcs rcs).
Proof.
  unfold cartesian. apply nodup_flat_map.
  - apply assignments_nodup. repeat constructor; simpl; intuition discriminate.
  - intros f _. apply nodup_map_inj; [intros x y _ _ E; now injection E|].
    apply assignments_nodup. repeat constructor; simpl; intuition discriminate.
  - intros x y z _ _ Hx Hy. apply in_map_iff in Hx. apply in_map_iff in Hy.
    destruct Hx as [r1 [E1 _]]. destruct Hy as [r2 [E2 _]]. subst z. now injection E2.
Qed.

Lemma cartesian_length hs fcs rcs : length (cartesian hs fcs rcs) = 2 ^ length fcs * 3 ^ length rcs.
Proof.
  unfold cartesian. rewrite length_flat_map_const with (n := 3 ^ length rcs).
  - now rewrite assignments_length.
  - intros f _. now rewrite map_length, assignments_length.
Qed.

(* every total assignment occurs: fc values Boolean, rc values FULFILLED / UNFULFILLED / UNKNOWN *)
Lemma cartesian_spec hs fcs rcs res :
  In res (cartesian hs fcs rcs) <->
  g_hints res = map (fun k => (k, t_hinweis ++ k)) hs /\ map fst (g_fc res) = fcs /\ map fst (g_rc res) = rcs /\
  Forall (fun kv => snd kv <> C_NEUTRAL) (g_rc res).
Proof.
  unfold cartesian. rewrite in_flat_map. split.
  - intros [f [Hf H]]. apply in_map_iff in H. destruct H as [r [E Hr]]. subst res. simpl.
    apply assignments_spec in Hf. apply assignments_spec in Hr. destruct Hf as [Hf _]. destruct Hr as [Hr Hv].
    repeat split; try assumption. eapply Forall_impl; [|exact Hv]. simpl. intros [k v] Hin E. simpl in *. subst v.
    destruct Hin as [H|[H|[H|[]]]]; discriminate.
  - intros [Hh [Hf [Hr Hv]]]. destruct res as [h f r]. simpl in *. subst h. exists f. split.
    + apply assignments_spec. split; [assumption|]. apply Forall_forall. intros [k v] _. simpl. destruct v; auto.
    + apply in_map. apply assignments_spec. split; [assumption|]. eapply Forall_impl; [|exact Hv].
      intros [k v] Hn. simpl in *. destruct v; auto; exfalso; now apply Hn.
Qed.

(* ================================================================== number ranges (generated bounds) *)
Lemma digits_val_digits l : forall acc n, digits_val acc l = Ok n -> forallb is_ascii_digit l = true.
Proof.
  induction l as [|c t IH]; intros acc n H; simpl in *; [reflexivity|].
  destruct (is_ascii_digit c); [|discriminate]. simpl. eapply IH. exact H.
Qed.

Lemma digits_not_P k n : key_int k = Ok n -> ends_with 80%N k = false.
Proof.
  intros H. unfold key_int in H. destruct k as [|c t]; [discriminate|].
  apply digits_val_digits in H. unfold ends_with.
  destruct (rev (c :: t)) as [|x r] eqn:E; [reflexivity|].
  assert (Hx : In x (c :: t)) by (apply in_rev; rewrite E; now left).
  rewrite forallb_forall in H. apply H in Hx. unfold is_ascii_digit in Hx.
  apply andb_true_iff in Hx. destruct Hx as [H1 H2]. apply N.leb_le in H1, H2. apply N.eqb_neq. lia.
Qed.

Lemma key_int_exn k e : key_int k = Exn e -> e = ValueErr.
Proof.
  unfold key_int. destruct k as [|c t]; [intros H; now injection H|].
  generalize 0%Z. generalize (c :: t). intros l. induction l as [|d l IH]; intros acc H; simpl in H; [discriminate|].
  destruct (is_ascii_digit d); [now apply IH in H|now injection H].
Qed.

(* the decision on the integer value, read off the generated definition *)
Theorem ranges_partition k n : key_int k = Ok n ->
  (category_of k = Ok CatRc <-> (1 <= n <= 499 \/ 2000 <= n <= 2499)%Z) /\
  (category_of k = Ok CatHint <-> (500 <= n <= 900)%Z) /\
  (category_of k = Ok CatFc <-> (901 <= n <= 999)%Z) /\
  (category_of k = Exn ValueErr <-> (n <= 0 \/ 1000 <= n <= 1999 \/ 2500 <= n)%Z) /\
  ((exists c, category_of k = Ok c) \/ category_of k = Exn ValueErr).
Proof.
  intros H. unfold category_of, node_type_of_key. rewrite (digits_not_P _ H), H.
  repeat match goal with |- context [Z.leb ?a ?b] => destruct (Z.leb_spec a b) end; simpl;
    (repeat split; try (intros; discriminate); try (intros; lia); try (intros; reflexivity); try (left; eexists; reflexivity); try (right; reflexivity)).
Qed.

Theorem category_total k :
  (exists n, key_int k = Ok n) \/
  (ends_with 80%N k = true /\ category_of k = Exn NotImpl) \/
  (key_int k = Exn ValueErr /\ category_of k = Exn ValueErr).
Proof.
  destruct (key_int k) as [n|e] eqn:H; [left; now exists n|right].
  pose proof (key_int_exn _ H) as He. subst e.
  unfold category_of, node_type_of_key. rewrite H.
  destruct (ends_with 80%N k); [left|right]; split; reflexivity.
Qed.

Lemma category_numeral k c : category_of k = Ok c -> exists n, key_int k = Ok n.
Proof.
  intros H. destruct (category_total k) as [Hn|[[_ E]|[_ E]]]; [assumption| |]; rewrite E in H; discriminate.
Qed.

Lemma category_not_dummy k c : category_of k = Ok c -> k <> fc_dummy /\ k <> rc_dummy.
Proof. intros H. split; intros E; subst k; vm_compute in H; discriminate. Qed.

(* ================================================================== insertion sort *)
Section SortFacts.
Variable leb : text -> text -> bool.
Hypothesis leb_total : forall a b, leb a b = true \/ leb b a = true.
Hypothesis leb_trans : forall a b c, leb a b = true -> leb b c = true -> leb a c = true.
Definition le_of (a b : text) : Prop := leb a b = true.
Definition lt_of (a b : text) : Prop := leb b a = false.
(* the sort key separates the elements of l *)
Definition antisym_on (l : list text) : Prop := forall a b, In a l -> In b l -> leb a b = true -> leb b a = true -> a = b.

Lemma insert_perm x l : Permutation (insert leb x l) (x :: l).
Proof.
  induction l as [|y t IH]; simpl; [reflexivity|].
  destruct (leb x y); [reflexivity|]. rewrite IH. apply perm_swap.
Qed.
Lemma isort_perm l : Permutation (isort leb l) l.
Proof. induction l as [|x t IH]; simpl; [reflexivity|]. rewrite insert_perm. now constructor. Qed.

Lemma In_isort x l : In x (isort leb l) <-> In x l.
Proof. split; apply Permutation_in; [apply isort_perm|symmetry; apply isort_perm]. Qed.

Lemma insert_sorted x l : StronglySorted le_of l -> StronglySorted le_of (insert leb x l).
Proof.
  induction 1 as [|y t Ht IH Hy]; simpl; [repeat constructor|].
  destruct (leb x y) eqn:E.
  - constructor; [now constructor|]. constructor; [exact E|].
    rewrite Forall_forall in *. intros z Hz. apply leb_trans with y; [exact E|now apply Hy].
  - constructor; [assumption|]. rewrite Forall_forall in *. intros z Hz.
    apply (Permutation_in _ (insert_perm x t)) in Hz. destruct Hz as [Hz|Hz]; [|now apply Hy].
    subst z. destruct (leb_total x y) as [H|H]; [congruence|exact H].
Qed.
Lemma isort_sorted l : StronglySorted le_of (isort leb l).
Proof. induction l as [|x t IH]; simpl; [constructor|now apply insert_sorted]. Qed.

Lemma sorted_strict l : StronglySorted le_of l -> NoDup l -> antisym_on l -> StronglySorted lt_of l.
Proof.
  induction 1 as [|y t Ht IH Hy]; intros Hn Ha; [constructor|].
  inversion Hn as [|? ? Hy' Hn']. subst.
  constructor.
  - apply IH; [assumption|]. intros a b Ha' Hb'. apply Ha; now right.
  - rewrite Forall_forall in *. intros z Hz. unfold lt_of. destruct (leb z y) eqn:E; [|reflexivity].
    assert (y = z) by (apply Ha; [now left|now right|now apply Hy|exact E]). subst. contradiction.
Qed.

Lemma lt_irrefl a : ~ lt_of a a.
Proof. unfold lt_of. destruct (leb_total a a) as [H|H]; congruence. Qed.
Lemma lt_asym a b : lt_of a b -> lt_of b a -> False.
Proof. unfold lt_of. destruct (leb_total a b) as [H|H]; congruence. Qed.

Lemma strict_sorted_unique l1 : forall l2, StronglySorted lt_of l1 -> StronglySorted lt_of l2 ->
  (forall x, In x l1 <-> In x l2) -> l1 = l2.
Proof.
  induction l1 as [|x1 t1 IH]; intros [|x2 t2] H1 H2 Hin.
  - reflexivity.
  - exfalso. apply (Hin x2). now left.
  - exfalso. apply (Hin x1). now left.
  - inversion H1 as [|? ? S1 F1]. inversion H2 as [|? ? S2 F2]. subst. rewrite Forall_forall in F1, F2.
    assert (E : x1 = x2).
    { destruct (proj1 (Hin x1) (or_introl eq_refl)) as [E|E1]; [now symmetry|].
      destruct (proj2 (Hin x2) (or_introl eq_refl)) as [E|E2]; [assumption|].
      exfalso. apply (lt_asym (F1 _ E2) (F2 _ E1)). }
    subst x2. f_equal. apply IH; [assumption|assumption|]. intros y. split; intros Hy.
    + destruct (proj1 (Hin y) (or_intror Hy)) as [E|E]; [|assumption]. subst y. exfalso. apply (lt_irrefl (F1 _ Hy)).
    + destruct (proj2 (Hin y) (or_intror Hy)) as [E|E]; [|assumption]. subst y. exfalso. apply (lt_irrefl (F2 _ Hy)).
Qed.

Lemma sorted_dedup_strict l : antisym_on l -> StronglySorted lt_of (isort leb (dedup l)).
Proof.
  intros Ha. apply sorted_strict.
  - apply isort_sorted.
  - apply (Permutation_NoDup (l := dedup l)); [symmetry; apply isort_perm|apply NoDup_dedup].
  - intros a b Hin1 Hin2. apply Ha; [apply In_dedup; now apply In_isort|apply In_dedup; now apply In_isort].
Qed.

(* the sanitized list depends only on the SET of keys, provided the sort key separates them *)
Lemma sort_canon l l' : (forall x, In x l <-> In x l') -> antisym_on l -> isort leb (dedup l) = isort leb (dedup l').
Proof.
  intros Hin Ha. apply strict_sorted_unique.
  - now apply sorted_dedup_strict.
  - apply sorted_dedup_strict. intros a b H1 H2. apply Ha; now apply Hin.
  - intros x. rewrite !In_isort, !In_dedup. apply Hin.
Qed.
End SortFacts.

(* ================================================================== the two sort keys *)
Lemma num_leb_total a b : num_leb a b = true \/ num_leb b a = true.
Proof. unfold num_leb. destruct (Z.leb_spec (kval a) (kval b)); [now left|right]. apply Z.leb_le. lia. Qed.
Lemma num_leb_trans a b c : num_leb a b = true -> num_leb b c = true -> num_leb a c = true.
Proof. unfold num_leb. rewrite !Z.leb_le. lia. Qed.

Lemma text_leb_total a : forall b, text_leb a b = true \/ text_leb b a = true.
Proof.
  induction a as [|x a IH]; intros [|y b]; simpl; auto.
  destruct (N.ltb_spec x y), (N.ltb_spec y x); auto; lia.
Qed.
Lemma text_leb_trans a : forall b c, text_leb a b = true -> text_leb b c = true -> text_leb a c = true.
Proof.
  induction a as [|x a IH]; intros [|y b] [|z c]; simpl; auto; try discriminate.
  destruct (N.ltb_spec x y), (N.ltb_spec y x), (N.ltb_spec y z), (N.ltb_spec z y), (N.ltb_spec x z), (N.ltb_spec z x);
    try discriminate; try reflexivity; try lia; intros; eauto.
Qed.
Lemma text_leb_antisym a : forall b, text_leb a b = true -> text_leb b a = true -> a = b.
Proof.
  induction a as [|x a IH]; intros [|y b]; simpl; auto; try discriminate.
  destruct (N.ltb_spec x y), (N.ltb_spec y x); try discriminate; try lia.
  intros H1 H2. f_equal; [lia|now apply IH].
Qed.

(* interpretation I-C18: distinct keys have distinct integer values (no "01" next to "1") *)
Definition key_inj (l : list text) : Prop := forall a b, In a l -> In b l -> kval a = kval b -> a = b.
Definition num_lt (a b : text) : Prop := (kval a < kval b)%Z.
Definition text_lt (a b : text) : Prop := text_leb b a = false.

Lemma key_inj_antisym l : key_inj l -> antisym_on num_leb l.
Proof. intros H a b Ha Hb H1 H2. apply H; try assumption. unfold num_leb in *. apply Z.leb_le in H1, H2. lia. Qed.
Lemma text_antisym l : antisym_on text_leb l.
Proof. intros a b _ _. apply text_leb_antisym. Qed.
Lemma key_inj_incl l l' : incl l' l -> key_inj l -> key_inj l'.
Proof. intros Hi H a b Ha Hb. apply H; now apply Hi. Qed.

Lemma sort_num_strict l : key_inj l -> StronglySorted num_lt (isort num_leb (dedup l)).
Proof.
  intros H. pose proof (sorted_dedup_strict num_leb_total num_leb_trans (key_inj_antisym H)) as S.
  eapply StronglySorted_ind with (P := StronglySorted num_lt); [constructor| |exact S].
  intros a t _ IH F. constructor; [assumption|]. eapply Forall_impl; [|exact F].
  intros b Hb. unfold lt_of, num_leb in Hb. unfold num_lt. apply Z.leb_gt in Hb. lia.
Qed.
Lemma sort_num_weak l : StronglySorted (fun a b => (kval a <= kval b)%Z) (isort num_leb (dedup l)).
Proof.
  pose proof (@isort_sorted num_leb num_leb_total num_leb_trans (dedup l)) as S.
  eapply StronglySorted_ind with (P := StronglySorted (fun a b => (kval a <= kval b)%Z)); [constructor| |exact S].
  intros a t _ IH F. constructor; [assumption|]. eapply Forall_impl; [|exact F].
  intros b Hb. unfold le_of, num_leb in Hb. now apply Z.leb_le in Hb.
Qed.
Lemma sort_str_strict l : StronglySorted text_lt (sort_str l).
Proof. exact (sorted_dedup_strict text_leb_total text_leb_trans (@text_antisym l)). Qed.

Lemma sorted_nodup {A} (R : A -> A -> Prop) l : (forall a, ~ R a a) -> StronglySorted R l -> NoDup l.
Proof.
  intros Hirr. induction 1 as [|a t Ht IH F]; constructor; [|assumption].
  intros Hin. rewrite Forall_forall in F. apply (Hirr a). now apply F.
Qed.

Lemma NoDup_sort leb l : NoDup (isort leb (dedup l)).
Proof. apply (Permutation_NoDup (l := dedup l)); [symmetry; apply isort_perm|apply NoDup_dedup]. Qed.
Lemma In_sort leb x l : In x (isort leb (dedup l)) <-> In x l.
Proof. now rewrite In_isort, In_dedup. Qed.

(* ================================================================== sanitize *)
Definition numk (k : text) : Prop := exists n, key_int k = Ok n.
Definition all_num (r : extract_record) : Prop :=
  Forall numk (hint_keys r) /\ Forall numk (fc_keys r) /\ Forall numk (rc_keys r).
Definition sanitize_spec (r : extract_record) : extract_record :=
  {| hint_keys := isort num_leb (dedup (hint_keys r)); fc_keys := isort num_leb (dedup (fc_keys r));
     rc_keys := isort num_leb (dedup (rc_keys r)); pkg_keys := sort_str (pkg_keys r); time_keys := sort_str (time_keys r) |}.

Lemma mapM_ok {A B} (f : A -> result B) l : Forall (fun x => exists y, f x = Ok y) l -> exists ys, mapM f l = Ok ys.
Proof.
  induction 1 as [|x t [y Hy] Ht [ys IH]]; simpl; [now exists []|]. rewrite Hy, IH. simpl. now eexists.
Qed.
Lemma mapM_inv {A B} (f : A -> result B) l ys : mapM f l = Ok ys -> Forall (fun x => exists y, f x = Ok y) l.
Proof.
  revert ys. induction l as [|x t IH]; intros ys H; simpl in H; [constructor|].
  destruct (f x) as [y|e] eqn:E; [|discriminate]. simpl in H. destruct (mapM f t) as [ys'|e] eqn:E'; [|discriminate].
  constructor; [now exists y|now apply (IH ys')].
Qed.

Lemma sort_num_ok l : Forall numk l -> sort_num l = Ok (isort num_leb (dedup l)).
Proof.
  intros H. unfold sort_num.
  assert (Hd : Forall numk (dedup l)).
  { rewrite Forall_forall in *. intros x Hx. apply H. now apply In_dedup. }
  destruct (mapM_ok key_int Hd) as [ys E]. now rewrite E.
Qed.
Lemma sort_num_inv l l' : sort_num l = Ok l' -> Forall numk l /\ l' = isort num_leb (dedup l).
Proof.
  unfold sort_num. intros H. destruct (mapM key_int (dedup l)) as [ys|e] eqn:E; [|discriminate]. simpl in H.
  split; [|now injection H]. apply mapM_inv in E. rewrite Forall_forall in *. intros x Hx. apply E. now apply In_dedup.
Qed.

Lemma sanitize_ok r : all_num r -> sanitize r = Ok (sanitize_spec r).
Proof. intros [H1 [H2 H3]]. unfold sanitize. now rewrite !sort_num_ok by assumption. Qed.
Lemma sanitize_inv r r' : sanitize r = Ok r' -> all_num r /\ r' = sanitize_spec r.
Proof.
  unfold sanitize. intros H.
  destruct (sort_num (hint_keys r)) as [h|e] eqn:E1; [|discriminate].
  destruct (sort_num (fc_keys r)) as [f|e] eqn:E2; [|discriminate].
  destruct (sort_num (rc_keys r)) as [q|e] eqn:E3; [|discriminate]. simpl in H.
  apply sort_num_inv in E1, E2, E3. destruct E1 as [A1 B1], E2 as [A2 B2], E3 as [A3 B3]. subst.
  split; [now repeat split|]. now injection H.
Qed.

(* ================================================================== extraction *)
Definition category_eqb (a b : category) : bool :=
  match a, b with CatRc, CatRc | CatHint, CatHint | CatFc, CatFc => true | _, _ => false end.
Definition has_cat (c : category) (k : text) : bool :=
  match category_of k with Ok c' => category_eqb c c' | Exn _ => false end.
Definition sel (c : category) (ks : list text) : list text := filter (has_cat c) ks.
Definition okk (k : text) : Prop := exists c, category_of k = Ok c.
Definition pure_extract (ks : list text) : extract_record :=
  {| hint_keys := sel CatHint ks; fc_keys := sel CatFc ks; rc_keys := sel CatRc ks; pkg_keys := []; time_keys := [] |}.

Lemma categorise_spec ks : forall r r',
  categorise ks r = Ok r' <-> Forall okk ks /\ r' = concat_extract r (pure_extract ks).
Proof.
  induction ks as [|k t IH]; intros r r'; simpl.
  - unfold concat_extract. simpl. rewrite !app_nil_r. destruct r. simpl. split.
    + intros H. injection H as H. split; [constructor|now symmetry].
    + intros [_ H]. now rewrite H.
  - destruct (category_of k) as [c|e] eqn:E; simpl.
    + rewrite IH. split; intros [Hf Hr]; (split; [|]).
      * constructor; [now exists c|assumption].
      * subst r'. unfold concat_extract, pure_extract, sel, has_cat. simpl. rewrite E.
        destruct c; simpl; f_equal; now rewrite <- app_assoc.
      * now inversion Hf.
      * subst r'. unfold concat_extract, pure_extract, sel, has_cat. simpl. rewrite E.
        destruct c; simpl; f_equal; now rewrite <- app_assoc.
    + split; [discriminate|]. intros [Hf _]. inversion Hf as [|? ? [c Hc] _]. congruence.
Qed.

Definition extract_spec (e : expr) : extract_record :=
  {| hint_keys := sel CatHint (cond_keys_of e); fc_keys := sel CatFc (cond_keys_of e); rc_keys := sel CatRc (cond_keys_of e);
     pkg_keys := pkg_keys_of e; time_keys := time_keys_of e |}.

Lemma extract_iff e r : extract e = Ok r <-> Forall okk (cond_keys_of e) /\ r = extract_spec e.
Proof.
  unfold extract. rewrite categorise_spec. unfold concat_extract, extract_spec. simpl. now rewrite !app_nil_r.
Qed.

Lemma cond_keys_bin b x y : cond_keys_of (EBin b x y) = cond_keys_of x ++ cond_keys_of y.
Proof. unfold cond_keys_of. simpl. apply flat_map_app. Qed.
Lemma pkg_keys_bin b x y : pkg_keys_of (EBin b x y) = pkg_keys_of x ++ pkg_keys_of y.
Proof. unfold pkg_keys_of. simpl. apply flat_map_app. Qed.
Lemma time_keys_bin b x y : time_keys_of (EBin b x y) = time_keys_of x ++ time_keys_of y.
Proof. unfold time_keys_of. simpl. apply flat_map_app. Qed.

Lemma extract_spec_bin b x y : extract_spec (EBin b x y) = concat_extract (extract_spec x) (extract_spec y).
Proof.
  unfold extract_spec, concat_extract, sel. simpl.
  now rewrite cond_keys_bin, pkg_keys_bin, time_keys_bin, !filter_app.
Qed.

(* unsanitized: the extract of a composed expression is the concatenation of the extracts of its parts *)
Theorem extract_union_raw b x y r :
  extract (EBin b x y) = Ok r <-> exists rx ry, extract x = Ok rx /\ extract y = Ok ry /\ r = concat_extract rx ry.
Proof.
  rewrite extract_iff, cond_keys_bin, Forall_app, extract_spec_bin. split.
  - intros [[Hx Hy] Hr]. exists (extract_spec x), (extract_spec y). rewrite !extract_iff. auto.
  - intros [rx [ry [Hx [Hy Hr]]]]. apply extract_iff in Hx, Hy. destruct Hx as [Hx Ex], Hy as [Hy Ey]. subst. auto.
Qed.

Lemma sel_numk c ks : Forall numk (sel c ks).
Proof.
  apply Forall_forall. intros k Hk. apply filter_In in Hk. destruct Hk as [_ Hk]. unfold has_cat in Hk.
  destruct (category_of k) as [c'|e] eqn:E; [|discriminate]. now apply category_numeral with c'.
Qed.
Lemma extract_spec_num e : all_num (extract_spec e).
Proof. repeat split; apply sel_numk. Qed.

Lemma extract_tree_iff e r : extract_tree e true = Ok r <-> Forall okk (cond_keys_of e) /\ r = sanitize_spec (extract_spec e).
Proof.
  unfold extract_tree. split.
  - intros H. destruct (extract e) as [u|err] eqn:E; [|discriminate]. simpl in H. apply extract_iff in E.
    destruct E as [Hf Eu]. subst u. rewrite sanitize_ok in H by apply extract_spec_num. split; [assumption|now injection H].
  - intros [Hf Hr]. rewrite (proj2 (extract_iff e _) (conj Hf eq_refl)). simpl. rewrite sanitize_ok by apply extract_spec_num. now subst.
Qed.

Lemma sel_In c ks k : In k (sel c ks) <-> In k ks /\ category_of k = Ok c.
Proof.
  unfold sel. rewrite filter_In. unfold has_cat. split; intros [H1 H2]; (split; [assumption|]).
  - destruct (category_of k) as [c'|]; [|discriminate]. destruct c, c'; try discriminate; reflexivity.
  - rewrite H2. now destruct c.
Qed.

Lemma sel_incl c ks : incl (sel c ks) ks.
Proof. intros k Hk. now apply sel_In in Hk. Qed.

Lemma In_cond_keys k e : In k (cond_keys_of e) <-> In (AKey k) (atoms e).
Proof.
  unfold cond_keys_of. rewrite in_flat_map. split.
  - intros [a [Ha Hk]]. destruct a; simpl in Hk; try contradiction. destruct Hk as [Hk|[]]. now subst.
  - intros H. exists (AKey k). split; [assumption|now left].
Qed.
Lemma In_pkg_keys k e : In k (pkg_keys_of e) <-> exists rep, In (APkg k rep) (atoms e).
Proof.
  unfold pkg_keys_of. rewrite in_flat_map. split.
  - intros [a [Ha Hk]]. destruct a; simpl in Hk; try contradiction. destruct Hk as [Hk|[]]. subst. eexists. eassumption.
  - intros [rep H]. exists (APkg k rep). split; [assumption|now left].
Qed.
Lemma In_time_keys k e : In k (time_keys_of e) <-> In (ATime k) (atoms e).
Proof.
  unfold time_keys_of. rewrite in_flat_map. split.
  - intros [a [Ha Hk]]. destruct a; simpl in Hk; try contradiction. destruct Hk as [Hk|[]]. now subst.
  - intros H. exists (ATime k). split; [assumption|now left].
Qed.

(* every key of the expression is in exactly one list, exactly once, ascending *)
Theorem extract_sorted_nodup e r : extract_tree e true = Ok r ->
  (forall k, In (AKey k) (atoms e) ->
     exists c, category_of k = Ok c /\
       (In k (rc_keys r) <-> c = CatRc) /\ (In k (hint_keys r) <-> c = CatHint) /\ (In k (fc_keys r) <-> c = CatFc)) /\
  (forall k, In k (rc_keys r) \/ In k (hint_keys r) \/ In k (fc_keys r) -> In (AKey k) (atoms e)) /\
  (forall k, In k (pkg_keys r) <-> exists rep, In (APkg k rep) (atoms e)) /\
  (forall k, In k (time_keys r) <-> In (ATime k) (atoms e)) /\
  NoDup (rc_keys r) /\ NoDup (hint_keys r) /\ NoDup (fc_keys r) /\
  StronglySorted (fun a b => (kval a <= kval b)%Z) (rc_keys r) /\
  StronglySorted (fun a b => (kval a <= kval b)%Z) (hint_keys r) /\
  StronglySorted (fun a b => (kval a <= kval b)%Z) (fc_keys r) /\
  StronglySorted text_lt (pkg_keys r) /\ StronglySorted text_lt (time_keys r) /\
  (key_inj (cond_keys_of e) ->
     StronglySorted num_lt (rc_keys r) /\ StronglySorted num_lt (hint_keys r) /\ StronglySorted num_lt (fc_keys r)).
Proof.
  intros H. apply extract_tree_iff in H. destruct H as [Hf Hr]. subst r. simpl.
  repeat split; try apply NoDup_sort; try apply sort_num_weak; try apply sort_str_strict.
  - intros k Hk. apply In_cond_keys in Hk. rewrite Forall_forall in Hf. destruct (Hf k Hk) as [c Hc].
    exists c. split; [assumption|]. rewrite !In_sort, !sel_In.
    repeat split; try (intros [_ E]; congruence); intros; subst; auto.
  - intros k. rewrite !In_sort, !sel_In, <- In_cond_keys. tauto.
  - unfold sort_str. rewrite In_sort. apply In_pkg_keys.
  - unfold sort_str. rewrite In_sort. intros [rep Hrep]. apply In_pkg_keys. now exists rep.
  - unfold sort_str. rewrite In_sort. apply In_time_keys.
  - unfold sort_str. rewrite In_sort. apply In_time_keys.
  - apply sort_num_strict. eapply key_inj_incl; [apply sel_incl|eassumption].
  - apply sort_num_strict. eapply key_inj_incl; [apply sel_incl|eassumption].
  - apply sort_num_strict. eapply key_inj_incl; [apply sel_incl|eassumption].
Qed.

(* ================================================================== union of sanitized extracts *)
Lemma sort_num_app la lb : key_inj (la ++ lb) ->
  isort num_leb (dedup (la ++ lb)) = isort num_leb (dedup (isort num_leb (dedup la) ++ isort num_leb (dedup lb))).
Proof.
  intros H. apply (sort_canon num_leb_total num_leb_trans); [|now apply key_inj_antisym].
  intros x. now rewrite !in_app_iff, !In_sort.
Qed.
Lemma sort_str_app la lb : sort_str (la ++ lb) = sort_str (sort_str la ++ sort_str lb).
Proof.
  unfold sort_str. apply (sort_canon text_leb_total text_leb_trans); [|apply text_antisym].
  intros x. now rewrite !in_app_iff, !In_sort.
Qed.

Lemma sanitize_spec_concat a b :
  key_inj (hint_keys a ++ hint_keys b) -> key_inj (fc_keys a ++ fc_keys b) -> key_inj (rc_keys a ++ rc_keys b) ->
  sanitize_spec (concat_extract a b) = sanitize_spec (concat_extract (sanitize_spec a) (sanitize_spec b)).
Proof.
  intros H1 H2 H3. unfold sanitize_spec, concat_extract. simpl.
  f_equal; try (now apply sort_num_app); apply sort_str_app.
Qed.

Lemma numk_sort l : Forall numk l -> Forall numk (isort num_leb (dedup l)).
Proof. rewrite !Forall_forall. intros H x Hx. apply H. now apply In_sort in Hx. Qed.
Lemma all_num_concat_spec a b : all_num a -> all_num b -> all_num (concat_extract (sanitize_spec a) (sanitize_spec b)).
Proof.
  intros [A1 [A2 A3]] [B1 [B2 B3]]. unfold all_num, concat_extract, sanitize_spec. simpl.
  repeat split; apply Forall_app; split; now apply numk_sort.
Qed.

Lemma key_inj_sel_app c lx ly : key_inj (lx ++ ly) -> key_inj (sel c lx ++ sel c ly).
Proof.
  apply key_inj_incl. intros k Hk. apply in_app_iff in Hk. apply in_app_iff.
  destruct Hk as [Hk|Hk]; [left|right]; now apply sel_incl in Hk.
Qed.

Theorem extract_union b x y : key_inj (cond_keys_of (EBin b x y)) ->
  (forall rx ry, extract_tree x true = Ok rx -> extract_tree y true = Ok ry -> extract_tree (EBin b x y) true = add rx ry) /\
  (forall r, extract_tree (EBin b x y) true = Ok r ->
     exists rx ry, extract_tree x true = Ok rx /\ extract_tree y true = Ok ry /\ add rx ry = Ok r).
Proof.
  intros Hinj. rewrite cond_keys_bin in Hinj.
  assert (Hcore : Forall okk (cond_keys_of x) -> Forall okk (cond_keys_of y) ->
            extract_tree (EBin b x y) true = add (sanitize_spec (extract_spec x)) (sanitize_spec (extract_spec y))).
  { intros Hx Hy. unfold add. rewrite sanitize_ok by (apply all_num_concat_spec; apply extract_spec_num).
    assert (Hxy : Forall okk (cond_keys_of (EBin b x y))) by (rewrite cond_keys_bin; apply Forall_app; now split).
    rewrite (proj2 (extract_tree_iff (EBin b x y) _) (conj Hxy eq_refl)).
    f_equal. rewrite extract_spec_bin. apply sanitize_spec_concat; simpl; now apply key_inj_sel_app. }
  split.
  - intros rx ry Hx Hy. apply extract_tree_iff in Hx, Hy. destruct Hx as [Hx Ex], Hy as [Hy Ey]. subst. now apply Hcore.
  - intros r Hr. pose proof Hr as Hr'. apply extract_tree_iff in Hr'. destruct Hr' as [Hf _].
    rewrite cond_keys_bin in Hf. apply Forall_app in Hf. destruct Hf as [Hx Hy].
    exists (sanitize_spec (extract_spec x)), (sanitize_spec (extract_spec y)).
    repeat split; try (apply extract_tree_iff; now split). rewrite <- Hcore; assumption.
Qed.

(* ================================================================== enumeration for an extracted record *)
Theorem generate_of_extract e r : extract_tree e true = Ok r -> fc_keys r <> [] \/ rc_keys r <> [] ->
  generate_of r = cartesian (hint_keys r) (fc_keys r) (rc_keys r) /\
  NoDup (generate_of r) /\ length (generate_of r) = 2 ^ length (fc_keys r) * 3 ^ length (rc_keys r).
Proof.
  intros H Hne. apply extract_tree_iff in H. destruct H as [_ Hr].
  assert (E : generate_of r = cartesian (hint_keys r) (fc_keys r) (rc_keys r)).
  { unfold generate_of. subst r. simpl in *. apply generate_eq_cartesian; try apply NoDup_sort; try assumption.
    - rewrite In_sort, sel_In. intros [_ Hc]. now apply category_not_dummy in Hc.
    - rewrite In_sort, sel_In. intros [_ Hc]. now apply category_not_dummy in Hc. }
  rewrite E. split; [reflexivity|]. split; [apply cartesian_nodup|apply cartesian_length].
Qed.

Theorem generate_is_product hs fcs rcs :
  NoDup hs -> NoDup fcs -> NoDup rcs -> ~ In fc_dummy fcs -> ~ In rc_dummy rcs -> fcs <> [] \/ rcs <> [] ->
  Permutation (generate hs fcs rcs) (cartesian hs fcs rcs) /\ NoDup (generate hs fcs rcs) /\
  length (generate hs fcs rcs) = 2 ^ length fcs * 3 ^ length rcs.
Proof.
  intros. rewrite generate_eq_cartesian by assumption.
  split; [apply Permutation_refl|]. split; [apply cartesian_nodup|apply cartesian_length].
Qed.

(* extraction succeeds exactly when every condition key is in one of the documented ranges; otherwise the exception of
   the first offending key escapes (ValueError, or NotImplementedError for a package-like key) *)
Theorem extract_accepts e : (exists r, extract e = Ok r) <-> Forall okk (cond_keys_of e).
Proof.
  split.
  - intros [r H]. now apply extract_iff in H.
  - intros H. exists (extract_spec e). now apply extract_iff.
Qed.

Lemma categorise_exn ks : forall r err, categorise ks r = Exn err ->
  exists k, In k ks /\ category_of k = Exn err.
Proof.
  induction ks as [|k t IH]; intros r err H; simpl in H; [discriminate|].
  destruct (category_of k) as [c|e'] eqn:E; simpl in H.
  - destruct (IH _ _ H) as [k' [Hin Hk']]. exists k'. split; [now right|assumption].
  - injection H as H. subst. exists k. split; [now left|assumption].
Qed.

Theorem extract_rejects e san err : extract_tree e san = Exn err ->
  exists k, In (AKey k) (atoms e) /\ category_of k = Exn err /\ (err = ValueErr \/ err = NotImpl).
Proof.
  unfold extract_tree. intros H. destruct (extract e) as [r|err'] eqn:E.
  - exfalso. simpl in H. pose proof E as E'. apply extract_iff in E'. destruct E' as [_ Er]. subst r.
    destruct san; [|discriminate]. rewrite sanitize_ok in H by apply extract_spec_num. discriminate.
  - simpl in H. injection H as H. subst err'. unfold extract in E. apply categorise_exn in E.
    destruct E as [k [Hin Hk]]. exists k. split; [now apply In_cond_keys|]. split; [assumption|].
    destruct (category_total k) as [[n Hn]|[[_ Hc]|[_ Hc]]].
    + destruct (ranges_partition _ Hn) as [_ [_ [_ [_ [[c Hc]|Hc]]]]]; rewrite Hc in Hk; [discriminate|injection Hk as Hk; now left].
    + rewrite Hc in Hk. injection Hk as Hk. now right.
    + rewrite Hc in Hk. injection Hk as Hk. now left.
Qed.

(* ================================================================== canonical numerals satisfy key_inj *)
(* a numeral without leading zeros ("0" itself is canonical) *)
Definition canonical (k : text) : bool :=
  forallb is_ascii_digit k && match k with [] => false | [_] => true | c :: _ => negb (N.eqb c 48) end.

Lemma pow10_succ n : (10 ^ Z.of_nat (Datatypes.S n) = 10 * 10 ^ Z.of_nat n)%Z.
Proof. rewrite Nat2Z.inj_succ, Z.pow_succ_r by lia. reflexivity. Qed.
Lemma pow10_pos n : (0 < 10 ^ Z.of_nat n)%Z.
Proof. apply Z.pow_pos_nonneg; lia. Qed.

Lemma digit_range c : is_ascii_digit c = true -> (0 <= Z.of_N (c - 48) <= 9)%Z /\ (48 <= c)%N.
Proof. unfold is_ascii_digit. intros H. apply andb_true_iff in H. destruct H as [H1 H2]. apply N.leb_le in H1, H2. lia. Qed.

Lemma digits_val_bound l : forall acc, forallb is_ascii_digit l = true ->
  exists r, digits_val acc l = Ok (acc * 10 ^ Z.of_nat (length l) + r)%Z /\ (0 <= r < 10 ^ Z.of_nat (length l))%Z.
Proof.
  induction l as [|c t IH]; intros acc H.
  - exists 0%Z. simpl. split; [f_equal; lia|lia].
  - simpl in H. apply andb_true_iff in H. destruct H as [Hc Ht].
    destruct (IH (acc * 10 + Z.of_N (c - 48))%Z Ht) as [r [E B]].
    exists (Z.of_N (c - 48) * 10 ^ Z.of_nat (length t) + r)%Z.
    simpl digits_val. rewrite Hc, E. simpl length. rewrite pow10_succ.
    pose proof (pow10_pos (length t)) as HP. destruct (digit_range _ Hc) as [Hd _].
    set (P := (10 ^ Z.of_nat (length t))%Z) in *. set (d := Z.of_N (c - 48)) in *.
    split; [f_equal; ring|nia].
Qed.

Lemma same_length_inj l1 : forall l2 a1 a2 n, length l1 = length l2 ->
  forallb is_ascii_digit l1 = true -> forallb is_ascii_digit l2 = true ->
  digits_val a1 l1 = Ok n -> digits_val a2 l2 = Ok n -> a1 = a2 /\ l1 = l2.
Proof.
  induction l1 as [|c1 t1 IH]; intros [|c2 t2] a1 a2 n Hl H1 H2 E1 E2; simpl in Hl; try discriminate.
  - simpl in E1, E2. split; [congruence|reflexivity].
  - simpl in H1, H2. apply andb_true_iff in H1, H2. destruct H1 as [Hc1 Ht1], H2 as [Hc2 Ht2].
    simpl in E1, E2. rewrite Hc1 in E1. rewrite Hc2 in E2.
    destruct (IH t2 _ _ n (eq_add_S _ _ Hl) Ht1 Ht2 E1 E2) as [Ea Et].
    destruct (digit_range _ Hc1) as [Hd1 Hn1]. destruct (digit_range _ Hc2) as [Hd2 Hn2].
    assert (a1 = a2) by lia. subst a2. split; [reflexivity|]. f_equal; [lia|assumption].
Qed.

Lemma canonical_size l n : canonical l = true -> digits_val 0 l = Ok n ->
  (n < 10 ^ Z.of_nat (length l))%Z /\ (l = [48%N] \/ (10 ^ Z.of_nat (length l - 1) <= n)%Z).
Proof.
  unfold canonical. intros H E. apply andb_true_iff in H. destruct H as [Hd Hz].
  destruct l as [|c t]; [discriminate|].
  destruct (digits_val_bound _ 0 Hd) as [r [E' B]]. rewrite E in E'. injection E' as E'. split; [lia|].
  simpl in Hd. apply andb_true_iff in Hd. destruct Hd as [Hc Ht].
  destruct (digit_range _ Hc) as [Hr Hn].
  destruct (digits_val_bound _ (0 * 10 + Z.of_N (c - 48))%Z Ht) as [r' [E'' B']].
  cbn [digits_val] in E. rewrite Hc in E. rewrite E in E''. injection E'' as E''.
  replace (length (c :: t) - 1) with (length t) by (simpl; lia).
  pose proof (pow10_pos (length t)) as HP. set (P := (10 ^ Z.of_nat (length t))%Z) in *.
  destruct t as [|c' t'].
  - simpl in *. destruct (N.eq_dec c 48) as [Ec|Ec]; [left; now subst|right]. subst P. simpl in *. lia.
  - right. apply negb_true_iff, N.eqb_neq in Hz. assert (1 <= Z.of_N (c - 48))%Z by lia. nia.
Qed.

Lemma canonical_inj a b : canonical a = true -> canonical b = true -> kval a = kval b -> a = b.
Proof.
  intros Ha Hb E.
  assert (Hda : forallb is_ascii_digit a = true) by (unfold canonical in Ha; now apply andb_true_iff in Ha).
  assert (Hdb : forallb is_ascii_digit b = true) by (unfold canonical in Hb; now apply andb_true_iff in Hb).
  destruct (digits_val_bound _ 0 Hda) as [ra [Ea _]]. destruct (digits_val_bound _ 0 Hdb) as [rb [Eb _]].
  assert (Na : a <> []) by (intros ->; discriminate). assert (Nb : b <> []) by (intros ->; discriminate).
  unfold kval, key_int in E. destruct a as [|ca ta]; [now contradiction Na|]. destruct b as [|cb tb]; [now contradiction Nb|].
  rewrite Ea, Eb in E. rewrite <- E in Eb.
  destruct (canonical_size _ Ha Ea) as [Ua La]. destruct (canonical_size _ Hb Eb) as [Ub Lb].
  destruct (Nat.eq_dec (length (ca :: ta)) (length (cb :: tb))) as [El|Nl].
  - now destruct (same_length_inj _ _ _ _ El Hda Hdb Ea Eb).
  - exfalso. set (n := (0 * 10 ^ Z.of_nat (length (ca :: ta)) + ra)%Z) in *.
    assert (Hmono : forall p q, p <= q -> (10 ^ Z.of_nat p <= 10 ^ Z.of_nat q)%Z) by (intros p q Hpq; apply Z.pow_le_mono_r; lia).
    destruct (Nat.lt_ge_cases (length (ca :: ta)) (length (cb :: tb))) as [Hlt|Hge].
    + destruct Lb as [Lb|Lb]; [injection Lb as -> ->; simpl in Hlt; lia|].
      pose proof (Hmono (length (ca :: ta)) (length (cb :: tb) - 1) ltac:(lia)). lia.
    + destruct La as [La|La]; [injection La as -> ->; simpl in Hge, Nl; lia|].
      pose proof (Hmono (length (cb :: tb)) (length (ca :: ta) - 1) ltac:(lia)). lia.
Qed.

Theorem canonical_key_inj l : forallb canonical l = true -> key_inj l.
Proof. intros H a b Ha Hb. rewrite forallb_forall in H. apply canonical_inj; now apply H. Qed.

(* ================================================================== every number n >= 0 is the value of a (canonical) key *)
Fixpoint numeral_fuel (f : nat) (n : Z) : text :=
  match f with
  | O => [48%N]
  | Datatypes.S f' => if (n <? 10)%Z then [Z.to_N (48 + n)] else numeral_fuel f' (n / 10) ++ [Z.to_N (48 + n mod 10)]
  end.
Definition numeral (n : Z) : text := numeral_fuel (Datatypes.S (Z.to_nat n)) n.

Lemma digits_val_app l : forall acc c, is_ascii_digit c = true ->
  digits_val acc (l ++ [c]) = match digits_val acc l with Ok v => Ok (v * 10 + Z.of_N (c - 48))%Z | Exn e => Exn e end.
Proof.
  induction l as [|a t IH]; intros acc c Hc; simpl.
  - now rewrite Hc.
  - destruct (is_ascii_digit a); [now apply IH|reflexivity].
Qed.

Lemma key_int_digits k n : key_int k = Ok n -> digits_val 0 k = Ok n /\ k <> [].
Proof. destruct k; [discriminate|]. intros H. split; [exact H|discriminate]. Qed.
Lemma key_int_nonempty k : k <> [] -> key_int k = digits_val 0 k.
Proof. destruct k; [intros H; now contradiction H|reflexivity]. Qed.

Lemma numeral_fuel_ok f : forall n, (0 <= n)%Z -> Z.to_nat n < f -> key_int (numeral_fuel f n) = Ok n.
Proof.
  induction f as [|f IH]; intros n Hn Hf; [lia|].
  cbn [numeral_fuel]. destruct (Z.ltb_spec n 10) as [Hlt|Hge].
  - unfold key_int. cbn [digits_val]. assert (Hd : is_ascii_digit (Z.to_N (48 + n)) = true).
    { unfold is_ascii_digit. apply andb_true_iff. split; apply N.leb_le; lia. }
    rewrite Hd. f_equal. lia.
  - assert (Hq : (0 <= n / 10 < n)%Z) by (Z.div_mod_to_equations; lia).
    pose proof (IH (n / 10)%Z ltac:(lia) ltac:(lia)) as E. apply key_int_digits in E. destruct E as [E Hne].
    assert (Hd : is_ascii_digit (Z.to_N (48 + n mod 10)) = true).
    { unfold is_ascii_digit. apply andb_true_iff. split; apply N.leb_le; Z.div_mod_to_equations; lia. }
    rewrite key_int_nonempty by (intros H; apply app_eq_nil in H; destruct H; discriminate).
    rewrite digits_val_app by assumption. rewrite E. f_equal. Z.div_mod_to_equations. lia.
Qed.

Theorem every_number_has_a_key n : (0 <= n)%Z -> key_int (numeral n) = Ok n.
Proof. intros H. apply numeral_fuel_ok; [assumption|lia]. Qed.

(* ================================================================== instances (the hypotheses are satisfiable) *)
Definition t901 : text := [57;48;49]%N.
Definition t902 : text := [57;48;50]%N.
Definition t501 : text := [53;48;49]%N.
Definition t1 : text := [49]%N.
Definition t2 : text := [50]%N.
Definition t2000 : text := [50;48;48;48]%N.
Definition t12P : text := [49;50;80]%N.
Definition tUB1 : text := [85;66;49]%N.

(* 2 format-constraint keys, 2 requirement-constraint keys: 2^2 * 3^2 = 36 results, exactly the product, in order *)
Example example_36 :
  generate [t501] [t901; t902] [t1; t2] = cartesian [t501] [t901; t902] [t1; t2] /\
  length (generate [t501] [t901; t902] [t1; t2]) = 36.
Proof. split; vm_compute; reflexivity. Qed.

(* ([2000] U [902]) O ([12P] [1] U [UB1] X [501] U [1] U [901]) *)
Definition ex_x : expr := EBin BAnd (EAtom (AKey t2000)) (EAtom (AKey t902)).
Definition ex_y : expr :=
  EBin BXor (EBin BAnd (EBin BThen (EAtom (APkg t12P None)) (EAtom (AKey t1))) (EAtom (ATime tUB1)))
            (EBin BAnd (EAtom (AKey t501)) (EBin BAnd (EAtom (AKey t1)) (EAtom (AKey t901)))).
Example example_extract :
  extract_tree (EBin BOr ex_x ex_y) true =
    Ok {| hint_keys := [t501]; fc_keys := [t901; t902]; rc_keys := [t1; t2000]; pkg_keys := [t12P]; time_keys := [tUB1] |} /\
  forallb canonical (cond_keys_of (EBin BOr ex_x ex_y)) = true /\
  (exists rx ry, extract_tree ex_x true = Ok rx /\ extract_tree ex_y true = Ok ry /\ extract_tree (EBin BOr ex_x ex_y) true = add rx ry).
Proof.
  split; [vm_compute; reflexivity|]. split; [vm_compute; reflexivity|].
  eexists. eexists. split; [vm_compute; reflexivity|]. split; [vm_compute; reflexivity|]. vm_compute. reflexivity.
Qed.

(* the documented boundaries *)
Definition tx (l : list N) : text := l.
Example example_boundaries :
  map category_of [tx [48]; tx [49]; tx [52;57;57]; tx [53;48;48]; tx [57;48;48]; tx [57;48;49]; tx [57;57;57]; tx [49;48;48;48];
                   tx [49;57;57;57]; tx [50;48;48;48]; tx [50;52;57;57]; tx [50;53;48;48]; t12P]%N
  = [Exn ValueErr; Ok CatRc; Ok CatRc; Ok CatHint; Ok CatHint; Ok CatFc; Ok CatFc; Exn ValueErr;
     Exn ValueErr; Ok CatRc; Ok CatRc; Exn ValueErr; Exn NotImpl].
Proof. vm_compute. reflexivity. Qed.
