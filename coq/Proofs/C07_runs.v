(* The collected format-constraint expression and the grouping inside a run: moving the brackets of (x op y) op z to x op (y op z) (op one of U, O, X)
   changes the collected expression at most in its bracketing -- under every truth assignment of the format constraints the reading has the same value,
   and it is absent in the one case iff it is absent in the other. *)
From Ahb Require Import Model.Prelude Model.Grammar Gen.Gen_logic Model.Logic Model.EvalRC Model.Spec.

Definition rdval (beta : text -> bool) (o : option fcexpr) : option bool := option_map (beval beta) o.

Lemma fc_join_assoc_val b beta x y z : b <> BThen ->
  rdval beta (fc_join b (fc_join b x y) z) = rdval beta (fc_join b x (fc_join b y z)).
Proof.
  intros Hb. destruct x as [p|], y as [q|], z as [r|]; cbn [fc_join rdval option_map]; try reflexivity.
  destruct b; try congruence; cbn [beval]; f_equal.
  - now rewrite orb_assoc.
  - now rewrite xorb_assoc.
  - now rewrite andb_assoc.
Qed.

Theorem rd_rotation a beta b x y z : b <> BThen ->
  rdval beta (rd a (EBin b (EBin b x y) z)) = rdval beta (rd a (EBin b x (EBin b y z))).
Proof. intros Hb. destruct b; try congruence; cbn [rd]; now apply fc_join_assoc_val. Qed.

Corollary rd_rotation_presence a b x y z : b <> BThen ->
  (rd a (EBin b (EBin b x y) z) = None <-> rd a (EBin b x (EBin b y z)) = None).
Proof.
  intros Hb. pose proof (rd_rotation a (fun _ => true) b x y z Hb) as H. unfold rdval in H.
  destruct (rd a (EBin b (EBin b x y) z)), (rd a (EBin b x (EBin b y z))); cbn in H; split; intros E; try discriminate; reflexivity.
Qed.
