From Coq Require Import List Arith Lia Bool.
From Ahb Require Import Model.Prelude Model.Grammar Gen.Gen_grammar Model.Lex Gen.Gen_timecond Model.Resolve
  Proofs.Prec Proofs.Canon Proofs.C01_parse.
Set Implicit Arguments.

Fixpoint atoms (e : expr) : list atom := match e with EAtom a => [a] | EBin _ l r => atoms l ++ atoms r end.
Definition pkg_tree (p : pkg_table) (k : text) : option expr := match pkg_lookup p k with Some (Ok t) => Some t | _ => None end.

(* bracketed substitution on trees: every package leaf is replaced by its package tree, nothing else changes, and the
   inserted trees are not expanded again (one level) *)
Fixpoint subst (p : pkg_table) (e : expr) : expr :=
  match e with
  | EAtom (APkg k rep) => match pkg_tree p k with Some t => t | None => EAtom (APkg k rep) end
  | EAtom a => EAtom a
  | EBin b l r => EBin b (subst p l) (subst p r)
  end.
Definition all_known (p : pkg_table) (e : expr) : Prop := forall k rep, In (APkg k rep) (atoms e) -> exists t, pkg_lookup p k = Some (Ok t).

Theorem expand_is_substitution p e : all_known p e -> expand p e = Ok (subst p e).
Proof.
  induction e as [a|b l IHl r IHr]; intros H.
  - destruct a as [k|k rep|k]; try reflexivity. simpl. unfold pkg_tree. destruct (H k rep) as [t Ht]; [now left|]. now rewrite Ht.
  - simpl. rewrite IHl, IHr; [reflexivity| |]; intros k rep Hin; apply (H k rep); simpl; apply in_or_app; auto.
Qed.

(* a package unknown to the resolver aborts with NotImplementedError -- never dropped, never left unnoticed *)
Definition no_syntax_errors (p : pkg_table) (e : expr) : Prop := forall k rep err, In (APkg k rep) (atoms e) -> pkg_lookup p k <> Some (Exn err).
Theorem unknown_aborts p e : no_syntax_errors p e ->
  (exists k rep, In (APkg k rep) (atoms e) /\ pkg_lookup p k = None) -> expand p e = Exn NotImpl.
Proof.
  induction e as [a|b l IHl r IHr]; intros Hs [k [rep [Hin Hk]]].
  - simpl in Hin. destruct Hin as [->|[]]. simpl. now rewrite Hk.
  - simpl in Hin. simpl.
    assert (Sl : no_syntax_errors p l) by (intros k' rep' err Hi; apply (Hs k' rep' err); simpl; apply in_or_app; auto).
    assert (Sr : no_syntax_errors p r) by (intros k' rep' err Hi; apply (Hs k' rep' err); simpl; apply in_or_app; auto).
    destruct (expand p l) as [l'|el] eqn:El.
    + apply in_app_or in Hin. destruct Hin as [Hin|Hin].
      * assert (Q := IHl Sl (ex_intro _ k (ex_intro _ rep (conj Hin Hk)))). rewrite Q in El. discriminate.
      * assert (Q := IHr Sr (ex_intro _ k (ex_intro _ rep (conj Hin Hk)))). simpl. now rewrite Q.
    + simpl. (* an error on the left: it can only be NotImpl *)
      clear IHr. assert (forall e0, no_syntax_errors p e0 -> forall x, expand p e0 = Exn x -> x = NotImpl) as Q.
      { induction e0 as [a0|b0 l0 I0 r0 I1]; intros S0 x Hx.
        - destruct a0 as [k0|k0 rep0|k0]; simpl in Hx; try discriminate.
          destruct (pkg_lookup p k0) as [[t|err]|] eqn:E0; try discriminate; [|now inversion Hx].
          exfalso. apply (S0 k0 rep0 err); [now left|exact E0].
        - simpl in Hx. destruct (expand p l0) eqn:E0; simpl in Hx.
          + destruct (expand p r0) eqn:E1; simpl in Hx; [discriminate|]. inversion Hx; subst. eapply I1; eauto.
            intros k' rep' err Hi. apply (S0 k' rep' err). simpl. apply in_or_app. auto.
          + inversion Hx; subst. eapply I0; eauto. intros k' rep' err Hi. apply (S0 k' rep' err). simpl. apply in_or_app. auto. }
      now rewrite (Q l Sl el El).
Qed.

(* ---------- the placeholder pass computes the simultaneous substitution ---------- *)
Fixpoint pkg_keys (e : expr) : list text :=
  match e with EAtom (APkg k _) => [k] | EAtom _ => [] | EBin _ l r => pkg_keys l ++ pkg_keys r end.
Fixpoint holes (h : hexpr) : list nat := match h with HHole i => [i] | HAtom _ => [] | HBin _ l r => holes l ++ holes r end.

Lemma place_range e n : snd (place e n) = n + length (pkg_keys e) /\ forall i, In i (holes (fst (place e n))) -> n <= i < n + length (pkg_keys e).
Proof.
  revert n. induction e as [a|b l IHl r IHr]; intros n.
  - destruct a; simpl; (split; [lia|]); intros i Hi; try contradiction. destruct Hi as [<-|[]]. lia.
  - simpl. destruct (place l n) as [l' n1] eqn:El. destruct (place r n1) as [r' n2] eqn:Er. simpl.
    destruct (IHl n) as [A1 A2]. destruct (IHr n1) as [B1 B2]. rewrite El in A1, A2. rewrite Er in B1, B2. simpl in *.
    rewrite app_length. split; [lia|]. intros i Hi. apply in_app_or in Hi. destruct Hi as [Hi|Hi]; [specialize (A2 i Hi)|specialize (B2 i Hi)]; lia.
Qed.

Lemma fill_no_hole h id t : ~ In id (holes h) -> fill h id t = h.
Proof.
  induction h as [a|j|b l IHl r IHr]; simpl; intros H; auto.
  - destruct (Nat.eqb j id) eqn:E; auto. apply Nat.eqb_eq in E. subst. exfalso. apply H. now left.
  - rewrite IHl, IHr; auto; intros Q; apply H; apply in_or_app; auto.
Qed.
Lemma holes_inject t : holes (inject t) = [].
Proof. induction t as [a|b l IHl r IHr]; simpl; [reflexivity|]. now rewrite IHl, IHr. Qed.

Definition pass_from (h : hexpr) (first : nat) (results : list expr) : hexpr * nat :=
  fold_left (fun st t => (fill (fst st) (snd st) t, Datatypes.S (snd st))) results (h, first).

Lemma pass_from_app h n r1 r2 : pass_from h n (r1 ++ r2) = pass_from (fst (pass_from h n r1)) (snd (pass_from h n r1)) r2.
Proof. unfold pass_from. rewrite fold_left_app. destruct (fold_left _ r1 (h, n)); reflexivity. Qed.
Lemma pass_from_snd h n rs : snd (pass_from h n rs) = n + length rs.
Proof. unfold pass_from. revert h n. induction rs as [|t ts IH]; intros h n; simpl; [lia|]. rewrite IH. simpl. lia. Qed.
Lemma pass_from_bin b l r n rs : fst (pass_from (HBin b l r) n rs) = HBin b (fst (pass_from l n rs)) (fst (pass_from r n rs)).
Proof. unfold pass_from. revert l r n. induction rs as [|t ts IH]; intros l r n; simpl; [reflexivity|]. apply IH. Qed.
Lemma pass_from_outside h n rs : (forall i, In i (holes h) -> i < n \/ n + length rs <= i) -> fst (pass_from h n rs) = h.
Proof.
  unfold pass_from. revert h n. induction rs as [|t ts IH]; intros h n H; simpl; [reflexivity|].
  rewrite fill_no_hole.
  - apply IH. intros i Hi. specialize (H i Hi). simpl in H. lia.
  - intros Q. specialize (H n Q). simpl in H. lia.
Qed.

(* results are the awaited package trees in scan order; the pass yields the tree with every package replaced by the
   result produced for that very occurrence (also for repeated and neighbouring packages) *)
Fixpoint subst_by (e : expr) (rs : list expr) : expr * list expr :=
  match e with
  | EAtom (APkg k rep) => match rs with t :: rest => (t, rest) | [] => (EAtom (APkg k rep), []) end
  | EAtom a => (EAtom a, rs)
  | EBin b l r => let '(l', r1) := subst_by l rs in let '(r', r2) := subst_by r r1 in (EBin b l' r', r2)
  end.

Theorem pass_is_positional_substitution e : forall n rs rest, length rs = length (pkg_keys e) ->
  fst (pass_from (fst (place e n)) n (rs ++ rest)) = inject (fst (subst_by e (rs ++ rest)))
  /\ snd (subst_by e (rs ++ rest)) = rest.
Proof.
  induction e as [a|b l IHl r IHr]; intros n rs rest Hlen.
  - assert (NoHoles : forall a0 m l0, fst (pass_from (HAtom a0) m l0) = HAtom a0).
    { intros a0 m l0. apply pass_from_outside. intros i []. }
    destruct a as [k|k rep|k]; simpl in Hlen.
    + destruct rs; [|discriminate]. simpl. split; [apply NoHoles|reflexivity].
    + destruct rs as [|t [|t2 ts]]; try discriminate. simpl app. simpl subst_by. simpl fst at 2. simpl snd. split; [|reflexivity].
      unfold pass_from. simpl fold_left. rewrite Nat.eqb_refl.
      change (fst (pass_from (inject t) (Datatypes.S n) rest) = inject t). apply pass_from_outside.
      intros i Hi. rewrite holes_inject in Hi. contradiction.
    + destruct rs; [|discriminate]. simpl. split; [apply NoHoles|reflexivity].
  - simpl in Hlen. rewrite app_length in Hlen.
    set (r1 := firstn (length (pkg_keys l)) rs). set (r2 := skipn (length (pkg_keys l)) rs).
    assert (Ers : rs = r1 ++ r2) by (unfold r1, r2; now rewrite firstn_skipn).
    assert (L1 : length r1 = length (pkg_keys l)) by (unfold r1; rewrite firstn_length; lia).
    assert (L2 : length r2 = length (pkg_keys r)) by (unfold r2; rewrite skipn_length; lia).
    clearbody r1 r2. subst rs. rewrite <- app_assoc.
    simpl place. destruct (place l n) as [l' n1] eqn:El. destruct (place r n1) as [r' n2] eqn:Er. simpl fst.
    pose proof (place_range l n) as [Pl1 Pl2]. rewrite El in Pl1, Pl2. simpl in Pl1, Pl2.
    pose proof (place_range r n1) as [Pr1 Pr2]. rewrite Er in Pr1, Pr2. simpl in Pr1, Pr2.
    destruct (IHl n r1 (r2 ++ rest) L1) as [A1 A2]. rewrite El in A1. simpl in A1.
    destruct (IHr n1 r2 rest L2) as [B1 B2]. rewrite Er in B1. simpl in B1.
    simpl subst_by.
    destruct (subst_by l (r1 ++ r2 ++ rest)) as [ls lrest] eqn:Sl. simpl in A1, A2. subst lrest.
    destruct (subst_by r (r2 ++ rest)) as [rs' rrest] eqn:Sr. simpl in B1, B2. subst rrest. simpl fst. simpl snd.
    split; [|reflexivity].
    rewrite pass_from_bin. simpl inject. f_equal; [exact A1|].
    rewrite pass_from_app. rewrite pass_from_snd, L1, <- Pl1.
    rewrite (@pass_from_outside r' n r1); [exact B1|]. intros i Hi. specialize (Pr2 i Hi). lia.
Qed.

(* ---------- resolving commutes with parsing, modulo same-operator runs (forest level) ---------- *)
Fixpoint subst_item (pits : text -> option (list item)) (x : item) : item :=
  match x with
  | IA (APkg k rep) => match pits k with Some l => IG l | None => x end
  | IG g => IG (map (subst_item pits) g)
  | _ => x
  end.
Definition subst_items (pits : text -> option (list item)) (l : list item) : list item := map (subst_item pits) l.
Fixpoint subst_tree (pe : text -> option expr) (e : expr) : expr :=
  match e with
  | EAtom (APkg k rep) => match pe k with Some t => t | None => e end
  | EAtom a => e
  | EBin b l r => EBin b (subst_tree pe l) (subst_tree pe r)
  end.

(* package k: forest pits k with a precedence derivation of the tree pe k (e.g. what the parser returned for its text) *)
Definition packages_derivable (pits : text -> option (list item)) (pe : text -> option expr) : Prop :=
  forall k, match pits k, pe k with
            | Some l, Some t => Sc 0 l t
            | None, None => True
            | _, _ => False
            end.

Theorem substitution_preserves_derivations pits pe n its e : packages_derivable pits pe ->
  Sc n its e -> Sc n (subst_items pits its) (subst_tree pe e).
Proof.
  intros HP. induction 1 as [r l1 l2 e1 e2 H1 IH1 H2 IH2|l1 l2 e1 e2 H1 IH1 H2 IH2|n l e H IH|a|g e H IH].
  - unfold subst_items in *. rewrite map_app. simpl map. simpl subst_tree. now apply S_op.
  - unfold subst_items in *. rewrite map_app. simpl subst_tree. now apply S_then.
  - now apply S_up.
  - destruct a as [k|k rep|k]; simpl; try apply S_atom.
    specialize (HP k). destruct (pits k) as [l|], (pe k) as [t|]; try contradiction; [|apply S_atom]. now apply S_grp.
  - simpl. apply S_grp. exact IH.
Qed.

(* the resolved tree (substitution applied to what the parser returned) equals, modulo runs, every tree the parser's
   resolution admits for the bracketed textual substitution *)
Theorem resolving_commutes_with_parsing pits pe its e e2 : packages_derivable pits pe ->
  Rc its e -> Rc (subst_items pits its) e2 -> flat (subst_tree pe e) = flat e2.
Proof.
  intros HP H1 H2. apply unique_modulo_runs_c with (its := subst_items pits its).
  - apply substitution_preserves_derivations; [exact HP|]. now apply resolution_respects_precedence_c.
  - now apply resolution_respects_precedence_c.
Qed.

(* ---------- time conditions (over the regenerated table) ---------- *)
Definition tUB1 : text := [85;66;49]%N. Definition tUB2 : text := [85;66;50]%N. Definition tUB3 : text := [85;66;51]%N.
Definition t932 : text := [57;51;50]%N. Definition t934 : text := [57;51;52]%N.
Definition t492 : text := [52;57;50]%N. Definition t493 : text := [52;57;51]%N.
Definition ub3_text : text := [91;57;51;50;93;91;52;57;50;93;88;91;57;51;52;93;91;52;57;51;93]%N.   (* "[932][492]X[934][493]" *)
Definition ub3_tree : expr :=
  EBin BXor (EBin BThen (EAtom (AKey t932)) (EAtom (AKey t492))) (EBin BThen (EAtom (AKey t934)) (EAtom (AKey t493))).

Lemma timeconds :
  expand_tc (EAtom (ATime tUB1)) = Ok (EAtom (AKey t932)) /\ expand_tc (EAtom (ATime tUB2)) = Ok (EAtom (AKey t934)) /\
  expand_tc (EAtom (ATime tUB3)) = Ok ub3_tree /\ tc_lookup tUB3 = Some (TcExpr ub3_text ub3_tree) /\
  parse_cond ub3_text = Ok (flat ub3_tree) /\
  parse_cond ([40%N] ++ ub3_text ++ [41%N]) = Ok (flat ub3_tree).
Proof. repeat split; vm_compute; reflexivity. Qed.

Lemma expand_tc_everywhere b l r : expand_tc (EBin b l r) = (do l' <- expand_tc l ;; do r' <- expand_tc r ;; Ok (EBin b l' r')).
Proof. reflexivity. Qed.

Example substitution_example :
  let p : pkg_table := [([49;80]%N, Some (Ok (EBin BOr (EAtom (AKey [50]%N)) (EAtom (ATime tUB1)))))] in
  let e := EBin BAnd (EAtom (APkg [49;80]%N None)) (EAtom (APkg [49;80]%N (Some [48;46;46;49]%N))) in
  resolve_cond p true true e =
  Ok (EBin BAnd (EBin BOr (EAtom (AKey [50]%N)) (EAtom (AKey t932))) (EBin BOr (EAtom (AKey [50]%N)) (EAtom (AKey t932)))).
Proof. vm_compute. reflexivity. Qed.
