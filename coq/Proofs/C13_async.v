(* The validation recursion under EVERY schedule: the program of Model/ValidateAsync.v (gathers as task trees) returns, whatever the order
   in which its tasks run, what the sequential model of Model/Validate.v returns. So C13, C14, C16 and C17 (proved of the sequential
   model) hold for all interleavings, and every free-text element is evaluated with the ContextVar holding its own input (C15). *)
From Ahb Require Import Model.Prelude Model.Grammar Gen.Gen_logic Gen.Gen_valmaps Model.EvalRC Model.EvalFC Model.EvalAhb Model.Validate
  Model.Async Model.ValidateAsync Proofs.C12_async Proofs.C13_validate.

Section Refine.
Variable nx : Type.
Variable U : Type.
Variable ir : nx -> text.
Variable parsep : nx -> prog (vv U).
Variable evalp : nx -> vv U -> prog (vv U).
Notation vv := (vv U).
Notation no_put := (@no_put U).
Hypothesis parse_no_put : forall x, no_put (parsep x).
Hypothesis eval_no_put : forall x t, no_put (evalp x t).

Notation seg_eval := (seg_eval nx U parsep evalp).
Notation de_eval := (de_eval nx U parsep evalp).
Notation own_prog := (own_prog nx U ir parsep evalp).
Notation pool_prog := (pool_prog nx U parsep evalp).
Notation de_prog := (de_prog nx U ir parsep evalp).
Notation node_prog := (node_prog nx U ir parsep evalp).
Notation ahb_prog := (ahb_prog nx U ir parsep evalp).
Notation ev_of := (ev_of nx U parsep evalp).
Notation reason_of := (reason_of nx ir).
Notation nx' := (nx' nx).

Lemma ctx_after_no_put (p : prog vv) : no_put p -> forall c, ctx_after c p = c.
Proof. induction 1 as [v|k _ IH|x k _ IH|ps k _ IH]; intros c; simpl; auto. Qed.

Lemma no_put_pbind (p : prog vv) (f : vv -> prog vv) : no_put p -> (forall v, no_put (f v)) -> no_put (pbind p f).
Proof. induction 1 as [v|k _ IH|x k _ IH|ps k _ IH]; intros Hf; simpl; [apply Hf| | |]; constructor; auto. Qed.

Lemma seg_eval_no_put x : no_put (seg_eval x).
Proof. apply no_put_pbind; auto. Qed.

(* await p ; continue: when p's own task writes no context variable the continuation runs in the caller's context *)
Lemma den_bind_np (p : prog vv) (f : vv -> prog vv) c : no_put p -> den c (pbind p f) = den c (f (den c p)).
Proof. intros H. rewrite den_pbind, ctx_after_no_put; auto. Qed.

(* ---- the node's own status *)
Lemma own_prog_no_put x parent soll : no_put (own_prog x parent soll).
Proof.
  unfold ValidateAsync.own_prog. destruct (parent_forbidden parent); [constructor|].
  apply no_put_pbind; [apply seg_eval_no_put|intros; constructor].
Qed.

Lemma den_own c x parent soll :
  den c (own_prog x parent soll) = VS (own_status (ev_of c) reason_of ((x, None) : nx') parent soll).
Proof.
  unfold ValidateAsync.own_prog, own_status, parent_forbidden.
  destruct (match parent with Some p => is_forbidden p | None => false end); [reflexivity|].
  rewrite den_bind_np by apply seg_eval_no_put. reflexivity.
Qed.

(* ---- data elements *)
Lemma pool_prog_no_put pool : forall acc, no_put (pool_prog pool acc).
Proof.
  induction pool as [|[[q m] x] t IH]; intros acc; simpl; [constructor|].
  apply no_put_pbind; [apply seg_eval_no_put|]. intros v. destruct (sel_post (as_res v)); [apply IH|constructor].
Qed.

Lemma den_pool c pool : forall acc,
  den c (pool_prog pool acc) = VP (pool_possible nx' (ev_of c) (annot_pool nx pool) acc).
Proof.
  induction pool as [|[[q m] x] t IH]; intros acc; simpl; [reflexivity|].
  rewrite den_bind_np by apply seg_eval_no_put.
  unfold sel_post. destruct (as_res (den c (seg_eval x))) as [r|e] eqn:E; simpl.
  - rewrite IH. reflexivity.
  - destruct e; simpl; try reflexivity. rewrite IH. reflexivity.
Qed.

Lemma valuepool_split (nx0 : Type) (ev : nx0 -> result ahbres) d (pool : list (text * text * nx0)) input req :
  validate_valuepool nx0 ev d pool input req =
  (do possible <- (if negb (is_forbidden req) then
                     match pool with [(q, m, _)] => Ok [(q, m)] | _ => pool_possible nx0 ev pool [] end
                   else Ok []) ;;
   valuepool_finish d input possible).
Proof.
  unfold validate_valuepool.
  destruct (if negb (is_forbidden req) then _ else _) as [p|e]; reflexivity.
Qed.

Lemma den_de c e st soll :
  den c (de_prog e st soll) = VD (validate_de nx' (ev_of c) reason_of (annot_de nx e) st soll).
Proof.
  destruct e as [d x input vt|d pool input]; simpl.
  - unfold freetext_prog. rewrite den_pbind. reflexivity.
  - unfold valuepool_prog. rewrite valuepool_split.
    destruct (negb (is_forbidden st)).
    + destruct pool as [|[[q m] x] [|p2 t]].
      * simpl. reflexivity.
      * simpl. reflexivity.
      * rewrite den_bind_np by apply pool_prog_no_put. rewrite den_pool. reflexivity.
    + simpl. reflexivity.
Qed.

(* ---- the recursion *)
Lemma mapM_rows (A : Type) (f : A -> result (list (text * vres))) (l : list A) :
  mapM (@as_rows U) (map (fun a => VR (f a)) l) = mapM f l.
Proof. induction l as [|a t IH]; simpl; [reflexivity|]. rewrite IH. reflexivity. Qed.

Lemma mapM_row (A : Type) (f : A -> result (text * vres)) (l : list A) :
  mapM (@as_row U) (map (fun a => VD (f a)) l) = mapM f l.
Proof. induction l as [|a t IH]; simpl; [reflexivity|]. rewrite IH. reflexivity. Qed.

Lemma mapM_map (A B C : Type) (g : A -> B) (f : B -> result C) (l : list A) : mapM f (map g l) = mapM (fun a => f (g a)) l.
Proof. induction l as [|a t IH]; simpl; [reflexivity|]. rewrite IH. reflexivity. Qed.

Theorem den_node c (n : node nx) : forall parent soll,
  den c (node_prog n parent soll) = VR (validate_node nx' (ev_of c) reason_of (annot nx n) parent soll).
Proof.
  induction n as [d x ch IH|d x des] using node_ind'; intros parent soll.
  - assert (R : validate_node nx' (ev_of c) reason_of (annot nx (NGroup d x ch)) parent soll =
                (do r <- own_status (ev_of c) reason_of ((x, None) : nx') parent soll ;;
                 if is_forbidden (vstatus r) then Ok [(d, r)]
                 else do rest <- children_results (fun c0 => validate_node nx' (ev_of c) reason_of c0 (Some (vstatus r)) soll) (map (annot nx) ch) ;;
                      Ok ((d, r) :: rest))) by apply validate_group_eq.
    rewrite R; clear R.
    cbn [ValidateAsync.node_prog]. rewrite den_bind_np by apply own_prog_no_put. rewrite den_own. cbn [as_seg].
    destruct (own_status (ev_of c) reason_of ((x, None) : nx') parent soll) as [r|e]; [|reflexivity].
    cbn [bind]. destruct (is_forbidden (vstatus r)); [reflexivity|].
    cbn [den]. do 2 f_equal. unfold rows_of_children, children_results.
    rewrite map_map.
    assert (E : map (fun c0 => den c (node_prog c0 (Some (vstatus r)) soll)) ch
                = map (fun c0 => VR (validate_node nx' (ev_of c) reason_of (annot nx c0) (Some (vstatus r)) soll)) ch).
    { clear - IH. induction IH as [|c0 t Hc _ IHt]; simpl; [reflexivity|]. rewrite Hc, IHt. reflexivity. }
    rewrite E, mapM_rows, mapM_map. reflexivity.
  - assert (R : validate_node nx' (ev_of c) reason_of (annot nx (NSeg d x des)) parent soll =
                (do r <- own_status (ev_of c) reason_of ((x, None) : nx') parent soll ;;
                 if is_forbidden (vstatus r) then Ok [(d, r)]
                 else do rest <- mapM (fun e => validate_de nx' (ev_of c) reason_of e (vstatus r) soll) (map (annot_de nx) des) ;;
                      Ok ((d, r) :: rest))) by apply validate_seg_eq.
    rewrite R; clear R.
    cbn [ValidateAsync.node_prog]. rewrite den_bind_np by apply own_prog_no_put. rewrite den_own. cbn [as_seg].
    destruct (own_status (ev_of c) reason_of ((x, None) : nx') parent soll) as [r|e]; [|reflexivity].
    cbn [bind]. destruct (is_forbidden (vstatus r)); [reflexivity|].
    cbn [den]. do 2 f_equal. unfold rows_of_elements.
    rewrite map_map.
    rewrite (map_ext _ (fun e => VD (validate_de nx' (ev_of c) reason_of (annot_de nx e) (vstatus r) soll))) by (intros; apply den_de).
    rewrite mapM_row, mapM_map. reflexivity.
Qed.

Theorem den_ahb c (lines : list (node nx)) soll :
  den c (ahb_prog lines soll) = VR (validate_ahb nx' (ev_of c) reason_of (map (annot nx) lines) soll).
Proof.
  unfold ValidateAsync.ahb_prog, validate_ahb. cbn [den]. f_equal. unfold rows_of_children.
  rewrite map_map.
  rewrite (map_ext _ (fun n => VR (validate_node nx' (ev_of c) reason_of (annot nx n) None soll))) by (intros; apply den_node).
  rewrite mapM_rows, mapM_map. reflexivity.
Qed.

(* ---- every schedule *)
Theorem node_every_schedule c (n : node nx) parent soll r :
  steps (initial c (node_prog n parent soll)) (Done r) ->
  r = VR (validate_node nx' (ev_of c) reason_of (annot nx n) parent soll).
Proof. intros H. apply schedule_independent in H. rewrite H. apply den_node. Qed.

Theorem ahb_every_schedule c (lines : list (node nx)) soll r :
  steps (initial c (ahb_prog lines soll)) (Done r) ->
  r = VR (validate_ahb nx' (ev_of c) reason_of (map (annot nx) lines) soll).
Proof. intros H. apply schedule_independent in H. rewrite H. apply den_ahb. Qed.

(* a report produced under any schedule covers the tree once, in document order, pruned below forbidden nodes *)
Theorem visit_every_schedule c (n : node nx) parent soll rows :
  steps (initial c (node_prog n parent soll)) (Done (VR (Ok rows))) -> Visit (annot nx n) rows.
Proof.
  intros H. apply node_every_schedule in H. injection H as H.
  eapply validate_visits. symmetry. exact H.
Qed.

(* what a free-text element's expression is evaluated with: the ContextVar holds the element's OWN input, whatever the caller's
   context held and whatever the siblings do *)
Theorem free_text_sees_own_input c x input :
  ev_of c ((x, Some input) : nx') = as_res (den (upd c TEXTV (VTxt input)) (evalp x (den c (parsep x)))).
Proof.
  cbn [ValidateAsync.ev_of]. unfold ValidateAsync.de_eval. rewrite den_pbind, ctx_after_no_put by auto. reflexivity.
Qed.

(* every schedule ends, and ends with this result *)
Theorem ahb_terminates c (lines : list (node nx)) soll :
  steps (initial c (ahb_prog lines soll)) (Done (VR (validate_ahb nx' (ev_of c) reason_of (map (annot nx) lines) soll))).
Proof. rewrite <- den_ahb. apply (terminates (initial c (ahb_prog lines soll))). Qed.
End Refine.

(* the hypotheses are satisfiable by programs that suspend, gather and read the ContextVar in a gathered task *)
Example hypotheses_satisfiable :
  let parsep := fun _ : nat => Yield (Ret (VTxt (U := unit) None)) in
  let evalp := fun (_ : nat) (_ : vv unit) => Par [Yield (Get TEXTV (fun v => Ret v))] (fun rs => Ret (VA (Exn NotImpl))) in
  (forall x, no_put unit (parsep x)) /\ (forall x t, no_put unit (evalp x t)).
Proof. split; intros; repeat constructor. Qed.
