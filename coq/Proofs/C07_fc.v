From Ahb Require Import Model.Prelude Model.Grammar Gen.Gen_logic Gen.Gen_ranges Model.Logic Model.EvalRC Model.EvalFC Model.Spec
  Proofs.C03_logic Proofs.C04_eval Proofs.C08_fc.
Set Implicit Arguments.

(* builder-made token expressions and the tree they denote: every bracket level holds one item or item-operator-item *)
Inductive TI : fitem -> kexpr -> Prop :=
| TI_key k : TI (FK k) (EAtom k)
| TI_grp g t : T g t -> TI (FG g) t
with T : fctoks -> kexpr -> Prop :=
| T_one x t : TI x t -> T [x] t
| T_bin a o b ta tb : TI a ta -> TI b tb -> T [a; FOp o; b] (EBin (lop_binop o) ta tb).
Scheme TI_mut := Induction for TI Sort Prop
  with T_mut := Induction for T Sort Prop.
Combined Scheme TI_T_ind from TI_mut, T_mut.

Lemma norm1_FG_single_key k : norm1 (FG [FK k]) = FK k. Proof. reflexivity. Qed.

Lemma norm1_preserves : (forall x t, TI x t -> TI (norm1 x) t) /\ (forall g t, T g t -> T (map norm1 g) t).
Proof.
  apply TI_T_ind.
  - intros k. simpl. constructor.
  - intros g t Hg IH. destruct Hg as [x t Hx|a o b ta tb Ha Hb].
    + (* FG [x] *) destruct x as [k|o|g'].
      * inversion Hx; subst. simpl. constructor.
      * inversion Hx.
      * change (norm1 (FG [FG g'])) with (FG (map norm1 [FG g'])). constructor. exact IH.
    + assert (E : norm1 (FG [a; FOp o; b]) = FG (map norm1 [a; FOp o; b])) by (destruct a; reflexivity).
      rewrite E. constructor. exact IH.
  - intros x t Hx IH. simpl. constructor. exact IH.
  - intros a o b ta tb Ha IHa Hb IHb. simpl. constructor; assumption.
Qed.

Lemma T_no_then : (forall x t, TI x t -> no_then t = true) /\ (forall g t, T g t -> no_then t = true).
Proof. apply TI_T_ind; intros; simpl; auto. destruct o; simpl; now rewrite H, H0. Qed.

Lemma T_nonempty g t : T g t -> g <> [].
Proof. intros H; inversion H; discriminate. Qed.

(* t denotes the reading fe: same Boolean value under every assignment, same keys in the same order *)
Definition denotes (t : kexpr) (fe : fcexpr) : Prop := (forall beta, bval beta t = beval beta fe) /\ keys_of t = fc_keys fe.

(* the view of a node the builder starts from *)
Definition fc_view (n : node) : option fctoks := fcb_init n.

(* what the builder returns for `self <op> other` *)
Lemma connect_none_none op (other : node) : fc_view other = None -> nk other <> KFc ->
  (nk other = KEc -> nfcx other = None \/ nfcx other = Some []) -> fcb_connect op None other = None.
Proof.
  unfold fc_view, fcb_init, fcb_connect. intros V NK E. destruct (nk other) eqn:K; try reflexivity; try congruence.
  destruct (E eq_refl) as [-> | ->]; reflexivity.
Qed.

Record fc_ok (n : node) (f : option fcexpr) : Prop := {
  fo_wf : nk n = KEc -> nfcx n <> Some [];
  fo_view : match f with
            | None => fc_view n = None
            | Some fe => exists toks t, fc_view n = Some toks /\ T toks t /\ denotes t fe
            end
}.

Lemma view_cases n : (nk n = KFc /\ fc_view n = Some [FK (nkey n)]) \/
                     (nk n = KEc /\ fc_view n = (if otruthy (nfcx n) then nfcx n else None)) \/
                     ((nk n = KRc \/ nk n = KHint) /\ fc_view n = None).
Proof. unfold fc_view, fcb_init. destruct (nk n); auto. Qed.

(* the builder step, semantically: connecting two views with op yields the join of their readings *)
Lemma connect_spec (op : lop) l r fl fr : fc_ok l fl -> fc_ok r fr ->
  let res := fcb_connect op (fc_view l) r in
  match fc_join (lop_binop op) fl fr with
  | None => res = None
  | Some fe => exists toks t, res = Some toks /\ T toks t /\ denotes t fe
  end /\ res <> Some [].
Proof.
  intros [Wl Vl] [Wr Vr]. cbv zeta.
  assert (Hr : (fr = None /\ forall self, fcb_connect op self r = match self with Some (x :: t) => Some (map norm1 (x :: t)) | _ => self end)
            \/ (exists fe item t, fr = Some fe /\ TI item t /\ denotes t fe /\
                 forall self, fcb_connect op self r = Some (map norm1 (match self with Some (x :: u) => [FG (x :: u); FOp op] | _ => [] end ++ [item])))).
  { destruct (view_cases r) as [[K V]|[[K V]|[K V]]].
    - right. destruct fr as [fe|]; [|rewrite V in Vr; discriminate].
      destruct Vr as [toks [t [E [HT Hb]]]]. rewrite V in E. inversion E; subst. inversion HT; subst.
      exists fe, (FK (nkey r)), t. split; [reflexivity|]. split; [assumption|]. split; [assumption|]. intros self. unfold fcb_connect. rewrite K.
      destruct self as [[|x u]|]; reflexivity.
    - destruct (nfcx r) as [[|y u]|] eqn:F; simpl in V.
      + exfalso. now apply Wr.
      + right. destruct fr as [fe|]; [|rewrite V in Vr; discriminate].
        destruct Vr as [toks [t [E [HT Hb]]]]. rewrite V in E. inversion E; subst.
        exists fe, (FG (y :: u)), t. split; [reflexivity|]. split; [now constructor|]. split; [assumption|]. intros self. unfold fcb_connect. rewrite K, F.
        destruct self as [[|x w]|]; reflexivity.
      + left. destruct fr as [fe|]; [destruct Vr as [toks [t [E _]]]; rewrite V in E; discriminate|]. split; [reflexivity|].
        intros self. unfold fcb_connect. rewrite K, F. reflexivity.
    - left. destruct fr as [fe|]; [destruct Vr as [toks [t [E _]]]; rewrite V in E; discriminate|]. split; [reflexivity|].
      intros self. unfold fcb_connect. destruct K as [K|K]; rewrite K; reflexivity. }
  destruct Hr as [[-> Hc]|[fe [item [t [-> [HI [Hb Hc]]]]]]]; rewrite Hc.
  - (* nothing on the right *)
    destruct fl as [fe|].
    + destruct Vl as [toks [t [E [HT Hb]]]]. rewrite E. pose proof (T_nonempty HT) as N. destruct toks as [|x u]; [congruence|].
      simpl fc_join. split; [|discriminate]. exists (map norm1 (x :: u)), t. split; [reflexivity|]. split; [now apply norm1_preserves|assumption].
    + rewrite Vl. simpl. split; [reflexivity|discriminate].
  - destruct fl as [fe'|].
    + destruct Vl as [toks [t' [E [HT Hb']]]]. rewrite E. pose proof (T_nonempty HT) as N. destruct toks as [|x u]; [congruence|].
      simpl fc_join. split; [|discriminate].
      exists (map norm1 ([FG (x :: u); FOp op] ++ [item])), (EBin (lop_binop op) t' t). split; [reflexivity|]. split.
      * apply norm1_preserves. simpl. constructor; [now constructor|exact HI].
      * destruct Hb as [Hb Hk], Hb' as [Hb' Hk']. split; [intros beta; destruct op; simpl; now rewrite Hb, Hb'|].
        destruct op; simpl; now rewrite Hk, Hk'.
    + rewrite Vl. simpl fc_join. split; [|discriminate].
      exists (map norm1 ([] ++ [item])), t. split; [reflexivity|]. split; [|exact Hb].
      apply norm1_preserves. simpl. now constructor.
Qed.

Lemma fc_ok_of_connect op l r fl fr s h : fc_ok l fl -> fc_ok r fr ->
  fc_ok (mk_ec s h (fcb_connect op (fcb_init l) r)) (fc_join (lop_binop op) fl fr).
Proof.
  intros Hl Hr. destruct (connect_spec op Hl Hr) as [Hspec Hne]. unfold fc_view in Hspec, Hne.
  set (res := fcb_connect op (fcb_init l) r) in *. clearbody res.
  assert (V : fc_view (mk_ec s h res) = if otruthy res then res else None) by reflexivity.
  constructor.
  - intros _. exact Hne.
  - rewrite V. destruct (fc_join (lop_binop op) fl fr) as [fe|].
    + destruct Hspec as [toks [t [E [HT Hb]]]]. rewrite E. pose proof (T_nonempty HT) as N.
      destruct toks as [|x u]; [congruence|]. simpl. exists (x :: u), t. auto.
    + rewrite Hspec. reflexivity.
Qed.

Lemma fc_ok_none s h : fc_ok (mk_ec s h None) None.
Proof. constructor; [discriminate|reflexivity]. Qed.

Lemma valid_sub b l r : valid (EBin b l r) = true -> valid l = true /\ valid r = true.
Proof. destruct b; simpl; intros H; repeat (apply andb_true_iff in H; destruct H as [H ?]); auto. Qed.
Lemma dom_sub b l r : dom (EBin b l r) = true -> dom l = true /\ dom r = true.
Proof. destruct b; simpl; intros H; repeat (apply andb_true_iff in H; destruct H as [H ?]); auto. Qed.

Lemma eval_facts a rho e n : dom e = true -> valid e = true -> env_ok a rho e -> eval_rc rho e = Ok n -> st n = sem a e /\ shape e n.
Proof.
  intros D V E H. pose proof (eval_char D E) as C. rewrite V in C. destruct C as [n' [H' [S Sh]]]. rewrite H in H'. inversion H'; subst. auto.
Qed.

Lemma fc_leaf_rd a e : fc_leaf e = true -> exists k, e = EAtom k /\ rd a e = Some (FcK k).
Proof.
  destruct e as [k|]; simpl; [|discriminate]. unfold fc_leaf, leaf_is. intros H. exists k. split; [reflexivity|]. simpl. now rewrite H.
Qed.

(* the collected format-constraint expression denotes the direct reading of the source expression *)
Theorem fc_reading a rho e : dom e = true -> valid e = true -> env_ok a rho e ->
  forall n, eval_rc rho e = Ok n -> fc_ok n (rd a e).
Proof.
  induction e as [k|b l IHl r IHr]; intros D V E n H.
  - simpl in H. destruct (E k) as [n' [Hl Hn]]; [simpl; now left|]. rewrite Hl in H. simpl in H. inversion H; subst n'. clear H.
    unfold node_ok in Hn. simpl in D. simpl rd. unfold is_kind. destruct (kind_of k) as [[]|] eqn:K; try discriminate; simpl.
    + destruct Hn as [Hk _]. constructor; [rewrite Hk; discriminate|]. unfold fc_view, fcb_init. now rewrite Hk.
    + destruct Hn as [Hk _]. constructor; [rewrite Hk; discriminate|]. unfold fc_view, fcb_init. now rewrite Hk.
    + destruct Hn as [Hk [_ [Hkey _]]]. constructor; [rewrite Hk; discriminate|]. unfold fc_view, fcb_init. rewrite Hk, Hkey.
      exists [FK k], (EAtom k). split; [reflexivity|]. split; [repeat constructor|]. split; [intros beta; reflexivity|reflexivity].
    + contradiction.
  - destruct (dom_sub _ _ _ D) as [Dl Dr]. destruct (valid_sub _ _ _ V) as [Vl Vr].
    pose proof (env_ok_l E) as El. pose proof (env_ok_r E) as Er.
    simpl in H. destruct (eval_rc rho l) as [x|] eqn:Ex; simpl in H; [|discriminate].
    destruct (eval_rc rho r) as [y|] eqn:Ey; simpl in H; [|discriminate].
    specialize (IHl Dl Vl El x eq_refl). specialize (IHr Dr Vr Er y eq_refl).
    destruct (eval_facts Dl Vl El Ex) as [Sx Shx]. destruct (eval_facts Dr Vr Er Ey) as [Sy Shy].
    destruct b; simpl in H.
    + unfold or_composition in H. destruct (or_xor_invalid x y); [discriminate|].
      destruct (lift_cfv (cfv_or (st x) (st y))); simpl in H; [|discriminate]. inversion H; subst.
      apply (fc_ok_of_connect LO); assumption.
    + unfold xor_composition in H. destruct (or_xor_invalid x y); [discriminate|].
      destruct (lift_cfv (cfv_xor (st x) (st y))); simpl in H; [|discriminate]. inversion H; subst.
      apply (fc_ok_of_connect LX); assumption.
    + unfold and_composition in H. destruct (lift_cfv (cfv_and (st x) (st y))); simpl in H; [|discriminate]. inversion H; subst.
      apply (fc_ok_of_connect LU); assumption.
    + unfold then_also_composition in H. rewrite (sh_fc Shx) in H. simpl rd.
      destruct (fc_leaf l) eqn:Fl.
      * destruct (fc_leaf_rd a l Fl) as [k [-> Rk]].
        unfold then_also in H. unfold rd_attach. rewrite <- Sy.
        destruct (cfv_eqb (st y) C_NEUTRAL) eqn:Ny; simpl in H.
        -- rewrite <- (sh_hint Shy). destruct (nkind_eqb (nk y) KHint); [|discriminate]. inversion H; subst.
           assert (Q : cfv_eqb (st y) C_FULFILLED = false) by (apply cfv_eqb_eq in Ny; rewrite Ny; reflexivity). rewrite Q. simpl orb.
           rewrite <- Rk. apply (fc_ok_of_connect LU); assumption.
        -- inversion H; subst. clear H.
           assert (Hh : hint_leaf r = false).
           { destruct (hint_leaf r) eqn:Hr; auto. pose proof (sh_neutral Shy) as Q.
             assert (carries_rc r = false) by (destruct r as [kk|]; simpl in *; [unfold hint_leaf, leaf_is, is_kind in *; destruct (kind_of kk) as [[]|]; simpl in *; congruence|discriminate]).
             rewrite H in Q. simpl in Q. congruence. }
           rewrite Hh, orb_false_r. destruct (cfv_eqb (st y) C_FULFILLED).
           ++ rewrite <- Rk. apply (fc_ok_of_connect LU); assumption.
           ++ apply fc_ok_none.
      * (* the format constraint is on the right *)
        simpl in D. rewrite Dl, Dr, Fl in D. simpl in D. apply andb_true_iff in D. destruct D as [Fr _].
        destruct (fc_leaf_rd a r Fr) as [k [-> Rk]].
        unfold then_also in H. unfold rd_attach. rewrite <- Sx.
        destruct (cfv_eqb (st x) C_NEUTRAL) eqn:Nx; simpl in H.
        -- rewrite <- (sh_hint Shx). destruct (nkind_eqb (nk x) KHint); [|discriminate]. inversion H; subst.
           assert (Q : cfv_eqb (st x) C_FULFILLED = false) by (apply cfv_eqb_eq in Nx; rewrite Nx; reflexivity). rewrite Q. simpl orb.
           rewrite <- Rk. apply (fc_ok_of_connect LU); assumption.
        -- inversion H; subst. clear H.
           assert (Hh : hint_leaf l = false).
           { destruct (hint_leaf l) eqn:Hl; auto. pose proof (sh_neutral Shx) as Q.
             assert (carries_rc l = false) by (destruct l as [kk|]; simpl in *; [unfold hint_leaf, leaf_is, is_kind in *; destruct (kind_of kk) as [[]|]; simpl in *; congruence|discriminate]).
             rewrite H in Q. simpl in Q. congruence. }
           rewrite Hh, orb_false_r. destruct (cfv_eqb (st x) C_FULFILLED).
           ++ rewrite <- Rk. apply (fc_ok_of_connect LU); assumption.
           ++ apply fc_ok_none.
Qed.

(* only format-constraint keys of the source expression occur in the reading *)
Definition keys_ok (e : kexpr) (f : option fcexpr) : Prop :=
  forall g, f = Some g -> forall k, In k (fc_keys g) -> In k (keys_of e) /\ is_kind KFc k = true.

Lemma keys_ok_join e bb x y : keys_ok e x -> keys_ok e y -> keys_ok e (fc_join bb x y).
Proof.
  intros Hx Hy g Hg k Hk. destruct x as [p|], y as [q|]; simpl in Hg; inversion Hg; subst.
  - simpl in Hk. apply in_app_or in Hk. destruct Hk; [eapply Hx|eapply Hy]; eauto.
  - eapply Hx; eauto.
  - eapply Hy; eauto.
Qed.
Lemma keys_ok_l b l r f : keys_ok l f -> keys_ok (EBin b l r) f.
Proof. intros H g Hg k Hk. destruct (H g Hg k Hk). split; auto. simpl. apply in_or_app. now left. Qed.
Lemma keys_ok_r b l r f : keys_ok r f -> keys_ok (EBin b l r) f.
Proof. intros H g Hg k Hk. destruct (H g Hg k Hk). split; auto. simpl. apply in_or_app. now right. Qed.
Lemma keys_ok_none e : keys_ok e None. Proof. intros g H; discriminate. Qed.

Lemma rd_keys a e : dom e = true -> keys_ok e (rd a e).
Proof.
  induction e as [k0|b l IHl r IHr]; intros D.
  - intros g H k Hk. simpl in H. destruct (is_kind KFc k0) eqn:K; [|discriminate]. inversion H; subst.
    simpl in Hk. destruct Hk as [<-|[]]. split; [now left|exact K].
  - destruct (dom_sub _ _ _ D) as [Dl Dr]. specialize (IHl Dl). specialize (IHr Dr).
    destruct b; simpl rd; try (apply keys_ok_join; [now apply keys_ok_l|now apply keys_ok_r]).
    destruct (fc_leaf l) eqn:Fl.
    + unfold rd_attach. destruct (cfv_eqb (sem a r) C_FULFILLED || hint_leaf r); [|apply keys_ok_none].
      apply keys_ok_join; [|now apply keys_ok_r]. apply keys_ok_l.
      destruct (fc_leaf_rd a l Fl) as [k [-> Rk]]. rewrite <- Rk. exact IHl.
    + simpl in D. rewrite Dl, Dr, Fl in D. simpl in D. apply andb_true_iff in D. destruct D as [Fr _].
      unfold rd_attach. destruct (cfv_eqb (sem a l) C_FULFILLED || hint_leaf l); [|apply keys_ok_none].
      apply keys_ok_join; [|now apply keys_ok_l]. apply keys_ok_r.
      destruct (fc_leaf_rd a r Fr) as [k [-> Rk]]. rewrite <- Rk. exact IHr.
Qed.

(* a format constraint attached to an operand that is neither FULFILLED nor a hint takes no part (and the operand's own
   collected constraints are dropped with it: interpretation S1 of DESIGN.md section 7) *)
Lemma unknown_never_binding a x k : fc_leaf x = false -> sem a x <> C_FULFILLED -> hint_leaf x = false ->
  rd a (EBin BThen x (EAtom k)) = None.
Proof.
  intros F S H. simpl. rewrite F. unfold rd_attach. rewrite H.
  destruct (cfv_eqb (sem a x) C_FULFILLED) eqn:E; [apply cfv_eqb_eq in E; contradiction|reflexivity].
Qed.

(* the statement at the level of the reported result *)
Theorem reported_expression a rho e n : dom e = true -> valid e = true -> env_ok a rho e -> eval_rc rho e = Ok n ->
  match rd a e with
  | None => r_fcx (rc_result n) = None
  | Some fe => exists toks t, r_fcx (rc_result n) = Some toks /\ T toks t /\ denotes t fe
  end.
Proof.
  intros D V E H. destruct (fc_reading D V E H) as [W Vw]. unfold rc_result. destruct (outcome_of (st n)). simpl r_fcx.
  unfold fc_view, fcb_init in Vw. destruct (nk n) eqn:K; simpl.
  - destruct (rd a e); [destruct Vw as [? [? [Q _]]]; discriminate|].
    (* RC / hint nodes never carry an expression *) pose proof (eval_char D E) as C. rewrite V in C. destruct C as [n' [H' _]].
    rewrite H in H'. inversion H'; subst n'. clear H'.
    destruct e as [k|b l r]; simpl in H.
    + destruct (E k) as [m [Hm Hn]]; [simpl; now left|]. rewrite Hm in H. inversion H; subst. unfold node_ok in Hn.
      destruct (kind_of k) as [[]|]; try contradiction; destruct Hn as [Q R]; try congruence; tauto.
    + destruct (eval_rc rho l); simpl in H; [|discriminate]. destruct (eval_rc rho r); simpl in H; [|discriminate].
      destruct b; simpl in H; unfold or_composition, xor_composition, and_composition, then_also_composition, then_also in H;
        repeat match type of H with context [if ?c then _ else _] => destruct c end; try discriminate;
        repeat match type of H with context [lift_cfv ?c] => destruct (lift_cfv c); simpl in H end; try discriminate;
        inversion H; subst; simpl in K; discriminate.
  - destruct (rd a e); [destruct Vw as [? [? [Q _]]]; discriminate|].
    pose proof (eval_char D E) as C. rewrite V in C. destruct C as [n' [H' _]]. rewrite H in H'. inversion H'; subst n'. clear H'.
    destruct e as [k|b l r]; simpl in H.
    + destruct (E k) as [m [Hm Hn]]; [simpl; now left|]. rewrite Hm in H. inversion H; subst. unfold node_ok in Hn.
      destruct (kind_of k) as [[]|]; try contradiction; destruct Hn as [Q R]; try congruence; tauto.
    + destruct (eval_rc rho l); simpl in H; [|discriminate]. destruct (eval_rc rho r); simpl in H; [|discriminate].
      destruct b; simpl in H; unfold or_composition, xor_composition, and_composition, then_also_composition, then_also in H;
        repeat match type of H with context [if ?c then _ else _] => destruct c end; try discriminate;
        repeat match type of H with context [lift_cfv ?c] => destruct (lift_cfv c); simpl in H end; try discriminate;
        inversion H; subst; simpl in K; discriminate.
  - exact Vw.
  - destruct (nfcx n) as [[|x u]|] eqn:F; simpl in Vw.
    + exfalso. now apply W.
    + exact Vw.
    + exact Vw.
Qed.
