From Ahb Require Import Model.Prelude Model.Grammar Gen.Gen_logic Gen.Gen_valmaps Model.EvalRC Model.EvalFC Model.EvalAhb Model.Validate.
Set Implicit Arguments.

(* ---------- facts about the regenerated mapping tables (finite domains) ---------- *)
Lemma map_rvv_total f i s : map_rvv f i s <> Exn UnboundLocal /\ map_rvv f i s <> Exn ReturnedNone.
Proof. destruct f as [[|]|], i, s; vm_compute; split; discriminate. Qed.

Lemma map_rvv_range f i s r : map_rvv f i s = Ok r -> r = IS_REQUIRED \/ r = IS_FORBIDDEN \/ r = IS_OPTIONAL.
Proof. destruct f as [[|]|], i, s; vm_compute; intros H; inversion H; auto. Qed.

Lemma map_rvv_documented s :
  (forall i, map_rvv (Some false) i s = Ok IS_FORBIDDEN) /\
  (forall i, is_prefix_operator i = true \/ i = I_MUSS -> map_rvv (Some true) i s = Ok IS_REQUIRED) /\
  map_rvv (Some true) I_KANN s = Ok IS_OPTIONAL /\
  map_rvv (Some true) I_SOLL s = Ok (if s then IS_REQUIRED else IS_OPTIONAL).
Proof.
  split; [|split; [|split]].
  - intros i; destruct i, s; reflexivity.
  - intros i [H| ->]; [destruct i, s; try discriminate H; reflexivity|destruct s; reflexivity].
  - destruct s; reflexivity.
  - destruct s; reflexivity.
Qed.

(* a visited MUSS / prefix-operator node (or SOLL under soll_is_required) with an undetermined outcome aborts the run *)
Lemma unknown_must_aborts i s : (i = I_MUSS \/ is_prefix_operator i = true \/ (i = I_SOLL /\ s = true)) -> map_rvv None i s = Exn NotImpl.
Proof. intros [->|[H|[-> ->]]]; [destruct s; reflexivity|destruct i, s; try discriminate H; reflexivity|reflexivity]. Qed.
Lemma unknown_kann_optional s : map_rvv None I_KANN s = Ok IS_OPTIONAL /\ map_rvv None I_SOLL false = Ok IS_OPTIONAL.
Proof. destruct s; split; reflexivity. Qed.

Lemma combine_table :
  (forall c, combine_rvv None c = Ok c) /\
  (forall c, combine_rvv (Some IS_REQUIRED) c = Ok c) /\
  combine_rvv (Some IS_OPTIONAL) IS_REQUIRED = Ok IS_OPTIONAL /\
  combine_rvv (Some IS_OPTIONAL) IS_FORBIDDEN = Ok IS_FORBIDDEN /\
  combine_rvv (Some IS_OPTIONAL) IS_OPTIONAL = Ok IS_OPTIONAL.
Proof. repeat split; intros; try destruct c; reflexivity. Qed.

(* below an optional node nothing is reported required; below a required node the own status is kept *)
Lemma below_optional_nothing_required c r : combine_rvv (Some IS_OPTIONAL) c = Ok r -> r <> IS_REQUIRED.
Proof. destruct c; vm_compute; intros H; inversion H; discriminate. Qed.
Lemma below_required_own_status_kept c : combine_rvv (Some IS_REQUIRED) c = Ok c.
Proof. destruct c; reflexivity. Qed.

Lemma suffix_table filled r r' : rvv_suffix filled r = Ok r' ->
  (r = IS_REQUIRED /\ r' = (if filled then IS_REQUIRED_AND_FILLED else IS_REQUIRED_AND_EMPTY)) \/
  (r = IS_FORBIDDEN /\ r' = (if filled then IS_FORBIDDEN_AND_FILLED else IS_FORBIDDEN_AND_EMPTY)) \/
  (r = IS_OPTIONAL /\ r' = (if filled then IS_OPTIONAL_AND_FILLED else IS_OPTIONAL_AND_EMPTY)).
Proof. destruct r, filled; vm_compute; intros H; inversion H; auto. Qed.

(* ---------- structure of the traversal ---------- *)
Section Traversal.
Variable nx : Type.
Variable ev : nx -> result ahbres.
Variable invalid_reason : nx -> text.
Notation node := (node nx).
Notation de := (de nx).
Notation validate_node := (Validate.validate_node nx ev invalid_reason).
Notation validate_de := (Validate.validate_de nx ev invalid_reason).
Notation segment_level := (Validate.segment_level nx ev invalid_reason).

Section NodeInd.
  Variable P : node -> Prop.
  Hypothesis HG : forall d x ch, Forall P ch -> P (NGroup d x ch).
  Hypothesis HS : forall d x des, P (NSeg d x des).
  Fixpoint node_ind' (n : node) : P n :=
    match n with
    | NGroup d x ch => HG d x ((fix go (l : list node) : Forall P l :=
                                 match l with [] => Forall_nil _ | c :: t => Forall_cons _ (node_ind' c) (go t) end) ch)
    | NSeg d x des => HS d x des
    end.
End NodeInd.

Definition own_status (x : nx) (parent : option rvv) (soll : bool) : result vres :=
  if match parent with Some p => is_forbidden p | None => false end then Ok (VSeg IS_FORBIDDEN None) else segment_level x parent soll.

Definition children_results (f : node -> result (list (text * vres))) (l : list node) : result (list (text * vres)) :=
  do rs <- mapM f l ;; Ok (concat rs).

Lemma validate_group_eq d x ch parent soll :
  validate_node (NGroup d x ch) parent soll =
  (do r <- own_status x parent soll ;;
   if is_forbidden (vstatus r) then Ok [(d, r)]
   else do rest <- children_results (fun c => validate_node c (Some (vstatus r)) soll) ch ;; Ok ((d, r) :: rest)).
Proof.
  simpl. unfold own_status. destruct (if match parent with Some p => is_forbidden p | None => false end then _ else _) as [r|e]; simpl; [|reflexivity].
  destruct (is_forbidden (vstatus r)); [reflexivity|]. f_equal.
  unfold children_results. induction ch as [|c t IH]; simpl; [reflexivity|].
  destruct (Validate.validate_node nx ev invalid_reason c (Some (vstatus r)) soll) as [a|e]; simpl; [|reflexivity].
  rewrite IH. destruct (mapM _ t) as [rs|e]; simpl; reflexivity.
Qed.

Lemma validate_seg_eq d x des parent soll :
  validate_node (NSeg d x des) parent soll =
  (do r <- own_status x parent soll ;;
   if is_forbidden (vstatus r) then Ok [(d, r)]
   else do rest <- mapM (fun e => validate_de e (vstatus r) soll) des ;; Ok ((d, r) :: rest)).
Proof. reflexivity. Qed.

(* the abstract description of a document-order traversal that stops below forbidden nodes *)
Definition de_discr (e : de) : text := match e with DEFree d _ _ _ => d | DEPool d _ _ => d end.
Inductive Visit : node -> list (text * vres) -> Prop :=
| V_forbidden_g d x ch r : vstatus r = IS_FORBIDDEN -> Visit (NGroup d x ch) [(d, r)]
| V_forbidden_s d x des r : vstatus r = IS_FORBIDDEN -> Visit (NSeg d x des) [(d, r)]
| V_group d x ch r rss : vstatus r <> IS_FORBIDDEN -> Forall2 Visit ch rss -> Visit (NGroup d x ch) ((d, r) :: concat rss)
| V_seg d x des r rs : vstatus r <> IS_FORBIDDEN -> map fst rs = map de_discr des -> Visit (NSeg d x des) ((d, r) :: rs).

Lemma rvv_eqb_eq a b : rvv_eqb a b = true <-> a = b.
Proof. destruct a, b; simpl; split; intros H; try reflexivity; discriminate. Qed.

Lemma validate_de_discr e st soll row : validate_de e st soll = Ok row -> fst row = de_discr e.
Proof.
  destruct e as [d x input vt|d pool input]; simpl.
  - unfold validate_freetext. destruct (ev x) as [r|[]]; simpl; try discriminate; try (intros H; inversion H; reflexivity).
    destruct (map_rvv _ _ _); simpl; [|discriminate]. destruct (combine_rvv _ _); simpl; [|discriminate].
    destruct (rvv_suffix _ _); simpl; [|discriminate]. intros H; inversion H; reflexivity.
  - unfold validate_valuepool.
    destruct (if negb (is_forbidden st) then _ else _) as [p|]; simpl; [|discriminate].
    destruct p; [intros H; inversion H; reflexivity|].
    destruct input as [i|]; [|intros H; inversion H; reflexivity].
    destruct (dict_mem _ _); [intros H; inversion H; reflexivity|].
    destruct (truthy_opt _); intros H; inversion H; reflexivity.
Qed.

Lemma mapM_discr des st soll rs : mapM (fun e => validate_de e st soll) des = Ok rs -> map fst rs = map de_discr des.
Proof.
  revert rs; induction des as [|e t IH]; simpl; intros rs H; [inversion H; reflexivity|].
  destruct (validate_de e st soll) as [row|] eqn:E; simpl in H; [|discriminate].
  destruct (mapM _ t) as [rows|]; simpl in H; [|discriminate]. inversion H; subst. simpl. f_equal; [eapply validate_de_discr; eauto|now apply IH].
Qed.

(* every segment group, segment and data element is reported once, in document order, and nothing below a forbidden node *)
Theorem validate_visits n : forall parent soll rs, validate_node n parent soll = Ok rs -> Visit n rs.
Proof.
  induction n as [d x ch IH|d x des] using node_ind'; intros parent soll rs H.
  - rewrite validate_group_eq in H. destruct (own_status x parent soll) as [r|]; simpl in H; [|discriminate].
    destruct (is_forbidden (vstatus r)) eqn:F.
    + inversion H; subst. apply V_forbidden_g. now apply rvv_eqb_eq.
    + unfold children_results in H. destruct (mapM _ ch) as [rss|] eqn:M; simpl in H; [|discriminate]. inversion H; subst.
      apply V_group; [intros Q; unfold is_forbidden in F; rewrite Q in F; discriminate|].
      clear H. revert rss M. induction IH as [|c t Hc _ IHt]; intros rss M; simpl in M.
      * inversion M; constructor.
      * destruct (Validate.validate_node nx ev invalid_reason c (Some (vstatus r)) soll) as [a|] eqn:Ec; simpl in M; [|discriminate].
        destruct (mapM _ t) as [rest|] eqn:Et; simpl in M; [|discriminate]. inversion M; subst. constructor; [eapply Hc; eauto|now apply IHt].
  - rewrite validate_seg_eq in H. destruct (own_status x parent soll) as [r|]; simpl in H; [|discriminate].
    destruct (is_forbidden (vstatus r)) eqn:F.
    + inversion H; subst. apply V_forbidden_s. now apply rvv_eqb_eq.
    + destruct (mapM _ des) as [rows|] eqn:M; simpl in H; [|discriminate]. inversion H; subst.
      apply V_seg; [intros Q; unfold is_forbidden in F; rewrite Q in F; discriminate|]. eapply mapM_discr; eauto.
Qed.

(* the status of a segment-level node is its own status combined with its parent's *)
Theorem status_is_combination x parent soll r : own_status x parent soll = Ok r ->
  (parent = Some IS_FORBIDDEN /\ r = VSeg IS_FORBIDDEN None) \/
  (parent <> Some IS_FORBIDDEN /\
   match ev x with
   | Exn InvalidExpr => r = VSeg IS_OPTIONAL (Some (invalid_reason x))
   | Exn _ => False
   | Ok a => exists own rv, map_rvv (r_fulfilled (a_rc a)) (a_ind a) soll = Ok own /\ combine_rvv parent own = Ok rv /\
                            r = VSeg rv (r_hints (a_rc a))
   end).
Proof.
  unfold own_status. intros H.
  destruct (match parent with Some p => is_forbidden p | None => false end) eqn:F.
  - left. destruct parent as [p|]; [|discriminate]. apply rvv_eqb_eq in F. subst. inversion H. auto.
  - right. split.
    + intros ->. discriminate.
    + unfold Validate.segment_level in H. destruct (ev x) as [a|e].
      * destruct (map_rvv (r_fulfilled (a_rc a)) (a_ind a) soll) as [own|] eqn:E1; simpl in H; [|discriminate].
        destruct (combine_rvv parent own) as [rv|] eqn:E2; simpl in H; [|discriminate]. inversion H. exists own, rv. auto.
      * destruct e; try discriminate. inversion H. reflexivity.
Qed.
End Traversal.
