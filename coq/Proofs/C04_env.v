(* The nodes the ConditionNodeBuilder builds from a total content evaluation result satisfy the hypothesis env_ok of the
   C04-C07 theorems, so those theorems apply to requirement_constraint_evaluation (rc_evaluation) itself. *)
From Ahb Require Import Model.Prelude Model.Grammar Gen.Gen_logic Gen.Gen_ranges Model.Logic Model.EvalRC Model.Spec Proofs.C03_logic Proofs.C04_eval.
Set Implicit Arguments.

Definition assign_of (c : cer) (k : text) : cfv := match lookup (c_rc c) k with Some s => s | None => C_NEUTRAL end.

(* every requirement key of e has a state other than NEUTRAL, every hint key has a text *)
Definition cer_total (c : cer) (e : kexpr) : Prop :=
  forall k, In k (keys_of e) ->
    match kind_of k with
    | Some KRc => exists s, lookup (c_rc c) k = Some s /\ s <> C_NEUTRAL
    | Some KHint => exists h, lookup (c_hints c) k = Some (Some h)
    | _ => True
    end.

Definition kdof (k : text) : nkind := match kind_of k with Some kd => kd | None => KEc end.
Definition the_node (c : cer) (k : text) : node :=
  match kdof k with
  | KRc => {| nk := KRc; st := assign_of c k; nkey := k; nhint := None; nfcx := None |}
  | KHint => {| nk := KHint; st := C_NEUTRAL; nkey := k; nhint := match lookup (c_hints c) k with Some (Some h) => Some h | _ => None end; nfcx := None |}
  | _ => {| nk := KFc; st := C_NEUTRAL; nkey := k; nhint := None; nfcx := None |}
  end.

Lemma text_eqb_refl t : text_eqb t t = true.
Proof. unfold text_eqb. induction t as [|x t IH]; [reflexivity|]. cbn [list_eqb]. now rewrite N.eqb_refl, IH. Qed.

Lemma mapM_map {A B} (f : A -> result B) (g : A -> B) l : (forall x, In x l -> f x = Ok (g x)) -> mapM f l = Ok (map g l).
Proof.
  induction l as [|x t IH]; intros H; simpl; [reflexivity|]. rewrite (H x (or_introl eq_refl)). simpl.
  rewrite IH by (intros y Hy; apply H; now right). reflexivity.
Qed.

Lemma lookup_map_fn {A} (F : text -> A) (l : list text) k : lookup (map (fun x => (x, F x)) l) k = if existsb (text_eqb k) l then Some (F k) else None.
Proof.
  induction l as [|x t IH]; simpl; [reflexivity|]. destruct (text_eqb k x) eqn:E; simpl; [apply text_eqb_eq in E; now subst|exact IH].
Qed.
Lemma lookup_app {A} (l1 l2 : list (text * A)) k : lookup (l1 ++ l2) k = match lookup l1 k with Some v => Some v | None => lookup l2 k end.
Proof. induction l1 as [|[k' v] t IH]; simpl; [reflexivity|]. destruct (text_eqb k k'); auto. Qed.

Lemma existsb_in k l : In k l -> existsb (text_eqb k) l = true.
Proof. intros H. apply existsb_exists. exists k. split; [exact H|apply text_eqb_refl]. Qed.
Lemma existsb_filter_false k (l : list text) (p : text -> bool) : p k = false -> existsb (text_eqb k) (filter p l) = false.
Proof.
  intros Hp. induction l as [|x t IH]; simpl; [reflexivity|]. destruct (p x) eqn:Px; simpl; [|exact IH].
  destruct (text_eqb k x) eqn:E; [apply text_eqb_eq in E; subst; congruence|exact IH].
Qed.

Definition keys_of_kind (kd : nkind) (keys : list text) : list text := filter (fun k => nkind_eqb (kdof k) kd) keys.

Lemma filter_map_fst kd keys :
  filter (fun p : text * nkind => nkind_eqb (snd p) kd) (map (fun k => (k, kdof k)) keys) = map (fun k => (k, kdof k)) (keys_of_kind kd keys).
Proof. unfold keys_of_kind. induction keys as [|k t IH]; simpl; [reflexivity|]. destruct (nkind_eqb (kdof k) kd); simpl; now rewrite IH. Qed.

Theorem build_env_ok c e : dom e = true -> cer_total c e ->
  exists rho, build_env c (keys_of e) = Ok rho /\ env_ok (assign_of c) rho e.
Proof.
  intros D T.
  assert (Hk : forall k, In k (keys_of e) -> leaf_kind k = Ok (kdof k) /\ kind_of k = Some (kdof k) /\ kdof k <> KEc).
  { clear T. induction e as [k|b l IHl r IHr]; intros k0 Hin.
    - simpl in Hin. destruct Hin as [<-|[]]. simpl in D. unfold kdof, kind_of in *.
      destruct (leaf_kind k) as [kd|] eqn:L; [|discriminate]. repeat split; auto.
      unfold leaf_kind in L. destruct (node_type_of_key k) as [[]|]; inversion L; discriminate.
    - simpl in Hin. apply in_app_or in Hin.
      assert (dom l = true /\ dom r = true) as [Dl Dr] by (destruct b; simpl in D; repeat (apply andb_true_iff in D; destruct D as [D ?]); auto).
      destruct Hin; auto. }
  set (keys := keys_of e) in *.
  set (env := map (fun k => (k, the_node c k)) (keys_of_kind KRc keys) ++ map (fun k => (k, the_node c k)) (keys_of_kind KHint keys)
              ++ map (fun k => (k, the_node c k)) (keys_of_kind KFc keys)).
  exists env. split.
  - unfold build_env.
    rewrite (@mapM_map _ _ (fun k => do kd <- leaf_kind k ;; Ok (k, kd)) (fun k => (k, kdof k)) keys)
      by (intros k Hin; destruct (Hk k Hin) as [-> _]; reflexivity).
    cbn [bind]. cbv zeta. rewrite !filter_map_fst.
    assert (M : forall kd, kd <> KEc ->
              mapM (fun p : text * nkind => do n <- leaf_node c (fst p) kd ;; Ok (fst p, n)) (map (fun k => (k, kdof k)) (keys_of_kind kd keys))
              = Ok (map (fun k => (k, the_node c k)) (keys_of_kind kd keys))).
    { intros kd Hkd. rewrite (@mapM_map _ _ _ (fun p : text * nkind => (fst p, the_node c (fst p)))).
      - rewrite map_map. reflexivity.
      - intros [k kd'] Hin. apply in_map_iff in Hin. destruct Hin as [k0 [E Hin]]. injection E as E1 E2. subst k kd'.
        unfold keys_of_kind in Hin. apply filter_In in Hin. destruct Hin as [Hin Hq]. apply nkind_eqb_eq in Hq.
        simpl fst. specialize (T k0 Hin). destruct (Hk k0 Hin) as [_ [Kk _]]. rewrite Kk in T. unfold the_node. rewrite Hq.
        destruct kd; try congruence; simpl.
        + rewrite Hq in T. destruct T as [s [Ls _]]. rewrite Ls. simpl. unfold assign_of. now rewrite Ls.
        + rewrite Hq in T. destruct T as [h Lh]. rewrite Lh. reflexivity.
        + reflexivity. }
    rewrite (M KRc), (M KHint), (M KFc) by discriminate. cbn [bind]. reflexivity.
  - intros k Hin. destruct (Hk k Hin) as [_ [Kk Hne]]. specialize (T k Hin). rewrite Kk in T.
    exists (the_node c k). split.
    + unfold env. rewrite !lookup_app, !lookup_map_fn.
      assert (Hself : existsb (text_eqb k) (keys_of_kind (kdof k) keys) = true).
      { apply existsb_in. unfold keys_of_kind. apply filter_In. split; [exact Hin|]. now apply nkind_eqb_eq. }
      unfold keys_of_kind in *. destruct (kdof k) eqn:Kd; try congruence.
      * now rewrite Hself.
      * rewrite (@existsb_filter_false k keys (fun k0 => nkind_eqb (kdof k0) KRc)) by (now rewrite Kd). now rewrite Hself.
      * rewrite (@existsb_filter_false k keys (fun k0 => nkind_eqb (kdof k0) KRc)) by (now rewrite Kd).
        rewrite (@existsb_filter_false k keys (fun k0 => nkind_eqb (kdof k0) KHint)) by (now rewrite Kd). now rewrite Hself.
    + unfold node_ok. rewrite Kk. unfold the_node. destruct (kdof k) eqn:Kd; try congruence; simpl.
      * destruct T as [s [Ls Hs]]. repeat split; auto. unfold assign_of. now rewrite Ls.
      * repeat split; auto.
      * repeat split; auto.
Qed.

(* C04 for requirement_constraint_evaluation itself: total content evaluation result, in-domain valid expression *)
Theorem rc_evaluation_outcome c e : dom e = true -> valid e = true -> cer_total c e ->
  exists r, rc_evaluation c e = Ok r /\
    (r_fulfilled r, r_conditional r) =
      match sem (assign_of c) e with
      | C_FULFILLED => (Some true, Some true)
      | C_NEUTRAL => (Some true, Some false)
      | C_UNFULFILLED => (Some false, Some true)
      | C_UNKNOWN => (None, None)
      end.
Proof.
  intros D V T. destruct (build_env_ok D T) as [rho [B E]]. destruct (outcome_thm D V E) as [n [H O]].
  exists (rc_result n). unfold rc_evaluation. rewrite B. simpl. rewrite H. simpl. auto.
Qed.
