From Ahb Require Import Model.Prelude Model.Grammar Gen.Gen_logic Gen.Gen_valmaps Model.EvalRC Model.EvalFC Model.EvalAhb Model.Validate
  Proofs.C13_validate.
Set Implicit Arguments.

Section Pool.
Variable nx : Type.
Variable ev : nx -> result ahbres.
Variable invalid_reason : nx -> text.
Notation validate_valuepool := (Validate.validate_valuepool nx ev).
Notation pool_possible := (Validate.pool_possible nx ev).

(* an entry is admissible if its own expression is fulfilled; an invalid expression counts as selectable *)
Definition admissible (x : nx) : result bool :=
  match ev x with
  | Exn InvalidExpr => Ok true
  | Exn e => Exn e
  | Ok r => Ok (is_true (r_fulfilled (a_rc r)))
  end.
Definition entry_ok (p : text * text * nx) : bool := match admissible (snd p) with Ok b => b | Exn _ => false end.
Definition all_evaluate (pool : list (text * text * nx)) : Prop := forall p, In p pool -> exists b, admissible (snd p) = Ok b.
Definition qm (p : text * text * nx) : text * text := (fst (fst p), snd (fst p)).

Lemma text_eqb_refl t : text_eqb t t = true.
Proof. unfold text_eqb. induction t as [|c t IH]; [reflexivity|]. cbn [list_eqb]. now rewrite N.eqb_refl, IH. Qed.
Lemma text_eqb_false a b : a <> b -> text_eqb a b = false.
Proof. intros H. destruct (text_eqb a b) eqn:E; auto. apply text_eqb_eq in E. contradiction. Qed.

Lemma dict_set_fresh acc k v : ~ In k (map fst acc) -> dict_set acc k v = acc ++ [(k, v)].
Proof.
  induction acc as [|[k' v'] t IH]; simpl; intros H; [reflexivity|].
  rewrite text_eqb_false by (intros ->; apply H; now left). f_equal. apply IH. intros Q. apply H. now right.
Qed.

(* with pairwise different qualifiers the offered values are the admissible entries, in pool order *)
Lemma pool_possible_filter pool : forall acc, all_evaluate pool ->
  NoDup (map fst acc ++ map (fun p => fst (fst p)) pool) ->
  pool_possible pool acc = Ok (acc ++ map qm (filter entry_ok pool)).
Proof.
  induction pool as [|[[q m] x] t IH]; intros acc He Hn; simpl.
  - now rewrite app_nil_r.
  - destruct (He (q, m, x)) as [b Hb]; [now left|]. unfold admissible in Hb. simpl in Hb.
    assert (Hsel : match ev x with Exn InvalidExpr => Ok true | Exn e => Exn e | Ok r => Ok (is_true (r_fulfilled (a_rc r))) end = Ok b) by exact Hb.
    rewrite Hsel. simpl. unfold entry_ok at 1. unfold admissible. simpl. rewrite Hsel.
    assert (Hq : ~ In q (map fst acc)).
    { intros Q. apply NoDup_remove_2 in Hn. apply Hn. apply in_or_app. now left. }
    destruct b.
    + rewrite dict_set_fresh by exact Hq. rewrite IH.
      * simpl. now rewrite <- app_assoc.
      * intros p Hp. apply He. now right.
      * rewrite map_app. cbn [map fst]. rewrite <- app_assoc. exact Hn.
    + apply IH.
      * intros p Hp. apply He. now right.
      * apply NoDup_remove_1 in Hn. exact Hn.
Qed.

Definition offered (pool : list (text * text * nx)) : list (text * text) :=
  match pool with [p] => [qm p] | _ => map qm (filter entry_ok pool) end.

Theorem pool_offers pool d input req row : req <> IS_FORBIDDEN -> all_evaluate pool -> NoDup (map (fun p => fst (fst p)) pool) ->
  validate_valuepool d pool input req = Ok row ->
  match snd row with VDe _ _ _ _ (Some possible) _ => possible = offered pool | _ => False end.
Proof.
  intros Hreq He Hn. unfold Validate.validate_valuepool.
  assert (F : is_forbidden req = false) by (destruct req; try reflexivity; congruence).
  rewrite F. simpl negb. cbv iota.
  assert (P : (match pool with [(q, m, _)] => Ok [(q, m)] | _ => pool_possible pool [] end) = Ok (offered pool)).
  { destruct pool as [|[[q m] x] [|p2 t]]; try reflexivity.
    rewrite pool_possible_filter; auto. }
  rewrite P. simpl bind.
  destruct (offered pool) as [|o os] eqn:Eo; [intros H; inversion H; reflexivity|].
  destruct input as [i|]; [|intros H; inversion H; reflexivity].
  destruct (dict_mem (o :: os) i); [intros H; inversion H; reflexivity|].
  destruct (truthy_opt (Some i)); intros H; inversion H; reflexivity.
Qed.

(* judging the entered input by the offered values *)
Theorem pool_judgement d pool input req possible :
  (if negb (is_forbidden req) then match pool with [(q, m, _)] => Ok [(q, m)] | _ => pool_possible pool [] end else Ok []) = Ok possible ->
  exists row, validate_valuepool d pool input req = Ok (d, row) /\
  match possible with
  | [] => row = VDe IS_FORBIDDEN true None None (Some []) DT_VALUE_POOL
  | _ =>
      match input with
      | Some i =>
          if dict_mem possible i then row = VDe IS_REQUIRED_AND_FILLED true None None (Some possible) DT_VALUE_POOL
          else if truthy_opt input
               then exists h, row = VDe IS_REQUIRED_AND_EMPTY false None (Some h) (Some possible) DT_VALUE_POOL
               else row = VDe IS_REQUIRED_AND_EMPTY true None None (Some possible) DT_VALUE_POOL
      | None => row = VDe IS_REQUIRED_AND_EMPTY true None None (Some possible) DT_VALUE_POOL
      end
  end.
Proof.
  intros H. unfold Validate.validate_valuepool. rewrite H. simpl bind.
  destruct possible as [|o os]; [eexists; split; reflexivity|].
  destruct input as [i|]; [|eexists; split; reflexivity].
  destruct (dict_mem (o :: os) i); [eexists; split; reflexivity|].
  destruct (truthy_opt (Some i)); eexists; split; try reflexivity. eexists; reflexivity.
Qed.

Theorem forbidden_segment_forbids d pool input :
  validate_valuepool d pool input IS_FORBIDDEN = Ok (d, VDe IS_FORBIDDEN true None None (Some []) DT_VALUE_POOL).
Proof. reflexivity. Qed.
(* C16 for value pools: an entry whose expression is invalid is offered (it "is treated as selectable"), whatever the pool looks like *)
Theorem invalid_entry_is_offered pool p : In p pool -> ev (snd p) = Exn InvalidExpr -> In (qm p) (offered pool).
Proof.
  intros Hin Hinv. unfold offered.
  assert (Hok : entry_ok p = true) by (unfold entry_ok, admissible; now rewrite Hinv).
  destruct pool as [|a [|b t]].
  - destruct Hin.
  - destruct Hin as [->|[]]. left. reflexivity.
  - apply in_map. apply filter_In. split; assumption.
Qed.

End Pool.
