(* C17 -- the judgement of a value pool does not look at the MEANINGS of its entries: two pools with the same qualifiers and the same expressions, entry by
   entry, whatever their descriptions (an empty one included), offer the same qualifiers in the same order and judge every entered input alike --
   status, format flag, hint text. The meanings only travel along in the offered dict. *)
From Ahb Require Import Model.Prelude Model.Grammar Gen.Gen_logic Gen.Gen_valmaps Model.EvalRC Model.EvalFC Model.EvalAhb Model.Validate
  Proofs.C13_validate Proofs.C17_pool.


Section Meaning.
Variable nx : Type.
Variable ev : nx -> result ahbres.
Notation validate_valuepool := (Validate.validate_valuepool nx ev).
Notation pool_possible := (Validate.pool_possible nx ev).

Definition qx (p : text * text * nx) : text * nx := (fst (fst p), snd p).
Definition same_entries (p1 p2 : list (text * text * nx)) : Prop := map qx p1 = map qx p2.

(* what a row says apart from the meanings *)
Definition judgement (r : vres) : rvv * bool * option text * option text * option (list text) * dtype :=
  match r with
  | VSeg rv h => (rv, true, None, h, None, DT_TEXT)
  | VDe rv f m h p dt => (rv, f, m, h, option_map (map fst) p, dt)
  end.

Definition same_result (a b : result (text * vres)) : Prop :=
  match a, b with
  | Ok (d1, r1), Ok (d2, r2) => d1 = d2 /\ judgement r1 = judgement r2
  | Exn e1, Exn e2 => e1 = e2
  | _, _ => False
  end.

Lemma dict_set_keys : forall (a1 a2 : list (text * text)) k v1 v2, map fst a1 = map fst a2 ->
  map fst (dict_set a1 k v1) = map fst (dict_set a2 k v2).
Proof.
  induction a1 as [|[k1 w1] t1 IH]; intros [|[k2 w2] t2] k v1 v2 H; cbn in H; try discriminate; [reflexivity|].
  injection H as Hk Ht. subst k2. cbn [dict_set].
  destruct (text_eqb k k1); cbn [map fst]; [now rewrite Ht | f_equal; now apply IH].
Qed.

Lemma dict_mem_keys : forall (a1 a2 : list (text * text)) i, map fst a1 = map fst a2 -> dict_mem a1 i = dict_mem a2 i.
Proof.
  unfold dict_mem. induction a1 as [|[k1 w1] t1 IH]; intros [|[k2 w2] t2] i H; cbn in H; try discriminate; [reflexivity|].
  injection H as Hk Ht. subst k2. cbn [existsb fst]. now rewrite (IH t2 i Ht).
Qed.

Lemma pool_possible_keys : forall p1 p2 a1 a2, same_entries p1 p2 -> map fst a1 = map fst a2 ->
  match pool_possible p1 a1, pool_possible p2 a2 with
  | Ok r1, Ok r2 => map fst r1 = map fst r2
  | Exn e1, Exn e2 => e1 = e2
  | _, _ => False
  end.
Proof.
  unfold same_entries.
  induction p1 as [|[[q1 m1] x1] t1 IH]; intros [|[[q2 m2] x2] t2] a1 a2 H Ha; cbn in H; try discriminate; [exact Ha|].
  injection H as Hq Hx Ht. subst q2 x2. cbn [Validate.pool_possible].
  destruct (ev x1) as [r|e]; [|destruct e]; cbn [bind]; try reflexivity;
    try (apply IH; [exact Ht|]; try destruct (is_true _); try exact Ha; now apply dict_set_keys).
Qed.

Theorem judgement_ignores_meanings : forall d p1 p2 input req, same_entries p1 p2 ->
  same_result (validate_valuepool d p1 input req) (validate_valuepool d p2 input req).
Proof.
  intros d p1 p2 input req H. unfold Validate.validate_valuepool.
  assert (Hp : match (if negb (is_forbidden req) then match p1 with [(q, m, _)] => Ok [(q, m)] | _ => pool_possible p1 [] end else Ok []),
                     (if negb (is_forbidden req) then match p2 with [(q, m, _)] => Ok [(q, m)] | _ => pool_possible p2 [] end else Ok []) with
               | Ok r1, Ok r2 => map fst r1 = map fst r2
               | Exn e1, Exn e2 => e1 = e2
               | _, _ => False
               end).
  { destruct (negb (is_forbidden req)); [|reflexivity].
    pose proof (pool_possible_keys p1 p2 [] [] H eq_refl) as Hpp.
    unfold same_entries in H.
    destruct p1 as [|[[q1 m1] x1] [|e1 t1]], p2 as [|[[q2 m2] x2] [|e2 t2]]; cbn in H; try discriminate; try exact Hpp.
    injection H as Hq _. subst q2. reflexivity. }
  destruct (if negb (is_forbidden req) then match p1 with [(q, m, _)] => Ok [(q, m)] | _ => pool_possible p1 [] end else Ok []) as [r1|e1],
           (if negb (is_forbidden req) then match p2 with [(q, m, _)] => Ok [(q, m)] | _ => pool_possible p2 [] end else Ok []) as [r2|e2];
    try contradiction; cbn [bind]; [|exact Hp].
  destruct r1 as [|h1 t1], r2 as [|h2 t2]; cbn in Hp; try discriminate; [cbn; auto|].
  assert (Hk : map fst (h1 :: t1) = map fst (h2 :: t2)) by exact Hp.
  destruct input as [i|]; [|unfold same_result, judgement, option_map; rewrite Hk; auto].
  rewrite (dict_mem_keys (h1 :: t1) (h2 :: t2) i Hk).
  destruct (dict_mem (h2 :: t2) i); [unfold same_result, judgement, option_map; rewrite Hk; auto|].
  destruct (truthy_opt (Some i)); unfold same_result, judgement, option_map; rewrite Hk; auto.
Qed.

End Meaning.

(* non-vacuity: a described and an undescribed entry *)
Example same_entries_met : same_entries nat [([81]%N, [109]%N, 0); ([82]%N, [], 1)] [([81]%N, [], 0); ([82]%N, [120; 121]%N, 1)].
Proof. reflexivity. Qed.
