(* The grouping inside a run of one and the same operator -- the one thing C01 leaves unspecified and Lark decides irregularly -- does not
   matter for the requirement outcome: the compositional semantics factors through the flattening [flat], so two trees with the same
   flattening (in particular: any two resolutions of one string, C01_unique_modulo_runs) have the same state under every assignment.
   VALIDITY, in contrast, is not invariant under regrouping ([validity_depends_on_grouping]). *)
From Ahb Require Import Model.Prelude Model.Grammar Gen.Gen_logic Gen.Gen_ranges Model.Logic Model.EvalRC Model.Spec Proofs.C03_logic Proofs.C04_eval.

Section SemF.
Variable a : text -> cfv.

Definition is_fc_atom (x : Grammar.fx text) : bool := match x with FA k => is_kind KFc k | _ => false end.

Definition comb (b : binop) (ps : list (bool * cfv)) : cfv :=
  match b with
  | BAnd => fold_right (fun p acc => cand (snd p) acc) C_NEUTRAL ps
  | BOr => fold_right (fun p acc => cor (snd p) acc) C_NEUTRAL ps
  | BXor => fold_right (fun p acc => cxor (snd p) acc) C_NEUTRAL ps
  | BThen => fold_right (fun (p : bool * cfv) acc => if fst p then acc else snd p) C_NEUTRAL ps      (* the first operand that is not a format-constraint key *)
  end.

(* the semantics on flattened trees: an n-ary U/O/X is the fold of the binary operator (NEUTRAL is its identity), a juxtaposition run has the
   state of its operand that is not a format-constraint key *)
Fixpoint semf (f : Grammar.fx text) : cfv :=
  match f with
  | FA k => if is_kind KRc k then a k else C_NEUTRAL
  | FN b l => comb b (map (fun x => (is_fc_atom x, semf x)) l)
  end.
Definition info (x : Grammar.fx text) : bool * cfv := (is_fc_atom x, semf x).

Lemma semf_FN b l : semf (FN b l) = comb b (map info l).
Proof. reflexivity. Qed.

Definition opb (b : binop) : cfv -> cfv -> cfv := match b with BAnd => cand | BOr => cor | BXor => cxor | BThen => fun x _ => x end.

Lemma comb_app_uox b l1 l2 : b <> BThen -> comb b (l1 ++ l2) = opb b (comb b l1) (comb b l2).
Proof.
  intros Hb. destruct b; [| | |congruence]; cbn [comb opb]; induction l1 as [|p t IH]; cbn [app fold_right];
    try (destruct (neutral_identity (fold_right (fun p acc => cor (snd p) acc) C_NEUTRAL l2)) as (_ & _ & _ & H & _ & _); now rewrite H);
    try (destruct (neutral_identity (fold_right (fun p acc => cxor (snd p) acc) C_NEUTRAL l2)) as (_ & _ & _ & _ & _ & H); now rewrite H);
    try (destruct (neutral_identity (fold_right (fun p acc => cand (snd p) acc) C_NEUTRAL l2)) as (_ & H & _); now rewrite H).
  - rewrite IH. now rewrite or_assoc.
  - rewrite IH. now rewrite xor_assoc.
  - rewrite IH. now rewrite and_assoc.
Qed.

Lemma comb_app_then l1 l2 : comb BThen (l1 ++ l2) = if forallb fst l1 then comb BThen l2 else comb BThen l1.
Proof.
  induction l1 as [|[f v] t IH]; cbn [app comb fold_right forallb fst snd andb]; [reflexivity|].
  destruct f; cbn [andb]; [exact IH|reflexivity].
Qed.

Lemma comb_then_all_fc l : forallb fst l = true -> comb BThen l = C_NEUTRAL.
Proof. induction l as [|[f v] t IH]; cbn [comb fold_right forallb fst snd]; [reflexivity|]. destruct f; cbn [andb]; [exact IH|discriminate]. Qed.

Lemma fc_atom_neutral k : is_kind KFc k = true -> (if is_kind KRc k then a k else C_NEUTRAL) = C_NEUTRAL.
Proof.
  unfold is_kind. destruct (kind_of k) as [kd|]; [|discriminate]. intros H. apply nkind_eqb_eq in H. subst kd. reflexivity.
Qed.

(* folding the operands a node contributes to a run of b gives the node's own value *)
Lemma comb_explode b x : comb b (map info (explode b x)) = semf x.
Proof.
  unfold explode. destruct x as [k|b' ys].
  - cbn [map]. unfold info at 1. cbn [is_fc_atom semf]. destruct b; cbn [comb fold_right fst snd].
    + destruct (neutral_identity (if is_kind KRc k then a k else C_NEUTRAL)) as (_ & _ & H & _). exact H.
    + destruct (neutral_identity (if is_kind KRc k then a k else C_NEUTRAL)) as (_ & _ & _ & _ & H & _). exact H.
    + destruct (neutral_identity (if is_kind KRc k then a k else C_NEUTRAL)) as (H & _). exact H.
    + destruct (is_kind KFc k) eqn:F; [symmetry; now apply fc_atom_neutral|reflexivity].
  - destruct (binop_eqb b b') eqn:E.
    + assert (b = b') by (destruct b, b'; try discriminate; reflexivity). subst. reflexivity.
    + cbn [map]. unfold info at 1. cbn [is_fc_atom]. destruct b; cbn [comb fold_right fst snd].
      * destruct (neutral_identity (semf (FN b' ys))) as (_ & _ & H & _). exact H.
      * destruct (neutral_identity (semf (FN b' ys))) as (_ & _ & _ & _ & H & _). exact H.
      * destruct (neutral_identity (semf (FN b' ys))) as (H & _). exact H.
      * reflexivity.
Qed.

Theorem sem_factors_through_flat e : dom e = true -> sem a e = semf (flat e).
Proof.
  induction e as [k|b l IHl r IHr]; intros D; [reflexivity|].
  cbn [flat]. rewrite semf_FN, map_app.
  assert (Dl : dom l = true) by (destruct b; cbn [dom] in D; repeat (apply andb_true_iff in D; destruct D as [D ?]); assumption).
  assert (Dr : dom r = true) by (destruct b; cbn [dom] in D; repeat (apply andb_true_iff in D; destruct D as [D ?]); assumption).
  specialize (IHl Dl). specialize (IHr Dr).
  destruct b.
  - rewrite comb_app_uox by discriminate. rewrite !comb_explode. cbn [sem opb]. now rewrite IHl, IHr.
  - rewrite comb_app_uox by discriminate. rewrite !comb_explode. cbn [sem opb]. now rewrite IHl, IHr.
  - rewrite comb_app_uox by discriminate. rewrite !comb_explode. cbn [sem opb]. now rewrite IHl, IHr.
  - rewrite comb_app_then. cbn [sem].
    destruct (fc_leaf l) eqn:Fl.
    + destruct l as [kl|]; [|discriminate]. cbn [flat explode map forallb]. unfold info at 1. cbn [is_fc_atom fst andb].
      unfold fc_leaf, leaf_is in Fl. rewrite Fl. cbn [andb]. rewrite comb_explode. exact IHr.
    + destruct (forallb fst (map info (explode BThen (flat l)))) eqn:A.
      * (* every operand l contributes is a format-constraint key: its state is NEUTRAL, as is that of r *)
        rewrite IHl, <- (comb_explode BThen (flat l)), (comb_then_all_fc _ A).
        cbn [dom] in D. rewrite Fl in D. cbn [andb orb] in D. apply andb_true_iff in D. destruct D as [_ D]. apply andb_true_iff in D. destruct D as [Fr _].
        destruct r as [kr|]; [|discriminate]. cbn [flat explode map]. unfold info. cbn [is_fc_atom comb fold_right fst snd semf].
        unfold fc_leaf, leaf_is in Fr. rewrite Fr. reflexivity.
      * rewrite comb_explode. exact IHl.
Qed.
End SemF.

Theorem sem_independent_of_runs a e e' : flat e = flat e' -> dom e = true -> dom e' = true -> sem a e = sem a e'.
Proof. intros F D D'. rewrite !sem_factors_through_flat by assumption. now rewrite F. Qed.

(* the reported requirement outcome of two valid trees with the same flattening is the same *)
Theorem outcome_independent_of_runs a rho e e' : flat e = flat e' -> dom e = true -> dom e' = true -> valid e = true -> valid e' = true ->
  env_ok a rho e -> env_ok a rho e' ->
  exists n n', eval_rc rho e = Ok n /\ eval_rc rho e' = Ok n' /\ st n = st n' /\
    (r_fulfilled (rc_result n), r_conditional (rc_result n)) = (r_fulfilled (rc_result n'), r_conditional (rc_result n')).
Proof.
  intros F D D' V V' E E'.
  destruct (state_thm D V E) as (n & H1 & H2). destruct (state_thm D' V' E') as (n' & H1' & H2').
  exists n, n'. repeat split; try assumption.
  - rewrite H2, H2'. now apply sem_independent_of_runs.
  - unfold rc_result. rewrite H2, H2', (sem_independent_of_runs a e e' F D D'). destruct (sem a e'); reflexivity.
Qed.

(* validity is NOT invariant: [501] O [502] O [901] is valid when grouped to the left and invalid when grouped to the right *)
Definition k501 : text := [53;48;49]%N.
Definition k502 : text := [53;48;50]%N.
Definition k901 : text := [57;48;49]%N.
Lemma validity_depends_on_grouping :
  let e := EBin BOr (EBin BOr (EAtom k501) (EAtom k502)) (EAtom k901) in
  let e' := EBin BOr (EAtom k501) (EBin BOr (EAtom k502) (EAtom k901)) in
  flat e = flat e' /\ dom e = true /\ dom e' = true /\ valid e = true /\ valid e' = false.
Proof. vm_compute. repeat split. Qed.

(* ---- from forests to key trees: the tree the evaluation sees carries the key of every condition atom *)
From Ahb Require Import Gen.Gen_grammar Model.Lex Proofs.C01_parse.
Section Map.
Variables A B : Type.
Variable f : A -> B.
Fixpoint emap (e : Grammar.expr A) : Grammar.expr B := match e with EAtom x => EAtom (f x) | EBin b l r => EBin b (emap l) (emap r) end.
Fixpoint fxmap (x : Grammar.fx A) : Grammar.fx B := match x with FA y => FA (f y) | FN b l => FN b (map fxmap l) end.
Lemma explode_fxmap b x : explode b (fxmap x) = map fxmap (explode b x).
Proof. destruct x as [y|b' ys]; [reflexivity|]. cbn [fxmap explode]. destruct (binop_eqb b b'); reflexivity. Qed.
Lemma flat_emap e : flat (emap e) = fxmap (flat e).
Proof. induction e as [x|b l IHl r IHr]; [reflexivity|]. cbn [emap flat fxmap]. now rewrite IHl, IHr, !explode_fxmap, map_app. Qed.
End Map.
Arguments emap {A B} f e.
Arguments fxmap {A B} f x.
Arguments flat_emap {A B} f e.

Definition atom_key (x : atom) : text := match x with AKey k => k | APkg k _ => k | ATime k => k end.
Definition key_tree : Grammar.expr atom -> kexpr := emap atom_key.

(* whichever tree the ambiguity resolution picks for a bracket forest, the requirement outcome is the same -- provided the picked trees are valid *)
Theorem any_resolution_same_outcome its e e' a rho : Rc its e -> Rc its e' ->
  dom (key_tree e) = true -> dom (key_tree e') = true -> valid (key_tree e) = true -> valid (key_tree e') = true ->
  env_ok a rho (key_tree e) -> env_ok a rho (key_tree e') ->
  exists n n', eval_rc rho (key_tree e) = Ok n /\ eval_rc rho (key_tree e') = Ok n' /\ st n = st n' /\
    (r_fulfilled (rc_result n), r_conditional (rc_result n)) = (r_fulfilled (rc_result n'), r_conditional (rc_result n')).
Proof.
  intros R1 R2. apply outcome_independent_of_runs. unfold key_tree. rewrite !flat_emap. f_equal.
  eapply unique_modulo_runs_c; apply resolution_respects_precedence_c; eassumption.
Qed.

(* redundant brackets (C01: any sub-derivation of the precedence grammar wrapped in brackets) leave the requirement outcome unchanged -- again
   provided both trees are valid, which brackets INSIDE a run of O or X over hints and format constraints need not preserve *)
Theorem redundant_brackets_same_outcome its its' e0 e e' a rho : D 0 its its' e0 -> Rc its e -> Rc its' e' ->
  dom (key_tree e) = true -> dom (key_tree e') = true -> valid (key_tree e) = true -> valid (key_tree e') = true ->
  env_ok a rho (key_tree e) -> env_ok a rho (key_tree e') ->
  exists n n', eval_rc rho (key_tree e) = Ok n /\ eval_rc rho (key_tree e') = Ok n' /\ st n = st n' /\
    (r_fulfilled (rc_result n), r_conditional (rc_result n)) = (r_fulfilled (rc_result n'), r_conditional (rc_result n')).
Proof.
  intros HD R1 R2. apply outcome_independent_of_runs. unfold key_tree. rewrite !flat_emap. f_equal.
  exact (redundant_brackets HD R1 R2).
Qed.

(* ---- exactly where the grouping inside a run decides about validity: rotating (a op b) op c into a op (b op c) keeps a valid tree valid unless
   op is O or X and b, c are a single hint and a single format constraint (in either order) -- then, and only then, it becomes invalid *)
Definition hint_fc_pair (x y : kexpr) : bool := (hint_leaf x && fc_leaf y) || (fc_leaf x && hint_leaf y).

Lemma leaf_pair_no_rc x y : hint_fc_pair x y = true -> carries_rc x = false /\ carries_rc y = false.
Proof.
  unfold hint_fc_pair, hint_leaf, fc_leaf, leaf_is. intros H.
  destruct x as [kx|], y as [ky|]; cbn [carries_rc] in *; try (rewrite ?andb_false_r in H; discriminate).
  unfold is_kind in *. destruct (kind_of kx) as [[]|], (kind_of ky) as [[]|]; cbn in H; try discriminate; split; reflexivity.
Qed.

Theorem rotation_validity b x y z : b = BOr \/ b = BXor -> valid (EBin b (EBin b x y) z) = true ->
  valid (EBin b x (EBin b y z)) = negb (hint_fc_pair y z).
Proof.
  intros Hb V.
  assert (V' : valid x = true /\ valid y = true /\ valid z = true /\ or_xor_ok x y = true /\ or_xor_ok (EBin b x y) z = true).
  { destruct Hb; subst b; cbn [valid] in V; repeat (apply andb_true_iff in V; destruct V as [V ?]); repeat split; assumption. }
  destruct V' as (Vx & Vy & Vz & Oxy & Oxyz).
  unfold or_xor_ok in Oxy, Oxyz. apply andb_true_iff in Oxy. destruct Oxy as [_ Cxy]. apply andb_true_iff in Oxyz. destruct Oxyz as [_ Cxyz].
  apply eqb_prop in Cxy. apply eqb_prop in Cxyz. cbn [carries_rc] in Cxyz. rewrite <- Cxy, orb_diag in Cxyz.
  assert (E : valid (EBin b x (EBin b y z)) = or_xor_ok y z && or_xor_ok x (EBin b y z)).
  { destruct Hb; subst b; cbn [valid]; rewrite Vx, Vy, Vz; cbn [andb]; reflexivity. }
  rewrite E. unfold or_xor_ok. cbn [carries_rc hint_leaf fc_leaf leaf_is]. fold (hint_leaf y) (fc_leaf y) (hint_leaf z) (fc_leaf z).
  rewrite <- Cxy, <- Cxyz, orb_diag, !eqb_reflx, !andb_false_r, !andb_true_r. cbn [orb negb andb]. unfold hint_fc_pair. reflexivity.
Qed.

Theorem rotation_validity_and x y z : valid (EBin BAnd (EBin BAnd x y) z) = valid (EBin BAnd x (EBin BAnd y z)).
Proof. cbn [valid]. now rewrite andb_assoc. Qed.

(* and when the rotation stays valid, nothing observable changes (C05_outcome_independent_of_run_grouping applies: same flattening) *)
Lemma rotation_same_flat b (x y z : kexpr) : b <> BThen -> flat (EBin b (EBin b x y) z) = flat (EBin b x (EBin b y z)).
Proof.
  intros Hb. cbn [flat explode]. destruct b; try congruence; cbn [binop_eqb]; now rewrite app_assoc.
Qed.

(* the hypotheses of the run-grouping theorems are met by different trees: ([1] O [2]) O ([3] U [501]) against [1] O ([2] O ([3] U [501])) *)
Example run_grouping_hypotheses_met :
  let x := EBin BAnd (EAtom [51%N]) (EAtom k501) in
  let e := EBin BOr (EBin BOr (EAtom [49%N]) (EAtom [50%N])) x in
  let e' := EBin BOr (EAtom [49%N]) (EBin BOr (EAtom [50%N]) x) in
  e <> e' /\ flat e = flat e' /\ dom e = true /\ dom e' = true /\ valid e = true /\ valid e' = true.
Proof. cbv zeta. split; [discriminate|]. vm_compute. repeat split. Qed.
