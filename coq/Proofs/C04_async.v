(* ConditionNodeBuilder under every schedule: the program of Model/NodeBuilderAsync.v (two gathers, dict(zip(...)), node construction) returns the
   environment of the sequential model, whatever the order in which the evaluators and hint look-ups run; with the content-evaluation-result based
   look-ups that model is build_env of Model/EvalRC.v, i.e. the environment C04's theorems are about. *)
From Ahb Require Import Model.Prelude Model.Grammar Gen.Gen_logic Gen.Gen_ranges Model.Logic Model.EvalRC Model.Async Model.NodeBuilderAsync Proofs.C12_async.

Lemma text_eqb_true_iff a b : text_eqb a b = true <-> a = b.
Proof. split; [apply text_eqb_eq|intros ->; apply text_eqb_refl]. Qed.

Lemma mapM_ext_in {A B} (f g : A -> result B) (l : list A) : (forall x, In x l -> f x = g x) -> mapM f l = mapM g l.
Proof.
  induction l as [|a t IH]; intros H; [reflexivity|]. simpl. rewrite (H a (or_introl eq_refl)), IH; [reflexivity|].
  intros x Hx. apply H. now right.
Qed.

Lemma mapM_map {A B C} (g : A -> B) (f : B -> result C) (l : list A) : mapM f (map g l) = mapM (fun a => f (g a)) l.
Proof. induction l as [|a t IH]; simpl; [reflexivity|]. rewrite IH. reflexivity. Qed.

Lemma sequence_map {A B} (f : A -> result B) (l : list A) : sequence (map f l) = mapM f l.
Proof. induction l as [|a t IH]; simpl; [reflexivity|]. rewrite IH. reflexivity. Qed.

Lemma lookup_last_notin {A} (l : list text) (vs : list A) k : ~ In k l -> lookup_last (combine l vs) k = None.
Proof.
  revert vs. induction l as [|a t IH]; intros vs H; [reflexivity|]. destruct vs as [|v vt]; [reflexivity|]. simpl.
  rewrite IH by (intros Q; apply H; now right).
  destruct (text_eqb k a) eqn:E; [|reflexivity]. apply text_eqb_eq in E. subst. exfalso. apply H. now left.
Qed.

(* dict(zip(keys, results)) with results that are a function of the key: looking a key up finds that key's value, repeated keys or not *)
Lemma lookup_last_mapM {A} (f : text -> result A) (l : list text) : forall vs, mapM f l = Ok vs ->
  forall k, In k l -> exists v, f k = Ok v /\ lookup_last (combine l vs) k = Some v.
Proof.
  induction l as [|a t IH]; intros vs H k Hk; [destruct Hk|].
  simpl in H. destruct (f a) as [va|] eqn:Fa; simpl in H; [|discriminate].
  destruct (mapM f t) as [vt|] eqn:Ft; simpl in H; [|discriminate]. inversion H; subst. simpl.
  destruct (in_dec (list_eq_dec N.eq_dec) k t) as [Hin|Hnot].
  - destruct (IH vt eq_refl k Hin) as (v & Fk & L). exists v. rewrite L. auto.
  - destruct Hk as [->|Hk]; [|contradiction]. rewrite (lookup_last_notin t vt k Hnot), text_eqb_refl. eauto.
Qed.

Section Refine.
Variable U : Type.
Variable rcp : text -> prog (nv U).
Variable hintp : text -> prog (nv U).
Notation nv := (nv U).
Notation builder_prog := (builder_prog U rcp hintp).
Notation rcf_of := (rcf_of U rcp).
Notation hintf_of := (hintf_of U hintp).

Lemma rc_nodes_refine c (sel : list (text * nkind)) :
  rc_nodes_of U (map fst sel) (map (den c) (map rcp (map fst sel)))
  = mapM (fun p => do n <- leaf_node_gen (rcf_of c) (hintf_of c) (fst p) KRc ;; Ok (fst p, n)) sel.
Proof.
  unfold rc_nodes_of. rewrite !map_map.
  change (map (fun x => as_cfv (den c (rcp (fst x)))) sel) with (map (fun x => rcf_of c (fst x)) sel).
  rewrite sequence_map.
  destruct (mapM (fun x => rcf_of c (fst x)) sel) as [vals|e] eqn:M; cbn [bind].
  - rewrite mapM_map. apply mapM_ext_in. intros p Hp. cbn [leaf_node_gen].
    assert (M' : mapM (rcf_of c) (map fst sel) = Ok vals) by (rewrite mapM_map; exact M).
    destruct (lookup_last_mapM (rcf_of c) (map fst sel) vals M' (fst p) (in_map fst sel p Hp)) as (v & Fv & L).
    rewrite L, Fv. reflexivity.
  - (* the first exception in key order, on both sides *)
    clear - M. revert e M. induction sel as [|p t IH]; intros e M; [discriminate|]. simpl in *.
    destruct (rcf_of c (fst p)) as [v|e1]; cbn [bind] in *; [|congruence].
    destruct (mapM (fun x => rcf_of c (fst x)) t) as [vt|e2] eqn:Mt; cbn [bind] in M; [discriminate|].
    rewrite <- (IH e2 eq_refl). inversion M; subst. reflexivity.
Qed.

Lemma hint_nodes_refine c (sel : list (text * nkind)) :
  hint_nodes_of U (map fst sel) (map (den c) (map hintp (map fst sel)))
  = (do texts <- mapM (fun p => hintf_of c (fst p)) sel ;;
     mapM (fun kv => match snd kv with
                     | Some h => Ok (fst kv, {| nk := KHint; st := C_NEUTRAL; nkey := fst kv; nhint := Some h; nfcx := None |})
                     | None => Exn KeyErr
                     end) (combine (map fst sel) texts)).
Proof.
  unfold hint_nodes_of. rewrite !map_map.
  change (map (fun x => as_hint (den c (hintp (fst x)))) sel) with (map (fun x => hintf_of c (fst x)) sel).
  rewrite sequence_map. reflexivity.
Qed.

Lemma fc_nodes_refine c (sel : list (text * nkind)) :
  Ok (fc_nodes_of (map fst sel)) = mapM (fun p => do n <- leaf_node_gen (rcf_of c) (hintf_of c) (fst p) KFc ;; Ok (fst p, n)) sel.
Proof. induction sel as [|p t IH]; [reflexivity|]. cbn [mapM]. rewrite <- IH. reflexivity. Qed.

Theorem den_builder c keys : as_env (den c (builder_prog keys)) = build_env_gen (rcf_of c) (hintf_of c) keys.
Proof.
  unfold NodeBuilderAsync.builder_prog, build_env_gen.
  destruct (mapM (fun k => do kd <- leaf_kind k ;; Ok (k, kd)) keys) as [kinds|e]; cbn [bind]; [|reflexivity].
  unfold keys_of_kind. cbn [den]. rewrite rc_nodes_refine.
  destruct (mapM _ (filter (fun p => nkind_eqb (snd p) KRc) kinds)) as [rcs|e]; cbn [bind]; [|reflexivity].
  cbn [den as_env]. rewrite hint_nodes_refine.
  destruct (mapM (fun p => hintf_of c (fst p)) (filter (fun p => nkind_eqb (snd p) KHint) kinds)) as [texts|e]; cbn [bind]; [|reflexivity].
  destruct (mapM _ (combine _ texts)) as [hs|e]; cbn [bind]; [|reflexivity].
  rewrite <- (fc_nodes_refine c). reflexivity.
Qed.

Theorem builder_every_schedule c keys (r : nv) :
  steps (initial c (builder_prog keys)) (Done r) -> as_env r = build_env_gen (rcf_of c) (hintf_of c) keys.
Proof. intros H. apply schedule_independent in H. rewrite H. apply den_builder. Qed.
End Refine.

(* with look-ups that answer from a content evaluation result the sequential model is build_env *)
Definition rc_of_cer (c : cer) (k : text) : result cfv := of_option NotImpl (lookup (c_rc c) k).
Definition hint_of_cer (c : cer) (k : text) : result (option text) :=
  Ok (match lookup (c_hints c) k with Some (Some h) => Some h | _ => None end).

Lemma hints_two_phase c (sel : list (text * nkind)) :
  (do texts <- mapM (fun p => hint_of_cer c (fst p)) sel ;;
   mapM (fun kv => match snd kv with
                   | Some h => Ok (fst kv, {| nk := KHint; st := C_NEUTRAL; nkey := fst kv; nhint := Some h; nfcx := None |})
                   | None => Exn KeyErr
                   end) (combine (map fst sel) texts))
  = mapM (fun p => do n <- leaf_node c (fst p) KHint ;; Ok (fst p, n)) sel.
Proof.
  assert (NoExn : forall l e, mapM (fun p0 : text * nkind => hint_of_cer c (fst p0)) l <> Exn e).
  { induction l as [|q u IHu]; intros e; [discriminate|]. cbn [mapM]. unfold hint_of_cer at 1. cbn [bind].
    destruct (mapM _ u) as [x|e2] eqn:Mu; cbn [bind]; [discriminate|]. exfalso. now apply (IHu e2). }
  induction sel as [|p t IH]; [reflexivity|]. cbn [mapM map]. unfold hint_of_cer at 1. cbn [bind].
  destruct (mapM (fun p0 : text * nkind => hint_of_cer c (fst p0)) t) as [texts|e] eqn:M; cbn [bind] in *.
  - cbn [combine mapM snd fst]. unfold leaf_node at 1.
    destruct (lookup (c_hints c) (fst p)) as [[h|]|]; cbn [bind]; try reflexivity. rewrite IH. reflexivity.
  - exfalso. now apply (NoExn t e).
Qed.

Theorem build_env_is_gen c keys : build_env c keys = build_env_gen (rc_of_cer c) (hint_of_cer c) keys.
Proof.
  unfold build_env, build_env_gen. destruct (mapM _ keys) as [kinds|e]; cbn [bind]; [|reflexivity].
  cbv zeta.
  rewrite (mapM_ext_in (fun p => do n <- leaf_node c (fst p) KRc ;; Ok (fst p, n))
                       (fun p => do n <- leaf_node_gen (rc_of_cer c) (hint_of_cer c) (fst p) KRc ;; Ok (fst p, n))) by (intros; reflexivity).
  rewrite (mapM_ext_in (fun p => do n <- leaf_node c (fst p) KFc ;; Ok (fst p, n))
                       (fun p => do n <- leaf_node_gen (rc_of_cer c) (hint_of_cer c) (fst p) KFc ;; Ok (fst p, n))) by (intros; reflexivity).
  destruct (mapM _ (filter (fun p => nkind_eqb (snd p) KRc) kinds)) as [rcs|e]; cbn [bind]; [|reflexivity].
  rewrite <- hints_two_phase.
  destruct (mapM (fun p : text * nkind => hint_of_cer c (fst p)) (filter (fun p => nkind_eqb (snd p) KHint) kinds)) as [texts|e]; cbn [bind]; reflexivity.
Qed.
