(* The evaluated single constraints the dict-based FcEvaluator model builds from a content evaluation result satisfy the
   hypotheses fenv_ok / msgs_ok of the C08 theorems, so these apply to format_constraint_evaluation (fc_evaluation) itself. *)
From Ahb Require Import Model.Prelude Model.Grammar Gen.Gen_logic Gen.Gen_ranges Model.Logic Model.EvalRC Model.EvalFC Model.Spec
  Proofs.C03_logic Proofs.C04_eval Proofs.C04_env Proofs.C08_fc.
Set Implicit Arguments.

(* the truth assignment a content evaluation result stands for (keys without an entry: false, never consulted below) *)
Definition beta_of (c : cer) (k : text) : bool := match lookup (c_fc c) k with Some v => fst v | None => false end.
(* every format-constraint key of the expression has an entry *)
Definition fc_total (c : cer) (e : kexpr) : Prop := forall k, In k (keys_of e) -> exists v, lookup (c_fc c) k = Some v.
(* interpretation I-C08 on the input: an entry carries an error message iff it is unfulfilled *)
Definition fc_messages_ok (c : cer) (e : kexpr) : Prop :=
  forall k v, In k (keys_of e) -> lookup (c_fc c) k = Some v -> (snd v = None <-> fst v = true).

Definition entry_of (c : cer) (k : text) : efc :=
  match lookup (c_fc c) k with Some v => {| ff := fst v; fmsg := snd v |} | None => {| ff := false; fmsg := None |} end.

Theorem build_fenv_ok c e : fc_total c e ->
  exists fe, build_fenv c (keys_of e) = Ok fe /\ fenv_ok (beta_of c) fe e /\ (fc_messages_ok c e -> msgs_ok fe e).
Proof.
  intros T. exists (map (fun k => (k, entry_of c k)) (keys_of e)). split; [|split].
  - unfold build_fenv. apply mapM_map. intros k Hin. destruct (T k Hin) as [v Hv]. unfold entry_of. rewrite Hv. reflexivity.
  - intros k Hin. exists (entry_of c k). split.
    + rewrite lookup_map_fn. now rewrite (existsb_in k (keys_of e) Hin).
    + unfold entry_of, beta_of. destruct (T k Hin) as [v Hv]. now rewrite Hv.
  - intros M k v Hin Hl. rewrite lookup_map_fn, (existsb_in k (keys_of e) Hin) in Hl. inversion Hl; subst v. clear Hl.
    destruct (T k Hin) as [v Hv]. unfold entry_of. rewrite Hv. simpl. exact (M k v Hin Hv).
Qed.

(* C08 for format_constraint_evaluation itself *)
Theorem fc_evaluation_value c e : no_then e = true -> fc_total c e ->
  exists r, fc_evaluation c (Some e) = Ok r /\ ff r = bval (beta_of c) e /\ (fc_messages_ok c e -> (fmsg r <> None <-> ff r = false)).
Proof.
  intros N T. destruct (build_fenv_ok T) as [fe [B [F M]]]. destruct (fc_boolean N F) as [r [E V]].
  exists r. unfold fc_evaluation. rewrite B. simpl. split; [exact E|]. split; [exact V|]. intros Hm. exact (fc_message_iff (M Hm) E).
Qed.

Example fc_total_example :
  let c := {| c_rc := []; c_hints := []; c_fc := [([57;48;49]%N, (true, None)); ([57;48;50]%N, (false, Some [120]%N))] |} in
  let e := EBin BXor (EAtom [57;48;49]%N) (EAtom [57;48;50]%N) in
  fc_total c e /\ fc_messages_ok c e /\ no_then e = true.
Proof.
  cbv zeta. split; [|split; [|reflexivity]].
  - intros k [<-|[<-|[]]]; eexists; reflexivity.
  - intros k v [<-|[<-|[]]] H; vm_compute in H; inversion H; subst; simpl; split; intros Q; try reflexivity; discriminate Q.
Qed.
