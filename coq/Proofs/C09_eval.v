(* Tie T for evaluate_ahb_expression_tree end to end on a small scope enumerated completely (Gen/Gen_ahbeval.v, regenerated from /repo on every run): the
   reported indicator, requirement result (outcome, conditional flag, collected expression, hints) and format result (verdict, message) -- or the
   exception class -- are what eval_ahb of Model/EvalAhb.v reports. *)
From Ahb Require Import Model.Prelude Model.Grammar Gen.Gen_logic Gen.Gen_valmaps Gen.Gen_enums Model.EvalRC Model.EvalFC Model.EvalAhb Corr.Eval Corr.Validate Gen.Gen_ahbeval.

Lemma ahb_rows_ok : forallb ahb_check ahb_rows = true.
Proof. vm_compute. reflexivity. Qed.
Lemma ahb_rows_nonempty : 1000 <= length ahb_rows.
Proof. vm_compute. repeat constructor. Qed.
