From Ahb Require Import Model.Prelude Model.Grammar Gen.Gen_logic Gen.Gen_valmaps Gen.Gen_enums Model.EvalRC Model.EvalFC Model.EvalAhb.
Set Implicit Arguments.

(* ---------- normalisation of indicator tokens (over the regenerated callbacks) ---------- *)
Definition lower_char (c : N) : N := if (65 <=? c)%N && (c <=? 90)%N then (c + 32)%N else c.
Definition upper_ascii (c : N) : N := if (97 <=? c)%N && (c <=? 122)%N then (c - 32)%N else c.
(* all ASCII letter-case variants of a word *)
Fixpoint case_variants (w : text) : list text :=
  match w with
  | [] => [[]]
  | c :: t => let r := case_variants t in map (cons (lower_char c)) r ++ map (cons (upper_ascii c)) r
  end.
Definition w_m : text := [109]%N.  Definition w_muss : text := [109;117;115;115]%N.
Definition w_s : text := [115]%N.  Definition w_soll : text := [115;111;108;108]%N.
Definition w_k : text := [107]%N.  Definition w_kann : text := [107;97;110;110]%N.
Definition w_x : text := [120]%N.  Definition w_o : text := [111]%N.  Definition w_u : text := [117]%N.

Definition all_ok (f : text -> result indicator) (i : indicator) (ws : list text) : bool :=
  forallb (fun v => match f v with Ok j => indicator_eqb i j | Exn _ => false end) (flat_map case_variants ws).

Lemma normalise_table :
  all_ok modal_mark_of_token I_MUSS [w_m; w_muss] = true /\ all_ok modal_mark_of_token I_SOLL [w_s; w_soll] = true /\
  all_ok modal_mark_of_token I_KANN [w_k; w_kann] = true /\ all_ok prefix_operator_of_token I_PX [w_x] = true /\
  all_ok prefix_operator_of_token I_PO [w_o] = true /\ all_ok prefix_operator_of_token I_PU [w_u] = true.
Proof. vm_compute. repeat split. Qed.

Lemma all_ok_spec f i ws v : all_ok f i ws = true -> In v (flat_map case_variants ws) -> f v = Ok i.
Proof.
  unfold all_ok. rewrite forallb_forall. intros H Hv. specialize (H v Hv).
  destruct (f v) as [j|]; [|discriminate]. destruct i, j; simpl in H; congruence.
Qed.

Theorem normalise : forall v,
  (In v (flat_map case_variants [w_m; w_muss]) -> modal_mark_of_token v = Ok I_MUSS) /\
  (In v (flat_map case_variants [w_s; w_soll]) -> modal_mark_of_token v = Ok I_SOLL) /\
  (In v (flat_map case_variants [w_k; w_kann]) -> modal_mark_of_token v = Ok I_KANN) /\
  (In v (flat_map case_variants [w_x]) -> prefix_operator_of_token v = Ok I_PX) /\
  (In v (flat_map case_variants [w_o]) -> prefix_operator_of_token v = Ok I_PO) /\
  (In v (flat_map case_variants [w_u]) -> prefix_operator_of_token v = Ok I_PU).
Proof.
  intros v. destruct normalise_table as [A [B [C [D [E F]]]]].
  repeat split; intros H; eapply all_ok_spec; eauto.
Qed.

Example normalise_nonvacuous : In [77;117;83;115]%N (flat_map case_variants [w_m; w_muss]) /\ length (flat_map case_variants [w_m; w_muss]) = 18.
Proof. vm_compute. split; [right; right; auto 20|reflexivity]. Qed.

(* ---------- the first fulfilled part decides, otherwise the last ---------- *)
Definition fulfilled_part (r : ahbres) : bool := is_true (r_fulfilled (a_rc r)).
Definition mark_conditional (many : bool) (r : ahbres) : ahbres :=
  if many then {| a_ind := a_ind r;
                  a_rc := {| r_fulfilled := r_fulfilled (a_rc r); r_conditional := Some true; r_fcx := r_fcx (a_rc r); r_hints := r_hints (a_rc r) |};
                  a_fc := a_fc r |}
  else r.

Theorem select_spec many rs r : select many rs = Some r ->
  (exists pre x post, rs = pre ++ x :: post /\ forallb (fun y => negb (fulfilled_part y)) pre = true /\ fulfilled_part x = true /\
                      r = mark_conditional many x)
  \/ (forallb (fun y => negb (fulfilled_part y)) rs = true /\ exists pre, rs = pre ++ [r]).
Proof.
  revert r. induction rs as [|x t IH]; intros r H; [discriminate|]. simpl in H.
  fold (fulfilled_part x) in H. destruct (fulfilled_part x) eqn:F.
  - left. exists [], x, t. inversion H. repeat split; auto.
  - destruct t as [|y t'].
    + right. inversion H; subst. split; [simpl; now rewrite F|]. exists []. reflexivity.
    + destruct (IH r H) as [[pre [z [post [E [P [Fz R]]]]]]|[P [pre E]]].
      * left. exists (x :: pre), z, post. rewrite E. repeat split; auto. simpl. now rewrite F.
      * right. split; [simpl in *; now rewrite F|]. exists (x :: pre). now rewrite E.
Qed.

(* the reported indicator, hints, format-constraint expression and format result are those of the selected part *)
Lemma mark_conditional_keeps many r :
  a_ind (mark_conditional many r) = a_ind r /\ r_fulfilled (a_rc (mark_conditional many r)) = r_fulfilled (a_rc r) /\
  r_hints (a_rc (mark_conditional many r)) = r_hints (a_rc r) /\ r_fcx (a_rc (mark_conditional many r)) = r_fcx (a_rc r) /\
  a_fc (mark_conditional many r) = a_fc r.
Proof. destruct many; repeat split. Qed.

Lemma bare_counts_fulfilled i : fulfilled_part (bare_result i) = true /\ r_conditional (a_rc (bare_result i)) = Some false /\
  a_fc (bare_result i) = fc_ok.
Proof. repeat split. Qed.

Lemma select_total many rs : rs <> [] -> exists r, select many rs = Some r.
Proof.
  induction rs as [|x t IH]; intros H; [congruence|]. simpl. destruct (is_true _); [eauto|]. destruct t; [eauto|]. apply IH. discriminate.
Qed.
