(* C20 -- white space BEHIND a datetime: a string without NUL whose last character is an ASCII white space character never parses as an AWARE datetime
   (fromisoformat either fails or yields a naive one), so 931..935 are unfulfilled with a message.  Complements Proofs/C20_padded.v (leading). *)
From Coq Require Import ZArith Lia List Bool Arith ZifyN.
From Ahb Require Import Model.Prelude Gen.Gen_tz Model.Time Proofs.C20_time.
Local Open Scope nat_scope.

Section Bytes.
Variable b : list tk.
Let n := length b.
Hypothesis Hnz : forall i, i < n -> is_ch (at_ b i) 0 = false.
Hypothesis Hpos : 0 < n.
Hypothesis Hlast_dg : is_dg (at_ b (n - 1)) = false.
Hypothesis Hlast_z : is_ch (at_ b (n - 1)) 90 = false.

Lemma beyond i : n <= i -> at_ b i = Ch 0.
Proof. intros H. unfold at_. apply nth_overflow. exact H. Qed.

Lemma digit_inside i : is_dg (at_ b i) = true -> i < n - 1.
Proof.
  intros H. destruct (Nat.lt_ge_cases i n) as [Hi|Hi]; [|rewrite (beyond i Hi) in H; discriminate].
  destruct (Nat.eq_dec i (n - 1)) as [->|]; [rewrite Hlast_dg in H; discriminate | lia].
Qed.

Lemma pd_spec : forall k p acc p1 v, parse_digits b p k acc = Some (p1, v) ->
  p1 = p + k /\ forall i, p <= i < p + k -> is_dg (at_ b i) = true.
Proof.
  induction k as [|k IH]; intros p acc p1 v H; cbn [parse_digits] in H.
  - injection H as <- _. split; [lia | intros i Hi; lia].
  - destruct (at_ b p) as [d|c] eqn:Hp; [|discriminate].
    destruct (IH _ _ _ _ H) as (-> & Hd). split; [lia|].
    intros i Hi. destruct (Nat.eq_dec i p) as [->|]; [rewrite Hp; reflexivity | apply Hd; lia].
Qed.

Lemma pd_end k p acc p1 v : 0 < k -> parse_digits b p k acc = Some (p1, v) -> p1 < n.
Proof.
  intros Hk H. destruct (pd_spec _ _ _ _ _ H) as (-> & Hd).
  pose proof (digit_inside (p + k - 1) (Hd (p + k - 1) ltac:(lia))). lia.
Qed.

Lemma skip_spec : forall f p, p < n -> skip_digits b p f < n.
Proof.
  induction f as [|f IH]; intros p Hp; cbn [skip_digits]; [exact Hp|].
  destruct (is_dg (at_ b p)) eqn:Hd; [|exact Hp]. apply IH. pose proof (digit_inside p Hd). lia.
Qed.

Lemma frac_not_done p vals v us : p < n -> parse_fraction b n p vals <> HDone false v us.
Proof.
  intros Hp. unfold parse_fraction.
  set (tp := if Nat.leb 6 (n - p) then 6 else n - p).
  assert (Htp : 0 < tp) by (unfold tp; destruct (Nat.leb 6 (n - p)); lia).
  destruct (parse_digits b p tp 0) as [[p1 us']|] eqn:Hpd; [|discriminate].
  pose proof (pd_end _ _ _ _ _ Htp Hpd) as Hp1.
  pose proof (skip_spec (length b) p1 Hp1) as Hs.
  rewrite (Hnz _ Hs). cbn [negb]. discriminate.
Qed.

Lemma loop_not_done : forall k first hs p vals v us, (k = 0 -> p < n) -> hms_loop b n k first hs p vals <> HDone false v us.
Proof.
  induction k as [|k IH]; intros first hs p vals v us Hk; cbn [hms_loop]; [apply frac_not_done; auto|].
  destruct (parse_digits b p 2 0) as [[p1 d]|] eqn:Hpd; [|discriminate].
  assert (Hp1 : p1 < n) by (apply (pd_end 2 p 0 p1 d); [lia | exact Hpd]).
  destruct (Nat.leb n (Datatypes.S p1)) eqn:Hle.
  - rewrite (Hnz _ Hp1). cbn [negb]. discriminate.
  - apply Nat.leb_gt in Hle.
    destruct ((if first then is_ch (at_ b p1) 58 else hs) && is_ch (at_ b p1) 58); [apply IH; intros _; lia|].
    destruct (is_ch (at_ b p1) 46 || is_ch (at_ b p1) 44); [apply frac_not_done; lia|].
    destruct (negb (if first then is_ch (at_ b p1) 58 else hs)); [apply IH; intros _; lia | discriminate].
Qed.

Lemma parse_time_naive p0 rt : parse_time b p0 n = Some rt -> rt_tz rt = None.
Proof.
  unfold parse_time. set (tz := find_tz b p0 n (Datatypes.S (length b))).
  destruct (parse_hh_mm_ss_ff b p0 tz) as [|rv1 vals us]; [discriminate|].
  destruct (Nat.eqb tz n); [destruct rv1; [discriminate|]; intros H; injection H as <-; reflexivity|].
  destruct (is_ch (at_ b tz) 90) eqn:Hz.
  - destruct (is_ch (at_ b (Datatypes.S tz)) 0) eqn:H0; [|discriminate]. exfalso.
    assert (Htz : tz < n) by (destruct (Nat.lt_ge_cases tz n) as [|Hge]; [assumption|rewrite (beyond tz Hge) in Hz; discriminate]).
    destruct (Nat.lt_ge_cases (Datatypes.S tz) n) as [Hlt|Hge]; [rewrite (Hnz _ Hlt) in H0; discriminate|].
    assert (tz = n - 1) by lia. subst tz. rewrite H in Hz. rewrite Hlast_z in Hz. discriminate.
  - unfold parse_hh_mm_ss_ff.
    destruct (hms_loop b n 3 true true (Datatypes.S tz) []) as [|rv tvals tus] eqn:Hl; [discriminate|].
    destruct rv; [discriminate|]. exfalso. exact (loop_not_done 3 true true (Datatypes.S tz) [] tvals tus ltac:(discriminate) Hl).
Qed.
End Bytes.

(* ------------------------------------------------------------------ from code points to bytes *)
Definition nz (t : tk) : Prop := is_ch t 0 = false.

Ltac fa := repeat (first [apply Forall_nil | apply Forall_cons]).
Lemma utf8_nz t a : nz t -> utf8 t = Some a -> Forall nz a.
Proof.
  unfold nz. destruct t as [d|c]; intros Hc H; unfold utf8 in H.
  - injection H as <-. fa. reflexivity.
  - cbn [is_ch] in Hc. apply N.eqb_neq in Hc.
    assert (Hb : forall k y, (128 <= k)%N -> nz (Ch (k + y))) by (intros k y Hk; unfold nz; cbn [is_ch]; apply N.eqb_neq; lia).
    destruct (c <? 128)%N.
    { assert (HF : Forall nz [Ch c]) by (fa; unfold nz; cbn [is_ch]; now apply N.eqb_neq). injection H as <-. exact HF. }
    destruct (c <? 2048)%N.
    { assert (HF : Forall nz [Ch (192 + c / 64); Ch (128 + c mod 64)]%N) by (fa; apply Hb; lia). injection H as <-. exact HF. }
    destruct (c <? 65536)%N.
    { destruct (is_surrogate (Ch c)); [discriminate|].
      assert (HF : Forall nz [Ch (224 + c / 4096); Ch (128 + (c / 64) mod 64); Ch (128 + c mod 64)]%N) by (fa; apply Hb; lia). injection H as <-. exact HF. }
    destruct (c <=? 1114111)%N; [|discriminate].
    assert (HF : Forall nz [Ch (240 + c / 262144); Ch (128 + (c / 4096) mod 64); Ch (128 + (c / 64) mod 64); Ch (128 + c mod 64)]%N) by (fa; apply Hb; lia).
    injection H as <-. exact HF.
Qed.

Lemma encode_nz : forall l b, Forall nz l -> encode l = Some b -> Forall nz b.
Proof.
  induction l as [|t r IH]; intros b Hl H; cbn [encode] in H; [injection H as <-; constructor|].
  inversion Hl as [|? ? Ht Hr]; subst.
  destruct (utf8 t) as [a|] eqn:Ha; [|discriminate]. destruct (encode r) as [b'|] eqn:Hb; [|discriminate].
  injection H as <-. apply Forall_app. split; [exact (utf8_nz t a Ht Ha) | exact (IH b' Hr eq_refl)].
Qed.

Lemma encode_app : forall l x, encode (l ++ [x]) = match encode l, utf8 x with Some a, Some c => Some (a ++ c) | _, _ => None end.
Proof.
  induction l as [|t r IH]; intros x; cbn [app encode].
  - destruct (utf8 x) as [c|]; [now rewrite app_nil_r | reflexivity].
  - rewrite IH. destruct (utf8 t) as [a|]; [|reflexivity]. destruct (encode r) as [b'|]; [|reflexivity].
    destruct (utf8 x) as [c|]; [now rewrite app_assoc | reflexivity].
Qed.

Lemma at_nz b : Forall nz b -> forall i, i < length b -> is_ch (at_ b i) 0 = false.
Proof. intros H i Hi. rewrite Forall_forall in H. apply H. unfold at_. now apply nth_In. Qed.

Lemma at_last b x : at_ (b ++ [x]) (length (b ++ [x]) - 1) = x.
Proof. rewrite app_length. cbn [length]. replace (length b + 1 - 1) with (length b) by lia. unfold at_. apply nth_middle. Qed.

Lemma set_nth_nz : forall i x l, nz x -> Forall nz l -> Forall nz (set_nth i x l).
Proof.
  intros i x l Hx. revert i. induction l as [|a r IH]; intros i Hl; [destruct i; constructor|].
  inversion Hl; subst. destruct i; cbn [set_nth]; constructor; auto.
Qed.

Lemma set_nth_last : forall l i x y, is_surrogate (at_ (l ++ [y]) i) = true -> is_surrogate y = false -> exists l', set_nth i x (l ++ [y]) = l' ++ [y].
Proof.
  induction l as [|a r IH]; intros i x y Hs Hy.
  - exfalso. destruct i as [|[|j]]; cbn in Hs; [rewrite Hy in Hs; discriminate | discriminate | discriminate].
  - destruct i as [|j]; cbn [app set_nth]; [now exists (x :: r)|].
    destruct (IH j x y Hs Hy) as (l' & ->). now exists (a :: l').
Qed.

Lemma sanitize_nz l : Forall nz l -> Forall nz (sanitize l).
Proof.
  intros H. unfold sanitize.
  destruct (is_surrogate (at_ l 7)); [apply set_nth_nz; [reflexivity | exact H]|].
  destruct (is_surrogate (at_ l 8)); [apply set_nth_nz; [reflexivity | exact H]|].
  destruct (is_surrogate (at_ l 10)); [apply set_nth_nz; [reflexivity | exact H]| exact H].
Qed.

Lemma sanitize_last l y : is_surrogate y = false -> exists l', sanitize (l ++ [y]) = l' ++ [y].
Proof.
  intros Hy. unfold sanitize.
  destruct (is_surrogate (at_ (l ++ [y]) 7)) eqn:H7; [now apply set_nth_last|].
  destruct (is_surrogate (at_ (l ++ [y]) 8)) eqn:H8; [now apply set_nth_last|].
  destruct (is_surrogate (at_ (l ++ [y]) 10)) eqn:H10; [now apply set_nth_last | now exists l].
Qed.

Lemma build_naive r d : build r = Some d -> match rd_time r with None => True | Some t => rt_tz t = None end -> dt_off d = None.
Proof.
  unfold build. destruct (resolve_date (rd_date r)) as [[[y m] dd]|]; [|discriminate].
  destruct (rd_time r) as [t|]; intros H Ht.
  - rewrite Ht in H. cbn in H. destruct (date_ok y m dd && time_ok _ _ _ _); [injection H as <-; reflexivity | discriminate].
  - cbn in H. destruct (date_ok y m dd && true); [injection H as <-; reflexivity | discriminate].
Qed.

Definition ascii_ws : list N := [32; 9; 10; 13; 11; 12]%N.

(* a last character that is neither an ASCII digit nor Z nor NUL nor a surrogate *)
Definition bad_end (w : N) : Prop := is_ascii_digit w = false /\ w <> 90%N /\ w <> 0%N /\ is_surrogate (Ch w) = false.

Lemma utf8_last w c : bad_end w -> utf8 (Ch w) = Some c -> exists c' x, c = c' ++ [x] /\ is_dg x = false /\ is_ch x 90 = false.
Proof.
  intros (Hd & Hz & H0 & Hs) H. unfold utf8 in H.
  assert (Hk : forall k y, (91 <= k)%N -> is_ch (Ch (k + y)) 90 = false) by (intros k y Hk; cbn [is_ch]; apply N.eqb_neq; lia).
  destruct (w <? 128)%N.
  { injection H as <-. exists [], (Ch w). repeat split. cbn [is_ch]. now apply N.eqb_neq. }
  destruct (w <? 2048)%N.
  { assert (Hx := Hk 128%N (w mod 64)%N ltac:(lia)). injection H as <-. exists [Ch (192 + w / 64)%N], (Ch (128 + w mod 64)%N). repeat split. exact Hx. }
  destruct (w <? 65536)%N.
  { rewrite Hs in H. assert (Hx := Hk 128%N (w mod 64)%N ltac:(lia)). injection H as <-.
    exists [Ch (224 + w / 4096)%N; Ch (128 + (w / 64) mod 64)%N], (Ch (128 + w mod 64)%N). repeat split. exact Hx. }
  destruct (w <=? 1114111)%N; [|discriminate].
  assert (Hx := Hk 128%N (w mod 64)%N ltac:(lia)). injection H as <-.
  exists [Ch (240 + w / 262144)%N; Ch (128 + (w / 4096) mod 64)%N; Ch (128 + (w / 64) mod 64)%N], (Ch (128 + w mod 64)%N). repeat split. exact Hx.
Qed.

(* on classified code points: no NUL, the last one neither digit nor Z *)
Lemma fromisoformat_trailing l w d : Forall nz l -> bad_end w -> fromisoformat (l ++ [Ch w]) = Some d -> dt_off d = None.
Proof.
  intros Hl Hw. unfold fromisoformat.
  destruct (parse_fields (l ++ [Ch w])) as [r|] eqn:Hp; [|discriminate]. intros Hb. apply (build_naive r d Hb).
  unfold parse_fields in Hp. destruct (Nat.ltb (length (l ++ [Ch w])) 7); [discriminate|].
  assert (Hsur : is_surrogate (Ch w) = false) by apply Hw.
  assert (Hwnz : nz (Ch w)) by (unfold nz; cbn [is_ch]; apply N.eqb_neq; apply Hw).
  pose proof (sanitize_nz (l ++ [Ch w]) ltac:(apply Forall_app; split; [exact Hl | repeat constructor; exact Hwnz])) as Hsn.
  destruct (sanitize_last l (Ch w) Hsur) as (l' & Hs). rewrite Hs in Hp, Hsn.
  destruct (encode (l' ++ [Ch w])) as [b|] eqn:He; [|discriminate].
  pose proof (encode_nz _ _ Hsn He) as Hbnz.
  rewrite encode_app in He. destruct (encode l') as [a|]; [|discriminate].
  destruct (utf8 (Ch w)) as [c|] eqn:Hu; [|discriminate]. injection He as <-.
  destruct (utf8_last w c Hw Hu) as (c' & x & -> & Hxd & Hxz). rewrite app_assoc in *.
  destruct (find_separator ((a ++ c') ++ [x])) as [sep|]; [|discriminate].
  destruct (parse_date ((a ++ c') ++ [x]) sep) as [rd|]; [|discriminate].
  destruct (Nat.ltb sep (length ((a ++ c') ++ [x]))).
  - destruct (parse_time ((a ++ c') ++ [x]) _ (length ((a ++ c') ++ [x]))) as [rt|] eqn:Hpt; [|discriminate].
    injection Hp as <-. cbn [rd_time].
    apply (parse_time_naive ((a ++ c') ++ [x]) (at_nz _ Hbnz)) in Hpt; [exact Hpt | rewrite app_length; cbn; lia | rewrite at_last; exact Hxd | rewrite at_last; exact Hxz].
  - injection Hp as <-. exact I.
Qed.

(* an aware datetime ends in a digit or in Z *)
Theorem last_character_is_digit_or_Z s w : ~ In 0%N s -> bad_end w -> parse_as_datetime (s ++ [w]) = PErr.
Proof.
  intros H0 Hw. unfold parse_as_datetime.
  destruct (s ++ [w]) as [|c0 r0] eqn:E; [destruct s; discriminate|]. rewrite <- E. clear E c0 r0.
  rewrite map_app. cbn [map].
  assert (Hc : classify w = Ch w) by (unfold classify; destruct Hw as (-> & _); reflexivity).
  rewrite Hc.
  assert (Hz : ends_with_Z (map classify s ++ [Ch w]) = false).
  { unfold ends_with_Z. rewrite rev_app_distr. cbn [rev app is_ch]. apply N.eqb_neq. apply Hw. }
  rewrite Hz.
  assert (Hl : Forall nz (map classify s)).
  { apply Forall_forall. intros t Ht. apply in_map_iff in Ht. destruct Ht as (c & <- & Hc'). unfold nz, classify.
    destruct (is_ascii_digit c); [reflexivity|]. cbn [is_ch]. apply N.eqb_neq. intros ->. exact (H0 Hc'). }
  destruct (fromisoformat (map classify s ++ [Ch w])) as [d|] eqn:Hf; [|reflexivity].
  now rewrite (fromisoformat_trailing _ w d Hl Hw Hf).
Qed.

Lemma ws_bad_end w : In w (ascii_ws ++ [160; 8239; 12288; 65279])%N -> bad_end w.
Proof. intros H. cbn [In ascii_ws app] in H. repeat (destruct H as [<-|H]; [repeat split; discriminate|]). contradiction. Qed.

Theorem trailing_white_space_is_no_datetime s w : ~ In 0%N s -> In w ascii_ws -> parse_as_datetime (s ++ [w]) = PErr.
Proof. intros H0 Hw. apply last_character_is_digit_or_Z; [exact H0|]. apply ws_bad_end. apply in_or_app. now left. Qed.

Corollary trailing_white_space_unfulfilled s w : ~ In 0%N s -> In w ascii_ws ->
  eval_931 (s ++ [w]) = Ok unfulfilled_v /\ eval_932 (s ++ [w]) = Ok unfulfilled_v /\ eval_933 (s ++ [w]) = Ok unfulfilled_v /\
  eval_934 (s ++ [w]) = Ok unfulfilled_v /\ eval_935 (s ++ [w]) = Ok unfulfilled_v.
Proof. intros H0 Hw. apply other_strings. now apply trailing_white_space_is_no_datetime. Qed.

(* the statement bites: "2022-06-01T00:00:00+02:00" is a datetime (and fulfils 932), with a blank behind it it is none *)
Definition example_text : text := [50;48;50;50;45;48;54;45;48;49;84;48;48;58;48;48;58;48;48;43;48;50;58;48;48]%N.
Example trailing_example : eval_932 example_text = Ok fulfilled_v /\ ~ In 0%N example_text /\ eval_932 (example_text ++ [32%N]) = Ok unfulfilled_v.
Proof. split; [vm_compute; reflexivity|]. split; [|vm_compute; reflexivity]. cbn [In example_text]. intros H. repeat (destruct H as [H|H]; [discriminate|]). exact H. Qed.
