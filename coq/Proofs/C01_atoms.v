(* Parsing neither drops, invents nor reorders atoms: every tree the grammar derives for a forest carries exactly the
   atoms of the forest, in written order; the same for the token sequence of the forest. *)
From Coq Require Import Lia.
From Ahb Require Import Model.Prelude Model.Grammar Gen.Gen_grammar Model.Lex Proofs.Prec Proofs.C02_language Proofs.C01_lexprint Proofs.C01_print.

Fixpoint eatoms (e : expr) : list atom := match e with EAtom a => [a] | EBin _ l r => eatoms l ++ eatoms r end.
Fixpoint iatoms (x : item) : list atom := match x with IA a => [a] | IO _ => [] | IG g => flat_map iatoms g end.
Definition tatoms (ts : list tok) : list atom := flat_map (fun t => match t with TA a => [a] | _ => [] end) ts.

Lemma GF_atoms its e : GFc its e -> eatoms e = flat_map iatoms its.
Proof.
  induction 1 as [r l1 l2 e1 e2 _ IH1 _ IH2|l1 l2 e1 e2 _ IH1 _ IH2|a|g e _ IH]; simpl.
  - now rewrite flat_map_app, IH1, IH2.
  - now rewrite flat_map_app, IH1, IH2.
  - reflexivity.
  - now rewrite app_nil_r.
Qed.

Theorem parse_keeps_atoms its e : Rc its e -> eatoms e = flat_map iatoms its.
Proof. intros H. apply GF_atoms. now apply (@R_GF atom rule rule_alias rule_order order_then). Qed.

Lemma tatoms_app a b : tatoms (a ++ b) = tatoms a ++ tatoms b.
Proof. unfold tatoms. apply flat_map_app. Qed.

Lemma untok_atoms : forall x, tatoms (untok x) = iatoms x.
Proof.
  fix IH 1. intros [a|r|g]; try reflexivity. simpl untok. change (TL :: flat_map untok g ++ [TR]) with ([TL] ++ flat_map untok g ++ [TR]).
  rewrite !tatoms_app. simpl. rewrite app_nil_r.
  induction g as [|y t IHt]; [reflexivity|]. simpl. rewrite tatoms_app, IH, IHt. reflexivity.
Qed.
Lemma untoks_atoms its : tatoms (untoks its) = flat_map iatoms its.
Proof. unfold untoks. induction its as [|x t IH]; [reflexivity|]. simpl. now rewrite tatoms_app, untok_atoms, IH. Qed.

(* from the written expression to the tree: the atoms of any parse are the atoms of the written tokens, in order *)
Theorem written_atoms l its e : group (map (fun p : text * ptok => tok_of (snd p)) l) = Some its -> Rc its e ->
  eatoms e = tatoms (map (fun p => tok_of (snd p)) l).
Proof. intros G R. apply group_iff in G. rewrite G, untoks_atoms. now apply parse_keeps_atoms. Qed.

(* the same for the atom list Model/Keys.v extracts the keys from *)
From Ahb Require Model.Keys.
Lemma keys_atoms e : Keys.atoms e = eatoms e.
Proof. induction e as [a|b l IHl r IHr]; simpl; [reflexivity|now rewrite IHl, IHr]. Qed.
Theorem written_key_atoms l its e : group (map (fun p : text * ptok => tok_of (snd p)) l) = Some its -> Rc its e ->
  Keys.atoms e = tatoms (map (fun p => tok_of (snd p)) l).
Proof. intros G R. rewrite keys_atoms. now apply written_atoms with (its := its). Qed.

(* ---------- every atom of a parse is a well-formed token value ---------- *)
Definition atom_wf (a : atom) : Prop :=
  match a with
  | AKey k => nonempty k = true /\ all_digits k = true
  | APkg k _ => exists ds, k = ds ++ [80%N] /\ nonempty ds = true /\ all_digits ds = true
  | ATime k => exists c, k = [85; 66; c]%N /\ (49 <=? c)%N && (c <=? 51)%N = true
  end.

Lemma written_atoms_wf l : Forall (fun p : text * ptok => all_ws (fst p) = true /\ ptok_ok (snd p) = true) l ->
  Forall atom_wf (tatoms (map (fun p => tok_of (snd p)) l)).
Proof.
  induction 1 as [|[w p] l [_ Hp] _ IH]; [constructor|]. simpl. apply Forall_app. split; [|exact IH]. simpl in Hp.
  destruct p as [| |c r|w1 ds w2|w1 ds w2 [[[[d1 c] d2] w3]|]|w1 c w2]; simpl; try (now constructor);
    simpl in Hp; repeat (apply andb_true_iff in Hp; destruct Hp as [Hp ?]); (constructor; [|constructor]); simpl.
  - split; assumption.
  - exists ds. auto.
  - exists ds. auto.
  - exists c. split; [reflexivity|]. apply andb_true_iff. split; assumption.
Qed.

Theorem parsed_atoms_wf l its e : Forall (fun p : text * ptok => all_ws (fst p) = true /\ ptok_ok (snd p) = true) l ->
  group (map (fun p => tok_of (snd p)) l) = Some its -> Rc its e -> Forall atom_wf (eatoms e).
Proof. intros Hl G R. rewrite (written_atoms l its e G R). now apply written_atoms_wf. Qed.
