(* C10 at text level: parsing the expression in which every package [nP] is textually replaced by "(" package text ")"
   gives, modulo same-operator runs, the substituted tree the resolver model computes. *)
From Coq Require Import Lia.
From Ahb Require Import Model.Prelude Model.Grammar Gen.Gen_grammar Model.Lex Gen.Gen_timecond Model.Resolve
  Proofs.Prec Proofs.Canon Proofs.C01_parse Proofs.C02_language Proofs.C01_lexprint Proofs.C01_print Proofs.C02_lexsound Proofs.C10_resolve.

(* the textual substitution, on a written expression (white space and spellings as written) *)
Definition subst_piece (ptext : text -> option text) (wp : text * ptok) : text :=
  match snd wp with
  | PPkg _ ds _ _ => match ptext (ds ++ [80%N]) with
                     | Some body => fst wp ++ [40%N] ++ body ++ [41%N]
                     | None => fst wp ++ render_ptok (snd wp)
                     end
  | p => fst wp ++ render_ptok p
  end.
Definition subst_text (ptext : text -> option text) (l : list (text * ptok)) (trail : text) : text :=
  concat (map (subst_piece ptext) l) ++ trail.

Definition subst_tok (pits : text -> option (list item)) (t : tok) : list tok :=
  match t with
  | TA (APkg k _) => match pits k with Some its => TL :: untoks its ++ [TR] | None => [t] end
  | _ => [t]
  end.

(* every package text is a condition expression: it lexes and groups to the forest pits k, of which pe k is a parse *)
Definition packages_parse (ptext : text -> option text) (pits : text -> option (list item)) (pe : text -> option expr) : Prop :=
  forall k, match ptext k with
            | Some body => exists ts its t, lex body = Some ts /\ group ts = Some its /\ Rc its t /\ pits k = Some its /\ pe k = Some t
            | None => pits k = None /\ pe k = None
            end.

Lemma lex_single w p : all_ws w = true -> ptok_ok p = true -> lex (w ++ render_ptok p) = Some [tok_of p].
Proof.
  intros Hw Hp. assert (F : Forall (fun q : text * ptok => all_ws (fst q) = true /\ ptok_ok (snd q) = true) [(w, p)]) by (constructor; [split; assumption|constructor]).
  pose proof (lex_render [(w, p)] [] F eq_refl) as H.
  unfold render in H. simpl in H. now rewrite !app_nil_r in H.
Qed.

Lemma lex_ws trail : all_ws trail = true -> lex trail = Some [].
Proof. intros H. exact (lex_render [] trail (Forall_nil _) H). Qed.

Lemma subst_text_lexes ptext pits pe l trail : packages_parse ptext pits pe -> Forall ok_pair l -> all_ws trail = true ->
  lex (subst_text ptext l trail) = Some (flat_map (subst_tok pits) (map (fun p => tok_of (snd p)) l)).
Proof.
  intros HP Hl Ht. unfold subst_text. induction Hl as [|[w p] l [Hw Hp] _ IH]; simpl.
  - now apply lex_ws.
  - rewrite <- app_assoc. apply lex_app; [|exact IH]. simpl in Hw, Hp.
    assert (Plain : lex (w ++ render_ptok p) = Some [tok_of p]) by now apply lex_single.
    destruct p as [| |c r|w1 ds w2|w1 ds w2 rep|w1 c w2]; try exact Plain.
    unfold subst_piece. simpl fst. simpl snd. specialize (HP (ds ++ [80%N])).
    assert (Tk : exists rep', tok_of (PPkg w1 ds w2 rep) = TA (APkg (ds ++ [80%N]) rep')) by (destruct rep as [[[[? ?] ?] ?]|]; eexists; reflexivity).
    destruct Tk as [rep' Tk]. rewrite Tk. simpl subst_tok.
    destruct (ptext (ds ++ [80%N])) as [body|].
    + destruct HP as [ts [its [t [L [G [_ [Pi _]]]]]]]. rewrite Pi. apply group_iff in G. subst ts.
      change (TL :: untoks its ++ [TR]) with ([TL] ++ untoks its ++ [TR]).
      rewrite app_assoc. apply lex_app; [exact (lex_single w PL Hw eq_refl)|]. apply lex_app; [exact L|].
      exact (lex_single [] PR eq_refl eq_refl).
    + destruct HP as [-> _]. rewrite <- Tk. exact Plain.
Qed.

(* nested induction over forests *)
Lemma item_forest_ind (P : item -> Prop) :
  (forall a, P (IA a)) -> (forall r, P (IO r)) -> (forall g, Forall P g -> P (IG g)) -> forall x, P x.
Proof.
  intros HA HO HG. fix IH 1. intros [a|r|g]; [apply HA|apply HO|]. apply HG. induction g as [|y t IHt]; constructor; [apply IH|exact IHt].
Qed.

Lemma subst_untok pits : forall x, flat_map (subst_tok pits) (untok x) = untok (subst_item pits x).
Proof.
  apply item_forest_ind.
  - intros [k|k rep|k]; simpl; try reflexivity. destruct (pits k); simpl; [now rewrite app_nil_r|reflexivity].
  - reflexivity.
  - intros g Hg. simpl. rewrite flat_map_app. simpl. f_equal. f_equal.
    induction Hg as [|y t Hy _ IH]; simpl; [reflexivity|]. rewrite flat_map_app, Hy, IH. reflexivity.
Qed.

Lemma subst_untoks pits its : flat_map (subst_tok pits) (untoks its) = untoks (subst_items pits its).
Proof.
  unfold untoks, subst_items. induction its as [|x t IH]; simpl; [reflexivity|]. now rewrite flat_map_app, subst_untok, IH.
Qed.

Lemma packages_parse_derivable ptext pits pe : packages_parse ptext pits pe -> packages_derivable pits pe.
Proof.
  intros HP k. specialize (HP k). destruct (ptext k).
  - destruct HP as [ts [its [tr [_ [_ [R [-> ->]]]]]]]. now apply resolution_respects_precedence_c.
  - destruct HP as [-> ->]. exact I.
Qed.

Lemma S_GFc n l e : Sc n l e -> GFc l e.
Proof. induction 1; [now apply GF_op|now apply GF_then|assumption|apply GF_atom|now apply GF_grp]. Qed.

(* the statement of C10 for condition expressions: [l; trail] is how the expression is written, e any parse the resolution admits *)
Theorem textual_substitution ptext pits pe l trail its e :
  packages_parse ptext pits pe -> Forall ok_pair l -> all_ws trail = true ->
  group (map (fun p => tok_of (snd p)) l) = Some its -> Rc its e ->
  parse_cond (subst_text ptext l trail) = Ok (flat (subst_tree pe e)).
Proof.
  intros HP Hl Ht G R. apply group_iff in G.
  assert (HS : Sc 0 (subst_items pits its) (subst_tree pe e)).
  { apply substitution_preserves_derivations; [now apply packages_parse_derivable with (ptext := ptext)|now apply resolution_respects_precedence_c]. }
  unfold parse_cond. rewrite (subst_text_lexes ptext pits pe l trail HP Hl Ht), G, subst_untoks, group_untoks.
  rewrite (GF_wf (S_GFc _ _ _ HS)). unfold canonc.
  rewrite (@S_canon_bound 0 _ _ HS (canon_fuel (subst_items pits its))) by (unfold canon_fuel; lia). reflexivity.
Qed.

(* ---------- tied to the resolver model: expand p e, with the package table p given by package TEXTS ---------- *)
Definition parse_items (body : text) : option (list item) := match lex body with Some ts => group ts | None => None end.
Definition pits_of (ptext : text -> option text) (k : text) : option (list item) :=
  match ptext k with Some body => parse_items body | None => None end.
(* the table holds, for every package text, a tree the parser's resolution admits for it; nothing for the others *)
Definition table_of_texts (p : pkg_table) (ptext : text -> option text) : Prop :=
  forall k, match ptext k with
            | Some body => exists its t, parse_items body = Some its /\ Rc its t /\ pkg_lookup p k = Some (Ok t)
            | None => pkg_tree p k = None
            end.

Lemma subst_is_subst_tree p e : subst p e = subst_tree (pkg_tree p) e.
Proof. induction e as [[k|k rep|k]|b l IHl r IHr]; simpl; try reflexivity. now rewrite IHl, IHr. Qed.

Theorem resolver_is_textual_substitution p ptext l trail its e :
  table_of_texts p ptext -> all_known p e -> Forall ok_pair l -> all_ws trail = true ->
  group (map (fun q => tok_of (snd q)) l) = Some its -> Rc its e ->
  exists t', expand p e = Ok t' /\ parse_cond (subst_text ptext l trail) = Ok (flat t').
Proof.
  intros HT HK Hl Ht G R. exists (subst p e). split; [now apply expand_is_substitution|]. rewrite subst_is_subst_tree.
  apply textual_substitution with (pits := pits_of ptext) (its := its); try assumption.
  intros k. specialize (HT k). unfold pits_of. destruct (ptext k) as [body|].
  - destruct HT as [its' [t [Pi [Rt Lk]]]]. unfold parse_items in Pi. destruct (lex body) as [ts|] eqn:L; [|discriminate].
    exists ts, its', t. unfold parse_items. rewrite L. unfold pkg_tree. rewrite Lk. auto.
  - split; [reflexivity|exact HT].
Qed.

(* non-vacuity: "[1] U [7P]" with 7P -> "[2] O [3]" ; the substituted text is "[1] U ([2] O [3])" *)
Example textual_example :
  let l := [([], PKey [] [49%N] []); ([32%N], pop 85%N); ([32%N], PPkg [] [55%N] [] None)] in
  let ptext := fun k => if text_eqb k [55; 80]%N then Some [91; 50; 93; 32; 79; 32; 91; 51; 93]%N else None in
  subst_text ptext l [] = [91; 49; 93; 32; 85; 32; 40; 91; 50; 93; 32; 79; 32; 91; 51; 93; 41]%N /\
  exists t, parse_cond (subst_text ptext l []) = Ok t.
Proof. cbv zeta. split; [vm_compute; reflexivity|eexists; vm_compute; reflexivity]. Qed.
