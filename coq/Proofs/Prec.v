From Coq Require Import List Arith Lia Bool.
Import ListNotations.
From Ahb Require Import Model.Grammar.
Set Implicit Arguments.

Section Prec.
Variable atom : Type.
Variable rule : Type.
Variable alias : rule -> op3.
Variable order : rule -> nat.
Variable order_then : nat.
Notation item := (item atom rule).
Notation expr := (expr atom).
Notation lv := (lv alias).
Notation GF := (@GF atom rule alias).
Notation R := (@R atom rule alias order order_then).
Notation S := (@S atom rule alias).
Notation can_split_op := (@can_split_op atom rule alias).
Notation can_split_then := (@can_split_then atom rule alias).

(* hypotheses on the generated table (discharged for the regenerated table in Proofs/C01_*.v) *)

Hypothesis table_monotone : forall r r', order r <= order r' -> lv r <= lv r'.
Hypothesis then_last : forall r, order r < order_then.

Lemma lv_le2 r : lv r <= 2. Proof. unfold lv, lvl3; destruct (alias r); lia. Qed.

Lemma S_down n m l e : m <= n -> S n l e -> S m l e.
Proof. induction 1; auto. intros H0. apply IHle. now apply S_up. Qed.

Lemma R_GF l e : R l e -> GF l e.
Proof. induction 1; econstructor; eauto. Qed.

Lemma S_strengthen n l e : S n l e -> forall k, k <= 3 -> (forall r, In (IO r) l -> k <= lv r) -> S (Nat.max n k) l e.
Proof.
  induction 1 as [r l1 l2 e1 e2 H1 IH1 H2 IH2|l1 l2 e1 e2 H1 IH1 H2 IH2|n l e H IH|a|g e H IH]; intros k Hk Hops.
  - assert (k <= lv r) by (apply Hops; rewrite in_app_iff; right; now left).
    rewrite Nat.max_l by lia. apply S_op; assumption.
  - rewrite Nat.max_l by lia. apply S_then; assumption.
  - specialize (IH k Hk Hops). destruct (le_lt_dec k n).
    + rewrite Nat.max_l by lia. rewrite Nat.max_l in IH by lia. now apply S_up.
    + rewrite Nat.max_r by lia. rewrite Nat.max_r in IH by lia. exact IH.
  - rewrite Nat.max_l by lia. apply S_atom.
  - rewrite Nat.max_l by lia. now apply S_grp.
Qed.

(* splitting a derivable list at any depth-0 operator gives two derivable lists *)
Lemma GF_nonempty l e : GF l e -> l <> [].
Proof. induction 1; try discriminate; destruct l1; simpl; try discriminate; auto. Qed.

Lemma app_eq_app_mid {A} (a b c d : list A) x :
  a ++ x :: b = c ++ d ->
  (exists m, c = a ++ x :: m /\ b = m ++ d) \/ (exists m, d = m ++ x :: b /\ a = c ++ m).
Proof.
  revert c; induction a as [|y a IH]; intros c H; simpl in *.
  - destruct c as [|z c]; simpl in *.
    + right. exists []. simpl. auto.
    + inversion H; subst. left. exists c. auto.
  - destruct c as [|z c]; simpl in *.
    + right. exists (y :: a). simpl. auto.
    + inversion H; subst. destruct (IH _ H2) as [[m [E1 E2]]|[m [E1 E2]]].
      * left. exists m. subst. auto.
      * right. exists m. subst. auto.
Qed.

Lemma GF_split_at_op l e : GF l e -> forall a r b, l = a ++ IO r :: b -> exists ea eb, GF a ea /\ GF b eb.
Proof.
  induction 1 as [r0 l1 l2 e1 e2 H1 IH1 H2 IH2|l1 l2 e1 e2 H1 IH1 H2 IH2|x|g e H IH]; intros a r b E.
  - (* l1 ++ IO r0 :: l2 = a ++ IO r :: b *)
    symmetry in E. apply app_eq_app_mid in E. destruct E as [[m [E1 E2]]|[m [E1 E2]]].
    + (* l1 = a ++ IO r :: m ; b = m ++ IO r0 :: l2 *)
      destruct (IH1 _ _ _ E1) as [ea [em [Ha Hm]]]. exists ea. eexists. split; eauto. subst b. eapply GF_op; eauto.
    + (* IO r0 :: l2 = m ++ IO r :: b ; a = l1 ++ m *)
      destruct m as [|y m]; simpl in *.
      * injection E1 as Er Eb. subst. rewrite app_nil_r. eauto.
      * injection E1 as Ey Em. subst y. destruct (IH2 _ _ _ Em) as [em [eb [Hm Hb]]]. eexists; exists eb. split; eauto. subst a. eapply GF_op; eauto.
  - symmetry in E. apply app_eq_app_mid in E. destruct E as [[m [E1 E2]]|[m [E1 E2]]].
    + destruct (IH1 _ _ _ E1) as [ea [em [Ha Hm]]]. exists ea. eexists. split; eauto. subst b. eapply GF_then; eauto.
    + destruct (IH2 _ _ _ E1) as [em [eb [Hm Hb]]]. eexists; exists eb. split; eauto. subst a. eapply GF_then; eauto.
  - destruct a as [|? [|? ?]]; simpl in E; inversion E.
  - destruct a as [|? [|? ?]]; simpl in E; inversion E.
Qed.

Lemma GF_can_split l e r : GF l e -> In (IO r) l -> can_split_op r l.
Proof.
  intros H Hin. apply in_split in Hin. destruct Hin as [a [b E]].
  destruct (GF_split_at_op H _ _ _ E) as [ea [eb [Ha Hb]]].
  exists a, b, ea, eb. auto.
Qed.

Theorem resolution_respects_precedence l e : R l e -> S 0 l e.
Proof.
  induction 1 as [r l1 l2 e1 e2 H1 IH1 H2 IH2 Hmin Hthen|l1 l2 e1 e2 H1 IH1 H2 IH2 Hmin|a|g e H IH].
  - assert (HG : GF (l1 ++ IO r :: l2) (EBin (bop (alias r)) e1 e2)) by (apply GF_op; now apply R_GF).
    assert (Hall : forall r', In (IO r') (l1 ++ IO r :: l2) -> lv r <= lv r').
    { intros r' Hin. apply table_monotone. apply Hmin. eapply GF_can_split; eauto. }
    apply S_down with (n := lv r); [lia|].
    apply S_op.
    + pose proof (@S_strengthen 0 l1 e1 IH1 (lv r)) as HS. rewrite Nat.max_r in HS by lia. apply HS.
      * pose proof (lv_le2 r); lia.
      * intros r' Hin. apply Hall. rewrite in_app_iff. now left.
    + pose proof (@S_strengthen 0 l2 e2 IH2 (lv r)) as HS. rewrite Nat.max_r in HS by lia. apply HS.
      * pose proof (lv_le2 r); lia.
      * intros r' Hin. apply Hall. rewrite in_app_iff. right. now right.
  - assert (HG : GF (l1 ++ l2) (EBin BThen e1 e2)) by (apply GF_then; now apply R_GF).
    assert (Hnone : forall r', ~ In (IO r') (l1 ++ l2)).
    { intros r' Hin. assert (Hc : can_split_op r' (l1 ++ l2)) by (eapply GF_can_split; eauto). pose proof (Hmin r' Hc). pose proof (then_last r'). lia. }
    apply S_down with (n := 3); [lia|]. apply S_then.
    + pose proof (@S_strengthen 0 l1 e1 IH1 3) as HS. rewrite Nat.max_r in HS by lia. apply HS; [lia|].
      intros r' Hin. exfalso. apply (Hnone r'). rewrite in_app_iff. now left.
    + pose proof (@S_strengthen 0 l2 e2 IH2 3) as HS. rewrite Nat.max_r in HS by lia. apply HS; [lia|].
      intros r' Hin. exfalso. apply (Hnone r'). rewrite in_app_iff. now right.
  - apply S_down with (n := 4); [lia|]. apply S_atom.
  - apply S_down with (n := 4); [lia|]. now apply S_grp.
Qed.
End Prec.
