(* Lemmas for C12 (schedule independence, pairing, context isolation) and C15 (own input). *)
From Ahb Require Import Model.Prelude Model.Async.
Set Implicit Arguments.

(* ------------------------------------------------------------------ the language, for an arbitrary value type *)
Section Meta.
  Variable V : Type.

  Lemma sum_app (a b : list nat) : sum (a ++ b) = sum a + sum b.
  Proof. induction a as [|x a IH]; simpl; [reflexivity|]. unfold sum in *. simpl. rewrite IH. lia. Qed.

  Lemma map_cden_done (vs : list V) : map (@cden V) (map (@Done V) vs) = vs.
  Proof. induction vs as [|v t IH]; simpl; [reflexivity|]. now rewrite IH. Qed.

  Lemma sum_ccost_done (vs : list V) : sum (map (@ccost V) (map (@Done V) vs)) = 0.
  Proof. induction vs as [|v t IH]; simpl; [reflexivity|]. exact IH. Qed.

  (* the invariant: a step of ANY task leaves the denotation of the whole task tree unchanged *)
  Lemma step_cden (q q' : conf V) : step q q' -> cden q = cden q'.
  Proof.
    intros H. induction H as [c v|c k|c x k|c x v k|c ps k|c l1 q q' l2 k Hs IH|c vs k]; simpl; try reflexivity.
    - rewrite map_map. reflexivity.
    - rewrite !map_app. simpl. now rewrite IH.
    - now rewrite map_cden_done.
  Qed.

  Lemma steps_cden (q q' : conf V) : steps q q' -> cden q = cden q'.
  Proof.
    intros H. induction H as [q|q1 q2 q3 H1 _ IH]; [reflexivity|].
    rewrite (step_cden H1). exact IH.
  Qed.

  Theorem schedule_independent (c : ctx V) (p : prog V) (r : V) : steps (initial c p) (Done r) -> r = den c p.
  Proof. intros H. apply steps_cden in H. simpl in H. now symmetry. Qed.

  Theorem conf_schedule_independent (q : conf V) (r : V) : steps q (Done r) -> r = cden q.
  Proof. intros H. apply steps_cden in H. simpl in H. now symmetry. Qed.

  (* two completed schedules of the same program agree *)
  Corollary schedules_agree (c : ctx V) (p : prog V) (r1 r2 : V) :
    steps (initial c p) (Done r1) -> steps (initial c p) (Done r2) -> r1 = r2.
  Proof. intros H1 H2. rewrite (schedule_independent H1), (schedule_independent H2). reflexivity. Qed.

  (* ---- termination: every step lowers the measure by exactly one, whatever task the scheduler picks *)
  Lemma step_ccost (q q' : conf V) : step q q' -> ccost q = Datatypes.S (ccost q').
  Proof.
    intros H. induction H as [c v|c k|c x k|c x v k|c ps k|c l1 q q' l2 k Hs IH|c vs k]; simpl; try reflexivity.
    - rewrite !map_map. simpl. reflexivity.
    - rewrite !map_app. simpl. rewrite !sum_app. simpl. rewrite (step_cden Hs). rewrite IH. lia.
    - rewrite sum_ccost_done, map_cden_done. reflexivity.
  Qed.

  Lemma steps_ccost (q q' : conf V) : steps q q' -> ccost q' <= ccost q.
  Proof.
    intros H. induction H as [q|q1 q2 q3 H1 _ IH]; [lia|]. apply step_ccost in H1. lia.
  Qed.

  (* induction principle for task trees (nested through list) *)
  Section ConfInd.
    Variable P : conf V -> Prop.
    Hypothesis HD : forall v, P (Done v).
    Hypothesis HR : forall c p, P (Run c p).
    Hypothesis HW : forall c cs k, Forall P cs -> P (Wait c cs k).
    Fixpoint conf_ind2 (q : conf V) : P q :=
      match q with
      | Done v => HD v
      | Run c p => HR c p
      | Wait c cs k =>
          HW c k ((fix go (l : list (conf V)) : Forall P l :=
                     match l with
                     | [] => Forall_nil P
                     | x :: t => Forall_cons x (conf_ind2 x) (go t)
                     end) cs)
      end.
  End ConfInd.

  Lemma run_steps (c : ctx V) (p : prog V) : step (Run c p) (step_run c p).
  Proof. destruct p; simpl; constructor. Qed.

  (* ---- progress: a configuration is finished or some task can step (no deadlock) *)
  Lemma children_progress (cs : list (conf V)) :
    Forall (fun q => (exists v, q = Done v) \/ exists q', step q q') cs ->
    (exists vs, cs = map (@Done V) vs) \/ (exists l1 q q' l2, cs = l1 ++ q :: l2 /\ step q q').
  Proof.
    intros H. induction H as [|x t Hx _ IH].
    - left. exists []. reflexivity.
    - destruct Hx as [[v ->]|[x' Hx]].
      + destruct IH as [[vs ->]|[l1 [q [q' [l2 [-> Hq]]]]]].
        * left. exists (v :: vs). reflexivity.
        * right. exists (Done v :: l1), q, q', l2. split; [reflexivity|exact Hq].
      + right. exists [], x, x', t. split; [reflexivity|exact Hx].
  Qed.

  Theorem progress (q : conf V) : (exists v, q = Done v) \/ exists q', step q q'.
  Proof.
    induction q as [v|c p|c cs k IH] using conf_ind2.
    - left. now exists v.
    - right. exists (step_run c p). apply run_steps.
    - right. destruct (children_progress IH) as [[vs ->]|[l1 [q [q' [l2 [-> Hq]]]]]].
      + exists (Run c (k vs)). constructor.
      + exists (Wait c (l1 ++ q' :: l2) k). now constructor.
  Qed.

  (* every configuration can be run to completion; together with step_ccost: EVERY schedule is finite, has
     exactly [ccost q] steps and ends in [Done (cden q)] *)
  Theorem terminates (q : conf V) : steps q (Done (cden q)).
  Proof.
    remember (ccost q) as n eqn:Hn. revert q Hn.
    induction n as [|n IH]; intros q Hn.
    - destruct (progress q) as [[v ->]|[q' Hq]]; [simpl; constructor|].
      apply step_ccost in Hq. lia.
    - destruct (progress q) as [[v ->]|[q' Hq]]; [simpl; constructor|].
      rewrite (step_cden Hq). apply steps_step with q'; [exact Hq|]. apply IH.
      apply step_ccost in Hq. lia.
  Qed.

  Theorem maximal_schedule_is_complete (q q' : conf V) :
    steps q q' -> (forall q'', ~ step q' q'') -> q' = Done (cden q).
  Proof.
    intros H Hstuck. destruct (progress q') as [[v ->]|[q'' Hq]].
    - f_equal. apply steps_cden in H. simpl in H. now symmetry.
    - exfalso. exact (Hstuck q'' Hq).
  Qed.

  (* ---- the executable scheduler only performs steps of the relation *)
  Lemma dones_spec (cs : list (conf V)) (vs : list V) : dones cs = Some vs -> cs = map (@Done V) vs.
  Proof.
    revert vs. induction cs as [|x t IH]; intros vs H; simpl in H.
    - injection H as <-. reflexivity.
    - destruct x as [v|c p|c cs' k]; try discriminate.
      destruct (dones t) as [ws|] eqn:E; simpl in H; [|discriminate].
      injection H as <-. simpl. f_equal. now apply IH.
  Qed.

  Lemma step_list_spec (f : nat -> conf V -> option (conf V)) (n : nat) (l l' : list (conf V)) :
    step_list f n l = Some l' ->
    exists l1 x x' l2 m, l = l1 ++ x :: l2 /\ l' = l1 ++ x' :: l2 /\ f m x = Some x'.
  Proof.
    revert n l'. induction l as [|y t IH]; intros n l' H; simpl in H; [discriminate|].
    destruct (Nat.ltb n (runnable y)).
    - destruct (f n y) as [y'|] eqn:E; simpl in H; [|discriminate]. injection H as <-.
      exists [], y, y', t, n. repeat split; assumption.
    - destruct (step_list f (n - runnable y) t) as [t'|] eqn:E; simpl in H; [|discriminate]. injection H as <-.
      destruct (IH _ _ E) as [l1 [x [x' [l2 [m [-> [-> Hf]]]]]]].
      exists (y :: l1), x, x', l2, m. repeat split; assumption.
  Qed.

  Lemma step_at_sound (q : conf V) : forall n q', step_at n q = Some q' -> step q q'.
  Proof.
    induction q as [v|c p|c cs k IH] using conf_ind2; intros n q' H; simpl in H.
    - discriminate.
    - injection H as <-. apply run_steps.
    - destruct (dones cs) as [vs|] eqn:E.
      + injection H as <-. rewrite (dones_spec _ E). constructor.
      + destruct (step_list (@step_at V) n cs) as [cs'|] eqn:E2; simpl in H; [|discriminate]. injection H as <-.
        destruct (step_list_spec _ _ _ E2) as [l1 [x [x' [l2 [m [-> [-> Hf]]]]]]].
        constructor. rewrite Forall_forall in IH. apply (IH x) with m; [|exact Hf].
        apply in_or_app. right. now left.
  Qed.

  Lemma run_sched_steps (fuel : nat) : forall choices (q : conf V), steps q (run_sched fuel choices q).
  Proof.
    induction fuel as [|fuel IH]; intros choices q; simpl; [constructor|].
    destruct choices as [|n rest].
    - destruct (step_at (0 mod runnable q) q) as [q'|] eqn:E; [|constructor].
      apply steps_step with q'; [now apply step_at_sound with (0 mod runnable q)|apply IH].
    - destruct (step_at (n mod runnable q) q) as [q'|] eqn:E; [|constructor].
      apply steps_step with q'; [now apply step_at_sound with (n mod runnable q)|apply IH].
  Qed.

  (* whatever the choices: if the executable scheduler finishes, it finishes with the denotation *)
  Corollary run_sched_result (fuel : nat) choices (c : ctx V) (p : prog V) (r : V) :
    run_sched fuel choices (initial c p) = Done r -> r = den c p.
  Proof. intros H. apply schedule_independent. rewrite <- H. apply run_sched_steps. Qed.

  (* ---- basic facts about den *)
  Lemma den_yields (c : ctx V) (n : nat) (p : prog V) : den c (yields n p) = den c p.
  Proof. induction n as [|n IH]; simpl; [reflexivity|exact IH]. Qed.

  Lemma den_par_nth (c : ctx V) (ps : list (prog V)) (i : nat) (d : V) :
    nth i (map (den c) ps) d = den c (nth i ps (Ret d)).
  Proof. change d with (den c (Ret d)) at 1. apply map_nth. Qed.

  (* induction principle for programs (nested through list) *)
  Section ProgInd.
    Variable P : prog V -> Prop.
    Hypothesis HRet : forall v, P (Ret v).
    Hypothesis HYield : forall k, P k -> P (Yield k).
    Hypothesis HGet : forall x k, (forall v, P (k v)) -> P (Get x k).
    Hypothesis HPut : forall x v k, P k -> P (Put x v k).
    Hypothesis HPar : forall ps k, Forall P ps -> (forall rs, P (k rs)) -> P (Par ps k).
    Fixpoint prog_ind2 (p : prog V) : P p :=
      match p with
      | Ret v => HRet v
      | Yield k => HYield (prog_ind2 k)
      | Get x k => HGet x k (fun v => prog_ind2 (k v))
      | Put x v k => HPut x v (prog_ind2 k)
      | Par ps k =>
          HPar k ((fix go (l : list (prog V)) : Forall P l :=
                     match l with
                     | [] => Forall_nil P
                     | x :: t => Forall_cons x (prog_ind2 x) (go t)
                     end) ps) (fun rs => prog_ind2 (k rs))
      end.
  End ProgInd.

  (* `await p` inside a task: the continuation runs in the context p leaves behind *)
  Lemma den_pbind (p : prog V) : forall (c : ctx V) (f : V -> prog V),
    den c (pbind p f) = den (ctx_after c p) (f (den c p)).
  Proof.
    induction p as [v|k IH|x k IH|x v k IH|ps k _ IH] using prog_ind2; intros c f; simpl; auto.
  Qed.

  (* ---- context isolation. A Put inside a child of Par is invisible to its siblings (they run in c) and to the
     parent (its continuation runs in c); only the child's own continuation p sees it. *)
  Theorem context_isolation (c : ctx V) (x : var) (v : V) (p : prog V) (l1 l2 : list (prog V)) (k : list V -> prog V) :
    den c (Par (l1 ++ Put x v p :: l2) k)
    = den c (k (map (den c) l1 ++ den (upd c x v) p :: map (den c) l2)).
  Proof. simpl. rewrite map_app. reflexivity. Qed.

  (* the same on task trees: after the child has executed its Put, the contexts of the siblings and of the
     parent are still c *)
  Theorem context_isolation_step (c : ctx V) (x : var) (v : V) (p : prog V) (l1 l2 : list (prog V)) (k : list V -> prog V) :
    steps (initial c (Par (l1 ++ Put x v p :: l2) k))
          (Wait c (map (Run c) l1 ++ Run (upd c x v) p :: map (Run c) l2) k).
  Proof.
    apply steps_step with (Wait c (map (Run c) (l1 ++ Put x v p :: l2)) k); [constructor|].
    rewrite map_app. simpl.
    apply steps_step with (Wait c (map (Run c) l1 ++ Run (upd c x v) p :: map (Run c) l2) k); [|constructor].
    constructor. constructor.
  Qed.
End Meta.

(* ------------------------------------------------------------------ values, dicts, the sites *)
Section ValInd.
  Variable P : val -> Prop.
  Hypothesis HNone : P VNone.
  Hypothesis HB : forall b, P (VB b).
  Hypothesis HN : forall n, P (VN n).
  Hypothesis HT : forall t, P (VT t).
  Hypothesis HL : forall l, Forall P l -> P (VL l).
  Hypothesis HE : forall e, P (VE e).
  Fixpoint val_ind2 (v : val) : P v :=
    match v with
    | VNone => HNone
    | VB b => HB b
    | VN n => HN n
    | VT t => HT t
    | VL l => HL ((fix go (l : list val) : Forall P l :=
                     match l with [] => Forall_nil P | x :: t => Forall_cons x (val_ind2 x) (go t) end) l)
    | VE e => HE e
    end.
End ValInd.

Lemma val_eqb_eq (a : val) : forall b, val_eqb a b = true -> a = b.
Proof.
  induction a as [|x|x|x|l IH|x] using val_ind2; intros b H; destruct b; simpl in H; try discriminate; try reflexivity.
  - f_equal. now apply Bool.eqb_prop.
  - f_equal. now apply N.eqb_eq.
  - f_equal. now apply text_eqb_eq.
  - f_equal. revert l0 H. induction IH as [|u t Hu _ IHt]; intros [|w t2] H; try discriminate; [reflexivity|].
    apply andb_true_iff in H. destruct H as [H1 H2]. f_equal; [now apply Hu|now apply IHt].
  - f_equal. now apply exn_eqb_eq.
Qed.

Lemma text_eqb_refl (t : text) : text_eqb t t = true.
Proof. unfold text_eqb. induction t as [|x t IH]; simpl; [reflexivity|]. now rewrite N.eqb_refl, IH. Qed.

Lemma text_eqb_neq (a b : text) : a <> b -> text_eqb a b = false.
Proof. intros H. destruct (text_eqb a b) eqn:E; [|reflexivity]. exfalso. apply H. now apply text_eqb_eq. Qed.

Lemma dict_get_set_same (d : dict) k v : dict_get (dict_set d k v) k = Some v.
Proof.
  induction d as [|[k' v'] t IH]; simpl.
  - now rewrite text_eqb_refl.
  - destruct (text_eqb k' k) eqn:E; simpl; rewrite E; [reflexivity|exact IH].
Qed.

Lemma dict_get_set_other (d : dict) k v k2 : text_eqb k k2 = false -> dict_get (dict_set d k v) k2 = dict_get d k2.
Proof.
  intros Hne. induction d as [|[k' v'] t IH]; simpl.
  - now rewrite Hne.
  - destruct (text_eqb k' k) eqn:E; simpl.
    + apply text_eqb_eq in E. subst k'. now rewrite Hne.
    + destruct (text_eqb k' k2); [reflexivity|exact IH].
Qed.

(* the last binding of k in a list of pairs *)
Fixpoint last_binding (kvs : list (text * val)) (k : text) : option val :=
  match kvs with
  | [] => None
  | (k', v) :: t => match last_binding t k with
                    | Some w => Some w
                    | None => if text_eqb k' k then Some v else None
                    end
  end.

Lemma get_of_pairs (kvs : list (text * val)) : forall d k,
  dict_get (dict_of_pairs kvs d) k = match last_binding kvs k with Some w => Some w | None => dict_get d k end.
Proof.
  induction kvs as [|[k' v] t IH]; intros d k; simpl; [reflexivity|].
  unfold dict_of_pairs in *. simpl. rewrite IH.
  destruct (last_binding t k) as [w|]; [reflexivity|].
  destruct (text_eqb k' k) eqn:E.
  - apply text_eqb_eq in E. subst k'. apply dict_get_set_same.
  - now apply dict_get_set_other.
Qed.

Lemma last_binding_none (keys : list text) : forall (rs : list val) k,
  (forall j, j < length keys -> nth j keys [] <> k) -> last_binding (combine keys rs) k = None.
Proof.
  induction keys as [|k0 t IH]; intros rs k H; simpl; [reflexivity|].
  destruct rs as [|r0 rt]; [reflexivity|]. simpl.
  rewrite IH.
  - rewrite text_eqb_neq; [reflexivity|]. apply (H 0). simpl. lia.
  - intros j Hj. apply (H (Datatypes.S j)). simpl. lia.
Qed.

Lemma last_binding_nth (keys : list text) : forall (rs : list val) i,
  length keys = length rs -> i < length keys ->
  (forall j, i < j -> j < length keys -> nth j keys [] <> nth i keys []) ->
  last_binding (combine keys rs) (nth i keys []) = Some (nth i rs VNone).
Proof.
  induction keys as [|k0 t IH]; intros rs i Hlen Hi Hlast; simpl in Hi; [lia|].
  destruct rs as [|r0 rt]; [discriminate|]. simpl in Hlen.
  destruct i as [|i]; simpl.
  - rewrite last_binding_none.
    + now rewrite text_eqb_refl.
    + intros j Hj. apply (Hlast (Datatypes.S j)); simpl; lia.
  - rewrite IH; [reflexivity|lia|lia|].
    intros j H1 H2. apply (Hlast (Datatypes.S j)); simpl; lia.
Qed.

(* dict(zip(keys, rs)) maps a key to the result of its LAST occurrence (for duplicate-free keys: of its occurrence) *)
Theorem dict_zip_pairing (keys : list text) (rs : list val) (i : nat) :
  length keys = length rs -> i < length keys ->
  (forall j, i < j -> j < length keys -> nth j keys [] <> nth i keys []) ->
  dict_get (dict_zip keys rs) (nth i keys []) = Some (nth i rs VNone).
Proof.
  intros H1 H2 H3. unfold dict_zip. rewrite get_of_pairs. now rewrite last_binding_nth.
Qed.

Lemma nodup_no_later (keys : list text) (i : nat) :
  NoDup keys -> forall j, i < j -> j < length keys -> nth j keys [] <> nth i keys [].
Proof.
  intros Hnd j Hij Hj Heq.
  assert (j = i); [|lia]. apply (proj1 (NoDup_nth keys []) Hnd); [lia|lia|exact Heq].
Qed.

Lemma den_gather_k (c : ctx val) (rs : list val) (f : list val -> val) :
  den c (gather_k rs (fun rs => Ret (f rs))) = gather_v rs f.
Proof. unfold gather_k, gather_v. destruct (first_exn rs); reflexivity. Qed.

Lemma den_rc_site (c : ctx val) keys aws :
  den c (rc_site keys aws) = gather_v (map (den c) aws) (fun rs => vdict (dict_zip keys rs)).
Proof. unfold rc_site. simpl. apply den_gather_k. Qed.

Lemma den_fc_site (c : ctx val) keys evs :
  den c (fc_site keys evs) = gather_v (map (fun ev => den c (ev (c TEXT))) evs) (fun rs => vdict (dict_zip keys rs)).
Proof. unfold fc_site. simpl. rewrite map_map. apply den_gather_k. Qed.

Theorem pairing_rc (c : ctx val) (keys : list text) (aws : list (prog val)) :
  length keys = length aws ->
  let rs := map (den c) aws in
  match first_exn rs with
  | Some e => den c (rc_site keys aws) = VE e
  | None => den c (rc_site keys aws) = vdict (dict_zip keys rs) /\
            forall i, i < length keys ->
              (forall j, i < j -> j < length keys -> nth j keys [] <> nth i keys []) ->
              dict_get (dict_zip keys rs) (nth i keys []) = Some (den c (nth i aws (Ret VNone)))
  end.
Proof.
  intros Hlen rs. rewrite den_rc_site. unfold gather_v. fold rs. destruct (first_exn rs); [reflexivity|].
  split; [reflexivity|]. intros i Hi Hlast. rewrite dict_zip_pairing; try assumption.
  - f_equal. unfold rs. apply den_par_nth.
  - unfold rs. now rewrite map_length.
Qed.

Theorem pairing_fc (c : ctx val) (keys : list text) (evs : list (val -> prog val)) :
  length keys = length evs ->
  let rs := map (fun ev => den c (ev (c TEXT))) evs in
  match first_exn rs with
  | Some e => den c (fc_site keys evs) = VE e
  | None => den c (fc_site keys evs) = vdict (dict_zip keys rs) /\
            forall i, i < length keys ->
              (forall j, i < j -> j < length keys -> nth j keys [] <> nth i keys []) ->
              dict_get (dict_zip keys rs) (nth i keys []) = Some (den c (nth i evs (fun _ => Ret VNone) (c TEXT)))
  end.
Proof.
  intros Hlen rs. rewrite den_fc_site. unfold gather_v. fold rs. destruct (first_exn rs); [reflexivity|].
  split; [reflexivity|]. intros i Hi Hlast. rewrite dict_zip_pairing; try assumption.
  - f_equal. unfold rs.
    change VNone with ((fun ev : val -> prog val => den c (ev (c TEXT))) (fun _ => Ret VNone)) at 1.
    apply map_nth.
  - unfold rs. now rewrite map_length.
Qed.

(* hints: when no provider call returns None the loop builds the same dict as dict(zip(...)) *)
Lemma hints_loop_no_none (kvs : list (text * val)) (flag : bool) : forall d,
  (forall k v, In (k, v) kvs -> v <> VNone) -> hints_loop kvs flag d = vdict (dict_of_pairs kvs d).
Proof.
  induction kvs as [|[k v] t IH]; intros d H; simpl; [reflexivity|].
  assert (Hv : v <> VNone) by (apply (H k); now left).
  assert (Ht : forall k v, In (k, v) t -> v <> VNone) by (intros k2 v2 Hin; apply (H k2); now right).
  destruct v; try (exfalso; now apply Hv); unfold dict_of_pairs in *; simpl; now rewrite IH.
Qed.

(* a None answer: KeyError if requested, else the key is left out and the others keep their own value *)
Lemma hints_loop_none_first (k : text) (t : list (text * val)) (d : dict) :
  hints_loop ((k, VNone) :: t) true d = VE KeyErr /\ hints_loop ((k, VNone) :: t) false d = hints_loop t false d.
Proof. split; reflexivity. Qed.

Theorem pairing_hints (c : ctx val) (keys : list text) (aws : list (prog val)) (flag : bool) :
  length keys = length aws ->
  let rs := map (den c) aws in
  first_exn rs = None -> (forall v, In v rs -> v <> VNone) ->
  den c (hints_site keys aws flag) = vdict (dict_zip keys rs) /\
  forall i, i < length keys ->
    (forall j, i < j -> j < length keys -> nth j keys [] <> nth i keys []) ->
    dict_get (dict_zip keys rs) (nth i keys []) = Some (den c (nth i aws (Ret VNone))).
Proof.
  intros Hlen rs Hne Hnn. unfold hints_site. simpl. fold rs. unfold gather_k. rewrite Hne. simpl.
  split.
  - rewrite hints_loop_no_none; [reflexivity|]. intros k v Hin. apply Hnn. eapply in_combine_r. exact Hin.
  - intros i Hi Hlast. rewrite dict_zip_pairing; try assumption.
    + f_equal. unfold rs. apply den_par_nth.
    + unfold rs. now rewrite map_length.
Qed.

(* mixed lists: every slot gets its own value back *)
Definition slot_den (c : ctx val) (s : slot) : val := match s with Plain v => v | Aw p => den c p end.

Lemma reinsert_own (c : ctx val) (l : list slot) : reinsert l (map (den c) (awaitables l)) = map (slot_den c) l.
Proof.
  induction l as [|[v|p] t IH]; simpl; [reflexivity| |]; now rewrite IH.
Qed.

Theorem pairing_mixed (c : ctx val) (l : list slot) (k : list val -> prog val) :
  den c (mixed_site l k) =
  match first_exn (map (den c) (awaitables l)) with
  | Some e => VE e
  | None => den c (k (map (slot_den c) l))
  end.
Proof.
  unfold mixed_site. simpl. unfold gather_k. destruct (first_exn (map (den c) (awaitables l))); [reflexivity|].
  now rewrite reinsert_own.
Qed.

Theorem pairing_parts (c : ctx val) (l : list slot) :
  first_exn (map (den c) (awaitables l)) = None ->
  den c (parts_site l) = select_part (map (slot_den c) l) /\
  forall i, nth i (map (slot_den c) l) VNone = slot_den c (nth i l (Plain VNone)).
Proof.
  intros H. unfold parts_site. rewrite pairing_mixed, H. split; [reflexivity|].
  intros i. change VNone with (slot_den c (Plain VNone)) at 1. apply map_nth.
Qed.

Theorem pairing_packages (c : ctx val) (l : list slot) :
  first_exn (map (den c) (awaitables l)) = None ->
  den c (packages_site l) = VL (map (slot_den c) l) /\
  forall i, nth i (map (slot_den c) l) VNone = slot_den c (nth i l (Plain VNone)).
Proof.
  intros H. unfold packages_site. rewrite pairing_mixed, H. split; [reflexivity|].
  intros i. change VNone with (slot_den c (Plain VNone)) at 1. apply map_nth.
Qed.

(* is_valid_expression: task i evaluates with CER = cers[i], whatever its siblings stored *)
Theorem is_valid_own_data (c : ctx val) (cers : list val) (evaluate : prog val) :
  let rs := map (fun cer => den (upd c CER cer) evaluate) cers in
  den c (is_valid_site cers evaluate) =
  match first_exn rs with
  | Some InvalidExpr => VL [VB false; VL rs]
  | Some e => VE e
  | None => VL [VB true; VL rs]
  end.
Proof. intros rs. unfold is_valid_site. simpl. rewrite map_map. reflexivity. Qed.

(* ------------------------------------------------------------------ C15 *)
(* validating an element: every format-constraint method receives the element's own text and, whenever it reads the
   ContextVar again, still finds it; nothing of the surrounding context's TEXT is used *)
Definition elem_result (c : ctx val) (e : elem) : val :=
  gather_v (map (fun ev => den (upd c TEXT (e_text e)) (ev (e_text e))) (e_fcs e)) (e_post e).

Lemma den_elem (c : ctx val) (e : elem) : den c (elem_prog e) = elem_result c e.
Proof.
  unfold elem_prog, elem_result. rewrite den_yields. simpl. rewrite den_yields. simpl.
  rewrite map_map. simpl. apply den_gather_k.
Qed.

(* the text the element's task had in its context before does not matter *)
Lemma elem_result_ignores_outer_text (c : ctx val) (e : elem) (t : val) :
  (forall ev, In ev (e_fcs e) -> forall c1 c2 : ctx val, (forall x, c1 x = c2 x) -> den c1 (ev (e_text e)) = den c2 (ev (e_text e))) ->
  elem_result (upd c TEXT t) e = elem_result c e.
Proof.
  intros Hext. unfold elem_result. f_equal. apply map_ext_in. intros ev Hin. apply Hext; [exact Hin|].
  intros x. unfold upd. destruct (Nat.eqb x TEXT); reflexivity.
Qed.

Lemma den_node (c : ctx val) (pre : nat) (ch : list vtree) :
  den c (tree_prog (TNode pre ch)) = gather_v (map (fun t => den c (tree_prog t)) ch) VL.
Proof. simpl. rewrite den_yields. simpl. rewrite map_map. apply den_gather_k. Qed.

Theorem tree_own_input (c : ctx val) (pre : nat) (ch : list vtree) (r : val) :
  steps (initial c (tree_prog (TNode pre ch))) (Done r) ->
  r = gather_v (map (fun t => den c (tree_prog t)) ch) VL.
Proof. intros H. rewrite (schedule_independent H). apply den_node. Qed.

Lemma gather_v_ok (rs : list val) (f : list val -> val) : first_exn rs = None -> gather_v rs f = f rs.
Proof. intros H. unfold gather_v. now rewrite H. Qed.

(* the result at element i, in every schedule of the concurrent validation, is the result of every schedule of
   validating element i on its own (in the same surrounding context) *)
Theorem own_input (c : ctx val) (pre : nat) (els : list elem) (r : val) :
  steps (initial c (validate_segment_site pre els)) (Done r) ->
  first_exn (map (fun e => den c (elem_prog e)) els) = None ->
  exists rs, r = VL rs /\ length rs = length els /\
    forall i e r_alone, nth_error els i = Some e ->
      steps (initial c (elem_prog e)) (Done r_alone) ->
      nth_error rs i = Some r_alone /\ r_alone = elem_result c e.
Proof.
  intros H Hne. unfold validate_segment_site in H. apply tree_own_input in H.
  rewrite map_map in H. simpl in H. rewrite gather_v_ok in H by exact Hne.
  exists (map (fun e => den c (elem_prog e)) els). split; [exact H|]. split; [apply map_length|].
  intros i e r_alone Hi Ha. apply schedule_independent in Ha. subst r_alone. split.
  - rewrite nth_error_map, Hi. reflexivity.
  - apply den_elem.
Qed.

(* if some element raises, the whole validation raises (the leftmost exception in the model) *)
Theorem own_input_exn (c : ctx val) (pre : nat) (els : list elem) (r : val) (e : exn) :
  steps (initial c (validate_segment_site pre els)) (Done r) ->
  first_exn (map (fun e => den c (elem_prog e)) els) = Some e -> r = VE e.
Proof.
  intros H Hex. unfold validate_segment_site in H. apply tree_own_input in H.
  rewrite map_map in H. simpl in H. unfold gather_v in H. now rewrite Hex in H.
Qed.

(* ---- the refutation: set by the parent before the gather, two elements "a" and "b" whose single format constraint
   reports the text it finds in the ContextVar after one suspension *)
Definition see_again : val -> prog val := fun _ => Yield (Get TEXT (fun t' => Ret t')).
Definition wit_elem (t : N) : elem :=
  {| e_pre := 0; e_text := VT [t]; e_mid := 1; e_fcs := [see_again]; e_post := VL |}.
Definition wit_els : list elem := [wit_elem 97; wit_elem 98].

Lemma refuted_when_set_in_parent :
  den ctx0 (validate_segment_set_in_parent 0 wit_els) = VL [VL [VT [98%N]]; VL [VT [98%N]]]
  /\ den ctx0 (validate_segment_site 0 wit_els) = VL [VL [VT [97%N]]; VL [VT [98%N]]]
  /\ exists i e rs, nth_error wit_els i = Some e
       /\ den ctx0 (validate_segment_set_in_parent 0 wit_els) = VL rs
       /\ nth_error rs i <> Some (den ctx0 (elem_prog e)).
Proof.
  split; [vm_compute; reflexivity|]. split; [vm_compute; reflexivity|].
  exists 0, (wit_elem 97), [VL [VT [98%N]]; VL [VT [98%N]]].
  split; [reflexivity|]. split; [vm_compute; reflexivity|].
  vm_compute. intros H. discriminate H.
Qed.

(* ------------------------------------------------------------------ examples: the hypotheses are satisfiable *)
(* two children that yield; the second child runs to completion before the first one starts *)
Definition ex_child (n : nat) (tag : N) : prog val := yields n (Get TEXT (fun t => Ret (VL [VN tag; t]))).
Definition ex_prog : prog val :=
  Put TEXT (VT [120%N]) (Par [ex_child 2 1; Put TEXT (VT [121%N]) (ex_child 1 2)] (fun rs => Ret (VL rs))).
Definition ex_second_first : list nat := [0; 0; 1; 1; 1; 1; 1].

Example ex_schedule_second_child_first :
  run_to_end ex_second_first ctx0 ex_prog = Done (VL [VL [VN 1; VT [120%N]]; VL [VN 2; VT [121%N]]]).
Proof. vm_compute. reflexivity. Qed.

(* after six steps the second child is done and the first has not moved *)
Example ex_second_child_done_first_untouched :
  run_sched 6 ex_second_first (initial ctx0 ex_prog) =
  Wait (upd ctx0 TEXT (VT [120%N]))
       [Run (upd ctx0 TEXT (VT [120%N])) (ex_child 2 1); Done (VL [VN 2; VT [121%N]])] (fun rs => Ret (VL rs)).
Proof. vm_compute. reflexivity. Qed.

Example ex_steps : steps (initial ctx0 ex_prog) (Done (VL [VL [VN 1; VT [120%N]]; VL [VN 2; VT [121%N]]])).
Proof. rewrite <- ex_schedule_second_child_first. apply run_sched_steps. Qed.

Example ex_den : den ctx0 ex_prog = VL [VL [VN 1; VT [120%N]]; VL [VN 2; VT [121%N]]].
Proof. symmetry. apply schedule_independent. exact ex_steps. Qed.
