From Ahb Require Import Model.Prelude Model.Grammar Gen.Gen_logic Gen.Gen_ranges Model.Logic Model.EvalRC Model.Spec Proofs.C03_logic.
Set Implicit Arguments.

(* ---------- table facts about the regenerated operators ---------- *)
Lemma cand_neutral a b : cfv_eqb (cand a b) C_NEUTRAL = cfv_eqb a C_NEUTRAL && cfv_eqb b C_NEUTRAL.
Proof. destruct a, b; reflexivity. Qed.
Lemma cor_neutral a b : cfv_eqb (cor a b) C_NEUTRAL = cfv_eqb a C_NEUTRAL && cfv_eqb b C_NEUTRAL.
Proof. destruct a, b; reflexivity. Qed.
Lemma cxor_neutral a b : cfv_eqb (cxor a b) C_NEUTRAL = cfv_eqb a C_NEUTRAL && cfv_eqb b C_NEUTRAL.
Proof. destruct a, b; reflexivity. Qed.
Lemma cfv_eqb_eq a b : cfv_eqb a b = true <-> a = b.
Proof. destruct a, b; simpl; split; intros H; try reflexivity; discriminate. Qed.
Lemma cfv_eqb_neq a b : cfv_eqb a b = false <-> a <> b.
Proof. destruct a, b; simpl; split; intros H; try reflexivity; try discriminate; try congruence; exfalso; apply H; reflexivity. Qed.
Lemma nkind_eqb_eq a b : nkind_eqb a b = true <-> a = b.
Proof. destruct a, b; simpl; split; intros H; try reflexivity; discriminate. Qed.

(* ---------- the invariant linking a returned node to the expression it came from ---------- *)
Record shape (e : kexpr) (n : node) : Prop := {
  sh_neutral : cfv_eqb (st n) C_NEUTRAL = negb (carries_rc e);
  sh_hint : nkind_eqb (nk n) KHint = hint_leaf e;
  sh_fc : nkind_eqb (nk n) KFc = fc_leaf e
}.

Lemma kind_of_is_kind k kd : kind_of k = Some kd -> forall kd', is_kind kd' k = nkind_eqb kd' kd.
Proof. intros H kd'. unfold is_kind. now rewrite H. Qed.

Lemma env_ok_l a rho b l r : env_ok a rho (EBin b l r) -> env_ok a rho l.
Proof. intros H k Hk. apply H. simpl. apply in_or_app. now left. Qed.
Lemma env_ok_r a rho b l r : env_ok a rho (EBin b l r) -> env_ok a rho r.
Proof. intros H k Hk. apply H. simpl. apply in_or_app. now right. Qed.

Lemma leaf_char a rho k : dom (EAtom k) = true -> env_ok a rho (EAtom k) ->
  exists n, eval_rc rho (EAtom k) = Ok n /\ st n = sem a (EAtom k) /\ shape (EAtom k) n.
Proof.
  intros Hd He. destruct (He k) as [n [Hl Hn]]; [simpl; now left|].
  exists n. simpl. rewrite Hl. simpl. split; [reflexivity|].
  unfold node_ok in Hn. simpl in Hd. destruct (kind_of k) as [kd|] eqn:Ek; [|discriminate].
  pose proof (kind_of_is_kind _ Ek) as Hk.
  destruct kd.
  - destruct Hn as [Hnk [Hst [Hne [Hh Hf]]]]. split.
    + rewrite Hk. simpl. exact Hst.
    + constructor; simpl; unfold hint_leaf, fc_leaf, leaf_is; rewrite ?Hk, ?Hnk; simpl; auto.
      rewrite Hst. apply cfv_eqb_neq. exact Hne.
  - destruct Hn as [Hnk [Hst Hf]]. split.
    + rewrite Hk. simpl. exact Hst.
    + constructor; simpl; unfold hint_leaf, fc_leaf, leaf_is; rewrite ?Hk, ?Hnk; simpl; auto. now rewrite Hst.
  - destruct Hn as [Hnk [Hst [Hkey [Hh Hf]]]]. split.
    + rewrite Hk. simpl. exact Hst.
    + constructor; simpl; unfold hint_leaf, fc_leaf, leaf_is; rewrite ?Hk, ?Hnk; simpl; auto. now rewrite Hst.
  - contradiction.
Qed.

Lemma or_xor_invalid_char l r x y : shape l x -> shape r y -> or_xor_invalid x y = negb (or_xor_ok l r).
Proof.
  intros [N1 H1 F1] [N2 H2 F2]. unfold or_xor_invalid, or_xor_ok.
  rewrite N1, N2, H1, H2, F1, F2.
  destruct (hint_leaf l), (fc_leaf l), (hint_leaf r), (fc_leaf r), (carries_rc l), (carries_rc r); reflexivity.
Qed.

Lemma shape_ec e s h f : cfv_eqb s C_NEUTRAL = negb (carries_rc e) -> hint_leaf e = false -> fc_leaf e = false ->
  shape e (mk_ec s h f).
Proof. intros H1 H2 H3. constructor; simpl; auto. Qed.

Lemma fc_leaf_props e : fc_leaf e = true -> carries_rc e = false /\ hint_leaf e = false.
Proof.
  destruct e as [k|]; simpl; [|discriminate]. unfold fc_leaf, hint_leaf, leaf_is, is_kind.
  destruct (kind_of k) as [[]|]; simpl; intros H; try discriminate; auto.
Qed.

(* evaluation of an in-domain expression: a node carrying the compositional semantics if the expression is
   structurally valid, the invalid-expression error otherwise -- for every assignment *)
Theorem eval_char a rho e : dom e = true -> env_ok a rho e ->
  if valid e then exists n, eval_rc rho e = Ok n /\ st n = sem a e /\ shape e n
  else eval_rc rho e = Exn InvalidExpr.
Proof.
  induction e as [k|b l IHl r IHr]; intros Hd He.
  - simpl valid. cbv iota. now apply leaf_char.
  - assert (Hdl : dom l = true /\ dom r = true).
    { simpl in Hd. destruct b; repeat (apply andb_true_iff in Hd; destruct Hd as [Hd ?]); auto. }
    destruct Hdl as [Hdl Hdr].
    specialize (IHl Hdl (env_ok_l He)). specialize (IHr Hdr (env_ok_r He)).
    assert (Hv : valid (EBin b l r) = valid l && valid r && match b with BOr | BXor => or_xor_ok l r | _ => true end).
    { destruct b; simpl; rewrite ?andb_true_r; reflexivity. }
    rewrite Hv. simpl eval_rc.
    destruct (valid l); [|rewrite IHl; reflexivity].
    destruct IHl as [x [Ex [Sx Shx]]]. rewrite Ex. simpl bind.
    destruct (valid r); [|rewrite IHr; reflexivity].
    destruct IHr as [y [Ey [Sy Shy]]]. rewrite Ey. simpl bind. simpl andb.
    destruct b; simpl compose.
    + (* or *)
      unfold or_composition. rewrite (or_xor_invalid_char Shx Shy).
      destruct (or_xor_ok l r) eqn:Eok; simpl; [|reflexivity].
      rewrite or_total. simpl. eexists. split; [reflexivity|]. split; [simpl; now rewrite Sx, Sy|].
      apply shape_ec; auto. rewrite cor_neutral. rewrite (sh_neutral Shx), (sh_neutral Shy). simpl. now rewrite negb_orb.
    + (* xor *)
      unfold xor_composition. rewrite (or_xor_invalid_char Shx Shy).
      destruct (or_xor_ok l r) eqn:Eok; simpl; [|reflexivity].
      rewrite xor_total. simpl. eexists. split; [reflexivity|]. split; [simpl; now rewrite Sx, Sy|].
      apply shape_ec; auto. rewrite cxor_neutral. rewrite (sh_neutral Shx), (sh_neutral Shy). simpl. now rewrite negb_orb.
    + (* and *)
      unfold and_composition. rewrite and_total. simpl. eexists. split; [reflexivity|]. split; [simpl; now rewrite Sx, Sy|].
      apply shape_ec; auto. rewrite cand_neutral. rewrite (sh_neutral Shx), (sh_neutral Shy). simpl. now rewrite negb_orb.
    + (* then also *)
      unfold then_also_composition. rewrite (sh_fc Shx).
      simpl in Hd. rewrite Hdl, Hdr in Hd. simpl in Hd. unfold attachable in Hd.
      destruct (fc_leaf l) eqn:Fl.
      * (* the format constraint is on the left *)
        destruct (fc_leaf_props _ Fl) as [Cl Hl].
        assert (Hat : hint_leaf r || carries_rc r = true).
        { rewrite Hl, Cl in Hd. destruct (hint_leaf r), (carries_rc r), (fc_leaf r); simpl in *; auto. }
        unfold then_also. pose proof (sh_neutral Shy) as Ny. pose proof (sh_hint Shy) as Hy.
        destruct (carries_rc r) eqn:Cr.
        -- simpl in Ny. rewrite Ny. simpl. eexists. split; [reflexivity|]. split; [simpl; rewrite Fl; exact Sy|].
           apply shape_ec; simpl; auto. rewrite Ny, Cr. now rewrite orb_true_r.
        -- simpl in Ny. rewrite Ny. simpl. rewrite orb_false_r in Hat. rewrite Hy, Hat.
           eexists. split; [reflexivity|]. split.
           ++ simpl. rewrite Fl. apply cfv_eqb_eq in Ny. now rewrite <- Sy, Ny.
           ++ apply shape_ec; simpl; auto. now rewrite Cr, Cl.
      * (* the format constraint is on the right *)
        rewrite andb_false_l, orb_false_l in Hd. apply andb_true_iff in Hd. destruct Hd as [Fr Hat].
        unfold then_also. pose proof (sh_neutral Shx) as Nx. pose proof (sh_hint Shx) as Hx.
        destruct (fc_leaf_props _ Fr) as [Cr Hr].
        destruct (carries_rc l) eqn:Cl.
        -- simpl in Nx. rewrite Nx. simpl. eexists. split; [reflexivity|]. split; [simpl; rewrite Fl; exact Sx|].
           apply shape_ec; simpl; auto. now rewrite Nx, Cl.
        -- simpl in Nx. rewrite Nx. simpl. rewrite orb_false_r in Hat. rewrite Hx, Hat.
           eexists. split; [reflexivity|]. split.
           ++ simpl. rewrite Fl. apply cfv_eqb_eq in Nx. now rewrite <- Sx, Nx.
           ++ apply shape_ec; simpl; auto. now rewrite Cl, Cr.
Qed.

(* ---------- corollaries stated in Props/C04.v and Props/C06.v ---------- *)
Lemma state_thm a rho e : dom e = true -> valid e = true -> env_ok a rho e ->
  exists n, eval_rc rho e = Ok n /\ st n = sem a e.
Proof. intros D V E. pose proof (eval_char D E) as H. rewrite V in H. destruct H as [n [H1 [H2 _]]]. eauto. Qed.

Lemma outcome_thm a rho e : dom e = true -> valid e = true -> env_ok a rho e ->
  exists n, eval_rc rho e = Ok n /\
    (r_fulfilled (rc_result n), r_conditional (rc_result n)) =
      match sem a e with
      | C_FULFILLED => (Some true, Some true)
      | C_NEUTRAL => (Some true, Some false)
      | C_UNFULFILLED => (Some false, Some true)
      | C_UNKNOWN => (None, None)
      end.
Proof.
  intros D V E. destruct (state_thm D V E) as [n [H1 H2]]. exists n. split; [exact H1|].
  unfold rc_result. rewrite H2. destruct (sem a e); reflexivity.
Qed.

Lemma invalid_always e : dom e = true -> valid e = false -> forall a rho, env_ok a rho e -> eval_rc rho e = Exn InvalidExpr.
Proof. intros D V a rho E. pose proof (eval_char D E) as H. now rewrite V in H. Qed.

Lemma valid_never e : dom e = true -> valid e = true -> forall a rho, env_ok a rho e -> eval_rc rho e <> Exn InvalidExpr.
Proof. intros D V a rho E. destruct (state_thm D V E) as [n [H _]]. rewrite H. discriminate. Qed.

(* a concrete instance meeting all hypotheses: ([1] O [2]) U [3][901] U [501] with [1] unknown, [2] fulfilled, [3] fulfilled *)
Definition k (n : N) : text := match n with 1 => [49] | 2 => [50] | 3 => [51] | 901 => [57;48;49] | 501 => [53;48;49] | _ => [] end%N.
Definition ex_expr : kexpr :=
  EBin BAnd (EBin BAnd (EBin BOr (EAtom (k 1)) (EAtom (k 2))) (EBin BThen (EAtom (k 3)) (EAtom (k 901)))) (EAtom (k 501)).
Definition ex_assign (key : text) : cfv := if text_eqb key (k 1) then C_UNKNOWN else C_FULFILLED.
Definition ex_cer : cer := {| c_rc := [(k 1, C_UNKNOWN); (k 2, C_FULFILLED); (k 3, C_FULFILLED)]; c_hints := [(k 501, Some [72%N])]; c_fc := [] |}.
Definition ex_env : env := match build_env ex_cer (keys_of ex_expr) with Ok r => r | Exn _ => [] end.

Example example_hyps : dom ex_expr = true /\ valid ex_expr = true /\ env_ok ex_assign ex_env ex_expr /\
  sem ex_assign ex_expr = C_FULFILLED.
Proof.
  repeat split; try reflexivity.
  intros key Hin. simpl in Hin.
  repeat (destruct Hin as [<-|Hin]; [eexists; split; [vm_compute; reflexivity|vm_compute; repeat split; congruence]|]).
  contradiction.
Qed.
