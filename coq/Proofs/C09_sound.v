(* C09, splitting, converse direction: whatever the AHB scanner accepts is the concatenation of the parts it returns, in
   written order; nothing is dropped, reordered or invented. Together with Proofs/C09_split.v (printed parts scan to
   themselves) this characterises the split. *)
From Coq Require Import Lia.
From Ahb Require Import Model.Prelude Model.Grammar Gen.Gen_grammar Gen.Gen_ahbgrammar Model.Lex Model.EvalAhb Model.Ahb Proofs.C01_lexprint Proofs.C02_lexsound.

Definition tok_text (t : indtok) : text := match t with TokMM v => v | TokPO v => v end.
Definition print_raw (p : rawpart) : text := match p with RP t ce => tok_text t ++ match ce with Some c => c | None => [] end end.
Definition print_raws (ps : list rawpart) : text := concat (map print_raw ps).

(* shape of a result: one prefix-operator part, or modal-mark parts of which only the last may lack a condition text *)
Definition cond_text_ok (ce : option text) : Prop := match ce with Some c => c <> [] /\ forallb in_ce_class c = true | None => True end.
Fixpoint mm_shape (ps : list rawpart) : Prop :=
  match ps with
  | [] => False
  | [RP (TokMM v) ce] => v <> [] /\ cond_text_ok ce
  | RP (TokMM v) (Some c) :: t => v <> [] /\ cond_text_ok (Some c) /\ mm_shape t
  | _ => False
  end.
Definition result_shape (ps : list rawpart) : Prop :=
  (exists c ce, ps = [RP (TokPO [c]) ce] /\ cond_text_ok ce) \/ mm_shape ps.

Lemma match_seq_inv sets : forall s m rest, match_seq sets s = Some (m, rest) -> s = m ++ rest.
Proof.
  induction sets as [|st more IH]; intros s m rest H; simpl in H.
  - inversion H. reflexivity.
  - destruct s as [|c r]; [discriminate|]. destruct (in_set c st); [|discriminate].
    destruct (match_seq more r) as [[m' rest']|] eqn:E; [|discriminate]. inversion H; subst. simpl. f_equal. now apply IH.
Qed.

Lemma modal_mark_inv s tok rest : modal_mark s = Some (tok, rest) -> s = tok ++ rest /\ tok <> [].
Proof.
  unfold modal_mark. destruct s as [|c r]; [discriminate|].
  assert (Q : forall tail, match match_seq tail r with Some (m, rest0) => Some (c :: m, rest0) | None => Some ([c], r) end = Some (tok, rest) ->
              c :: r = tok ++ rest /\ tok <> []).
  { intros tail H. destruct (match_seq tail r) as [[m rest0]|] eqn:E.
    - inversion H; subst. apply match_seq_inv in E. subst r. split; [reflexivity|discriminate].
    - inversion H; subst. split; [reflexivity|discriminate]. }
  destruct (in_set c ci_m); [apply Q|]. destruct (in_set c ci_s); [apply Q|]. destruct (in_set c ci_k); [apply Q|discriminate].
Qed.

Lemma condition_expression_inv prev s m rest : condition_expression prev s = Some (m, rest) ->
  s = m ++ rest /\ m <> [] /\ forallb in_ce_class m = true.
Proof.
  unfold condition_expression. destruct (lookahead_blocks prev s); [discriminate|].
  pose proof (span_split in_ce_class s) as [S1 [S2 _]]. destruct (span in_ce_class s) as [[|x m'] r]; [discriminate|].
  intros H. inversion H; subst. simpl in *. repeat split; auto. discriminate.
Qed.

Lemma mm_parts_inv f : forall s ps, mm_parts f s = Some ps -> s = print_raws ps /\ mm_shape ps.
Proof.
  induction f as [|f IH]; intros s ps H; [discriminate|]. cbn [mm_parts] in H.
  destruct (modal_mark s) as [[tok rest]|] eqn:M; [|discriminate]. apply modal_mark_inv in M. destruct M as [Es Ht].
  destruct rest as [|r0 rest0].
  - inversion H; subst. unfold print_raws. simpl. rewrite !app_nil_r. split; [reflexivity|]. simpl. auto.
  - destruct (condition_expression (last tok 0%N) (r0 :: rest0)) as [[ce rest']|] eqn:C; [|discriminate].
    apply condition_expression_inv in C. destruct C as [Ec [Hc Hcl]].
    destruct rest' as [|q0 q].
    + inversion H; subst ps. unfold print_raws. simpl. rewrite !app_nil_r in *. rewrite Es, Ec. split; [reflexivity|]. simpl. auto.
    + destruct (mm_parts f (q0 :: q)) as [ps'|] eqn:R; [|discriminate]. inversion H; subst ps. clear H.
      destruct (IH _ _ R) as [Er Sh]. split.
      * unfold print_raws in *. simpl. rewrite <- Er, Es, Ec. now rewrite <- app_assoc.
      * simpl. destruct ps' as [|p' t']; [contradiction|]. repeat split; auto.
Qed.

Theorem parse_ahb_sound s ps : parse_ahb s = Ok ps -> s = print_raws ps /\ result_shape ps.
Proof.
  unfold parse_ahb. destruct (prefix_operator s) as [[tok rest]|] eqn:P.
  - unfold prefix_operator in P. destruct s as [|c r]; [discriminate|].
    destruct (in_set c ci_x || in_set c ci_o || in_set c ci_u); [|discriminate]. inversion P; subst tok rest. clear P.
    destruct r as [|r0 r'].
    + intros H. inversion H; subst. split; [reflexivity|]. left. exists c, None. simpl. auto.
    + destruct (condition_expression (last [c] 0%N) (r0 :: r')) as [[ce [|x y]]|] eqn:C; try discriminate.
      intros H. inversion H; subst ps. apply condition_expression_inv in C. destruct C as [Ec [Hc Hcl]]. rewrite app_nil_r in Ec.
      split; [unfold print_raws; simpl; rewrite app_nil_r, Ec; reflexivity|]. left. exists c, (Some ce). simpl. auto.
  - destruct (mm_parts (Datatypes.S (length s)) s) as [ps'|] eqn:M; simpl; [|discriminate]. intros H. inversion H; subst ps'.
    destruct (mm_parts_inv _ _ _ M) as [E Sh]. split; [exact E|now right].
Qed.
