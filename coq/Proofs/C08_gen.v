(* Tie T for the two message builders: the rows of Gen/Gen_fcmsg.v -- FormatConstraintTransformer.and_/or_/xor_composition and
   HintExpressionBuilder.land/lor/xor executed on symbolic messages, regenerated from /repo on every run -- are what the hand-written models
   fc_compose (Model/EvalFC.v) and hb_land/hb_lor/hb_xor (Model/EvalRC.v) compute, for ALL message texts. A change of a builder changes a row and this
   file no longer compiles. *)
From Ahb Require Import Model.Prelude Model.Grammar Model.EvalRC Model.EvalFC Gen.Gen_fcmsg.

Definition ptext (a b : text) (p : piece) : text := match p with PLit t => t | PA => a | PB => b end.
Fixpoint inst (a b : text) (ps : list piece) : text :=
  match ps with
  | [] => []
  | [p] => ptext a b p
  | p :: t => ptext a b p ++ inst a b t
  end.

(* the operands of a row *)
Definition left_of (fm : bool * nat) (a : text) : efc := {| ff := fst fm; fmsg := match snd fm with 0 => None | _ => Some a end |}.
Definition right_of (fm : bool * nat) (a b : text) : efc :=
  {| ff := fst fm; fmsg := match snd fm with 0 => None | 1 => Some b | _ => Some a end |}.
Definition fc_expected (a b : text) (r : result (bool * option (list piece))) : result efc :=
  match r with Ok (f, m) => Ok {| ff := f; fmsg := option_map (inst a b) m |} | Exn e => Exn e end.
Definition fc_row_ok (row : binop * (bool * nat) * (bool * nat) * result (bool * option (list piece))) : Prop :=
  let '(op, l, r, res) := row in
  forall a b : text, fc_compose op (left_of l a) (right_of r a b) = fc_expected a b res.

Lemma fc_rows_ok : Forall fc_row_ok fc_rows.
Proof. unfold fc_rows. repeat (apply Forall_cons; [intros a b; reflexivity|]). apply Forall_nil. Qed.

(* every combination of truth values and message modes is in the table (nothing is vacuously true) *)
Lemma fc_rows_complete : length fc_rows = 72.
Proof. reflexivity. Qed.

Definition hint_of (m : nat) (x : text) : option text := match m with 0 => None | 1 => Some [] | _ => Some x end.
Definition hb_op (op : binop) : option text -> option text -> option text :=
  match op with BAnd => hb_land | BOr => hb_lor | BXor => hb_xor | BThen => fun s _ => s end.
Definition hint_row_ok (row : binop * nat * nat * result (option (list piece))) : Prop :=
  let '(op, s, o, res) := row in
  forall a b : text, a <> [] -> b <> [] ->
    Ok (hb_op op (hint_of s a) (hint_of o b)) = match res with Ok m => Ok (option_map (inst a b) m) | Exn e => Exn e end.

Lemma hint_rows_ok : Forall hint_row_ok hint_rows.
Proof.
  unfold hint_rows.
  repeat (apply Forall_cons; [intros a b Ha Hb; destruct a as [|x a]; [congruence|]; destruct b as [|y b]; [congruence|]; reflexivity|]).
  apply Forall_nil.
Qed.
Lemma hint_rows_complete : length hint_rows = 27.
Proof. reflexivity. Qed.
