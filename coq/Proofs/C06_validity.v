(* C06, validity check: trying every generated content evaluation result decides the structural criterion. *)
From Coq Require Import Lia.
From Ahb Require Import Model.Prelude Model.Grammar Gen.Gen_logic Gen.Gen_ranges Gen.Gen_valmaps Gen.Gen_enums Model.Logic Model.EvalRC Model.EvalFC
  Model.EvalAhb Model.Spec Model.Keys Model.Validity
  Proofs.C03_logic Proofs.C04_eval Proofs.C04_env Proofs.C08_fc Proofs.C07_fc Proofs.C09_ahb.
Set Implicit Arguments.

(* ---------- the unique tree of a builder-made expression is found with the fuel fc_tree uses ---------- *)
Lemma fc_tree_item_enough : (forall x t, TI x t -> forall f, fitem_size x <= f -> fc_tree_item f x = Some t) /\
                            (forall g t, T g t -> forall f, fitem_size (FG g) <= f -> fc_tree_item f (FG g) = Some t).
Proof.
  apply TI_T_ind.
  - intros k f Hf. destruct f as [|f]; [simpl in Hf; lia|]. reflexivity.
  - intros g t _ IH f Hf. apply IH. exact Hf.
  - intros x t _ IH f Hf. destruct f as [|f]; [simpl in Hf; lia|]. simpl in Hf. simpl. apply IH. lia.
  - intros a o b ta tb _ IHa _ IHb f Hf. destruct f as [|f]; [simpl in Hf; lia|]. simpl in Hf. cbn [fc_tree_item].
    rewrite IHa by lia. rewrite IHb by lia. reflexivity.
Qed.
Lemma fc_tree_of_T g t : T g t -> fc_tree g = Some t.
Proof. intros H. unfold fc_tree. apply (proj2 fc_tree_item_enough g t H). lia. Qed.

(* ---------- one generated result: total for every part, evaluation decides validity ---------- *)
Definition covers (hs fcs rcs : list text) (e : kexpr) : Prop :=
  forall k, In k (keys_of e) ->
    match kind_of k with
    | Some KRc => In k rcs
    | Some KHint => In k hs
    | Some KFc => In k fcs
    | _ => True
    end.
(* what C18_cartesian_spec says of a generated result *)
Definition gen_ok (hs fcs rcs : list text) (g : gen_result) : Prop :=
  g_hints g = map (fun k => (k, t_hinweis ++ k)) hs /\ map fst (g_fc g) = fcs /\ map fst (g_rc g) = rcs /\
  Forall (fun kv => snd kv <> C_NEUTRAL) (g_rc g).

Lemma lookup_in_keys {A} (l : list (text * A)) k : In k (map fst l) -> exists v, lookup l k = Some v /\ In (k, v) l.
Proof.
  induction l as [|[k' v] t IH]; simpl; intros H; [contradiction|].
  destruct (text_eqb k k') eqn:E.
  - apply text_eqb_eq in E. subst. exists v. auto.
  - destruct H as [H|H]; [subst; rewrite C04_env.text_eqb_refl in E; discriminate|]. destruct (IH H) as [w [Hw Hin]]. exists w. auto.
Qed.

Lemma gen_total hs fcs rcs g e : gen_ok hs fcs rcs g -> covers hs fcs rcs e -> cer_total (cer_of g) e.
Proof.
  intros [Gh [Gf [Gr Gn]]] C k Hin. specialize (C k Hin). destruct (kind_of k) as [[]|]; auto.
  - rewrite <- Gr in C. destruct (lookup_in_keys _ _ C) as [s [Ls Hs]]. exists s. split; [exact Ls|].
    rewrite Forall_forall in Gn. apply (Gn (k, s) Hs).
  - simpl. rewrite Gh. rewrite map_map. simpl.
    assert (Q : In k (map fst (map (fun x : text => (x, Some (t_hinweis ++ x))) hs))) by (rewrite map_map; simpl; now rewrite map_id).
    destruct (lookup_in_keys _ _ Q) as [v [Lv Hv]]. apply in_map_iff in Hv. destruct Hv as [x [E _]]. inversion E; subst. eauto.
Qed.

Lemma build_fenv_ok c ks : (forall k, In k ks -> In k (map fst (c_fc c))) ->
  exists beta, build_fenv c ks = Ok beta /\ forall k, In k ks -> exists v, lookup beta k = Some v.
Proof.
  unfold build_fenv. induction ks as [|k ks IH]; intros Hk; cbn [mapM]; [exists []; split; [reflexivity|intros k []]|].
  destruct (lookup_in_keys _ _ (Hk k (or_introl eq_refl))) as [v [Lv _]]. rewrite Lv. cbn [of_option bind].
  destruct IH as [beta [Hb Hl]]; [intros k' Hk'; apply Hk; now right|]. rewrite Hb. cbn [bind]. eexists. split; [reflexivity|].
  intros k' [<-|Hk']; cbn [lookup].
  - rewrite C04_env.text_eqb_refl. eauto.
  - destruct (text_eqb k' k); eauto.
Qed.

Lemma fc_evaluation_ok hs fcs rcs g t : gen_ok hs fcs rcs g -> no_then t = true -> (forall k, In k (keys_of t) -> In k fcs) ->
  exists r, fc_evaluation (cer_of g) (Some t) = Ok r.
Proof.
  intros [_ [Gf _]] Hn Hk.
  destruct (@build_fenv_ok (cer_of g) (keys_of t)) as [beta [Hb Hl]].
  { intros k Hin. simpl. rewrite map_map. simpl. change (map (fun x : text * bool => fst x) (g_fc g)) with (map fst (g_fc g)). rewrite Gf. now apply Hk. }
  cbn [fc_evaluation]. rewrite Hb. cbn [bind].
  destruct (@fc_boolean (fun k => match lookup beta k with Some v => ff v | None => false end) beta t Hn) as [r [Hr _]].
  - intros k Hin. destruct (Hl k Hin) as [v Lv]. exists v. now rewrite Lv.
  - eauto.
Qed.

Definition part_expr_ok (hs fcs rcs : list text) (p : part) : Prop :=
  (exists i, part_indicator p = Ok i) /\ match p with PExpr _ e => dom e = true /\ covers hs fcs rcs e | PBare _ => True end.
Definition part_valid (p : part) : bool := match p with PExpr _ e => valid e | PBare _ => true end.

Lemma eval_part_char hs fcs rcs g p i : gen_ok hs fcs rcs g -> part_expr_ok hs fcs rcs p ->
  if part_valid p then exists r, eval_part (cer_of g) p i = Ok r else eval_part (cer_of g) p i = Exn InvalidExpr.
Proof.
  intros G [_ Hp]. destruct p as [t e|t]; simpl; [|eauto]. destruct Hp as [D C].
  pose proof (gen_total G C) as Tot. destruct (build_env_ok D Tot) as [rho [B E]].
  pose proof (eval_char D E) as Ch. destruct (valid e) eqn:V.
  - destruct Ch as [n [H [S Sh]]].
    assert (Hrc : rc_evaluation (cer_of g) e = Ok (rc_result n)) by (unfold rc_evaluation; rewrite B; cbn [bind]; rewrite H; reflexivity).
    unfold eval_part_expr. rewrite Hrc. cbn [bind].
    pose proof (reported_expression D V E H) as R. pose proof (@rd_keys (assign_of (cer_of g)) e D) as RK.
    destruct (rd (assign_of (cer_of g)) e) as [fe|] eqn:Erd.
    + destruct R as [toks [t0 [Rf [HT [Hb Hkeys]]]]]. rewrite Rf.
      pose proof (T_nonempty HT) as Ne. destruct toks as [|x u]; [congruence|]. rewrite (fc_tree_of_T HT).
      destruct (@fc_evaluation_ok hs fcs rcs g t0 G) as [r Hr].
      * apply (proj2 T_no_then _ _ HT).
      * intros k Hk. rewrite Hkeys in Hk. destruct (RK fe eq_refl k Hk) as [Hin Hkind]. specialize (C k Hin).
        unfold is_kind in Hkind. destruct (kind_of k) as [[]|]; simpl in Hkind; try discriminate. exact C.
      * rewrite Hr. cbn [bind]. eauto.
    + rewrite R. cbn [fc_evaluation bind]. eauto.
  - assert (Hrc : rc_evaluation (cer_of g) e = Exn InvalidExpr) by (unfold rc_evaluation; rewrite B; cbn [bind]; rewrite Ch; reflexivity).
    unfold eval_part_expr. rewrite Hrc. reflexivity.
Qed.

Lemma all_parts_char hs fcs rcs g : gen_ok hs fcs rcs g -> forall ps inds, length inds = length ps -> Forall (part_expr_ok hs fcs rcs) ps ->
  if forallb part_valid ps then exists rs, map2M (eval_part (cer_of g)) ps inds = Ok rs /\ length rs = length ps
  else map2M (eval_part (cer_of g)) ps inds = Exn InvalidExpr.
Proof.
  intros G ps. induction ps as [|p ps IH]; intros inds Hl Hps.
  - simpl. exists []. destruct inds; auto.
  - destruct inds as [|i inds]; [discriminate|]. inversion Hps as [|? ? Hp Hps']; subst. simpl forallb. simpl map2M.
    pose proof (@eval_part_char hs fcs rcs g p i G Hp) as Cp. destruct (part_valid p).
    + destruct Cp as [r Hr]. rewrite Hr. simpl bind. specialize (IH inds (f_equal pred Hl) Hps'). simpl andb.
      destruct (forallb part_valid ps).
      * destruct IH as [rs [Hrs Hlen]]. rewrite Hrs. simpl. exists (r :: rs). simpl. auto.
      * rewrite IH. reflexivity.
    + rewrite Cp. reflexivity.
Qed.

Lemma mapM_length {A B} (f : A -> result B) l ys : mapM f l = Ok ys -> length ys = length l.
Proof.
  revert ys. induction l as [|x t IH]; intros ys H; simpl in H; [inversion H; reflexivity|].
  destruct (f x); simpl in H; [|discriminate]. destruct (mapM f t) eqn:E; simpl in H; [|discriminate]. inversion H; subst. simpl. f_equal. now apply IH.
Qed.

Theorem eval_ahb_char hs fcs rcs g ps : gen_ok hs fcs rcs g -> ps <> [] -> Forall (part_expr_ok hs fcs rcs) ps ->
  if forallb part_valid ps then exists r, eval_ahb (cer_of g) ps = Ok r else eval_ahb (cer_of g) ps = Exn InvalidExpr.
Proof.
  intros G Hne Hps. unfold eval_ahb.
  assert (Hi : exists inds, mapM part_indicator ps = Ok inds).
  { clear Hne. induction Hps as [|p ps [[i Hi] _] _ IH]; simpl; [eauto|]. rewrite Hi. simpl. destruct IH as [inds ->]. simpl. eauto. }
  destruct Hi as [inds Hi]. rewrite Hi. simpl bind.
  pose proof (@all_parts_char hs fcs rcs g G ps inds (mapM_length _ _ Hi) Hps) as C. destruct (forallb part_valid ps).
  - destruct C as [rs [Hrs Hlen]]. rewrite Hrs. simpl bind.
    destruct (@select_total (1 <? length ps) rs) as [r Hr]; [destruct rs; [destruct ps; [congruence|discriminate]|discriminate]|].
    rewrite Hr. simpl. eauto.
  - rewrite C. reflexivity.
Qed.

(* trying every generated result: (True) iff every part is structurally valid *)
Theorem try_all_decides hs fcs rcs ps gs : ps <> [] -> Forall (part_expr_ok hs fcs rcs) ps -> Forall (gen_ok hs fcs rcs) gs -> gs <> [] ->
  try_all ps gs = Ok (forallb part_valid ps).
Proof.
  intros Hne Hps Hgs Hg. destruct (forallb part_valid ps) eqn:V.
  - clear Hg. induction Hgs as [|g gs Hgk _ IH]; simpl; [reflexivity|].
    pose proof (eval_ahb_char Hgk Hne Hps) as C. rewrite V in C. destruct C as [r ->]. exact IH.
  - destruct gs as [|g gs]; [congruence|]. inversion Hgs as [|? ? Hgk _]; subst. simpl.
    pose proof (eval_ahb_char Hgk Hne Hps) as C. rewrite V in C. now rewrite C.
Qed.

(* a structurally invalid part always has a requirement or format key, so at least one result is generated *)
Lemma invalid_has_key e : dom e = true -> valid e = false -> exists k, In k (keys_of e) /\ (is_kind KRc k = true \/ is_kind KFc k = true).
Proof.
  induction e as [k|b l IHl r IHr]; intros D V; [discriminate|].
  assert (Dl : dom l = true /\ dom r = true) by (destruct b; simpl in D; repeat (apply andb_true_iff in D; destruct D as [D ?]); auto).
  destruct Dl as [Dl Dr].
  assert (Sub : (valid l = false \/ valid r = false) \/ (valid l = true /\ valid r = true)).
  { destruct (valid l), (valid r); auto. }
  destruct Sub as [[Vl|Vr]|[Vl Vr]].
  - destruct (IHl Dl Vl) as [k [Hk Hq]]. exists k. split; [simpl; apply in_or_app; now left|exact Hq].
  - destruct (IHr Dr Vr) as [k [Hk Hq]]. exists k. split; [simpl; apply in_or_app; now right|exact Hq].
  - assert (Hox : (b = BOr \/ b = BXor) /\ or_xor_ok l r = false).
    { destruct b; simpl in V; rewrite Vl, Vr in V; simpl in V; try discriminate; auto. }
    destruct Hox as [_ Hox]. unfold or_xor_ok in Hox.
    assert (Hc : forall x, carries_rc x = true -> exists k, In k (keys_of x) /\ is_kind KRc k = true).
    { clear. induction x as [k|b l IHl r IHr]; simpl; intros H; [exists k; auto|].
      apply orb_true_iff in H. destruct H as [H|H]; [destruct (IHl H) as [k [A B]]|destruct (IHr H) as [k [A B]]]; exists k; split; auto; apply in_or_app; auto. }
    assert (Hf : forall x, fc_leaf x = true -> exists k, In k (keys_of x) /\ is_kind KFc k = true).
    { intros x Hx. destruct x as [k|]; [|discriminate]. exists k. simpl. auto. }
    destruct (carries_rc l) eqn:Cl; [destruct (Hc l Cl) as [k [A B]]; exists k; split; [simpl; apply in_or_app; now left|now left]|].
    destruct (carries_rc r) eqn:Cr; [destruct (Hc r Cr) as [k [A B]]; exists k; split; [simpl; apply in_or_app; now right|now left]|].
    simpl in Hox. rewrite andb_true_r in Hox. apply negb_false_iff in Hox. apply orb_true_iff in Hox.
    destruct Hox as [Hox|Hox]; apply andb_true_iff in Hox; destruct Hox as [H1 H2].
    + destruct (Hf r H2) as [k [A B]]. exists k. split; [simpl; apply in_or_app; now right|now right].
    + destruct (Hf l H1) as [k [A B]]. exists k. split; [simpl; apply in_or_app; now left|now right].
Qed.

(* ---------- the validity check over the generated results (C18: generate = the Cartesian product) ---------- *)
From Ahb Require Import Proofs.C18_keys.

Theorem validity_check_decides hs fcs rcs ps : ps <> [] -> Forall (part_expr_ok hs fcs rcs) ps ->
  NoDup hs -> NoDup fcs -> NoDup rcs -> ~ In fc_dummy fcs -> ~ In rc_dummy rcs ->
  is_valid_tree ps hs fcs rcs = Ok (forallb part_valid ps).
Proof.
  intros Hne Hps Nh Nf Nr Df Dr. unfold is_valid_tree.
  destruct fcs as [|f fcs'] eqn:Ef; destruct rcs as [|r rcs'] eqn:Er.
  - (* no requirement and no format key: nothing is generated, and then no part can be invalid *)
    rewrite generate_no_keys. simpl. f_equal. symmetry. apply forallb_forall. intros p Hp.
    rewrite Forall_forall in Hps. destruct (Hps p Hp) as [_ Hd]. destruct p as [t e|t]; [|reflexivity]. destruct Hd as [D C].
    simpl. destruct (valid e) eqn:V; [reflexivity|]. destruct (invalid_has_key e D V) as [k [Hk [Q|Q]]]; specialize (C k Hk);
      unfold is_kind in Q; destruct (kind_of k) as [[]|]; simpl in Q; try discriminate; contradiction.
  - rewrite generate_eq_cartesian by (auto; right; discriminate). apply (@try_all_decides hs [] (r :: rcs')); auto.
    + apply Forall_forall. intros g Hg. exact (proj1 (cartesian_spec _ _ _ _) Hg).
    + intros E. pose proof (cartesian_length hs [] (r :: rcs')) as L. rewrite E in L. simpl in L.
      pose proof (Nat.pow_nonzero 3 (length rcs')). lia.
  - rewrite generate_eq_cartesian by (auto; left; discriminate). apply (@try_all_decides hs (f :: fcs') []); auto.
    + apply Forall_forall. intros g Hg. exact (proj1 (cartesian_spec _ _ _ _) Hg).
    + intros E. pose proof (cartesian_length hs (f :: fcs') []) as L. rewrite E in L. simpl in L.
      pose proof (Nat.pow_nonzero 2 (length fcs')). lia.
  - rewrite generate_eq_cartesian by (auto; left; discriminate). apply (@try_all_decides hs (f :: fcs') (r :: rcs')); auto.
    + apply Forall_forall. intros g Hg. exact (proj1 (cartesian_spec _ _ _ _) Hg).
    + intros E. pose proof (cartesian_length hs (f :: fcs') (r :: rcs')) as L. rewrite E in L. simpl in L.
      pose proof (Nat.pow_nonzero 2 (length fcs')). pose proof (Nat.pow_nonzero 3 (length rcs')). nia.
Qed.
