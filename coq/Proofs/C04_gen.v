(* Tie T for the heart of C04-C07: the four callbacks of RequirementConstraintTransformer, executed by the translator on every pair of nodes of a
   finite universe that covers all their case distinctions (Gen/Gen_rccb.v, regenerated from /repo on every run), are what `compose` of
   Model/EvalRC.v computes -- state, kind, hint text and collected format-constraint expression (as the string the builder writes), or the exception. *)
From Ahb Require Import Model.Prelude Model.Grammar Gen.Gen_logic Model.EvalRC Corr.Eval Gen.Gen_rccb.

Definition cb_row_ok (row : binop * node * node * result node_obs) : bool :=
  let '(b, l, r, o) := row in result_eqb node_obs_eqb (rmap node_obs_of (compose b l r)) o.

Lemma cb_rows_ok : forallb cb_row_ok cb_rows = true.
Proof. vm_compute. reflexivity. Qed.

Lemma cb_rows_complete : length cb_rows = 3600.
Proof. vm_compute. reflexivity. Qed.
