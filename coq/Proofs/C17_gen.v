(* Tie T for value pools: validate_data_element_valuepool, executed by the translator for every pool of 0..3 entries whose expressions come out
   fulfilled / unfulfilled / invalid (plus pools with a repeated qualifier), every entered input (absent, empty, each qualifier, something else) and the
   three statuses of the segment (Gen/Gen_pool.v, regenerated from /repo on every run), reports what `validate_valuepool` of Model/Validate.v reports:
   status, the flag for an unexpected value, the hint TEXT and the offered values in order -- or the exception class. *)
From Ahb Require Import Model.Prelude Model.Grammar Gen.Gen_logic Gen.Gen_valmaps Model.EvalRC Model.EvalFC Model.EvalAhb Model.Validate Gen.Gen_pool.

Definition pm_ev (m : pmode) : result ahbres :=
  let cond f := Ok {| a_ind := I_MUSS; a_rc := {| r_fulfilled := Some f; r_conditional := Some true; r_fcx := None; r_hints := None |}; a_fc := fc_ok |} in
  match m with PmF => cond true | PmU => cond false | PmI => Exn InvalidExpr end.
Definition pairs_eqb (a b : list (text * text)) : bool :=
  list_eqb (fun p q => text_eqb (fst p) (fst q) && text_eqb (snd p) (snd q)) a b.
Definition pool_row_ok (row : list (text * text * pmode) * option text * rvv * result (rvv * bool * option text * option (list (text * text)))) : bool :=
  let '(pool, input, req, res) := row in
  match validate_valuepool pmode pm_ev [100%N] pool input req, res with
  | Ok (_, VDe rv fok _ h pv dt), Ok (rv', fok', h', pv') =>
      rvv_eqb rv rv' && Bool.eqb fok fok' && option_eqb text_eqb h h' && option_eqb pairs_eqb pv pv'
  | Exn e, Exn e' => exn_eqb e e'
  | _, _ => false
  end.

Lemma pool_rows_ok : forallb pool_row_ok pool_rows = true.
Proof. vm_compute. reflexivity. Qed.
Lemma pool_rows_complete : length pool_rows = 1071.
Proof. vm_compute. reflexivity. Qed.
