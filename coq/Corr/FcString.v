(* Tie C for the string-level FormatConstraintExpressionBuilder (Model/FcString.v): single calls of the builder, and the two string primitives it
   rests on (the compiled pattern's sub, str.strip) on arbitrary strings. *)
From Ahb Require Import Model.Prelude Model.Grammar Gen.Gen_logic Model.EvalRC Model.FcString.

(* FormatConstraintExpressionBuilder(self)._connect(op, other).get_expression(); other given by class, condition key, format_constraints_expression *)
Definition fcs_case := (lop * option text * nkind * text * option text * option text)%type.
Definition fcs_check (c : fcs_case) : bool :=
  let '(op, self, kd, key, fcx, obs) := c in option_eqb text_eqb (fcs_connect op self kd key fcx) obs.

(* FormatConstraintExpressionBuilder(node).get_expression() *)
Definition fcsinit_case := (nkind * text * option text * option text)%type.
Definition fcsinit_check (c : fcsinit_case) : bool :=
  let '(kd, key, fcx, obs) := c in option_eqb text_eqb (fcs_init kd key fcx) obs.

(* _one_key_surrounded_by_brackets_pattern.sub(r"\g<body>", s) and s.strip() *)
Definition str_case := (text * text * text)%type.
Definition str_check (c : str_case) : bool := let '(s, a, b) := c in text_eqb (re_sub s) a && text_eqb (strip s) b.

Lemma fcs_check_sound op self kd key fcx obs : fcs_check (op, self, kd, key, fcx, obs) = true -> fcs_connect op self kd key fcx = obs.
Proof. unfold fcs_check. apply option_eqb_eq. apply text_eqb_eq. Qed.
Lemma fcsinit_check_sound kd key fcx obs : fcsinit_check (kd, key, fcx, obs) = true -> fcs_init kd key fcx = obs.
Proof. unfold fcsinit_check. apply option_eqb_eq. apply text_eqb_eq. Qed.
Lemma str_check_sound s a b : str_check (s, a, b) = true -> re_sub s = a /\ strip s = b.
Proof. unfold str_check. intros H. apply andb_true_iff in H as [A B]. split; now apply text_eqb_eq. Qed.
