(* Tie C for C09 (evaluation of AHB expression trees), C13, C14, C16, C17 (validation). *)
From Ahb Require Import Model.Prelude Model.Grammar Gen.Gen_logic Gen.Gen_valmaps Gen.Gen_enums
  Model.EvalRC Model.EvalFC Model.EvalAhb Model.Validate Corr.Eval.

(* a node's expression as the harness hands it over: the resolved tree ahbicht parsed, or the exception class *)
Definition nxc := result ahb.
Definition evc (c : cer) (x : nxc) : result ahbres := match x with Ok a => eval_ahb c a | Exn e => Exn e end.
Definition marker : text := [60;105;110;118;97;108;105;100;62]%N.   (* "<invalid>": the harness canonicalises the reason *)

Definition dec := de nxc.
Definition nodec := node nxc.

Definition dtype_eqb (a b : dtype) : bool :=
  match a, b with DT_TEXT, DT_TEXT | DT_DATETIME, DT_DATETIME | DT_VALUE_POOL, DT_VALUE_POOL => true | _, _ => false end.
Definition pair_eqb (a b : text * text) : bool := text_eqb (fst a) (fst b) && text_eqb (snd a) (snd b).
Definition vres_eqb (a b : vres) : bool :=
  match a, b with
  | VSeg r h, VSeg r' h' => rvv_eqb r r' && option_eqb text_eqb h h'
  | VDe r f m h p d, VDe r' f' m' h' p' d' =>
      rvv_eqb r r' && bool_eqb f f' && option_eqb text_eqb m m' && option_eqb text_eqb h h'
      && option_eqb (list_eqb pair_eqb) p p' && dtype_eqb d d'
  | _, _ => false
  end.
Definition vrow_eqb (a b : text * vres) : bool := text_eqb (fst a) (fst b) && vres_eqb (snd a) (snd b).

(* validate_deep_anwendungshandbuch *)
Definition val_case := (cer * list nodec * bool * result (list (text * vres)))%type.
Definition val_check (c : val_case) : bool :=
  let '(ce, lines, soll, o) := c in
  result_eqb (list_eqb vrow_eqb) (validate_ahb nxc (evc ce) (fun _ => marker) lines soll) o.

(* validate_data_element_valuepool called directly with a segment status *)
Definition pool_case := (cer * dec * rvv * result (text * vres))%type.
Definition pool_check (c : pool_case) : bool :=
  let '(ce, e, req, o) := c in
  result_eqb vrow_eqb (validate_de nxc (evc ce) (fun _ => marker) e req true) o.

(* evaluate_ahb_expression_tree *)
Definition ahb_obs := (indicator * rc_obs * fc_obs)%type.
Definition ahb_obs_of (r : ahbres) : ahb_obs := (a_ind r, rc_obs_of (a_rc r), (ff (a_fc r), fmsg (a_fc r))).
Definition ahb_obs_eqb (a b : ahb_obs) : bool :=
  let '(i, r, f) := a in let '(i', r', f') := b in indicator_eqb i i' && rc_obs_eqb r r' && fc_obs_eqb f f'.
Definition ahb_case := (cer * nxc * result ahb_obs)%type.
Definition ahb_check (c : ahb_case) : bool :=
  let '(ce, x, o) := c in result_eqb ahb_obs_eqb (rmap ahb_obs_of (evc ce x)) o.
