(* Soundness of the comparison functions used by the correspondence checks of Corr/Parse.v, Corr/Eval.v, Corr/Validate.v,
   Corr/Resolve.v and Corr/Ahb.v: a check that evaluates to [true] really says that the model's result IS the observation
   the harness wrote down (so a vacuous comparison cannot hide a disagreement). *)
From Coq Require Import Lia.
From Ahb Require Import Model.Prelude Model.Grammar Gen.Gen_logic Gen.Gen_valmaps Gen.Gen_enums Gen.Gen_grammar Gen.Gen_ahbgrammar Gen.Gen_timecond
  Model.Lex Model.EvalRC Model.EvalFC Model.EvalAhb Model.Validate Model.Resolve Model.Ahb
  Corr.Parse Corr.Eval Corr.Validate Corr.Resolve Corr.Ahb.

Ltac andb_split H := repeat match type of H with (_ && _ = true) => let H2 := fresh "Hb" in apply andb_true_iff in H; destruct H as [H H2] end.

Lemma bool_eqb_eq a b : bool_eqb a b = true -> a = b. Proof. apply Bool.eqb_prop. Qed.
Lemma binop_eqb_eq a b : binop_eqb a b = true -> a = b. Proof. destruct a, b; simpl; congruence. Qed.
Lemma cfv_eqb_eq a b : cfv_eqb a b = true -> a = b. Proof. destruct a, b; simpl; congruence. Qed.
Lemma nkind_eqb_eq a b : nkind_eqb a b = true -> a = b. Proof. destruct a, b; simpl; congruence. Qed.
Lemma rvv_eqb_eq a b : rvv_eqb a b = true -> a = b. Proof. destruct a, b; simpl; congruence. Qed.
Lemma indicator_eqb_eq a b : indicator_eqb a b = true -> a = b. Proof. destruct a, b; simpl; congruence. Qed.
Lemma dtype_eqb_eq a b : dtype_eqb a b = true -> a = b. Proof. destruct a, b; simpl; congruence. Qed.

Lemma atom_eqb_eq a b : atom_eqb a b = true -> a = b.
Proof.
  destruct a as [x|x r|x], b as [y|y q|y]; simpl; try discriminate; intros H.
  - apply text_eqb_eq in H. now subst.
  - andb_split H. apply text_eqb_eq in H. apply (option_eqb_eq text_eqb text_eqb_eq) in Hb. now subst.
  - apply text_eqb_eq in H. now subst.
Qed.

Lemma fx_eqb_eq : forall a b, fx_eqb a b = true -> a = b.
Proof.
  fix IH 1. intros [x|o xs] [y|p ys]; simpl; try discriminate; intros H.
  - apply atom_eqb_eq in H. now subst.
  - andb_split H. apply binop_eqb_eq in H. subst p. f_equal.
    revert ys Hb. induction xs as [|x t IHt]; intros [|y u] Hb; try discriminate; [reflexivity|].
    andb_split Hb. apply IH in Hb. subst y. f_equal. now apply IHt.
Qed.

Lemma expr_eqb_eq : forall a b, expr_eqb a b = true -> a = b.
Proof.
  induction a as [x|o l IHl r IHr]; intros [y|p l' r']; simpl; try discriminate; intros H.
  - apply atom_eqb_eq in H. now subst.
  - andb_split H. apply binop_eqb_eq in H. apply IHl in Hb0. apply IHr in Hb. now subst.
Qed.

(* ---------- Corr/Parse.v ---------- *)
Theorem parse_check_sound s o : parse_check (s, o) = true ->
  match o with Ok e => parse_cond s = Ok (flat e) | Exn e => e = SyntaxErr /\ parse_cond s = Exn SyntaxErr end.
Proof.
  unfold parse_check. destruct o as [e|[]]; destruct (parse_cond s) as [f|[]]; try discriminate; intros H; auto.
  apply fx_eqb_eq in H. now subst.
Qed.

(* ---------- Corr/Eval.v ---------- *)
Lemma node_obs_eqb_eq a b : node_obs_eqb a b = true -> a = b.
Proof.
  destruct a, b. unfold node_obs_eqb. simpl. intros H. andb_split H.
  apply nkind_eqb_eq in H. apply cfv_eqb_eq in Hb1. apply (option_eqb_eq text_eqb text_eqb_eq) in Hb0, Hb. now subst.
Qed.
Lemma fc_obs_eqb_eq a b : fc_obs_eqb a b = true -> a = b.
Proof.
  destruct a, b. unfold fc_obs_eqb. simpl. intros H. andb_split H. apply bool_eqb_eq in H. apply (option_eqb_eq text_eqb text_eqb_eq) in Hb. now subst.
Qed.
Theorem rc_check_sound ce e o : rc_check (ce, e, o) = true -> rmap rc_obs_of (rc_evaluation ce e) = o.
Proof. unfold rc_check. apply result_eqb_eq. apply rc_obs_eqb_eq. Qed.
Theorem node_check_sound ce e o : node_check (ce, e, o) = true -> rmap node_obs_of (do rho <- build_env ce (keys_of e) ;; eval_rc rho e) = o.
Proof. unfold node_check. apply result_eqb_eq. apply node_obs_eqb_eq. Qed.
Theorem fc_check_sound ce e o : fc_check (ce, e, o) = true -> rmap (fun r => (ff r, fmsg r)) (fc_evaluation ce e) = o.
Proof. unfold fc_check. apply result_eqb_eq. apply fc_obs_eqb_eq. Qed.

(* ---------- Corr/Validate.v ---------- *)
Lemma pair_eqb_eq a b : pair_eqb a b = true -> a = b.
Proof. destruct a, b. unfold pair_eqb. simpl. intros H. andb_split H. apply text_eqb_eq in H, Hb. now subst. Qed.
Lemma vres_eqb_eq a b : vres_eqb a b = true -> a = b.
Proof.
  destruct a, b; simpl; try discriminate; intros H; andb_split H.
  - apply rvv_eqb_eq in H. apply (option_eqb_eq text_eqb text_eqb_eq) in Hb. now subst.
  - apply rvv_eqb_eq in H. apply bool_eqb_eq in Hb3. apply (option_eqb_eq text_eqb text_eqb_eq) in Hb2, Hb1.
    apply (option_eqb_eq (list_eqb pair_eqb) (list_eqb_eq pair_eqb pair_eqb_eq)) in Hb0. apply dtype_eqb_eq in Hb. now subst.
Qed.
Lemma vrow_eqb_eq a b : vrow_eqb a b = true -> a = b.
Proof. destruct a, b. unfold vrow_eqb. simpl. intros H. andb_split H. apply text_eqb_eq in H. apply vres_eqb_eq in Hb. now subst. Qed.
Theorem val_check_sound ce lines soll o : val_check (ce, lines, soll, o) = true ->
  validate_ahb nxc (evc ce) (fun _ => marker) lines soll = o.
Proof. unfold val_check. apply result_eqb_eq. apply list_eqb_eq. apply vrow_eqb_eq. Qed.
Theorem pool_check_sound ce e req o : pool_check (ce, e, req, o) = true -> validate_de nxc (evc ce) (fun _ => marker) e req true = o.
Proof. unfold pool_check. apply result_eqb_eq. apply vrow_eqb_eq. Qed.
Lemma ahb_obs_eqb_eq a b : ahb_obs_eqb a b = true -> a = b.
Proof.
  destruct a as [[i r] f], b as [[i' r'] f']. unfold ahb_obs_eqb. intros H. andb_split H.
  apply indicator_eqb_eq in H. apply rc_obs_eqb_eq in Hb0. apply fc_obs_eqb_eq in Hb. now subst.
Qed.
Theorem ahb_check_sound ce x o : ahb_check (ce, x, o) = true -> rmap ahb_obs_of (evc ce x) = o.
Proof. unfold ahb_check. apply result_eqb_eq. apply ahb_obs_eqb_eq. Qed.

(* ---------- Corr/Resolve.v ---------- *)
Theorem res_check_sound p rp rt e o : res_check (p, rp, rt, e, o) = true -> resolve_cond p rp rt e = o.
Proof. unfold res_check. apply result_eqb_eq. apply expr_eqb_eq. Qed.
Theorem many_check_sound p rp rt es o : many_check (p, rp, rt, es, o) = true -> resolve_many p rp rt es = o.
Proof. unfold many_check. apply result_eqb_eq. apply list_eqb_eq. apply expr_eqb_eq. Qed.

(* ---------- Corr/Ahb.v ---------- *)
Lemma indtok_eqb_eq a b : indtok_eqb a b = true -> a = b.
Proof. destruct a, b; simpl; try discriminate; intros H; apply text_eqb_eq in H; now subst. Qed.
Lemma rawpart_eqb_eq a b : rawpart_eqb a b = true -> a = b.
Proof. destruct a, b. simpl. intros H. andb_split H. apply indtok_eqb_eq in H. apply (option_eqb_eq text_eqb text_eqb_eq) in Hb. now subst. Qed.
Theorem ahbparse_check_sound s o : ahbparse_check (s, o) = true -> parse_ahb s = o.
Proof. unfold ahbparse_check. apply result_eqb_eq. apply list_eqb_eq. apply rawpart_eqb_eq. Qed.

Definition part_agrees (a : indtok * option fx) (b : indtok * option expr) : Prop :=
  fst a = fst b /\ snd a = option_map (@flat atom) (snd b).
Lemma part_eqb_sound a b : part_eqb a b = true -> part_agrees a b.
Proof.
  destruct a as [t [f|]], b as [t' [e|]]; unfold part_eqb, part_agrees; simpl; intros H; andb_split H; try discriminate;
    apply indtok_eqb_eq in H; subst; split; auto. apply fx_eqb_eq in Hb. now subst.
Qed.
Theorem resolvestr_check_sound s o : resolvestr_check (s, o) = true ->
  match o with
  | Ok (OAhb qs) => exists ps, resolve_str s = Ok (RAhb ps) /\ Forall2 part_agrees ps qs
  | Ok (OCond e) => resolve_str s = Ok (RCond (flat e))
  | Exn x => resolve_str s = Exn x
  end.
Proof.
  unfold resolvestr_check. destruct (resolve_str s) as [[ps|f]|a]; destruct o as [[qs|e]|b]; try discriminate; intros H.
  - exists ps. split; [reflexivity|]. revert qs H. induction ps as [|p t IH]; intros [|q u] H; simpl in H; try discriminate; constructor.
    + andb_split H. now apply part_eqb_sound.
    + andb_split H. now apply IH.
  - apply fx_eqb_eq in H. now subst.
  - apply exn_eqb_eq in H. now subst.
Qed.

(* ---------- the case runner: an empty list of bad positions means that every case checked ---------- *)
Lemma bad_ids_nil {A} (chk : A -> bool) l : forall i, bad_ids_from chk i l = [] -> forallb chk l = true.
Proof. induction l as [|x t IH]; intros i H; [reflexivity|]. simpl in *. destruct (chk x); [now apply (IH (Datatypes.S i))|discriminate]. Qed.
Theorem run_cases_sound {A} (chk : A -> bool) l n : run_cases chk l = (n, []) -> n = length l /\ forall c, In c l -> chk c = true.
Proof.
  unfold run_cases. intros H. inversion H as [[Hn Hb]]. split; [reflexivity|]. apply forallb_forall. now apply (bad_ids_nil chk l 0).
Qed.
Lemma bad_ids_complete {A} (chk : A -> bool) l : forall i j, In j (bad_ids_from chk i l) -> exists c, nth_error l (j - i) = Some c /\ chk c = false /\ i <= j.
Proof.
  induction l as [|x t IH]; intros i j H; [contradiction|]. simpl in H. destruct (chk x) eqn:E.
  - destruct (IH _ _ H) as [c [Hn [Hc Hl]]]. exists c. replace (j - i) with (Datatypes.S (j - Datatypes.S i)) by lia. simpl. auto with arith.
  - destruct H as [<-|H].
    + exists x. rewrite Nat.sub_diag. simpl. auto.
    + destruct (IH _ _ H) as [c [Hn [Hc Hl]]]. exists c. replace (j - i) with (Datatypes.S (j - Datatypes.S i)) by lia. simpl. auto with arith.
Qed.
