(* Tie C for C12 / C15: the harness of vlib/props/c12.py and c15.py runs ahbicht with evaluators that suspend a
   prescribed number of times; here the same skeleton with the same numbers is evaluated in the model:
   [den] (nothing yields) and, for the explicit schedules given with the case, the executable scheduler
   [run_to_end] (whose runs are [steps] sequences, C12_scheduler_sound). *)
From Ahb Require Import Model.Prelude Model.Async Proofs.C12_async.

(* ---- the awaitables of the harness *)
(* suspends n times, then returns v (VE e: raises e) *)
Definition aw_const (a : nat * val) : prog val := yields (fst a) (Ret (snd a)).
(* evaluate_<key>(text): suspends n times, reads the ContextVar again and is fulfilled iff it finds `expected`;
   reports both texts *)
Definition aw_fc (a : nat * val) : val -> prog val :=
  fun t => yields (fst a)
             match snd a with
             | VE e => Ret (VE e)                                                   (* the harness method raises e *)
             | expected => Get TEXT (fun t' => Ret (VL [t; t'; VB (val_eqb t' expected)]))
             end.
Definition rec_ok (r : val) : bool := match r with VL [_; _; VB true] => true | _ => false end.

(* lookup in a dict value *)
Fixpoint vget_items (key : text) (items : list val) : val :=
  match items with
  | [] => VE KeyErr
  | VL [VT k; v] :: t => if text_eqb k key then v else vget_items key t
  | _ :: t => vget_items key t
  end.
Definition vget (key : text) (d : val) : val := match d with VL items => vget_items key items | _ => VE TypeErr end.
Fixpoint vassoc (tbl : list (val * val)) (d : val) (dflt : val) : val :=
  match tbl with [] => dflt | (k, v) :: t => if val_eqb k d then v else vassoc t d dflt end.
Fixpoint nassoc (tbl : list (val * list nat)) (d : val) : list nat :=
  match tbl with [] => [] | (k, v) :: t => if val_eqb k d then v else nassoc t d end.

(* evaluate_single_condition during is_valid_expression: the data come from the ContextVar-backed provider when the
   evaluation starts; the harness suspends (as often as the table says for these data), reads the store AGAIN and
   answers from what it finds there *)
Definition aw_cer (ytbl : list (val * list nat)) (j : nat) (key : text) : prog val :=
  Get CER (fun d => yields (nth j (nassoc ytbl d) 0) (Get CER (fun d' => Ret (vget key d')))).

(* ---- case descriptions written by the harness *)
Inductive tspec :=
| SElem (pre : nat) (txt : val) (mid : nat) (fcs : list (nat * val))    (* free-text data element *)
| STask (n : nat) (v : val)                                              (* another concurrently validated thing *)
| SNode (pre : nat) (ch : list tspec).

Definition spec_elem (pre : nat) (text : val) (mid : nat) (fcs : list (nat * val)) : elem :=
  {| e_pre := pre; e_text := text; e_mid := mid; e_fcs := map aw_fc fcs;
     e_post := fun rs => VL [VB (forallb rec_ok rs); VL rs] |}.
Fixpoint to_vtree (s : tspec) : vtree :=
  match s with
  | SElem pre text mid fcs => TElem (spec_elem pre text mid fcs)
  | STask n v => TTask (aw_const (n, v))
  | SNode pre ch => TNode pre (map to_vtree ch)
  end.

Definition slot_of (s : val + (nat * val)) : slot := match s with inl v => Plain v | inr a => Aw (aw_const a) end.
Fixpoint flat1 (l : list val) : list val :=
  match l with [] => [] | VL x :: t => x ++ flat1 t | v :: t => v :: flat1 t end.

Definition valid_run := (list val * list text * list (val * list nat) * list (val * val))%type.
Definition valid_prog (r : valid_run) : prog val :=
  let '(cers, keys, ytbl, outcome) := r in
  is_valid_site cers
    (pbind (rc_site keys (map (fun jk => aw_cer ytbl (fst jk) (snd jk)) (combine (seq 0 (length keys)) keys)))
           (fun d => Ret (vassoc outcome d d))).

Inductive case :=
| CRc (keys : list text) (aws : list (nat * val))                       (* RcEvaluator.evaluate_conditions *)
| CFcPar (groups : list (val * list text * list (nat * val)))           (* concurrent evaluate_format_constraints, each task sets its own text *)
| CFc (txt : val) (keys : list text) (evs : list (nat * val))          (* evaluate_format_constraints, text set by the caller *)
| CHints (keys : list text) (aws : list (nat * val)) (raise_key_error : bool)   (* HintsProvider.get_hints *)
| CParts (slots : list (val + (nat * val)))                             (* modal-mark parts: first fulfilled else last *)
| CMixed (slots : list (val + (nat * val)))                             (* gather_if_necessary: the list *)
| CPackages (slots : list (val + (nat * val)))                          (* expand_packages: leaves in order *)
| CValid (runs : list valid_run)                                        (* concurrent is_valid_expression calls *)
| CTree (t : tspec)                                                     (* validate_segment(_group) / deep ahb *)
| CTreeSetInParent (pre : nat) (els : list (nat * val * nat * list (nat * val))).   (* the refuted variant (search only) *)

Definition prog_of (cs : case) : ctx val * prog val * (val -> val) :=
  match cs with
  | CRc keys aws => (ctx0, rc_site keys (map aw_const aws), fun v => v)
  | CFcPar groups =>
      (ctx0, Par (map (fun g => let '(t, keys, evs) := g in Put TEXT t (fc_site keys (map aw_fc evs))) groups)
                 (fun rs => gather_k rs (fun rs => Ret (VL rs))), fun v => v)
  | CFc t keys evs => (upd ctx0 TEXT t, fc_site keys (map aw_fc evs), fun v => v)
  | CHints keys aws flag => (ctx0, hints_site keys (map aw_const aws) flag, fun v => v)
  | CParts slots => (ctx0, parts_site (map slot_of slots), fun v => v)
  | CMixed slots => (ctx0, packages_site (map slot_of slots), fun v => v)
  | CPackages slots => (ctx0, packages_site (map slot_of slots), fun v => match v with VL l => VL (flat1 l) | _ => v end)
  | CValid runs => (ctx0, Par (map valid_prog runs) (fun rs => gather_k rs (fun rs => Ret (VL rs))), fun v => v)
  | CTree t => (ctx0, tree_prog (to_vtree t), fun v => v)
  | CTreeSetInParent pre els =>
      (ctx0, validate_segment_set_in_parent pre (map (fun e => let '(p, t, m, f) := e in spec_elem p t m f) els), fun v => v)
  end.

Definition done_with (q : conf val) (post : val -> val) (obs : val) : bool :=
  match q with Done v => val_eqb (post v) obs | _ => false end.

(* (skeleton, explicit schedules, what ahbicht returned) *)
Definition async_case := (case * list (list nat) * val)%type.
Definition model_result (cs : case) : val := let '(c, p, post) := prog_of cs in post (den c p).
Definition async_check (a : async_case) : bool :=
  let '(cs, scheds, obs) := a in
  let '(c, p, post) := prog_of cs in
  val_eqb (post (den c p)) obs && forallb (fun ch => done_with (run_to_end ch c p) post obs) scheds.

(* a passing check means: the observation IS the denotation, and the listed schedules are [steps] runs ending in it *)
Lemma async_check_sound (cs : case) (scheds : list (list nat)) (obs : val) :
  async_check (cs, scheds, obs) = true -> model_result cs = obs.
Proof.
  unfold async_check, model_result. destruct (prog_of cs) as [[c p] post]. intros H.
  apply andb_true_iff in H. destruct H as [H _]. now apply val_eqb_eq.
Qed.
