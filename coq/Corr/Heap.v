(* Tie C for C11: a case is a history (strings as ids) together with what ahbicht returned for every parse (serialised
   tree or exception class) and for every peek; the model runs the same history with the constants generated from the
   source and with pure_parse given by a table {id -> what the uncached Lark parser returned for that string}. *)
From Coq Require Import FMapPositive PArith.
From Ahb Require Import Model.Prelude Gen.Gen_cache Model.Heap.

Fixpoint atree_eqb (a b : atree) : bool :=
  match a, b with
  | ATok t1 v1, ATok t2 v2 => text_eqb t1 t2 && text_eqb v1 v2
  | ATree d1 k1, ATree d2 k2 =>
    text_eqb d1 d2 &&
    (fix go (l1 l2 : list atree) : bool :=
       match l1, l2 with
       | [], [] => true
       | x :: t1, y :: t2 => atree_eqb x y && go t1 t2
       | _, _ => false
       end) k1 k2
  | _, _ => false
  end.

Definition obs_eqb (a b : observation) : bool :=
  match a, b with
  | OParse x, OParse y | OPeek x, OPeek y => result_eqb atree_eqb x y
  | _, _ => false
  end.

(* pure_parse from the table of uncached parses; a string id that is not in the table cannot occur in a case *)
Definition table := list (N * result atree).
Definition build (t : table) : PositiveMap.t (result atree) :=
  fold_left (fun m e => PositiveMap.add (N.succ_pos (fst e)) (snd e) m) t (PositiveMap.empty _).
Definition mk_pp (tc ta : table) : parser -> N -> result atree :=
  let mc := build tc in
  let ma := build ta in
  fun p s => match PositiveMap.find (N.succ_pos s) (match p with PCond => mc | PAhb => ma end) with
             | Some r => r
             | None => Exn OtherErr
             end.

Definition heap_case := (history * list observation)%type.
Definition heap_check (pp : parser -> N -> result atree) (c : heap_case) : bool :=
  list_eqb obs_eqb (run_src pp (fst c)) (snd c).
(* the same history under another copy mode (used to show that the correspondence discriminates the modes) *)
Definition heap_check_mode (m : copy_mode) (pp : parser -> N -> result atree) (c : heap_case) : bool :=
  list_eqb obs_eqb (run m cache_maxsize pp (fst c)) (snd c).

Lemma atree_eqb_eq : forall a b, atree_eqb a b = true -> a = b.
Proof.
  fix IH 1. intros [t1 v1|d1 k1] [t2 v2|d2 k2] H; simpl in H; try discriminate.
  - apply andb_true_iff in H. destruct H as [H1 H2]. apply text_eqb_eq in H1. apply text_eqb_eq in H2. now subst.
  - apply andb_true_iff in H. destruct H as [H1 H2]. apply text_eqb_eq in H1. subst. f_equal.
    revert k2 H2. induction k1 as [|x t1 IHl]; intros [|y t2] H2; try discriminate; [reflexivity|].
    apply andb_true_iff in H2. destruct H2 as [Hx Ht]. f_equal; [now apply IH|now apply IHl].
Qed.
Lemma obs_eqb_eq a b : obs_eqb a b = true -> a = b.
Proof.
  destruct a as [x|x], b as [y|y]; simpl; intros H; try discriminate; f_equal;
    apply (result_eqb_eq atree_eqb atree_eqb_eq); exact H.
Qed.
Lemma heap_check_sound pp c : heap_check pp c = true -> run_src pp (fst c) = snd c.
Proof. unfold heap_check. apply list_eqb_eq. exact obs_eqb_eq. Qed.
