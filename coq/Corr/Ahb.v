(* Tie C for the AHB-expression scanner and the resolver's exception structure (C02 part 2, C09 part 2). *)
From Ahb Require Import Model.Prelude Model.Grammar Gen.Gen_grammar Gen.Gen_ahbgrammar Model.Lex Model.EvalAhb Model.Ahb Corr.Parse.

Definition indtok_eqb (a b : indtok) : bool :=
  match a, b with TokMM x, TokMM y | TokPO x, TokPO y => text_eqb x y | _, _ => false end.
Definition rawpart_eqb (a b : rawpart) : bool :=
  match a, b with RP t c, RP t' c' => indtok_eqb t t' && option_eqb text_eqb c c' end.

(* parse_ahb_expression_to_single_requirement_indicator_expressions: tokens of every part *)
Definition ahbparse_case := (text * result (list rawpart))%type.
Definition ahbparse_check (c : ahbparse_case) : bool :=
  let '(s, o) := c in result_eqb (list_eqb rawpart_eqb) (parse_ahb s) o.

(* parse_expression_including_unresolved_subexpressions(s, resolve_packages=False, replace_time_conditions=False):
   the observation carries the trees ahbicht built; they are compared modulo same-operator runs *)
Inductive robs := OAhb (parts : list (indtok * option expr)) | OCond (t : expr).
Definition part_eqb (a : indtok * option fx) (b : indtok * option expr) : bool :=
  indtok_eqb (fst a) (fst b) && match snd a, snd b with
                                | Some f, Some e => fx_eqb f (flatc e)
                                | None, None => true
                                | _, _ => false
                                end.
Fixpoint list_eqb2 {A B} (f : A -> B -> bool) (l : list A) (m : list B) : bool :=
  match l, m with [], [] => true | x :: t, y :: u => f x y && list_eqb2 f t u | _, _ => false end.
Definition resolvestr_case := (text * result robs)%type.
Definition resolvestr_check (c : resolvestr_case) : bool :=
  let '(s, o) := c in
  match resolve_str s, o with
  | Ok (RAhb ps), Ok (OAhb qs) => list_eqb2 part_eqb ps qs
  | Ok (RCond f), Ok (OCond e) => fx_eqb f (flatc e)
  | Exn a, Exn b => exn_eqb a b
  | _, _ => false
  end.
