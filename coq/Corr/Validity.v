(* Tie C for C06 (validity check): is_valid_expression on a resolved AHB tree vs Model/Validity.v. The harness hands over the
   tree ahbicht resolved and the sanitized key lists extract_categorized_keys_from_tree returns for it. *)
From Ahb Require Import Model.Prelude Model.Grammar Gen.Gen_logic Gen.Gen_valmaps Gen.Gen_enums Model.EvalRC Model.EvalFC Model.EvalAhb Model.Keys Model.Validity Corr.Eval.

Definition valid_case := (ahb * list text * list text * list text * result bool)%type.
Definition valid_check (c : valid_case) : bool :=
  let '(a, hs, fcs, rcs, o) := c in result_eqb bool_eqb (is_valid_tree a hs fcs rcs) o.
Lemma valid_check_sound a hs fcs rcs o : valid_check (a, hs, fcs, rcs, o) = true -> is_valid_tree a hs fcs rcs = o.
Proof. unfold valid_check. apply result_eqb_eq. apply Bool.eqb_prop. Qed.
