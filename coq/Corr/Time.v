(* Tie C for C20: what the harness observes of FcEvaluator.evaluate_931..935 and how it is compared with Model/Time.v;
   tie T validation of Gen_tz (table_offset against pytz on a grid of instants). *)
From Ahb Require Import Model.Prelude Gen.Gen_tz Model.Time.
Set Implicit Arguments.

(* observation of one call: Ok (format_constraint_fulfilled, error_message is not None) or the exception class *)
Definition time_obs := result verdict.
Definition verdict_eqb (a b : verdict) : bool := Bool.eqb (fst a) (fst b) && Bool.eqb (snd a) (snd b).
Definition time_obs_eqb (a b : time_obs) : bool := result_eqb verdict_eqb a b.

Definition model_obs (s : text) : list time_obs := map (fun k => eval_93x k s) fc_keys.

(* one entered string with the five observations, in the order of fc_keys *)
Definition time_case := (text * list time_obs)%type.
Definition time_check (c : time_case) : bool := list_eqb time_obs_eqb (model_obs (fst c)) (snd c).

(* (UTC second, utcoffset in seconds that berlin.fromutc applied) *)
Definition tz_case := (Z * Z)%type.
Definition tz_check (c : tz_case) : bool := Z.eqb (table_offset (fst c)) (snd c).
(* length of the generated table as pytz reports it *)
Definition tz_len_check (n : Z) : bool := Z.eqb (Z.of_nat (length berlin_transitions)) n && Z.eqb berlin_transitions_count n.

Lemma verdict_eqb_eq a b : verdict_eqb a b = true -> a = b.
Proof.
  destruct a as [a1 a2], b as [b1 b2]; unfold verdict_eqb; simpl; intros H.
  apply andb_true_iff in H. destruct H as [H1 H2].
  apply Bool.eqb_prop in H1. apply Bool.eqb_prop in H2. now subst.
Qed.

Lemma time_obs_eqb_eq a b : time_obs_eqb a b = true -> a = b.
Proof. apply result_eqb_eq. exact verdict_eqb_eq. Qed.

Lemma time_check_sound s obs : time_check (s, obs) = true -> model_obs s = obs.
Proof. unfold time_check; cbv [fst snd]. apply list_eqb_eq. exact time_obs_eqb_eq. Qed.
