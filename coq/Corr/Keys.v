(* Tie T / tie C for C18: observation types and checks comparing Gen_ranges and Model/Keys with what ahbicht returned. *)
From Ahb Require Import Model.Prelude Model.Grammar Gen.Gen_logic Gen.Gen_ranges Model.Lex Model.Keys.

(* ---- tie T: the generated node_type_of_key vs derive_condition_node_type(key) (value or exception class) *)
Definition nt_case := (text * result node_type)%type.
Definition nt_check (c : nt_case) : bool := result_eqb node_type_eqb (node_type_of_key (fst c)) (snd c).

(* ---- CategorizedKeyExtract, field by field, as ordered lists *)
Definition keys_eqb : list text -> list text -> bool := list_eqb text_eqb.
Definition extract_record_eqb (a b : extract_record) : bool :=
  keys_eqb (hint_keys a) (hint_keys b) && keys_eqb (fc_keys a) (fc_keys b) && keys_eqb (rc_keys a) (rc_keys b)
  && keys_eqb (pkg_keys a) (pkg_keys b) && keys_eqb (time_keys a) (time_keys b).

(* extract_categorized_keys_from_tree(tree, sanitize) on the tree ahbicht parsed (or resolved) *)
Definition extract_case := (expr * bool * result extract_record)%type.
Definition extract_check (c : extract_case) : bool :=
  let '(e, san, o) := c in result_eqb extract_record_eqb (extract_tree e san) o.

(* extract_categorized_keys_from_tree(list_of_keys, sanitize) *)
Definition extract_list_case := (list text * bool * result extract_record)%type.
Definition extract_list_check (c : extract_list_case) : bool :=
  let '(ks, san, o) := c in
  result_eqb extract_record_eqb (do r <- extract_list ks ;; if san then sanitize r else Ok r) o.

(* a + b *)
Definition add_case := (extract_record * extract_record * result extract_record)%type.
Definition add_check (c : add_case) : bool :=
  let '(a, b, o) := c in result_eqb extract_record_eqb (add a b) o.

(* generate_possible_content_evaluation_results: the ORDERED list of (hints, format constraints, requirement constraints),
   every dict as its ordered list of items *)
Definition pair_eqb {A B} (ea : A -> A -> bool) (eb : B -> B -> bool) (x y : A * B) : bool :=
  ea (fst x) (fst y) && eb (snd x) (snd y).
Definition gen_result_eqb (a b : gen_result) : bool :=
  list_eqb (pair_eqb text_eqb text_eqb) (g_hints a) (g_hints b)
  && list_eqb (pair_eqb text_eqb Bool.eqb) (g_fc a) (g_fc b)
  && list_eqb (pair_eqb text_eqb cfv_eqb) (g_rc a) (g_rc b).
Definition gen_case := (extract_record * list gen_result)%type.
Definition gen_check (c : gen_case) : bool := list_eqb gen_result_eqb (generate_of (fst c)) (snd c).

(* ---- the comparisons are sound: a passing check means equal observations *)
Lemma node_type_eqb_eq a b : node_type_eqb a b = true -> a = b.
Proof. destruct a, b; simpl; intros H; try discriminate; reflexivity. Qed.
Lemma cfv_eqb_eq a b : cfv_eqb a b = true -> a = b.
Proof. destruct a, b; simpl; intros H; try discriminate; reflexivity. Qed.
Lemma keys_eqb_eq a b : keys_eqb a b = true -> a = b.
Proof. apply list_eqb_eq. exact text_eqb_eq. Qed.
Lemma pair_eqb_eq {A B} (ea : A -> A -> bool) (eb : B -> B -> bool) :
  (forall x y, ea x y = true -> x = y) -> (forall x y, eb x y = true -> x = y) ->
  forall x y, pair_eqb ea eb x y = true -> x = y.
Proof.
  intros Ha Hb [a b] [c d] H. unfold pair_eqb in H. simpl in H. apply andb_true_iff in H. destruct H as [H1 H2].
  f_equal; [now apply Ha|now apply Hb].
Qed.
Lemma extract_record_eqb_eq a b : extract_record_eqb a b = true -> a = b.
Proof.
  destruct a, b. unfold extract_record_eqb. simpl. intros H.
  repeat (apply andb_true_iff in H; destruct H as [H ?]).
  f_equal; now apply keys_eqb_eq.
Qed.
Lemma gen_result_eqb_eq a b : gen_result_eqb a b = true -> a = b.
Proof.
  destruct a, b. unfold gen_result_eqb. simpl. intros H.
  repeat (apply andb_true_iff in H; destruct H as [H ?]).
  f_equal; (eapply list_eqb_eq; [|eassumption]); apply pair_eqb_eq;
    try exact text_eqb_eq; try exact cfv_eqb_eq; try exact Bool.eqb_prop.
Qed.
Lemma nt_check_sound k o : nt_check (k, o) = true -> node_type_of_key k = o.
Proof. unfold nt_check. simpl. apply result_eqb_eq. exact node_type_eqb_eq. Qed.
Lemma extract_check_sound e san o : extract_check (e, san, o) = true -> extract_tree e san = o.
Proof. unfold extract_check. apply result_eqb_eq. exact extract_record_eqb_eq. Qed.
Lemma add_check_sound a b o : add_check (a, b, o) = true -> add a b = o.
Proof. unfold add_check. apply result_eqb_eq. exact extract_record_eqb_eq. Qed.
Lemma gen_check_sound r o : gen_check (r, o) = true -> generate_of r = o.
Proof. unfold gen_check. simpl. apply list_eqb_eq. exact gen_result_eqb_eq. Qed.
