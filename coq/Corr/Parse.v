(* Tie C for C01/C02/C10: the condition-expression parser. *)
From Ahb Require Import Model.Prelude Model.Grammar Gen.Gen_grammar Model.Lex.

Definition flatc := @Grammar.flat atom.
(* observation: the tree Lark returned, or the exception class *)
Definition parse_case := (text * result expr)%type.
Definition parse_check (c : parse_case) : bool :=
  let '(s, o) := c in
  match o, parse_cond s with
  | Ok e, Ok f => fx_eqb f (flatc e)
  | Exn SyntaxErr, Exn SyntaxErr => true
  | _, _ => false
  end.
