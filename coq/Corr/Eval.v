(* Tie C for C04-C08: observation types and checks comparing the model with what ahbicht returned. *)
From Ahb Require Import Model.Prelude Model.Grammar Gen.Gen_logic Model.EvalRC Model.EvalFC.

Definition bool_eqb := Bool.eqb.
Record rc_obs := { ob_f : option bool; ob_c : option bool; ob_fcx : option text; ob_h : option text }.
Definition rc_obs_of (r : rcres) : rc_obs :=
  {| ob_f := r_fulfilled r; ob_c := r_conditional r; ob_fcx := option_map render (r_fcx r); ob_h := r_hints r |}.
Definition rc_obs_eqb (a b : rc_obs) : bool :=
  option_eqb bool_eqb (ob_f a) (ob_f b) && option_eqb bool_eqb (ob_c a) (ob_c b)
  && option_eqb text_eqb (ob_fcx a) (ob_fcx b) && option_eqb text_eqb (ob_h a) (ob_h b).
Definition rmap {A B} (f : A -> B) (r : result A) : result B := match r with Ok a => Ok (f a) | Exn e => Exn e end.

(* requirement_constraint_evaluation(tree) with dict-based evaluators answering from the cer *)
Definition rc_case := (cer * kexpr * result rc_obs)%type.
Definition rc_check (c : rc_case) : bool :=
  let '(ce, e, o) := c in result_eqb rc_obs_eqb (rmap rc_obs_of (rc_evaluation ce e)) o.

(* evaluate_requirement_constraint_tree(tree, nodes): state, kind, hint and expression of the returned node *)
Record node_obs := { no_k : nkind; no_st : cfv; no_h : option text; no_fcx : option text }.
Definition node_obs_of (n : node) : node_obs :=
  {| no_k := nk n; no_st := st n; no_h := nhint n; no_fcx := option_map render (nfcx n) |}.
Definition node_obs_eqb (a b : node_obs) : bool :=
  nkind_eqb (no_k a) (no_k b) && cfv_eqb (no_st a) (no_st b) && option_eqb text_eqb (no_h a) (no_h b)
  && option_eqb text_eqb (no_fcx a) (no_fcx b).
Definition node_case := (cer * kexpr * result node_obs)%type.
Definition node_check (c : node_case) : bool :=
  let '(ce, e, o) := c in
  result_eqb node_obs_eqb (rmap node_obs_of (do rho <- build_env ce (keys_of e) ;; eval_rc rho e)) o.

(* format_constraint_evaluation on the tree ahbicht parsed from a format-constraint expression *)
Definition fc_obs := (bool * option text)%type.
Definition fc_obs_eqb (a b : fc_obs) : bool := bool_eqb (fst a) (fst b) && option_eqb text_eqb (snd a) (snd b).
Definition fc_case := (cer * option kexpr * result fc_obs)%type.
Definition fc_check (c : fc_case) : bool :=
  let '(ce, e, o) := c in result_eqb fc_obs_eqb (rmap (fun r => (ff r, fmsg r)) (fc_evaluation ce e)) o.

(* one AHB part end to end: requirement evaluation, then format-constraint evaluation of the collected expression
   (the model uses the unique tree of the builder-made expression, ahbicht re-parses the string) *)
Definition part_case := (cer * kexpr * result fc_obs)%type.
Definition part_check (c : part_case) : bool :=
  let '(ce, e, o) := c in
  result_eqb fc_obs_eqb
    (do r <- rc_evaluation ce e ;;
     match r_fcx r with
     | None => rmap (fun r => (ff r, fmsg r)) (fc_evaluation ce None)
     | Some t => match fc_tree t with
                 | Some tr => rmap (fun r => (ff r, fmsg r)) (fc_evaluation ce (Some tr))
                 | None => Exn OutOfFuel
                 end
     end) o.

Lemma rc_obs_eqb_eq a b : rc_obs_eqb a b = true -> a = b.
Proof.
  destruct a, b; unfold rc_obs_eqb; simpl; intros H.
  repeat (apply andb_true_iff in H; destruct H as [H ?]).
  f_equal; (apply option_eqb_eq with (eqb := bool_eqb) || apply option_eqb_eq with (eqb := text_eqb)); auto;
    try (intros x y; apply Bool.eqb_prop); try apply text_eqb_eq.
Qed.
