(* Tie C (and the Coq side of tie T) for C19: observations of marshmallow/ahbicht as terms, decidable equalities on them
   (proved sound below), and the check functions evaluated by vlib/props/c19.py with vm_compute.
   JSON objects are compared as ORDERED association lists: the model emits the fields of an object in the declaration
   order of the schema and the entries of a dict in the order of the instance, which is also what marshmallow + json do. *)
From Ahb Require Import Model.Prelude Model.Json.
Set Implicit Arguments.

Fixpoint json_eqb (a b : json) {struct a} : bool :=
  match a, b with
  | JNull, JNull => true
  | JBool x, JBool y => Bool.eqb x y
  | JNum x, JNum y => Z.eqb x y
  | JStr x, JStr y => text_eqb x y
  | JArr x, JArr y =>
      (fix go (x y : list json) : bool :=
         match x, y with
         | [], [] => true
         | p :: x', q :: y' => json_eqb p q && go x' y'
         | _, _ => false
         end) x y
  | JObj x, JObj y =>
      (fix go (x y : list (text * json)) : bool :=
         match x, y with
         | [], [] => true
         | (k, p) :: x', (k', q) :: y' => text_eqb k k' && json_eqb p q && go x' y'
         | _, _ => false
         end) x y
  | _, _ => false
  end.

Fixpoint value_eqb (a b : value) {struct a} : bool :=
  match a, b with
  | VNone, VNone => true
  | VBool x, VBool y => Bool.eqb x y
  | VStr x, VStr y | VUuid x, VUuid y => text_eqb x y
  | VEnum e x, VEnum e' y => text_eqb e e' && text_eqb x y
  | VList x, VList y =>
      (fix go (x y : list value) : bool :=
         match x, y with
         | [], [] => true
         | p :: x', q :: y' => value_eqb p q && go x' y'
         | _, _ => false
         end) x y
  | VDict x, VDict y =>
      (fix go (x y : list (text * value)) : bool :=
         match x, y with
         | [], [] => true
         | (k, p) :: x', (k', q) :: y' => text_eqb k k' && value_eqb p q && go x' y'
         | _, _ => false
         end) x y
  | VObj c x, VObj c' y =>
      text_eqb c c' &&
      (fix go (x y : list (text * value)) : bool :=
         match x, y with
         | [], [] => true
         | (k, p) :: x', (k', q) :: y' => text_eqb k k' && value_eqb p q && go x' y'
         | _, _ => false
         end) x y
  | _, _ => false
  end.

Fixpoint lval_eqb (a b : lval) {struct a} : bool :=
  match a, b with
  | PTok t v, PTok t' v' => text_eqb t t' && option_eqb text_eqb v v'
  | PTree d x, PTree d' y =>
      text_eqb d d' &&
      (fix go (x y : list lval) : bool :=
         match x, y with
         | [], [] => true
         | p :: x', q :: y' => lval_eqb p q && go x' y'
         | _, _ => false
         end) x y
  | PRaw x, PRaw y =>
      (fix go (x y : list (text * option lval)) : bool :=
         match x, y with
         | [], [] => true
         | (k, p) :: x', (k', q) :: y' =>
             text_eqb k k' &&
             match p, q with
             | None, None => true
             | Some p', Some q' => lval_eqb p' q'
             | _, _ => false
             end && go x' y'
         | _, _ => false
         end) x y
  | _, _ => false
  end.

(* ---------------------------------------------------------------- tie T: the generated descriptors as flat facts *)
(* (attribute, (kind, effective allow_none, required, load_default, dump_default, key in the JSON object, nested schema)) ;
   kind: 0 Boolean 1 String 2 UUID 3 List 4 Dict 5 Nested; load_default: 0 missing 1 None 2 {}; dump_default: 0 missing 1 False 2 True *)
Definition fact := (text * (N * bool * bool * N * N * text * text))%type.
Definition kind_code (f : ftype) : N :=
  match f with FBool => 0 | FStr => 1 | FUuid => 2 | FList _ _ => 3 | FDict _ _ _ _ => 4 | FNested _ _ _ => 5 end%N.
Definition ldef_code (l : ldef) : N := match l with LMissing => 0 | LNone => 1 | LEmptyDict => 2 end%N.
Definition ddef_code (d : ddef) : N := match d with DMissing => 0 | DBool false => 1 | DBool true => 2 end%N.
Definition nested_name (f : ftype) : text := match f with FNested n _ _ => n | _ => [] end.
Definition fact_of (a : text) (f : ftype) (o : fopts) : fact :=
  (a, (kind_code f, allow_none o, required o, ldef_code (load_default o), ddef_code (dump_default o), key_of a o, nested_name f)).
(* the fields of a schema, each followed by its inner fields (List: "<attr>[]", Dict: "<attr>.keys", "<attr>.values") *)
Definition sfx_inner : text := [91;93]%N.
Definition sfx_keys : text := [46;107;101;121;115]%N.
Definition sfx_values : text := [46;118;97;108;117;101;115]%N.
Fixpoint inner_facts (a : text) (f : ftype) : list fact :=
  match f with
  | FList i io => fact_of (a ++ sfx_inner) i io :: inner_facts (a ++ sfx_inner) i
  | FDict k ko v vo =>
      fact_of (a ++ sfx_keys) k ko :: inner_facts (a ++ sfx_keys) k ++ fact_of (a ++ sfx_values) v vo :: inner_facts (a ++ sfx_values) v
  | _ => []
  end.
Definition schema_facts (s : schema) : list fact :=
  match s with
  | FNested _ _ fs => concat (map (fun f : sfield => fact_of (sf_attr f) (sf_ft f) (sf_opts f) :: inner_facts (sf_attr f) (sf_ft f)) fs)
  | _ => []
  end.
Definition fact_eqb (a b : fact) : bool :=
  match a, b with
  | (n, (k, an, rq, ld, dd, key, ns)), (n', (k', an', rq', ld', dd', key', ns')) =>
      text_eqb n n' && N.eqb k k' && Bool.eqb an an' && Bool.eqb rq rq' && N.eqb ld ld' && N.eqb dd dd' && text_eqb key key' && text_eqb ns ns'
  end.
(* attrs classes: (attribute, optional?, has a default?) *)
Definition cfact := (text * (bool * bool))%type.
Definition cls_facts (c : cls) : list cfact :=
  map (fun cf : cfield => (cf_name cf, (match cf_ty cf with TOpt _ => true | _ => false end, match cf_dflt cf with DNone => true | DNoDefault => false end))) (cfields c).
Definition cfact_eqb (a b : cfact) : bool :=
  text_eqb (fst a) (fst b) && Bool.eqb (fst (snd a)) (fst (snd b)) && Bool.eqb (snd (snd a)) (snd (snd b)).

(* ---------------------------------------------------------------- cases *)
Inductive jcase :=
| CInst (s : schema) (v : value) (d : result json) (l : result value)
      (* an instance: Schema().dumps(v) as JSON, and Schema().loads of that text *)
| CLoad (s : schema) (j : json) (l : result value)          (* Schema().load of an arbitrary (mutated) JSON value *)
| CDump (s : schema) (v : value) (d : result json)          (* Schema().dump of a (partial) dict / object *)
| CHas (c : cls) (v : value) (b : bool)                     (* the constructor of the class accepts exactly these attribute values *)
| CTree (t : ltree) (d : json) (l : result lval)            (* TreeSchema().dumps(t) and TreeSchema().loads of it *)
| CTLoad (j : json) (l : result lval)                       (* TreeSchema().load of a mutated JSON value *)
| CFacts (s : schema) (fs : list fact)                      (* tie T: generated descriptor vs Schema._declared_fields *)
| CCls (c : cls) (fs : list cfact).                         (* tie T: generated class descriptor vs attrs.fields(cls) *)

Definition jcheck (c : jcase) : bool :=
  match c with
  | CInst s v d l =>
      result_eqb json_eqb (dump s v) d && result_eqb value_eqb (do j <- dump s v ;; load s j) l
  | CLoad s j l => result_eqb value_eqb (load s j) l
  | CDump s v d => result_eqb json_eqb (dump s v) d
  | CHas c v b => Bool.eqb (has_ty (ty_of_cls c) v) b
  | CTree t d l => json_eqb (dump_tree t) d && result_eqb lval_eqb (load_tree (dump_tree t)) l
  | CTLoad j l => result_eqb lval_eqb (load_tree j) l
  | CFacts s fs => list_eqb fact_eqb (schema_facts s) fs
  | CCls c fs => list_eqb cfact_eqb (cls_facts c) fs
  end.

(* ---------------------------------------------------------------- the comparisons are sound *)
Section JsonInd.
  Variable P : json -> Prop.
  Hypothesis Hnull : P JNull.
  Hypothesis Hbool : forall b, P (JBool b).
  Hypothesis Hnum : forall z, P (JNum z).
  Hypothesis Hstr : forall s, P (JStr s).
  Hypothesis Harr : forall l, Forall P l -> P (JArr l).
  Hypothesis Hobj : forall kvs, Forall (fun kv : text * json => P (snd kv)) kvs -> P (JObj kvs).
  Fixpoint json_ind' (j : json) : P j :=
    match j with
    | JNull => Hnull | JBool b => Hbool b | JNum z => Hnum z | JStr s => Hstr s
    | JArr l => Harr ((fix go (l : list json) : Forall P l :=
                         match l with [] => Forall_nil _ | x :: r => Forall_cons x (json_ind' x) (go r) end) l)
    | JObj kvs => Hobj ((fix go (l : list (text * json)) : Forall (fun kv : text * json => P (snd kv)) l :=
                           match l with [] => Forall_nil _ | x :: r => Forall_cons x (json_ind' (snd x)) (go r) end) kvs)
    end.
End JsonInd.

Lemma json_eqb_eq a : forall b, json_eqb a b = true -> a = b.
Proof.
  induction a as [|x|x|x|l IH|kvs IH] using json_ind'; intros b H; destruct b; simpl in H; try discriminate; try reflexivity.
  - f_equal. now apply Bool.eqb_prop.
  - f_equal. now apply Z.eqb_eq.
  - f_equal. now apply text_eqb_eq.
  - f_equal. revert l0 H. induction IH as [|p x' Hp _ IHl]; intros [|q y'] H; try discriminate; [reflexivity|].
    apply andb_true_iff in H. destruct H as [H1 H2]. f_equal; [now apply Hp|now apply IHl].
  - f_equal. revert kvs0 H. induction IH as [|[k p] x' Hp _ IHl]; intros [|[k' q] y'] H; try discriminate; [reflexivity|].
    apply andb_true_iff in H. destruct H as [H1 H2]. apply andb_true_iff in H1. destruct H1 as [Hk Hv].
    apply text_eqb_eq in Hk. simpl in Hp. apply Hp in Hv. subst. f_equal. now apply IHl.
Qed.

Section ValueInd.
  Variable P : value -> Prop.
  Hypothesis Hnone : P VNone.
  Hypothesis Hbool : forall b, P (VBool b).
  Hypothesis Hstr : forall s, P (VStr s).
  Hypothesis Huuid : forall s, P (VUuid s).
  Hypothesis Henum : forall e x, P (VEnum e x).
  Hypothesis Hlist : forall l, Forall P l -> P (VList l).
  Hypothesis Hdict : forall kvs, Forall (fun kv : text * value => P (snd kv)) kvs -> P (VDict kvs).
  Hypothesis Hobj : forall c fs, Forall (fun kv : text * value => P (snd kv)) fs -> P (VObj c fs).
  Fixpoint value_ind' (v : value) : P v :=
    match v with
    | VNone => Hnone | VBool b => Hbool b | VStr s => Hstr s | VUuid s => Huuid s | VEnum e x => Henum e x
    | VList l => Hlist ((fix go (l : list value) : Forall P l :=
                           match l with [] => Forall_nil _ | x :: r => Forall_cons x (value_ind' x) (go r) end) l)
    | VDict kvs => Hdict ((fix go (l : list (text * value)) : Forall (fun kv : text * value => P (snd kv)) l :=
                             match l with [] => Forall_nil _ | x :: r => Forall_cons x (value_ind' (snd x)) (go r) end) kvs)
    | VObj c fs => Hobj c ((fix go (l : list (text * value)) : Forall (fun kv : text * value => P (snd kv)) l :=
                              match l with [] => Forall_nil _ | x :: r => Forall_cons x (value_ind' (snd x)) (go r) end) fs)
    end.
End ValueInd.

Lemma value_eqb_eq a : forall b, value_eqb a b = true -> a = b.
Proof.
  assert (Hkv : forall (l : list (text * value)), Forall (fun kv : text * value => forall b, value_eqb (snd kv) b = true -> snd kv = b) l ->
            forall l',
              (fix go (x y : list (text * value)) : bool :=
                 match x, y with
                 | [], [] => true
                 | (k, p) :: x', (k', q) :: y' => text_eqb k k' && value_eqb p q && go x' y'
                 | _, _ => false
                 end) l l' = true -> l = l').
  { intros l IH. induction IH as [|[k p] x' Hp _ IHl]; intros [|[k' q] y'] H; try discriminate; [reflexivity|].
    apply andb_true_iff in H. destruct H as [H1 H2]. apply andb_true_iff in H1. destruct H1 as [Hk Hv].
    apply text_eqb_eq in Hk. simpl in Hp. apply Hp in Hv. subst. f_equal. now apply IHl. }
  induction a as [|x|x|x|e x|l IH|kvs IH|c fs IH] using value_ind'; intros b H; destruct b; simpl in H; try discriminate; try reflexivity.
  - f_equal. now apply Bool.eqb_prop.
  - f_equal. now apply text_eqb_eq.
  - f_equal. now apply text_eqb_eq.
  - apply andb_true_iff in H. destruct H as [H1 H2]. apply text_eqb_eq in H1, H2. now subst.
  - f_equal. revert l0 H. induction IH as [|p x' Hp _ IHl]; intros [|q y'] H; try discriminate; [reflexivity|].
    apply andb_true_iff in H. destruct H as [H1 H2]. f_equal; [now apply Hp|now apply IHl].
  - f_equal. now apply Hkv.
  - apply andb_true_iff in H. destruct H as [H1 H2]. apply text_eqb_eq in H1. subst. f_equal. now apply Hkv.
Qed.

Section LvalInd.
  Variable P : lval -> Prop.
  Definition optP (kv : text * option lval) : Prop := match snd kv with Some x => P x | None => True end.
  Hypothesis Htok : forall t v, P (PTok t v).
  Hypothesis Htree : forall d l, Forall P l -> P (PTree d l).
  Hypothesis Hraw : forall kvs, Forall optP kvs -> P (PRaw kvs).
  Fixpoint lval_ind' (x : lval) : P x :=
    match x with
    | PTok t v => Htok t v
    | PTree d l => Htree d ((fix go (l : list lval) : Forall P l :=
                               match l with [] => Forall_nil _ | y :: r => Forall_cons y (lval_ind' y) (go r) end) l)
    | PRaw kvs =>
        Hraw ((fix go (l : list (text * option lval)) : Forall optP l :=
                 match l with
                 | [] => Forall_nil _
                 | (k, o) :: r =>
                     @Forall_cons _ optP (k, o) r
                       (match o as o' return optP (k, o') with Some z => lval_ind' z | None => I end) (go r)
                 end) kvs)
    end.
End LvalInd.

Lemma lval_eqb_eq a : forall b, lval_eqb a b = true -> a = b.
Proof.
  induction a as [t v|d l IH|kvs IH] using lval_ind'; intros b H; destruct b; simpl in H; try discriminate.
  - apply andb_true_iff in H. destruct H as [H1 H2]. apply text_eqb_eq in H1.
    apply (option_eqb_eq text_eqb text_eqb_eq) in H2. now subst.
  - apply andb_true_iff in H. destruct H as [H1 H2]. apply text_eqb_eq in H1. subst. f_equal.
    revert children H2. induction IH as [|p x' Hp _ IHl]; intros [|q y'] H; try discriminate; [reflexivity|].
    apply andb_true_iff in H. destruct H as [H1 H2]. f_equal; [now apply Hp|now apply IHl].
  - f_equal. revert kvs0 H. induction IH as [|[k p] x' Hp _ IHl]; intros [|[k' q] y'] H; try discriminate; [reflexivity|].
    apply andb_true_iff in H. destruct H as [H1 H2]. apply andb_true_iff in H1. destruct H1 as [Hk Hv].
    apply text_eqb_eq in Hk. subst. simpl in Hp.
    destruct p as [p|], q as [q|]; try discriminate.
    + apply Hp in Hv. subst. f_equal. now apply IHl.
    + f_equal. now apply IHl.
Qed.

(* a passing instance case means exactly: the model's dump is the observed JSON and the model's load is the observed outcome *)
Lemma jcheck_inst_sound s v d l :
  jcheck (CInst s v d l) = true -> dump s v = d /\ (do j <- dump s v ;; load s j) = l.
Proof.
  simpl. intros H. apply andb_true_iff in H. destruct H as [H1 H2].
  split; [exact (result_eqb_eq json_eqb json_eqb_eq _ _ H1)|exact (result_eqb_eq value_eqb value_eqb_eq _ _ H2)].
Qed.
Lemma jcheck_tree_sound t d l :
  jcheck (CTree t d l) = true -> dump_tree t = d /\ load_tree (dump_tree t) = l.
Proof.
  simpl. intros H. apply andb_true_iff in H. destruct H as [H1 H2].
  split; [now apply json_eqb_eq|exact (result_eqb_eq lval_eqb lval_eqb_eq _ _ H2)].
Qed.
