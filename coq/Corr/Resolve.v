(* Tie C for C10: expand_packages / expand_time_conditions on the trees ahbicht parsed. *)
From Ahb Require Import Model.Prelude Model.Grammar Gen.Gen_grammar Model.Lex Gen.Gen_timecond Model.Resolve.

(* one condition expression *)
Definition res_case := (pkg_table * bool * bool * expr * result expr)%type.
Definition res_check (c : res_case) : bool :=
  let '(p, rp, rt, e, o) := c in result_eqb expr_eqb (resolve_cond p rp rt e) o.

(* the condition expressions of the parts of an AHB expression: one Transformer pass over all parts, then all
   placeholders in scan order, then the time conditions *)
Definition resolve_many (p : pkg_table) (rp rt : bool) (es : list expr) : result (list expr) :=
  do es1 <- (if rp then do _ <- mapM rep_pass es ;; mapM (expand p) es else Ok es) ;;
  if rt then mapM expand_tc es1 else Ok es1.
Definition many_case := (pkg_table * bool * bool * list expr * result (list expr))%type.
Definition many_check (c : many_case) : bool :=
  let '(p, rp, rt, es, o) := c in result_eqb (list_eqb expr_eqb) (resolve_many p rp rt es) o.
