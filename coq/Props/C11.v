(* C11 -- parse caching is invisible.
   "The tree returned for an expression string is structurally identical no matter how many expressions were parsed
    before (cache hit, miss or eviction) and no matter what callers did with trees returned earlier, including replacing,
    removing or appending children at any depth.  Consequently evaluation results are independent of the parse history."

   Model/Heap.v: [run mode maxsize pure_parse h] executes a history h of [Parse p s] (both parsers, string ids),
   [Edit handle path edit] (replace / remove / append a child at any path below any tree returned before, with a new
   token, a new tree, or an object reachable from any handle) and [Peek handle] on a store with Python aliasing,
   [functools.lru_cache(maxsize)] and what [tree_copy] hands out; [parse_obs] are the trees read back from the returned
   handles right after each parse call (or the exception), [expected] is [pure_parse p s] for each call in order.
   [run_src] instantiates mode and maxsize with the constants regenerated from the source (Gen/Gen_cache.v).
   [pure_parse] is universally quantified: assumption A-lark-pure (the uncached parser is a function of the string).
   Not in the model: rebinding attributes of Tree objects (t.children = ..., t.data = ...), threads. *)
From Ahb Require Import Model.Prelude Gen.Gen_cache Model.Heap Proofs.C11_cache.

(* the quantifier of the property: all finite histories, any cache size, any pure parser *)
Theorem C11_deep_copy_isolates_any_cache_size : forall maxsize pure_parse h,
  parse_obs (run CopyDeep maxsize pure_parse h) = expected pure_parse h.
Proof. exact deep_copy_isolates_any. Qed.
Print Assumptions C11_deep_copy_isolates_any_cache_size.

Theorem C11_deep_copy_isolates : tree_copy_mode = CopyDeep -> wrapper_order_ok = true ->
  forall pure_parse h, parse_obs (run_src pure_parse h) = expected pure_parse h.
Proof. exact deep_copy_isolates. Qed.
Print Assumptions C11_deep_copy_isolates.

(* the obligation on the source: what tree_copy.decorated returns is a deep copy, tree_copy is the outer decorator *)
Theorem C11_source_mode : tree_copy_mode = CopyDeep /\ wrapper_order_ok = true.
Proof. exact source_mode_is_deep. Qed.
Print Assumptions C11_source_mode.

Theorem C11_parse_history_invisible : forall pure_parse h, parse_obs (run_src pure_parse h) = expected pure_parse h.
Proof. exact parse_history_invisible. Qed.
Print Assumptions C11_parse_history_invisible.

Theorem C11_evaluation_history_independent : forall (B : Type) (ev : atree -> B) pure_parse h,
  map (result_map ev) (parse_obs (run_src pure_parse h)) = map (result_map ev) (expected pure_parse h).
Proof. exact evaluation_history_independent. Qed.
Print Assumptions C11_evaluation_history_independent.

(* every other mode breaks the property as soon as anything is cached: parse; append a child to the returned root;
   parse the same string again *)
Theorem C11_refuted_when_shallow : forall m, m <> CopyDeep -> forall maxsize, 0 < maxsize ->
  exists pure_parse h, parse_obs (run m maxsize pure_parse h) <> expected pure_parse h.
Proof. exact refuted_when_shallow. Qed.
Print Assumptions C11_refuted_when_shallow.
