(* C13 -- validation covers the AHB tree once, in document order; parents dominate children.
   validate_node is the model of validate_segment_group / validate_segment (tied by correspondence); map_rvv, combine_rvv
   and rvv_suffix are regenerated from /repo. Statements hold for every evaluation function ev of node expressions. *)
From Ahb Require Import Model.Prelude Gen.Gen_valmaps Model.EvalRC Model.EvalAhb Model.Validate Proofs.C13_validate.

Theorem C13_order_once : forall nx ev ir (n : node nx) parent soll rs,
  validate_node nx ev ir n parent soll = Ok rs -> Visit n rs.
Proof. exact validate_visits. Qed.
Print Assumptions C13_order_once.

Theorem C13_status : forall nx ev ir (x : nx) parent soll r, own_status ev ir x parent soll = Ok r ->
  (parent = Some IS_FORBIDDEN /\ r = VSeg IS_FORBIDDEN None) \/
  (parent <> Some IS_FORBIDDEN /\
   match ev x with
   | Exn InvalidExpr => r = VSeg IS_OPTIONAL (Some (ir x))
   | Exn _ => False
   | Ok a => exists own rv, map_rvv (r_fulfilled (a_rc a)) (a_ind a) soll = Ok own /\ combine_rvv parent own = Ok rv /\
                            r = VSeg rv (r_hints (a_rc a))
   end).
Proof. exact status_is_combination. Qed.
Print Assumptions C13_status.

Theorem C13_mapping_documented : forall s,
  (forall i, map_rvv (Some false) i s = Ok IS_FORBIDDEN) /\
  (forall i, is_prefix_operator i = true \/ i = I_MUSS -> map_rvv (Some true) i s = Ok IS_REQUIRED) /\
  map_rvv (Some true) I_KANN s = Ok IS_OPTIONAL /\
  map_rvv (Some true) I_SOLL s = Ok (if s then IS_REQUIRED else IS_OPTIONAL).
Proof. exact map_rvv_documented. Qed.
Print Assumptions C13_mapping_documented.

Theorem C13_mapping_total : forall f i s, map_rvv f i s <> Exn UnboundLocal /\ map_rvv f i s <> Exn ReturnedNone.
Proof. exact map_rvv_total. Qed.
Print Assumptions C13_mapping_total.

Theorem C13_unknown_must_aborts : forall i s,
  (i = I_MUSS \/ is_prefix_operator i = true \/ (i = I_SOLL /\ s = true)) -> map_rvv None i s = Exn NotImpl.
Proof. exact unknown_must_aborts. Qed.
Print Assumptions C13_unknown_must_aborts.

Theorem C13_below_optional_nothing_required : forall c r, combine_rvv (Some IS_OPTIONAL) c = Ok r -> r <> IS_REQUIRED.
Proof. exact below_optional_nothing_required. Qed.
Print Assumptions C13_below_optional_nothing_required.

Theorem C13_below_required_own_status_kept : forall c, combine_rvv (Some IS_REQUIRED) c = Ok c.
Proof. exact below_required_own_status_kept. Qed.
Print Assumptions C13_below_required_own_status_kept.

Theorem C13_suffix : forall filled r r', rvv_suffix filled r = Ok r' ->
  (r = IS_REQUIRED /\ r' = (if filled then IS_REQUIRED_AND_FILLED else IS_REQUIRED_AND_EMPTY)) \/
  (r = IS_FORBIDDEN /\ r' = (if filled then IS_FORBIDDEN_AND_FILLED else IS_FORBIDDEN_AND_EMPTY)) \/
  (r = IS_OPTIONAL /\ r' = (if filled then IS_OPTIONAL_AND_FILLED else IS_OPTIONAL_AND_EMPTY)).
Proof. exact suffix_table. Qed.
Print Assumptions C13_suffix.

(* ---- every schedule. Model/ValidateAsync.v writes validate_deep_anwendungshandbuch / validate_segment_group / validate_segment as task trees
   (every asyncio.gather is a Par; parsing and evaluating a node's expression are arbitrary programs that may suspend, read their context and
   gather again, but do not write context variables in the validating task itself). Whatever the order in which the tasks run, the report is
   the one of the sequential model above (when several tasks raise: the leftmost exception, I-C12). *)
From Ahb Require Import Model.Async Model.ValidateAsync Proofs.C13_async.

Theorem C13_every_schedule_yields_the_sequential_report : forall (nx U : Type) (ir : nx -> text)
    (parsep : nx -> prog (vv U)) (evalp : nx -> vv U -> prog (vv U)),
  (forall x, no_put U (parsep x)) -> (forall x t, no_put U (evalp x t)) ->
  forall (c : ctx (vv U)) (lines : list (node nx)) (soll : bool) (r : vv U),
  steps (initial c (ahb_prog nx U ir parsep evalp lines soll)) (Done r) ->
  r = VR (validate_ahb (nx' nx) (ev_of nx U parsep evalp c) (reason_of nx ir) (map (annot nx) lines) soll).
Proof. exact ahb_every_schedule. Qed.
Print Assumptions C13_every_schedule_yields_the_sequential_report.

Theorem C13_order_once_under_every_schedule : forall (nx U : Type) (ir : nx -> text)
    (parsep : nx -> prog (vv U)) (evalp : nx -> vv U -> prog (vv U)),
  (forall x, no_put U (parsep x)) -> (forall x t, no_put U (evalp x t)) ->
  forall (c : ctx (vv U)) (n : node nx) (parent : option rvv) (soll : bool) (rows : list (text * vres)),
  steps (initial c (node_prog nx U ir parsep evalp n parent soll)) (Done (VR (Ok rows))) -> Visit (annot nx n) rows.
Proof. exact visit_every_schedule. Qed.
Print Assumptions C13_order_once_under_every_schedule.

Theorem C13_validation_terminates_with_the_sequential_report : forall (nx U : Type) (ir : nx -> text)
    (parsep : nx -> prog (vv U)) (evalp : nx -> vv U -> prog (vv U)),
  (forall x, no_put U (parsep x)) -> (forall x t, no_put U (evalp x t)) ->
  forall (c : ctx (vv U)) (lines : list (node nx)) (soll : bool),
  steps (initial c (ahb_prog nx U ir parsep evalp lines soll))
        (Done (VR (validate_ahb (nx' nx) (ev_of nx U parsep evalp c) (reason_of nx ir) (map (annot nx) lines) soll))).
Proof. exact ahb_terminates. Qed.
Print Assumptions C13_validation_terminates_with_the_sequential_report.

Theorem C13_every_schedule_hypotheses_satisfiable :
  let parsep := fun _ : nat => Yield (Ret (VTxt (U := unit) None)) in
  let evalp := fun (_ : nat) (_ : vv unit) => Par [Yield (Get TEXTV (fun v => Ret v))] (fun rs => Ret (VA (Exn NotImpl))) in
  (forall x, no_put unit (parsep x)) /\ (forall x t, no_put unit (evalp x t)).
Proof. exact hypotheses_satisfiable. Qed.
Print Assumptions C13_every_schedule_hypotheses_satisfiable.

(* ---- tie T for the status step: get_segment_level_requirement_validation_value and validate_data_element_freetext, executed by the translator for every
   requirement indicator x every outcome of the node's own expression (condition fulfilled / unfulfilled / undetermined, bare indicator, invalid
   expression) x every parent status x both flags (x absent / empty / filled input) -- Gen/Gen_status.v -- report what the model's segment_level and
   validate_freetext report: status, presence of a hint, format verdict, data type, or the exception class. *)
From Ahb Require Import Gen.Gen_status Proofs.C13_gen.
Theorem C13_status_step_is_the_regenerated_table : forallb seg_row_ok seg_rows = true /\ forallb de_row_ok de_rows = true /\ length seg_rows = 240 /\ length de_rows = 720.
Proof. exact (conj seg_rows_ok (conj de_rows_ok status_rows_complete)). Qed.
Print Assumptions C13_status_step_is_the_regenerated_table.
