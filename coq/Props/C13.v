(* C13 -- validation covers the AHB tree once, in document order; parents dominate children.
   validate_node is the model of validate_segment_group / validate_segment (tied by correspondence); map_rvv, combine_rvv
   and rvv_suffix are regenerated from /repo. Statements hold for every evaluation function ev of node expressions. *)
From Ahb Require Import Model.Prelude Gen.Gen_valmaps Model.EvalRC Model.EvalAhb Model.Validate Proofs.C13_validate.

Theorem C13_order_once : forall nx ev ir (n : node nx) parent soll rs,
  validate_node nx ev ir n parent soll = Ok rs -> Visit n rs.
Proof. exact validate_visits. Qed.
Print Assumptions C13_order_once.

Theorem C13_status : forall nx ev ir (x : nx) parent soll r, own_status ev ir x parent soll = Ok r ->
  (parent = Some IS_FORBIDDEN /\ r = VSeg IS_FORBIDDEN None) \/
  (parent <> Some IS_FORBIDDEN /\
   match ev x with
   | Exn InvalidExpr => r = VSeg IS_OPTIONAL (Some (ir x))
   | Exn _ => False
   | Ok a => exists own rv, map_rvv (r_fulfilled (a_rc a)) (a_ind a) soll = Ok own /\ combine_rvv parent own = Ok rv /\
                            r = VSeg rv (r_hints (a_rc a))
   end).
Proof. exact status_is_combination. Qed.
Print Assumptions C13_status.

Theorem C13_mapping_documented : forall s,
  (forall i, map_rvv (Some false) i s = Ok IS_FORBIDDEN) /\
  (forall i, is_prefix_operator i = true \/ i = I_MUSS -> map_rvv (Some true) i s = Ok IS_REQUIRED) /\
  map_rvv (Some true) I_KANN s = Ok IS_OPTIONAL /\
  map_rvv (Some true) I_SOLL s = Ok (if s then IS_REQUIRED else IS_OPTIONAL).
Proof. exact map_rvv_documented. Qed.
Print Assumptions C13_mapping_documented.

Theorem C13_mapping_total : forall f i s, map_rvv f i s <> Exn UnboundLocal /\ map_rvv f i s <> Exn ReturnedNone.
Proof. exact map_rvv_total. Qed.
Print Assumptions C13_mapping_total.

Theorem C13_unknown_must_aborts : forall i s,
  (i = I_MUSS \/ is_prefix_operator i = true \/ (i = I_SOLL /\ s = true)) -> map_rvv None i s = Exn NotImpl.
Proof. exact unknown_must_aborts. Qed.
Print Assumptions C13_unknown_must_aborts.

Theorem C13_below_optional_nothing_required : forall c r, combine_rvv (Some IS_OPTIONAL) c = Ok r -> r <> IS_REQUIRED.
Proof. exact below_optional_nothing_required. Qed.
Print Assumptions C13_below_optional_nothing_required.

Theorem C13_below_required_own_status_kept : forall c, combine_rvv (Some IS_REQUIRED) c = Ok c.
Proof. exact below_required_own_status_kept. Qed.
Print Assumptions C13_below_required_own_status_kept.

Theorem C13_suffix : forall filled r r', rvv_suffix filled r = Ok r' ->
  (r = IS_REQUIRED /\ r' = (if filled then IS_REQUIRED_AND_FILLED else IS_REQUIRED_AND_EMPTY)) \/
  (r = IS_FORBIDDEN /\ r' = (if filled then IS_FORBIDDEN_AND_FILLED else IS_FORBIDDEN_AND_EMPTY)) \/
  (r = IS_OPTIONAL /\ r' = (if filled then IS_OPTIONAL_AND_FILLED else IS_OPTIONAL_AND_EMPTY)).
Proof. exact suffix_table. Qed.
Print Assumptions C13_suffix.
