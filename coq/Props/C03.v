(* C03 -- four-valued condition logic: algebraic laws and soundness/tightness of UNKNOWN.
   All statements are about the operators regenerated from /repo (Gen_logic) and the README tables (Gen_readme). *)
From Ahb Require Import Model.Prelude Gen.Gen_logic Gen.Gen_readme Model.Logic Proofs.C03_logic.

Theorem C03_total : forall a b,
  (exists c, cfv_and a b = Ok c) /\ (exists c, cfv_or a b = Ok c) /\ (exists c, cfv_xor a b = Ok c).
Proof. exact total_all. Qed.
Print Assumptions C03_total.

Theorem C03_comm : forall a b, cand a b = cand b a /\ cor a b = cor b a /\ cxor a b = cxor b a.
Proof. intros a b. exact (conj (and_comm a b) (conj (or_comm a b) (xor_comm a b))). Qed.
Print Assumptions C03_comm.

Theorem C03_assoc : forall a b c,
  cand (cand a b) c = cand a (cand b c) /\ cor (cor a b) c = cor a (cor b c) /\ cxor (cxor a b) c = cxor a (cxor b c).
Proof. intros a b c. exact (conj (and_assoc a b c) (conj (or_assoc a b c) (xor_assoc a b c))). Qed.
Print Assumptions C03_assoc.

Theorem C03_neutral_identity : forall a,
  cand a C_NEUTRAL = a /\ cand C_NEUTRAL a = a /\ cor a C_NEUTRAL = a /\ cor C_NEUTRAL a = a /\
  cxor a C_NEUTRAL = a /\ cxor C_NEUTRAL a = a.
Proof. exact neutral_identity. Qed.
Print Assumptions C03_neutral_identity.

Theorem C03_boolean_fragment : forall x y,
  cand (cfv_of_bool x) (cfv_of_bool y) = cfv_of_bool (andb x y) /\
  cor (cfv_of_bool x) (cfv_of_bool y) = cfv_of_bool (orb x y) /\
  cxor (cfv_of_bool x) (cfv_of_bool y) = cfv_of_bool (xorb x y).
Proof. exact boolean_fragment. Qed.
Print Assumptions C03_boolean_fragment.

Theorem C03_readme_rows :
  Forall (row_ok cfv_and) readme_and_rows /\ Forall (row_ok cfv_or) readme_or_rows /\ Forall (row_ok cfv_xor) readme_xor_rows.
Proof. exact readme_rows. Qed.
Print Assumptions C03_readme_rows.

Theorem C03_unknown_sound : forall k a b a' b',
  op3 k a b <> C_UNKNOWN -> refines a a' -> refines b b' -> op3 k a' b' = op3 k a b.
Proof. exact unknown_sound. Qed.
Print Assumptions C03_unknown_sound.

Theorem C03_unknown_tight : forall k a b,
  op3 k a b = C_UNKNOWN ->
  exists a1 b1 a2 b2, refines a a1 /\ refines b b1 /\ refines a a2 /\ refines b b2 /\ op3 k a1 b1 <> op3 k a2 b2.
Proof. exact unknown_tight. Qed.
Print Assumptions C03_unknown_tight.
