From Ahb Require Import Model.Prelude Model.Json Gen.Gen_schemas Proofs.C19_json.

Theorem C19_compatible_EvaluatedFormatConstraint : compatible cls_EvaluatedFormatConstraint sch_EvaluatedFormatConstraintSchema = true.
Proof. exact compatible_EvaluatedFormatConstraint. Qed.
Print Assumptions C19_compatible_EvaluatedFormatConstraint.
