(* C19 -- JSON round trips.
   "Serialising a parse tree, a content evaluation result, a categorized key extract, an evaluated format constraint or
    an AHB/requirement/format evaluation result to JSON and loading it back yields an object equal to the original,
    including results whose requirement outcome is undetermined (null). Evaluating a round-tripped tree gives the same
    result as evaluating the original tree."

   dump / load are the generic interpreter of the schema descriptors (Model/Json.v: the marshmallow-3 subset in use, the
   hooks of the ahbicht schemas, the attrs constructors); the descriptors sch_* / cls_* are GENERATED from the source
   (Gen/Gen_schemas.v).  [inhabits c v]: v is an instance of class c whose attributes have the declared types and pass the
   attrs validators, i.e. an object ahbicht itself can build.  [compatible c s] is a Boolean check on the descriptors
   (e.g. an Optional attribute needs a field with allow_none); the C19_compatible_* theorems are the obligations that
   break when `allow_none=True` is dropped from RequirementConstraintEvaluationResultSchema again.
   Trees: load_tree / dump_tree model TreeSchema, _TokenOrTreeSchema and TokenSchema over generic Lark trees; [embed] injects
   a tree into the (larger) type of things TreeSchema().load can return.
   marshmallow, attrs and lark are modelled, not verified: tied by the correspondence of vlib/props/c19.py. *)
From Ahb Require Import Model.Prelude Model.Grammar Model.EvalRC Model.Json Gen.Gen_schemas Proofs.C19_json.

(* proved once for the interpreter, for every class/schema pair *)
Theorem C19_generic : forall (c : cls) (s : schema) (v : value),
  compatible c s = true -> inhabits c v -> exists j, dump s v = Ok j /\ load s j = Ok v.
Proof. exact roundtrip_generic. Qed.
Print Assumptions C19_generic.

Theorem C19_generic_load_dump : forall (c : cls) (s : schema) (v : value),
  compatible c s = true -> inhabits c v -> (do j <- dump s v ;; load s j) = Ok v.
Proof. exact load_dump_generic. Qed.
Print Assumptions C19_generic_load_dump.

(* the generated descriptors of the six classes *)
Theorem C19_compatible_EvaluatedFormatConstraint :
  compatible cls_EvaluatedFormatConstraint sch_EvaluatedFormatConstraintSchema = true.
Proof. exact compatible_EvaluatedFormatConstraint. Qed.
Print Assumptions C19_compatible_EvaluatedFormatConstraint.

Theorem C19_compatible_ContentEvaluationResult :
  compatible cls_ContentEvaluationResult sch_ContentEvaluationResultSchema = true.
Proof. exact compatible_ContentEvaluationResult. Qed.
Print Assumptions C19_compatible_ContentEvaluationResult.

Theorem C19_compatible_CategorizedKeyExtract :
  compatible cls_CategorizedKeyExtract sch_CategorizedKeyExtractSchema = true.
Proof. exact compatible_CategorizedKeyExtract. Qed.
Print Assumptions C19_compatible_CategorizedKeyExtract.

Theorem C19_compatible_RequirementConstraintEvaluationResult :
  compatible cls_RequirementConstraintEvaluationResult sch_RequirementConstraintEvaluationResultSchema = true.
Proof. exact compatible_RequirementConstraintEvaluationResult. Qed.
Print Assumptions C19_compatible_RequirementConstraintEvaluationResult.

Theorem C19_compatible_FormatConstraintEvaluationResult :
  compatible cls_FormatConstraintEvaluationResult sch_FormatConstraintEvaluationResultSchema = true.
Proof. exact compatible_FormatConstraintEvaluationResult. Qed.
Print Assumptions C19_compatible_FormatConstraintEvaluationResult.

Theorem C19_compatible_AhbExpressionEvaluationResult :
  compatible cls_AhbExpressionEvaluationResult sch_AhbExpressionEvaluationResultSchema = true.
Proof. exact compatible_AhbExpressionEvaluationResult. Qed.
Print Assumptions C19_compatible_AhbExpressionEvaluationResult.

(* hence: every instance of every class of the property round-trips through the schema ahbicht ships for it *)
Theorem C19_all_classes : forall name c s v,
  In (name, (c, s)) c19_table -> inhabits c v -> exists j, dump s v = Ok j /\ load s j = Ok v.
Proof. exact roundtrip_table. Qed.
Print Assumptions C19_all_classes.

(* a result whose requirement outcome is undetermined (None, None) inside an AHB expression evaluation result *)
Theorem C19_example_undetermined :
  inhabits cls_AhbExpressionEvaluationResult aeer_undetermined
  /\ (do j <- dump sch_AhbExpressionEvaluationResultSchema aeer_undetermined ;; load sch_AhbExpressionEvaluationResultSchema j)
     = Ok aeer_undetermined.
Proof. exact undetermined_example. Qed.
Print Assumptions C19_example_undetermined.

(* the schema without allow_none on its Boolean fields (the original source) is refuted by the undetermined result *)
Theorem C19_refuted_when_allow_none_missing :
  let s := drop_allow_none_of_booleans sch_RequirementConstraintEvaluationResultSchema in
  compatible cls_RequirementConstraintEvaluationResult s = false
  /\ missing_allow_none cls_RequirementConstraintEvaluationResult s <> []
  /\ (do j <- dump s rcer_undetermined ;; load s j) = Exn ValidationErr.
Proof. exact refuted_when_allow_none_missing. Qed.
Print Assumptions C19_refuted_when_allow_none_missing.

(* parse trees: every Lark tree whose tokens have non-empty values (true of everything a lexer can produce) *)
Theorem C19_tree : forall t : ltree, tree_ok t = true -> load_tree (dump_tree t) = Ok (embed t).
Proof. exact tree_roundtrip. Qed.
Print Assumptions C19_tree.

Theorem C19_tree_needs_nonempty_tokens :
  let t := LTree [120]%N [LTok [65]%N []] in
  load_tree (dump_tree t) = Ok (PTree [120]%N [PRaw [(t_token, Some (PTok [65]%N (Some []))); (t_tree, None)]])
  /\ load_tree (dump_tree t) <> Ok (embed t).
Proof. exact tree_roundtrip_needs_nonempty_tokens. Qed.
Print Assumptions C19_tree_needs_nonempty_tokens.

(* evaluating the round-tripped tree: for the requirement-constraint evaluation model of C04 on condition expressions *)
Theorem C19_eval_after_roundtrip : forall (ce : cer) (e : kexpr),
  (forall k, In k (keys_of e) -> k <> []) ->
  exists x, load_tree (dump_tree (to_ltree e)) = Ok x /\ of_lval x = Some e
            /\ option_map (rc_evaluation ce) (of_lval x) = Some (rc_evaluation ce e).
Proof. exact eval_after_roundtrip. Qed.
Print Assumptions C19_eval_after_roundtrip.

(* ... and for any function of the loaded tree whatsoever *)
Theorem C19_same_result_after_roundtrip : forall (A : Type) (ev : lval -> A) (t : ltree),
  tree_ok t = true -> res_map ev (load_tree (dump_tree t)) = Ok (ev (embed t)).
Proof. exact @tree_roundtrip_same_result. Qed.
Print Assumptions C19_same_result_after_roundtrip.

(* for trees the parser produced the hypothesis is met: every parse (embed e) of a written condition expression has non-empty keys, so
   serialising it, loading it back and evaluating gives the result of evaluating the original -- no side condition left *)
From Ahb Require Import Gen.Gen_grammar Model.Lex Proofs.C01_lexprint Proofs.C01_print Proofs.C08_fc Proofs.C07_fc Proofs.C07_parse Proofs.C19_parsed.
Theorem C19_eval_after_roundtrip_of_parsed_trees : forall (ce : cer) l its (e : kexpr),
  Forall (fun p : text * ptok => all_ws (fst p) = true /\ ptok_ok (snd p) = true) l ->
  group (map (fun p => tok_of (snd p)) l) = Some its -> Rc its (embed e) ->
  exists x, load_tree (dump_tree (to_ltree e)) = Ok x /\ of_lval x = Some e
            /\ option_map (rc_evaluation ce) (of_lval x) = Some (rc_evaluation ce e).
Proof. exact eval_after_roundtrip_parsed. Qed.
Print Assumptions C19_eval_after_roundtrip_of_parsed_trees.
