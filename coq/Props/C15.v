(* C15 -- each data element's format constraints see only its own input.
   Model: Model/Async.v. [elem_prog e] is validate_data_element_freetext: (suspensions) ; SET the ContextVar to the
   element's entered input ; (suspensions: requirement constraints) ; gather over the element's format-constraint
   evaluators, each of which reads the ContextVar at its start and may read it again after any number of
   suspensions. [validate_segment_site] / [tree_prog] gather the elements (segments, groups, arbitrary other tasks).
   The FC evaluators are arbitrary programs. Partial: as C12 (event loop = any runnable task may step; contextvars
   copy-on-task-creation is modelled, not verified). *)
From Ahb Require Import Model.Prelude Model.Async Proofs.C12_async.

(* for every schedule of the concurrent validation and every schedule of validating element i alone, the two
   results for element i coincide, and they are the element's evaluators applied to the element's own text *)
Theorem C15_own_input : forall (c : ctx val) (pre : nat) (els : list elem) (r : val),
  steps (initial c (validate_segment_site pre els)) (Done r) ->
  first_exn (map (fun e => den c (elem_prog e)) els) = None ->
  exists rs, r = VL rs /\ length rs = length els /\
    forall i e r_alone, nth_error els i = Some e ->
      steps (initial c (elem_prog e)) (Done r_alone) ->
      nth_error rs i = Some r_alone /\ r_alone = elem_result c e.
Proof. exact own_input. Qed.
Print Assumptions C15_own_input.

(* if an element raises, the validation raises (model: the leftmost exception) *)
Theorem C15_own_input_exn : forall (c : ctx val) (pre : nat) (els : list elem) (r : val) (e : exn),
  steps (initial c (validate_segment_site pre els)) (Done r) ->
  first_exn (map (fun e => den c (elem_prog e)) els) = Some e -> r = VE e.
Proof. exact own_input_exn. Qed.
Print Assumptions C15_own_input_exn.

(* the same for nested segment groups / segments / arbitrary sibling tasks: every child contributes the result of
   running it on its own *)
Theorem C15_own_input_tree : forall (c : ctx val) (pre : nat) (ch : list vtree) (r : val),
  steps (initial c (tree_prog (TNode pre ch))) (Done r) ->
  r = gather_v (map (fun t => den c (tree_prog t)) ch) VL.
Proof. exact tree_own_input. Qed.
Print Assumptions C15_own_input_tree.

(* the element's result does not depend on the text its task inherited (provided its evaluators depend on the
   context only through its values: no functional extensionality is assumed) *)
Theorem C15_inherited_text_is_irrelevant : forall (c : ctx val) (e : elem) (t : val),
  (forall ev, In ev (e_fcs e) -> forall c1 c2 : ctx val, (forall x, c1 x = c2 x) -> den c1 (ev (e_text e)) = den c2 (ev (e_text e))) ->
  elem_result (upd c TEXT t) e = elem_result c e.
Proof. exact elem_result_ignores_outer_text. Qed.
Print Assumptions C15_inherited_text_is_irrelevant.

(* what the ContextVar discipline prevents: if the parent sets the texts before the gather, element "a" is
   validated against "b" *)
Theorem C15_refuted_when_set_in_parent :
  den ctx0 (validate_segment_set_in_parent 0 wit_els) = VL [VL [VT [98%N]]; VL [VT [98%N]]]
  /\ den ctx0 (validate_segment_site 0 wit_els) = VL [VL [VT [97%N]]; VL [VT [98%N]]]
  /\ exists i e rs, nth_error wit_els i = Some e
       /\ den ctx0 (validate_segment_set_in_parent 0 wit_els) = VL rs
       /\ nth_error rs i <> Some (den ctx0 (elem_prog e)).
Proof. exact refuted_when_set_in_parent. Qed.
Print Assumptions C15_refuted_when_set_in_parent.

(* ---- the same for the whole validation recursion (Model/ValidateAsync.v, Proofs/C13_async.v): in the report of EVERY schedule of
   validate_deep_anwendungshandbuch the row of a free-text element is the sequential model's row for the evaluation result [ev_of c (x, Some input)],
   and that result is computed with the ContextVar holding the element's own input -- whatever the caller's context held, whatever the siblings do *)
From Ahb Require Import Model.EvalAhb Model.Validate Model.ValidateAsync Proofs.C13_async.

Theorem C15_free_text_evaluated_with_own_input : forall (nx U : Type) (parsep : nx -> prog (vv U)) (evalp : nx -> vv U -> prog (vv U)),
  (forall x, no_put U (parsep x)) ->
  forall (c : ctx (vv U)) (x : nx) (input : option text),
  ev_of nx U parsep evalp c (x, Some input) = as_res (den (upd c TEXTV (VTxt input)) (evalp x (den c (parsep x)))).
Proof. intros nx U parsep evalp H. exact (free_text_sees_own_input nx U parsep evalp H). Qed.
Print Assumptions C15_free_text_evaluated_with_own_input.

Theorem C15_every_schedule_yields_the_sequential_report : forall (nx U : Type) (ir : nx -> text)
    (parsep : nx -> prog (vv U)) (evalp : nx -> vv U -> prog (vv U)),
  (forall x, no_put U (parsep x)) -> (forall x t, no_put U (evalp x t)) ->
  forall (c : ctx (vv U)) (n : node nx) (parent : option Gen_valmaps.rvv) (soll : bool) (r : vv U),
  steps (initial c (node_prog nx U ir parsep evalp n parent soll)) (Done r) ->
  r = VR (validate_node (nx' nx) (ev_of nx U parsep evalp c) (reason_of nx ir) (annot nx n) parent soll).
Proof. exact node_every_schedule. Qed.
Print Assumptions C15_every_schedule_yields_the_sequential_report.
