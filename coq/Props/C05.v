(* C05 -- information-only elements, operand order and UNKNOWN-refinement never change the requirement.
   (Redundant brackets do not appear in the parse tree at all: that part is C01_redundant_brackets.) *)
From Ahb Require Import Model.Prelude Model.Grammar Gen.Gen_logic Model.Logic Model.EvalRC Model.Spec Proofs.C04_eval Proofs.C05_meta.

(* and-ing a hint onto the whole expression (c = CHole) or onto any operand of U/O/X *)
Theorem C05_hint_and_operand : forall c e h a rho, hole_under_uox c = true -> is_kind KHint h = true ->
  dom (plug c e) = true -> valid (plug c e) = true ->
  env_ok a rho (plug c e) -> env_ok a rho (plug c (EBin BAnd e (EAtom h))) ->
  dom (plug c (EBin BAnd e (EAtom h))) = true /\ valid (plug c (EBin BAnd e (EAtom h))) = true /\
  same_requirement rho (plug c e) (plug c (EBin BAnd e (EAtom h))).
Proof. exact hint_and_operand. Qed.
Print Assumptions C05_hint_and_operand.

(* attaching a format constraint to any sub-expression that contains a requirement constraint (any context) *)
Theorem C05_attach_fc : forall c e k a rho, is_kind KFc k = true -> carries_rc e = true ->
  dom (plug c e) = true -> valid (plug c e) = true ->
  env_ok a rho (plug c e) -> env_ok a rho (plug c (EBin BThen e (EAtom k))) ->
  dom (plug c (EBin BThen e (EAtom k))) = true /\ valid (plug c (EBin BThen e (EAtom k))) = true /\
  same_requirement rho (plug c e) (plug c (EBin BThen e (EAtom k))).
Proof. exact attach_fc_any. Qed.
Print Assumptions C05_attach_fc.

(* swapping the operands of any U/O/X *)
Theorem C05_swap_operands : forall c b l r a rho, hole_under_uox c = true -> b <> BThen ->
  dom (plug c (EBin b l r)) = true -> valid (plug c (EBin b l r)) = true ->
  env_ok a rho (plug c (EBin b l r)) -> env_ok a rho (plug c (EBin b r l)) ->
  dom (plug c (EBin b r l)) = true /\ valid (plug c (EBin b r l)) = true /\
  same_requirement rho (plug c (EBin b l r)) (plug c (EBin b r l)).
Proof. exact swap_anywhere. Qed.
Print Assumptions C05_swap_operands.

(* a definite outcome under partial knowledge is the outcome under every resolution of the UNKNOWN keys *)
Theorem C05_definite_is_stable : forall a a' e, refines_env a a' -> sem a e <> C_UNKNOWN -> sem a' e = sem a e.
Proof. exact definite_stable. Qed.
Print Assumptions C05_definite_is_stable.

(* ---- the grouping inside a run of one operator (the one thing C01 leaves unspecified) and redundant brackets.
   The compositional semantics factors through the flattening, so two trees with the same flattening have the same state under every assignment;
   with C04 (valid trees evaluate to their semantics) the reported outcome is the same whichever tree the ambiguity resolution picks and whichever
   redundant brackets (C01's relation D) are written -- PROVIDED BOTH TREES ARE VALID. Validity itself is not invariant under regrouping inside a run
   of O or X over hints and format constraints: C05_run_grouping_can_change_validity is the witness ([501] O [502] O [901] grouped to the left is valid,
   grouped to the right it directly pairs a hint with a format constraint). Brackets that choose another grouping inside a run are therefore not
   "redundant brackets" in the sense of C05 (interpretation I-C05, DESIGN.md section 7): C05's bracket clause is about brackets that leave the tree
   unchanged, the theorems below say what is true beyond that. *)
From Ahb Require Import Gen.Gen_grammar Model.Lex Proofs.C01_parse Proofs.C05_runs.

Theorem C05_state_independent_of_run_grouping : forall a e e', flat e = flat e' -> dom e = true -> dom e' = true -> sem a e = sem a e'.
Proof. exact sem_independent_of_runs. Qed.
Print Assumptions C05_state_independent_of_run_grouping.

Theorem C05_outcome_independent_of_run_grouping : forall a rho e e', flat e = flat e' -> dom e = true -> dom e' = true ->
  valid e = true -> valid e' = true -> env_ok a rho e -> env_ok a rho e' ->
  exists n n', eval_rc rho e = Ok n /\ eval_rc rho e' = Ok n' /\ st n = st n' /\
    (r_fulfilled (rc_result n), r_conditional (rc_result n)) = (r_fulfilled (rc_result n'), r_conditional (rc_result n')).
Proof. exact outcome_independent_of_runs. Qed.
Print Assumptions C05_outcome_independent_of_run_grouping.

Theorem C05_any_resolution_same_outcome : forall its e e' a rho, Rc its e -> Rc its e' ->
  dom (key_tree e) = true -> dom (key_tree e') = true -> valid (key_tree e) = true -> valid (key_tree e') = true ->
  env_ok a rho (key_tree e) -> env_ok a rho (key_tree e') ->
  exists n n', eval_rc rho (key_tree e) = Ok n /\ eval_rc rho (key_tree e') = Ok n' /\ st n = st n' /\
    (r_fulfilled (rc_result n), r_conditional (rc_result n)) = (r_fulfilled (rc_result n'), r_conditional (rc_result n')).
Proof. exact any_resolution_same_outcome. Qed.
Print Assumptions C05_any_resolution_same_outcome.

Theorem C05_redundant_brackets_partial : forall its its' e0 e e' a rho, D 0 its its' e0 -> Rc its e -> Rc its' e' ->
  dom (key_tree e) = true -> dom (key_tree e') = true -> valid (key_tree e) = true -> valid (key_tree e') = true ->
  env_ok a rho (key_tree e) -> env_ok a rho (key_tree e') ->
  exists n n', eval_rc rho (key_tree e) = Ok n /\ eval_rc rho (key_tree e') = Ok n' /\ st n = st n' /\
    (r_fulfilled (rc_result n), r_conditional (rc_result n)) = (r_fulfilled (rc_result n'), r_conditional (rc_result n')).
Proof. exact redundant_brackets_same_outcome. Qed.
Print Assumptions C05_redundant_brackets_partial.

Theorem C05_run_grouping_can_change_validity :
  let e := EBin BOr (EBin BOr (EAtom k501) (EAtom k502)) (EAtom k901) in
  let e' := EBin BOr (EAtom k501) (EBin BOr (EAtom k502) (EAtom k901)) in
  flat e = flat e' /\ dom e = true /\ dom e' = true /\ valid e = true /\ valid e' = false.
Proof. exact validity_depends_on_grouping. Qed.
Print Assumptions C05_run_grouping_can_change_validity.

(* exactly where the grouping inside a run decides about validity: moving the brackets of a valid (x op y) op z to x op (y op z) gives a valid tree
   unless op is O or X and y, z are a single hint and a single format constraint -- for U it never matters. When it stays valid the flattening is the
   same, so C05_outcome_independent_of_run_grouping applies. *)
Theorem C05_regrouping_validity : forall b x y z, b = BOr \/ b = BXor -> valid (EBin b (EBin b x y) z) = true ->
  valid (EBin b x (EBin b y z)) = negb (hint_fc_pair y z).
Proof. exact rotation_validity. Qed.
Print Assumptions C05_regrouping_validity.

Theorem C05_regrouping_validity_and : forall x y z, valid (EBin BAnd (EBin BAnd x y) z) = valid (EBin BAnd x (EBin BAnd y z)).
Proof. exact rotation_validity_and. Qed.
Print Assumptions C05_regrouping_validity_and.

Theorem C05_regrouping_same_flattening : forall b (x y z : kexpr), b <> BThen -> flat (EBin b (EBin b x y) z) = flat (EBin b x (EBin b y z)).
Proof. exact rotation_same_flat. Qed.
Print Assumptions C05_regrouping_same_flattening.

(* the hypotheses of the theorems on run grouping are satisfiable by two different trees *)
Theorem C05_run_grouping_hypotheses_satisfiable :
  let x := EBin BAnd (EAtom [51%N]) (EAtom k501) in
  let e := EBin BOr (EBin BOr (EAtom [49%N]) (EAtom [50%N])) x in
  let e' := EBin BOr (EAtom [49%N]) (EBin BOr (EAtom [50%N]) x) in
  e <> e' /\ flat e = flat e' /\ dom e = true /\ dom e' = true /\ valid e = true /\ valid e' = true.
Proof. exact run_grouping_hypotheses_met. Qed.
Print Assumptions C05_run_grouping_hypotheses_satisfiable.
