(* C05 -- information-only elements, operand order and UNKNOWN-refinement never change the requirement.
   (Redundant brackets do not appear in the parse tree at all: that part is C01_redundant_brackets.) *)
From Ahb Require Import Model.Prelude Model.Grammar Gen.Gen_logic Model.Logic Model.EvalRC Model.Spec Proofs.C04_eval Proofs.C05_meta.

(* and-ing a hint onto the whole expression (c = CHole) or onto any operand of U/O/X *)
Theorem C05_hint_and_operand : forall c e h a rho, hole_under_uox c = true -> is_kind KHint h = true ->
  dom (plug c e) = true -> valid (plug c e) = true ->
  env_ok a rho (plug c e) -> env_ok a rho (plug c (EBin BAnd e (EAtom h))) ->
  dom (plug c (EBin BAnd e (EAtom h))) = true /\ valid (plug c (EBin BAnd e (EAtom h))) = true /\
  same_requirement rho (plug c e) (plug c (EBin BAnd e (EAtom h))).
Proof. exact hint_and_operand. Qed.
Print Assumptions C05_hint_and_operand.

(* attaching a format constraint to any sub-expression that contains a requirement constraint (any context) *)
Theorem C05_attach_fc : forall c e k a rho, is_kind KFc k = true -> carries_rc e = true ->
  dom (plug c e) = true -> valid (plug c e) = true ->
  env_ok a rho (plug c e) -> env_ok a rho (plug c (EBin BThen e (EAtom k))) ->
  dom (plug c (EBin BThen e (EAtom k))) = true /\ valid (plug c (EBin BThen e (EAtom k))) = true /\
  same_requirement rho (plug c e) (plug c (EBin BThen e (EAtom k))).
Proof. exact attach_fc_any. Qed.
Print Assumptions C05_attach_fc.

(* swapping the operands of any U/O/X *)
Theorem C05_swap_operands : forall c b l r a rho, hole_under_uox c = true -> b <> BThen ->
  dom (plug c (EBin b l r)) = true -> valid (plug c (EBin b l r)) = true ->
  env_ok a rho (plug c (EBin b l r)) -> env_ok a rho (plug c (EBin b r l)) ->
  dom (plug c (EBin b r l)) = true /\ valid (plug c (EBin b r l)) = true /\
  same_requirement rho (plug c (EBin b l r)) (plug c (EBin b r l)).
Proof. exact swap_anywhere. Qed.
Print Assumptions C05_swap_operands.

(* a definite outcome under partial knowledge is the outcome under every resolution of the UNKNOWN keys *)
Theorem C05_definite_is_stable : forall a a' e, refines_env a a' -> sem a e <> C_UNKNOWN -> sem a' e = sem a e.
Proof. exact definite_stable. Qed.
Print Assumptions C05_definite_is_stable.
