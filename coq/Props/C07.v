(* C07 -- the collected format-constraint expression is well-formed and meaning-preserving.
   rd = the direct reading of the source expression (interpretation S1, DESIGN.md section 7); T toks t = the token-level
   expression the builder made denotes the tree t; denotes t fe = same Boolean value under every assignment, same keys. *)
From Ahb Require Import Model.Prelude Model.Grammar Gen.Gen_logic Gen.Gen_grammar Model.Logic Model.Lex Model.EvalRC Model.EvalFC Model.Spec
  Proofs.C04_eval Proofs.C08_fc Proofs.C07_fc Proofs.C07_parse Proofs.C01_lexprint Proofs.C01_print Proofs.C07_text.

Theorem C07_meaning : forall a rho e n, dom e = true -> valid e = true -> env_ok a rho e -> eval_rc rho e = Ok n ->
  match rd a e with
  | None => r_fcx (rc_result n) = None
  | Some fe => exists toks t, r_fcx (rc_result n) = Some toks /\ T toks t /\ denotes t fe
  end.
Proof. exact reported_expression. Qed.
Print Assumptions C07_meaning.

Theorem C07_only_source_fc_keys : forall a e, dom e = true -> keys_ok e (rd a e).
Proof. exact rd_keys. Qed.
Print Assumptions C07_only_source_fc_keys.

(* well-formed: the built expression has a derivation in the documented precedence grammar (so by C02 it is accepted) *)
Theorem C07_wellformed : forall g t, T g t -> exists its, items_of g = Some its /\ Sc 0 its (embed t).
Proof. exact (proj2 built_is_derivable). Qed.
Print Assumptions C07_wellformed.

(* and whatever tree the parser's resolution picks for it has the value of the reading *)
Theorem C07_value_via_parser : forall g t its e' beta, T g t -> items_of g = Some its -> Rc its e' ->
  bvalg (fun a => match a with AKey k => beta k | _ => false end) e' = bval beta t.
Proof. exact built_value_via_parser. Qed.
Print Assumptions C07_value_via_parser.

Theorem C07_unknown_never_binding : forall a x k, fc_leaf x = false -> sem a x <> C_FULFILLED -> hint_leaf x = false ->
  rd a (EBin BThen x (EAtom k)) = None.
Proof. exact unknown_never_binding. Qed.
Print Assumptions C07_unknown_never_binding.

(* at text level: the reported expression STRING (EvalRC.render toks, compared character by character with ahbicht's string by the
   correspondence) is accepted by the parser model and parses, modulo same-operator runs, to the tree that denotes the reading.
   digit_key: the keys are non-empty ASCII digit strings, which is all the lexer ever produces *)
Theorem C07_text : forall a rho e n, dom e = true -> valid e = true -> env_ok a rho e -> eval_rc rho e = Ok n ->
  Forall digit_key (keys_of e) ->
  match rd a e with
  | None => r_fcx (rc_result n) = None
  | Some fe => exists toks t, r_fcx (rc_result n) = Some toks /\ denotes t fe /\ parse_cond (EvalRC.render toks) = Ok (flat (embed t))
  end.
Proof. exact reported_text_parses. Qed.
Print Assumptions C07_text.

(* ... and for every expression the parser produced the key hypothesis is met: e is (the key-only form of) any parse the resolution admits
   for a written expression l *)
Theorem C07_text_of_parsed : forall a rho e n l its,
  Forall (fun p : text * ptok => all_ws (fst p) = true /\ ptok_ok (snd p) = true) l ->
  group (map (fun p => tok_of (snd p)) l) = Some its -> Rc its (embed e) ->
  dom e = true -> valid e = true -> env_ok a rho e -> eval_rc rho e = Ok n ->
  match rd a e with
  | None => r_fcx (rc_result n) = None
  | Some fe => exists toks t, r_fcx (rc_result n) = Some toks /\ denotes t fe /\ parse_cond (EvalRC.render toks) = Ok (flat (embed t))
  end.
Proof. exact reported_text_parses_for_parsed. Qed.
Print Assumptions C07_text_of_parsed.
