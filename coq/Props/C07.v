(* C07 -- the collected format-constraint expression is well-formed and meaning-preserving.
   rd = the direct reading of the source expression (interpretation S1, DESIGN.md section 7); T toks t = the token-level
   expression the builder made denotes the tree t; denotes t fe = same Boolean value under every assignment, same keys. *)
From Ahb Require Import Model.Prelude Model.Grammar Gen.Gen_logic Gen.Gen_grammar Model.Logic Model.Lex Model.EvalRC Model.EvalFC Model.Spec
  Proofs.C04_eval Proofs.C08_fc Proofs.C07_fc Proofs.C07_parse Proofs.C01_lexprint Proofs.C01_print Proofs.C07_text.

Theorem C07_meaning : forall a rho e n, dom e = true -> valid e = true -> env_ok a rho e -> eval_rc rho e = Ok n ->
  match rd a e with
  | None => r_fcx (rc_result n) = None
  | Some fe => exists toks t, r_fcx (rc_result n) = Some toks /\ T toks t /\ denotes t fe
  end.
Proof. exact reported_expression. Qed.
Print Assumptions C07_meaning.

Theorem C07_only_source_fc_keys : forall a e, dom e = true -> keys_ok e (rd a e).
Proof. exact rd_keys. Qed.
Print Assumptions C07_only_source_fc_keys.

(* well-formed: the built expression has a derivation in the documented precedence grammar (so by C02 it is accepted) *)
Theorem C07_wellformed : forall g t, T g t -> exists its, items_of g = Some its /\ Sc 0 its (embed t).
Proof. exact (proj2 built_is_derivable). Qed.
Print Assumptions C07_wellformed.

(* and whatever tree the parser's resolution picks for it has the value of the reading *)
Theorem C07_value_via_parser : forall g t its e' beta, T g t -> items_of g = Some its -> Rc its e' ->
  bvalg (fun a => match a with AKey k => beta k | _ => false end) e' = bval beta t.
Proof. exact built_value_via_parser. Qed.
Print Assumptions C07_value_via_parser.

Theorem C07_unknown_never_binding : forall a x k, fc_leaf x = false -> sem a x <> C_FULFILLED -> hint_leaf x = false ->
  rd a (EBin BThen x (EAtom k)) = None.
Proof. exact unknown_never_binding. Qed.
Print Assumptions C07_unknown_never_binding.

(* at text level: the reported expression STRING (EvalRC.render toks, compared character by character with ahbicht's string by the
   correspondence) is accepted by the parser model and parses, modulo same-operator runs, to the tree that denotes the reading.
   digit_key: the keys are non-empty ASCII digit strings, which is all the lexer ever produces *)
Theorem C07_text : forall a rho e n, dom e = true -> valid e = true -> env_ok a rho e -> eval_rc rho e = Ok n ->
  Forall digit_key (keys_of e) ->
  match rd a e with
  | None => r_fcx (rc_result n) = None
  | Some fe => exists toks t, r_fcx (rc_result n) = Some toks /\ denotes t fe /\ parse_cond (EvalRC.render toks) = Ok (flat (embed t))
  end.
Proof. exact reported_text_parses. Qed.
Print Assumptions C07_text.

(* ... and for every expression the parser produced the key hypothesis is met: e is (the key-only form of) any parse the resolution admits
   for a written expression l *)
Theorem C07_text_of_parsed : forall a rho e n l its,
  Forall (fun p : text * ptok => all_ws (fst p) = true /\ ptok_ok (snd p) = true) l ->
  group (map (fun p => tok_of (snd p)) l) = Some its -> Rc its (embed e) ->
  dom e = true -> valid e = true -> env_ok a rho e -> eval_rc rho e = Ok n ->
  match rd a e with
  | None => r_fcx (rc_result n) = None
  | Some fe => exists toks t, r_fcx (rc_result n) = Some toks /\ denotes t fe /\ parse_cond (EvalRC.render toks) = Ok (flat (embed t))
  end.
Proof. exact reported_text_parses_for_parsed. Qed.
Print Assumptions C07_text_of_parsed.

(* ---- the STRING builder of expression_builder.py (Model/FcString.v: the f-strings of __init__ / _connect, str.strip(), and re.sub of
   \((?P<body>\[\d+\])\) over the whole string, \d = the regenerated Unicode Nd table) computes the rendering of the token-level builder the
   theorems above are about. The string model itself is tied to FormatConstraintExpressionBuilder by its own correspondence (arbitrary strings). *)
From Ahb Require Import Model.FcString Proofs.C07_string.

(* one pass of the substitution over a rendered forest strips the brackets of exactly the single-key groups, at every depth *)
Theorem C07_regex_pass_is_norm1 : forall g, forallb item_okb g = true -> re_sub (EvalRC.render g) = EvalRC.render (map norm1 g).
Proof. exact re_sub_render. Qed.
Print Assumptions C07_regex_pass_is_norm1.

Theorem C07_string_builder_init : forall n, s_init (view n) = option_map EvalRC.render (fcb_init n).
Proof. exact init_refines. Qed.
Print Assumptions C07_string_builder_init.

Theorem C07_string_builder_connect : forall op self o, fcx_good self -> node_good o ->
  s_connect op (option_map EvalRC.render self) (view o) = option_map EvalRC.render (fcb_connect op self o) /\ fcx_good (fcb_connect op self o).
Proof. exact connect_refines. Qed.
Print Assumptions C07_string_builder_connect.

(* the transformer that carries strings reports the rendering of what the transformer that carries forests reports *)
Theorem C07_reported_string_is_rendering : forall c e res, (forall k, In k (keys_of e) -> key_okb k = true) -> rc_evaluation c e = Ok res ->
  exists rho sn, build_env c (keys_of e) = Ok rho /\ eval_rc_s (view_env rho) e = Ok sn /\
                 s_result_fcx sn = option_map EvalRC.render (r_fcx res).
Proof. exact rc_evaluation_string. Qed.
Print Assumptions C07_reported_string_is_rendering.

Theorem C07_lexer_keys_are_digit_strings : forall k, (match k with [] => false | _ => true end) = true -> forallb is_ascii_digit k = true -> key_okb k = true.
Proof. exact ascii_key_ok. Qed.
Print Assumptions C07_lexer_keys_are_digit_strings.

Theorem C07_string_builder_example :
  fcs_connect LU (Some [91;57;48;49;93]%N) KFc [57;48;50]%N None = Some [91;57;48;49;93;32;85;32;91;57;48;50;93]%N /\
  option_map EvalRC.render (fcb_connect LU (Some [FK [57;48;49]%N]) {| nk := KFc; st := C_NEUTRAL; nkey := [57;48;50]%N; nhint := None; nfcx := None |})
    = Some [91;57;48;49;93;32;85;32;91;57;48;50;93]%N.
Proof. exact string_builder_example. Qed.
Print Assumptions C07_string_builder_example.

(* ---- the collected expression and the grouping inside a run (what C01 leaves open): regrouping (x op y) op z as x op (y op z), op one of U / O / X, leaves
   the reading's value under every truth assignment unchanged, and the reading is absent in the one iff in the other *)
From Ahb Require Import Proofs.C07_runs.
Theorem C07_collected_value_invariant_under_regrouping : forall a beta b x y z, b <> BThen ->
  rdval beta (rd a (EBin b (EBin b x y) z)) = rdval beta (rd a (EBin b x (EBin b y z))).
Proof. exact rd_rotation. Qed.
Print Assumptions C07_collected_value_invariant_under_regrouping.

Theorem C07_collected_presence_invariant_under_regrouping : forall a b x y z, b <> BThen ->
  (rd a (EBin b (EBin b x y) z) = None <-> rd a (EBin b x (EBin b y z)) = None).
Proof. exact rd_rotation_presence. Qed.
Print Assumptions C07_collected_presence_invariant_under_regrouping.
