(* C12 -- independence of the completion order of asynchronous evaluators.
   Model: Model/Async.v (L11). [prog] = what a coroutine does between suspension points, [Par] = asyncio.gather
   (children are tasks that start with a copy of the parent's context; results in argument order), [step] lets
   ANY task that is not blocked take its next step, [den] is the run in which nothing ever yields.
   User-supplied evaluators, hint providers and package resolvers are arbitrary programs (they may yield any number
   of times, read/write their task-local context, gather again); A-evaluators-pure: no other shared state.
   Partial (stated in the evidence): the real event loop is modelled only as "any runnable task may step";
   copy-on-task-creation of contextvars is modelled and tied by correspondence, not verified; when several
   awaitables raise, the model propagates the leftmost exception (asyncio: the first one in time). *)
From Ahb Require Import Model.Prelude Model.Async Proofs.C12_async.

(* every schedule that completes yields the no-yield result; p, c, V arbitrary *)
Theorem C12_schedule_independent : forall (V : Type) (c : ctx V) (p : prog V) (r : V),
  steps (initial c p) (Done r) -> r = den c p.
Proof. exact schedule_independent. Qed.
Print Assumptions C12_schedule_independent.

(* the invariant behind it: no step of any task changes the denotation of the task tree *)
Theorem C12_step_preserves_denotation : forall (V : Type) (q q' : conf V), step q q' -> cden q = cden q'.
Proof. exact step_cden. Qed.
Print Assumptions C12_step_preserves_denotation.

(* progress and termination: no configuration is stuck before it is Done, every step lowers the measure by one
   (so EVERY schedule is finite and has exactly ccost q steps), and its end is Done (cden q) *)
Theorem C12_progress : forall (V : Type) (q : conf V), (exists v, q = Done v) \/ exists q', step q q'.
Proof. exact progress. Qed.
Print Assumptions C12_progress.

Theorem C12_every_step_decreases : forall (V : Type) (q q' : conf V), step q q' -> ccost q = Datatypes.S (ccost q').
Proof. exact step_ccost. Qed.
Print Assumptions C12_every_step_decreases.

Theorem C12_terminates : forall (V : Type) (q : conf V), steps q (Done (cden q)).
Proof. exact terminates. Qed.
Print Assumptions C12_terminates.

Theorem C12_maximal_schedule_is_complete : forall (V : Type) (q q' : conf V),
  steps q q' -> (forall q'', ~ step q' q'') -> q' = Done (cden q).
Proof. exact maximal_schedule_is_complete. Qed.
Print Assumptions C12_maximal_schedule_is_complete.

(* positions are kept by gather *)
Theorem C12_pairing_gather : forall (V : Type) (c : ctx V) (ps : list (prog V)) (i : nat) (d : V),
  nth i (map (den c) ps) d = den c (nth i ps (Ret d)).
Proof. exact den_par_nth. Qed.
Print Assumptions C12_pairing_gather.

(* dict(zip(keys, results)): key_i is mapped to the i-th result if key_i does not occur again later. For
   duplicate-free keys that is every i; with duplicates (ahbicht passes the keys of `[1] U [1]` twice) the LAST
   occurrence wins, independent of the completion order *)
Theorem C12_pairing_dict_zip : forall (keys : list text) (rs : list val) (i : nat),
  length keys = length rs -> i < length keys ->
  (forall j, i < j -> j < length keys -> nth j keys [] <> nth i keys []) ->
  dict_get (dict_zip keys rs) (nth i keys []) = Some (nth i rs VNone).
Proof. exact dict_zip_pairing. Qed.
Print Assumptions C12_pairing_dict_zip.

Theorem C12_nodup_keys_have_no_later_occurrence : forall (keys : list text) (i : nat),
  NoDup keys -> forall j, i < j -> j < length keys -> nth j keys [] <> nth i keys [].
Proof. exact nodup_no_later. Qed.
Print Assumptions C12_nodup_keys_have_no_later_occurrence.

Theorem C12_pairing_rc : forall (c : ctx val) (keys : list text) (aws : list (prog val)),
  length keys = length aws ->
  let rs := map (den c) aws in
  match first_exn rs with
  | Some e => den c (rc_site keys aws) = VE e
  | None => den c (rc_site keys aws) = vdict (dict_zip keys rs) /\
            forall i, i < length keys ->
              (forall j, i < j -> j < length keys -> nth j keys [] <> nth i keys []) ->
              dict_get (dict_zip keys rs) (nth i keys []) = Some (den c (nth i aws (Ret VNone)))
  end.
Proof. exact pairing_rc. Qed.
Print Assumptions C12_pairing_rc.

Theorem C12_pairing_fc : forall (c : ctx val) (keys : list text) (evs : list (val -> prog val)),
  length keys = length evs ->
  let rs := map (fun ev => den c (ev (c TEXT))) evs in
  match first_exn rs with
  | Some e => den c (fc_site keys evs) = VE e
  | None => den c (fc_site keys evs) = vdict (dict_zip keys rs) /\
            forall i, i < length keys ->
              (forall j, i < j -> j < length keys -> nth j keys [] <> nth i keys []) ->
              dict_get (dict_zip keys rs) (nth i keys []) = Some (den c (nth i evs (fun _ => Ret VNone) (c TEXT)))
  end.
Proof. exact pairing_fc. Qed.
Print Assumptions C12_pairing_fc.

Theorem C12_pairing_hints : forall (c : ctx val) (keys : list text) (aws : list (prog val)) (flag : bool),
  length keys = length aws ->
  let rs := map (den c) aws in
  first_exn rs = None -> (forall v, In v rs -> v <> VNone) ->
  den c (hints_site keys aws flag) = vdict (dict_zip keys rs) /\
  forall i, i < length keys ->
    (forall j, i < j -> j < length keys -> nth j keys [] <> nth i keys []) ->
    dict_get (dict_zip keys rs) (nth i keys []) = Some (den c (nth i aws (Ret VNone))).
Proof. exact pairing_hints. Qed.
Print Assumptions C12_pairing_hints.

(* modal-mark parts (gather_if_necessary) and package occurrences (identity replacement): slot i gets the value of
   its own awaitable, plain slots keep their value *)
Theorem C12_pairing_parts : forall (c : ctx val) (l : list slot),
  first_exn (map (den c) (awaitables l)) = None ->
  den c (parts_site l) = select_part (map (slot_den c) l) /\
  forall i, nth i (map (slot_den c) l) VNone = slot_den c (nth i l (Plain VNone)).
Proof. exact pairing_parts. Qed.
Print Assumptions C12_pairing_parts.

Theorem C12_pairing_packages : forall (c : ctx val) (l : list slot),
  first_exn (map (den c) (awaitables l)) = None ->
  den c (packages_site l) = VL (map (slot_den c) l) /\
  forall i, nth i (map (slot_den c) l) VNone = slot_den c (nth i l (Plain VNone)).
Proof. exact pairing_packages. Qed.
Print Assumptions C12_pairing_packages.

(* a Put inside one child of a gather is invisible to its siblings and to the parent *)
Theorem C12_context_isolation : forall (V : Type) (c : ctx V) (x : var) (v : V) (p : prog V)
    (l1 l2 : list (prog V)) (k : list V -> prog V),
  den c (Par (l1 ++ Put x v p :: l2) k) = den c (k (map (den c) l1 ++ den (upd c x v) p :: map (den c) l2)).
Proof. exact context_isolation. Qed.
Print Assumptions C12_context_isolation.

Theorem C12_context_isolation_step : forall (V : Type) (c : ctx V) (x : var) (v : V) (p : prog V)
    (l1 l2 : list (prog V)) (k : list V -> prog V),
  steps (initial c (Par (l1 ++ Put x v p :: l2) k))
        (Wait c (map (Run c) l1 ++ Run (upd c x v) p :: map (Run c) l2) k).
Proof. exact context_isolation_step. Qed.
Print Assumptions C12_context_isolation_step.

(* concurrent evaluations that take their data from context-local storage each see only their own data *)
Theorem C12_is_valid_own_data : forall (c : ctx val) (cers : list val) (evaluate : prog val),
  let rs := map (fun cer => den (upd c CER cer) evaluate) cers in
  den c (is_valid_site cers evaluate) =
  match first_exn rs with
  | Some InvalidExpr => VL [VB false; VL rs]
  | Some e => VE e
  | None => VL [VB true; VL rs]
  end.
Proof. exact is_valid_own_data. Qed.
Print Assumptions C12_is_valid_own_data.

(* the executable scheduler used by the correspondence performs only steps of the relation *)
Theorem C12_scheduler_sound : forall (V : Type) (fuel : nat) (choices : list nat) (q : conf V),
  steps q (run_sched fuel choices q).
Proof. exact run_sched_steps. Qed.
Print Assumptions C12_scheduler_sound.

(* the hypotheses are satisfiable: two yielding children, the second one completes before the first starts *)
Theorem C12_example_second_child_first :
  steps (initial ctx0 ex_prog) (Done (VL [VL [VN 1; VT [120%N]]; VL [VN 2; VT [121%N]]])).
Proof. exact ex_steps. Qed.
Print Assumptions C12_example_second_child_first.
