(* C06 -- validity is structural: evaluation raises the invalid-expression error under every assignment of a
   structurally invalid expression and under none of a structurally valid one. *)
From Ahb Require Import Model.Prelude Model.Grammar Gen.Gen_logic Model.Logic Model.EvalRC Model.EvalFC Model.EvalAhb Model.Spec Model.Keys Model.Validity
  Proofs.C04_eval Proofs.C06_validity.

Theorem C06_invalid_always : forall e, dom e = true -> valid e = false ->
  forall a rho, env_ok a rho e -> eval_rc rho e = Exn InvalidExpr.
Proof. exact invalid_always. Qed.
Print Assumptions C06_invalid_always.

Theorem C06_valid_never : forall e, dom e = true -> valid e = true ->
  forall a rho, env_ok a rho e -> eval_rc rho e <> Exn InvalidExpr.
Proof. exact valid_never. Qed.
Print Assumptions C06_valid_never.

(* evaluation of a whole AHB expression (all parts) under any generated content evaluation result: a result if every part is
   structurally valid, the invalid-expression error otherwise *)
Theorem C06_ahb : forall hs fcs rcs g ps, gen_ok hs fcs rcs g -> ps <> [] -> Forall (part_expr_ok hs fcs rcs) ps ->
  if forallb part_valid ps then exists r, eval_ahb (cer_of g) ps = Ok r else eval_ahb (cer_of g) ps = Exn InvalidExpr.
Proof. exact eval_ahb_char. Qed.
Print Assumptions C06_ahb.

(* the validity check (try every generated content evaluation result; Model/Validity.v, generate from Model/Keys.v) returns
   True exactly for the structurally valid expressions -- including the case without requirement/format keys, where nothing
   is generated and nothing can be invalid *)
Theorem C06_validity_check : forall hs fcs rcs ps, ps <> [] -> Forall (part_expr_ok hs fcs rcs) ps ->
  NoDup hs -> NoDup fcs -> NoDup rcs -> ~ In fc_dummy fcs -> ~ In rc_dummy rcs ->
  is_valid_tree ps hs fcs rcs = Ok (forallb part_valid ps).
Proof. exact validity_check_decides. Qed.
Print Assumptions C06_validity_check.

(* ---- every schedule. Model/ValidityAsync.v writes the evaluation loop of is_valid_expression as a task tree: one gathered coroutine per generated
   content evaluation result, each calling the setter (a context variable is written) and then awaiting evaluate_ahb_expression_tree -- an arbitrary
   program. Whatever the order in which these evaluations proceed, the verdict is the sequential loop's, each evaluation finds its own content
   evaluation result (not a sibling's, not the caller's), and with evaluators that answer from the stored result the verdict is the structural one. *)
From Ahb Require Import Model.Async Model.ValidityAsync Proofs.C06_async.

Theorem C06_validity_loop_under_every_schedule : forall (U : Type) (evalp : prog (vv U)) (c : Async.ctx (vv U)) (gs : list cer) (r : vv U),
  steps (initial c (valid_prog U evalp gs)) (Done r) -> as_res r = try_all_gen (eval_of U evalp c) gs.
Proof. exact valid_every_schedule. Qed.
Print Assumptions C06_validity_loop_under_every_schedule.

Theorem C06_evaluation_sees_its_own_result : forall (U : Type) (evalp : prog (vv U)) (c : Async.ctx (vv U)) (v : vv U) (g : cer),
  eval_of U evalp (upd c DATAV v) g = eval_of U evalp c g.
Proof. exact eval_of_ignores_outer_data. Qed.
Print Assumptions C06_evaluation_sees_its_own_result.

Theorem C06_sequential_loop_is_try_all : forall a gs, try_all a gs = try_all_gen (fun g => forget (eval_ahb g a)) (map cer_of gs).
Proof. exact try_all_is_gen. Qed.
Print Assumptions C06_sequential_loop_is_try_all.

Theorem C06_validity_check_under_every_schedule : forall (U : Type) (evalp : prog (vv U)) (c : Async.ctx (vv U)) hs fcs rcs ps (r : vv U),
  (forall g, eval_of U evalp c g = forget (eval_ahb g ps)) ->
  ps <> [] -> Forall (part_expr_ok hs fcs rcs) ps -> NoDup hs -> NoDup fcs -> NoDup rcs -> ~ In fc_dummy fcs -> ~ In rc_dummy rcs ->
  steps (initial c (valid_prog U evalp (map cer_of (generate hs fcs rcs)))) (Done r) -> as_res r = Ok (forallb part_valid ps).
Proof. exact validity_check_every_schedule. Qed.
Print Assumptions C06_validity_check_under_every_schedule.

(* the first hypothesis is met by an evaluation that suspends and then reads the stored result *)
Theorem C06_every_schedule_hypothesis_satisfiable : forall (U : Type) (ps : ahb) c g,
  eval_of U (cer_based_evalp U ps) c g = forget (eval_ahb g ps).
Proof. exact cer_based_evalp_ok. Qed.
Print Assumptions C06_every_schedule_hypothesis_satisfiable.

(* ---- validity and the grouping inside runs of one operator (what C01 leaves unspecified). [validf] is the criterion of C06 read on the flattened tree: all
   operands of every run valid, and in a run of O or X either all operands carry a requirement constraint or none does. A valid tree has a valid flattening;
   conversely a valid flattening makes the tree valid PROVIDED no run of O or X over operands without requirement constraint contains both a single hint
   and a single format constraint (corner_free) -- in that one corner the grouping decides (C05_run_grouping_can_change_validity). Hence: two trees with
   the same corner-free flattening -- in particular any two trees the ambiguity resolution admits for one string -- are both valid or both invalid. *)
From Ahb Require Import Proofs.C05_runs Proofs.C06_runs.

Theorem C06_valid_tree_has_valid_flattening : forall e : kexpr, valid e = true -> validf (flat e) = true.
Proof. exact valid_implies_validf. Qed.
Print Assumptions C06_valid_tree_has_valid_flattening.

Theorem C06_valid_flattening_makes_the_tree_valid : forall e : kexpr, validf (flat e) = true -> corner_free (flat e) = true -> valid e = true.
Proof. exact validf_implies_valid. Qed.
Print Assumptions C06_valid_flattening_makes_the_tree_valid.

Theorem C06_validity_independent_of_run_grouping : forall e e' : kexpr, flat e = flat e' -> corner_free (flat e) = true -> valid e = valid e'.
Proof. exact validity_independent_of_runs. Qed.
Print Assumptions C06_validity_independent_of_run_grouping.

Theorem C06_corner_free_examples :
  corner_free (flat (EBin BOr (EBin BOr (EAtom [49%N]) (EAtom [50%N])) (EBin BAnd (EAtom [51%N]) (EAtom k501)))) = true /\
  corner_free (flat (EBin BOr (EBin BOr (EAtom k501) (EAtom k502)) (EBin BAnd (EAtom k901) (EAtom k502)))) = true /\
  corner_free (flat (EBin BOr (EBin BOr (EAtom k501) (EAtom k502)) (EAtom k901))) = false.
Proof. exact corner_free_examples. Qed.
Print Assumptions C06_corner_free_examples.
