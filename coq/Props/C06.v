(* C06 -- validity is structural: evaluation raises the invalid-expression error under every assignment of a
   structurally invalid expression and under none of a structurally valid one. *)
From Ahb Require Import Model.Prelude Model.Grammar Gen.Gen_logic Model.Logic Model.EvalRC Model.Spec Proofs.C04_eval.

Theorem C06_invalid_always : forall e, dom e = true -> valid e = false ->
  forall a rho, env_ok a rho e -> eval_rc rho e = Exn InvalidExpr.
Proof. exact invalid_always. Qed.
Print Assumptions C06_invalid_always.

Theorem C06_valid_never : forall e, dom e = true -> valid e = true ->
  forall a rho, env_ok a rho e -> eval_rc rho e <> Exn InvalidExpr.
Proof. exact valid_never. Qed.
Print Assumptions C06_valid_never.
