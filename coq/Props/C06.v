(* C06 -- validity is structural: evaluation raises the invalid-expression error under every assignment of a
   structurally invalid expression and under none of a structurally valid one. *)
From Ahb Require Import Model.Prelude Model.Grammar Gen.Gen_logic Model.Logic Model.EvalRC Model.EvalFC Model.EvalAhb Model.Spec Model.Keys Model.Validity
  Proofs.C04_eval Proofs.C06_validity.

Theorem C06_invalid_always : forall e, dom e = true -> valid e = false ->
  forall a rho, env_ok a rho e -> eval_rc rho e = Exn InvalidExpr.
Proof. exact invalid_always. Qed.
Print Assumptions C06_invalid_always.

Theorem C06_valid_never : forall e, dom e = true -> valid e = true ->
  forall a rho, env_ok a rho e -> eval_rc rho e <> Exn InvalidExpr.
Proof. exact valid_never. Qed.
Print Assumptions C06_valid_never.

(* evaluation of a whole AHB expression (all parts) under any generated content evaluation result: a result if every part is
   structurally valid, the invalid-expression error otherwise *)
Theorem C06_ahb : forall hs fcs rcs g ps, gen_ok hs fcs rcs g -> ps <> [] -> Forall (part_expr_ok hs fcs rcs) ps ->
  if forallb part_valid ps then exists r, eval_ahb (cer_of g) ps = Ok r else eval_ahb (cer_of g) ps = Exn InvalidExpr.
Proof. exact eval_ahb_char. Qed.
Print Assumptions C06_ahb.

(* the validity check (try every generated content evaluation result; Model/Validity.v, generate from Model/Keys.v) returns
   True exactly for the structurally valid expressions -- including the case without requirement/format keys, where nothing
   is generated and nothing can be invalid *)
Theorem C06_validity_check : forall hs fcs rcs ps, ps <> [] -> Forall (part_expr_ok hs fcs rcs) ps ->
  NoDup hs -> NoDup fcs -> NoDup rcs -> ~ In fc_dummy fcs -> ~ In rc_dummy rcs ->
  is_valid_tree ps hs fcs rcs = Ok (forallb part_valid ps).
Proof. exact validity_check_decides. Qed.
Print Assumptions C06_validity_check.
