(* C18 -- key extraction and enumeration of the possible content evaluation results.

   Model (Model/Keys.v, tied to ahbicht by the correspondence of vlib/props/c18.py on every run):
     category_of            derive_condition_node_type (GENERATED: Gen_ranges.node_type_of_key) + the dispatch of
                            extract_categorized_keys_from_tree (REPEATABILITY_CONSTRAINT counts as requirement constraint)
     extract / extract_tree extract_categorized_keys_from_tree(tree, sanitize) on a parse tree (any tree: as parsed, or after
                            packages / time conditions were resolved -- resolution only produces other trees of this type)
     sanitize, add          CategorizedKeyExtract.sanitize, __add__
     generate               generate_possible_content_evaluation_results, literally (itertools.product, combinations, the
                            len({y[0] for y in z}) filter, the dummies, the NEUTRAL filter, the early return [])
     cartesian              the specification: all total assignments, format keys x {True, False} (slowest),
                            requirement keys x {FULFILLED, UNFULFILLED, UNKNOWN}

   Interpretation I-C18: key_inj l = "distinct keys of l have distinct integer values" (no "01" next to "1"; Python's
   set order is unspecified between them). Canonical numerals satisfy it (C18_canonical_numerals).
   Interpretation I-C18b: with no format key AND no requirement key the library returns [] (documented by its own unit
   test "0 FC, 0 RC"), not the one empty assignment; C18_generate_no_keys states it, the product theorems assume m + n >= 1. *)
From Coq Require Import Sorting.Sorted Sorting.Permutation.
From Ahb Require Import Model.Prelude Model.Grammar Gen.Gen_logic Gen.Gen_ranges Model.Lex Model.Keys Proofs.C18_keys Proofs.C01_lexprint Proofs.C01_print Proofs.C01_atoms.

(* every numeral is in exactly one class, decided by its integer value with the documented bounds *)
Theorem C18_ranges_partition : forall (k : text) (n : Z), key_int k = Ok n ->
  (category_of k = Ok CatRc <-> (1 <= n <= 499 \/ 2000 <= n <= 2499)%Z) /\
  (category_of k = Ok CatHint <-> (500 <= n <= 900)%Z) /\
  (category_of k = Ok CatFc <-> (901 <= n <= 999)%Z) /\
  (category_of k = Exn ValueErr <-> (n <= 0 \/ 1000 <= n <= 1999 \/ 2500 <= n)%Z) /\
  ((exists c, category_of k = Ok c) \/ category_of k = Exn ValueErr).
Proof. exact ranges_partition. Qed.
Print Assumptions C18_ranges_partition.

(* ... and every number n >= 0 is the value of a key (negative numbers have no CONDITION_KEY spelling), so the partition
   above is a statement about all key numbers *)
Theorem C18_every_number_has_a_key : forall n : Z, (0 <= n)%Z -> key_int (numeral n) = Ok n.
Proof. exact every_number_has_a_key. Qed.
Print Assumptions C18_every_number_has_a_key.

(* anything else: "nP" is a package (NotImplementedError in the extraction loop), other strings are rejected *)
Theorem C18_category_total : forall k : text,
  (exists n, key_int k = Ok n) \/
  (ends_with 80%N k = true /\ category_of k = Exn NotImpl) \/
  (key_int k = Exn ValueErr /\ category_of k = Exn ValueErr).
Proof. exact category_total. Qed.
Print Assumptions C18_category_total.

(* every key in exactly one list, once, ascending (strictly under I-C18); packages / time conditions as strings *)
Theorem C18_extract_sorted_nodup : forall e r, extract_tree e true = Ok r ->
  (forall k, In (AKey k) (atoms e) ->
     exists c, category_of k = Ok c /\
       (In k (rc_keys r) <-> c = CatRc) /\ (In k (hint_keys r) <-> c = CatHint) /\ (In k (fc_keys r) <-> c = CatFc)) /\
  (forall k, In k (rc_keys r) \/ In k (hint_keys r) \/ In k (fc_keys r) -> In (AKey k) (atoms e)) /\
  (forall k, In k (pkg_keys r) <-> exists rep, In (APkg k rep) (atoms e)) /\
  (forall k, In k (time_keys r) <-> In (ATime k) (atoms e)) /\
  NoDup (rc_keys r) /\ NoDup (hint_keys r) /\ NoDup (fc_keys r) /\
  StronglySorted (fun a b => (kval a <= kval b)%Z) (rc_keys r) /\
  StronglySorted (fun a b => (kval a <= kval b)%Z) (hint_keys r) /\
  StronglySorted (fun a b => (kval a <= kval b)%Z) (fc_keys r) /\
  StronglySorted text_lt (pkg_keys r) /\ StronglySorted text_lt (time_keys r) /\
  (key_inj (cond_keys_of e) ->
     StronglySorted num_lt (rc_keys r) /\ StronglySorted num_lt (hint_keys r) /\ StronglySorted num_lt (fc_keys r)).
Proof. exact extract_sorted_nodup. Qed.
Print Assumptions C18_extract_sorted_nodup.

(* anything else is rejected: the extraction succeeds iff every condition key is in a documented range, and otherwise
   raises what the first offending key raises (ValueError; NotImplementedError for a key list entry that ends with P) *)
Theorem C18_extract_accepts : forall e,
  (exists r, extract e = Ok r) <-> Forall (fun k => exists c, category_of k = Ok c) (cond_keys_of e).
Proof. exact extract_accepts. Qed.
Print Assumptions C18_extract_accepts.

Theorem C18_extract_rejects : forall e san err, extract_tree e san = Exn err ->
  exists k, In (AKey k) (atoms e) /\ category_of k = Exn err /\ (err = ValueErr \/ err = NotImpl).
Proof. exact extract_rejects. Qed.
Print Assumptions C18_extract_rejects.

(* without sanitizing: concatenation, and the composed extraction succeeds iff both parts do *)
Theorem C18_extract_union_raw : forall b x y r,
  extract (EBin b x y) = Ok r <-> exists rx ry, extract x = Ok rx /\ extract y = Ok ry /\ r = concat_extract rx ry.
Proof. exact extract_union_raw. Qed.
Print Assumptions C18_extract_union_raw.

(* sanitized: extract (x op y) = extract x + extract y  (CategorizedKeyExtract.__add__) *)
Theorem C18_extract_union : forall b x y, key_inj (cond_keys_of (EBin b x y)) ->
  (forall rx ry, extract_tree x true = Ok rx -> extract_tree y true = Ok ry -> extract_tree (EBin b x y) true = add rx ry) /\
  (forall r, extract_tree (EBin b x y) true = Ok r ->
     exists rx ry, extract_tree x true = Ok rx /\ extract_tree y true = Ok ry /\ add rx ry = Ok r).
Proof. exact extract_union. Qed.
Print Assumptions C18_extract_union.

Theorem C18_canonical_numerals : forall l, forallb canonical l = true -> key_inj l.
Proof. exact canonical_key_inj. Qed.
Print Assumptions C18_canonical_numerals.

(* the itertools core, for every number of keys: the filtered combinations of the key-major product are exactly the
   total assignments, in the same order *)
Theorem C18_filtered_combinations : forall (V : Type) (keys : list text) (vals : list V), NoDup keys ->
  filter (distinct_keys (length keys)) (combs (product keys vals) (length keys)) = assignments keys vals.
Proof. exact (@filtered_combs_are_assignments). Qed.
Print Assumptions C18_filtered_combinations.

(* stronger than the Permutation of the design: equal as ORDERED lists, for all m, n with m + n >= 1 *)
Theorem C18_generate_ordered : forall hs fcs rcs,
  NoDup hs -> NoDup fcs -> NoDup rcs -> ~ In fc_dummy fcs -> ~ In rc_dummy rcs -> fcs <> [] \/ rcs <> [] ->
  generate hs fcs rcs = cartesian hs fcs rcs.
Proof. exact generate_eq_cartesian. Qed.
Print Assumptions C18_generate_ordered.

Theorem C18_generate_is_product : forall hs fcs rcs,
  NoDup hs -> NoDup fcs -> NoDup rcs -> ~ In fc_dummy fcs -> ~ In rc_dummy rcs -> fcs <> [] \/ rcs <> [] ->
  Permutation (generate hs fcs rcs) (cartesian hs fcs rcs) /\ NoDup (generate hs fcs rcs) /\
  length (generate hs fcs rcs) = 2 ^ length fcs * 3 ^ length rcs.
Proof. exact generate_is_product. Qed.
Print Assumptions C18_generate_is_product.

(* the specification is what the statement says: every total assignment, nothing else *)
Theorem C18_cartesian_spec : forall hs fcs rcs res,
  In res (cartesian hs fcs rcs) <->
  g_hints res = map (fun k => (k, t_hinweis ++ k)) hs /\ map fst (g_fc res) = fcs /\ map fst (g_rc res) = rcs /\
  Forall (fun kv => snd kv <> C_NEUTRAL) (g_rc res).
Proof. exact cartesian_spec. Qed.
Print Assumptions C18_cartesian_spec.

(* for the keys of any expression the side conditions hold by themselves *)
Theorem C18_generate_of_extract : forall e r, extract_tree e true = Ok r -> fc_keys r <> [] \/ rc_keys r <> [] ->
  generate_of r = cartesian (hint_keys r) (fc_keys r) (rc_keys r) /\
  NoDup (generate_of r) /\ length (generate_of r) = 2 ^ length (fc_keys r) * 3 ^ length (rc_keys r).
Proof. exact generate_of_extract. Qed.
Print Assumptions C18_generate_of_extract.

Theorem C18_generate_no_keys : forall hs, generate hs [] [] = [].
Proof. exact generate_no_keys. Qed.
Print Assumptions C18_generate_no_keys.

Theorem C18_example_36 :
  generate [t501] [t901; t902] [t1; t2] = cartesian [t501] [t901; t902] [t1; t2] /\
  length (generate [t501] [t901; t902] [t1; t2]) = 36.
Proof. exact example_36. Qed.
Print Assumptions C18_example_36.

(* the keys of a parse tree are the keys as written: any tree the parser's resolution admits for a written expression carries exactly the
   atoms of its tokens, in written order (nothing dropped, duplicated or reordered by parsing) *)
Theorem C18_tree_atoms_are_the_written_atoms : forall l its e,
  group (map (fun p : text * ptok => tok_of (snd p)) l) = Some its -> Rc its e -> Keys.atoms e = tatoms (map (fun p => tok_of (snd p)) l).
Proof. exact written_key_atoms. Qed.
Print Assumptions C18_tree_atoms_are_the_written_atoms.
