(* C04 -- requirement-constraint evaluation equals the documented compositional semantics.
   eval_rc is the hand-written model of RequirementConstraintTransformer (tied to /repo by the correspondence check),
   cfv_and/or/xor inside it and the key ranges are regenerated from /repo. *)
From Ahb Require Import Model.Prelude Model.Grammar Gen.Gen_logic Model.Logic Model.EvalRC Model.Spec Proofs.C04_eval Proofs.C04_env.

Theorem C04_state : forall a rho e, dom e = true -> valid e = true -> env_ok a rho e ->
  exists n, eval_rc rho e = Ok n /\ st n = sem a e.
Proof. exact state_thm. Qed.
Print Assumptions C04_state.

Theorem C04_outcome : forall a rho e, dom e = true -> valid e = true -> env_ok a rho e ->
  exists n, eval_rc rho e = Ok n /\
    (r_fulfilled (rc_result n), r_conditional (rc_result n)) =
      match sem a e with
      | C_FULFILLED => (Some true, Some true)
      | C_NEUTRAL => (Some true, Some false)
      | C_UNFULFILLED => (Some false, Some true)
      | C_UNKNOWN => (None, None)
      end.
Proof. exact outcome_thm. Qed.
Print Assumptions C04_outcome.

Theorem C04_hypotheses_satisfiable : dom ex_expr = true /\ valid ex_expr = true /\ env_ok ex_assign ex_env ex_expr /\
  sem ex_assign ex_expr = C_FULFILLED.
Proof. exact example_hyps. Qed.
Print Assumptions C04_hypotheses_satisfiable.

(* the hypothesis env_ok is what the ConditionNodeBuilder produces from a total content evaluation result, so the statement
   holds for requirement_constraint_evaluation (rc_evaluation) itself *)
Theorem C04_env_from_content_evaluation_result : forall c e, dom e = true -> cer_total c e ->
  exists rho, build_env c (keys_of e) = Ok rho /\ env_ok (assign_of c) rho e.
Proof. exact build_env_ok. Qed.
Print Assumptions C04_env_from_content_evaluation_result.

Theorem C04_requirement_constraint_evaluation : forall c e, dom e = true -> valid e = true -> cer_total c e ->
  exists r, rc_evaluation c e = Ok r /\
    (r_fulfilled r, r_conditional r) =
      match sem (assign_of c) e with
      | C_FULFILLED => (Some true, Some true)
      | C_NEUTRAL => (Some true, Some false)
      | C_UNFULFILLED => (Some false, Some true)
      | C_UNKNOWN => (None, None)
      end.
Proof. exact rc_evaluation_outcome. Qed.
Print Assumptions C04_requirement_constraint_evaluation.

(* ---- every schedule. Model/NodeBuilderAsync.v writes ConditionNodeBuilder.requirement_content_evaluation_for_all_condition_keys as a task tree:
   one gathered coroutine per requirement-constraint key occurrence (dict(zip(keys, results)), one node per key from that dict), then one per hint
   key (a missing text raises KeyError), then the format-constraint nodes. Evaluating a key / looking a hint up are arbitrary programs of the key.
   Whatever the order in which they run, the environment handed to the transformer is the sequential model's; with look-ups that answer from a
   content evaluation result that model is build_env, the environment of C04_requirement_constraint_evaluation. *)
From Ahb Require Import Model.Async Model.NodeBuilderAsync Proofs.C04_async.

Theorem C04_node_builder_under_every_schedule : forall (U : Type) (rcp hintp : text -> prog (nv U)) (c : ctx (nv U)) (keys : list text) (r : nv U),
  steps (initial c (builder_prog U rcp hintp keys)) (Done r) ->
  as_env r = build_env_gen (rcf_of U rcp c) (hintf_of U hintp c) keys.
Proof. exact builder_every_schedule. Qed.
Print Assumptions C04_node_builder_under_every_schedule.

Theorem C04_sequential_builder_is_build_env : forall c keys, build_env c keys = build_env_gen (rc_of_cer c) (hint_of_cer c) keys.
Proof. exact build_env_is_gen. Qed.
Print Assumptions C04_sequential_builder_is_build_env.

(* dict(zip(keys, results)) with results that are a function of the key: a look-up finds that key's value, repeated keys or not *)
Theorem C04_dict_zip_lookup : forall (A : Type) (f : text -> result A) (l : list text) (vs : list A), mapM f l = Ok vs ->
  forall k, In k l -> exists v, f k = Ok v /\ lookup_last (combine l vs) k = Some v.
Proof. exact @lookup_last_mapM. Qed.
Print Assumptions C04_dict_zip_lookup.

(* ---- tie T for the hint texts: HintExpressionBuilder.land/lor/xor executed on symbolic hints (none / empty / a non-empty text) give the rows of
   Gen/Gen_fcmsg.v, and these are what hb_land / hb_lor / hb_xor of the evaluation model compute for all non-empty texts. *)
From Ahb Require Import Gen.Gen_fcmsg Proofs.C08_gen.
Theorem C04_hint_builder_is_the_regenerated_table : Forall hint_row_ok hint_rows /\ length hint_rows = 27.
Proof. exact (conj hint_rows_ok hint_rows_complete). Qed.
Print Assumptions C04_hint_builder_is_the_regenerated_table.

(* ---- tie T for the transformer itself: the four callbacks of RequirementConstraintTransformer, executed by the translator on every pair of nodes of a
   finite universe covering all their case distinctions (4 requirement-constraint states, hint, format constraint, compositions in 4 states x hint
   text or none x no / single-key / compound collected expression: 30 x 30 x 4 rows, Gen/Gen_rccb.v), return what `compose` -- the function eval_rc
   folds over the tree -- returns: kind, state, hint text, collected expression as written by the builder, or the exception. *)
From Ahb Require Import Corr.Eval Gen.Gen_rccb Proofs.C04_gen.
Theorem C04_transformer_callbacks_are_the_regenerated_table : forallb cb_row_ok cb_rows = true /\ length cb_rows = 3600.
Proof. exact (conj cb_rows_ok cb_rows_complete). Qed.
Print Assumptions C04_transformer_callbacks_are_the_regenerated_table.

(* ---- ... and requirement_constraint_evaluation end to end (node builder, transformer, mapping of the root node to the reported outcome / collected
   expression / hints) on a small scope enumerated completely: all trees with one or two leaves over two requirement constraints, a hint and a format
   constraint x the four operators x all assignments (Gen/Gen_rctail.v) report what rc_evaluation reports. *)
From Ahb Require Import Gen.Gen_rctail Proofs.C04_tail.
Theorem C04_requirement_constraint_evaluation_is_the_regenerated_table : forallb rc_check rc_rows = true /\ 200 <= length rc_rows.
Proof. exact (conj rc_rows_ok rc_rows_nonempty). Qed.
Print Assumptions C04_requirement_constraint_evaluation_is_the_regenerated_table.
