(* C01 -- condition expressions are grouped by the documented operator precedence.
   Rc  = Lark's ambiguity resolution as modelled (lowest rule order among the alternatives deriving a span), over the
         rule table regenerated from the loaded grammar; that Lark behaves like Rc is what the correspondence tests.
   Sc  = the documented precedence as a stratified grammar (brackets > juxtaposition > AND > XOR > OR).
   flat = the tree modulo the grouping inside runs of one and the same operator (the only thing left unspecified). *)
From Ahb Require Import Model.Prelude Model.Grammar Gen.Gen_grammar Model.Lex Proofs.C01_parse Proofs.C02_language Proofs.C01_lexprint Proofs.C01_print.

Theorem C01_order_table :
  (forall r r', rule_order r <= rule_order r' -> lv rule_alias r <= lv rule_alias r') /\ (forall r, rule_order r < order_then).
Proof. exact (conj table_monotone then_last). Qed.
Print Assumptions C01_order_table.

Theorem C01_resolution_respects_precedence : forall its e, Rc its e -> Sc 0 its e.
Proof. exact resolution_respects_precedence_c. Qed.
Print Assumptions C01_resolution_respects_precedence.

Theorem C01_unique_modulo_runs : forall its e e', Sc 0 its e -> Sc 0 its e' -> flat e = flat e'.
Proof. exact unique_modulo_runs_c. Qed.
Print Assumptions C01_unique_modulo_runs.

Theorem C01_total : forall its, wf its = true -> exists e, Rc its e.
Proof. exact wf_total_c. Qed.
Print Assumptions C01_total.

(* the executable model parser returns the flattening of every tree the resolution admits *)
Theorem C01_model_parser_is_lark : forall s ts its e,
  lex s = Some ts -> group ts = Some its -> Rc its e -> parse_cond s = Ok (flat e).
Proof. exact parse_cond_is_lark. Qed.
Print Assumptions C01_model_parser_is_lark.

Theorem C01_redundant_brackets : forall its its' e0 e e', D 0 its its' e0 -> Rc its e -> Rc its' e' -> flat e = flat e'.
Proof. exact redundant_brackets. Qed.
Print Assumptions C01_redundant_brackets.

(* letter vs symbol spelling (rules with the same alias) never changes the result of the canonical parser *)
Theorem C01_spelling : forall f n l l', same_spelling_class l l' -> canonc f n l = canonc f n l'.
Proof. exact canon_spelling_invariant. Qed.
Print Assumptions C01_spelling.

(* at character level: any way of writing a token list -- either spelling and letter case of an operator, any white space
   between tokens and inside the square brackets -- is lexed back to that token list, so two such writings of the same
   tokens are parsed to the same result *)
Theorem C01_written_form_irrelevant : forall l1 t1 l2 t2,
  Forall (fun p => all_ws (fst p) = true /\ ptok_ok (snd p) = true) l1 -> all_ws t1 = true ->
  Forall (fun p => all_ws (fst p) = true /\ ptok_ok (snd p) = true) l2 -> all_ws t2 = true ->
  map (fun p => tok_of (snd p)) l1 = map (fun p => tok_of (snd p)) l2 ->
  parse_cond (render l1 t1) = parse_cond (render l2 t2).
Proof. exact same_tokens_same_parse. Qed.
Print Assumptions C01_written_form_irrelevant.

(* brackets: flattening any forest to tokens (a bracket pair around every group) and grouping it again is the identity, so the
   grouping the parser sees is exactly the bracket structure that was written *)
Theorem C01_brackets_read_back : forall its, group (untoks its) = Some its.
Proof. exact group_untoks. Qed.
Print Assumptions C01_brackets_read_back.
