(* C01 -- condition expressions are grouped by the documented operator precedence.
   Rc  = Lark's ambiguity resolution as modelled (lowest rule order among the alternatives deriving a span), over the
         rule table regenerated from the loaded grammar; that Lark behaves like Rc is what the correspondence tests.
   Sc  = the documented precedence as a stratified grammar (brackets > juxtaposition > AND > XOR > OR).
   flat = the tree modulo the grouping inside runs of one and the same operator (the only thing left unspecified). *)
From Ahb Require Import Model.Prelude Model.Grammar Gen.Gen_grammar Model.Lex Proofs.C01_parse Proofs.C02_language.

Theorem C01_order_table :
  (forall r r', rule_order r <= rule_order r' -> lv rule_alias r <= lv rule_alias r') /\ (forall r, rule_order r < order_then).
Proof. exact (conj table_monotone then_last). Qed.
Print Assumptions C01_order_table.

Theorem C01_resolution_respects_precedence : forall its e, Rc its e -> Sc 0 its e.
Proof. exact resolution_respects_precedence_c. Qed.
Print Assumptions C01_resolution_respects_precedence.

Theorem C01_unique_modulo_runs : forall its e e', Sc 0 its e -> Sc 0 its e' -> flat e = flat e'.
Proof. exact unique_modulo_runs_c. Qed.
Print Assumptions C01_unique_modulo_runs.

Theorem C01_total : forall its, wf its = true -> exists e, Rc its e.
Proof. exact wf_total_c. Qed.
Print Assumptions C01_total.

(* the executable model parser returns the flattening of every tree the resolution admits *)
Theorem C01_model_parser_is_lark : forall s ts its e,
  lex s = Some ts -> group ts = Some its -> Rc its e -> parse_cond s = Ok (flat e).
Proof. exact parse_cond_is_lark. Qed.
Print Assumptions C01_model_parser_is_lark.

Theorem C01_redundant_brackets : forall its its' e0 e e', D 0 its its' e0 -> Rc its e -> Rc its' e' -> flat e = flat e'.
Proof. exact redundant_brackets. Qed.
Print Assumptions C01_redundant_brackets.

(* letter vs symbol spelling (rules with the same alias) never changes the result of the canonical parser *)
Theorem C01_spelling : forall f n l l', same_spelling_class l l' -> canonc f n l = canonc f n l'.
Proof. exact canon_spelling_invariant. Qed.
Print Assumptions C01_spelling.
