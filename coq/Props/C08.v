(* C08 -- format-constraint evaluation is Boolean and explains every failure.
   eval_fc is the model of FormatConstraintTransformer + FormatErrorMessageExpressionBuilder (tied by correspondence).
   The tree e is whatever the parser produced; that its grouping follows the documented precedence is C01, and the
   Boolean value does not depend on the grouping inside runs of one operator (C01_value_independent_of_runs). *)
From Ahb Require Import Model.Prelude Model.Grammar Gen.Gen_grammar Model.Lex Model.EvalRC Model.EvalFC Proofs.C08_fc Proofs.C07_parse Proofs.C08_env.

Theorem C08_boolean : forall beta fe e, no_then e = true -> fenv_ok beta fe e ->
  exists r, eval_fc fe e = Ok r /\ ff r = bval beta e.
Proof. exact fc_boolean. Qed.
Print Assumptions C08_boolean.

Theorem C08_absent_is_fulfilled : forall c, fc_evaluation c None = Ok {| ff := true; fmsg := None |}.
Proof. exact absent_fulfilled. Qed.
Print Assumptions C08_absent_is_fulfilled.

Theorem C08_message_iff : forall fe e r, msgs_ok fe e -> eval_fc fe e = Ok r -> (fmsg r <> None <-> ff r = false).
Proof. exact fc_message_iff. Qed.
Print Assumptions C08_message_iff.

Theorem C08_default_message : forall k r,
  ff (default_message k r) = ff r /\ (ff r = false -> fmsg (default_message k r) <> None).
Proof. exact default_message_explains. Qed.
Print Assumptions C08_default_message.

(* the Boolean value does not depend on the grouping inside runs of one operator: all trees admitted by the parser's
   resolution for the same token forest have the same value (with C01: it is the value under the documented precedence) *)
Theorem C08_value_independent_of_runs : forall (beta : atom -> bool) its e e', Rc its e -> Rc its e' -> bvalg beta e = bvalg beta e'.
Proof. exact value_independent_of_runs. Qed.
Print Assumptions C08_value_independent_of_runs.

(* C08 for format_constraint_evaluation itself (dict / content-evaluation-result based evaluators): whenever every key of the expression
   has an entry, the evaluation succeeds, its value is the Boolean value of the expression under the entries, and -- if every entry carries
   an error message exactly when it is unfulfilled (interpretation I-C08) -- the result carries a message iff it is unfulfilled *)
Theorem C08_format_constraint_evaluation : forall c e, no_then e = true -> fc_total c e ->
  exists r, fc_evaluation c (Some e) = Ok r /\ ff r = bval (beta_of c) e /\ (fc_messages_ok c e -> (fmsg r <> None <-> ff r = false)).
Proof. exact fc_evaluation_value. Qed.
Print Assumptions C08_format_constraint_evaluation.

(* ---- every schedule. Model/EvalFCAsync.v writes format_constraint_evaluation as a task tree: one gathered coroutine per key occurrence, each
   reading the ContextVar and calling the user's evaluate_<key>(text) (an arbitrary program), dict(zip(keys, results)), the transformer on that dict.
   Whatever the order in which the single constraints are evaluated, the result is the sequential model's, and every single evaluation is handed
   the text the ContextVar holds in the evaluating task ([single_of c k] is the program of key k run on [c TEXTV]). *)
From Ahb Require Import Model.Async Model.EvalFCAsync Proofs.C08_async.

Theorem C08_format_constraint_evaluation_under_every_schedule : forall (U : Type) (fcp : text -> fv U -> prog (fv U)) (c : ctx (fv U))
    (e : option kexpr) (r : fv U),
  steps (initial c (fc_prog U fcp e)) (Done r) -> as_result r = fc_evaluation_gen (single_of U fcp c) e.
Proof. exact fc_every_schedule. Qed.
Print Assumptions C08_format_constraint_evaluation_under_every_schedule.

Theorem C08_sequential_model_is_fc_evaluation : forall c e, fc_evaluation c e = fc_evaluation_gen (single_of_cer c) e.
Proof. exact fc_evaluation_is_gen. Qed.
Print Assumptions C08_sequential_model_is_fc_evaluation.

(* ---- tie T for the message builder: FormatConstraintTransformer.and_/or_/xor_composition are executed by the translator on every combination of truth
   values and message modes with symbolic messages (Gen/Gen_fcmsg.v, regenerated from /repo on every run); the rows are what fc_compose -- the function
   all theorems above are about -- computes, for all message texts. *)
From Ahb Require Import Gen.Gen_fcmsg Proofs.C08_gen.
Theorem C08_message_builder_is_the_regenerated_table : Forall fc_row_ok fc_rows /\ length fc_rows = 72.
Proof. exact (conj fc_rows_ok fc_rows_complete). Qed.
Print Assumptions C08_message_builder_is_the_regenerated_table.
