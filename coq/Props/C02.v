(* C02 -- the condition-expression parser accepts exactly the documented language; everything else is SyntaxError.
   (Model: Model/Lex.v; the AHB-expression scanner and the resolver are covered in Props/C02 part 2, see DESIGN.md 12.) *)
From Ahb Require Import Model.Prelude Model.Grammar Gen.Gen_grammar Model.Lex Proofs.C01_parse Proofs.C02_language.

Theorem C02_condition_only_syntaxerror : forall s, (exists t, parse_cond s = Ok t) \/ parse_cond s = Exn SyntaxErr.
Proof. exact parse_cond_only_syntaxerror. Qed.
Print Assumptions C02_condition_only_syntaxerror.

Theorem C02_accepts_iff_documented : forall s,
  (exists t, parse_cond s = Ok t) <-> exists ts its, lex s = Some ts /\ group ts = Some its /\ wf its = true.
Proof. exact parse_cond_accepts_iff. Qed.
Print Assumptions C02_accepts_iff_documented.

(* the local description (operand on both sides of every operator, balanced non-empty brackets, juxtaposition) is the
   grammar of the docstring *)
Theorem C02_wf_is_the_grammar : forall its, wf its = true <-> exists e, GFc its e.
Proof. exact wf_iff_grammar. Qed.
Print Assumptions C02_wf_is_the_grammar.
