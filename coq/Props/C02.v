(* C02 -- the parsers accept exactly the documented language; everything else is SyntaxError.
   Models: Model/Lex.v (condition expressions), Model/Ahb.v (AHB-expression scanner, resolver's try/except structure). *)
From Ahb Require Import Model.Prelude Model.Grammar Gen.Gen_grammar Gen.Gen_ahbgrammar Model.Lex Model.EvalAhb Model.Ahb
  Proofs.C01_parse Proofs.C02_language Proofs.C02_resolver Proofs.C01_lexprint Proofs.C01_print Proofs.C02_lexsound.

Theorem C02_condition_only_syntaxerror : forall s, (exists t, parse_cond s = Ok t) \/ parse_cond s = Exn SyntaxErr.
Proof. exact parse_cond_only_syntaxerror. Qed.
Print Assumptions C02_condition_only_syntaxerror.

Theorem C02_accepts_iff_documented : forall s,
  (exists t, parse_cond s = Ok t) <-> exists ts its, lex s = Some ts /\ group ts = Some its /\ wf its = true.
Proof. exact parse_cond_accepts_iff. Qed.
Print Assumptions C02_accepts_iff_documented.

(* the local description (operand on both sides of every operator, balanced non-empty brackets, juxtaposition) is the
   grammar of the docstring *)
Theorem C02_wf_is_the_grammar : forall its, wf its = true <-> exists e, GFc its e.
Proof. exact wf_iff_grammar. Qed.
Print Assumptions C02_wf_is_the_grammar.

Theorem C02_ahb_only_syntaxerror : forall s, (exists ps, parse_ahb s = Ok ps) \/ parse_ahb s = Exn SyntaxErr.
Proof. exact parse_ahb_only_syntaxerror. Qed.
Print Assumptions C02_ahb_only_syntaxerror.

Theorem C02_resolver_only_syntaxerror : forall s, (exists r, resolve_str s = Ok r) \/ resolve_str s = Exn SyntaxErr.
Proof. exact resolve_only_syntaxerror. Qed.
Print Assumptions C02_resolver_only_syntaxerror.

Theorem C02_ahb_condition_part_checked : forall s ps, parse_ahb s = Ok ps ->
  (exists t ce, In (RP t (Some ce)) ps /\ parse_cond ce = Exn SyntaxErr) ->
  parse_cond s = Exn SyntaxErr -> resolve_str s = Exn SyntaxErr.
Proof. exact condition_part_checked. Qed.
Print Assumptions C02_ahb_condition_part_checked.

(* the accepted language at character level: the accepted strings are exactly the writings (render: any spelling / letter case of
   an operator, any white space between tokens and inside square brackets, ptok_ok: keys are non-empty ASCII digit strings, package keys
   digits + P with an optional repeatability n..m, time conditions UB1-UB3) of the bracketed token sequence of a forest derivable in
   the ambiguous grammar of the docstring *)
Theorem C02_accepted_language : forall s, (exists t, parse_cond s = Ok t) <->
  exists its l trail, (exists e, GFc its e) /\ Forall ok_pair l /\ all_ws trail = true /\
                      map (fun p => tok_of (snd p)) l = untoks its /\ s = render l trail.
Proof. exact accepted_language. Qed.
Print Assumptions C02_accepted_language.

Theorem C02_lexer_language : forall s ts, lex s = Some ts <->
  exists l trail, Forall ok_pair l /\ all_ws trail = true /\ s = render l trail /\ ts = map (fun p => tok_of (snd p)) l.
Proof. exact lex_iff. Qed.
Print Assumptions C02_lexer_language.

(* the validity check on strings (head of is_valid_expression, Model/ValidStr.v): whatever the string, it either reaches the evaluation loop with
   the resolved tree or is reported as (False, message); a malformed string never escapes as an exception *)
From Ahb Require Import Model.ValidStr.
Theorem C02_validity_reports_malformed : forall message_of on_tree s,
  resolve_str s = Exn SyntaxErr -> is_valid_str message_of on_tree s = Ok (false, Some (message_of s)).
Proof. exact validity_reports_malformed. Qed.
Print Assumptions C02_validity_reports_malformed.

Theorem C02_validity_of_any_string : forall message_of on_tree s,
  (exists r, resolve_str s = Ok r /\ is_valid_str message_of on_tree s = on_tree r) \/
  is_valid_str message_of on_tree s = Ok (false, Some (message_of s)).
Proof. exact validity_of_any_string. Qed.
Print Assumptions C02_validity_of_any_string.
