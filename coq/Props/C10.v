(* C10 -- resolving packages and time conditions is exact bracketed substitution.
   expand / expand_tc model expand_packages / expand_time_conditions on the parse tree; time_condition_expansion is
   regenerated from TimeConditionTransformer. *)
From Ahb Require Import Model.Prelude Model.Grammar Gen.Gen_grammar Model.Lex Gen.Gen_timecond Model.Resolve Proofs.C01_parse Proofs.C10_resolve Proofs.C01_lexprint Proofs.C01_print Proofs.C02_lexsound Proofs.C10_text Proofs.C10_text_tc.

Theorem C10_expand_is_substitution : forall p e, all_known p e -> expand p e = Ok (subst p e).
Proof. exact expand_is_substitution. Qed.
Print Assumptions C10_expand_is_substitution.

(* the awaited results are re-inserted at the occurrence that produced them (repeated and neighbouring packages) *)
Theorem C10_placeholder_pass : forall e n rs rest, length rs = length (pkg_keys e) ->
  fst (pass_from (fst (place e n)) n (rs ++ rest)) = inject (fst (subst_by e (rs ++ rest))) /\ snd (subst_by e (rs ++ rest)) = rest.
Proof. exact pass_is_positional_substitution. Qed.
Print Assumptions C10_placeholder_pass.

Theorem C10_unknown_aborts : forall p e, no_syntax_errors p e ->
  (exists k rep, In (APkg k rep) (atoms e) /\ pkg_lookup p k = None) -> expand p e = Exn NotImpl.
Proof. exact unknown_aborts. Qed.
Print Assumptions C10_unknown_aborts.

(* the resolved tree equals, modulo same-operator runs, every tree the parser's resolution admits for the expression in
   which each package is replaced by its bracketed package expression (forest level) *)
Theorem C10_commutes_modulo_runs : forall pits pe its e e2, packages_derivable pits pe ->
  Rc its e -> Rc (subst_items pits its) e2 -> flat (subst_tree pe e) = flat e2.
Proof. exact resolving_commutes_with_parsing. Qed.
Print Assumptions C10_commutes_modulo_runs.

Theorem C10_timeconds :
  expand_tc (EAtom (ATime tUB1)) = Ok (EAtom (AKey t932)) /\ expand_tc (EAtom (ATime tUB2)) = Ok (EAtom (AKey t934)) /\
  expand_tc (EAtom (ATime tUB3)) = Ok ub3_tree /\ tc_lookup tUB3 = Some (TcExpr ub3_text ub3_tree) /\
  parse_cond ub3_text = Ok (flat ub3_tree) /\
  parse_cond ([40%N] ++ ub3_text ++ [41%N]) = Ok (flat ub3_tree).
Proof. exact timeconds. Qed.
Print Assumptions C10_timeconds.

(* text level, as the property is worded: [l; trail] is the expression as written (any spelling, any white space), e any parse the
   resolution admits for it, ptext the package texts; the resolver model's result is, modulo same-operator runs, what the parser model
   returns for the text in which every known package [nP] / [nPn..m] is replaced by "(" ++ package text ++ ")" *)
Theorem C10_textual_substitution : forall p ptext l trail its e,
  table_of_texts p ptext -> all_known p e -> Forall ok_pair l -> all_ws trail = true ->
  group (map (fun q => tok_of (snd q)) l) = Some its -> Rc its e ->
  exists t', expand p e = Ok t' /\ parse_cond (subst_text ptext l trail) = Ok (flat t').
Proof. exact resolver_is_textual_substitution. Qed.
Print Assumptions C10_textual_substitution.

(* the same for time conditions, with the replacement texts of the regenerated table ([UB1] -> [932], [UB2] -> [934], [UB3] -> "(" text ")");
   every time condition the lexer can produce is known to the table, so there is no side condition *)
Theorem C10_textual_time_conditions : forall l trail its e, Forall ok_pair l -> all_ws trail = true ->
  group (map (fun p => tok_of (snd p)) l) = Some its -> Rc its e ->
  exists t', expand_tc e = Ok t' /\ parse_cond (tc_text l trail) = Ok (flat t').
Proof. exact resolver_is_textual_tc_substitution_closed. Qed.
Print Assumptions C10_textual_time_conditions.

(* ---- every schedule. Model/ResolveAsync.v writes expand_packages as a task tree: the transformer pass (repeatabilities) runs first, the
   coroutines of the package occurrences are gathered in scan order, every result goes to the place of its own coroutine. Resolving a package key
   is an arbitrary program of the key. Whatever the order in which the look-ups complete, the resolved tree is the sequential substitution; with a
   package table that is expand_packages of Model/Resolve.v, i.e. the function the theorems above are about. *)
From Ahb Require Import Model.Async Model.ResolveAsync Proofs.C10_async.

Theorem C10_expansion_under_every_schedule : forall (U : Type) (lookup_prog : text -> prog (pv U)) (c : ctx (pv U)) (e : expr) (r : pv U),
  steps (initial c (expand_prog U lookup_prog e)) (Done r) -> as_tree r = expand_packages_fn (lookup_of U lookup_prog c) e.
Proof. exact expand_every_schedule. Qed.
Print Assumptions C10_expansion_under_every_schedule.

Theorem C10_sequential_expansion_is_expand_packages : forall p e, expand_packages p e = expand_packages_fn (lookup_of_table p) e.
Proof. exact expand_is_fn. Qed.
Print Assumptions C10_sequential_expansion_is_expand_packages.
