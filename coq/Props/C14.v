(* C14 -- soll_is_required is equivalent to rewriting SOLL at every level.
   Generic form: for every evaluation ev of node expressions and every rewriting rw of expressions that changes nothing but
   a SOLL indicator into m; concrete form: for the AHB-expression evaluation model and the token-level rewriting. *)
From Ahb Require Import Model.Prelude Gen.Gen_valmaps Gen.Gen_enums Model.EvalRC Model.EvalAhb Model.Validate
  Proofs.C14_sim Proofs.C14_soll Proofs.C14_concrete.

Theorem C14_generic : forall nx ev ir m flag, (m = I_MUSS /\ flag = true) \/ (m = I_KANN /\ flag = false) ->
  forall rw : nx -> nx,
  (forall x, ev (rw x) = match ev x with Ok r => Ok (set_soll m r) | Exn e => Exn e end) -> (forall x, ir (rw x) = ir x) ->
  forall n parent b, validate_node nx ev ir n parent flag = validate_node nx ev ir (g_node rw n) parent b.
Proof. exact soll_flag_is_rewriting. Qed.
Print Assumptions C14_generic.

Theorem C14_true : forall c ir n parent b, (forall x, ir (rw_c t_muss x) = ir x) ->
  validate_node _ (evc c) ir n parent true = validate_node _ (evc c) ir (rewrite_tree t_muss n) parent b.
Proof. exact soll_true_is_muss. Qed.
Print Assumptions C14_true.

Theorem C14_false : forall c ir n parent b, (forall x, ir (rw_c t_kann x) = ir x) ->
  validate_node _ (evc c) ir n parent false = validate_node _ (evc c) ir (rewrite_tree t_kann n) parent b.
Proof. exact soll_false_is_kann. Qed.
Print Assumptions C14_false.
