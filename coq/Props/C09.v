(* C09 -- AHB expressions: indicator normalisation and "the first fulfilled part decides".
   (The splitting of the string into parts -- the AHB scanner -- is part 2, see DESIGN.md section 12.) *)
From Ahb Require Import Model.Prelude Model.Grammar Gen.Gen_logic Gen.Gen_valmaps Gen.Gen_enums Model.EvalRC Model.EvalFC Model.EvalAhb Proofs.C09_ahb.

(* every ASCII letter-case variant of M/Muss, S/Soll, K/Kann, X, O, U is mapped to its canonical indicator
   (over the callbacks regenerated from /repo) *)
Theorem C09_normalise : forall v,
  (In v (flat_map case_variants [w_m; w_muss]) -> modal_mark_of_token v = Ok I_MUSS) /\
  (In v (flat_map case_variants [w_s; w_soll]) -> modal_mark_of_token v = Ok I_SOLL) /\
  (In v (flat_map case_variants [w_k; w_kann]) -> modal_mark_of_token v = Ok I_KANN) /\
  (In v (flat_map case_variants [w_x]) -> prefix_operator_of_token v = Ok I_PX) /\
  (In v (flat_map case_variants [w_o]) -> prefix_operator_of_token v = Ok I_PO) /\
  (In v (flat_map case_variants [w_u]) -> prefix_operator_of_token v = Ok I_PU).
Proof. exact normalise. Qed.
Print Assumptions C09_normalise.

(* the result is the first part whose requirement constraints are fulfilled (marked conditional iff there are several
   parts), otherwise the last part *)
Theorem C09_select : forall many rs r, select many rs = Some r ->
  (exists pre x post, rs = pre ++ x :: post /\ forallb (fun y => negb (fulfilled_part y)) pre = true /\ fulfilled_part x = true /\
                      r = mark_conditional many x)
  \/ (forallb (fun y => negb (fulfilled_part y)) rs = true /\ exists pre, rs = pre ++ [r]).
Proof. exact select_spec. Qed.
Print Assumptions C09_select.

Theorem C09_selected_part_is_reported : forall many r,
  a_ind (mark_conditional many r) = a_ind r /\ r_fulfilled (a_rc (mark_conditional many r)) = r_fulfilled (a_rc r) /\
  r_hints (a_rc (mark_conditional many r)) = r_hints (a_rc r) /\ r_fcx (a_rc (mark_conditional many r)) = r_fcx (a_rc r) /\
  a_fc (mark_conditional many r) = a_fc r.
Proof. exact mark_conditional_keeps. Qed.
Print Assumptions C09_selected_part_is_reported.

Theorem C09_bare_indicator : forall i, fulfilled_part (bare_result i) = true /\ r_conditional (a_rc (bare_result i)) = Some false /\
  a_fc (bare_result i) = fc_ok.
Proof. exact bare_counts_fulfilled. Qed.
Print Assumptions C09_bare_indicator.
