(* C09 -- AHB expressions are split into their parts (scanner model Model/Ahb.v, tied to Lark by correspondence), the
   indicators are normalised, and the first fulfilled part decides. *)
From Ahb Require Import Model.Prelude Model.Grammar Gen.Gen_logic Gen.Gen_valmaps Gen.Gen_enums Model.EvalRC Model.EvalFC Model.EvalAhb Gen.Gen_grammar Gen.Gen_ahbgrammar Model.Lex Model.Ahb Proofs.C09_ahb Proofs.C09_split Proofs.C09_sound.

(* every ASCII letter-case variant of M/Muss, S/Soll, K/Kann, X, O, U is mapped to its canonical indicator
   (over the callbacks regenerated from /repo) *)
Theorem C09_normalise : forall v,
  (In v (flat_map case_variants [w_m; w_muss]) -> modal_mark_of_token v = Ok I_MUSS) /\
  (In v (flat_map case_variants [w_s; w_soll]) -> modal_mark_of_token v = Ok I_SOLL) /\
  (In v (flat_map case_variants [w_k; w_kann]) -> modal_mark_of_token v = Ok I_KANN) /\
  (In v (flat_map case_variants [w_x]) -> prefix_operator_of_token v = Ok I_PX) /\
  (In v (flat_map case_variants [w_o]) -> prefix_operator_of_token v = Ok I_PO) /\
  (In v (flat_map case_variants [w_u]) -> prefix_operator_of_token v = Ok I_PU).
Proof. exact normalise. Qed.
Print Assumptions C09_normalise.

(* the result is the first part whose requirement constraints are fulfilled (marked conditional iff there are several
   parts), otherwise the last part *)
Theorem C09_select : forall many rs r, select many rs = Some r ->
  (exists pre x post, rs = pre ++ x :: post /\ forallb (fun y => negb (fulfilled_part y)) pre = true /\ fulfilled_part x = true /\
                      r = mark_conditional many x)
  \/ (forallb (fun y => negb (fulfilled_part y)) rs = true /\ exists pre, rs = pre ++ [r]).
Proof. exact select_spec. Qed.
Print Assumptions C09_select.

Theorem C09_selected_part_is_reported : forall many r,
  a_ind (mark_conditional many r) = a_ind r /\ r_fulfilled (a_rc (mark_conditional many r)) = r_fulfilled (a_rc r) /\
  r_hints (a_rc (mark_conditional many r)) = r_hints (a_rc r) /\ r_fcx (a_rc (mark_conditional many r)) = r_fcx (a_rc r) /\
  a_fc (mark_conditional many r) = a_fc r.
Proof. exact mark_conditional_keeps. Qed.
Print Assumptions C09_selected_part_is_reported.

Theorem C09_bare_indicator : forall i, fulfilled_part (bare_result i) = true /\ r_conditional (a_rc (bare_result i)) = Some false /\
  a_fc (bare_result i) = fc_ok.
Proof. exact bare_counts_fulfilled. Qed.
Print Assumptions C09_bare_indicator.

(* splitting: any number of modal-mark parts in any ASCII letter-case spelling, each followed by a condition text over the
   CONDITION_EXPRESSION alphabet (at least two characters, e.g. every "[n]..." with white space around it), optionally
   ending in a bare modal mark, scans into exactly these parts in written order *)
Theorem C09_split : forall ps tail, Forall (fun p => part_ok p = true) ps -> (forall t, tail = Some t -> In t mm_spellings) ->
  (ps <> [] \/ tail <> None) -> parse_ahb (print_parts ps tail) = Ok (expected ps tail).
Proof. exact split_modal_mark_parts. Qed.
Print Assumptions C09_split.

Theorem C09_split_prefix_operator : forall po c, In po po_spellings -> cond_ok (last po 0%N) c = true ->
  parse_ahb (po ++ c) = Ok [RP (TokPO po) (Some c)].
Proof. exact split_prefix_operator_part. Qed.
Print Assumptions C09_split_prefix_operator.

Theorem C09_split_bare : forall w, (In w mm_spellings -> parse_ahb w = Ok [RP (TokMM w) None]) /\
                                   (In w po_spellings -> parse_ahb w = Ok [RP (TokPO w) None]).
Proof. exact split_bare_indicator. Qed.
Print Assumptions C09_split_bare.

(* converse of C09_split: whatever the scanner accepts is the concatenation of the parts it returns, in written order -- one prefix-operator
   part, or modal-mark parts of which only the last may lack a condition text; nothing is dropped, reordered or invented *)
Theorem C09_split_sound : forall s ps, parse_ahb s = Ok ps -> s = print_raws ps /\ result_shape ps.
Proof. exact parse_ahb_sound. Qed.
Print Assumptions C09_split_sound.

(* ---- every schedule. Model/EvalAhbAsync.v writes AhbExpressionTransformer._ahb_expression_async as a task tree: the parts with a condition
   expression are gathered coroutines (await requirement_constraint_evaluation, then await format_constraint_evaluation -- arbitrary programs),
   bare indicators are plain results, gather_if_necessary puts every result back into the slot of its part. Whatever the order in which the parts
   run, the result is the sequential model's; with the content-evaluation-result based evaluations that model is eval_ahb of Model/EvalAhb.v. *)
From Ahb Require Import Model.Async Model.EvalAhbAsync Proofs.C09_async.

Theorem C09_every_schedule_yields_the_sequential_result : forall (U : Type) (rcp : kexpr -> prog (av U)) (fcp : option fctoks -> prog (av U))
    (c : ctx (av U)) (a : ahb) (r : av U),
  steps (initial c (ahb_prog U rcp fcp a)) (Done r) -> as_part r = eval_ahb_gen (rcf_of U rcp c) (fcf_of U rcp fcp c) a.
Proof. exact ahb_every_schedule. Qed.
Print Assumptions C09_every_schedule_yields_the_sequential_result.

Theorem C09_first_fulfilled_part_under_every_schedule : forall (U : Type) (rcp : kexpr -> prog (av U)) (fcp : option fctoks -> prog (av U))
    (c : ctx (av U)) (a : ahb) (r : av U) (res : ahbres),
  steps (initial c (ahb_prog U rcp fcp a)) (Done r) -> as_part r = Ok res ->
  exists inds rs, mapM part_indicator a = Ok inds /\
                  map2M (eval_part_gen (rcf_of U rcp c) (fcf_of U rcp fcp c)) a inds = Ok rs /\
                  select (1 <? length a) rs = Some res.
Proof. exact selected_part_every_schedule. Qed.
Print Assumptions C09_first_fulfilled_part_under_every_schedule.

Theorem C09_sequential_model_is_eval_ahb : forall c a, eval_ahb c a = eval_ahb_gen (rc_evaluation c) (fc_of_cer c) a.
Proof. exact eval_ahb_is_gen. Qed.
Print Assumptions C09_sequential_model_is_eval_ahb.

(* ---- tie T for the selection loop: AhbExpressionTransformer._ahb_expression_async executed on every list of 1..4 evaluated parts (Gen/Gen_select.v)
   reports the part `select` reports, with the same outcome and conditional flag (bounded domain: a regenerated regression tie; C09_select is the
   unbounded statement) *)
From Ahb Require Import Gen.Gen_select Proofs.C09_gen.
Theorem C09_selection_loop_is_the_regenerated_table : forallb select_row_ok select_rows = true /\ length select_rows = 340.
Proof. exact (conj select_rows_ok select_rows_complete). Qed.
Print Assumptions C09_selection_loop_is_the_regenerated_table.

(* ---- ... and evaluate_ahb_expression_tree end to end on a small scope enumerated completely: every AHB expression of one part (five indicator spellings x
   six condition shapes) or two modal-mark parts (three spellings x four shapes each) x all assignments of the requirement keys x both verdicts of the format
   constraint (Gen/Gen_ahbeval.v) reports what eval_ahb reports: indicator, requirement result, format result. *)
From Ahb Require Import Corr.Eval Corr.Validate Gen.Gen_ahbeval Proofs.C09_eval.
Theorem C09_ahb_evaluation_is_the_regenerated_table : forallb ahb_check ahb_rows = true /\ 1000 <= length ahb_rows.
Proof. exact (conj ahb_rows_ok ahb_rows_nonempty). Qed.
Print Assumptions C09_ahb_evaluation_is_the_regenerated_table.
