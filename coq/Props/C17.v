(* C17 -- value pools offer exactly the admissible qualifiers and judge the input by them. *)
From Ahb Require Import Model.Prelude Gen.Gen_valmaps Model.EvalRC Model.EvalAhb Model.Validate Proofs.C13_validate Proofs.C17_pool.

Theorem C17_offered : forall nx ev pool d input req row, req <> IS_FORBIDDEN -> all_evaluate ev pool ->
  NoDup (map (fun p : text * text * nx => fst (fst p)) pool) ->
  validate_valuepool nx ev d pool input req = Ok row ->
  match snd row with VDe _ _ _ _ (Some possible) _ => possible = offered ev pool | _ => False end.
Proof. exact pool_offers. Qed.
Print Assumptions C17_offered.

Theorem C17_judgement : forall nx ev d pool input req possible,
  (if negb (is_forbidden req) then match pool with [(q, m, _)] => Ok [(q, m)] | _ => pool_possible nx ev pool [] end else Ok []) = Ok possible ->
  exists row, validate_valuepool nx ev d pool input req = Ok (d, row) /\
  match possible with
  | [] => row = VDe IS_FORBIDDEN true None None (Some []) DT_VALUE_POOL
  | _ =>
      match input with
      | Some i =>
          if dict_mem possible i then row = VDe IS_REQUIRED_AND_FILLED true None None (Some possible) DT_VALUE_POOL
          else if truthy_opt input
               then exists h, row = VDe IS_REQUIRED_AND_EMPTY false None (Some h) (Some possible) DT_VALUE_POOL
               else row = VDe IS_REQUIRED_AND_EMPTY true None None (Some possible) DT_VALUE_POOL
      | None => row = VDe IS_REQUIRED_AND_EMPTY true None None (Some possible) DT_VALUE_POOL
      end
  end.
Proof. exact pool_judgement. Qed.
Print Assumptions C17_judgement.

Theorem C17_forbidden_segment : forall nx ev d pool input,
  validate_valuepool nx ev d pool input IS_FORBIDDEN = Ok (d, VDe IS_FORBIDDEN true None None (Some []) DT_VALUE_POOL).
Proof. exact forbidden_segment_forbids. Qed.
Print Assumptions C17_forbidden_segment.
