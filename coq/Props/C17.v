(* C17 -- value pools offer exactly the admissible qualifiers and judge the input by them. *)
From Ahb Require Import Model.Prelude Gen.Gen_valmaps Model.EvalRC Model.EvalAhb Model.Validate Proofs.C13_validate Proofs.C17_pool.

Theorem C17_offered : forall nx ev pool d input req row, req <> IS_FORBIDDEN -> all_evaluate ev pool ->
  NoDup (map (fun p : text * text * nx => fst (fst p)) pool) ->
  validate_valuepool nx ev d pool input req = Ok row ->
  match snd row with VDe _ _ _ _ (Some possible) _ => possible = offered ev pool | _ => False end.
Proof. exact pool_offers. Qed.
Print Assumptions C17_offered.

Theorem C17_judgement : forall nx ev d pool input req possible,
  (if negb (is_forbidden req) then match pool with [(q, m, _)] => Ok [(q, m)] | _ => pool_possible nx ev pool [] end else Ok []) = Ok possible ->
  exists row, validate_valuepool nx ev d pool input req = Ok (d, row) /\
  match possible with
  | [] => row = VDe IS_FORBIDDEN true None None (Some []) DT_VALUE_POOL
  | _ =>
      match input with
      | Some i =>
          if dict_mem possible i then row = VDe IS_REQUIRED_AND_FILLED true None None (Some possible) DT_VALUE_POOL
          else if truthy_opt input
               then exists h, row = VDe IS_REQUIRED_AND_EMPTY false None (Some h) (Some possible) DT_VALUE_POOL
               else row = VDe IS_REQUIRED_AND_EMPTY true None None (Some possible) DT_VALUE_POOL
      | None => row = VDe IS_REQUIRED_AND_EMPTY true None None (Some possible) DT_VALUE_POOL
      end
  end.
Proof. exact pool_judgement. Qed.
Print Assumptions C17_judgement.

Theorem C17_forbidden_segment : forall nx ev d pool input,
  validate_valuepool nx ev d pool input IS_FORBIDDEN = Ok (d, VDe IS_FORBIDDEN true None None (Some []) DT_VALUE_POOL).
Proof. exact forbidden_segment_forbids. Qed.
Print Assumptions C17_forbidden_segment.

(* ---- tie T: validate_data_element_valuepool executed by the translator on every pool of 0..3 entries (fulfilled / unfulfilled / invalid expressions, also a
   repeated qualifier) x every entered input x the three statuses of the segment (Gen/Gen_pool.v) reports what validate_valuepool -- the function the
   theorems above are about -- reports, including the text of the hint for an unexpected value and the offered values in order. *)
From Ahb Require Import Gen.Gen_pool Proofs.C17_gen.
Theorem C17_value_pool_validation_is_the_regenerated_table : forallb pool_row_ok pool_rows = true /\ length pool_rows = 1071.
Proof. exact (conj pool_rows_ok pool_rows_complete). Qed.
Print Assumptions C17_value_pool_validation_is_the_regenerated_table.

(* ---- the judgement does not look at the meanings of the entries (an empty description included): same qualifiers and expressions entry by entry =>
   same offered qualifiers in the same order, same status, format flag and hint for every entered input; errors alike. *)
From Ahb Require Import Proofs.C17_meaning.
Theorem C17_judgement_ignores_the_meanings : forall nx ev d p1 p2 input req, same_entries nx p1 p2 ->
  same_result (validate_valuepool nx ev d p1 input req) (validate_valuepool nx ev d p2 input req).
Proof. exact judgement_ignores_meanings. Qed.
Print Assumptions C17_judgement_ignores_the_meanings.
