(* C20 -- date-time format constraints 931..935 judge the instant, not its spelling.

   eval_931 .. eval_935 (Model/Time.v) model FcEvaluator.evaluate_931..935 of the CURRENT source together with CPython
   3.12 datetime.fromisoformat / astimezone and pytz's lookup in the generated table berlin_transitions (Gen_tz); the
   model is tied to the implementation by the correspondence of ./check C20.  A verdict is the pair
   (format_constraint_fulfilled, error_message is not None): fulfilled_v = (true, false), unfulfilled_v = (false, true),
   verdict_of b = if b then fulfilled_v else unfulfilled_v.

   Instants t are whole seconds since 1970-01-01T00:00:00Z; in_range t is 1996-01-01T00:00:00Z <= t < 2038-01-01T00:00:00Z
   (t_min = 820454400, t_max = 2145916800).  eu_offset t is the EU rule computed from the calendar arithmetic alone:
   7200 from 01:00 UTC on the last Sunday of March to 01:00 UTC on the last Sunday of October, else 3600.
   render t o sh writes the instant t with UTC offset o (seconds) in the ISO-8601 extended format:
   YYYY-MM-DD, 'T' or ' ', HH:MM | HH:MM:SS | HH:MM:SS.0{1..6}, then Z | -00:00 | +-HH:MM | +-HH:MM:SS;
   shape_ok says the shape can express t and o (no seconds only on a full minute, Z / -00:00 only for o = 0,
   +-HH:MM only for whole-minute offsets).  Spellings outside this family that fromisoformat accepts (basic format,
   week dates, other separators, ',' fractions) are covered by C20_judges_instant: whatever string is parsed as an aware
   datetime, the verdict is a function of the instant it denotes. *)
From Ahb Require Import Model.Prelude Gen.Gen_tz Model.Time Proofs.C20_time.
Local Open Scope Z_scope.

(* the pytz table of the installed library IS the EU rule on the whole range of the property (bound in the statement):
   finite check of the 42 years against the generated transitions by vm_compute + the interval lemma of the lookup *)
Theorem C20_table_is_eu_rule : forall t, t_min <= t < t_max -> table_offset t = eu_offset t.
Proof. exact table_is_eu_rule. Qed.
Print Assumptions C20_table_is_eu_rule.

(* 1995-12-30 .. 2038-01-02 (15345 days, checked one by one): the calendar functions are inverse to each other *)
Theorem C20_civil_roundtrip : forall z, 9494 <= z <= 24838 -> days_from_civil3 (civil_from_days z) = z.
Proof. exact civil_roundtrip. Qed.
Print Assumptions C20_civil_roundtrip.

(* 932/933 fulfilled exactly at 00:00:00 German local time, 934/935 exactly at 06:00:00, for every instant of the range,
   every offset strictly between -24 h and +24 h and every shape; seconds and offsets are symbolic in the proof *)
Theorem C20_strom_gas : forall t o sh, in_range t -> -86400 < o < 86400 -> shape_ok sh t o ->
  eval_932 (render t o sh) = Ok (verdict_of ((t + eu_offset t) mod 86400 =? 0)) /\
  eval_933 (render t o sh) = Ok (verdict_of ((t + eu_offset t) mod 86400 =? 0)) /\
  eval_934 (render t o sh) = Ok (verdict_of ((t + eu_offset t) mod 86400 =? 21600)) /\
  eval_935 (render t o sh) = Ok (verdict_of ((t + eu_offset t) mod 86400 =? 21600)).
Proof. exact strom_gas. Qed.
Print Assumptions C20_strom_gas.

(* so the verdict never depends on the offset (or the shape) used to write the instant *)
Theorem C20_offset_invariant : forall t o1 o2 sh1 sh2, in_range t ->
  -86400 < o1 < 86400 -> -86400 < o2 < 86400 -> shape_ok sh1 t o1 -> shape_ok sh2 t o2 ->
  eval_932 (render t o1 sh1) = eval_932 (render t o2 sh2) /\ eval_933 (render t o1 sh1) = eval_933 (render t o2 sh2) /\
  eval_934 (render t o1 sh1) = eval_934 (render t o2 sh2) /\ eval_935 (render t o1 sh1) = eval_935 (render t o2 sh2).
Proof. exact offset_invariant. Qed.
Print Assumptions C20_offset_invariant.

(* 931: fulfilled exactly if the date-time is written with a zero UTC offset *)
Theorem C20_931 : forall t o sh, in_range t -> -86400 < o < 86400 -> shape_ok sh t o ->
  eval_931 (render t o sh) = Ok (verdict_of (o =? 0)).
Proof. exact zero_offset. Qed.
Print Assumptions C20_931.

(* independent of the spelling: ANY string that is parsed as an aware datetime d with offset off (microseconds) is judged
   by the instant it denotes, instant_of d off = floor((wall clock of d - off) / 1 s), when that instant is in the range *)
Theorem C20_judges_instant : forall s d off, parse_as_datetime s = PDate d off -> in_range (instant_of d off) ->
  let t := instant_of d off in
  eval_932 s = Ok (verdict_of ((t + eu_offset t) mod 86400 =? 0)) /\
  eval_933 s = Ok (verdict_of ((t + eu_offset t) mod 86400 =? 0)) /\
  eval_934 s = Ok (verdict_of ((t + eu_offset t) mod 86400 =? 21600)) /\
  eval_935 s = Ok (verdict_of ((t + eu_offset t) mod 86400 =? 21600)) /\
  eval_931 s = Ok (verdict_of (off =? 0)).
Proof. exact judges_instant. Qed.
Print Assumptions C20_judges_instant.

(* and the rendered strings do denote the instant and offset they were rendered from *)
Theorem C20_rendered_instant : forall t o sh, in_range t -> -86400 < o < 86400 -> shape_ok sh t o ->
  exists d, parse_as_datetime (render t o sh) = PDate d (o * us_per_s) /\ instant_of d (o * us_per_s) = t.
Proof. exact rendered_instant. Qed.
Print Assumptions C20_rendered_instant.

(* any other string -- parse_as_datetime s = PErr, i.e. (C20_parse_err_cases) empty, rejected by fromisoformat, or
   without offset -- is reported unfulfilled with an error message by all five *)
Theorem C20_other_strings : forall s, parse_as_datetime s = PErr ->
  eval_931 s = Ok unfulfilled_v /\ eval_932 s = Ok unfulfilled_v /\ eval_933 s = Ok unfulfilled_v /\
  eval_934 s = Ok unfulfilled_v /\ eval_935 s = Ok unfulfilled_v.
Proof. exact other_strings. Qed.
Print Assumptions C20_other_strings.

Theorem C20_parse_err_cases : forall s, parse_as_datetime s = PErr <->
  s = [] \/ fromisoformat (let t := map classify s in if ends_with_Z t then replace_Z t else t) = None
  \/ exists d, fromisoformat (let t := map classify s in if ends_with_Z t then replace_Z t else t) = Some d /\ dt_off d = None.
Proof. exact parse_err_cases. Qed.
Print Assumptions C20_parse_err_cases.

(* no string makes any of the five raise (including the datetimes at the edges of year 1 / 9999, where astimezone
   overflows: Proofs.C20_time.example_overflow_reported); the answer is fulfilled without, or unfulfilled with a message *)
Theorem C20_never_raises : forall s k, In k fc_keys ->
  eval_93x k s = Ok fulfilled_v \/ eval_93x k s = Ok unfulfilled_v.
Proof. exact never_raises. Qed.
Print Assumptions C20_never_raises.

(* ---- what is in front of the datetime counts: a string whose first character is not an ASCII digit is no datetime (fromisoformat reads the year first), so
   an input with white space in front of a fulfilling datetime is unfulfilled, with a message, for all five -- the input is judged as entered, not trimmed.
   White space BEHIND the datetime (Proofs/C20_trailing.v): a string without NUL that ends in an ASCII white space character parses, if at all, as a NAIVE
   datetime -- no time or offset field can end before a trailing non-digit byte -- so it is unfulfilled as well. *)
From Ahb Require Import Proofs.C20_padded.
Theorem C20_first_character_must_be_a_digit : forall c s, is_ascii_digit c = false -> parse_as_datetime (c :: s) = PErr.
Proof. exact first_character_is_a_digit. Qed.
Print Assumptions C20_first_character_must_be_a_digit.

Theorem C20_leading_white_space_is_no_datetime : forall c s, In c [32; 9; 10; 13; 11; 12; 160; 8239; 12288]%N ->
  eval_931 (c :: s) = Ok unfulfilled_v /\ eval_932 (c :: s) = Ok unfulfilled_v /\ eval_933 (c :: s) = Ok unfulfilled_v /\
  eval_934 (c :: s) = Ok unfulfilled_v /\ eval_935 (c :: s) = Ok unfulfilled_v.
Proof. exact leading_white_space_is_no_datetime. Qed.
Print Assumptions C20_leading_white_space_is_no_datetime.

From Ahb Require Import Proofs.C20_trailing.
Theorem C20_trailing_white_space_is_no_datetime : forall s w, ~ In 0%N s -> In w [32; 9; 10; 13; 11; 12]%N ->
  parse_as_datetime (s ++ [w]) = PErr /\
  eval_931 (s ++ [w]) = Ok unfulfilled_v /\ eval_932 (s ++ [w]) = Ok unfulfilled_v /\ eval_933 (s ++ [w]) = Ok unfulfilled_v /\
  eval_934 (s ++ [w]) = Ok unfulfilled_v /\ eval_935 (s ++ [w]) = Ok unfulfilled_v.
Proof. exact (fun s w H0 Hw => conj (trailing_white_space_is_no_datetime s w H0 Hw) (trailing_white_space_unfulfilled s w H0 Hw)). Qed.
Print Assumptions C20_trailing_white_space_is_no_datetime.

(* in general: an aware datetime ends in a digit or in Z -- whatever else stands last (any white space, a letter, a sign, punctuation), the string is no datetime *)
Theorem C20_last_character_is_a_digit_or_Z : forall s w, ~ In 0%N s ->
  is_ascii_digit w = false -> w <> 90%N -> w <> 0%N -> is_surrogate (Ch w) = false -> parse_as_datetime (s ++ [w]) = PErr.
Proof. exact (fun s w H0 Hd Hz Hn Hs => last_character_is_digit_or_Z s w H0 (conj Hd (conj Hz (conj Hn Hs)))). Qed.
Print Assumptions C20_last_character_is_a_digit_or_Z.
