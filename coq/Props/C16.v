(* C16 -- an invalid expression makes one node optional and never aborts validation. kn replaces the expression of an
   arbitrary subset of the nodes carrying an invalid expression by 'Kann'; rel_rows: same length, same discriminators,
   pointwise equal results except at the replaced nodes themselves, and the same exception if there is one. *)
From Ahb Require Import Model.Prelude Gen.Gen_valmaps Model.EvalRC Model.EvalAhb Model.Validate Proofs.C13_validate Proofs.C14_sim Proofs.C16_invalid.

Theorem C16_contained : forall nx ev ir soll (kn : nx -> nx),
  (forall x, kn x = x \/ (ev x = Exn InvalidExpr /\ ev (kn x) = Ok (bare_result I_KANN))) ->
  forall n parent, parent_ok parent ->
  rel_rows Rv (validate_node nx ev ir n parent soll) (validate_node nx ev ir (g_node kn n) parent soll).
Proof. exact invalid_is_contained. Qed.
Print Assumptions C16_contained.

Theorem C16_node_itself : forall nx ev ir soll (x : nx) p, ev x = Exn InvalidExpr ->
  (match p with Some q => is_forbidden q | None => false end) = false ->
  own_status ev ir x p soll = Ok (VSeg IS_OPTIONAL (Some (ir x))).
Proof. exact invalid_node_itself. Qed.
Print Assumptions C16_node_itself.

(* an invalid value-pool entry is treated as selectable: it is among the offered values of its pool (C17_offered says the offered values are what the
   element reports when its segment is not forbidden) *)
From Ahb Require Import Proofs.C17_pool.
Theorem C16_pool_entry_selectable : forall nx (ev : nx -> result ahbres) (pool : list (text * text * nx)) p,
  In p pool -> ev (snd p) = Exn InvalidExpr -> In (qm p) (offered ev pool).
Proof. exact invalid_entry_is_offered. Qed.
Print Assumptions C16_pool_entry_selectable.
